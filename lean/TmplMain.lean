/-
  Prints `Tmpl.render` of the regenerated template with the regenerated configuration as raw bytes
  (compared by ./check C19 with the real generator's output before gofmt).
-/
import ArtVerif.Model.Template
import ArtVerif.Gen.Template
open ArtVerif.Tmpl ArtVerif

def main : IO Unit := do
  let cfgs : List Cfg := Gen.treeConfigs.map (fun r => r.map (fun (a, b) => (strBytes a, strBytes b)))
  let out := render Gen.treeTmplBytes cfgs
  let stdout ← IO.getStdout
  stdout.write (ByteArray.mk (out.map (fun n => UInt8.ofNat n)).toArray)
