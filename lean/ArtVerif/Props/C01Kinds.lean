/-
  C01 (companion) — the contract of `refines_map` discharged for the library's own tree kinds.
-/
import ArtVerif.Props.C01
import ArtVerif.Props.C07
import ArtVerif.Props.C08
import ArtVerif.Props.C09
namespace ArtVerif.C01Kinds
open ArtVerif T Tree C01

variable {V : Type}

/-- numeric trees store the fixed-width encoding of the key (`tf = id` on encodings): any set of encodings is
    prefix-free -/
theorem numeric_prefixFree (t : NumTy) (keys : List Nat) : PrefixFree id (keys.map t.enc) := by
  intro a ha b hb hpre
  simp only [List.mem_map] at ha hb
  obtain ⟨x, _, rfl⟩ := ha
  obtain ⟨y, _, rfl⟩ := hb
  exact List.IsPrefix.eq_of_length hpre (by show (t.enc x).length = (t.enc y).length; rw [C07.NumTy_enc_length, C07.NumTy_enc_length])

/-- **numeric kinds**: every history whose inserted keys are encodings of numbers of one type refines the ideal
    map on encodings; encodings identify numbers by value with all NaNs one key and −0 distinct from +0
    (`C07.NumTy_enc_eq_iff`) -/
theorem numeric_refines_map (t : NumTy) (ops : List (Op V))
    (henc : ∀ k ∈ insertedKeys ops, ∃ bits, k = t.enc bits) :
    (runT id ({} : Tree V) ops).2 = (runS (fun _ => none) ops).2 ∧
    abs (runT id ({} : Tree V) ops).1 = (runS (fun _ => none) ops).1 := by
  apply refines_map
  intro a ha b hb hpre
  obtain ⟨x, rfl⟩ := henc a ha
  obtain ⟨y, rfl⟩ := henc b hb
  exact List.IsPrefix.eq_of_length hpre (by show (t.enc x).length = (t.enc y).length; rw [C07.NumTy_enc_length, C07.NumTy_enc_length])

theorem numeric_key_identity (t : NumTy) (h8 : 8 ∣ t.width) (a b : Nat) (ha : a < 2 ^ t.width) (hb : b < 2 ^ t.width) :
    t.enc a = t.enc b ↔ a = b ∨ (t.isNaN a = true ∧ t.isNaN b = true) :=
  C07.NumTy_enc_eq_iff t h8 a b ha hb

/-- **byte-string kinds**: stored key = original ++ [0]; every history over 0x00-free originals refines the ideal map -/
theorem alpha_refines_map (ops : List (Op V))
    (hterm : ∀ k ∈ insertedKeys ops, ∃ o : Bytes, k = o ++ [0] ∧ (0 : UInt8) ∉ o) :
    (runT id ({} : Tree V) ops).2 = (runS (fun _ => none) ops).2 ∧
    abs (runT id ({} : Tree V) ops).1 = (runS (fun _ => none) ops).1 := by
  apply refines_map
  intro a ha b hb hpre
  obtain ⟨oa, rfl, h0a⟩ := hterm a ha
  obtain ⟨ob, rfl, h0b⟩ := hterm b hb
  simp only [id] at hpre ⊢
  rw [alpha_terminated_prefixFree oa ob h0a h0b hpre]

/-- **collation kinds**: `C08.collation_refines_map`; **compound kinds**: `C09.compound_refines_map` (restated) -/
theorem collation_refines_map (sk : Bytes → Bytes) (ops : List (Op V))
    (h : C08.KeysOK sk (insertedKeys ops)) :
    (runT (C08.tfColl sk) ({} : Tree V) ops).2 = (runS (fun _ => none) ops).2 ∧
    abs (runT (C08.tfColl sk) ({} : Tree V) ops).1 = (runS (fun _ => none) ops).1 :=
  C08.collation_refines_map sk ops h

end ArtVerif.C01Kinds
