/-
  C07: the numeric key codecs (keys.go: Unsigned/Signed/FloatBinaryKey Transform/Restore,
  modelled in Model/Codec.lean) have fixed length, round-trip, and are order isomorphisms
  from the declared order of the key type to `bytes.Compare` (`lexLt`).

  Only property statements live here; all helper lemmas are in Proofs/Codec.lean.
  Widths: every theorem about encU/encI is generic in the bit width `w` with `8 ∣ w`
  (and `0 < w` where the sign bit matters), hence covers w = 8, 16, 32, 64.
  Float theorems are stated once per format (fmt32, fmt64).
-/
import ArtVerif.Proofs.Codec
namespace ArtVerif.C07

/-! ## unsigned -/

theorem encU_length {w : Nat} (x : BitVec w) : (encU x).length = w / 8 :=
  toBE_length _ _

theorem decU_encU {w : Nat} (h8 : 8 ∣ w) (x : BitVec w) : decU w (encU x) = x :=
  ofNat_ofBE_toBE h8 x

theorem encU_lt_iff {w : Nat} (h8 : 8 ∣ w) (x y : BitVec w) :
    lexLt (encU x) (encU y) = true ↔ x.toNat < y.toNat :=
  lexLt_toBE_word h8 x y

theorem encU_inj {w : Nat} (h8 : 8 ∣ w) (x y : BitVec w) : encU x = encU y ↔ x = y :=
  ⟨toBE_word_inj h8, fun h => h ▸ rfl⟩

/-! ## signed -/

theorem encI_length {w : Nat} (x : BitVec w) : (encI x).length = w / 8 :=
  toBE_length _ _

theorem decI_encI {w : Nat} (h8 : 8 ∣ w) (x : BitVec w) : decI w (encI x) = x := by
  unfold decI encI; rw [ofNat_ofBE_toBE h8, xor_signBit_xor_signBit]

theorem encI_lt_iff {w : Nat} (h8 : 8 ∣ w) (h0 : 0 < w) (x y : BitVec w) :
    lexLt (encI x) (encI y) = true ↔ x.toInt < y.toInt := by
  unfold encI; rw [lexLt_toBE_word h8, signFlip_lt_iff h0]

theorem encI_inj {w : Nat} (h8 : 8 ∣ w) (x y : BitVec w) : encI x = encI y ↔ x = y := by
  constructor
  · intro e
    have := toBE_word_inj h8 e
    rw [← xor_signBit_xor_signBit x, this, xor_signBit_xor_signBit]
  · intro h; rw [h]

/-! ## floats: binary32 -/

theorem encF32_length (x : BitVec 32) : (encF fmt32 x).length = 4 := toBE_length _ _

theorem decF32_encF32 (x : BitVec 32) (h : ¬ fmt32.isNaN x = true) :
    decF fmt32 (encF fmt32 x) = x :=
  fmt32_wordFacts.decF_encF (by decide) (by simpa using h)

theorem decF32_encF32_nan (x : BitVec 32) (h : fmt32.isNaN x = true) :
    fmt32.isNaN (decF fmt32 (encF fmt32 x)) = true :=
  fmt32_wordFacts.decF_encF_nan (by decide) h

theorem encF32_nan_eq (x y : BitVec 32) (hx : fmt32.isNaN x = true) (hy : fmt32.isNaN y = true) :
    encF fmt32 x = encF fmt32 y :=
  fmt32_wordFacts.encF_nan_eq hx hy

/-- Order isomorphism: `rank` = NaN lowest, then −Inf < negatives < −0 < +0 < positives < +Inf. -/
theorem encF32_lt_iff (x y : BitVec 32) :
    lexLt (encF fmt32 x) (encF fmt32 y) = true ↔ fmt32.rank x < fmt32.rank y :=
  fmt32_wordFacts.encF_lt_iff (by decide) x y

theorem encF32_eq_iff (x y : BitVec 32) :
    encF fmt32 x = encF fmt32 y ↔ (x = y ∨ (fmt32.isNaN x = true ∧ fmt32.isNaN y = true)) :=
  fmt32_wordFacts.encF_eq_iff (by decide) x y

/-! ## floats: binary64 -/

theorem encF64_length (x : BitVec 64) : (encF fmt64 x).length = 8 := toBE_length _ _

theorem decF64_encF64 (x : BitVec 64) (h : ¬ fmt64.isNaN x = true) :
    decF fmt64 (encF fmt64 x) = x :=
  fmt64_wordFacts.decF_encF (by decide) (by simpa using h)

theorem decF64_encF64_nan (x : BitVec 64) (h : fmt64.isNaN x = true) :
    fmt64.isNaN (decF fmt64 (encF fmt64 x)) = true :=
  fmt64_wordFacts.decF_encF_nan (by decide) h

theorem encF64_nan_eq (x y : BitVec 64) (hx : fmt64.isNaN x = true) (hy : fmt64.isNaN y = true) :
    encF fmt64 x = encF fmt64 y :=
  fmt64_wordFacts.encF_nan_eq hx hy

theorem encF64_lt_iff (x y : BitVec 64) :
    lexLt (encF fmt64 x) (encF fmt64 y) = true ↔ fmt64.rank x < fmt64.rank y :=
  fmt64_wordFacts.encF_lt_iff (by decide) x y

theorem encF64_eq_iff (x y : BitVec 64) :
    encF fmt64 x = encF fmt64 y ↔ (x = y ∨ (fmt64.isNaN x = true ∧ fmt64.isNaN y = true)) :=
  fmt64_wordFacts.encF_eq_iff (by decide) x y

/-! ## the uniform wrappers `NumTy.enc / dec / rank` -/

theorem NumTy_enc_length (t : NumTy) (bits : Nat) : (t.enc bits).length = t.width / 8 := by
  cases t <;> exact toBE_length _ _

/-- Round trip on bit patterns (`bits < 2^width`), NaN patterns excepted. -/
theorem NumTy_dec_enc (t : NumTy) (h8 : 8 ∣ t.width) (bits : Nat) (hb : bits < 2 ^ t.width)
    (hn : t.isNaN bits = false) : t.dec (t.enc bits) = bits := by
  cases t with
  | u w =>
    have h8 : 8 ∣ w := h8
    show (decU w (encU (BitVec.ofNat w bits))).toNat = bits
    rw [decU_encU h8, BitVec.toNat_ofNat]; exact Nat.mod_eq_of_lt hb
  | i w =>
    have h8 : 8 ∣ w := h8
    show (decI w (encI (BitVec.ofNat w bits))).toNat = bits
    rw [decI_encI h8, BitVec.toNat_ofNat]; exact Nat.mod_eq_of_lt hb
  | f32 =>
    simp only [NumTy.dec, NumTy.enc]
    rw [decF32_encF32 _ (by simpa [NumTy.isNaN] using hn), BitVec.toNat_ofNat]
    exact Nat.mod_eq_of_lt hb
  | f64 =>
    simp only [NumTy.dec, NumTy.enc]
    rw [decF64_encF64 _ (by simpa [NumTy.isNaN] using hn), BitVec.toNat_ofNat]
    exact Nat.mod_eq_of_lt hb

/-- A NaN decodes to a NaN (the canonical one). -/
theorem NumTy_dec_enc_nan (t : NumTy) (bits : Nat) (hn : t.isNaN bits = true) :
    t.isNaN (t.dec (t.enc bits)) = true := by
  cases t with
  | u w => simp [NumTy.isNaN] at hn
  | i w => simp [NumTy.isNaN] at hn
  | f32 =>
    simp only [NumTy.isNaN, NumTy.dec, NumTy.enc] at hn ⊢
    rw [BitVec.ofNat_toNat, BitVec.setWidth_eq]; exact decF32_encF32_nan _ hn
  | f64 =>
    simp only [NumTy.isNaN, NumTy.dec, NumTy.enc] at hn ⊢
    rw [BitVec.ofNat_toNat, BitVec.setWidth_eq]; exact decF64_encF64_nan _ hn

/-- All NaN patterns of a type encode alike. -/
theorem NumTy_enc_nan_eq (t : NumTy) (a b : Nat) (ha : t.isNaN a = true) (hb : t.isNaN b = true) :
    t.enc a = t.enc b := by
  cases t with
  | u w => simp [NumTy.isNaN] at ha
  | i w => simp [NumTy.isNaN] at ha
  | f32 => exact encF32_nan_eq _ _ ha hb
  | f64 => exact encF64_nan_eq _ _ ha hb

/-- Order isomorphism for every numeric key type. -/
theorem NumTy_enc_lt_iff (t : NumTy) (h8 : 8 ∣ t.width) (h0 : 0 < t.width) (a b : Nat) :
    lexLt (t.enc a) (t.enc b) = true ↔ t.rank a < t.rank b := by
  cases t with
  | u w =>
    have h8 : 8 ∣ w := h8
    show lexLt (encU (BitVec.ofNat w a)) (encU (BitVec.ofNat w b)) = true ↔
      ((BitVec.ofNat w a).toNat : Int) < ((BitVec.ofNat w b).toNat : Int)
    rw [encU_lt_iff h8]; omega
  | i w => exact encI_lt_iff h8 h0 _ _
  | f32 => exact encF32_lt_iff _ _
  | f64 => exact encF64_lt_iff _ _

/-- Injectivity up to NaN for every numeric key type (on bit patterns `< 2^width`). -/
theorem NumTy_enc_eq_iff (t : NumTy) (h8 : 8 ∣ t.width) (a b : Nat)
    (ha : a < 2 ^ t.width) (hb : b < 2 ^ t.width) :
    t.enc a = t.enc b ↔ (a = b ∨ (t.isNaN a = true ∧ t.isNaN b = true)) := by
  have key : ∀ w (a b : Nat), a < 2 ^ w → b < 2 ^ w →
      (BitVec.ofNat w a = BitVec.ofNat w b ↔ a = b) := by
    intro w a b ha hb
    constructor
    · intro h
      have := congrArg BitVec.toNat h
      simpa [BitVec.toNat_ofNat, Nat.mod_eq_of_lt ha, Nat.mod_eq_of_lt hb] using this
    · intro h; rw [h]
  cases t with
  | u w =>
    have h8 : 8 ∣ w := h8
    simp only [NumTy.enc, NumTy.isNaN, encU_inj h8, key w a b ha hb]; simp
  | i w =>
    have h8 : 8 ∣ w := h8
    simp only [NumTy.enc, NumTy.isNaN, encI_inj h8, key w a b ha hb]; simp
  | f32 => simp only [NumTy.enc, NumTy.isNaN, encF32_eq_iff, key 32 a b ha hb]
  | f64 => simp only [NumTy.enc, NumTy.isNaN, encF64_eq_iff, key 64 a b ha hb]

/-! ## tuples: concatenating fixed-length order-preserving encodings is lexicographic -/

/-- If `e₁` has fixed length and `e₁`, `e₂` reflect the orders `r₁`, `r₂` (and `e₁` is injective),
then `a, b ↦ e₁ a ++ e₂ b` reflects the lexicographic product order. -/
theorem concat_lex {α β : Type} (e₁ : α → Bytes) (e₂ : β → Bytes)
    (r₁ : α → α → Prop) (r₂ : β → β → Prop) (n : Nat)
    (hlen : ∀ a, (e₁ a).length = n)
    (h₁ : ∀ a a', lexLt (e₁ a) (e₁ a') = true ↔ r₁ a a')
    (hinj : ∀ a a', e₁ a = e₁ a' → a = a')
    (h₂ : ∀ b b', lexLt (e₂ b) (e₂ b') = true ↔ r₂ b b')
    (a a' : α) (b b' : β) :
    lexLt (e₁ a ++ e₂ b) (e₁ a' ++ e₂ b') = true ↔ (r₁ a a' ∨ (a = a' ∧ r₂ b b')) := by
  rw [lexLt_append_of_length_eq _ _ ((hlen a).trans (hlen a').symm), h₁, h₂]
  constructor
  · rintro (h | ⟨e, h⟩)
    · exact Or.inl h
    · exact Or.inr ⟨hinj _ _ e, h⟩
  · rintro (h | ⟨e, h⟩)
    · exact Or.inl h
    · exact Or.inr ⟨e ▸ rfl, h⟩

/-- The concatenation again has fixed length, so `concat_lex` iterates to n-tuples. -/
theorem concat_length {α β : Type} (e₁ : α → Bytes) (e₂ : β → Bytes) (n m : Nat)
    (h₁ : ∀ a, (e₁ a).length = n) (h₂ : ∀ b, (e₂ b).length = m) (a : α) (b : β) :
    (e₁ a ++ e₂ b).length = n + m := by
  rw [List.length_append, h₁, h₂]

/-- Instance: an (int32, uint64) composite key is ordered by (signed, then unsigned). -/
theorem concat_lex_i32_u64 (x x' : BitVec 32) (y y' : BitVec 64) :
    lexLt (encI x ++ encU y) (encI x' ++ encU y') = true ↔
      (x.toInt < x'.toInt ∨ (x = x' ∧ y.toNat < y'.toNat)) :=
  concat_lex (fun x : BitVec 32 => encI x) (fun y : BitVec 64 => encU y) _ _ 4
    (fun _ => encI_length _) (encI_lt_iff (by decide) (by decide))
    (fun a a' => (encI_inj (by decide) a a').1) (encU_lt_iff (by decide)) x x' y y'

/-- Instance with a float second component (order by `rank`). -/
theorem concat_lex_u16_f64 (x x' : BitVec 16) (y y' : BitVec 64) :
    lexLt (encU x ++ encF fmt64 y) (encU x' ++ encF fmt64 y') = true ↔
      (x.toNat < x'.toNat ∨ (x = x' ∧ fmt64.rank y < fmt64.rank y')) :=
  concat_lex (fun x : BitVec 16 => encU x) (fun y : BitVec 64 => encF fmt64 y) _ _ 2
    (fun _ => encU_length _) (encU_lt_iff (by decide))
    (fun a a' => (encU_inj (by decide) a a').1) encF64_lt_iff x x' y y'

/-! ## non-vacuity: concrete values -/

example : encU (0x1234#16) = [0x12, 0x34] := by decide
example : encU (0xDEADBEEF#32) = [0xDE, 0xAD, 0xBE, 0xEF] := by decide
example : decU 32 [0xDE, 0xAD, 0xBE, 0xEF] = 0xDEADBEEF#32 := by decide
example : encI (0#8) = [0x80] := by decide
example : encI (0xFF#8) = [0x7F] := by decide                 -- int8(-1)
example : encI (0x80000000#32) = [0, 0, 0, 0] := by decide     -- math.MinInt32
example : encI (0x7FFFFFFFFFFFFFFF#64) = [0xFF,0xFF,0xFF,0xFF,0xFF,0xFF,0xFF,0xFF] := by decide
example : decI 16 [0x7F, 0xFF] = 0xFFFF#16 := by decide        -- int16(-1)
-- floats: NaN ↦ 0, −Inf ↦ 1, −0 ↦ 0x80000001, +0 ↦ 0x80000002, +Inf ↦ 0xFFFFFFFE
example : encF fmt32 0x7FC00000#32 = [0, 0, 0, 0] := by decide
example : encF fmt32 0xFFC00001#32 = [0, 0, 0, 0] := by decide  -- a negative NaN payload
example : encF fmt32 0xFF800000#32 = [0, 0, 0, 1] := by decide
example : encF fmt32 0xFF7FFFFF#32 = [0x00, 0x80, 0x00, 0x02] := by decide  -- −MaxFloat32
example : encF fmt32 0x80000000#32 = [0x80, 0, 0, 1] := by decide
example : encF fmt32 0x00000000#32 = [0x80, 0, 0, 2] := by decide
example : encF fmt32 0x3F800000#32 = [0xBF, 0x80, 0, 2] := by decide         -- 1.0
example : encF fmt32 0x7F7FFFFF#32 = [0xFF, 0x80, 0x00, 0x01] := by decide  -- MaxFloat32
example : encF fmt32 0x7F800000#32 = [0xFF, 0xFF, 0xFF, 0xFE] := by decide
example : decF fmt32 [0x80, 0, 0, 1] = 0x80000000#32 := by decide
example : decF fmt32 [0, 0, 0, 0] = 0x7FC00000#32 := by decide
example : encF fmt64 0x8000000000000000#64 = [0x80, 0, 0, 0, 0, 0, 0, 1] := by decide
example : encF fmt64 0xBFF0000000000000#64 = [0x40, 0x10, 0, 0, 0, 0, 0, 1] := by decide  -- −1.0
example : decF fmt64 [0, 0, 0, 0, 0, 0, 0, 0] = 0x7FF8000000000001#64 := by decide
-- the declared order on a few points: NaN < −Inf < −1 < −0 < +0 < 1 < +Inf
example : fmt32.rank 0x7FC00000#32 < fmt32.rank 0xFF800000#32 := by decide
example : fmt32.rank 0xFF800000#32 < fmt32.rank 0xBF800000#32 := by decide
example : fmt32.rank 0xBF800000#32 < fmt32.rank 0x80000000#32 := by decide
example : fmt32.rank 0x80000000#32 < fmt32.rank 0x00000000#32 := by decide
example : fmt32.rank 0x00000000#32 < fmt32.rank 0x3F800000#32 := by decide
example : fmt32.rank 0x3F800000#32 < fmt32.rank 0x7F800000#32 := by decide
example : lexLt (encF fmt32 0x80000000#32) (encF fmt32 0x00000000#32) = true := by decide
example : NumTy.enc (.i 16) 0xFFFE = [0x7F, 0xFE] := by decide
example : NumTy.dec .f32 (NumTy.enc .f32 0x3F800000) = 0x3F800000 := by decide

/-! ## axiom audit

Recorded output of the `#print axioms` lines below (Lean 4.33.0). No `sorryAx`, no
`Lean.ofReduceBool`/`native_decide`, no user axiom. Legend for the `bv_decide` certificates
(word-level float lemmas in Proofs/Codec.lean, fixed widths only):
  BV32 = ArtVerif.encFWord32_ult._native.bv_decide.ax_1_12,
         ArtVerif.encFWord32_eq_zero_iff._native.bv_decide.ax_1_11,
         ArtVerif.decFWord32_encFWord32._native.bv_decide.ax_1_12
  BV64 = ArtVerif.encFWord64_ult._native.bv_decide.ax_1_12,
         ArtVerif.encFWord64_eq_zero_iff._native.bv_decide.ax_1_11,
         ArtVerif.decFWord64_encFWord64._native.bv_decide.ax_1_12
(The three word facts of a format are bundled in `FloatFmt.WordFacts`, so every float theorem
lists all three certificates of its width.)
-/

#print axioms encU_length
--   [propext]
#print axioms decU_encU
--   [propext, Classical.choice, Quot.sound]
#print axioms encU_lt_iff
--   [propext, Classical.choice, Quot.sound]
#print axioms encU_inj
--   [propext, Classical.choice, Quot.sound]
#print axioms encI_length
--   [propext, Quot.sound]
#print axioms decI_encI
--   [propext, Classical.choice, Quot.sound]
#print axioms encI_lt_iff
--   [propext, Classical.choice, Quot.sound]
#print axioms encI_inj
--   [propext, Classical.choice, Quot.sound]
#print axioms encF32_length
--   [propext, Quot.sound]
#print axioms decF32_encF32
--   [propext, Classical.choice, Quot.sound] + BV32
#print axioms decF32_encF32_nan
--   [propext, Classical.choice, Quot.sound] + BV32
#print axioms encF32_nan_eq
--   [propext, Classical.choice, Quot.sound] + BV32
#print axioms encF32_lt_iff
--   [propext, Classical.choice, Quot.sound] + BV32
#print axioms encF32_eq_iff
--   [propext, Classical.choice, Quot.sound] + BV32
#print axioms encF64_length
--   [propext, Quot.sound]
#print axioms decF64_encF64
--   [propext, Classical.choice, Quot.sound] + BV64
#print axioms decF64_encF64_nan
--   [propext, Classical.choice, Quot.sound] + BV64
#print axioms encF64_nan_eq
--   [propext, Classical.choice, Quot.sound] + BV64
#print axioms encF64_lt_iff
--   [propext, Classical.choice, Quot.sound] + BV64
#print axioms encF64_eq_iff
--   [propext, Classical.choice, Quot.sound] + BV64
#print axioms NumTy_enc_length
--   [propext, Quot.sound]
#print axioms NumTy_dec_enc
--   [propext, Classical.choice, Quot.sound] + BV32 + BV64
#print axioms NumTy_dec_enc_nan
--   [propext, Classical.choice, Quot.sound] + BV32 + BV64
#print axioms NumTy_enc_nan_eq
--   [propext, Classical.choice, Quot.sound] + BV32 + BV64
#print axioms NumTy_enc_lt_iff
--   [propext, Classical.choice, Quot.sound] + BV32 + BV64
#print axioms NumTy_enc_eq_iff
--   [propext, Classical.choice, Quot.sound] + BV32 + BV64
#print axioms concat_lex
--   [propext, Classical.choice, Quot.sound]
#print axioms concat_length
--   [propext]
#print axioms concat_lex_i32_u64
--   [propext, Classical.choice, Quot.sound]
#print axioms concat_lex_u16_f64
--   [propext, Classical.choice, Quot.sound] + BV64

end ArtVerif.C07
