/-
  C04: `lowestCommonParent` descends with `prefixMismatch(n, prefix, depth)`; the model (`T.lowestCommonParent`,
  `RT.lowestCommonParent`) uses `T.prefixMismatch`.  The Go function, regenerated from tree.go on every run, returns
  that value for every prefix argument — shorter than, equal to, longer than or diverging from the compressed path,
  inside or beyond the ten inline bytes — and never indexes out of range.
-/
import ArtVerif.Proofs.GenLoops
namespace ArtVerif.C04Loops
open ArtVerif ArtVerif.Gen.Loops ArtVerif.GenLoops

theorem prefixMismatch_spec (plen : Nat) (pfx p : Bytes) (d : Nat) (minLeafKey : Bytes) (hp : pfx.length = 10) :
    prefixMismatch (plen : Int) pfx p (d : Int) minLeafKey =
      some ((T.prefixMismatch plen (inl plen pfx) minLeafKey p d : Nat) : Int) :=
  prefixMismatch_eq plen pfx p d minLeafKey hp

/-- in particular for a probe that has already ended (`depth ≥ len(prefix)`): 0, no fault -/
theorem prefixMismatch_past_the_end (plen : Nat) (pfx p : Bytes) (d : Nat) (minLeafKey : Bytes) (hp : pfx.length = 10)
    (hd : p.length ≤ d) : prefixMismatch (plen : Int) pfx p (d : Int) minLeafKey = some 0 := by
  rw [prefixMismatch_eq plen pfx p d minLeafKey hp]
  have hdrop : p.drop d = [] := List.drop_eq_nil_of_le hd
  have h0 : p.length - d = 0 := by omega
  simp [T.prefixMismatch, h0, hdrop, lcpLen_nil_right]

end ArtVerif.C04Loops
