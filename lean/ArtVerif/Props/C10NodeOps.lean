/-
  C10 / C11 / C12 on node.go AS REGENERATED FROM THE SOURCE on every run (`Gen/NodeOps.lean`, written by
  `tools/extract/gen_nodeops.go`: `(*nodeRef).findChild/addChild/deleteChild` and, for node4 / node16 / node48 /
  node256, `addChild`, `deleteChild`, `clear`, statement by statement over the run-time model `Model/GoNode.lean`).

  Until this module existed node.go was tied to the raw-node model `Model/Raw.lean` only by the correspondence run
  (field-by-field comparison of real dumps).  Here the regenerated Go functions are PROVED to compute the raw-node
  model (`Proofs/GenNodeOps`), and composed with `Proofs/RawNodes` (the raw-node model is a correct ordered
  byte → child table) – so the statements below are about what node.go says now, for every node content, every probe
  byte and every pool content satisfying C12's invariant:

  * `go_findChild_is_table_lookup` – all four classes, never faults on a node satisfying the raw invariant;
  * `go_addChild_inserts` – all four classes and the three class changes 4→16, 16→48, 48→256 (the loops that build
    the node48 index and fill the node256 slots included): the result is a node satisfying the raw invariant whose
    table is the old one with `(b, c)` inserted in byte order, header unchanged, the replaced node `clear()`ed;
  * `go_node4_deleteChild`, `go_node16_deleteChild` – complete, including the node4 collapse with the PATH MERGE
    (= `Raw.mergeHdr`, whose meaning is `mergeHdr_spec`: path ++ branch byte ++ child path, first ten bytes inline)
    and the 16→4 shrink through `construct`;
  * `go_deleteChild_removes` – `(*nodeRef).deleteChild`, all four classes and all three shrinks (16→4 through
    `construct`, 48→16 and 256→48 with their loops) and the node4 collapse: the result is what `Raw.remove` says,
    i.e. (`remove_spec`) a node satisfying the raw invariant whose table is the old one without `b`, or the one
    remaining child;
  * `go_clear_is_zero`, `go_released_nodes_are_zero` (C12) – what goes back to the pool is the zero image.

  Modelled, not proved (stated in `Model/GoNode.lean`): Go's slice/copy/index semantics on fixed arrays, `uint8` /
  `uint32` wrap-around (= Lean's `UInt8` / `UInt32`), a nil `nodeRef` pointer = `none`, `sync.Pool.Get` = a parameter.
  `searchNode16`/`insertPosNode16` are the lane-level functions that `C10Asm` proves the amd64 assembly to compute.
-/
import ArtVerif.Proofs.GenNodeOps
namespace ArtVerif.C10NodeOps
open ArtVerif ArtVerif.Gen ArtVerif.Gen.NodeOps ArtVerif.GoNode ArtVerif.Raw ArtVerif.GenNodeOps
variable {C : Type}

theorem len_lt_of_inv (r : Raw C) (hinv : r.inv = true) : r.len < 256 := by
  cases r with
  | n4 h len keys slots => have := ((inv4_iff h len keys slots).1 hinv).2.2.1; simp only [Raw.len]; omega
  | n16 h len keys slots => have := ((inv16_iff h len keys slots).1 hinv).2.2.2.1; simp only [Raw.len]; omega
  | n48 h len idx slots => have := ((inv48_iff h len idx slots).1 hinv).2.1; simp only [Raw.len]; omega
  | n256 h len slots =>
    have := ((inv256_iff h len slots).1 hinv).2.2.2
    simp only [Raw.len]; omega

/-- `(*nodeRef).findChild` of node.go: for every probe byte, the child registered under that byte in the ordered
    table of the node, nothing otherwise – and no out-of-range index, whatever the unoccupied lanes/slots hold. -/
theorem go_findChild_is_table_lookup (E : Env C) (r : Raw C) (b : UInt8) (hinv : r.inv = true) :
    nodeRef_findChild E (imgOf r).1 (imgOf r).2 b = some ((r.abs.find? (fun p => p.1 == b)).map (·.2)) := by
  rw [findChild_eq E r b hinv (len_lt_of_inv r hinv), find_spec r b hinv]

/-- `(*nodeRef).addChild` of node.go, all classes and all three class changes. -/
theorem go_addChild_inserts (E : Env C) (hpz : PoolsZero E) (r : Raw C) (b : UInt8) (c : C) (hinv : r.inv = true)
    (hnk : ∀ p ∈ r.abs, p.1 ≠ b) :
    ∃ r' rel, nodeRef_addChild E (imgOf r).1 (imgOf r).2 b (some c) = some { out := outOf r', released := rel } ∧
      r'.abs = insertSorted b c r.abs ∧ r'.inv = true ∧ r'.hdr = r.hdr ∧ (∀ x ∈ rel, x.2 = zeroImg x.1) := by
  obtain ⟨rel, h1, h2⟩ := addChild_eq E hpz r b c hinv
  obtain ⟨h3, h4⟩ := add_spec r b c hinv hnk
  exact ⟨r.add b c, rel, h1, h3, h4, add_hdr r b c, h2⟩

/-- the enumeration order of the regenerated table is ascending unsigned byte order -/
theorem go_addChild_keeps_order (E : Env C) (hpz : PoolsZero E) (r : Raw C) (b : UInt8) (c : C) (hinv : r.inv = true)
    (hnk : ∀ p ∈ r.abs, p.1 ≠ b) :
    ∃ r' rel, nodeRef_addChild E (imgOf r).1 (imgOf r).2 b (some c) = some { out := outOf r', released := rel } ∧
      strictAsc (r'.abs.map (·.1)) = true := by
  obtain ⟨r', rel, h1, _, h3, _⟩ := go_addChild_inserts E hpz r b c hinv hnk
  exact ⟨r', rel, h1, abs_sorted r' h3⟩

/-- `node4.deleteChild` of node.go, complete: removal in place, and the collapse into the last child with the path
    merge.  (`collapseOut` reads the result off `Raw.remove4` + `Raw.mergeHdr`.) -/
theorem go_node4_deleteChild (E : Env C) (h : Hdr) (len : Nat) (keys : BitVec 32) (slots : List (Option C))
    (b : UInt8) (pos : Nat) (hs : slots.length = 4) (hpf : h.pfx.length = 10) (hlen : len ≤ 4) (h0 : 0 < len)
    (hplen : h.plen < 2 ^ 31) (hpos : searchNode4 keys b.toBitVec = (pos : Int)) (hp4 : pos < 4)
    (hch : ∀ cc, (shiftDown slots pos)[0]? = some (some cc) → E.isLeaf cc = false →
      (E.hdr cc).«prefix».length = 10 ∧ (E.hdr cc).prefixLen.toNat < 2 ^ 31)
    (hnn : (len + 255) % 256 = collapse4 → ∃ cc, (shiftDown slots pos)[0]? = some (some cc)) :
    node4_deleteChild E (img4 h len keys slots) b =
      some { out := collapseOut E (remove4 h len keys slots b),
             released := if (len + 255) % 256 == collapse4 then [(0, zeroImg 0)] else [] } :=
  node4_deleteChild_eq E h len keys slots b pos hs hpf hlen h0 hplen hpos hp4 hch hnn

/-- what the path merge writes into the surviving child's header: path ++ branch byte ++ the child's own path, the
    first ten bytes inline, the length exact (C11) -/
theorem go_path_merge_meaning (h ch : Hdr) (b : UInt8) (hh : h.pfx.length = 10) (hc : ch.pfx.length = 10) :
    (mergeHdr h b ch).plen = ch.plen + h.plen + 1 ∧ (mergeHdr h b ch).pfx.length = 10 ∧
    (mergeHdr h b ch).pfx.take (min (ch.plen + h.plen + 1) 10) =
      (h.pfx.take (min h.plen 10) ++ [b] ++ ch.pfx.take (min ch.plen 10)).take 10 :=
  mergeHdr_spec h ch b hh hc

/-- `node16.deleteChild` of node.go, complete (including the shrink into a node4 at three children) -/
theorem go_node16_deleteChild (E : Env C) (hpz : PoolsZero E) (h : Hdr) (len : Nat) (keys : Bytes)
    (slots : List (Option C)) (b : UInt8) (pos : Nat) (hs : slots.length = 16) (hk : keys.length = 16)
    (hlen : len ≤ 16) (h0 : 0 < len) (hpos : searchNode16 keys len b = (pos : Int)) (hp16 : pos < 16) :
    node16_deleteChild E (img16 h len keys slots) b =
      some { out := match remove16 h len keys slots b with | .node r => outOf r | .collapse _ _ c => .child c,
             released := if (len + 255) % 256 == shrink16 then [(1, zeroImg 1)] else [] } :=
  node16_deleteChild_eq E hpz h len keys slots b pos hs hk hlen h0 hpos hp16

/-- `(*nodeRef).deleteChild` of node.go, all classes, all shrinks, the collapse.  `ChildHdrsOK` is what the tree
    guarantees about the `*node` headers of a node4's children (ten-byte arrays, lengths below 2^31); it is used by the
    path merge only. -/
theorem go_deleteChild_removes (E : Env C) (hpz : PoolsZero E) (r : Raw C) (b : UInt8) (hinv : r.inv = true)
    (hk : ∃ p ∈ r.abs, p.1 = b) (hplen : r.hdr.plen < 2 ^ 31)
    (hE : ∀ h len keys slots, r = .n4 h len keys slots → ChildHdrsOK E slots) :
    ∃ rel, nodeRef_deleteChild E (imgOf r).1 (imgOf r).2 b =
        some { out := collapseOut E (r.remove b), released := rel } ∧
      RemoveOK r.hdr (r.abs.filter (fun p => p.1 != b)) (r.remove b) ∧ (∀ x ∈ rel, x.2 = zeroImg x.1) := by
  obtain ⟨rel, h1, h2⟩ := deleteChild_eq E hpz r b hinv hk hplen hE
  exact ⟨rel, h1, remove_spec r b hinv hk, h2⟩

/-- C12: `clear()` of every class returns the zero image (every field, through the embedded header) -/
theorem go_clear_is_zero (E : Env C) (h : Hdr) (len : Nat) :
    (∀ keys (slots : List (Option C)), slots.length = 4 → node4_clear E (img4 h len keys slots) = some (zeroImg 0)) ∧
    (∀ keys (slots : List (Option C)), slots.length = 16 → keys.length = 16 →
      node16_clear E (img16 h len keys slots) = some (zeroImg 1)) ∧
    (∀ idx (slots : List (Option C)), slots.length = 48 → idx.length = 256 →
      node48_clear E (img16 h len idx slots) = some (zeroImg 2)) ∧
    (∀ (slots : List (Option C)), slots.length = 256 → node256_clear E (img256 h len slots) = some (zeroImg 3)) :=
  ⟨fun keys slots hs => node4_clear_eq E h len keys slots hs,
   fun keys slots hs hk => node16_clear_eq E h len keys slots hs hk,
   fun idx slots hs hi => node48_clear_eq E h len idx slots hs hi,
   fun slots hs => node256_clear_eq E h len slots hs⟩

/-- C12: if every pooled node is zero, every node `addChild` hands to `Put` is zero again (the invariant is
    inductive for the regenerated code), with the pool index of its own class -/
theorem go_released_nodes_are_zero (E : Env C) (hpz : PoolsZero E) (r : Raw C) (b : UInt8) (c : C)
    (hinv : r.inv = true) :
    ∃ res, nodeRef_addChild E (imgOf r).1 (imgOf r).2 b (some c) = some res ∧ ∀ x ∈ res.released, x.2 = zeroImg x.1 := by
  obtain ⟨rel, h1, h2⟩ := addChild_eq E hpz r b c hinv
  exact ⟨_, h1, h2⟩

/-! ### non-vacuity: the hypotheses are met by concrete nodes, and the regenerated code runs on them -/

def E0 : Env Nat := { pool := zeroImg, isLeaf := fun _ => true, hdr := fun _ => ⟨0, 0, zeroPrefix⟩, setHdr := fun c _ => c }

theorem E0_pools_zero : PoolsZero E0 := fun _ => rfl

/-- a node4 holding bytes 0x10 and 0x80 -/
def r2 : Raw Nat := (((Raw.zero4 : Raw Nat).add 0x80 1).add 0x10 2)

example : r2.inv = true := by decide
example : r2.abs = [(0x10, 2), (0x80, 1)] := by decide
example : nodeRef_findChild E0 (imgOf r2).1 (imgOf r2).2 0x80 = some (some 1) := by decide
example : nodeRef_findChild E0 (imgOf r2).1 (imgOf r2).2 0x00 = some none := by decide
example : (nodeRef_addChild E0 (imgOf r2).1 (imgOf r2).2 0x7f (some 3)).map (·.out) = some (outOf (r2.add 0x7f 3)) := by
  decide

example : (nodeRef_deleteChild E0 (imgOf r2).1 (imgOf r2).2 0x10).map (·.out) = some (collapseOut E0 (r2.remove 0x10)) := by
  decide
/-- a node16 one above the shrink threshold: deleting a byte shrinks it into a node4 -/
def r16 : Raw Nat := ((((r2.add 0x20 3).add 0x30 4).add 0x40 5).remove 0x80 |> fun d => match d with | .node r => r | _ => r2)
example : r16.inv = true ∧ r16.cls = 16 ∧ r16.len = 4 := by decide
example : (nodeRef_deleteChild E0 (imgOf r16).1 (imgOf r16).2 0x20).map (·.out) = some (collapseOut E0 (r16.remove 0x20)) := by
  decide

end ArtVerif.C10NodeOps
