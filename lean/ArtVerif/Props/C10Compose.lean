/-
  C10 (composition) — the raw inner-node images SIMULATE the abstract child tables of the tree
  layer: what `Model/Tree.lean` does to `(kind, plen, inl, ch)` is what `Model/Raw.lean` does to a
  raw node `r` with `toT r = node (kindOf r) r.hdr.plen (inlOf r.hdr) r.abs`.

  Proofs are in `Proofs/Compose.lean`; this file restates the property-level theorems, gives
  non-vacuity examples on concrete images (stale SWAR lanes, stale prefix bytes, growth, shrink,
  collapse with path merge) and audits the axioms.
-/
import ArtVerif.Proofs.Compose
namespace ArtVerif.C10Compose
open ArtVerif ArtVerif.Gen ArtVerif.Raw ArtVerif.Compose

variable {V : Type}

/-- `findChild` is `lookupCh` on the abstract table -/
theorem find_simulates (r : Raw (T V)) (b : UInt8) (hinv : r.inv = true) :
    r.find b = T.lookupCh b r.abs := Compose.find_simulates r b hinv

/-- `addChild` (in-class and growing) is `T.addChild`: same table, same class, same header -/
theorem add_simulates (r : Raw (T V)) (b : UInt8) (c : T V) (hinv : r.inv = true)
    (hnk : ∀ p ∈ r.abs, p.1 ≠ b) :
    (r.add b c).abs = T.insCh b c r.abs ∧
    kindOf (r.add b c) = (T.addChild (kindOf r) r.abs b c).1 ∧
    (r.add b c).inv = true ∧
    toT (r.add b c) =
      T.node (T.addChild (kindOf r) r.abs b c).1 r.hdr.plen (inlOf r.hdr)
        (T.addChild (kindOf r) r.abs b c).2 := Compose.add_simulates r b c hinv hnk

/-- the recorded length is the table length (mod 256 for node256), so the capacity tests agree -/
theorem len_simulates (r : Raw (T V)) (hinv : r.inv = true) :
    (kindOf r ≠ .k256 → r.abs.length = r.len) ∧ (kindOf r = .k256 → r.len = r.abs.length % 256) ∧
    T.KindOK (kindOf r) r.abs.length :=
  ⟨abs_length_len r hinv, abs_length_len256 r hinv, kindOK_of_inv r hinv⟩

/-- `deleteChild`, node-stays case -/
theorem remove_node_simulates (r : Raw (T V)) (b : UInt8) (hinv : r.inv = true)
    (hk : ∃ p ∈ r.abs, p.1 = b) (r' : Raw (T V)) (hr : r.remove b = .node r') :
    r'.abs = T.eraseCh b r.abs ∧ r'.inv = true ∧ r'.hdr = r.hdr ∧
    kindOf r' = T.shrinkKind (kindOf r) r'.abs.length ∧
    ¬ (kindOf r = .k4 ∧ (T.eraseCh b r.abs).length = 1) :=
  Compose.remove_node_simulates r b hinv hk r' hr

/-- … which is the case exactly when this is not a node4 left with one child -/
theorem remove_node_iff (r : Raw (T V)) (b : UInt8) (hinv : r.inv = true)
    (hk : ∃ p ∈ r.abs, p.1 = b) :
    (∃ r', r.remove b = .node r') ↔ ¬ (kindOf r = .k4 ∧ (T.eraseCh b r.abs).length = 1) :=
  Compose.remove_node_iff r b hinv hk

/-- `deleteChild`, node4-collapse case -/
theorem remove_collapse_simulates (r : Raw (T V)) (b : UInt8) (hinv : r.inv = true)
    (hk : ∃ p ∈ r.abs, p.1 = b) (h : Hdr) (b0 : UInt8) (c : Option (T V))
    (hr : r.remove b = .collapse h b0 c) :
    kindOf r = .k4 ∧ h = r.hdr ∧ ∃ c', c = some c' ∧ T.eraseCh b r.abs = [(b0, c')] :=
  Compose.remove_collapse_simulates r b hinv hk h b0 c hr

/-- the surviving leaf replaces the node4 -/
theorem collapse_leaf_simulates (h : Hdr) (ch : T.Ch V) (b b0 : UInt8) (k tk : Bytes) (v : V)
    (he : T.eraseCh b ch = [(b0, T.leaf k tk v)]) :
    T.deleteChild .k4 h.plen (inlOf h) ch b = T.leaf k tk v :=
  Compose.collapse_leaf_simulates h ch b b0 k tk v he

/-- the surviving inner child replaces the node4 with `mergeHdr` as its header -/
theorem collapse_inner_simulates (h hc : Hdr) (ch : T.Ch V) (b b0 : UInt8)
    (ck : Kind) (cplen : Nat) (cinl : Bytes) (cch : T.Ch V)
    (he : T.eraseCh b ch = [(b0, T.node ck cplen cinl cch)])
    (hp : hc.plen = cplen) (hi : inlOf hc = cinl) (hcl : hc.pfx.length = 10) (hh : h.pfx.length = 10) :
    T.deleteChild .k4 h.plen (inlOf h) ch b =
      T.node ck (mergeHdr h b0 hc).plen (inlOf (mergeHdr h b0 hc)) cch :=
  Compose.collapse_inner_simulates h hc ch b b0 ck cplen cinl cch he hp hi hcl hh

/-- all of `deleteChild` in one equation.  `hdrOf` names the raw header of an inner child; the
    assumption `ChildHdrOK hdrOf c` says that header denotes the `(plen, inl)` of `c`
    (`plen` equal, `inlOf` equal, 10 raw bytes) — true for `c = toT rc`, `hdrOf c = rc.hdr`
    (`childHdrOK_toT`) and for `canonHdr` on nodes with canonical inline length (`childHdrOK_canon`). -/
theorem remove_simulates (hdrOf : T V → Hdr) (r : Raw (T V)) (b : UInt8) (hinv : r.inv = true)
    (hk : ∃ p ∈ r.abs, p.1 = b) (hch : ∀ p ∈ r.abs, ChildHdrOK hdrOf p.2) :
    toT' hdrOf (r.remove b) = T.deleteChild (kindOf r) r.hdr.plen (inlOf r.hdr) r.abs b :=
  Compose.remove_simulates hdrOf r b hinv hk hch

/-- the merged survivor is the child's raw image with the merged header written into it -/
theorem mergeChild_toT (hdrOf : T V → Hdr) (h : Hdr) (b0 : UInt8) (rc : Raw (T V))
    (hh : hdrOf (toT rc) = rc.hdr) :
    mergeChild hdrOf h b0 (toT rc) = toT (withHdr (mergeHdr h b0 rc.hdr) rc) :=
  Compose.mergeChild_toT hdrOf h b0 rc hh

/-- enumeration: the children of `toT r` are `r.abs`, strictly ascending, within the class bounds;
    `minimum` / `maximum` / in-order traversal run over them in that order -/
theorem enum_simulates (r : Raw (T V)) (hinv : r.inv = true) :
    toT r = T.node (kindOf r) r.hdr.plen (inlOf r.hdr) r.abs ∧
    T.KeysSorted r.abs ∧ T.KindOK (kindOf r) r.abs.length := Compose.enum_simulates r hinv
theorem min_simulates (r : Raw (T V)) : T.minLeaf (toT r) = T.minLeafL r.abs := minLeaf_toT r
theorem max_simulates (r : Raw (T V)) : T.maxLeaf (toT r) = T.maxLeafL r.abs := maxLeaf_toT r
theorem inorder_simulates (r : Raw (T V)) : T.inorder (toT r) = T.inorderL r.abs := inorder_toT r

/-! ## non-vacuity: concrete images -/

def lf (n : Nat) : T Nat := .leaf [UInt8.ofNat n] [UInt8.ofNat n] n

/-- node4 with two children (bytes 1, 3), stale SWAR lanes `4 4`, stale prefix bytes `9 9 …` -/
def ex4 : Raw (T Nat) :=
  .n4 { plen := 2, pfx := [7, 8, 9, 9, 9, 9, 9, 9, 9, 9] } 2 0x04040301#32 [some (lf 1), some (lf 3), none, none]

example : ex4.inv = true := by decide
example : ex4.abs.map (·.1) = [1, 3] := by decide
example : toT ex4 = T.node .k4 2 [7, 8] [(1, lf 1), (3, lf 3)] := by rfl
example : ex4.find 4 = none ∧ T.lookupCh 4 ex4.abs = none := ⟨by rfl, by rfl⟩   -- stale lane: no child
example : ex4.find 3 = T.lookupCh 3 ex4.abs := find_simulates ex4 3 (by decide)
example : ∀ p ∈ ex4.abs, p.1 ≠ 2 := by decide
example : toT (ex4.add 2 (lf 2)) = T.node .k4 2 [7, 8] [(1, lf 1), (2, lf 2), (3, lf 3)] := by rfl
example : toT (ex4.add 2 (lf 2)) =
    T.node (T.addChild .k4 ex4.abs 2 (lf 2)).1 2 [7, 8] (T.addChild .k4 ex4.abs 2 (lf 2)).2 :=
  (add_simulates ex4 2 (lf 2) (by decide) (by decide)).2.2.2

/-- a full node4: the next `addChild` grows into a node16 -/
def ex4full : Raw (T Nat) :=
  .n4 {} 4 0x08060402#32 [some (lf 2), some (lf 4), some (lf 6), some (lf 8)]
example : ex4full.inv = true := by decide
example : kindOf (ex4full.add 5 (lf 5)) = .k16 ∧ (T.addChild .k4 ex4full.abs 5 (lf 5)).1 = .k16 := by decide
example : (toT (ex4full.add 5 (lf 5))) =
    T.node .k16 0 [] [(2, lf 2), (4, lf 4), (5, lf 5), (6, lf 6), (8, lf 8)] := by rfl

/-- removing from a two-child node4 whose other child is a leaf: collapse to the leaf -/
example : ∃ p ∈ ex4.abs, p.1 = 1 := by decide
example : toT' canonHdr (ex4.remove 1) = lf 3 := by rfl
example : T.deleteChild .k4 2 [7, 8] ex4.abs 1 = lf 3 := by rfl

/-- node4 whose surviving child is an inner node: collapse with path merge -/
def inner : T Nat := T.node .k4 3 [5, 5, 5] [(0, lf 0), (1, lf 1)]
def exC : Raw (T Nat) :=
  .n4 { plen := 2, pfx := [7, 8, 9, 9, 9, 9, 9, 9, 9, 9] } 2 0x00000301#32 [some (lf 1), some inner, none, none]
example : exC.inv = true := by decide
example : ChildHdrOK canonHdr inner := childHdrOK_canon inner (by intro _ _ _ _ h; cases h; rfl)
example : toT' canonHdr (exC.remove 1) = T.node .k4 6 [7, 8, 3, 5, 5, 5] [(0, lf 0), (1, lf 1)] := by rfl
example : T.deleteChild .k4 2 [7, 8] exC.abs 1 = T.node .k4 6 [7, 8, 3, 5, 5, 5] [(0, lf 0), (1, lf 1)] := by rfl

/-- the same with a parent path longer than the inline limit: only `plen` changes -/
def exL : Raw (T Nat) :=
  .n4 { plen := 12, pfx := [0, 1, 2, 3, 4, 5, 6, 7, 8, 9] } 2 0x00000301#32 [some (lf 1), some inner, none, none]
example : exL.inv = true := by decide
example : toT' canonHdr (exL.remove 1) =
    T.node .k4 16 [0, 1, 2, 3, 4, 5, 6, 7, 8, 9] [(0, lf 0), (1, lf 1)] := by rfl
example : T.deleteChild .k4 12 (inlOf exL.hdr) exL.abs 1 =
    T.node .k4 16 [0, 1, 2, 3, 4, 5, 6, 7, 8, 9] [(0, lf 0), (1, lf 1)] := by rfl

/-- node16 with five children and stale lanes; removal stays in class, a second one shrinks -/
def ex16 : Raw (T Nat) :=
  .n16 { plen := 1, pfx := [6, 9, 9, 9, 9, 9, 9, 9, 9, 9] } 5
    [10, 20, 30, 40, 50, 50, 50, 7, 0, 0, 0, 0, 0, 0, 0, 0]
    ([some (lf 10), some (lf 20), some (lf 30), some (lf 40), some (lf 50)] ++ List.replicate 11 none)
example : ex16.inv = true := by decide
example : ex16.abs.map (·.1) = [10, 20, 30, 40, 50] := by decide
example : ex16.find 7 = none := by rfl
example : toT' canonHdr (ex16.remove 30) =
    T.node .k16 1 [6] [(10, lf 10), (20, lf 20), (40, lf 40), (50, lf 50)] := by rfl
example : T.deleteChild .k16 1 [6] ex16.abs 30 =
    T.node .k16 1 [6] [(10, lf 10), (20, lf 20), (40, lf 40), (50, lf 50)] := by rfl
def ex16' : Raw (T Nat) :=
  .n16 { plen := 1, pfx := [6, 9, 9, 9, 9, 9, 9, 9, 9, 9] } 4
    [10, 20, 40, 50, 50, 50, 50, 7, 0, 0, 0, 0, 0, 0, 0, 0]
    ([some (lf 10), some (lf 20), some (lf 40), some (lf 50)] ++ List.replicate 12 none)
example : ex16'.inv = true := by decide
example : toT' canonHdr (ex16'.remove 10) = T.node .k4 1 [6] [(20, lf 20), (40, lf 40), (50, lf 50)] := by rfl
example : T.deleteChild .k16 1 [6] ex16'.abs 10 = T.node .k4 1 [6] [(20, lf 20), (40, lf 40), (50, lf 50)] := by rfl
example : toT (ex16.add 35 (lf 35)) =
    T.node .k16 1 [6] [(10, lf 10), (20, lf 20), (30, lf 30), (35, lf 35), (40, lf 40), (50, lf 50)] := by rfl

/-! ## axiom audit -/
#print axioms find_simulates
#print axioms add_simulates
#print axioms len_simulates
#print axioms remove_node_simulates
#print axioms remove_node_iff
#print axioms remove_collapse_simulates
#print axioms collapse_leaf_simulates
#print axioms collapse_inner_simulates
#print axioms remove_simulates
#print axioms mergeChild_toT
#print axioms enum_simulates
#print axioms min_simulates
#print axioms max_simulates
#print axioms inorder_simulates
-- bridges and auxiliary facts
#print axioms Compose.insertSorted_eq_insCh
#print axioms Compose.find?_eq_lookupCh
#print axioms Compose.filter_eq_eraseCh
#print axioms Compose.abs_length
#print axioms Compose.kindOf_add
#print axioms Compose.remove_shape
#print axioms Compose.mergeHdr_simulates
#print axioms Compose.childHdrOK_canon
#print axioms Compose.childHdrOK_toT

end ArtVerif.C10Compose
