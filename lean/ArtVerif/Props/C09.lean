/-
  C09 — compound trees are ordered maps for every contract-respecting codec.

  A compound tree descends on the bytes the user codec produces and compares the same bytes at the leaf
  (`tf = id` on codec images).  For ANY codec `enc : K → Bytes` that is injective and prefix-free on the
  inserted keys, C01–C06 apply to the images; if moreover the byte order of the images is the intended
  order, iteration is in that order.  The second half shows that the codecs the property names – fixed-width
  numeric fields optionally followed by one 0x00-terminated, 0x00-free string – satisfy the contract.
-/
import ArtVerif.Props.C05
import ArtVerif.Props.C06
import ArtVerif.Props.C07
namespace ArtVerif.C09
open ArtVerif T Tree

variable {V K : Type}

/-- the codec contract on a set of keys -/
structure CodecOK (enc : K → Bytes) (S : List K) : Prop where
  inj : ∀ a ∈ S, ∀ b ∈ S, enc a = enc b → a = b
  prefixFree : ∀ a ∈ S, ∀ b ∈ S, enc a <+: enc b → enc a = enc b

theorem images_prefixFree (enc : K → Bytes) (S : List K) (h : CodecOK enc S) :
    C01.PrefixFree id (S.map enc) := by
  intro x hx y hy hpre
  simp only [List.mem_map] at hx hy
  obtain ⟨a, ha, rfl⟩ := hx
  obtain ⟨b, hb, rfl⟩ := hy
  exact h.prefixFree a ha b hb hpre

/-- a history on codec images whose inserted images come from a contract-respecting codec refines the ideal map -/
theorem compound_refines_map (enc : K → Bytes) (S : List K) (h : CodecOK enc S) (ops : List (C01.Op V))
    (hops : ∀ k ∈ C01.insertedKeys ops, k ∈ S.map enc) :
    (C01.runT id ({} : Tree V) ops).2 = (C01.runS (fun _ => none) ops).2 ∧
    abs (C01.runT id ({} : Tree V) ops).1 = (C01.runS (fun _ => none) ops).1 := by
  apply C01.refines_map
  intro a ha b hb hpre
  exact images_prefixFree enc S h a (hops a ha) b (hops b hb) hpre

/-- iteration is ascending in the byte order of the images, i.e. in the codec's order -/
theorem compound_iteration_sorted {t : Tree V} (h : Inv id t) :
    (items t).Pairwise (fun a b => lexLt a.1 b.1 = true) := C02.items_strictly_sorted h

/-! ### field schemas satisfy the contract -/

/-- a fixed-width field followed by a prefix-free tail is prefix-free, injective, and ordered
    lexicographically by (field, tail) -/
theorem fixed_then_tail_prefixFree {α β : Type} (e₁ : α → Bytes) (e₂ : β → Bytes) (n : Nat)
    (hlen : ∀ a, (e₁ a).length = n)
    (hpf₂ : ∀ b b', e₂ b <+: e₂ b' → e₂ b = e₂ b')
    (a a' : α) (b b' : β) (h : e₁ a ++ e₂ b <+: e₁ a' ++ e₂ b') : e₁ a ++ e₂ b = e₁ a' ++ e₂ b' := by
  obtain ⟨r, hr⟩ := h
  rw [List.append_assoc] at hr
  have := List.append_inj hr (by rw [hlen, hlen])
  rw [this.1, hpf₂ b b' ⟨r, this.2⟩]

/-- the last fixed-width field: equal lengths, so prefix ⇒ equal -/
theorem fixed_prefixFree {α : Type} (e : α → Bytes) (n : Nat) (hlen : ∀ a, (e a).length = n)
    (a a' : α) (h : e a <+: e a') : e a = e a' :=
  List.IsPrefix.eq_of_length h (by rw [hlen, hlen])

/-- the optional last field: a 0x00-free string with a 0x00 terminator -/
theorem terminated_string_prefixFree (s s' : Bytes) (h0 : (0 : UInt8) ∉ s) (h0' : (0 : UInt8) ∉ s')
    (h : s ++ [0] <+: s' ++ [0]) : s ++ [0] = s' ++ [0] := by
  rw [C01.alpha_terminated_prefixFree s s' h0 h0' h]

/-- tuples are ordered lexicographically by their fields (from C07) -/
theorem tuple_order {α β : Type} (e₁ : α → Bytes) (e₂ : β → Bytes)
    (r₁ : α → α → Prop) (r₂ : β → β → Prop) (n : Nat)
    (hlen : ∀ a, (e₁ a).length = n)
    (h₁ : ∀ a a', lexLt (e₁ a) (e₁ a') = true ↔ r₁ a a')
    (hinj : ∀ a a', e₁ a = e₁ a' → a = a')
    (h₂ : ∀ b b', lexLt (e₂ b) (e₂ b') = true ↔ r₂ b b')
    (a a' : α) (b b' : β) :
    lexLt (e₁ a ++ e₂ b) (e₁ a' ++ e₂ b') = true ↔ r₁ a a' ∨ (a = a' ∧ r₂ b b') :=
  C07.concat_lex e₁ e₂ r₁ r₂ n hlen h₁ hinj h₂ a a' b b'

/-- 0x00-free strings -/
abbrev Str0 := { s : Bytes // (0 : UInt8) ∉ s }

/-- instance: the schema (int32, uint64, terminated 0x00-free string) is prefix-free … -/
theorem schema_i32_u64_str_prefixFree (x x' : BitVec 32) (y y' : BitVec 64) (s s' : Str0)
    (h : encI x ++ (encU y ++ (s.1 ++ [0])) <+: encI x' ++ (encU y' ++ (s'.1 ++ [0]))) :
    encI x ++ (encU y ++ (s.1 ++ [0])) = encI x' ++ (encU y' ++ (s'.1 ++ [0])) := by
  refine fixed_then_tail_prefixFree (fun x : BitVec 32 => encI x)
    (fun ys : BitVec 64 × Str0 => encU ys.1 ++ (ys.2.1 ++ [0])) 4
    (fun a => C07.encI_length a) ?_ x x' (y, s) (y', s') h
  intro b b' hb
  exact fixed_then_tail_prefixFree (fun y : BitVec 64 => encU y) (fun s : Str0 => s.1 ++ [0]) 8
    (fun a => C07.encU_length a)
    (fun s s' hs => terminated_string_prefixFree s.1 s'.1 s.2 s'.2 hs) b.1 b'.1 b.2 b'.2 hb

/-- … and injective: equal images come from equal tuples -/
theorem schema_i32_u64_str_inj (x x' : BitVec 32) (y y' : BitVec 64) (s s' : Str0)
    (h : encI x ++ (encU y ++ (s.1 ++ [0])) = encI x' ++ (encU y' ++ (s'.1 ++ [0]))) :
    x = x' ∧ y = y' ∧ s = s' := by
  have h1 := List.append_inj h (by rw [C07.encI_length, C07.encI_length])
  have h2 := List.append_inj h1.2 (by rw [C07.encU_length, C07.encU_length])
  refine ⟨(C07.encI_inj (by decide) x x').mp h1.1, (C07.encU_inj (by decide) y y').mp h2.1, ?_⟩
  exact Subtype.ext (List.append_cancel_right h2.2)

end ArtVerif.C09
