/-
  C02 (companion) — the order the driver's specification sorts by is the order the tree iterates in.

  The specification (Model/Spec.lean) keeps its entries sorted by `SKey.ord`, a list of integers that states the
  DECLARED order of each kind without reference to the library's encodings: the bytes of the original string for
  byte-string keys, the numeric rank for numbers (`NumTy.rank`: unsigned value / two's-complement value / NaN lowest
  then sign-magnitude for floats), the collation key bytes for collation trees.  These theorems connect that order
  with the byte order of the descent keys, in which `items` is strictly ascending (`C02.items_strictly_sorted`).
-/
import ArtVerif.Props.C02
import ArtVerif.Props.C07
import ArtVerif.Model.Spec
namespace ArtVerif.C02Order
open ArtVerif

def bytesOrd (bs : Bytes) : List Int := bs.map (fun b => (b.toNat : Int))

/-- integer-list order on byte values = bytewise order -/
theorem lexLtInt_bytesOrd (a b : Bytes) : lexLtInt (bytesOrd a) (bytesOrd b) = lexLt a b := by
  induction a generalizing b with
  | nil => cases b <;> simp [bytesOrd, lexLtInt, lexLt]
  | cons x a ih =>
    cases b with
    | nil => simp [bytesOrd, lexLtInt, lexLt]
    | cons y b =>
      simp only [bytesOrd, List.map_cons, lexLtInt, lexLt]
      have hxy : ((x.toNat : Int) < (y.toNat : Int)) ↔ x < y := by
        rw [UInt8.lt_iff_toNat_lt]; omega
      have hyx : ((y.toNat : Int) < (x.toNat : Int)) ↔ y < x := by
        rw [UInt8.lt_iff_toNat_lt]; omega
      by_cases h1 : x < y
      · simp [h1, hxy.mpr h1]
      · have h1' : ¬ ((x.toNat : Int) < (y.toNat : Int)) := fun h => h1 (hxy.mp h)
        by_cases h2 : y < x
        · simp [h1, h1', h2, hyx.mpr h2]
        · have h2' : ¬ ((y.toNat : Int) < (x.toNat : Int)) := fun h => h2 (hyx.mp h)
          simp only [h1, h1', h2, h2', if_false]
          exact ih b

/-- byte-string trees: the specification's order on originals is the tree's order on the stored (terminated) keys -/
theorem alpha_order (a b : Bytes) :
    lexLtInt (bytesOrd a) (bytesOrd b) = lexLt (a ++ [0]) (b ++ [0]) := by
  rw [lexLtInt_bytesOrd, C02.lexLt_terminated]

/-- numeric trees: the specification's rank order is the byte order of the encodings -/
theorem num_order (t : NumTy) (h8 : 8 ∣ t.width) (h0 : 0 < t.width) (a b : Nat) :
    lexLtInt [t.rank a] [t.rank b] = lexLt (t.enc a) (t.enc b) := by
  have h := C07.NumTy_enc_lt_iff t h8 h0 a b
  by_cases hr : t.rank a < t.rank b
  · have := h.mpr hr
    simp [lexLtInt, hr, this]
  · have hn : lexLt (t.enc a) (t.enc b) = false := by
      cases hl : lexLt (t.enc a) (t.enc b) with
      | false => rfl
      | true => exact absurd (h.mp hl) hr
    by_cases hr2 : t.rank b < t.rank a
    · simp [lexLtInt, hr, hr2, hn]
    · simp [lexLtInt, hr, hr2, hn]

/-- collation trees: the specification sorts by the raw collation key, the tree by the terminated one
    (`C08.lexLt_terminated2`); both are byte orders -/
theorem coll_order (x y : Bytes) : lexLtInt (bytesOrd x) (bytesOrd y) = lexLt x y := lexLtInt_bytesOrd x y

end ArtVerif.C02Order
