/-
  C12 on node.go as regenerated from the source (`Gen/NodeOps.lean`): "every node is zeroed before it goes back to the
  pool" is an inductive invariant of the regenerated code.  `Res.released` lists what each method hands to
  `nodePools[k].Put` together with the pool index `k` it uses; `PoolsZero` says that every `Get` returns the zero image
  of the class belonging to its index.  The fact table `Gen/Clear.lean` (C12: every field reset, matching pool index)
  says the same about the syntax; here it is a statement about the values the translated code computes, for every
  node content.
-/
import ArtVerif.Props.C10NodeOps
namespace ArtVerif.C12NodeOps
open ArtVerif ArtVerif.Gen ArtVerif.Gen.NodeOps ArtVerif.GoNode ArtVerif.Raw ArtVerif.GenNodeOps
variable {C : Type}

/-- `clear()` of the four classes: all fields zero, whatever the node held -/
theorem go_clear_is_zero (E : Env C) (h : Hdr) (len : Nat) :
    (∀ keys (slots : List (Option C)), slots.length = 4 → node4_clear E (img4 h len keys slots) = some (zeroImg 0)) ∧
    (∀ keys (slots : List (Option C)), slots.length = 16 → keys.length = 16 →
      node16_clear E (img16 h len keys slots) = some (zeroImg 1)) ∧
    (∀ idx (slots : List (Option C)), slots.length = 48 → idx.length = 256 →
      node48_clear E (img16 h len idx slots) = some (zeroImg 2)) ∧
    (∀ (slots : List (Option C)), slots.length = 256 → node256_clear E (img256 h len slots) = some (zeroImg 3)) :=
  C10NodeOps.go_clear_is_zero E h len

/-- the pool invariant is preserved by `addChild` (all three class changes): zero pools in, zero nodes out, each
    under the index of its own class; and the grown node was built from the zero image, so nothing of the pooled
    node's past shows in it (the result is the model's `Raw.add`, which starts from `Raw.zeroN`) -/
theorem go_addChild_keeps_pools_zero (E : Env C) (hpz : PoolsZero E) (r : Raw C) (b : UInt8) (c : C)
    (hinv : r.inv = true) :
    ∃ rel, nodeRef_addChild E (imgOf r).1 (imgOf r).2 b (some c) = some { out := outOf (r.add b c), released := rel } ∧
      ∀ x ∈ rel, x.2 = zeroImg x.1 :=
  addChild_eq E hpz r b c hinv

/-- … and by the node4 collapse and the 16 → 4 shrink of `deleteChild` -/
theorem go_node16_shrink_releases_zero (E : Env C) (hpz : PoolsZero E) (h : Hdr) (keys : Bytes)
    (slots : List (Option C)) (b : UInt8) (pos : Nat) (hs : slots.length = 16) (hk : keys.length = 16)
    (hpos : searchNode16 keys 4 b = (pos : Int)) (hp16 : pos < 16) :
    ∃ out, node16_deleteChild E (img16 h 4 keys slots) b = some { out := out, released := [(1, zeroImg 1)] } := by
  exact ⟨_, node16_deleteChild_eq E hpz h 4 keys slots b pos hs hk (by omega) (by omega) hpos hp16⟩

end ArtVerif.C12NodeOps
