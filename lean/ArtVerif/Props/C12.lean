/-
  C12 — recycled nodes never leak state between trees or across a tree's lifetime.

  Partial.  The tree model (Model/Tree.lean) has no pool at all: each operation is a pure function of the one
  tree it is applied to, and Layer R (Model/Raw.lean) takes every replacement node as the ZERO image.  That this
  is what the real code does is (i) the regenerated fact table `Gen/Clear.lean`: `clear()` resets every field of
  every node struct, every `Put` is of a cleared node of the pool's own class after the parent reference was
  re-pointed, every `Get` asserts the class's type – decided below; and (ii) the `multi` correspondence leg:
  interleaved histories over several live trees of mixed kinds with heavy class churn (so that nodes released by
  one tree are picked up by another) are compared, per tree, with the single-tree model, raw dumps included.
-/
import ArtVerif.Props.C06
import ArtVerif.Props.C17
import ArtVerif.Gen.Clear
namespace ArtVerif.C12
open ArtVerif T Tree

variable {V : Type}

/-! ### facts about the source, regenerated on every run -/

def fieldsOf (s : String) : List String := ((Gen.nodeStructFields.find? (·.1 == s)).map (·.2)).getD []
def clearedOf (s : String) : List String := ((Gen.clearedFields.find? (·.1 == s)).map (·.2)).getD []

/-- `clear()` of every pooled node struct resets every one of its fields (the embedded header as a whole) -/
theorem clear_covers_all_fields :
    ∀ s ∈ ["node4", "node16", "node48", "node256"],
      (fieldsOf s).length > 0 ∧ (fieldsOf s).all (fun f => (clearedOf s).contains f) = true := by decide

def kindType : String → Option String
  | "nodeKind4" => some "node4" | "nodeKind16" => some "node16"
  | "nodeKind48" => some "node48" | "nodeKind256" => some "node256" | _ => none

/-- pool slot `i` allocates the class whose tag has value `i` -/
theorem pool_new_matches_kind :
    Gen.poolNew.all (fun (i, ty) => Gen.kindConsts.any (fun (k, v) => v == i && kindType k == some ty)) = true ∧
    Gen.poolNew.length = 4 := by decide

/-- every Get/Put uses the pool of its own static type -/
theorem pool_sites_match_type :
    Gen.poolSites.all (fun (_, _, k, ty) => kindType k == some ty) = true := by decide

/-- every Put is immediately preceded by `clear()` on the same node and happens after the parent's reference
    was re-pointed away from it -/
theorem put_after_clear_and_unlink :
    Gen.putSites.all (fun (_, _, cleared, unlinked) => cleared && unlinked) = true ∧ Gen.putSites.length > 0 := by decide

/-! ### the model side -/

/-- a world of trees; a step touches exactly one of them -/
def stepWorld (tf : Bytes → Bytes) (w : List (Tree V)) (i : Nat) (op : C01.Op V) : List (Tree V) × Option (C01.Out V) :=
  match w[i]? with
  | none => (w, none)
  | some t => (w.set i (C01.stepT tf t op).1, some (C01.stepT tf t op).2)

/-- interleaving: a step on tree `i` yields the single-tree result and leaves every other tree unchanged -/
theorem world_step_independent (tf : Bytes → Bytes) (w : List (Tree V)) (i j : Nat) (op : C01.Op V) (t : Tree V)
    (hi : w[i]? = some t) :
    (stepWorld tf w i op).2 = some (C01.stepT tf t op).2 ∧
    (stepWorld tf w i op).1[i]? = some (C01.stepT tf t op).1 ∧
    (j ≠ i → (stepWorld tf w i op).1[j]? = w[j]?) := by
  have hlt : i < w.length := by
    rcases Nat.lt_or_ge i w.length with h | h
    · exact h
    · rw [List.getElem?_eq_none h] at hi; exact absurd hi (by simp)
  simp only [stepWorld, hi]
  refine ⟨trivial, by simp [hlt], fun hne => by rw [List.getElem?_set_ne (fun e => hne e.symm)]⟩

/-- a tree emptied by deletions IS a newly created one (same root, same size), so it behaves like one -/
theorem emptied_is_init {tf} {t : Tree V} (h : Inv tf t) (he : items t = []) : t = ({} : Tree V) := by
  obtain ⟨h1, h2⟩ := C17.emptied_retains_nothing h he
  cases t with
  | mk root size => simp at h1 h2; subst h1; subst h2; rfl

end ArtVerif.C12
