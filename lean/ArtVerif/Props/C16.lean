/-
  C16 — independent trees and concurrent readers are race-free.

  Partial: goroutine schedules, the Go memory model and `sync.Pool` are outside any Lean model here; they are
  exercised by the `race` leg (private trees per goroutine and read-only mixes on one shared tree under the race
  detector, results compared with the sequential model).  What is proved is the footprint argument on the table
  `Gen/Effects.lean`, regenerated from the source on every run: (1) no function of the package writes a
  package-level variable – the only shared state is `nodePools`, touched exclusively through `sync.Pool.Get/Put`;
  (2) the call-graph closure of the query methods of byte-string, numeric and compound trees contains no write to
  memory reachable from the receiver, a parameter or a global – only to locals.  Hence two operations on different
  trees have disjoint write footprints apart from `sync.Pool`, and two queries on one quiescent tree have empty
  write footprints: no pair of conflicting unsynchronised accesses exists in any schedule (DRF), and by DRF-SC each
  goroutine observes a sequential execution, whose results are C01–C05.
-/
import ArtVerif.Gen.Effects
import ArtVerif.Gen.Clear
namespace ArtVerif.C16
open ArtVerif.Gen

def sharedTreeTypes : List String :=
  ["alphaSortedTree", "unsignedSortedTree", "signedSortedTree", "floatSortedTree", "compoundSortedTree"]

def queryMethods : List String :=
  ["Search", "Minimum", "Maximum", "Size", "All", "Backward", "Prefix", "Range", "TopK", "BottomK", "restoreKey"]

def queryEntries : List String := sharedTreeTypes.flatMap (fun t => queryMethods.map (fun m => t ++ "." ++ m))

def calleesOf (f : String) : List String := ((calls.find? (·.1 == f)).map (·.2)).getD []
def refsOf (f : String) : List String := ((funcRefs.find? (·.1 == f)).map (·.2)).getD []

def allTreeTypes : List String := sharedTreeTypes ++ ["collationSortedTree"]
def leafTypes : List String :=
  ["alphaLeafNode", "unsignedLeafNode", "signedLeafNode", "floatLeafNode", "compoundLeafNode", "collateLeafNode"]
/-- the stateless key types of the library (a compound tree's codec is the user's; stateful codecs – like the
    collation key – are outside what the property allows for shared readers) -/
def statelessKeyTypes : List String :=
  ["AlphabeticalOrderKey", "UnsignedBinaryKey", "SignedBinaryKey", "FloatBinaryKey"]

def treeIfaceMethods : List String :=
  ["Insert", "Search", "Delete", "Minimum", "Maximum", "All", "Backward", "Prefix", "TopK", "BottomK", "Range", "Size"]

/-- interface method ↦ its implementations in the package -/
def ifaceTable : List (String × List String) :=
  treeIfaceMethods.map (fun m => ("Tree." ++ m, allTreeTypes.map (fun t => t ++ "." ++ m))) ++
  ["getKey", "getTransformKey"].map (fun m => ("nodeLeaf." ++ m, leafTypes.map (fun t => t ++ "." ++ m))) ++
  ["Transform", "Restore"].map (fun m => ("BinaryComparableKey." ++ m, statelessKeyTypes.map (fun t => t ++ "." ++ m)))

/-- resolve a callee name to package functions: interface methods fan out to every implementation -/
def resolve (c : String) : List String :=
  if funcs.contains c then [c]
  else ((ifaceTable.find? (·.1 == c)).map (·.2)).getD []

def succs (f : String) : List String := (calleesOf f ++ refsOf f).flatMap resolve

def closureStep (seen : List String) : List String :=
  (seen ++ seen.flatMap succs).eraseDups

def closure (start : List String) : List String :=
  (List.range funcs.length).foldl (fun acc _ => closureStep acc) start.eraseDups

def writesOf (f : String) : List (String × String) := ((writes.find? (·.1 == f)).map (·.2)).getD []

/-- everything a query on a byte-string, numeric or compound tree can execute inside the package -/
def queryClosure : List String := closure queryEntries

/-- (2) queries write nothing but locals -/
theorem query_closure_writes_nothing_shared :
    queryClosure.all (fun f => (writesOf f).all (fun w => w.1 == "local")) = true := by
  decide +kernel

/-- every implementation named in the interface table exists in the source, so the fan-out is not vacuous -/
theorem iface_table_sound :
    ifaceTable.all (fun e => e.2.all (fun f => funcs.contains f)) = true := by
  decide +kernel

/-- the entry points exist in the source (the theorem above is not about an empty set) -/
theorem query_entries_exist :
    queryEntries.all (fun f => funcs.contains f) = true ∧ 20 ≤ queryClosure.length := by
  decide +kernel

/-- (1) nobody writes a package-level variable -/
theorem no_global_writes : writes.all (fun fw => fw.2.all (fun w => w.1 != "global")) = true := by
  decide +kernel

/-- the package-level variables: the node pools and a stringer table -/
theorem only_global_is_pool : globals.all (fun g => g == "nodePools" || g == "_nodeKind_index") = true := by
  decide +kernel

/-- the assembly routines are the only functions whose body the table cannot see; both only load -/
theorem extern_funcs_known : externFuncs = ["insertPosNode16", "searchNode16"] := by decide +kernel

/-- an object handed to the shared pool is wiped BEFORE the hand-over and never touched afterwards by the
    releasing operation (`clear()` is the statement immediately before every `Put`), so the pool never publishes an
    object another goroutine could still see being written -/
theorem released_nodes_wiped_before_put :
    putSites.all (fun (_, _, clearedJustBefore, _) => clearedJustBefore) = true ∧ putSites.length > 0 := by decide +kernel

/-- footprints: a write of class "local" is invisible to other goroutines; every other write is reachable only
    through the receiver or a parameter of the operation – i.e. through the tree the operation was called on or a
    value the caller passed in.  Two operations on different trees, or two queries on the same tree, therefore have
    no conflicting accesses outside `sync.Pool`. -/
theorem drf_from_effects :
    (writes.all (fun fw => fw.2.all (fun w => w.1 == "local" || w.1 == "heap:recv" || w.1 == "heap:param"))) = true ∧
    queryClosure.all (fun f => (writesOf f).all (fun w => w.1 == "local")) = true := by
  constructor
  · decide +kernel
  · exact query_closure_writes_nothing_shared

end ArtVerif.C16
