/-
  C05 on tree.go's `minimum()` / `maximum()` AS REGENERATED FROM THE SOURCE on every run (`Gen/WalkOps.lean`:
  `minimum_step`, `maximum_step` – the switch of the walk: `children[0]`, `children[childrenLen-1]` with the
  subtraction on a `uint8`, the upward / downward scans over the 256 index bytes of a node48 and the 256 slots of a
  node256).  Until this module the per-class steps were hand-modelled (`Raw.minChild`/`Raw.maxChild`) and tied to the
  code by the bare-node correspondence (`bn min`, `bn max`).  Here the regenerated steps are proved to be those
  functions (`Proofs/GenWalk`), hence (`Proofs/RawMinMax`) to continue with the child of the FIRST / LAST entry of the
  node's ordered byte → child table, for every node satisfying the raw invariant – whatever the unoccupied lanes and
  slots hold, and without indexing out of range.  `C05Raw.minimum_is_least` / `maximum_is_greatest` turn that into
  "the least / greatest stored key" for the walk over a tree of raw node records.

  Outside this module: the loop head of the walk (`for ref.pointer != nil`, the leaf test) – two lines that
  `RT.minimum`/`RT.maximum` mirror by hand.
-/
import ArtVerif.Proofs.GenWalk
namespace ArtVerif.C05NodeOps
open ArtVerif ArtVerif.Gen ArtVerif.Gen.WalkOps ArtVerif.GoNode ArtVerif.Raw ArtVerif.GenNodeOps ArtVerif.GenWalk
variable {C : Type}

theorem len_pos_of_abs (r : Raw C) (hinv : r.inv = true) (hne : r.abs ≠ []) : 0 < r.len ∨ r.cls = 256 := by
  cases r with
  | n4 h len keys slots =>
    left
    rcases Nat.eq_zero_or_pos len with h0 | h0
    · subst h0; exact absurd rfl hne
    · exact h0
  | n16 h len keys slots =>
    left
    rcases Nat.eq_zero_or_pos len with h0 | h0
    · subst h0; exact absurd rfl hne
    · exact h0
  | n48 h len idx slots =>
    left
    have := ((inv48_iff h len idx slots).1 hinv).2.2.1
    simp only [Raw.len]; omega
  | n256 h len slots => right; rfl

/-- one step of `minimum()` of tree.go continues with the child registered under the SMALLEST byte of the node -/
theorem go_minimum_step_is_first_entry (E : Env C) (r : Raw C) (hinv : r.inv = true) (hne : r.abs ≠ []) :
    minimum_step E (imgOf r).1 (imgOf r).2 = some ((r.abs.head?).map (·.2)) := by
  rw [minimum_step_eq E r hinv, minChild_spec r hinv hne]

/-- one step of `maximum()` of tree.go continues with the child registered under the LARGEST byte of the node -/
theorem go_maximum_step_is_last_entry (E : Env C) (r : Raw C) (hinv : r.inv = true) (hne : r.abs ≠ []) :
    maximum_step E (imgOf r).1 (imgOf r).2 = some ((r.abs.getLast?).map (·.2)) := by
  rw [maximum_step_eq E r hinv (len_pos_of_abs r hinv hne), maxChild_spec r hinv hne]

/-! non-vacuity: a node4 holding 0x10 and 0x80, and the same node after two more insertions -/
def r2 : Raw Nat := (((Raw.zero4 : Raw Nat).add 0x80 1).add 0x10 2)
def E0 : Env Nat := { pool := zeroImg, isLeaf := fun _ => true, hdr := fun _ => ⟨0, 0, zeroPrefix⟩, setHdr := fun c _ => c }
example : r2.inv = true ∧ r2.abs ≠ [] := by decide
example : minimum_step E0 (imgOf r2).1 (imgOf r2).2 = some (some 2) := by decide
example : maximum_step E0 (imgOf r2).1 (imgOf r2).2 = some (some 1) := by decide

end ArtVerif.C05NodeOps
