/-
  C08 — collation trees follow the configured collator and keep original strings.

  The collation tree stores two keys per leaf: the original bytes (compared at the leaf, returned by
  iteration) and the collation key `sk orig ++ [0,0]` the descent runs on (the terminator is the repair of
  defect D11).  `sk` – x/text's `collate.Key` under the configured options – is a parameter: all theorems
  hold for every `sk`.  What is assumed of x/text and measured by the harness on every generated pair of
  stored strings: `sk` tells the stored strings apart, no key continues another one with `00 00`, and no key
  is another one followed by a single `00`.
-/
import ArtVerif.Props.C05
import ArtVerif.Props.C06
namespace ArtVerif.C08
open ArtVerif T Tree

variable {V : Type}

/-- descent key of a collation tree -/
def tfColl (sk : Bytes → Bytes) : Bytes → Bytes := fun orig => sk orig ++ [0, 0]

/-- what is assumed of the sort keys of the stored strings -/
structure KeysOK (sk : Bytes → Bytes) (S : List Bytes) : Prop where
  inj : ∀ a ∈ S, ∀ b ∈ S, sk a = sk b → a = b
  noZeroZero : ∀ a ∈ S, ∀ b ∈ S, ¬ sk a ++ [0, 0] <+: sk b
  noZeroTail : ∀ a ∈ S, ∀ b ∈ S, sk b ≠ sk a ++ [0]

theorem prefix_append_cases {x y : Bytes} {t : Bytes} (h : x ++ t <+: y ++ t) (ht : t.length = 2) :
    x ++ t <+: y ∨ x.length = y.length ∨ x.length + 1 = y.length := by
  have hl := h.length_le
  simp only [List.length_append, ht] at hl
  by_cases h1 : x.length + 2 ≤ y.length
  · left
    obtain ⟨r, hr⟩ := h
    have : (x ++ t) = (y ++ t).take (x.length + 2) := by
      rw [← hr, List.take_append_of_le_length (by simp [ht])]
      exact (List.take_of_length_le (by simp [ht])).symm
    rw [this, List.take_append_of_le_length h1]
    exact List.take_prefix _ _
  · omega

/-- terminated sort keys of distinguishable strings are prefix-free: C01's contract for collation trees -/
theorem terminated_sortkeys_prefix_free (sk : Bytes → Bytes) (S : List Bytes) (h : KeysOK sk S) :
    C01.PrefixFree (tfColl sk) S := by
  intro a ha b hb hpre
  simp only [tfColl] at hpre
  rcases prefix_append_cases hpre rfl with h1 | h1 | h1
  · exact absurd h1 (h.noZeroZero a ha b hb)
  · -- equal length: the keys are equal
    have : sk a ++ [0, 0] = sk b ++ [0, 0] := List.IsPrefix.eq_of_length hpre (by simp [h1])
    exact h.inj a ha b hb (List.append_cancel_right this)
  · -- sk b = sk a ++ [0]
    exfalso
    obtain ⟨r, hr⟩ := hpre
    have hrl : r.length = 1 := by
      have := congrArg List.length hr
      simp at this; omega
    match r, hrl with
    | [z], _ =>
      have h2 : sk a ++ [0, 0, z] = sk b ++ [0, 0] := by simpa using hr
      have h3 : (sk a ++ [0]) ++ [0, z] = sk b ++ [0, 0] := by simpa using h2
      have h4 := List.append_inj h3 (by simp; omega)
      exact h.noZeroTail a ha b hb h4.1.symm

/-- hence (C01) a collation tree is an exact map keyed by the ORIGINAL strings: strings that differ only at
    secondary or tertiary level are different keys, each retrievable, and iteration returns the originals. -/
theorem collation_refines_map (sk : Bytes → Bytes) (ops : List (C01.Op V))
    (h : KeysOK sk (C01.insertedKeys ops)) :
    (C01.runT (tfColl sk) ({} : Tree V) ops).2 = (C01.runS (fun _ => none) ops).2 ∧
    abs (C01.runT (tfColl sk) ({} : Tree V) ops).1 = (C01.runS (fun _ => none) ops).1 :=
  C01.refines_map (tfColl sk) ops (terminated_sortkeys_prefix_free sk _ h)

/-- iteration order = byte order of the collation keys: the terminator does not change the order -/
theorem lexLt_terminated2 (x y : Bytes) (h1 : ¬ x ++ [0, 0] <+: y) (h2 : ¬ y ++ [0, 0] <+: x)
    (h3 : y ≠ x ++ [0]) (h4 : x ≠ y ++ [0]) :
    lexLt (x ++ [0, 0]) (y ++ [0, 0]) = lexLt x y := by
  induction x generalizing y with
  | nil =>
    cases y with
    | nil => simp [lexLt]
    | cons b y =>
      simp only [List.nil_append, List.cons_append, lexLt]
      by_cases hb : (0 : UInt8) < b
      · simp [hb]
      · have hb0 : b = 0 := by
          rw [UInt8.lt_iff_toNat_lt] at hb
          exact UInt8.toNat_inj.mp (by simp at hb ⊢; omega)
        subst hb0
        simp only [UInt8.lt_irrefl, if_false]
        cases y with
        | nil => exact absurd rfl h3
        | cons c y =>
          simp only [List.cons_append, lexLt]
          by_cases hc : (0 : UInt8) < c
          · simp [hc]
          · have hc0 : c = 0 := by
              rw [UInt8.lt_iff_toNat_lt] at hc
              exact UInt8.toNat_inj.mp (by simp at hc ⊢; omega)
            subst hc0
            exact absurd (by simp) h1
  | cons a x ih =>
    cases y with
    | nil =>
      simp only [List.cons_append, List.nil_append, lexLt]
      have ha' : ¬ a < 0 := by rw [UInt8.lt_iff_toNat_lt]; simp
      by_cases ha : (0 : UInt8) < a
      · simp [ha, ha']
      · have ha0 : a = 0 := by
          rw [UInt8.lt_iff_toNat_lt] at ha
          exact UInt8.toNat_inj.mp (by simp at ha ⊢; omega)
        subst ha0
        simp only [UInt8.lt_irrefl, if_false]
        cases x with
        | nil => exact absurd rfl h4
        | cons c x =>
          simp only [List.cons_append, lexLt]
          have hc' : ¬ c < 0 := by rw [UInt8.lt_iff_toNat_lt]; simp
          by_cases hc : (0 : UInt8) < c
          · simp [hc, hc']
          · have hc0 : c = 0 := by
              rw [UInt8.lt_iff_toNat_lt] at hc
              exact UInt8.toNat_inj.mp (by simp at hc ⊢; omega)
            subst hc0
            exact absurd (by simp) h2
    | cons b y =>
      simp only [List.cons_append, lexLt]
      by_cases hab : a < b
      · simp [hab]
      · by_cases hba : b < a
        · simp [hab, hba]
        · simp only [hab, hba, if_false]
          have hab' : a = b := uint8_eq_of_not_lt hab hba
          subst hab'
          apply ih
          · intro h; exact h1 (by simpa using h)
          · intro h; exact h2 (by simpa using h)
          · intro h; exact h3 (by simp [h])
          · intro h; exact h4 (by simp [h])

/-- D11 as a Lean fact: without the terminator the `Loose` keys of "a" and "ab" are prefixes of one another
    and the (model of the) tree loses "a" -/
example :
    let ka : Bytes := [0x15, 0xef]
    let kab : Bytes := [0x15, 0xef, 0x16, 0x05]
    ka <+: kab ∧
    (let t : Tree Nat := (({} : Tree Nat).insert ka [97] 1).insert kab [97, 98] 2
     t.search ka [97] = none) ∧
    (let t : Tree Nat := (({} : Tree Nat).insert (ka ++ [0, 0]) [97] 1).insert (kab ++ [0, 0]) [97, 98] 2
     t.search (ka ++ [0, 0]) [97] = some 1 ∧ t.search (kab ++ [0, 0]) [97, 98] = some 2) := by decide

end ArtVerif.C08
