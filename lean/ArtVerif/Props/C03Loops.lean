/-
  C03: `rangeScan` computes its pruning key with `longestCommonPrefix(transformStart, transformEnd, 0)` and compares a
  node's inline bytes with `longestCommonPrefix(nodeKey, search[depth:…], 0)`.  The model uses `lcpLen` there.  The Go
  function, regenerated from tree.go on every run, is `lcpLen` on the suffixes from `depth` and never faults.
-/
import ArtVerif.Proofs.GenLoops
namespace ArtVerif.C03Loops
open ArtVerif ArtVerif.Gen.Loops ArtVerif.GenLoops

theorem longestCommonPrefix_spec (key other : Bytes) (d : Nat) :
    longestCommonPrefix key other (d : Int) = some ((lcpLen (key.drop d) (other.drop d) : Nat) : Int) :=
  longestCommonPrefix_eq key other d

theorem longestCommonPrefix_at_zero (key other : Bytes) :
    longestCommonPrefix key other 0 = some ((lcpLen key other : Nat) : Int) := by
  have := longestCommonPrefix_eq key other 0
  simpa using this

example : longestCommonPrefix [7, 7, 1] [7, 7, 2, 5] 0 = some 2 := by decide
example : longestCommonPrefix [7, 7, 1] [7, 7, 1] 1 = some 2 := by decide
example : longestCommonPrefix [7] [] 3 = some 0 := by decide

end ArtVerif.C03Loops
