/-
  C03 on tree.go's `rangeScan()` AS REGENERATED FROM THE SOURCE on every run (`Gen/RangeOps.lean`: `rangeScan_push` –
  the switch at the end of the body of `for len(q) != 0`, which pushes `rangeEntry{child, childDepth}` for every child
  of an inner node).  `Proofs/GenRange` proves the regenerated loops to be `Raw.pushDesc` paired with the depth, which is
  what `RT.rangeLoop` (`Model/RIter.lean`, the subject of `C03Raw.raw_range_after_history`) puts on its stack; with
  `Proofs/RIterSim`: on every node satisfying the raw invariant the scan continues with exactly the children of the
  ordered byte → child table, in descending byte order (so the smallest is popped first), every one carrying the depth of
  ITS OWN path – the fact whose violation was defect D4 (one depth for the whole scan).

  Hand-modelled and tied by correspondence: the rest of the loop body (leaf comparison with the bounds, early `break`,
  the pruning test on the first inline bytes, `childDepth := depth + prefixLen + 1`).
-/
import ArtVerif.Proofs.GenRange
import ArtVerif.Proofs.RIterSim
namespace ArtVerif.C03NodeOps
open ArtVerif ArtVerif.Gen ArtVerif.Gen.RangeOps ArtVerif.GoNode ArtVerif.Raw ArtVerif.GenNodeOps ArtVerif.GenRange
variable {C : Type}

theorem go_rangeScan_pushes_table_descending_with_depth (E : Env C) (r : Raw C) (q : List (Option C × Int)) (cd : Int)
    (hinv : r.inv = true) :
    rangeScan_push E (imgOf r).1 (imgOf r).2 q cd =
      some (q ++ ((r.abs.map (fun p => some p.2)).reverse.map fun c => (c, cd))) := by
  rw [rangeScan_push_eq E r q cd hinv, Raw.pushDesc_eq, Raw.pushAsc_eq r hinv]
  rfl

/-- every pushed entry carries the depth that was computed for the children of THIS node -/
theorem go_rangeScan_depth_is_per_entry (E : Env C) (r : Raw C) (q : List (Option C × Int)) (cd : Int)
    (hinv : r.inv = true) :
    ∃ pushed, rangeScan_push E (imgOf r).1 (imgOf r).2 q cd = some (q ++ pushed) ∧ ∀ e ∈ pushed, e.2 = cd := by
  refine ⟨_, go_rangeScan_pushes_table_descending_with_depth E r q cd hinv, ?_⟩
  intro e he
  obtain ⟨c, _, rfl⟩ := List.mem_map.1 he
  rfl

/-! non-vacuity -/
def r3 : Raw Nat := ((((Raw.zero4 : Raw Nat).add 0x80 1).add 0x10 2).add 0xff 3)
def E0 : Env Nat := { pool := zeroImg, isLeaf := fun _ => true, hdr := fun _ => ⟨0, 0, zeroPrefix⟩, setHdr := fun c _ => c }
example : r3.inv = true := by decide
example : rangeScan_push E0 (imgOf r3).1 (imgOf r3).2 [(none, 0)] 7 = some [(none, 0), (some 3, 7), (some 1, 7), (some 2, 7)] := by
  decide

end ArtVerif.C03NodeOps
