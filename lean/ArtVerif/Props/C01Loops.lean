/-
  C01 and the byte-scanning helpers of tree.go.

  `Search` and `Delete` call `n.checkPrefix(key, depth)` and compare its result with `min(prefixLen, 10)`; `Insert`
  calls `prefixMismatch(n, key, depth)`.  The model functions (`T.search`, `T.deleteNode`, `T.insert`, and their
  raw-node versions) use `T.checkPrefixOk` and `T.prefixMismatch` in those places.  Here the Go functions themselves
  – regenerated statement by statement from tree.go on every run (`Gen/Loops.lean`; Go `int` = `Int`, an index out
  of range = `none`) – are shown to return exactly those values and never to index out of range, for every key,
  every depth ≥ 0 and every node header (any `prefixLen`, any ten bytes in the `prefix` array).
-/
import ArtVerif.Proofs.GenLoops
namespace ArtVerif.C01Loops
open ArtVerif ArtVerif.Gen.Loops ArtVerif.GenLoops

/-- `n.checkPrefix(key, depth)`: never faults; the number of leading inline bytes that agree with `key[depth:]` -/
theorem checkPrefix_spec (plen : Nat) (pfx key : Bytes) (d : Nat) (hp : pfx.length = 10) :
    checkPrefix (plen : Int) pfx key (d : Int) = some ((lcpLen (inl plen pfx) (key.drop d) : Nat) : Int) :=
  checkPrefix_eq plen pfx key d hp

/-- the test `checkPrefix(key, depth) != min(prefixLen, 10)` of Search/Delete is the model's `checkPrefixOk` -/
theorem checkPrefix_test_is_checkPrefixOk (plen : Nat) (pfx key : Bytes) (d : Nat) (hp : pfx.length = 10) :
    checkPrefix (plen : Int) pfx key (d : Int) = some ((min plen 10 : Nat) : Int) ↔
      T.checkPrefixOk (inl plen pfx) key d = true :=
  checkPrefix_ok_iff plen pfx key d hp

/-- `prefixMismatch(n, key, depth)` (with the key of the minimum leaf below `n`): never faults; the model's value -/
theorem prefixMismatch_spec (plen : Nat) (pfx key : Bytes) (d : Nat) (minLeafKey : Bytes) (hp : pfx.length = 10) :
    prefixMismatch (plen : Int) pfx key (d : Int) minLeafKey =
      some ((T.prefixMismatch plen (inl plen pfx) minLeafKey key d : Nat) : Int) :=
  prefixMismatch_eq plen pfx key d minLeafKey hp

/-! non-vacuity: a 12-byte path (10 inline bytes + the minimum leaf), a probe that leaves it at byte 11, one that
    ends inside it, one that starts beyond the key -/
def pfx10 : Bytes := [1, 2, 3, 4, 5, 6, 7, 8, 9, 10]
def leafK : Bytes := [0, 1, 2, 3, 4, 5, 6, 7, 8, 9, 10, 11, 12, 13]

example : prefixMismatch 12 pfx10 [0, 1, 2, 3, 4, 5, 6, 7, 8, 9, 10, 11, 99, 13] 1 leafK = some 11 := by decide
example : prefixMismatch 12 pfx10 [0, 1, 2, 3, 4, 5] 1 leafK = some 5 := by decide
example : prefixMismatch 12 pfx10 [0, 1] 5 leafK = some 0 := by decide
example : checkPrefix 12 pfx10 [0, 1, 2, 3, 4, 5, 6, 7, 8, 9, 10, 77] 1 = some 10 := by decide
example : checkPrefix 3 pfx10 [0, 1, 2, 9] 1 = some 2 := by decide
example : longestCommonPrefix [1, 2, 3, 4] [1, 2, 9] 0 = some 2 := by decide

end ArtVerif.C01Loops
