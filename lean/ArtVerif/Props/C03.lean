/-
  C03 — Range(start,end) returns exactly the stored keys between the bounds.

  For the kinds the property covers (byte-string, numeric, compound) leaf key = descent key (`tf = id`; byte
  strings carry their terminator, numbers are their encodings, whose byte order is the numeric order by C07).
  `Tree.rangeBytes/rangeNum/rangeOpen` (Model/Api.lean) are the entry points; `T.rangeLoop` is the pruned scan.
-/
import ArtVerif.Proofs.Range
import ArtVerif.Props.C05
namespace ArtVerif.C03
open ArtVerif T Tree

variable {V σ : Type}

/-- the scan between ordered bounds: every consumer sees exactly the stored pairs with
    `start ≤ key ≤ stop`, ascending, until it stops -/
theorem rangeScan_eq_filter {t : Tree V} (h : Inv id t) (start stop : Bytes) (f : Yield σ V) (s : σ) :
    T.rangeScan t.root start stop start stop f s = foldUntil f s ((items t).filter (inRange start stop)) := by
  unfold T.rangeScan
  cases hr : t.root with
  | none => simp [items, leaves, hr, foldUntil]
  | some r =>
    have hit : items t = inorder r := by simp [items, leaves, hr]
    have hflat : flat [(r, 0)] = inorder r := by simp [flat]
    simp only
    rw [rangeLoop_eq start stop _ (List.take_prefix _ _)
      (by rw [take_lcpLen]; exact List.take_prefix _ _) f (stackFuel r) [(r, 0)] s]
    · rw [hflat, hit]
    · intro e he; simp at he; subst he; exact ⟨[], h.wf r hr, rfl⟩
    · rw [hflat]; exact WF.sorted r [] (h.wf r hr)
    · rw [hflat]; intro x hx; exact (h.keyed x (hit ▸ hx)).symm
    · simp [pairNodes, stackFuel]

def lo (a b : Bytes) : Bytes := if lexLt b a then b else a
def hi (a b : Bytes) : Bytes := if lexLt b a then a else b

/-- **Range, whichever way round the bounds are given**: exactly the stored keys `k` with
    `min(a,b) ≤ k ≤ max(a,b)`, bounds inclusive, present or not -/
theorem range_eq_filter {t : Tree V} (h : Inv id t) (a b : Bytes) (f : Yield σ V) (s : σ) :
    t.rangeBytes a b f s = foldUntil f s ((items t).filter (inRange (lo a b) (hi a b))) := by
  unfold Tree.rangeBytes lo hi
  by_cases hba : lexLt b a = true
  · simp only [hba, if_true]; exact rangeScan_eq_filter h b a f s
  · simp only [hba, if_false, Bool.false_eq_true]; exact rangeScan_eq_filter h a b f s

/-- on an empty tree every Range yields nothing (and returns) -/
theorem range_empty (a b : Bytes) (f : Yield σ V) (s : σ) : ({} : Tree V).rangeBytes a b f s = s := by
  unfold Tree.rangeBytes T.rangeScan; simp

theorem rangeOpen_empty (a : Bytes) (f : Yield σ V) (s : σ) : ({} : Tree V).rangeOpen a f s = s := by
  unfold Tree.rangeOpen Tree.maximum; simp

theorem rangeNum_empty (a b : Bytes) (f : Yield σ V) (s : σ) : ({} : Tree V).rangeNum a b f s = s := by
  unfold Tree.rangeNum
  by_cases hab : a = b
  · simp [hab, Tree.search]
  · simp only [hab, if_false]; exact range_empty a b f s

theorem lexLe_antisymm {x y : Bytes} (h1 : lexLt x y = false) (h2 : lexLt y x = false) : x = y := by
  rcases lexLt_total x y with h | h | h
  · rw [h] at h1; exact absurd h1 (by simp)
  · exact h
  · rw [h] at h2; exact absurd h2 (by simp)

/-- numeric trees, `start == end`: served by Search, and equal to the same filter -/
theorem rangeNum_eq_filter {t : Tree V} (h : Inv id t) (a b : Bytes) (f : Yield σ V) (s : σ) :
    t.rangeNum a b f s = foldUntil f s ((items t).filter (inRange (lo a b) (hi a b))) := by
  unfold Tree.rangeNum
  by_cases hab : a = b
  · subst hab
    simp only [if_true, lo, hi, lexLt_irrefl, Bool.false_eq_true, if_false]
    have hs := search_eq h a
    simp only [id] at hs
    rw [hs]
    -- the filter singles out the key a
    have hfil : ∀ v, abs t a = some v → (items t).filter (inRange a a) = [(a, a, v)] := by
      intro v hv
      apply sorted_ext
      · exact List.Pairwise.sublist List.filter_sublist (items_sorted h)
      · simp
      · intro x
        simp only [List.mem_filter, List.mem_singleton, inRange, Bool.and_eq_true, Bool.not_eq_true']
        constructor
        · rintro ⟨hx, h1, h2⟩
          have hk : x.1 = a := lexLe_antisymm h1 h2
          have := (abs_eq_some_iff h a v).mp hv
          exact key_unique h hx this hk
        · intro hx; subst hx
          exact ⟨(abs_eq_some_iff h a v).mp hv, by simp [lexLt_irrefl], by simp [lexLt_irrefl]⟩
    cases ha : abs t a with
    | none =>
      have : (items t).filter (inRange a a) = [] := by
        rw [List.filter_eq_nil_iff]
        intro x hx hr
        simp only [inRange, Bool.and_eq_true, Bool.not_eq_true'] at hr
        exact (abs_eq_none_iff h a).mp ha x hx (lexLe_antisymm hr.1 hr.2)
      rw [this]; simp [foldUntil]
    | some v =>
      rw [hfil v ha]
      simp only [foldUntil]
      cases f s (a, a, v) with
      | mk s' c => cases c <;> rfl
  · simp only [hab, if_false]; exact range_eq_filter h a b f s

theorem le_getLast {l : List (Item V)} (hs : l.Pairwise ItemLt) {m : Item V} (hm : l.getLast? = some m) :
    ∀ x ∈ l, x = m ∨ ItemLt x m := by
  induction l with
  | nil => simp at hm
  | cons y l ih =>
    simp only [List.pairwise_cons] at hs
    intro x hx
    cases l with
    | nil => simp at hm hx; subst hm; subst hx; exact Or.inl rfl
    | cons z l' =>
      have hm' : (z :: l').getLast? = some m := by simpa [List.getLast?_cons_cons] using hm
      cases hx with
      | head =>
        right
        have hmm : m ∈ z :: l' := List.mem_of_getLast? hm'
        exact hs.1 m hmm
      | tail _ hx' => exact ih hs.2 hm' x hx'

/-- byte-string trees, empty end bound: from `a` up to the largest stored key
    (carved out by the property: a start above the maximum) -/
theorem rangeOpen_eq_filter {t : Tree V} (h : Inv id t) (a : Bytes) (f : Yield σ V) (s : σ)
    (hcarve : ∀ m, t.maximum = some m → lexLt m.1 a = false) :
    t.rangeOpen a f s = foldUntil f s ((items t).filter (fun it => !lexLt it.1 a)) := by
  unfold Tree.rangeOpen
  have hmax := C05.maximum_eq_last h
  cases hm : t.maximum with
  | none =>
    have : items t = [] := (C05.maximum_none_iff h).mp hm
    simp [this, foldUntil]
  | some m =>
    obtain ⟨mk, mtk, mv⟩ := m
    simp only
    rw [range_eq_filter h a mk f s]
    have hc := hcarve _ hm
    simp only at hc
    congr 1
    apply List.filter_congr
    intro x hx
    have hle := le_getLast (items_sorted h) (hmax ▸ hm) x hx
    have hxk := h.keyed x hx
    simp only [id] at hxk
    have hxm : lexLt mk x.1 = false := by
      rcases hle with he | hlt
      · subst he; exact lexLt_irrefl _
      · have hmk : mtk = mk := by
          have := h.keyed (mk, mtk, mv) (List.mem_of_getLast? (hmax ▸ hm))
          simpa [id] using this
        simp only [ItemLt] at hlt
        rw [hxk, hmk] at hlt
        exact lexLt_asymm hlt
    simp [inRange, lo, hi, hc, hxm]

/-- the repaired defect D4: a later sibling is not pruned with the depth of an earlier one -/
example :
    let ks : List Bytes := [[97], [97, 97], [97, 97, 97], [97, 97, 97, 98, 97, 98], [97, 98, 97, 97, 97],
      [97, 98, 97, 97, 97, 98], [98, 97, 97], [98, 97, 97, 97, 98, 97]]
    let t : Tree Nat := (ks.zipIdx).foldl (fun t kv => t.insert (kv.1 ++ [0]) (kv.1 ++ [0]) kv.2) {}
    (t.rangeBytes ([98, 97, 97, 97, 98, 97, 0]) ([98, 97, 97, 97, 98, 97, 0]) (collect 0) []).map (·.2.2) = [7] := by
  decide

end ArtVerif.C03
