/-
  C05 on the raw nodes: `minimum()` / `maximum()` of tree.go – per node class `children[0]`,
  `children[childrenLen-1]`, the scans over the node48 index and the node256 slots – reach, on a tree whose nodes
  satisfy the raw invariant, the leaf that `Minimum`/`Maximum` of the abstract tree reach (which `C05` shows to be the
  least / greatest stored key).

  `Raw.minChild`/`Raw.maxChild` are compared with the real `minimum`/`maximum` on every `bn min`/`bn max` line of the
  node-level correspondence.
-/
import ArtVerif.Proofs.RawMinMax
import ArtVerif.Proofs.RSim
namespace ArtVerif.C05Raw
open ArtVerif ArtVerif.Gen ArtVerif.Raw ArtVerif.Compose ArtVerif.RT ArtVerif.RSim
variable {C V : Type}

/-- one step of `minimum()` is the child of the first entry of the byte→child table -/
theorem min_child_is_first_entry (r : Raw C) (hinv : r.inv = true) (hne : r.abs ≠ []) :
    r.minChild = (r.abs.head?).map (·.2) := minChild_spec r hinv hne

/-- one step of `maximum()` is the child of the last entry of the byte→child table -/
theorem max_child_is_last_entry (r : Raw C) (hinv : r.inv = true) (hne : r.abs ≠ []) :
    r.maxChild = (r.abs.getLast?).map (·.2) := maxChild_spec r hinv hne

theorem minimum_leaf (hf : Nat) (k tk : Bytes) (v : V) : RT.minimum hf (.leaf k tk v) = some (k, tk, v) := by
  cases hf <;> rfl
theorem maximum_leaf (hf : Nat) (k tk : Bytes) (v : V) : RT.maximum hf (.leaf k tk v) = some (k, tk, v) := by
  cases hf <;> rfl

theorem maxLeafL_getLast : ∀ (ch : T.Ch V),
    T.maxLeafL ch = match ch.getLast? with | some bc => T.maxLeaf bc.2 | none => none
  | [] => rfl
  | [(_, _)] => rfl
  | _ :: c2 :: rest => by
    rw [T.maxLeafL, maxLeafL_getLast (c2 :: rest), List.getLast?_cons_cons]

theorem mapCh_getLast? (f : C → T V) (L : List (UInt8 × C)) :
    (mapCh f L).getLast? = (L.getLast?).map (fun p => (p.1, f p.2)) := by
  unfold mapCh; rw [List.getLast?_map]

/-- the walk of `minimum()` over raw nodes ends in the leaf `Minimum` of the abstract tree reaches -/
theorem minimum_sim : ∀ (h hf : Nat) (t : RT V), good h t = true → h ≤ hf → T.Full (absRT h t) →
    RT.minimum hf t = T.minLeaf (absRT h t) := by
  intro h
  induction h with
  | zero =>
    intro hf t hg _ _
    cases t with
    | leaf k tk v => rw [minimum_leaf, absRT_leaf]; rfl
    | node r => cases hg
  | succ h ih =>
    intro hf t hg hle hfull
    cases t with
    | leaf k tk v => rw [minimum_leaf, absRT_leaf]; rfl
    | node r =>
      cases hf with
      | zero => omega
      | succ hf =>
        obtain ⟨hinv, hch⟩ := (good_node_iff h r).1 hg
        rw [absRT_node] at hfull ⊢
        cases hfull with
        | node _ _ _ _ hne hfc =>
          have hne' : r.abs ≠ [] := by intro e; apply hne; rw [e]; rfl
          simp only [RT.minimum, T.minLeaf, minChild_spec r hinv hne']
          cases ha : r.abs with
          | nil => exact absurd ha hne'
          | cons p rest =>
            obtain ⟨b, c⟩ := p
            simp only [List.head?_cons, Option.map_some, mapCh, List.map_cons, T.minLeafL]
            refine ih hf c (hch (b, c) (by rw [ha]; exact List.mem_cons_self)) (by omega) ?_
            exact hfc (b, absRT h c) (by rw [ha]; simp [mapCh])

/-- the walk of `maximum()` over raw nodes ends in the leaf `Maximum` of the abstract tree reaches -/
theorem maximum_sim : ∀ (h hf : Nat) (t : RT V), good h t = true → h ≤ hf → T.Full (absRT h t) →
    RT.maximum hf t = T.maxLeaf (absRT h t) := by
  intro h
  induction h with
  | zero =>
    intro hf t hg _ _
    cases t with
    | leaf k tk v => rw [maximum_leaf, absRT_leaf]; rfl
    | node r => cases hg
  | succ h ih =>
    intro hf t hg hle hfull
    cases t with
    | leaf k tk v => rw [maximum_leaf, absRT_leaf]; rfl
    | node r =>
      cases hf with
      | zero => omega
      | succ hf =>
        obtain ⟨hinv, hch⟩ := (good_node_iff h r).1 hg
        rw [absRT_node] at hfull ⊢
        cases hfull with
        | node _ _ _ _ hne hfc =>
          have hne' : r.abs ≠ [] := by intro e; apply hne; rw [e]; rfl
          simp only [RT.maximum, T.maxLeaf, maxChild_spec r hinv hne', maxLeafL_getLast, mapCh_getLast?]
          cases hl : r.abs.getLast? with
          | none => exact absurd (List.getLast?_eq_none_iff.1 hl) hne'
          | some p =>
            obtain ⟨b, c⟩ := p
            have hmem : (b, c) ∈ r.abs := List.mem_of_getLast? hl
            simp only [Option.map_some]
            refine ih hf c (hch (b, c) hmem) (by omega) ?_
            exact hfc (b, absRT h c) (List.mem_map.2 ⟨(b, c), hmem, rfl⟩)

/-- with the tree-level statement: on a well-formed image the raw walks return the least / greatest stored key -/
theorem minimum_is_least (h hf : Nat) (t : RT V) (p : Bytes) (hg : good h t = true) (hle : h ≤ hf)
    (hwf : T.WF (absRT h t) p) :
    RT.minimum hf t = (T.inorder (absRT h t)).head? := by
  rw [minimum_sim h hf t hg hle (T.WF.full _ _ hwf), T.minLeaf_eq _ (T.WF.full _ _ hwf)]

theorem maximum_is_greatest (h hf : Nat) (t : RT V) (p : Bytes) (hg : good h t = true) (hle : h ≤ hf)
    (hwf : T.WF (absRT h t) p) :
    RT.maximum hf t = (T.inorder (absRT h t)).getLast? := by
  rw [maximum_sim h hf t hg hle (T.WF.full _ _ hwf), T.maxLeaf_eq _ (T.WF.full _ _ hwf)]

/-! non-vacuity: a node48 whose slots are not in key order, and a node4 with a stale fourth lane -/
def ex48 : Raw Nat :=
  .n48 {} 13 ((List.range 256).map fun i => if 5 ≤ i ∧ i < 18 then UInt8.ofNat (18 - i) else 0)
    ((List.range 48).map fun j => if j < 13 then some (100 + j) else none)
example : ex48.inv = true := by decide +kernel
example : ex48.minChild = some 112 ∧ ex48.maxChild = some 100 := by decide +kernel
example : (ex48.abs.head?).map (·.2) = some 112 ∧ (ex48.abs.getLast?).map (·.2) = some 100 := by decide +kernel

end ArtVerif.C05Raw



