/-
  C10, the SIMD search path: "The SWAR and SIMD search paths give the same answers as a plain scalar scan
  over the occupied slots, whatever bytes are left in unoccupied slots."

  The amd64 routines of node16_amd64.s — regenerated from the .s file on every run (`Gen/Asm.lean`) and
  run on the instruction model `Model/Amd64.lean` — return exactly what the lane-level model
  `Raw.searchNode16` / `Raw.insertPosNode16` returns (the scalar scan over the first `childrenLen` lanes),
  for every register file on entry, every content of all sixteen lanes (occupied or not), every probe
  byte and every fill count up to 16.  `Props/C10` proves that lane-level model to implement the
  byte→child table; the two compose into: the assembly finds the child registered under `b`.

  Trusted: the reading of sixteen instructions in Model/Amd64.lean (validated on every run by executing
  the same model next to the real routines on this CPU); `bv_decide` certificates (disclosed).
  Not covered: node16_arm64.s (cannot be assembled into anything executable here).
-/
import ArtVerif.Proofs.Asm16
namespace ArtVerif.C10Asm
open ArtVerif ArtVerif.Amd64 ArtVerif.Asm16

/-- `searchNode16` (amd64): from any register file, with any sixteen bytes in `keys`, the routine returns
    the lane-level result: the lowest `i < childrenLen` with `keys[i] = b`, or −1. -/
theorem amd64_searchNode16_spec (s : St) (fr : Frame) (hl : fr.len ≤ 16#8) :
    run Gen.Asm.searchNode16 fr s =
      some (BitVec.ofInt 64 (Raw.searchNode16 (lanes fr.keys) fr.len.toNat (UInt8.ofBitVec fr.b))) := by
  rw [search_asm s fr hl, search_bridge]

/-- `insertPosNode16` (amd64): the lowest `i < childrenLen` with `keys[i] > b` (unsigned), or −1. -/
theorem amd64_insertPosNode16_spec (s : St) (fr : Frame) (hl : fr.len ≤ 16#8) :
    run Gen.Asm.insertPosNode16 fr s =
      some (BitVec.ofInt 64 (Raw.insertPosNode16 (lanes fr.keys) fr.len.toNat (UInt8.ofBitVec fr.b))) := by
  rw [insertPos_asm s fr hl, insertPos_bridge]

/-- Bytes in unoccupied lanes do not matter: two key arrays that agree on the first `childrenLen` lanes
    get the same answers from both routines. -/
theorem amd64_stale_lanes_irrelevant (s s' : St) (fr fr' : Frame) (hl : fr.len ≤ 16#8)
    (hlen : fr'.len = fr.len) (hb : fr'.b = fr.b)
    (hk : ∀ i, i < fr.len.toNat → (lanes fr'.keys)[i]? = (lanes fr.keys)[i]?) :
    run Gen.Asm.searchNode16 fr' s' = run Gen.Asm.searchNode16 fr s ∧
    run Gen.Asm.insertPosNode16 fr' s' = run Gen.Asm.insertPosNode16 fr s := by
  have hl' : fr'.len ≤ 16#8 := hlen ▸ hl
  rw [amd64_searchNode16_spec s fr hl, amd64_searchNode16_spec s' fr' hl',
      amd64_insertPosNode16_spec s fr hl, amd64_insertPosNode16_spec s' fr' hl', hlen, hb]
  have hmem : ∀ i ∈ List.range (min fr.len.toNat 16), (lanes fr'.keys)[i]? = (lanes fr.keys)[i]? := by
    intro i hi; rw [List.mem_range] at hi; exact hk i (by omega)
  have e1 : Raw.searchNode16 (lanes fr'.keys) fr.len.toNat (UInt8.ofBitVec fr.b) =
      Raw.searchNode16 (lanes fr.keys) fr.len.toNat (UInt8.ofBitVec fr.b) := by
    unfold Raw.searchNode16
    congr 1
    exact find?_congr' (fun i hi => by simp only [hmem i hi])
  have e2 : Raw.insertPosNode16 (lanes fr'.keys) fr.len.toNat (UInt8.ofBitVec fr.b) =
      Raw.insertPosNode16 (lanes fr.keys) fr.len.toNat (UInt8.ofBitVec fr.b) := by
    unfold Raw.insertPosNode16
    congr 1
    exact find?_congr' (fun i hi => by simp only [hmem i hi])
  rw [e1, e2]; exact ⟨rfl, rfl⟩

/-- The operands `name+off(FP)` of both routines refer to the parameters / the result of the Go declarations
    in node16.go at the offsets go/types computes for amd64, and the frame sizes on the TEXT lines are those
    of the declarations (what `go vet`'s asmdecl pass checks). -/
theorem amd64_frame_matches_declaration :
    (∀ r ∈ Gen.Asm.searchNode16_argRefs, ∃ e ∈ Gen.Asm.searchNode16_argLayout, e.1 = r.1 ∧ e.2.1 = r.2) ∧
    (∀ r ∈ Gen.Asm.insertPosNode16_argRefs, ∃ e ∈ Gen.Asm.insertPosNode16_argLayout, e.1 = r.1 ∧ e.2.1 = r.2) ∧
    Gen.Asm.searchNode16_frame = (0, Gen.Asm.searchNode16_argBytes) ∧
    Gen.Asm.insertPosNode16_frame = (0, Gen.Asm.insertPosNode16_argBytes) ∧
    Gen.Asm.searchNode16_argLayout = [("keys", 0, 8), ("childrenLen", 8, 1), ("b", 9, 1), ("ret", 16, 8)] ∧
    Gen.Asm.insertPosNode16_argLayout = [("keys", 0, 8), ("childrenLen", 8, 1), ("b", 9, 1), ("ret", 16, 8)] := by
  decide

/-- The bound on the fill count is needed (and is part of the proved raw invariant `len ≤ 16`): at 33 the
    shift count of `SALW` has wrapped to 1 and only lane 0 is looked at. -/
theorem fill_count_needed :
    run Gen.Asm.searchNode16 ⟨0, 0x00000000000000000000000000000700#128, 33, 7⟩
      ⟨0, 0, 0, 0, 0, 0, 0, 0, 0, 0, 0, 0, 0, 0, 0, 0, 0, 0, false, 0⟩ = some 0xFFFFFFFFFFFFFFFF#64 := by
  decide +kernel

/-! non-vacuity: the routines on concrete inputs, from a register file full of garbage -/
def junk : St := ⟨0xDEADBEEFDEADBEEF, 1, 0xFFFFFFFFFFFFFFFF, 3, 4, 5, 6, 7, 0xA5A5A5A5A5A5A5A5, 0x1234567812345678,
  0xFFFFFFFFFFFF0000, 0x8080808080808080, 12, 13, 0xFFFFFFFFFFFFFFFFFFFFFFFFFFFFFFFF, 1, 0x80000000000000000000000000000001, 3, true, 99⟩

example : run Gen.Asm.searchNode16 ⟨5, 0x0f0e0d0c0b0a09080706050403020100#128, 16, 7⟩ junk = some 7 := by decide +kernel
example : run Gen.Asm.searchNode16 ⟨5, 0x0f0e0d0c0b0a09080706050403020100#128, 7, 7⟩ junk = some 0xFFFFFFFFFFFFFFFF#64 := by decide +kernel
example : run Gen.Asm.insertPosNode16 ⟨5, 0xfffefdfc0b0a0908070605040302807f#128, 16, 0x7f⟩ junk = some 1 := by decide +kernel
example : run Gen.Asm.insertPosNode16 ⟨5, 0xfffefdfc0b0a0908070605040302807f#128, 0, 0⟩ junk = some 0xFFFFFFFFFFFFFFFF#64 := by decide +kernel

end ArtVerif.C10Asm
