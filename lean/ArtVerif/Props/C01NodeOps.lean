/-
  C01 on the child lookup inlined in `Search` of the generated trees (trees.go: byte-string, unsigned, signed, float,
  compound) and of the collation tree (collation.go) AS REGENERATED FROM THE SOURCE on every run (`Gen/SearchOps.lean`,
  one function per tree type – a hand edit of one instantiation is seen here as well as by C19).  `Proofs/GenSearch`
  proves each of the six switches to be `Raw.find`; with `Proofs/RawNodes.find_spec`: for every node satisfying the raw
  invariant and every probe byte the descent of Search continues with exactly the child registered under that byte in
  the node's ordered table and stops ("absent") otherwise – whatever the unoccupied lanes and slots hold – and never
  indexes out of range.  `RT.search` (Model/RTree, the subject of `C11RawTree.rtree_refines_map`) uses `Raw.find` at
  this point.

  Hand-modelled and tied by correspondence: the rest of the loop body (leaf comparison on the original key, the
  optimistic inline-prefix check, the `depth >= len(keyS)` guard).
-/
import ArtVerif.Proofs.GenSearch
namespace ArtVerif.C01NodeOps
open ArtVerif ArtVerif.Gen ArtVerif.Gen.SearchOps ArtVerif.GoNode ArtVerif.Raw ArtVerif.GenNodeOps ArtVerif.GenSearch
variable {C : Type}

theorem len_lt_of_inv (r : Raw C) (hinv : r.inv = true) : r.len < 256 := by
  cases r with
  | n4 h len keys slots => have := ((inv4_iff h len keys slots).1 hinv).2.2.1; simp only [Raw.len]; omega
  | n16 h len keys slots => have := ((inv16_iff h len keys slots).1 hinv).2.2.2.1; simp only [Raw.len]; omega
  | n48 h len idx slots => have := ((inv48_iff h len idx slots).1 hinv).2.1; simp only [Raw.len]; omega
  | n256 h len slots =>
    have := ((inv256_iff h len slots).1 hinv).2.2.2
    simp only [Raw.len]; omega

/-- the lookup inlined in Search, all six tree types: the table entry under the probe byte, or "stop" -/
theorem go_search_lookup_is_table_lookup (E : Env C) (r : Raw C) (b : UInt8) (hinv : r.inv = true) :
    let want := some ((r.abs.find? (fun p => p.1 == b)).map (·.2))
    search_find_alpha E (imgOf r).1 (imgOf r).2 b = want ∧
    search_find_unsigned E (imgOf r).1 (imgOf r).2 b = want ∧
    search_find_signed E (imgOf r).1 (imgOf r).2 b = want ∧
    search_find_float E (imgOf r).1 (imgOf r).2 b = want ∧
    search_find_compound E (imgOf r).1 (imgOf r).2 b = want ∧
    search_find_collation E (imgOf r).1 (imgOf r).2 b = want := by
  have hl := len_lt_of_inv r hinv
  have hf := find_spec r b hinv
  refine ⟨?_, ?_, ?_, ?_, ?_, ?_⟩
  · rw [search_find_alpha_eq E r b hinv hl, hf]
  · rw [search_find_unsigned_eq E r b hinv hl, hf]
  · rw [search_find_signed_eq E r b hinv hl, hf]
  · rw [search_find_float_eq E r b hinv hl, hf]
  · rw [search_find_compound_eq E r b hinv hl, hf]
  · rw [search_find_collation_eq E r b hinv hl, hf]

/-! non-vacuity -/
def r2 : Raw Nat := (((Raw.zero4 : Raw Nat).add 0x80 1).add 0x10 2)
def E0 : Env Nat := { pool := zeroImg, isLeaf := fun _ => true, hdr := fun _ => ⟨0, 0, zeroPrefix⟩, setHdr := fun c _ => c }
example : r2.inv = true := by decide
example : search_find_float E0 (imgOf r2).1 (imgOf r2).2 0x80 = some (some 1) := by decide
example : search_find_collation E0 (imgOf r2).1 (imgOf r2).2 0x00 = some none := by decide

end ArtVerif.C01NodeOps
