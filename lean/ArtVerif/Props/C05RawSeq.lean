/-
  C05 on raw nodes: TopK / BottomK through the raw `backward` / `all` loops with the per-pass counter.
-/
import ArtVerif.Props.C02Raw
import ArtVerif.Props.C05
namespace ArtVerif.C05RawSeq
open ArtVerif ArtVerif.T ArtVerif.Tree ArtVerif.C01 ArtVerif.C11RawTree

variable {V σ : Type}

theorem raw_bottomK_eq_take (t : RTree V) (hg : t.Good) (n : Nat) (f : Yield σ V) (s : σ) :
    t.bottomK n f s = some (foldUntil f s ((items t.abs).take n)) := by
  rw [RIterSim.rtree_bottomK_sim t hg]; exact congrArg some (bottomK_eq t.abs.root n f s)

theorem raw_topK_eq_take_reverse (t : RTree V) (hg : t.Good) (n : Nat) (f : Yield σ V) (s : σ) :
    t.topK n f s = some (foldUntil f s ((items t.abs).reverse.take n)) := by
  rw [RIterSim.rtree_topK_sim t hg]; exact congrArg some (topK_eq t.abs.root n f s)

theorem raw_topK_bottomK_after_history (tf : Bytes → Bytes) (ops : List (Op V)) (hpf : PrefixFree tf (insertedKeys ops))
    (n : Nat) (f : Yield σ V) (s : σ) :
    (runR tf ({} : RTree V) ops).1.bottomK n f s = some (foldUntil f s ((items (runT tf ({} : Tree V) ops).1).take n)) ∧
    (runR tf ({} : RTree V) ops).1.topK n f s = some (foldUntil f s ((items (runT tf ({} : Tree V) ops).1).reverse.take n)) := by
  obtain ⟨hg, ha⟩ := C02Raw.raw_state tf ops hpf
  rw [raw_bottomK_eq_take _ hg, raw_topK_eq_take_reverse _ hg, ha]
  exact ⟨rfl, rfl⟩

example : ((runR id ({} : RTree Nat) C02Raw.hist).1.topK 2 (collect 0) []).map (·.reverse.map (·.2.2)) = some [7, 6] := by decide
example : ((runR id ({} : RTree Nat) C02Raw.hist).1.bottomK 100 (collect 0) []).map (·.reverse.map (·.2.2)) = some [1, 2, 4, 5, 6, 7] := by decide
example : ((runR id ({} : RTree Nat) C02Raw.hist).1.topK 0 (collect 0) []) = some [] := by decide

end ArtVerif.C05RawSeq
