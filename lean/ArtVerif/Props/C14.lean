/-
  C14 — returned sequences can be abandoned early and iterated again.

  Every sequence method is modelled as a function of the consumer (`Yield`): ranging over the sequence value
  runs that function.  The theorems of C02/C05 (and C03/C04 for Range/Prefix) say that, for *every* consumer,
  the run is the early-exit fold `foldUntil` over the result list; so after the consumer's first `false`
  nothing more is offered, and – the sequence value capturing nothing that a run modifies – every further
  run offers the same list again.  The unrepaired TopK/BottomK captured their counter: modelled below as
  `passShared`, for which re-iteration fails.
-/
import ArtVerif.Props.C05
namespace ArtVerif.C14
open ArtVerif T Tree

variable {V σ : Type}

/-- what the stopping consumer has seen after a run: the first `j` elements (all if `j = 0`), no more -/
theorem foldUntil_collect (j : Nat) : ∀ (xs acc : List (Item V)), (j = 0 ∨ acc.length < j) →
    foldUntil (collect j) acc xs = (if j = 0 then xs else xs.take (j - acc.length)).reverse ++ acc := by
  intro xs
  induction xs with
  | nil => intro acc _; simp [foldUntil]
  | cons x xs ih =>
    intro acc hj
    simp only [foldUntil, collect]
    by_cases h0 : j = 0
    · subst h0
      simp only [bne_self_eq_false, Bool.false_and, Bool.not_false, if_true]
      rw [ih (x :: acc) (Or.inl rfl)]
      simp
    · have hlt : acc.length < j := by rcases hj with h | h; exact absurd h h0; exact h
      simp only [h0, if_false]
      by_cases hlast : acc.length + 1 = j
      · have : (j != 0 && (x :: acc).length == j) = true := by simp [h0, hlast]
        simp only [this, Bool.not_true]
        have : j - acc.length = 1 := by omega
        simp [this]
      · have : (j != 0 && (x :: acc).length == j) = false := by simp [hlast]
        simp only [this, Bool.not_false]
        rw [ih (x :: acc) (Or.inr (by simp; omega))]
        simp only [h0, if_false, List.length_cons]
        have : j - acc.length = (j - (acc.length + 1)) + 1 := by omega
        rw [this, List.take_succ_cons]
        simp

/-- stopping after `j` elements of All() yields exactly the first `j`, and no callback follows the `false` -/
theorem all_stop_prefix (t : Tree V) (j : Nat) :
    T.all t.root (collect j) [] = (if j = 0 then items t else (items t).take j).reverse := by
  rw [C02.all_eq_items, foldUntil_collect j _ [] (by simp; omega)]; simp

theorem backward_stop_prefix (t : Tree V) (j : Nat) :
    T.backward t.root (collect j) [] = (if j = 0 then (items t).reverse else (items t).reverse.take j).reverse := by
  rw [C02.backward_eq_reverse, foldUntil_collect j _ [] (by simp; omega)]; simp

theorem topK_stop_prefix (t : Tree V) (n j : Nat) :
    T.topK t.root n (collect j) [] =
      (if j = 0 then (items t).reverse.take n else ((items t).reverse.take n).take j).reverse := by
  rw [C05.topK_eq_take_reverse, foldUntil_collect j _ [] (by simp; omega)]; simp

theorem bottomK_stop_prefix (t : Tree V) (n j : Nat) :
    T.bottomK t.root n (collect j) [] =
      (if j = 0 then (items t).take n else ((items t).take n).take j).reverse := by
  rw [C05.bottomK_eq_take, foldUntil_collect j _ [] (by simp; omega)]; simp

theorem filter_stop_prefix (r : Option (T V)) (pred : Item V → Bool) (j : Nat) :
    T.filter r pred (collect j) [] =
      (if j = 0 then (leaves r).filter pred else ((leaves r).filter pred).take j).reverse := by
  rw [filter_eq, foldUntil_collect j _ [] (by simp; omega)]; simp

/-! ### re-iteration -/

/-- a sequence value with captured state `κ`: a run may change what is captured -/
structure SeqVal (κ σ V : Type) where
  captured : κ
  run : κ → Yield σ V → σ → σ × κ

/-- ranging `n` times over the same sequence value with fresh consumers; the results of the passes -/
def passes {κ} (q : SeqVal κ σ V) (f : Yield σ V) (s : σ) : Nat → κ → List σ
  | 0, _ => []
  | n+1, c => let (r, c') := q.run c f s; r :: passes q f s n c'

/-- the repaired TopK: the counter is per run, the captured `k` is never written -/
def topKSeq (root : Option (T V)) (k : Nat) : SeqVal Nat σ V :=
  { captured := k, run := fun c f s => (T.topK root c f s, c) }

def bottomKSeq (root : Option (T V)) (k : Nat) : SeqVal Nat σ V :=
  { captured := k, run := fun c f s => (T.bottomK root c f s, c) }

/-- the unrepaired TopK: the run decrements the captured counter (`limitYield`'s remaining count survives) -/
def topKShared (root : Option (T V)) (k : Nat) : SeqVal Nat σ V :=
  { captured := k,
    run := fun c f s => if c = 0 then (s, c) else
      let r := T.backward root (limitYield f) (s, c); (r.1, r.2) }

theorem passes_const {κ} (q : SeqVal κ σ V) (f : Yield σ V) (s : σ)
    (hpure : ∀ c, (q.run c f s).2 = c) : ∀ n c, passes q f s n c = List.replicate n (q.run c f s).1 := by
  intro n
  induction n with
  | zero => intro c; simp [passes]
  | succ n ih =>
    intro c
    simp only [passes, List.replicate_succ]
    rw [hpure c, ih c]

/-- TopK / BottomK can be ranged over any number of times: every pass is the full result -/
theorem topK_restartable (root : Option (T V)) (k n : Nat) (f : Yield σ V) (s : σ) :
    passes (topKSeq root k) f s n k = List.replicate n (foldUntil f s ((leaves root).reverse.take k)) := by
  rw [passes_const (topKSeq root k) f s (fun c => rfl)]
  simp [topKSeq, topK_eq]

theorem bottomK_restartable (root : Option (T V)) (k n : Nat) (f : Yield σ V) (s : σ) :
    passes (bottomKSeq root k) f s n k = List.replicate n (foldUntil f s ((leaves root).take k)) := by
  rw [passes_const (bottomKSeq root k) f s (fun c => rfl)]
  simp [bottomKSeq, bottomK_eq]

/-- All/Backward/Prefix/Range capture only the root and immutable arguments: a pass is a function of them -/
theorem all_restartable (t : Tree V) (n : Nat) (f : Yield σ V) (s : σ) :
    (List.replicate n ()).map (fun _ => T.all t.root f s) = List.replicate n (foldUntil f s (items t)) := by
  simp [C02.all_eq_items]

/-- D8 as a Lean fact: with the shared counter the second pass over TopK(2) of a 3-key tree is empty -/
example :
    let t : Tree Nat := ((({} : Tree Nat).insert [2, 0] [2, 0] 1).insert [1, 0] [1, 0] 2).insert [1, 5, 0] [1, 5, 0] 3
    (passes (topKShared t.root 2) (collect 0) [] 2 2).map (·.map (·.2.2)) = [[3, 1], []] ∧
    (passes (topKSeq t.root 2) (collect 0) [] 2 2).map (·.map (·.2.2)) = [[3, 1], [3, 1]] := by
  decide

end ArtVerif.C14
