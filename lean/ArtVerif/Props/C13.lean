/-
  C13 — key arguments are neither written to nor retained by reference.

  Partial: Go's slice semantics are hand-modelled (Model/Slice.lean); what is proved is the logic of the
  key prologue of the byte-string trees – the only place where the library appends to a slice that may
  alias caller memory.  The harness's `alias` leg checks the real code: caller buffers with canaries in the
  spare capacity are compared over their whole backing array after every call, and the tree is re-read after
  the caller has overwritten every buffer it ever passed in.
-/
import ArtVerif.Model.Slice
namespace ArtVerif.C13
open ArtVerif Slice

/-- every byte of every array the caller can see is the same after the repaired prologue -/
theorem caller_bytes_unchanged (h : Heap) (arg : Slice) :
    ∀ i, i < h.length → (prologueNew h arg).1[i]? = h[i]? := by
  intro i hi
  simp only [prologueNew, append1, clip, Nat.lt_irrefl, if_false]
  rw [List.getElem?_append_left hi]

/-- the key the new leaf points to lives in an array allocated inside the call -/
theorem leaf_storage_fresh (h : Heap) (arg : Slice) :
    h.length ≤ (prologueNew h arg).2.arr := by
  simp [prologueNew, append1, clip]

/-- and it holds the argument's bytes followed by the terminator -/
theorem leaf_storage_content (h : Heap) (arg : Slice) :
    Slice.bytes (prologueNew h arg).1 (prologueNew h arg).2 = Slice.bytes h arg ++ [0] := by
  simp only [prologueNew, append1, clip, Nat.lt_irrefl, if_false, Slice.bytes]
  simp only [List.getD_eq_getElem?_getD, List.getElem?_concat_length, Option.getD_some, List.drop_zero]
  apply List.take_of_length_le
  simp only [List.length_append, List.length_take, List.length_singleton]
  omega

/-- later writes of the caller to its own arrays do not reach the leaf's key -/
theorem caller_scribble_does_not_reach_leaf (h : Heap) (arg : Slice) (i : Nat) (hi : i < h.length) (junk : Bytes) :
    let r := prologueNew h arg
    Slice.bytes (r.1.set i junk) r.2 = Slice.bytes r.1 r.2 := by
  intro r
  have hne : r.2.arr ≠ i := by
    have := leaf_storage_fresh h arg
    show (prologueNew h arg).2.arr ≠ i
    omega
  simp only [Slice.bytes, List.getD_eq_getElem?_getD]
  rw [List.getElem?_set_ne (fun e => hne e.symm)]

/-- D7 as a Lean fact: with spare capacity the unrepaired prologue writes into the caller's array
    and the leaf aliases it -/
example :
    let h : Heap := [[104, 101, 108, 108, 111, 32, 119, 111, 114, 108, 100]]   -- "hello world"
    let arg : Slice := { arr := 0, off := 0, len := 5, cap := 11 }            -- buf[:5]
    (prologueOld h arg).1 = [[104, 101, 108, 108, 111, 0, 119, 111, 114, 108, 100]] ∧
    (prologueOld h arg).2.arr = 0 ∧
    (prologueNew h arg).1[0]? = some [104, 101, 108, 108, 111, 32, 119, 111, 114, 108, 100] ∧
    (prologueNew h arg).2.arr = 1 := by decide

end ArtVerif.C13
