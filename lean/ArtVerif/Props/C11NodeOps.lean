/-
  C11 on node.go as regenerated from the source (`Gen/NodeOps.lean`): the two places where node.go itself rewrites
  compressed-path bookkeeping and size-class membership.

  * the PATH MERGE of `node4.deleteChild` – when a node4 is left with one child that is an inner node, the child's
    header absorbs the node's path, the branch byte and its own path: the regenerated Go code (three nested
    `if prefix < maxPrefixLen`, two `copy`s on the ten-byte arrays, `uint32` arithmetic) computes `Raw.mergeHdr`, and
    `Raw.mergeHdr` is the concatenation with the first ten bytes inline and the exact length (`mergeHdr_spec`);
  * every `addChild`, across the class changes, returns a node that satisfies the raw invariant of its class with the
    header unchanged (`go_addChild_keeps_wellformed`).

  `Proofs/RSim` (the tree of raw node records simulates the abstract tree) consumes exactly these facts about
  `Raw.add`, `Raw.remove`, `Raw.mergeHdr`; with this module they are facts about what node.go says now.
-/
import ArtVerif.Props.C10NodeOps
namespace ArtVerif.C11NodeOps
open ArtVerif ArtVerif.Gen ArtVerif.Gen.NodeOps ArtVerif.GoNode ArtVerif.Raw ArtVerif.GenNodeOps
variable {C : Type}

/-- the header node.go writes into the surviving inner child when a node4 collapses (`hdrOf`/`hdrV` convert between
    the `*node` view and the model's header; the lengths stay below 2^31, far above any key length) -/
theorem go_collapse_merges_paths (E : Env C) (h : Hdr) (keys : BitVec 32) (slots : List (Option C))
    (b : UInt8) (pos : Nat) (cc : C) (hs : slots.length = 4) (hpf : h.pfx.length = 10) (hplen : h.plen < 2 ^ 31)
    (hpos : searchNode4 keys b.toBitVec = (pos : Int)) (hp4 : pos < 4)
    (hcc : (shiftDown slots pos)[0]? = some (some cc)) (hinner : E.isLeaf cc = false)
    (hcp : (E.hdr cc).«prefix».length = 10) (hcl : (E.hdr cc).prefixLen.toNat < 2 ^ 31) :
    ∃ rel, node4_deleteChild E (img4 h 2 keys slots) b =
      some { out := .child (some (E.setHdr cc (hdrV (E.hdr cc)
               (mergeHdr h (Raw.u8 (getAtPos (shiftRightClear keys (pos + 1)) 0)) (hdrOf (E.hdr cc)))))),
             released := rel } ∧
      (mergeHdr h (Raw.u8 (getAtPos (shiftRightClear keys (pos + 1)) 0)) (hdrOf (E.hdr cc))).plen =
        (E.hdr cc).prefixLen.toNat + h.plen + 1 := by
  have hch : ∀ c', (shiftDown slots pos)[0]? = some (some c') → E.isLeaf c' = false →
      (E.hdr c').«prefix».length = 10 ∧ (E.hdr c').prefixLen.toNat < 2 ^ 31 := by
    intro c' h1 _
    rw [hcc] at h1
    have : cc = c' := by injection h1 with h1; injection h1
    subst this; exact ⟨hcp, hcl⟩
  have key := node4_deleteChild_eq E h 2 keys slots b pos hs hpf (by omega) (by omega) hplen hpos hp4 hch
    (fun _ => ⟨cc, hcc⟩)
  refine ⟨[(0, zeroImg 0)], ?_, (mergeHdr_spec h (hdrOf (E.hdr cc)) _ hpf hcp).1⟩
  rw [key]
  have hrem : remove4 h 2 keys slots b =
      .collapse h (Raw.u8 (getAtPos (shiftRightClear keys (pos + 1)) 0)) (some cc) := by
    have e : (((pos : Int) != -1) = true) := by simp
    have hj : ((shiftDown slots pos)[0]?).join = some cc := by rw [hcc]; rfl
    simp only [remove4, b8, hpos, e, ↓reduceIte, Int.toNat_natCast, hj]
    rfl
  rw [hrem]
  simp only [collapseOut, hinner, Bool.false_eq_true, ↓reduceIte]
  rfl

/-- every `addChild` of node.go leaves a node that satisfies the invariant of its (possibly new) size class, with the
    compressed path it had -/
theorem go_addChild_keeps_wellformed (E : Env C) (hpz : PoolsZero E) (r : Raw C) (b : UInt8) (c : C)
    (hinv : r.inv = true) (hnk : ∀ p ∈ r.abs, p.1 ≠ b) :
    ∃ r' rel, nodeRef_addChild E (imgOf r).1 (imgOf r).2 b (some c) = some { out := outOf r', released := rel } ∧
      r'.inv = true ∧ r'.hdr = r.hdr := by
  obtain ⟨r', rel, h1, _, h3, h4, _⟩ := C10NodeOps.go_addChild_inserts E hpz r b c hinv hnk
  exact ⟨r', rel, h1, h3, h4⟩

end ArtVerif.C11NodeOps
