/-
  C10 and node16_arm64.s — a result about a model that cannot be run here.

  The arm64 routines are regenerated from the .s file (`Gen/AsmArm64.lean`) and given a meaning by
  `Model/Arm64.lean` (trusted, NOT validated: there is no arm64 machine or emulator in this sandbox; see
  that file).  On that reading:

  * `arm64_searchNode16_scans_all_lanes`, `arm64_insertPosNode16_scans_all_lanes`: both routines never
    look at `childrenLen`; they return the lowest of ALL SIXTEEN lanes that equals / exceeds the probe
    byte.  (The amd64 and portable versions mask by the fill count — `Props/C10Asm`.)
  * `arm64_search_ok_without_stale_match`: they agree with the scalar scan over the occupied lanes exactly
    as long as no unoccupied lane happens to hold the probe byte …
  * `arm64_find_returns_deleted_child`: … which node.go does not guarantee: `node16.deleteChild` shifts the
    lanes down with `copy` and leaves the last lane as it was.  Starting from an empty node, sixteen
    `addChild`, then `deleteChild` of the smallest and of the largest byte (all on the raw-node model that
    the node-level correspondence validates lane for lane against node.go, which is the same file on every
    architecture) leave the largest byte in lanes 14 and 15 with the deleted child still in slot 14; the
    arm64 `searchNode16` finds lane 14 and `findChild` hands back the deleted child.  On the same node the
    amd64 routine says "absent" (`amd64_find_on_the_same_node`).
  * `arm64_probe_zero_hits_first_free_lane`: in a node16 with free lanes (they are zero after `clear()`),
    probing byte 0x00 — the terminator of every byte-string key — returns the first free lane instead of −1.

  So C10's "whatever bytes are left in unoccupied slots" is NOT established for arm64 builds, and on the
  model it is false.  It is recorded in DESIGN.md §10.8 as a model-level finding without a replay (none can
  be produced in this sandbox); it is not entered in known_findings.json and changes no verdict: C10 is
  claimed for amd64 and for the portable routines only.
-/
import Std.Tactic.BVDecide
import ArtVerif.Gen.AsmArm64
import ArtVerif.Props.C10Asm
namespace ArtVerif.C10Arm64
open ArtVerif ArtVerif.Arm64 ArtVerif.Asm16
open ArtVerif.Amd64 (lane pack boolByte)

set_option maxRecDepth 8192 in
set_option linter.unusedSimpArgs false in
/-- `searchNode16` (arm64 model): the lowest of all sixteen lanes equal to `b`, whatever `childrenLen` is. -/
theorem arm64_searchNode16_scans_all_lanes (s : St) (fr : Frame) :
    run Gen.AsmArm64.searchNode16 fr s = some (firstFrom (· == fr.b) fr.keys 16#8 0 16) := by
  obtain ⟨r0, r1, r2, r3, v0, v1, ret⟩ := s
  obtain ⟨kp, keys, len, b⟩ := fr
  simp only [run, Gen.AsmArm64.searchNode16, exec, step, St.get, St.set, St.getV, St.setV, findLabel, bind, Option.bind,
    BEq.rfl, if_true, ite_true, beq_self_eq_true, String.reduceEq, reduceIte, Bool.false_eq_true, if_false,
    Int.reduceToNat, Int.reduceBEq, Int.reduceEq, decide_true, decide_false]
  rw [← apply_ite some, Option.some.injEq]
  simp only [cmeq, cmhi, shrn4, half, dup8, pack, lane, boolByte, firstFrom,
    BitVec.reduceOfInt, BitVec.reduceSetWidth, BitVec.reduceOfNat, Nat.reduceAdd, Nat.reduceMul]
  bv_decide

set_option maxRecDepth 8192 in
set_option linter.unusedSimpArgs false in
/-- `insertPosNode16` (arm64 model): the lowest of all sixteen lanes greater than `b`, whatever `childrenLen` is. -/
theorem arm64_insertPosNode16_scans_all_lanes (s : St) (fr : Frame) :
    run Gen.AsmArm64.insertPosNode16 fr s = some (firstFrom (fun k => fr.b < k) fr.keys 16#8 0 16) := by
  obtain ⟨r0, r1, r2, r3, v0, v1, ret⟩ := s
  obtain ⟨kp, keys, len, b⟩ := fr
  simp only [run, Gen.AsmArm64.insertPosNode16, exec, step, St.get, St.set, St.getV, St.setV, findLabel, bind, Option.bind,
    BEq.rfl, if_true, ite_true, beq_self_eq_true, String.reduceEq, reduceIte, Bool.false_eq_true, if_false,
    Int.reduceToNat, Int.reduceBEq, Int.reduceEq, decide_true, decide_false]
  rw [← apply_ite some, Option.some.injEq]
  simp only [cmeq, cmhi, shrn4, half, dup8, pack, lane, boolByte, firstFrom,
    BitVec.reduceOfInt, BitVec.reduceSetWidth, BitVec.reduceOfNat, Nat.reduceAdd, Nat.reduceMul]
  bv_decide

/-- no unoccupied lane (index ≥ len) holds the probe byte -/
def noStaleMatch (keys : BitVec 128) (len b : BitVec 8) : Bool :=
  (List.range 16).all fun i => BitVec.ofNat 8 i < len || lane keys i != b

set_option maxRecDepth 8192 in
theorem firstFrom_all_eq_of_noStaleMatch (keys : BitVec 128) (len b : BitVec 8) (h : noStaleMatch keys len b = true) :
    firstFrom (· == b) keys 16#8 0 16 = firstFrom (· == b) keys len 0 16 := by
  simp only [noStaleMatch, List.range, List.range.loop, List.all, lane, Nat.reduceMul] at h
  simp only [firstFrom, lane, Nat.reduceAdd, Nat.reduceMul]
  bv_decide

/-- The arm64 routine agrees with the scalar scan over the occupied lanes when no unoccupied lane holds `b`. -/
theorem arm64_search_ok_without_stale_match (s : St) (fr : Frame) (h : noStaleMatch fr.keys fr.len fr.b = true) :
    run Gen.AsmArm64.searchNode16 fr s =
      some (BitVec.ofInt 64 (Raw.searchNode16 (lanes fr.keys) fr.len.toNat (UInt8.ofBitVec fr.b))) := by
  rw [arm64_searchNode16_scans_all_lanes, firstFrom_all_eq_of_noStaleMatch _ _ _ h, search_bridge]

/-! ### the hypothesis is not an invariant of node.go -/

def packKeys (keys : Bytes) : BitVec 128 :=
  BitVec.ofNat 128 ((keys.zipIdx.map fun (x, i) => x.toNat * 2 ^ (8 * i)).foldl (· + ·) 0)

def st0 : St := ⟨0, 0, 0, 0, 0, 0, 0⟩

/-- `findChild` on a node16 with the arm64 `searchNode16` in place of the lane-level one -/
def findArm64 {C} (r : Raw C) (b : UInt8) : Option C :=
  match r with
  | .n16 _ len keys slots =>
    match run Gen.AsmArm64.searchNode16 ⟨1, packKeys keys, BitVec.ofNat 8 len, b.toBitVec⟩ st0 with
    | some i => if i.toInt != -1 then (slots[i.toNat]?).join else none
    | none => none
  | r => r.find b

/-- the same with the amd64 routine -/
def findAmd64 {C} (r : Raw C) (b : UInt8) : Option C :=
  match r with
  | .n16 _ len keys slots =>
    match Amd64.run Gen.Asm.searchNode16 ⟨1, packKeys keys, BitVec.ofNat 8 len, b.toBitVec⟩
        ⟨0, 0, 0, 0, 0, 0, 0, 0, 0, 0, 0, 0, 0, 0, 0, 0, 0, 0, false, 0⟩ with
    | some i => if i.toInt != -1 then (slots[i.toNat]?).join else none
    | none => none
  | r => r.find b

/-- sixteen children under bytes 10 … 25 (child ids 0 … 15), then the smallest and the largest byte removed -/
def victim : Raw Nat :=
  let full := (List.range 16).foldl (fun r i => r.add (UInt8.ofNat (10 + i)) i) (Raw.zero4 : Raw Nat)
  match full.remove 10 with
  | .node r => (match r.remove 25 with | .node r' => r' | _ => r)
  | _ => full

/-- it is a well-formed node16 with fourteen children: bytes 11 … 24 -/
theorem victim_is_reachable_and_well_formed :
    victim.inv = true ∧ victim.cls = 16 ∧ victim.len = 14 ∧
    victim.abs.map (·.1) = [11, 12, 13, 14, 15, 16, 17, 18, 19, 20, 21, 22, 23, 24] ∧
    victim.find 25 = none := by
  decide +kernel

/-- On the arm64 model, `findChild 25` on that node returns child 15 — the child that was deleted. -/
theorem arm64_find_returns_deleted_child : findArm64 victim 25 = some 15 := by decide +kernel

theorem amd64_find_on_the_same_node : findAmd64 victim 25 = none := by decide +kernel

/-- Probing 0x00 in a node16 with free lanes: the arm64 model returns the first free lane (here 5), the scalar scan −1. -/
theorem arm64_probe_zero_hits_first_free_lane :
    run Gen.AsmArm64.searchNode16 ⟨1, 0x00000000000000000000006564636261#128, 5, 0⟩ st0 = some 5 ∧
    Raw.searchNode16 (lanes 0x00000000000000000000006564636261#128) 5 0 = -1 := by
  decide +kernel

end ArtVerif.C10Arm64
