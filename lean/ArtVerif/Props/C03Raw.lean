/-
  C03 on raw nodes: `rangeScan` with the per-class loops of tree.go and the header read from the raw node
  (`prefixLen`, the first `min(prefixLen,10)` bytes of `prefix`).  On well-formed raw nodes it never faults and is
  Layer T's scan (`RIterSim.rtree_rangeScan_sim`), which C03 proves to be the filter of the stored pairs by the
  inclusive bounds.
-/
import ArtVerif.Props.C02Raw
import ArtVerif.Props.C03
namespace ArtVerif.C03Raw
open ArtVerif ArtVerif.T ArtVerif.Tree ArtVerif.C01 ArtVerif.C11RawTree

variable {V σ : Type}

theorem raw_range_eq_filter (t : RTree V) (hg : t.Good) (hinv : Inv id t.abs) (a b : Bytes) (f : Yield σ V) (s : σ) :
    t.rangeBytes a b f s = some (foldUntil f s ((items t.abs).filter (T.inRange (C03.lo a b) (C03.hi a b)))) := by
  rw [RIterSim.rtree_rangeBytes_sim t hg, C03.range_eq_filter hinv]

/-- after any history (keys of the kinds C03 covers descend by their own bytes: `tf = id`) -/
theorem raw_range_after_history (ops : List (Op V)) (hpf : PrefixFree id (insertedKeys ops)) (a b : Bytes)
    (f : Yield σ V) (s : σ) :
    (runR id ({} : RTree V) ops).1.rangeBytes a b f s =
      some (foldUntil f s ((items (runT id ({} : Tree V) ops).1).filter (T.inRange (C03.lo a b) (C03.hi a b)))) := by
  obtain ⟨hg, ha⟩ := C02Raw.raw_state id ops hpf
  rw [raw_range_eq_filter _ hg (ha ▸ inv_run id ops hpf), ha]

example : ((runR id ({} : RTree Nat) C02Raw.hist).1.rangeBytes [7, 5, 0] [7, 2, 0] (collect 0) []).map (·.reverse.map (·.2.2))
    = some [2, 4, 5] := by decide
example : (({} : RTree Nat).rangeBytes [1] [2] (collect 0) []) = some [] := by decide

end ArtVerif.C03Raw
