/-
  C11 — every operation leaves the index well-formed.

  `WF t p` (Proofs/WF.lean) is the compressed-radix-tree invariant: below the consumed path `p` every leaf's
  descent key extends `p`; an inner node has a compressed path `cp` of the recorded length whose first ten
  bytes are the inline bytes, at least two children under pairwise distinct, ascending branch bytes, a fan-out
  within its size class, and each child is well-formed below `p ++ cp ++ [branch byte]`.
  `Tree.Inv` adds: size = number of leaves, leaf descent key = `tf` of leaf key.
  On the implementation side the raw invariant of every real node (`Raw.inv`) and equality of the abstracted
  real structure with the model tree are evaluated by the driver on a dump after every operation.
-/
import ArtVerif.Props.C02
namespace ArtVerif.C11
open ArtVerif T Tree

variable {V : Type}

/-- every step of every history preserves the invariant -/
theorem wf_step (tf : Bytes → Bytes) (ks : List Bytes) (hpf : C01.PrefixFree tf ks) (t : Tree V) (op : C01.Op V)
    (h : Inv tf t) (hstored : ∀ it ∈ items t, it.1 ∈ ks) (hop : ∀ k ∈ C01.insertedKeys [op], k ∈ ks) :
    Inv tf (C01.stepT tf t op).1 := (C01.step_refines tf ks hpf t op h hstored hop).1

theorem wf_after_history (tf : Bytes → Bytes) (ops : List (C01.Op V))
    (hpf : C01.PrefixFree tf (C01.insertedKeys ops)) : Inv tf (C01.runT tf ({} : Tree V) ops).1 :=
  C01.inv_run tf ops hpf

/-- every stored key is reachable by the descent its own bytes determine -/
theorem stored_key_reachable {tf} {t : Tree V} (h : Inv tf t) (it : Item V) (hit : it ∈ items t) :
    t.search (tf it.1) it.1 = some it.2.2 := by
  rw [search_eq h]; exact C02.items_only_keyed h it hit

/-- all keys below a branch point share the compressed path and carry the branch byte at that position -/
theorem keys_below_share_path {kind plen inl} {ch : Ch V} {p : Bytes}
    (h : WF (node kind plen inl ch) p) :
    ∃ cp : Bytes, cp.length = plen ∧ inl = cp.take Gen.maxPrefixLen ∧ 2 ≤ ch.length ∧ KindOK kind ch.length ∧
      (ch.map (·.1)).Pairwise (· < ·) ∧
      ∀ bc ∈ ch, ∀ it ∈ inorder bc.2, p ++ cp ++ [bc.1] <+: it.2.1 := by
  cases h with
  | node cp hl hi hs h2 hk hc =>
    exact ⟨cp, hl, hi, h2, hk, hs, fun bc hbc it hit => WF.prefix_of_mem _ _ (hc bc hbc) it hit⟩

/-- the number of reachable keys equals the reported size -/
theorem reachable_eq_size {tf} {t : Tree V} (h : Inv tf t) : (items t).length = t.size := h.size.symm

/-- the thresholds the library uses keep every class within its capacity (regenerated constants) -/
theorem thresholds_consistent :
    2 ≤ Gen.shrink16 ∧ Gen.shrink16 ≤ Gen.maxNode4 ∧ Gen.shrink16 < Gen.shrink48 ∧ Gen.shrink48 ≤ Gen.maxNode16 ∧
    Gen.shrink48 < Gen.shrink256 ∧ Gen.shrink256 ≤ Gen.maxNode48 ∧ Gen.maxNode48 < Gen.maxNode256 ∧
    Gen.collapse4 = 1 ∧ Gen.maxNode256 = 256 := by decide

example : WF (node .k4 1 [98] [(0, leaf [98, 0] [98, 0] (2 : Nat)), (98, leaf [98, 98, 97, 0] [98, 98, 97, 0] 1)]) [] := by
  refine WF.node [98] rfl rfl (by decide) (by decide) (by decide) ?_
  intro bc hbc
  simp at hbc
  rcases hbc with rfl | rfl
  · exact WF.leaf (by decide)
  · exact WF.leaf (by decide)

end ArtVerif.C11
