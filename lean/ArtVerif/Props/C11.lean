/-
  C11 — every operation leaves the index well-formed.

  `WF t p` (Proofs/WF.lean) is the compressed-radix-tree invariant: below the consumed path `p` every leaf's
  descent key extends `p`; an inner node has a compressed path `cp` of the recorded length whose first ten
  bytes are the inline bytes, at least two children under pairwise distinct, ascending branch bytes, a fan-out
  within its size class, and each child is well-formed below `p ++ cp ++ [branch byte]`.
  `Tree.Inv` adds: size = number of leaves, leaf descent key = `tf` of leaf key.
  On the implementation side the raw invariant of every real node (`Raw.inv`) and equality of the abstracted
  real structure with the model tree are evaluated by the driver on a dump after every operation.
-/
import ArtVerif.Props.C02
import ArtVerif.Proofs.Canon
namespace ArtVerif.C11
open ArtVerif T Tree

variable {V : Type}

/-- every step of every history preserves the invariant -/
theorem wf_step (tf : Bytes → Bytes) (ks : List Bytes) (hpf : C01.PrefixFree tf ks) (t : Tree V) (op : C01.Op V)
    (h : Inv tf t) (hstored : ∀ it ∈ items t, it.1 ∈ ks) (hop : ∀ k ∈ C01.insertedKeys [op], k ∈ ks) :
    Inv tf (C01.stepT tf t op).1 := (C01.step_refines tf ks hpf t op h hstored hop).1

theorem wf_after_history (tf : Bytes → Bytes) (ops : List (C01.Op V))
    (hpf : C01.PrefixFree tf (C01.insertedKeys ops)) : Inv tf (C01.runT tf ({} : Tree V) ops).1 :=
  C01.inv_run tf ops hpf

/-- every stored key is reachable by the descent its own bytes determine -/
theorem stored_key_reachable {tf} {t : Tree V} (h : Inv tf t) (it : Item V) (hit : it ∈ items t) :
    t.search (tf it.1) it.1 = some it.2.2 := by
  rw [search_eq h]; exact C02.items_only_keyed h it hit

/-- all keys below a branch point share the compressed path and carry the branch byte at that position -/
theorem keys_below_share_path {kind plen inl} {ch : Ch V} {p : Bytes}
    (h : WF (node kind plen inl ch) p) :
    ∃ cp : Bytes, cp.length = plen ∧ inl = cp.take Gen.maxPrefixLen ∧ 2 ≤ ch.length ∧ KindOK kind ch.length ∧
      (ch.map (·.1)).Pairwise (· < ·) ∧
      ∀ bc ∈ ch, ∀ it ∈ inorder bc.2, p ++ cp ++ [bc.1] <+: it.2.1 := by
  cases h with
  | node cp hl hi hs h2 hk hc =>
    exact ⟨cp, hl, hi, h2, hk, hs, fun bc hbc it hit => WF.prefix_of_mem _ _ (hc bc hbc) it hit⟩

/-- the number of reachable keys equals the reported size -/
theorem reachable_eq_size {tf} {t : Tree V} (h : Inv tf t) : (items t).length = t.size := h.size.symm

/-- apart from the size class of each node, the shape depends only on the key set: two well-formed trees
    with the same leaf keys have the same compressed paths, branch bytes and nesting -/
theorem canonical_shape {W : Type} (t : T V) (t' : T W) (h : WF t []) (h' : WF t' [])
    (hk : keysOf t = keysOf t') : shape t = shape t' := T.canonical_shape t t' [] h h' hk

/-- … in particular it does not depend on the history: two trees (of any value types, reached by any
    histories) that denote maps with the same key set have the same shape -/
theorem shape_history_independent {W : Type} {tf} {t : Tree V} {t' : Tree W} (h : Inv tf t) (h' : Inv tf t')
    (hdom : ∀ k, (abs t k).isSome = (abs t' k).isSome) :
    t.root.map shape = t'.root.map shape := by
  -- the key lists are strictly sorted lists with the same members
  have hkeys : (items t).map (fun it => ((it.1, it.2.1, ()) : Item Unit)) =
      (items t').map (fun it => ((it.1, it.2.1, ()) : Item Unit)) := by
    apply sorted_ext
    · rw [List.pairwise_map]; exact List.Pairwise.imp (fun h => h) (items_sorted h)
    · rw [List.pairwise_map]; exact List.Pairwise.imp (fun h => h) (items_sorted h')
    · intro x
      simp only [List.mem_map]
      constructor
      · rintro ⟨it, hit, rfl⟩
        have hs : (abs t it.1).isSome = true := by rw [C02.items_only_keyed h it hit]; rfl
        rw [hdom] at hs
        obtain ⟨w, hw⟩ := Option.isSome_iff_exists.mp hs
        have := (abs_eq_some_iff h' it.1 w).mp hw
        exact ⟨_, this, by simp [h.keyed it hit]⟩
      · rintro ⟨it, hit, rfl⟩
        have hs : (abs t' it.1).isSome = true := by rw [C02.items_only_keyed h' it hit]; rfl
        rw [← hdom] at hs
        obtain ⟨w, hw⟩ := Option.isSome_iff_exists.mp hs
        have := (abs_eq_some_iff h it.1 w).mp hw
        exact ⟨_, this, by simp [h'.keyed it hit]⟩
  have hk : (items t).map (fun it => (it.1, it.2.1)) = (items t').map (fun it => (it.1, it.2.1)) := by
    have := congrArg (List.map (fun (x : Item Unit) => (x.1, x.2.1))) hkeys
    simpa [List.map_map, Function.comp_def] using this
  cases hr : t.root with
  | none =>
    cases hr' : t'.root with
    | none => rfl
    | some r' =>
      exfalso
      have := inorder_ne_nil r' (WF.full r' [] (h'.wf r' hr'))
      simp [items, leaves, hr, hr'] at hk
      exact this hk
  | some r =>
    cases hr' : t'.root with
    | none =>
      exfalso
      have := inorder_ne_nil r (WF.full r [] (h.wf r hr))
      simp [items, leaves, hr, hr'] at hk
      exact this hk
    | some r' =>
      simp only [Option.map_some]
      congr 1
      apply T.canonical_shape r r' [] (h.wf r hr) (h'.wf r' hr')
      simpa [items, leaves, hr, hr', keysOf] using hk

/-- the thresholds the library uses keep every class within its capacity (regenerated constants) -/
theorem thresholds_consistent :
    2 ≤ Gen.shrink16 ∧ Gen.shrink16 ≤ Gen.maxNode4 ∧ Gen.shrink16 < Gen.shrink48 ∧ Gen.shrink48 ≤ Gen.maxNode16 ∧
    Gen.shrink48 < Gen.shrink256 ∧ Gen.shrink256 ≤ Gen.maxNode48 ∧ Gen.maxNode48 < Gen.maxNode256 ∧
    Gen.collapse4 = 1 ∧ Gen.maxNode256 = 256 := by decide

example : WF (node .k4 1 [98] [(0, leaf [98, 0] [98, 0] (2 : Nat)), (98, leaf [98, 98, 97, 0] [98, 98, 97, 0] 1)]) [] := by
  refine WF.node [98] rfl rfl (by decide) (by decide) (by decide) ?_
  intro bc hbc
  simp at hbc
  rcases hbc with rfl | rfl
  · exact WF.leaf (by decide)
  · exact WF.leaf (by decide)

end ArtVerif.C11
