/-
  C17 — memory held by a tree is proportional to its content, not its history.

  Partial: the collector and allocator are measured (harness `mem` leg: live heap after forced collections
  around 10⁵…10⁷ queries / overwrites / churn, and after emptying the tree), not modelled.  What is proved
  is the cost model: the number of inner nodes is below the number of leaves, so what a tree references is
  linear in its content; an emptied tree references nothing; queries return no tree; and the collation
  key buffer – per-tree scratch state – stays bounded with the repaired `Transform` and grows per call with
  the unrepaired one.
-/
import ArtVerif.Props.C06
import ArtVerif.Gen.Clear
namespace ArtVerif.C17
open ArtVerif T Tree

variable {V : Type}

mutual
def leafCount : T V → Nat
  | leaf .. => 1
  | node _ _ _ ch => leafCountL ch
def leafCountL : Ch V → Nat
  | [] => 0
  | (_, c) :: rest => leafCount c + leafCountL rest
end

mutual
def innerCount : T V → Nat
  | leaf .. => 0
  | node _ _ _ ch => innerCountL ch + 1
def innerCountL : Ch V → Nat
  | [] => 0
  | (_, c) :: rest => innerCount c + innerCountL rest
end

theorem leafCount_eq_length : ∀ (t : T V), leafCount t = (inorder t).length := by
  intro t
  induction t using induct with
  | hleaf k tk v => simp [leafCount, inorder]
  | hnode kind plen inl ch ih =>
    simp only [leafCount, inorder]
    induction ch with
    | nil => simp [leafCountL, inorderL]
    | cons bc rest ihl =>
      obtain ⟨b, c⟩ := bc
      simp only [leafCountL, inorderL, List.length_append]
      rw [ih (b, c) List.mem_cons_self, ihl (fun bc h => ih bc (List.mem_cons_of_mem _ h))]

/-- every branch point has at least two children, so inner nodes are fewer than leaves -/
theorem inner_lt_leaves : ∀ (t : T V) (p : Bytes), WF t p → innerCount t + 1 ≤ leafCount t := by
  intro t
  induction t using induct with
  | hleaf k tk v => intro p _; simp [innerCount, leafCount]
  | hnode kind plen inl ch ih =>
    intro p h
    cases h with
    | node cp hl hi hs h2 hk hc =>
      simp only [innerCount, leafCount]
      -- Σ (inner c + 1) ≤ Σ leaves c, over at least two children
      have key : ∀ (l : Ch V), (∀ bc ∈ l, innerCount bc.2 + 1 ≤ leafCount bc.2) →
          innerCountL l + l.length ≤ leafCountL l := by
        intro l
        induction l with
        | nil => intro _; simp [innerCountL, leafCountL]
        | cons bc rest ihl =>
          obtain ⟨b, c⟩ := bc
          intro hall
          have h1 := hall (b, c) List.mem_cons_self
          have h2' := ihl (fun bc h => hall bc (List.mem_cons_of_mem _ h))
          simp only [innerCountL, leafCountL, List.length_cons] at *
          omega
      have := key ch (fun bc hbc => ih bc hbc _ (hc bc hbc))
      omega

/-- cost model: bytes a tree references, with per-class node sizes `nb` and a per-leaf header `lh` -/
def retained (nb : Kind → Nat) (lh : Nat) : T V → Nat
  | leaf k tk _ => lh + k.length + tk.length
  | node kind _ _ ch => nb kind + retainedL nb lh ch
where
  retainedL (nb : Kind → Nat) (lh : Nat) : Ch V → Nat
    | [] => 0
    | (_, c) :: rest => retained nb lh c + retainedL nb lh rest

def keyBytes : T V → Nat
  | leaf k tk _ => k.length + tk.length
  | node _ _ _ ch => keyBytesL ch
where
  keyBytesL : Ch V → Nat
    | [] => 0
    | (_, c) :: rest => keyBytes c + keyBytesL rest

/-- retained ≤ (largest node size)·(#inner) + header·(#leaves) + key bytes -/
theorem retained_le (nb : Kind → Nat) (lh M : Nat) (hM : ∀ k, nb k ≤ M) : ∀ (t : T V),
    retained nb lh t ≤ M * innerCount t + lh * leafCount t + keyBytes t := by
  intro t
  induction t using induct with
  | hleaf k tk v => simp [retained, innerCount, leafCount, keyBytes]; omega
  | hnode kind plen inl ch ih =>
    simp only [retained, innerCount, leafCount, keyBytes]
    have key : ∀ (l : Ch V), (∀ bc ∈ l, retained nb lh bc.2 ≤ M * innerCount bc.2 + lh * leafCount bc.2 + keyBytes bc.2) →
        retained.retainedL nb lh l ≤ M * innerCountL l + lh * leafCountL l + keyBytes.keyBytesL l := by
      intro l
      induction l with
      | nil => intro _; simp [retained.retainedL, innerCountL, leafCountL, keyBytes.keyBytesL]
      | cons bc rest ihl =>
        obtain ⟨b, c⟩ := bc
        intro hall
        have h1 := hall (b, c) List.mem_cons_self
        have h2 := ihl (fun bc h => hall bc (List.mem_cons_of_mem _ h))
        simp only [retained.retainedL, innerCountL, leafCountL, keyBytes.keyBytesL, Nat.mul_add] at *
        omega
    have := key ch ih
    have hk := hM kind
    rw [Nat.mul_add]
    omega

/-- linear in the content: with `n` stored keys a well-formed tree references at most
    `(M + lh)·n + key bytes` -/
theorem retained_le_linear (nb : Kind → Nat) (lh M : Nat) (hM : ∀ k, nb k ≤ M) (t : T V) (p : Bytes) (h : WF t p) :
    retained nb lh t ≤ (M + lh) * leafCount t + keyBytes t := by
  have h1 := retained_le nb lh M hM t
  have h2 := inner_lt_leaves t p h
  have : M * innerCount t ≤ M * leafCount t := Nat.mul_le_mul_left M (by omega)
  rw [Nat.add_mul]
  omega

/-- an emptied tree references nothing: it IS the empty tree -/
theorem emptied_retains_nothing {tf} {t : Tree V} (h : Inv tf t) (he : items t = []) :
    t.root = none ∧ t.size = 0 := by
  constructor
  · cases hr : t.root with
    | none => rfl
    | some r =>
      exfalso
      have := inorder_ne_nil r (WF.full r [] (h.wf r hr))
      simp [items, leaves, hr] at he
      exact this he
  · have := h.size; rw [he] at this; simpa using this

/-! ### nodes released to the shared pool reference nothing -/

/-- `clear()` wipes every field – in particular the whole child array – of every pooled node struct, so a node
    waiting in the pool, or reused by another tree, keeps nothing of its former tree alive (regenerated table) -/
theorem released_nodes_reference_nothing :
    ["node4", "node16", "node48", "node256"].all (fun s =>
      let fields := ((Gen.nodeStructFields.find? (·.1 == s)).map (·.2)).getD []
      let cleared := ((Gen.clearedFields.find? (·.1 == s)).map (·.2)).getD []
      fields.contains "children" && fields.all (fun f => cleared.contains f)) = true ∧
    Gen.putSites.all (fun (_, _, cleared, _) => cleared) = true := by decide

/-! ### the per-tree scratch buffer of collation trees -/

/-- unrepaired `Transform`: every call appends the sort key to the tree's buffer -/
def bufOld (buf : Nat) (skLen : Nat) : Nat := buf + skLen
/-- repaired: reset, then write; the leaf gets its own copy -/
def bufNew (_buf : Nat) (skLen : Nat) : Nat := skLen

theorem bufNew_bounded (calls : List Nat) (B : Nat) (hB : ∀ l ∈ calls, l ≤ B) (b0 : Nat) (h0 : b0 ≤ B) :
    calls.foldl bufNew b0 ≤ B := by
  induction calls generalizing b0 with
  | nil => simpa
  | cons l ls ih => exact ih (fun x hx => hB x (List.mem_cons_of_mem _ hx)) (bufNew b0 l) (hB l List.mem_cons_self)

theorem bufOld_grows (calls : List Nat) (b0 : Nat) : calls.foldl bufOld b0 = b0 + calls.sum := by
  induction calls generalizing b0 with
  | nil => simp
  | cons l ls ih => simp [List.foldl, bufOld, ih, Nat.add_assoc]

/-- D9 as a Lean fact: a million queries with 40-byte sort keys retain 40 MB in the old buffer -/
example : (List.replicate 1000000 40).foldl bufOld 0 = 40000000 := by
  rw [bufOld_grows, List.sum_replicate_nat]

end ArtVerif.C17
