/-
  C11 (raw tree) — the two model layers composed at TREE level, inside Lean.

  `Model/RTree.lean` defines the concrete tree `RT V`: an inner node IS a raw image `Raw (RT V)`
  (SWAR word / lanes / index bytes / slots, stale lanes and stale prefix bytes included) and
  `RT.search / insert / deleteNode` go through `Raw.find / add / remove / setChild` and raw headers
  exactly where trees.go goes through `findChild / addChild / deleteChild`, `*ref = …` and
  `prefixLen` / `prefix[...]`.  `Proofs/RSim.lean` proves that, under the per-node invariant
  `Raw.inv` (`GoodRT`), this tree SIMULATES Layer T (`Model/Tree.lean`) through the abstraction
  `absRT`; this file restates the milestone theorems, derives the refinement of the ideal map for
  the concrete tree from C01's `refines_map`, and evaluates small histories.
-/
import ArtVerif.Proofs.RSim
import ArtVerif.Props.C01
namespace ArtVerif.C11RawTree
open ArtVerif ArtVerif.Gen ArtVerif.Raw ArtVerif.Compose ArtVerif.RT ArtVerif.RSim

variable {V C : Type}

/-! ## the new raw operation: `*child = c` -/

/-- `setChild` overwrites the entry of `b` in the abstract table, keeps `inv`, header and class -/
theorem setChild_spec (r : Raw C) (hinv : r.inv = true) (b : UInt8) (c c0 : C) (hb : r.find b = some c0) :
    (setChild r b c).abs = replaceKey b c r.abs ∧ (setChild r b c).inv = true ∧
    (setChild r b c).hdr = r.hdr ∧ kindOf (setChild r b c) = kindOf r ∧
    ∀ k, (setChild r b c).find k = if k = b then some c else r.find k :=
  ⟨abs_setChild r hinv b c c0 hb, inv_setChild r hinv b c c0 hb, hdr_setChild r b c,
    kindOf_setChild r b c, find_setChild r hinv b c c0 hb⟩

/-- … which on children that are trees is `T.replaceCh` on the image -/
theorem setChild_replaceCh (f : C → T V) (r : Raw C) (hinv : r.inv = true) (b : UInt8) (c c0 : C)
    (hb : r.find b = some c0) :
    mapCh f (setChild r b c).abs = T.replaceCh b (f c) (mapCh f r.abs) := by
  rw [abs_setChild r hinv b c c0 hb, replaceCh_mapCh]

/-! ## M1 – M3: the subtree operations -/

/-- **M1.** `Search` -/
theorem search_sim (fuel h : Nat) (t : RT V) (tk k : Bytes) (d : Nat) (hg : GoodRT h t) :
    RT.search fuel t tk k d = T.search fuel (absRT h t) tk k d :=
  RSim.search_sim fuel h t tk k d hg

/-- **M2.** `Insert`: same tree, same `size++` flag, invariant kept with the height bound grown by
    one.  `InsSafe` is the part of the radix-tree invariant the path split relies on (branch byte of
    the old node ≠ the key's byte; minimum leaf's key covers a path longer than the inline limit);
    `insSafe_of_wf` derives it from `WF`. -/
theorem insert_sim (fuel h hf : Nat) (t : RT V) (tk k : Bytes) (v : V) (d : Nat)
    (hg : GoodRT h t) (hle : h ≤ hf) (hsafe : InsSafe fuel (absRT h t) tk d) :
    GoodRT (h + 1) (RT.insert hf fuel t tk k v d).1 ∧
    absRT (h + 1) (RT.insert hf fuel t tk k v d).1 = (T.insert fuel (absRT h t) tk k v d).1 ∧
    (RT.insert hf fuel t tk k v d).2 = (T.insert fuel (absRT h t) tk k v d).2 :=
  RSim.insert_sim fuel h hf t tk k v d hg hle hsafe

theorem insSafe_of_wf (fuel : Nat) (t : T V) (p tk : Bytes) (hwf : T.WF t p) (hp : p <+: tk) :
    InsSafe fuel t tk p.length := RSim.insSafe_of_wf fuel t p tk hwf hp

/-- M2 with the invariant of Layer T as the hypothesis -/
theorem insert_sim_wf (fuel h hf : Nat) (t : RT V) (p tk k : Bytes) (v : V)
    (hg : GoodRT h t) (hle : h ≤ hf) (hwf : T.WF (absRT h t) p) (hp : p <+: tk) :
    GoodRT (h + 1) (RT.insert hf fuel t tk k v p.length).1 ∧
    absRT (h + 1) (RT.insert hf fuel t tk k v p.length).1 = (T.insert fuel (absRT h t) tk k v p.length).1 ∧
    (RT.insert hf fuel t tk k v p.length).2 = (T.insert fuel (absRT h t) tk k v p.length).2 :=
  RSim.insert_sim fuel h hf t tk k v p.length hg hle (RSim.insSafe_of_wf fuel _ p tk hwf hp)

/-- **M3.** `Delete` below an inner node (all shrinks, node4 collapse with path merge) -/
theorem delete_sim (fuel h : Nat) (t : RT V) (tk k : Bytes) (d : Nat) (hg : GoodRT h t) :
    (RT.deleteNode fuel t tk k d).map (absRT h) = T.deleteNode fuel (absRT h t) tk k d ∧
    ∀ t', RT.deleteNode fuel t tk k d = some t' → GoodRT h t' :=
  RSim.delete_sim fuel h t tk k d hg

/-! ## M4: the tree object -/

theorem rtree_search_sim (t : RTree V) (hg : t.Good) (tk k : Bytes) :
    t.search tk k = t.abs.search tk k := RSim.rtree_search_sim t hg tk k

theorem rtree_insert_sim (t : RTree V) (hg : t.Good) (hwf : ∀ r, t.abs.root = some r → T.WF r [])
    (tk k : Bytes) (v : V) :
    (t.insert tk k v).Good ∧ (t.insert tk k v).abs = t.abs.insert tk k v :=
  RSim.rtree_insert_sim t hg hwf tk k v

theorem rtree_delete_sim (t : RTree V) (hg : t.Good) (tk k : Bytes) :
    (t.delete tk k).1.Good ∧ (t.delete tk k).1.abs = (t.abs.delete tk k).1 ∧
    (t.delete tk k).2 = (t.abs.delete tk k).2 := RSim.rtree_delete_sim t hg tk k

/-! ### histories -/
open C01

/-- one call on the concrete tree -/
def stepR (tf : Bytes → Bytes) (t : RTree V) : Op V → RTree V × Out V
  | .ins k v => (t.insert (tf k) k v, .unit)
  | .del k => ((t.delete (tf k) k).1, .bool (t.delete (tf k) k).2)
  | .get k => (t, .val (t.search (tf k) k))

def runR (tf : Bytes → Bytes) : RTree V → List (Op V) → RTree V × List (Out V)
  | t, [] => (t, [])
  | t, op :: ops =>
    let (t', o) := stepR tf t op
    let (t'', os) := runR tf t' ops
    (t'', o :: os)

theorem step_sim (tf : Bytes → Bytes) (t : RTree V) (hg : t.Good)
    (hwf : ∀ r, t.abs.root = some r → T.WF r []) (op : Op V) :
    (stepR tf t op).1.Good ∧ (stepR tf t op).1.abs = (stepT tf t.abs op).1 ∧
    (stepR tf t op).2 = (stepT tf t.abs op).2 := by
  cases op with
  | ins k v =>
    obtain ⟨h1, h2⟩ := RSim.rtree_insert_sim t hg hwf (tf k) k v
    exact ⟨h1, h2, rfl⟩
  | del k =>
    obtain ⟨h1, h2, h3⟩ := RSim.rtree_delete_sim t hg (tf k) k
    exact ⟨h1, h2, by simp only [stepR, stepT, h3]⟩
  | get k =>
    exact ⟨hg, rfl, by simp only [stepR, stepT, RSim.rtree_search_sim t hg]⟩

/-- a history on the concrete tree is, step by step, the history on its Layer-T image -/
theorem run_sim (tf : Bytes → Bytes) (ks : List Bytes) (hpf : PrefixFree tf ks) :
    ∀ (ops : List (Op V)) (t : RTree V), t.Good → Tree.Inv tf t.abs →
      (∀ it ∈ Tree.items t.abs, it.1 ∈ ks) → (∀ k ∈ insertedKeys ops, k ∈ ks) →
      (runR tf t ops).1.Good ∧ (runR tf t ops).1.abs = (runT tf t.abs ops).1 ∧
      (runR tf t ops).2 = (runT tf t.abs ops).2 := by
  intro ops
  induction ops with
  | nil => intro t hg _ _ _; exact ⟨hg, rfl, rfl⟩
  | cons op ops ih =>
    intro t hg hinv hst hk
    obtain ⟨s1, s2, s3⟩ := step_sim tf t hg hinv.wf op
    obtain ⟨r1, r2, _, _⟩ := step_refines tf ks hpf t.abs op hinv hst
      (fun k hk' => hk k ((insertedKeys_cons op ops k).mpr (Or.inl hk')))
    rw [← s2] at r1 r2
    obtain ⟨i1, i2, i3⟩ := ih (stepR tf t op).1 s1 r1 r2
      (fun k hk' => hk k ((insertedKeys_cons op ops k).mpr (Or.inr hk')))
    simp only [runR, runT]
    rw [← s2, ← s3]
    exact ⟨i1, i2, by rw [i3]⟩

/-- **M4 (corollary).** From the empty tree, every history whose inserted keys are prefix-free under
    the kind's key transformation, run on the CONCRETE tree (raw node images, SWAR search, stale
    lanes, raw prefix arrays), returns exactly the outputs of the ideal map, ends in a state denoting
    exactly the ideal map's state, and keeps `Raw.inv` on every node. -/
theorem rtree_refines_map (tf : Bytes → Bytes) (ops : List (Op V))
    (hpf : PrefixFree tf (insertedKeys ops)) :
    (runR tf ({} : RTree V) ops).2 = (runS (fun _ => none) ops).2 ∧
    Tree.abs (runR tf ({} : RTree V) ops).1.abs = (runS (fun _ => none) ops).1 ∧
    (runR tf ({} : RTree V) ops).1.Good := by
  have hgood : ({} : RTree V).Good := by intro r hr; cases hr
  have hsim := run_sim tf (insertedKeys ops) hpf ops ({} : RTree V) hgood (inv_empty tf)
    (by intro it hit; simp [Tree.items, T.leaves, RTree.abs] at hit) (fun k hk => hk)
  obtain ⟨s1, s2, s3⟩ := hsim
  obtain ⟨m1, m2⟩ := refines_map tf ops hpf
  have he : ({} : RTree V).abs = ({} : Tree V) := rfl
  rw [he] at s2 s3
  exact ⟨s3.trans m1, by rw [s2]; exact m2, s1⟩

/-! ## non-vacuity: small concrete histories, evaluated -/

def ks (s : List Nat) : Bytes := s.map UInt8.ofNat
def key (s : List Nat) : Bytes := ks s ++ [0]

/-- four inserts: leaf split with a 2-byte path, descent + `addChild`, a path split, an overwrite -/
def hist1 : List (Op Nat) :=
  [.ins (key [1, 2, 3]) 1, .ins (key [1, 2, 4]) 2, .ins (key [1, 5]) 3, .ins (key [1, 2, 3]) 4]

example : (runR id ({} : RTree Nat) hist1).1.abs.root = (runT id ({} : Tree Nat) hist1).1.root := by rfl
example : (runR id ({} : RTree Nat) hist1).1.size = 3 := by decide
example : ∀ r, (runR id ({} : RTree Nat) hist1).1.root = some r → good r.height r = true := by
  intro r h; cases h; decide

/-- the raw root after `hist1`: a node4 with `prefixLen = 1`, raw prefix `01 02 04 00 00 …`
    (the bytes beyond `prefixLen` are the stale rest of the key copied at the leaf split and taken
    over, whole array, by the node created at the path split) -/
example : (match (runR id ({} : RTree Nat) hist1).1.root with
    | some (.node r) => some (r.hdr, kindOf r, r.abs.map (·.1))
    | _ => none) = some ({ plen := 1, pfx := ks [1, 2, 4, 0, 0, 0, 0, 0, 0, 0] }, Kind.k4, ks [2, 5]) := by
  decide

/-- five keys under one node: the node4 grows into a node16; two deletes shrink it back and the last
    one collapses a node4 into its surviving inner child with the paths merged -/
def hist2 : List (Op Nat) :=
  [.ins (key [7, 7, 1, 1]) 1, .ins (key [7, 7, 1, 2]) 2, .ins (key [7, 7, 2]) 3, .ins (key [7, 7, 3]) 4,
   .ins (key [7, 7, 4]) 5, .ins (key [7, 7, 5]) 6, .get (key [7, 7, 1, 2]), .del (key [7, 7, 5]),
   .del (key [7, 7, 4]), .del (key [7, 7, 3]), .del (key [7, 7, 9]), .del (key [7, 7, 2]), .get (key [7, 7, 1, 1])]

example : (runR id ({} : RTree Nat) hist2).2 = (runT id ({} : Tree Nat) hist2).2 := by decide
example : (runR id ({} : RTree Nat) hist2).2 = (runS (fun _ => none) hist2).2 := by decide
example : (runR id ({} : RTree Nat) hist2).1.abs.root = (runT id ({} : Tree Nat) hist2).1.root := by rfl
example : (runR id ({} : RTree Nat) (hist2.take 6)).1.abs.root
    = (runT id ({} : Tree Nat) (hist2.take 6)).1.root := by rfl
/-- after the six inserts the root is a node16 -/
example : (match (runR id ({} : RTree Nat) (hist2.take 6)).1.root with
    | some (.node r) => some (kindOf r, r.len, r.hdr.plen) | _ => none) = some (Kind.k16, 5, 2) := by decide
/-- at the end the collapse has merged `07 07`, the branch byte `01` and the child's empty path -/
example : (match (runR id ({} : RTree Nat) hist2).1.root with
    | some (.node r) => some (kindOf r, r.len, r.hdr.plen, inlOf r.hdr) | _ => none)
    = some (Kind.k4, 2, 3, ks [7, 7, 1]) := by decide

/-- a 12-byte compressed path (longer than the inline limit) split at byte 5 and at byte 11 -/
def hist3 : List (Op Nat) :=
  let p : Bytes := List.replicate 12 112
  [.ins (p ++ [1, 0]) 1, .ins (p ++ [2, 0]) 2, .ins (p.take 5 ++ [9, 0]) 3, .ins (p ++ [1, 0]) 4,
   .del (p ++ [2, 0]), .get (p ++ [1, 0]), .get (p.take 5 ++ [9, 0])]

example : (runR id ({} : RTree Nat) hist3).2 = (runS (fun _ => none) hist3).2 := by decide
example : (runR id ({} : RTree Nat) hist3).1.abs.root = (runT id ({} : Tree Nat) hist3).1.root := by rfl

/-! ### why `Insert` needs `InsSafe` (a negative witness)

  A tree that satisfies `Raw.inv` everywhere but not the radix-tree invariant: the minimum leaf's key
  does not extend the node's 11-byte path.  The path split then registers the new leaf under the SAME
  byte as the old node; `insertPosNode4` (first lane ≥ b) puts it in front, `T.insCh` (first key > b)
  behind.  Under `WF` this cannot happen (`insSafe_of_wf`). -/

def bad : RT Nat :=
  .node (.n4 { plen := 11, pfx := List.replicate 10 1 } 2 0x00000302#32
    [some (.leaf (ks [2, 2, 2]) (ks [2, 2, 2]) 1),
     some (.leaf (ks [1, 1, 1, 1, 1, 1, 1, 1, 1, 1, 1, 3, 0]) (ks [1, 1, 1, 1, 1, 1, 1, 1, 1, 1, 1, 3, 0]) 2),
     none, none])

/-- the values under the children of the root, in table order -/
def rootVals : T Nat → List (UInt8 × Option Nat)
  | .node _ _ _ ch => ch.map fun (p : UInt8 × T Nat) => (p.1, match p.2 with | .leaf _ _ v => some v | _ => none)
  | _ => []

example : good 1 bad = true := by decide
example : rootVals (absRT 2 (RT.insert 1 5 bad (ks [2, 9, 0]) (ks [2, 9, 0]) 7 0).1) = [(2, some 7), (2, none)] ∧
    rootVals (T.insert 5 (absRT 1 bad) (ks [2, 9, 0]) (ks [2, 9, 0]) 7 0).1 = [(2, none), (2, some 7)] := by
  decide

/-! ## axiom audit -/
#print axioms setChild_spec
#print axioms setChild_replaceCh
#print axioms search_sim
#print axioms insert_sim
#print axioms insSafe_of_wf
#print axioms insert_sim_wf
#print axioms delete_sim
#print axioms rtree_search_sim
#print axioms rtree_insert_sim
#print axioms rtree_delete_sim
#print axioms step_sim
#print axioms run_sim
#print axioms rtree_refines_map

end ArtVerif.C11RawTree
