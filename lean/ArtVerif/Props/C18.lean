/-
  C18 — stored keys and values of any type survive garbage collection intact.

  Partial: the collector is exercised (harness `gc` leg: GOGC=1, forced collections between operations, checkptr
  instrumentation, six value types × all kinds, deep comparison of every key and value), not modelled.  What is
  proved, on tables regenerated from the source on every run, is the tagged-pointer discipline that lets the
  collector see everything: every `nodeRef` is built from a typed pointer to a heap object with the tag of that
  object's type; every cast out of `unsafe.Pointer` happens under a tag test selecting exactly the type the object was
  allocated with – or, for leaves, a leaf type with the same memory layout –, or in one of a few listed accessor
  positions whose operand is a leaf by construction; no `uintptr` is ever involved.  Given that, every object is an
  ordinary typed heap object reachable through `unsafe.Pointer` fields, which the Go collector traces (the runtime's
  contract, trusted).
-/
import ArtVerif.Gen.Casts
import ArtVerif.Gen.Layout
namespace ArtVerif.C18
open ArtVerif.Gen

def classOfTag : String → Option String
  | "nodeKind4" => some "*node4" | "nodeKind16" => some "*node16"
  | "nodeKind48" => some "*node48" | "nodeKind256" => some "*node256" | _ => none

def leafTargets : List String :=
  ["*alphaLeafNode[V]", "*unsignedLeafNode[V]", "*signedLeafNode[V]", "*floatLeafNode[V]", "*compoundLeafNode[V]",
   "*collateLeafNode[V]", "L"]

/-- allocation: inner nodes carry the tag of their class, leaves (built by the `createLeaf` closure) the leaf tag -/
theorem alloc_tags_match :
    allocSites.all (fun (_, ty, tag) =>
      classOfTag tag == some ty || (tag == "nodeKindLeaf" && ty == "unsafe.Pointer:createLeaf")) = true ∧
    allocSites.length > 0 := by decide +kernel

/-- the scalar reinterpretations inside the key codecs (`*(*uint32)(unsafe.Pointer(&k))` …) never involve a nodeRef -/
def codecFuncs : List String :=
  ["SignedBinaryKey.Transform", "SignedBinaryKey.Restore", "FloatBinaryKey.Transform", "FloatBinaryKey.Restore"]

/-- accessor positions whose operand is a leaf (or an inner node, for `node()`) by construction:
    `restoreKey(ptr)` is only handed leaf pointers by the iterators' leaf branch and by Minimum/Maximum;
    `minimum(n)` returns a leaf pointer; `nodeRef.node()` reads the common header of an inner node -/
def accessorSites : List (String × String × String) :=
  [("nodeRef.node", "*node", "ref.pointer"), ("prefixMismatch", "L", "minimum[V](n)")] ++
  ["alpha", "unsigned", "signed", "float", "compound"].flatMap (fun k =>
    [(k ++ "SortedTree.restoreKey", "*" ++ k ++ "LeafNode[V]", "ptr"),
     (k ++ "SortedTree.Insert", "*" ++ k ++ "LeafNode[V]", "minimum[V](n)")]) ++
  [("collationSortedTree.restoreKey", "*collateLeafNode[V]", "ptr"),
   ("collationSortedTree.Insert", "*collateLeafNode[V]", "minimum[V](n)")]

def guardOK (d : String × String × String × String) : Bool :=
  let (fn, target, operand, guard) := d
  if codecFuncs.contains fn then true
  else if guard == "eq-leaf" then leafTargets.contains target
  else if guard == "case:nodeKind4" then target == "*node4"
  else if guard == "case:nodeKind16" then target == "*node16"
  else if guard == "case:nodeKind48" then target == "*node48"
  else if guard == "case:nodeKind256" then target == "*node256"
  else accessorSites.contains (fn, target, operand)

/-- **tag discipline**: every cast out of `unsafe.Pointer` is licensed by a tag test for exactly its target class,
    by the leaf tag for a leaf type, or is one of the listed accessor positions -/
theorem tag_discipline : castDetails.all guardOK = true ∧ castDetails.length = castSites.length ∧ castSites.length > 50 := by
  decide +kernel

/-- every operand of `unsafe.Pointer(…)` is a typed pointer or the address of a fresh composite literal -/
theorem pointer_sources_typed :
    pointerSources.all (fun (_, _, cls) => cls == "typed-pointer" || cls == "addr-of-composite") = true := by
  decide +kernel

/-- no `uintptr` anywhere: pointers are never hidden from the collector -/
theorem no_uintptr : uintptrUses = [] := by decide +kernel

def layoutOf (leaf v : String) : List (String × Nat × Nat × String) :=
  ((leafLayouts.find? (fun e => e.1 == leaf && e.2.1 == v)).map (·.2.2)).getD []

def valueTypes : List String := ["int", "string", "*int", "[16]uint64", "struct{}"]

/-- the five generated leaf types have identical layouts for every value type, which is what lets the numeric
    `Range` read signed and float leaves through the unsigned leaf type -/
theorem leaf_layouts_equal :
    valueTypes.all (fun v =>
      ["unsignedLeafNode", "signedLeafNode", "floatLeafNode", "compoundLeafNode"].all (fun l =>
        layoutOf l v == layoutOf "alphaLeafNode" v && (layoutOf l v).length == 3)) = true := by
  decide +kernel

/-- the key pointer and the value are ordinary typed fields (pointer-typed fields are what the collector follows) -/
theorem leaf_fields_typed :
    leafLayouts.all (fun (_, _, fs) => fs.any (fun f => f.1 == "key" && f.2.2.2 == "*byte") &&
      fs.any (fun f => f.1 == "value")) = true ∧
    nodeRefLayout.any (fun f => f.1 == "pointer" && f.2.2.2 == "unsafe.Pointer") = true := by
  decide +kernel

end ArtVerif.C18
