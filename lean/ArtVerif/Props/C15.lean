/-
  C15 — queries and no-op updates leave the tree untouched.

  In the model a query is a function that returns no tree: `Search`, `Minimum`, `Maximum`, `Size` and every
  sequence method take the tree as a value and return a result only (`stepT … (get k)` returns the very
  same tree).  What needs proof are the two no-op updates.  On the implementation side the harness compares
  the complete raw dump before and after every read-only or no-op call (leg S) – purity of the real code is
  what that comparison checks.
-/
import ArtVerif.Props.C02
import ArtVerif.Proofs.SortedExt
import ArtVerif.Proofs.Overwrite
namespace ArtVerif.C15
open ArtVerif T Tree

variable {V : Type}

/-- a query step leaves the tree as it is (by construction of the model; checked on the real code by the
    dump comparison) -/
theorem query_no_state (tf : Bytes → Bytes) (t : Tree V) (k : Bytes) : (C01.stepT tf t (.get k)).1 = t := rfl

/-- Delete of an absent key changes nothing at all -/
theorem delete_absent_id {tf} {t : Tree V} (h : Inv tf t) (k : Bytes) (ha : abs t k = none) :
    t.delete (tf k) k = (t, false) := by
  have hflag := (abs_delete h k).2
  rw [ha] at hflag
  simp only [Option.isSome_none] at hflag
  unfold Tree.delete at hflag ⊢
  cases hr : t.root with
  | none => rfl
  | some r =>
    simp only [hr] at hflag ⊢
    cases r with
    | leaf lk ltk lv =>
      by_cases hk : lk = k
      · simp [hk] at hflag
      · simp [hk]
    | node kind plen inl ch =>
      simp only at hflag ⊢
      cases hd : deleteNode (fuelFor (tf k)) (node kind plen inl ch) (tf k) k 0 with
      | none => rfl
      | some r' => simp [hd] at hflag

/-- Insert of a present key changes nothing but that key's value: same keys, same order, other values kept -/
theorem overwrite_only_value {tf} {t : Tree V} (h : Inv tf t) (k : Bytes) (v w : V) (ha : abs t k = some w)
    (hpf : PFree tf k (items t)) :
    items (t.insert (tf k) k v) = (items t).map (fun it => if it.1 = k then (it.1, it.2.1, v) else it) ∧
    (t.insert (tf k) k v).size = t.size := by
  obtain ⟨hinv, hmem⟩ := insert_items h k v hpf
  have hin : (k, tf k, w) ∈ items t := (abs_eq_some_iff h k w).mp ha
  refine ⟨?_, ?_⟩
  · apply sorted_ext _ _ (items_sorted hinv)
    · -- the mapped list is still sorted: descent keys are untouched
      have hs := items_sorted h
      rw [List.pairwise_map]
      refine List.Pairwise.imp ?_ hs
      intro a b hab
      simp only [ItemLt] at hab ⊢
      by_cases h1 : a.1 = k <;> by_cases h2 : b.1 = k <;> simp [h1, h2, hab]
    · intro x
      rw [hmem, List.mem_map]
      constructor
      · rintro (hx | ⟨hx, hne⟩)
        · exact ⟨(k, tf k, w), hin, by simp [hx]⟩
        · exact ⟨x, hx, by simp [hne]⟩
      · rintro ⟨it, hit, hx⟩
        by_cases hk : it.1 = k
        · simp only [hk, if_true] at hx
          have := h.keyed it hit
          rw [hk] at this
          left; rw [← hx, this]
        · simp only [hk, if_false] at hx
          subst hx
          exact Or.inr ⟨hit, hk⟩
  · rw [size_insert h k v hpf, ha]; simp

/-- … and structurally: the index after the overwrite is the index before it with the value of that one
    leaf replaced – no node, size class, compressed path, branch byte or other leaf changes -/
theorem overwrite_structure {tf} {t : Tree V} (h : Inv tf t) (k : Bytes) (v w : V) (ha : abs t k = some w)
    (hpf : PFree tf k (items t)) :
    (t.insert (tf k) k v).root = t.root.map (setVal k v) := by
  have hin : (k, tf k, w) ∈ items t := (abs_eq_some_iff h k w).mp ha
  cases hr : t.root with
  | none => simp [items, leaves, hr] at hin
  | some r =>
    have hit : items t = inorder r := by simp [items, leaves, hr]
    have := insert_present (fuelFor (tf k)) r [] (tf k) k v (h.wf r hr) (by simp)
      (hit ▸ compat_of_pfree h hpf) (by simp [fuelFor]) ⟨_, hit ▸ hin, rfl⟩
    simp only [List.length_nil] at this
    simp [Tree.insert, hr, this]

/-- hence any number of read-only calls may be interleaved anywhere without affecting later results:
    the run of a history with queries removed ends in the same tree -/
theorem queries_do_not_affect_state (tf : Bytes → Bytes) (t : Tree V) (k : Bytes) (ops : List (C01.Op V)) :
    (C01.runT tf t (.get k :: ops)).1 = (C01.runT tf t ops).1 := by
  simp [C01.runT, C01.stepT]

end ArtVerif.C15
