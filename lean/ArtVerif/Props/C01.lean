/-
  C01 — every tree kind is an exact key→value map under any history.

  The model (`Tree.insert/delete/search`, Model/Tree.lean) is generic in the pair
  (key compared at the leaf, key the descent runs on); a tree kind is given by the function `tf`
  from the former to the latter (identity for byte-string – where the leaf key already carries the
  terminator –, numeric and compound trees; `orig ↦ collationKey orig ++ [0,0]` for collation trees).
  The theorem quantifies over every finite history and every such `tf`, under the contract that the
  descent keys of the *inserted* keys are prefix-free (probe keys of Search/Delete are arbitrary).
-/
import ArtVerif.Proofs.Refine
namespace ArtVerif.C01
open ArtVerif T Tree

variable {V : Type}

inductive Op (V : Type) where
  | ins (k : Bytes) (v : V)
  | del (k : Bytes)
  | get (k : Bytes)

inductive Out (V : Type) where
  | unit
  | bool (b : Bool)
  | val (o : Option V)
  deriving DecidableEq

/-- one call on the implementation model -/
def stepT (tf : Bytes → Bytes) (t : Tree V) : Op V → Tree V × Out V
  | .ins k v => (t.insert (tf k) k v, .unit)
  | .del k => ((t.delete (tf k) k).1, .bool (t.delete (tf k) k).2)
  | .get k => (t, .val (t.search (tf k) k))

/-- the ideal map -/
abbrev Ideal (V : Type) := Bytes → Option V

def stepS (m : Ideal V) : Op V → Ideal V × Out V
  | .ins k v => (fun x => if x = k then some v else m x, .unit)
  | .del k => (fun x => if x = k then none else m x, .bool (m k).isSome)
  | .get k => (m, .val (m k))

def runT (tf : Bytes → Bytes) : Tree V → List (Op V) → Tree V × List (Out V)
  | t, [] => (t, [])
  | t, op :: ops =>
    let (t', o) := stepT tf t op
    let (t'', os) := runT tf t' ops
    (t'', o :: os)

def runS : Ideal V → List (Op V) → Ideal V × List (Out V)
  | m, [] => (m, [])
  | m, op :: ops =>
    let (m', o) := stepS m op
    let (m'', os) := runS m' ops
    (m'', o :: os)

def insertedKeys : List (Op V) → List Bytes
  | [] => []
  | .ins k _ :: ops => k :: insertedKeys ops
  | _ :: ops => insertedKeys ops

/-- the contract on a history: descent keys of inserted keys are prefix-free (hence distinct) -/
def PrefixFree (tf : Bytes → Bytes) (ks : List Bytes) : Prop :=
  ∀ a ∈ ks, ∀ b ∈ ks, tf a <+: tf b → a = b

theorem step_refines (tf : Bytes → Bytes) (ks : List Bytes) (hpf : PrefixFree tf ks) (t : Tree V) (op : Op V)
    (h : Inv tf t) (hstored : ∀ it ∈ items t, it.1 ∈ ks) (hop : ∀ k ∈ insertedKeys [op], k ∈ ks) :
    Inv tf (stepT tf t op).1 ∧ (∀ it ∈ items (stepT tf t op).1, it.1 ∈ ks) ∧
    abs (stepT tf t op).1 = (stepS (abs t) op).1 ∧ (stepT tf t op).2 = (stepS (abs t) op).2 := by
  cases op with
  | ins k v =>
    have hk : k ∈ ks := hop k (by simp [insertedKeys])
    have hp : PFree tf k (items t) := by
      intro it hit hpre
      rcases hpre with hpre | hpre
      · exact (hpf k hk it.1 (hstored it hit) hpre).symm
      · exact hpf it.1 (hstored it hit) k hk hpre
    obtain ⟨hinv, hmem⟩ := insert_items h k v hp
    refine ⟨hinv, ?_, abs_insert h k v hp, rfl⟩
    intro it hit
    rcases (hmem it).mp hit with h1 | ⟨h1, _⟩
    · subst h1; exact hk
    · exact hstored it h1
  | del k =>
    obtain ⟨hinv, hmem, _⟩ := delete_items h k
    obtain ⟨ha, hb⟩ := abs_delete h k
    refine ⟨hinv, fun it hit => hstored it ((hmem it).mp hit).1, ha, ?_⟩
    simp [stepT, stepS, hb]
  | get k =>
    refine ⟨h, hstored, rfl, ?_⟩
    simp [stepT, stepS, search_eq h k]

theorem insertedKeys_cons (op : Op V) (ops : List (Op V)) :
    ∀ k, k ∈ insertedKeys (op :: ops) ↔ k ∈ insertedKeys [op] ∨ k ∈ insertedKeys ops := by
  intro k; cases op <;> simp [insertedKeys]

theorem run_refines (tf : Bytes → Bytes) (ks : List Bytes) (hpf : PrefixFree tf ks) :
    ∀ (ops : List (Op V)) (t : Tree V), Inv tf t → (∀ it ∈ items t, it.1 ∈ ks) →
      (∀ k ∈ insertedKeys ops, k ∈ ks) →
      Inv tf (runT tf t ops).1 ∧ abs (runT tf t ops).1 = (runS (abs t) ops).1 ∧
      (runT tf t ops).2 = (runS (abs t) ops).2 := by
  intro ops
  induction ops with
  | nil => intro t h _ _; exact ⟨h, rfl, rfl⟩
  | cons op ops ih =>
    intro t h hst hk
    obtain ⟨h1, h2, h3, h4⟩ := step_refines tf ks hpf t op h hst
      (fun k hk' => hk k ((insertedKeys_cons op ops k).mpr (Or.inl hk')))
    obtain ⟨i1, i2, i3⟩ := ih (stepT tf t op).1 h1 h2
      (fun k hk' => hk k ((insertedKeys_cons op ops k).mpr (Or.inr hk')))
    simp only [runT, runS]
    refine ⟨i1, ?_, ?_⟩
    · rw [i2, h3]
    · rw [i3, h3, h4]

theorem inv_empty (tf : Bytes → Bytes) : Inv tf ({} : Tree V) :=
  ⟨by intro r hr; simp at hr, by simp [items, leaves], by intro it hit; simp [items, leaves] at hit⟩

theorem abs_empty : abs ({} : Tree V) = fun _ => none := by
  funext k; simp [abs, items, leaves]

/-- **C01.** From the empty tree, every history whose inserted keys are prefix-free under the kind's key
    transformation produces exactly the outputs of the ideal map, ends in a state denoting exactly the
    ideal map's state, and never faults (the model has no failure value: every call returns). -/
theorem refines_map (tf : Bytes → Bytes) (ops : List (Op V)) (hpf : PrefixFree tf (insertedKeys ops)) :
    (runT tf ({} : Tree V) ops).2 = (runS (fun _ => none) ops).2 ∧
    abs (runT tf ({} : Tree V) ops).1 = (runS (fun _ => none) ops).1 := by
  have := run_refines tf (insertedKeys ops) hpf ops ({} : Tree V) (inv_empty tf)
    (by intro it hit; simp [items, leaves] at hit) (fun k hk => hk)
  rw [abs_empty] at this
  exact ⟨this.2.2, this.2.1⟩

/-- the invariant (well-formedness, size, key discipline) holds after every history -/
theorem inv_run (tf : Bytes → Bytes) (ops : List (Op V)) (hpf : PrefixFree tf (insertedKeys ops)) :
    Inv tf (runT tf ({} : Tree V) ops).1 :=
  (run_refines tf (insertedKeys ops) hpf ops ({} : Tree V) (inv_empty tf)
    (by intro it hit; simp [items, leaves] at hit) (fun k hk => hk)).1

/-! ### the contract holds for the library's own kinds -/

/-- fixed-width encodings (numeric trees): injective fixed-length ⇒ prefix-free -/
theorem prefixFree_of_fixed_length (tf : Bytes → Bytes) (n : Nat) (ks : List Bytes)
    (hlen : ∀ k ∈ ks, (tf k).length = n) (hinj : ∀ a ∈ ks, ∀ b ∈ ks, tf a = tf b → a = b) :
    PrefixFree tf ks := by
  intro a ha b hb hpre
  exact hinj a ha b hb (List.IsPrefix.eq_of_length hpre (by rw [hlen a ha, hlen b hb]))

/-- byte-string trees: the stored key is `orig ++ [0]`; for 0x00-free originals the stored keys are
    prefix-free.  (With a 0x00 inside a key this fails – `example` below – which is known finding D3.) -/
theorem alpha_terminated_prefixFree (a b : Bytes) (ha : (0 : UInt8) ∉ a) (hb : (0 : UInt8) ∉ b)
    (hp : a ++ [0] <+: b ++ [0]) : a = b := by
  induction a generalizing b with
  | nil =>
    cases b with
    | nil => rfl
    | cons y b =>
      simp only [List.nil_append, List.cons_append, List.cons_prefix_cons] at hp
      exact absurd (hp.1 ▸ List.mem_cons_self) hb
  | cons x a ih =>
    cases b with
    | nil =>
      simp only [List.cons_append, List.nil_append, List.cons_prefix_cons] at hp
      exact absurd (hp.1 ▸ List.mem_cons_self) ha
    | cons y b =>
      simp only [List.cons_append, List.cons_prefix_cons] at hp
      obtain ⟨h1, h2⟩ := hp
      subst h1
      rw [ih b (fun h => ha (List.mem_cons_of_mem _ h)) (fun h => hb (List.mem_cons_of_mem _ h)) h2]

/-- the contract of C01 for byte-string trees, as instantiated by the harness: leaf key = descent key =
    `orig ++ [0]` (so `tf = id`), originals 0x00-free -/
theorem alpha_prefixFree (origs : List Bytes) (h0 : ∀ o ∈ origs, (0 : UInt8) ∉ o) :
    PrefixFree id (origs.map (· ++ [0])) := by
  intro a ha b hb hpre
  simp only [List.mem_map] at ha hb
  obtain ⟨oa, hoa, rfl⟩ := ha
  obtain ⟨ob, hob, rfl⟩ := hb
  rw [alpha_terminated_prefixFree oa ob (h0 oa hoa) (h0 ob hob) hpre]

/-- D3 as a Lean fact: with 0x00 allowed inside keys the terminated keys are not prefix-free -/
example : ([] : Bytes) ++ [0] <+: [0, 0] ++ [0] ∧ ([] : Bytes) ≠ [0, 0] := by decide

/-- … and the model (like the implementation) then loses a key: after Insert "" and Insert "\0\0",
    Search "" finds nothing although the ideal map holds it. -/
example :
    let t : Tree Nat := (({} : Tree Nat).insert [0] [0] 1).insert [0, 0, 0] [0, 0, 0] 2
    t.search [0] [0] = none ∧ t.size = 2 := by decide

/-- non-vacuity: a 7-operation history that splits a 12-byte compressed path, overwrites, deletes and
    re-inserts, evaluated on the model -/
example :
    let p : Bytes := List.replicate 12 112
    let ops : List (Op Nat) := [.ins (p ++ [1, 0]) 1, .ins (p ++ [2, 0]) 2, .ins (p.take 5 ++ [9, 0]) 3,
      .ins (p ++ [1, 0]) 4, .del (p ++ [2, 0]), .get (p ++ [1, 0]), .get (p.take 5 ++ [9, 0])]
    (runT id ({} : Tree Nat) ops).2 = (runS (fun _ => none) ops).2 := by
  decide

end ArtVerif.C01
