/-
  C02 (and the scans of C03/C04) on tree.go's traversals AS REGENERATED FROM THE SOURCE on every run
  (`Gen/IterOps.lean`: `all_push`, `backward_push`, `filter_push` – the switch inside `for len(q) != 0` of `all()`,
  `backward()`, `filter()`, i.e. what the traversal pushes for one inner node: the lanes below `childrenLen` of a
  node4/node16 in descending / ascending order, the 256 index bytes of a node48, the 256 slots of a node256, the
  `continue`s over empty entries).  `Proofs/GenIter` proves the regenerated loops to be `Raw.pushDesc` / `Raw.pushAsc`
  (`Model/RIter.lean`); `Proofs/RIterSim` proves those to append exactly the children of the ordered byte → child
  table.  So, for every node satisfying the raw invariant and whatever the unoccupied lanes / slots hold:

  * `go_backward_pushes_table_ascending` – `backward()` appends the node's children in ASCENDING byte order (so the
    largest is popped first), each exactly once, never a nil reference;
  * `go_all_pushes_table_descending`, `go_filter_pushes_table_descending` – `all()` / `filter()` append them in
    DESCENDING byte order.

  The stack discipline around the switch (pop, leaf test, yield) and `rangeScan` (whose stack carries a depth per
  entry) are mirrored by hand in `Model/RIter.lean` and tied by correspondence.
-/
import ArtVerif.Proofs.GenIter
import ArtVerif.Proofs.RIterSim
namespace ArtVerif.C02NodeOps
open ArtVerif ArtVerif.Gen ArtVerif.Gen.IterOps ArtVerif.GoNode ArtVerif.Raw ArtVerif.GenNodeOps ArtVerif.GenIter
variable {C : Type}

theorem go_backward_pushes_table_ascending (E : Env C) (r : Raw C) (q : List (Option C)) (hinv : r.inv = true) :
    backward_push E (imgOf r).1 (imgOf r).2 q = some (q ++ r.abs.map (fun p => some p.2)) := by
  rw [backward_push_eq E r q hinv, Raw.pushAsc_eq r hinv]

theorem go_all_pushes_table_descending (E : Env C) (r : Raw C) (q : List (Option C)) (hinv : r.inv = true) :
    all_push E (imgOf r).1 (imgOf r).2 q = some (q ++ (r.abs.map (fun p => some p.2)).reverse) := by
  rw [all_push_eq E r q hinv, Raw.pushDesc_eq, Raw.pushAsc_eq r hinv]

theorem go_filter_pushes_table_descending (E : Env C) (r : Raw C) (q : List (Option C)) (hinv : r.inv = true) :
    filter_push E (imgOf r).1 (imgOf r).2 q = some (q ++ (r.abs.map (fun p => some p.2)).reverse) := by
  rw [filter_push_eq E r q hinv, Raw.pushDesc_eq, Raw.pushAsc_eq r hinv]

/-- the order in which the table is pushed is strictly ascending in the branch byte -/
theorem go_pushed_order_is_byte_order (r : Raw C) (hinv : r.inv = true) : strictAsc (r.abs.map (·.1)) = true :=
  abs_sorted r hinv

/-! non-vacuity -/
def r3 : Raw Nat := ((((Raw.zero4 : Raw Nat).add 0x80 1).add 0x10 2).add 0xff 3)
def E0 : Env Nat := { pool := zeroImg, isLeaf := fun _ => true, hdr := fun _ => ⟨0, 0, zeroPrefix⟩, setHdr := fun c _ => c }
example : r3.inv = true := by decide
example : backward_push E0 (imgOf r3).1 (imgOf r3).2 [] = some [some 2, some 1, some 3] := by decide
example : all_push E0 (imgOf r3).1 (imgOf r3).2 [none] = some [none, some 3, some 1, some 2] := by decide

end ArtVerif.C02NodeOps
