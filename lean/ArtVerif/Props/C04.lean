/-
  C04 — Prefix(p) returns exactly the stored keys that start with p.

  Byte-string trees: leaf key = descent key = `orig ++ [0]` (`tf = id`); `Prefix p` narrows the scan to the
  subtree `lowestCommonParent` selects and filters on `orig`.  Collation trees (as repaired): filter over the
  whole tree on the original bytes – correct for every text.
-/
import ArtVerif.Proofs.Prefix
import ArtVerif.Props.C02
namespace ArtVerif.C04
open ArtVerif T Tree

variable {V σ : Type}

theorem filter_sorted {l : List (Item V)} (hs : l.Pairwise ItemLt) (pred : Item V → Bool) :
    (l.filter pred).Pairwise ItemLt := List.Pairwise.sublist List.filter_sublist hs

/-- byte-string trees: for EVERY `p` and every consumer, Prefix(p) is the early-exit fold over the stored
    pairs, in ascending order, whose original bytes start with `p` -/
theorem prefix_eq_filter {t : Tree V} (h : Inv id t) (p : Bytes) (f : Yield σ V) (s : σ) :
    t.prefixBytes p f s = foldUntil f s ((items t).filter (fun it => hasPrefix it.1.dropLast p)) := by
  unfold Tree.prefixBytes
  by_cases hp : p = []
  · subst hp
    simp only [if_true, hasPrefix]
    rw [C02.all_eq_items, List.filter_eq_self.mpr (by simp)]
  · simp only [hp, if_false]
    rw [filter_eq]
    congr 1
    cases hr : t.root with
    | none => simp [items, leaves, hr]
    | some r =>
      have hit : items t = inorder r := by simp [items, leaves, hr]
      have hwf := h.wf r hr
      have hpre : ∀ x ∈ inorder r, hasPrefix x.1.dropLast p = true → p <+: x.2.1 := by
        intro x hx hpx
        have := h.keyed x (hit ▸ hx)
        simp only [id] at this
        rw [this]
        exact List.IsPrefix.trans ((hasPrefix_iff _ _).mp hpx) (List.dropLast_prefix _)
      have hspec := lcp_spec (p.length + 2) r [] p hwf (by simp) (by simp)
      simp only [List.length_nil] at hspec
      simp only [Option.bind_some, hit]
      cases hl : lowestCommonParent (p.length + 2) r p 0 with
      | none =>
        rw [hl] at hspec
        simp only [LcpOK] at hspec
        simp only [leaves, List.filter_nil]
        symm
        rw [List.filter_eq_nil_iff]
        intro x hx hpx
        exact hspec x hx (hpre x hx hpx)
      | some r' =>
        rw [hl] at hspec
        simp only [LcpOK] at hspec
        obtain ⟨⟨q', hw'⟩, hsub, hsup⟩ := hspec
        simp only [leaves]
        apply sorted_ext
        · exact filter_sorted (WF.sorted r' q' hw') _
        · exact filter_sorted (WF.sorted r [] hwf) _
        · intro x
          simp only [List.mem_filter]
          constructor
          · rintro ⟨hx, hpx⟩; exact ⟨hsub x hx, hpx⟩
          · rintro ⟨hx, hpx⟩; exact ⟨hsup x hx (hpre x hx hpx), hpx⟩

/-- collation trees: filter on the original bytes over the whole tree -/
theorem prefixColl_eq_filter (t : Tree V) (p : Bytes) (f : Yield σ V) (s : σ) :
    t.prefixColl p f s = foldUntil f s ((items t).filter (fun it => hasPrefix it.1 p)) := by
  unfold Tree.prefixColl
  by_cases hp : p = []
  · subst hp
    simp only [if_true, hasPrefix]
    rw [C02.all_eq_items, List.filter_eq_self.mpr (by simp)]
  · simp only [hp, if_false]
    rw [filter_eq]; rfl

/-- the repaired defect D6: a sibling whose compressed path looks like the continuation is not selected -/
example :
    let pre : Bytes := List.replicate 10 112
    let t : Tree Nat := (((({} : Tree Nat).insert (pre ++ [120, 97, 49, 0]) (pre ++ [120, 97, 49, 0]) 1).insert
      (pre ++ [120, 97, 50, 0]) (pre ++ [120, 97, 50, 0]) 2).insert
      (pre ++ [121, 97, 98, 49, 0]) (pre ++ [121, 97, 98, 49, 0]) 3).insert
      (pre ++ [121, 97, 98, 50, 0]) (pre ++ [121, 97, 98, 50, 0]) 4
    (t.prefixBytes (pre ++ [121, 97, 98]) (collect 0) []).map (·.2.2) = [4, 3] := by decide

end ArtVerif.C04
