/-
  C10 — the raw inner-node images (node4 / node16 / node48 / node256 of node.go) are a correct
  ordered byte → child table, and the SWAR routines of node4.go compute what they are used for.

  Layering:
  * `Proofs/Swar.lean`     facts about the REGENERATED SWAR definitions (`Gen/Node4.lean`), for all
                           32-bit words and all bytes; the only place where `bv_decide` is used.
  * `Proofs/RawNodes.lean` the table-level theorems over `Model/Raw.lean`; core Lean only.
  * this file              the property statements, non-vacuity examples, axiom audit.
-/
import ArtVerif.Proofs.Swar
import ArtVerif.Proofs.RawNodes
namespace ArtVerif.C10
open ArtVerif ArtVerif.Gen ArtVerif.Swar ArtVerif.Raw

variable {C : Type}

/-! ## SWAR headline lemmas (all words, all bytes) -/

/-- the lane view loses nothing: every word is `mk` of its four `getAtPos` lanes -/
theorem swar_lanes (w : BitVec 32) :
    w = mk (getAtPos w 0) (getAtPos w 1) (getAtPos w 2) (getAtPos w 3) := mk_getAtPos w

/-- `searchNode4`: index of the LOWEST lane equal to `x`, −1 if none -/
theorem swar_search (a b c d x : BitVec 8) :
    searchNode4 (mk a b c d) x =
      if a == x then 0 else if b == x then 1 else if c == x then 2 else if d == x then 3 else (-1 : Int) :=
  searchNode4_mk a b c d x

/-- `insertPosNode4`: index of the lowest lane that is ≥ `x` (unsigned; NOT `>`), −1 if none -/
theorem swar_insertPos (a b c d x : BitVec 8) :
    insertPosNode4 (mk a b c d) x =
      if x.ule a then 0 else if x.ule b then 1 else if x.ule c then 2 else if x.ule d then 3 else (-1 : Int) :=
  insertPosNode4_mk a b c d x

/-- the same two on the lane list -/
theorem swar_search_lanes (w : BitVec 32) (b : UInt8) :
    searchNode4 w b.toBitVec = firstIdx (fun k => k == b) (lanes w) := searchNode4_spec w b
theorem swar_insertPos_lanes (w : BitVec 32) (b : UInt8) :
    insertPosNode4 w b.toBitVec = firstIdx (fun k => decide (b ≤ k)) (lanes w) := insertPosNode4_spec w b

theorem swar_getAtPos (w : BitVec 32) (i : Nat) (hi : i < 4) :
    (lanes w)[i]? = some (UInt8.ofBitVec (getAtPos w i)) := getAtPos_lanes w i hi
theorem swar_setAtPos (w : BitVec 32) (i : Nat) (hi : i < 4) (x : UInt8) :
    lanes (setAtPos w i x.toBitVec) = (lanes w).set i x := lanes_setAtPos w i hi x
/-- a zero lane is inserted at `p`, the lanes from `p` on move up, lane 3 is dropped -/
theorem swar_shiftLeftClear (w : BitVec 32) (p : Nat) (hp : p < 4) :
    lanes (shiftLeftClear w p) = ((lanes w).take p ++ 0 :: (lanes w).drop p).take 4 :=
  lanes_shiftLeftClear w p hp
/-- lane `i` is dropped, the higher lanes move down, lane 3 is DUPLICATED (identity for `i = 3`,
    where the Go shift count is 32) -/
theorem swar_shiftRightClear (w : BitVec 32) (i : Nat) (hi : i < 4) :
    lanes (shiftRightClear w (i + 1)) =
      (lanes w).take i ++ (lanes w).drop (i + 1) ++ [UInt8.ofBitVec (getAtPos w 3)] :=
  lanes_shiftRightClear w i hi
theorem swar_construct (a b c d : UInt8) :
    lanes (construct a.toBitVec b.toBitVec c.toBitVec d.toBitVec) = [a, b, c, d] := lanes_construct a b c d
theorem swar_deconstruct (w : BitVec 32) : (deconstruct w).map UInt8.ofBitVec = lanes w :=
  deconstruct_lanes w

/-! ## (a) `findChild` is lookup in the abstract table -/

theorem find_spec (r : Raw C) (b : UInt8) (hinv : r.inv = true) :
    r.find b = (r.abs.find? (fun p => p.1 == b)).map (·.2) := Raw.find_spec r b hinv

/-! ## (b) the children enumerate in strictly ascending unsigned byte order -/

theorem abs_sorted (r : Raw C) (hinv : r.inv = true) : strictAsc (r.abs.map (·.1)) = true :=
  Raw.abs_sorted r hinv

/-! ## (c) `addChild` is sorted insertion and keeps the invariant -/

/-- all four classes, growth 4→16, 16→48, 48→256 included -/
theorem add_spec (r : Raw C) (b : UInt8) (c : C) (hinv : r.inv = true) (hnk : ∀ p ∈ r.abs, p.1 ≠ b) :
    (r.add b c).abs = insertSorted b c r.abs ∧ (r.add b c).inv = true := Raw.add_spec r b c hinv hnk

/-- `insertSorted` is what its name says -/
theorem insertSorted_mem (b : UInt8) (c : C) (L : List (UInt8 × C)) (x : UInt8 × C) :
    x ∈ insertSorted b c L ↔ x = (b, c) ∨ x ∈ L := mem_insertSorted b c L x
theorem insertSorted_sorted (b : UInt8) (c : C) (L : List (UInt8 × C))
    (hs : strictAsc (L.map (·.1)) = true) (hb : ∀ p ∈ L, p.1 ≠ b) :
    strictAsc ((insertSorted b c L).map (·.1)) = true :=
  (sortedT_iff _).2 (sorted_insertSorted b c L ((sortedT_iff _).1 hs) hb)

theorem add_hdr (r : Raw C) (b : UInt8) (c : C) : (r.add b c).hdr = r.hdr := Raw.add_hdr r b c

/-- the class is kept -/
theorem add4_in_class (h : Hdr) (len : Nat) (keys : BitVec 32) (slots : List (Option C)) (b : UInt8) (c : C)
    (hinv : (n4 h len keys slots).inv = true) (hnk : ∀ p ∈ (n4 h len keys slots).abs, p.1 ≠ b)
    (hlen : len < maxNode4) :
    (add4 h len keys slots b c).abs = insertSorted b c (n4 h len keys slots).abs ∧
    (add4 h len keys slots b c).inv = true := add4_spec h len keys slots b c hinv hnk hlen
theorem add16_in_class (h : Hdr) (len : Nat) (keys : Bytes) (slots : List (Option C)) (b : UInt8) (c : C)
    (hinv : (n16 h len keys slots).inv = true) (hnk : ∀ p ∈ (n16 h len keys slots).abs, p.1 ≠ b)
    (hlen : len < maxNode16) :
    (add16 h len keys slots b c).abs = insertSorted b c (n16 h len keys slots).abs ∧
    (add16 h len keys slots b c).inv = true := add16_spec h len keys slots b c hinv hnk hlen
theorem add48_in_class (h : Hdr) (len : Nat) (idx : Bytes) (slots : List (Option C)) (b : UInt8) (c : C)
    (hinv : (n48 h len idx slots).inv = true) (hnk : ∀ p ∈ (n48 h len idx slots).abs, p.1 ≠ b)
    (hlen : len < maxNode48) :
    (add48 h len idx slots b c).abs = insertSorted b c (n48 h len idx slots).abs ∧
    (add48 h len idx slots b c).inv = true := add48_spec h len idx slots b c hinv hnk hlen
theorem add256_in_class (h : Hdr) (len : Nat) (slots : List (Option C)) (b : UInt8) (c : C)
    (hinv : (n256 h len slots).inv = true) (hnk : ∀ p ∈ (n256 h len slots).abs, p.1 ≠ b) :
    (add256 h len slots b c).abs = insertSorted b c (n256 h len slots).abs ∧
    (add256 h len slots b c).inv = true := add256_spec h len slots b c hinv hnk

/-- growth: the next class is built from the zero (pooled) image -/
theorem add4_grow (h : Hdr) (len : Nat) (keys : BitVec 32) (slots : List (Option C)) (b : UInt8) (c : C)
    (hinv : (n4 h len keys slots).inv = true) (hnk : ∀ p ∈ (n4 h len keys slots).abs, p.1 ≠ b)
    (hlen : ¬ len < maxNode4) :
    (add4 h len keys slots b c).abs = insertSorted b c (n4 h len keys slots).abs ∧
    (add4 h len keys slots b c).inv = true := add4_grow_spec h len keys slots b c hinv hnk hlen
theorem add16_grow (h : Hdr) (len : Nat) (keys : Bytes) (slots : List (Option C)) (b : UInt8) (c : C)
    (hinv : (n16 h len keys slots).inv = true) (hnk : ∀ p ∈ (n16 h len keys slots).abs, p.1 ≠ b)
    (hlen : ¬ len < maxNode16) :
    (add16 h len keys slots b c).abs = insertSorted b c (n16 h len keys slots).abs ∧
    (add16 h len keys slots b c).inv = true := add16_grow_spec h len keys slots b c hinv hnk hlen
theorem add48_grow (h : Hdr) (len : Nat) (idx : Bytes) (slots : List (Option C)) (b : UInt8) (c : C)
    (hinv : (n48 h len idx slots).inv = true) (hnk : ∀ p ∈ (n48 h len idx slots).abs, p.1 ≠ b)
    (hlen : ¬ len < maxNode48) :
    (add48 h len idx slots b c).abs = insertSorted b c (n48 h len idx slots).abs ∧
    (add48 h len idx slots b c).inv = true := add48_grow_spec h len idx slots b c hinv hnk hlen

/-! ## (d) `deleteChild` erases the key and keeps the invariant, or collapses a node4 -/

/-- The outcome of `deleteChild` against the table `L'` that must remain:
    a node (possibly of the next smaller class: 16→4, 48→16, 256→48) with that table, the invariant
    and the old header; or, for a node4 left with one child, `collapse` carrying exactly that entry. -/
def RemoveOK (h : Hdr) (L' : List (UInt8 × C)) : DelRes C → Prop
  | .node r' => r'.abs = L' ∧ r'.inv = true ∧ r'.hdr = h
  | .collapse h' b0 c => h' = h ∧ ∃ c', c = some c' ∧ L' = [(b0, c')]

theorem remove_spec (r : Raw C) (b : UInt8) (hinv : r.inv = true) (hk : ∃ p ∈ r.abs, p.1 = b) :
    RemoveOK r.hdr (r.abs.filter (fun p => p.1 != b)) (r.remove b) := by
  have := Raw.remove_spec r b hinv hk
  cases hr : r.remove b with
  | node r' => rw [hr] at this; exact this
  | collapse h' b0 c => rw [hr] at this; exact this

/-! ## (e) the path merge of the node4 collapse produces the canonical inline prefix -/

theorem mergeHdr_spec (h ch : Hdr) (b : UInt8) (hh : h.pfx.length = 10) (hc : ch.pfx.length = 10) :
    (mergeHdr h b ch).plen = ch.plen + h.plen + 1 ∧ (mergeHdr h b ch).pfx.length = 10 ∧
    (mergeHdr h b ch).pfx.take (min (ch.plen + h.plen + 1) 10) =
      (h.pfx.take (min h.plen 10) ++ [b] ++ ch.pfx.take (min ch.plen 10)).take 10 :=
  Raw.mergeHdr_spec h ch b hh hc

/-! ## non-vacuity -/

/-- lanes (1,3 | 4,4), two children: stale lanes present, invariant holds -/
def ex4 : Raw Nat := .n4 {} 2 0x04040301#32 [some 10, some 30, none, none]

example : ex4.inv = true := by decide
example : ex4.abs = [(1, 10), (3, 30)] := by decide
example : ex4.find 3 = some 30 := by decide
example : ex4.find 4 = none := by decide          -- a stale lane is not a child
example : (ex4.add 2 20).abs = [(1, 10), (2, 20), (3, 30)] ∧ (ex4.add 2 20).inv = true := by decide
example : (ex4.add 9 90).abs = [(1, 10), (3, 30), (9, 90)] ∧ (ex4.add 9 90).inv = true := by decide
/-- key 4 equals the stale lanes: the unmasked `insertPosNode4` (first lane ≥ 4) lands on `len` -/
example : (ex4.add 4 40).abs = [(1, 10), (3, 30), (4, 40)] ∧ (ex4.add 4 40).inv = true := by decide
/-- removing one of two children collapses the node4 onto the remaining child -/
def isCollapse (b0 : UInt8) (c0 : Nat) : DelRes Nat → Bool
  | .collapse _ b c => b == b0 && c == some c0
  | .node _ => false
example : isCollapse 3 30 (ex4.remove 1) = true := by decide
example : (Raw.zero4 : Raw Nat).inv = true := by decide

/-- the model grown by `add` from the empty node4 through all four classes -/
def sample (n : Nat) : Raw Nat :=
  (List.range n).foldl (fun r i => r.add (UInt8.ofNat (255 - 5 * i)) i) Raw.zero4

example : (sample 4).cls = 4 ∧ (sample 4).inv = true := by decide
example : (sample 5).cls = 16 ∧ (sample 5).inv = true := by decide
example : (sample 17).cls = 48 ∧ (sample 17).inv = true := by decide +kernel
example : (sample 49).cls = 256 ∧ (sample 49).inv = true := by decide +kernel
example : (sample 5).abs.map (·.1) = [235, 240, 245, 250, 255] := by decide

/-! ## why the stale-lane clause of the node4 invariant is needed

  lanes (1,2 | 3,9), two children, key 5: the stale lanes are NOT non-increasing; `insertPosNode4`
  is not masked by `childrenLen` and reports lane 3 (> len); `addChild` then stores the child in
  slot 3 while `childrenLen` becomes 3 — the child is lost. -/
def bad4 : Raw Nat := .n4 {} 2 0x09030201#32 [some 10, some 20, none, none]

example : insertPosNode4 0x09030201#32 5#8 = 3 := by decide
example : bad4.inv = false := by decide
example : (bad4.add 5 50).find 5 = none := by decide
example : (bad4.add 5 50).abs = [(1, 10), (2, 20)] := by decide

/-! ## axiom audit -/

#print axioms swar_lanes
#print axioms swar_search
#print axioms swar_insertPos
#print axioms swar_search_lanes
#print axioms swar_insertPos_lanes
#print axioms swar_getAtPos
#print axioms swar_setAtPos
#print axioms swar_shiftLeftClear
#print axioms swar_shiftRightClear
#print axioms swar_construct
#print axioms swar_deconstruct
#print axioms find_spec
#print axioms abs_sorted
#print axioms add_spec
#print axioms insertSorted_mem
#print axioms insertSorted_sorted
#print axioms add_hdr
#print axioms add4_in_class
#print axioms add16_in_class
#print axioms add48_in_class
#print axioms add256_in_class
#print axioms add4_grow
#print axioms add16_grow
#print axioms add48_grow
#print axioms remove_spec
#print axioms mergeHdr_spec
-- the per-class lemmas that do not touch the SWAR word are core-only:
#print axioms Raw.find16_spec
#print axioms Raw.remove48_spec
#print axioms Raw.remove256_spec
#print axioms Raw.build48

end ArtVerif.C10
