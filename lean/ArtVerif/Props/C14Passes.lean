/-
  C14, the assumption behind the model: in `Model/Iter.lean` a sequence value is a pure function of its consumer, so
  ranging over it again trivially starts from the same state (`C14.passes_const`).  A Go sequence is a closure, and that
  is only faithful if one pass leaves nothing behind for the next.  The table `Gen.passWrites` (regenerated from the
  source on every run) lists, for every function returning an `iter.Seq`/`iter.Seq2`, each write located inside a
  function literal, classified from the point of view of one run of the outermost literal – one pass:
  `pass-local` (a variable declared by that pass, or storage created by it), `captured` (a variable of the enclosing
  function, shared by all passes over the value), `heap:*`, `global`.

  What this does NOT show: that a pass does not *read* mutable state of the tree that other calls change (the
  collation scratch buffer); that is left to the correspondence legs (abandoned/complete passes with look-ups between
  them).
-/
import ArtVerif.Gen.Effects
namespace ArtVerif.C14Passes
open ArtVerif.Gen

def passWritesOf (f : String) : List (String × String) :=
  match passWrites.find? (·.1 == f) with
  | some e => e.2
  | none => [("missing", f)]

/-- every write performed while ranging over a sequence goes to a variable declared by that pass or to storage
    created by it: nothing a pass writes survives into the next pass (or into a pass running at the same time) -/
theorem passes_write_only_their_own_state :
    seqFuncs.all (fun f => (passWritesOf f).all (fun w => w.1 == "pass-local")) = true := by decide +kernel

/-- the table speaks about the sequence methods of every tree kind and about the shared traversals behind them -/
theorem sequence_methods_are_listed :
    (["alphaSortedTree", "unsignedSortedTree", "signedSortedTree", "floatSortedTree", "compoundSortedTree",
      "collationSortedTree"].all fun t =>
        ["All", "Backward", "TopK", "BottomK", "Range", "Prefix"].all fun m => seqFuncs.contains (t ++ "." ++ m)) = true ∧
    (["all", "backward", "topK", "bottomK", "filter", "rangeScan"].all (seqFuncs.contains ·)) = true := by
  decide +kernel

/-- the traversals do write (the theorem above is not about empty lists): the stack of `all`, the counter of `topK` -/
theorem traversals_have_pass_state :
    (passWritesOf "all").length > 0 ∧ (passWritesOf "topK").contains ("pass-local", "remaining") = true := by
  decide +kernel

end ArtVerif.C14Passes
