/-
  C06 — Size() equals the number of stored keys.
-/
import ArtVerif.Props.C02
namespace ArtVerif.C06
open ArtVerif T Tree

variable {V : Type}

/-- the size field is the number of pairs All() yields (part of the invariant every operation preserves) -/
theorem size_eq_card {tf} {t : Tree V} (h : Inv tf t) : t.size = (items t).length := h.size

/-- … after every history -/
theorem size_after_history (tf : Bytes → Bytes) (ops : List (C01.Op V))
    (hpf : C01.PrefixFree tf (C01.insertedKeys ops)) :
    (C01.runT tf ({} : Tree V) ops).1.size = (items (C01.runT tf ({} : Tree V) ops).1).length :=
  (C01.inv_run tf ops hpf).size

/-- grows by one exactly when Insert adds a new key; unchanged by an overwrite -/
theorem insert_size {tf} {t : Tree V} (h : Inv tf t) (k : Bytes) (v : V) (hpf : PFree tf k (items t)) :
    (t.insert (tf k) k v).size = if abs t k = none then t.size + 1 else t.size := size_insert h k v hpf

/-- shrinks by one exactly when Delete returns true; unchanged by a failed delete -/
theorem delete_size {tf : Bytes → Bytes} {t : Tree V} (k : Bytes) :
    (t.delete (tf k) k).1.size = if (t.delete (tf k) k).2 then t.size - 1 else t.size := size_delete k

/-- queries do not touch it: they return no tree (see C15) -/
theorem search_size (t : Tree V) (tk k : Bytes) : (t, t.search tk k).1.size = t.size := rfl

/-- the defect D1 as repaired: a compressed-path split counts the new key -/
example :
    let t : Tree Nat := ((({} : Tree Nat).insert [98, 98, 97, 0] [98, 98, 97, 0] 1).insert [98, 0] [98, 0] 2).insert [0] [0] 3
    t.size = 3 ∧ (items t).length = 3 := by decide

end ArtVerif.C06
