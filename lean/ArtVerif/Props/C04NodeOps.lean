/-
  C04 on tree.go's `lowestCommonParent` AS REGENERATED FROM THE SOURCE on every run (`Gen/LcpOps.lean`:
  `lowestCommonParent_step`, the body of the descent loop).  The translator checks the frame of the function
  (`n := root; depth := 0; for n.pointer != nil && n.tag != nodeKindLeaf { <step> }; return n`, the step ending in
  `child := n.findChild(prefix[depth]); if child == nil { return nodeRef{} }; n = *child; depth++`) and translates the
  step; `Proofs/GenLcp.lowestCommonParent_step_eq` proves that it takes the decision `GenLcp.modelStep`, and
  `rt_lowestCommonParent_is_modelStep` below that `RT.lowestCommonParent` of `Model/RIter.lean` – the function
  `C04Raw.raw_prefix_after_history` is about – is that decision followed by `Raw.find` (the regenerated `findChild`,
  `C10NodeOps.go_findChild_is_table_lookup`).  `prefixMismatch` enters as a parameter; `C04Loops.prefixMismatch_spec`
  is the statement that the regenerated `prefixMismatch` is the model's.
-/
import ArtVerif.Proofs.GenLcp
namespace ArtVerif.C04NodeOps
open ArtVerif ArtVerif.Gen ArtVerif.Gen.LcpOps ArtVerif.GoNode ArtVerif.GenLcp ArtVerif.RT ArtVerif.Compose
variable {C V : Type}

/-- the regenerated step: stop at the node when `p` ends inside its compressed path or right after it, give up when `p`
    leaves the path, otherwise continue with the child under the byte one past the path -/
theorem go_lowestCommonParent_step (E : Env C) (cc : C) (idx : Nat) (p : Bytes) (d : Nat) :
    lowestCommonParent_step E (some cc) (idx : Int) p (d : Int) =
      some (modelStep (E.hdr cc).prefixLen.toNat idx p d) :=
  lowestCommonParent_step_eq E cc idx p d

/-- `RT.lowestCommonParent` (Model/RIter) on an inner node is that decision, then `Raw.find` -/
theorem rt_lowestCommonParent_is_modelStep (hf fuel : Nat) (r : Raw (RT V)) (p : Bytes) (d : Nat) :
    RT.lowestCommonParent hf (fuel + 1) (.node r) p d =
      match modelStep r.hdr.plen
          (if r.hdr.plen ≠ 0 then T.prefixMismatch r.hdr.plen (inlOf r.hdr) (minTKey hf (.node r)) p d else 0) p d with
      | .here => some (.node r)
      | .nothing => none
      | .descend b d' =>
        match r.find b with
        | none => none
        | some c => RT.lowestCommonParent hf fuel c p d'.toNat := by
  simp only [RT.lowestCommonParent, modelStep]
  generalize (if r.hdr.plen ≠ 0 then T.prefixMismatch r.hdr.plen (inlOf r.hdr) (minTKey hf (.node r)) p d else 0) = idx
  by_cases h1 : r.hdr.plen ≠ 0 ∧ d + idx ≥ p.length
  · rw [if_pos h1, if_pos h1]
  · rw [if_neg h1, if_neg h1]
    by_cases h2 : r.hdr.plen ≠ 0 ∧ idx < r.hdr.plen
    · rw [if_pos h2, if_pos h2]
    · rw [if_neg h2, if_neg h2]
      rcases hx : p[d + r.hdr.plen]? with _ | b
      · rfl
      · simp only []
        rcases r.find b with _ | c
        · rfl
        · show _ = RT.lowestCommonParent hf fuel c p ((d + r.hdr.plen + 1 : Nat) : Int).toNat
          rw [Int.toNat_natCast]

/-! non-vacuity: the three outcomes -/
example : modelStep 3 1 [1, 2] 0 = .nothing := by decide
example : modelStep 3 3 [1, 2, 3] 0 = .here := by decide
example : modelStep 2 2 [1, 2, 9, 4] 0 = .descend 9 3 := by decide

end ArtVerif.C04NodeOps
