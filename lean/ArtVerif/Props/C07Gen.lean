/-
  C07 on the code as it stands: the theorems of `Props/C07.lean` are about the hand-written codec
  model; here the same statements are made about the definitions *regenerated from keys.go on every
  run* (`Gen/Keys.lean`: one word-level function per clause of the type switches of `Transform` and
  `Restore`, with the slice length that is made / read).  `GenCodec.enc` is "make a slice of
  `trLen` bytes and `binary.BigEndian.PutUintN` the transformed word into it", `GenCodec.dec` is
  "`binary.BigEndian.UintN` of the bytes, then the regenerated `Restore` clause".

  For every one of the fourteen instantiations (uint8…uint64, uint on 32- and 64-bit targets, the
  same for int, float32, float64): fixed length, exact round trip (NaN ↦ NaN), order isomorphism from
  the declared order to bytewise order, injectivity (all NaNs alike, −0 ≠ +0).
-/
import ArtVerif.Props.C07
import ArtVerif.Proofs.GenKeys
namespace ArtVerif.C07Gen
open ArtVerif ArtVerif.Gen.Keys ArtVerif.GenKeys

structure GenCodec (w : Nat) where
  tr : BitVec w → BitVec w
  trLen : Nat
  rs : BitVec w → BitVec w
  rsLen : Nat

def GenCodec.enc {w} (c : GenCodec w) (k : BitVec w) : Bytes := toBE c.trLen (c.tr k).toNat
def GenCodec.dec {w} (c : GenCodec w) (bs : Bytes) : BitVec w := c.rs (BitVec.ofNat w (ofBE bs))

structure UnsignedOK {w} (c : GenCodec w) : Prop where
  len : ∀ k, (c.enc k).length = w / 8
  readLen : c.rsLen = w / 8
  roundtrip : ∀ k, c.dec (c.enc k) = k
  order : ∀ x y, lexLt (c.enc x) (c.enc y) = true ↔ x.toNat < y.toNat
  inj : ∀ x y, c.enc x = c.enc y ↔ x = y

structure SignedOK {w} (c : GenCodec w) : Prop where
  len : ∀ k, (c.enc k).length = w / 8
  readLen : c.rsLen = w / 8
  roundtrip : ∀ k, c.dec (c.enc k) = k
  order : ∀ x y, lexLt (c.enc x) (c.enc y) = true ↔ x.toInt < y.toInt
  inj : ∀ x y, c.enc x = c.enc y ↔ x = y

structure FloatOK {w} (f : FloatFmt w) (c : GenCodec w) : Prop where
  len : ∀ k, (c.enc k).length = w / 8
  readLen : c.rsLen = w / 8
  roundtrip : ∀ k, ¬ f.isNaN k = true → c.dec (c.enc k) = k
  roundtrip_nan : ∀ k, f.isNaN k = true → f.isNaN (c.dec (c.enc k)) = true
  nan_alike : ∀ x y, f.isNaN x = true → f.isNaN y = true → c.enc x = c.enc y
  order : ∀ x y, lexLt (c.enc x) (c.enc y) = true ↔ f.rank x < f.rank y
  inj : ∀ x y, c.enc x = c.enc y ↔ (x = y ∨ (f.isNaN x = true ∧ f.isNaN y = true))

theorem unsignedOK_of {w} (c : GenCodec w) (h8 : 8 ∣ w)
    (htr : ∀ k, c.tr k = k) (hrs : ∀ i, c.rs i = i) (hl : c.trLen = w / 8) (hr : c.rsLen = w / 8) :
    UnsignedOK c := by
  have henc : ∀ k, c.enc k = encU k := by intro k; simp only [GenCodec.enc, encU, htr, hl]
  have hdec : ∀ bs, c.dec bs = decU w bs := by intro bs; simp only [GenCodec.dec, decU, hrs]
  refine ⟨?_, hr, ?_, ?_, ?_⟩
  · intro k; rw [henc]; exact C07.encU_length k
  · intro k; rw [henc, hdec]; exact C07.decU_encU h8 k
  · intro x y; rw [henc, henc]; exact C07.encU_lt_iff h8 x y
  · intro x y; rw [henc, henc]; exact C07.encU_inj h8 x y

theorem signedOK_of {w} (c : GenCodec w) (h8 : 8 ∣ w) (h0 : 0 < w)
    (htr : ∀ k, c.tr k = k ^^^ signBit w) (hrs : ∀ i, c.rs i = i ^^^ signBit w)
    (hl : c.trLen = w / 8) (hr : c.rsLen = w / 8) : SignedOK c := by
  have henc : ∀ k, c.enc k = encI k := by intro k; simp only [GenCodec.enc, encI, htr, hl]
  have hdec : ∀ bs, c.dec bs = decI w bs := by intro bs; simp only [GenCodec.dec, decI, hrs]
  refine ⟨?_, hr, ?_, ?_, ?_⟩
  · intro k; rw [henc]; exact C07.encI_length k
  · intro k; rw [henc, hdec]; exact C07.decI_encI h8 k
  · intro x y; rw [henc, henc]; exact C07.encI_lt_iff h8 h0 x y
  · intro x y; rw [henc, henc]; exact C07.encI_inj h8 x y

/-! ## the fourteen instantiations of keys.go -/

def cUint8 : GenCodec 8 := ⟨transform_uint8, transformLen_uint8, restore_uint8, restoreLen_uint8⟩
def cUint16 : GenCodec 16 := ⟨transform_uint16, transformLen_uint16, restore_uint16, restoreLen_uint16⟩
def cUint32 : GenCodec 32 := ⟨transform_uint32, transformLen_uint32, restore_uint32, restoreLen_uint32⟩
def cUint64 : GenCodec 64 := ⟨transform_uint64, transformLen_uint64, restore_uint64, restoreLen_uint64⟩
def cUintOn32 : GenCodec 32 := ⟨transform_uint_32, transformLen_uint_32, restore_uint_32, restoreLen_uint_32⟩
def cUintOn64 : GenCodec 64 := ⟨transform_uint_64, transformLen_uint_64, restore_uint_64, restoreLen_uint_64⟩
def cInt8 : GenCodec 8 := ⟨transform_int8, transformLen_int8, restore_int8, restoreLen_int8⟩
def cInt16 : GenCodec 16 := ⟨transform_int16, transformLen_int16, restore_int16, restoreLen_int16⟩
def cInt32 : GenCodec 32 := ⟨transform_int32, transformLen_int32, restore_int32, restoreLen_int32⟩
def cInt64 : GenCodec 64 := ⟨transform_int64, transformLen_int64, restore_int64, restoreLen_int64⟩
def cIntOn32 : GenCodec 32 := ⟨transform_int_32, transformLen_int_32, restore_int_32, restoreLen_int_32⟩
def cIntOn64 : GenCodec 64 := ⟨transform_int_64, transformLen_int_64, restore_int_64, restoreLen_int_64⟩
def cFloat32 : GenCodec 32 := ⟨transform_float32, transformLen_float32, restore_float32, restoreLen_float32⟩
def cFloat64 : GenCodec 64 := ⟨transform_float64, transformLen_float64, restore_float64, restoreLen_float64⟩

theorem uint8_ok : UnsignedOK cUint8 :=
  unsignedOK_of _ (by decide) transform_uint8_eq restore_uint8_eq (by decide) (by decide)
theorem uint16_ok : UnsignedOK cUint16 :=
  unsignedOK_of _ (by decide) transform_uint16_eq restore_uint16_eq (by decide) (by decide)
theorem uint32_ok : UnsignedOK cUint32 :=
  unsignedOK_of _ (by decide) transform_uint32_eq restore_uint32_eq (by decide) (by decide)
theorem uint64_ok : UnsignedOK cUint64 :=
  unsignedOK_of _ (by decide) transform_uint64_eq restore_uint64_eq (by decide) (by decide)
theorem uint_on32_ok : UnsignedOK cUintOn32 :=
  unsignedOK_of _ (by decide) transform_uint_32_eq restore_uint_32_eq (by decide) (by decide)
theorem uint_on64_ok : UnsignedOK cUintOn64 :=
  unsignedOK_of _ (by decide) transform_uint_64_eq restore_uint_64_eq (by decide) (by decide)

theorem int8_ok : SignedOK cInt8 :=
  signedOK_of _ (by decide) (by decide) transform_int8_eq restore_int8_eq (by decide) (by decide)
theorem int16_ok : SignedOK cInt16 :=
  signedOK_of _ (by decide) (by decide) transform_int16_eq restore_int16_eq (by decide) (by decide)
theorem int32_ok : SignedOK cInt32 :=
  signedOK_of _ (by decide) (by decide) transform_int32_eq restore_int32_eq (by decide) (by decide)
theorem int64_ok : SignedOK cInt64 :=
  signedOK_of _ (by decide) (by decide) transform_int64_eq restore_int64_eq (by decide) (by decide)
theorem int_on32_ok : SignedOK cIntOn32 :=
  signedOK_of _ (by decide) (by decide) transform_int_32_eq restore_int_32_eq (by decide) (by decide)
theorem int_on64_ok : SignedOK cIntOn64 :=
  signedOK_of _ (by decide) (by decide) transform_int_64_eq restore_int_64_eq (by decide) (by decide)

theorem float32_ok : FloatOK fmt32 cFloat32 := by
  have henc : ∀ k, cFloat32.enc k = encF fmt32 k := by
    intro k; simp only [GenCodec.enc, cFloat32, encF, transform_float32_eq]; rfl
  have hdec : ∀ bs, cFloat32.dec bs = decF fmt32 bs := by
    intro bs; simp only [GenCodec.dec, cFloat32, decF, restore_float32_eq]
  refine ⟨?_, by decide, ?_, ?_, ?_, ?_, ?_⟩
  · intro k; rw [henc]; exact C07.encF32_length k
  · intro k h; rw [henc, hdec]; exact C07.decF32_encF32 k h
  · intro k h; rw [henc, hdec]; exact C07.decF32_encF32_nan k h
  · intro x y hx hy; rw [henc, henc]; exact C07.encF32_nan_eq x y hx hy
  · intro x y; rw [henc, henc]; exact C07.encF32_lt_iff x y
  · intro x y; rw [henc, henc]; exact C07.encF32_eq_iff x y

theorem float64_ok : FloatOK fmt64 cFloat64 := by
  have henc : ∀ k, cFloat64.enc k = encF fmt64 k := by
    intro k; simp only [GenCodec.enc, cFloat64, encF, transform_float64_eq]; rfl
  have hdec : ∀ bs, cFloat64.dec bs = decF fmt64 bs := by
    intro bs; simp only [GenCodec.dec, cFloat64, decF, restore_float64_eq]
  refine ⟨?_, by decide, ?_, ?_, ?_, ?_, ?_⟩
  · intro k; rw [henc]; exact C07.encF64_length k
  · intro k h; rw [henc, hdec]; exact C07.decF64_encF64 k h
  · intro k h; rw [henc, hdec]; exact C07.decF64_encF64_nan k h
  · intro x y hx hy; rw [henc, henc]; exact C07.encF64_nan_eq x y hx hy
  · intro x y; rw [henc, henc]; exact C07.encF64_lt_iff x y
  · intro x y; rw [henc, henc]; exact C07.encF64_eq_iff x y

/-! ## the driver's codec is the regenerated one

`NumTy.enc` / `NumTy.dec` are what the correspondence driver evaluates next to the real
`Transform` / `Restore`; they coincide with the regenerated clauses (so a disagreement found by the
codec leg is a disagreement between keys.go and its own translation). -/
theorem driver_enc_eq_gen :
    (∀ b, NumTy.enc (.u 8) b = cUint8.enc (BitVec.ofNat 8 b)) ∧
    (∀ b, NumTy.enc (.u 16) b = cUint16.enc (BitVec.ofNat 16 b)) ∧
    (∀ b, NumTy.enc (.u 32) b = cUint32.enc (BitVec.ofNat 32 b)) ∧
    (∀ b, NumTy.enc (.u 64) b = cUint64.enc (BitVec.ofNat 64 b)) ∧
    (∀ b, NumTy.enc (.i 8) b = cInt8.enc (BitVec.ofNat 8 b)) ∧
    (∀ b, NumTy.enc (.i 16) b = cInt16.enc (BitVec.ofNat 16 b)) ∧
    (∀ b, NumTy.enc (.i 32) b = cInt32.enc (BitVec.ofNat 32 b)) ∧
    (∀ b, NumTy.enc (.i 64) b = cInt64.enc (BitVec.ofNat 64 b)) ∧
    (∀ b, NumTy.enc .f32 b = cFloat32.enc (BitVec.ofNat 32 b)) ∧
    (∀ b, NumTy.enc .f64 b = cFloat64.enc (BitVec.ofNat 64 b)) := by
  refine ⟨?_, ?_, ?_, ?_, ?_, ?_, ?_, ?_, ?_, ?_⟩ <;> intro b
  · rfl
  · rfl
  · rfl
  · rfl
  · simp only [NumTy.enc, GenCodec.enc, cInt8, encI, transform_int8_eq]; rfl
  · simp only [NumTy.enc, GenCodec.enc, cInt16, encI, transform_int16_eq]; rfl
  · simp only [NumTy.enc, GenCodec.enc, cInt32, encI, transform_int32_eq]; rfl
  · simp only [NumTy.enc, GenCodec.enc, cInt64, encI, transform_int64_eq]; rfl
  · simp only [NumTy.enc, GenCodec.enc, cFloat32, encF, transform_float32_eq]; rfl
  · simp only [NumTy.enc, GenCodec.enc, cFloat64, encF, transform_float64_eq]; rfl

/-! ## non-vacuity: the regenerated clauses on concrete values -/
example : cUint16.enc 0x1234#16 = [0x12, 0x34] := by decide
example : cInt8.enc 0xFF#8 = [0x7F] := by decide
example : cInt32.enc 0x80000000#32 = [0, 0, 0, 0] := by decide
example : cFloat32.enc 0x80000000#32 = [0x80, 0, 0, 1] := by decide
example : cFloat32.enc 0x7FC00001#32 = [0, 0, 0, 0] := by decide
example : cFloat64.enc 0xBFF0000000000000#64 = [0x40, 0x10, 0, 0, 0, 0, 0, 1] := by decide
example : cFloat32.dec [0x80, 0, 0, 1] = 0x80000000#32 := by decide
example : cFloat64.dec [0, 0, 0, 0, 0, 0, 0, 0] = 0x7FF8000000000001#64 := by decide

end ArtVerif.C07Gen
