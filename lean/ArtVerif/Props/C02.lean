/-
  C02 — forward and backward iteration are complete, duplicate-free and sorted.

  `T.all`/`T.backward` are the explicit-stack loops of tree.go (Model/Iter.lean).  For every consumer `f`
  (including one that stops early) they behave as the early-exit fold over `items t` resp. its reverse;
  `items t` is strictly ascending in the byte order of the descent keys, holds every stored pair exactly
  once with its current value, and nothing else.  The byte order of the descent keys is the declared
  order of each kind: bytewise on the originals for byte strings (`lexLt_terminated`), numeric for the
  numeric kinds (C07), the collation key order / codec byte order by definition.
-/
import ArtVerif.Props.C01
namespace ArtVerif.C02
open ArtVerif T Tree

variable {V σ : Type}

/-- All(): the consumer sees exactly `items t`, in that order, until it stops. -/
theorem all_eq_items (t : Tree V) (f : Yield σ V) (s : σ) :
    T.all t.root f s = foldUntil f s (items t) := all_eq t.root f s

/-- Backward(): exactly the reverse. -/
theorem backward_eq_reverse (t : Tree V) (f : Yield σ V) (s : σ) :
    T.backward t.root f s = foldUntil f s (items t).reverse := backward_eq t.root f s

/-- strictly ascending by descent key, hence duplicate-free -/
theorem items_strictly_sorted {tf} {t : Tree V} (h : Inv tf t) :
    (items t).Pairwise (fun a b => lexLt (tf a.1) (tf b.1) = true) := by
  have hs := items_sorted h
  have hk := h.keyed
  generalize items t = l at hs hk
  induction l with
  | nil => simp
  | cons x l ih =>
    simp only [List.pairwise_cons] at hs ⊢
    refine ⟨?_, ih hs.2 (fun it hit => hk it (List.mem_cons_of_mem _ hit))⟩
    intro b hb
    have := hs.1 b hb
    simp only [ItemLt] at this
    rwa [hk x List.mem_cons_self, hk b (List.mem_cons_of_mem _ hb)] at this

theorem items_nodup {tf} {t : Tree V} (h : Inv tf t) : (items t).Nodup := nodup_of_sorted (items_sorted h)

theorem keys_nodup {tf} {t : Tree V} (h : Inv tf t) : ((items t).map (·.1)).Nodup := by
  rw [List.nodup_iff_pairwise_ne, List.pairwise_map]
  refine List.Pairwise.imp_of_mem ?_ (items_sorted h)
  intro a b ha hb hab e
  have := key_unique h ha hb e
  subst this
  exact itemLt_irrefl a hab

/-- complete and exact: a pair is yielded iff the denoted map holds it, with the current value -/
theorem items_complete {tf} {t : Tree V} (h : Inv tf t) (k : Bytes) (v : V) :
    (k, tf k, v) ∈ items t ↔ abs t k = some v := (abs_eq_some_iff h k v).symm

theorem items_only_keyed {tf} {t : Tree V} (h : Inv tf t) (it : Item V) (hit : it ∈ items t) :
    abs t it.1 = some it.2.2 := by
  rw [abs_eq_some_iff h]
  have := h.keyed it hit
  obtain ⟨a, b, c⟩ := it
  simp at this; subst this; exact hit

/-- after any history (C01's contract) the iteration is exactly the ideal map's content -/
theorem all_after_history (tf : Bytes → Bytes) (ops : List (C01.Op V))
    (hpf : C01.PrefixFree tf (C01.insertedKeys ops)) (k : Bytes) (v : V) :
    (k, tf k, v) ∈ items (C01.runT tf ({} : Tree V) ops).1 ↔ (C01.runS (fun _ => none) ops).1 k = some v := by
  rw [items_complete (C01.inv_run tf ops hpf), (C01.refines_map tf ops hpf).2]

/-! ### declared order of byte-string trees = bytewise order of the originals -/

theorem lexLt_terminated (a b : Bytes) : lexLt (a ++ [0]) (b ++ [0]) = lexLt a b := by
  induction a generalizing b with
  | nil =>
    cases b with
    | nil => simp [lexLt]
    | cons y b =>
      simp only [List.nil_append, List.cons_append, lexLt]
      by_cases h0 : (0 : UInt8) < y
      · simp [h0]
      · have hy : ¬ y < 0 := by rw [UInt8.lt_iff_toNat_lt]; simp
        simp only [h0, hy, if_false]
        cases b <;> simp [lexLt]
  | cons x a ih =>
    cases b with
    | nil =>
      simp only [List.cons_append, List.nil_append, lexLt]
      have hx : ¬ x < 0 := by rw [UInt8.lt_iff_toNat_lt]; simp
      by_cases h0 : (0 : UInt8) < x
      · simp [hx, h0]
      · simp only [hx, h0, if_false]
        cases a <;> simp [lexLt]
    | cons y b => simp only [List.cons_append, lexLt, ih]

/-- keys come back in their original form: the byte-string restore drops the terminator -/
theorem alpha_restore (a : Bytes) : (a ++ [0]).dropLast = a := by simp

/-- non-vacuity: a tree with a node and three leaves iterates in order -/
example :
    let t : Tree Nat := ((({} : Tree Nat).insert [2, 0] [2, 0] 1).insert [1, 0] [1, 0] 2).insert [1, 5, 0] [1, 5, 0] 3
    (items t).map (·.2.2) = [2, 3, 1] := by decide

end ArtVerif.C02
