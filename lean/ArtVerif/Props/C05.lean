/-
  C05 — Minimum, Maximum, TopK and BottomK agree with the sorted content.
-/
import ArtVerif.Props.C02
namespace ArtVerif.C05
open ArtVerif T Tree

variable {V σ : Type}

theorem root_full {tf} {t : Tree V} (h : Inv tf t) (r : T V) (hr : t.root = some r) : Full r :=
  WF.full r [] (h.wf r hr)

/-- Minimum(): the first pair of ascending iteration; `none` exactly on the empty tree -/
theorem minimum_eq_head {tf} {t : Tree V} (h : Inv tf t) : t.minimum = (items t).head? := by
  unfold Tree.minimum items leaves
  cases hr : t.root with
  | none => simp
  | some r => simp [minLeaf_eq r (root_full h r hr)]

/-- Maximum(): the last pair -/
theorem maximum_eq_last {tf} {t : Tree V} (h : Inv tf t) : t.maximum = (items t).getLast? := by
  unfold Tree.maximum items leaves
  cases hr : t.root with
  | none => simp
  | some r => simp [maxLeaf_eq r (root_full h r hr)]

theorem minimum_none_iff {tf} {t : Tree V} (h : Inv tf t) : t.minimum = none ↔ items t = [] := by
  rw [minimum_eq_head h]; simp

theorem maximum_none_iff {tf} {t : Tree V} (h : Inv tf t) : t.maximum = none ↔ items t = [] := by
  rw [maximum_eq_last h]; simp

/-- BottomK(n): the first `min n size` pairs of ascending iteration, for every `n` -/
theorem bottomK_eq_take (t : Tree V) (n : Nat) (f : Yield σ V) (s : σ) :
    T.bottomK t.root n f s = foldUntil f s ((items t).take n) := bottomK_eq t.root n f s

/-- TopK(n): the first `min n size` pairs of descending iteration, for every `n` -/
theorem topK_eq_take_reverse (t : Tree V) (n : Nat) (f : Yield σ V) (s : σ) :
    T.topK t.root n f s = foldUntil f s ((items t).reverse.take n) := topK_eq t.root n f s

theorem take_length_min {α} (l : List α) (n : Nat) : (l.take n).length = min n l.length := by simp

example :
    let t : Tree Nat := ((({} : Tree Nat).insert [2, 0] [2, 0] 1).insert [1, 0] [1, 0] 2).insert [1, 5, 0] [1, 5, 0] 3
    t.minimum = some ([1, 0], [1, 0], 2) ∧ t.maximum = some ([2, 0], [2, 0], 1) ∧ ({} : Tree Nat).minimum = none := by
  decide

end ArtVerif.C05
