/-
  C02 on raw nodes: `All()` / `Backward()` with the per-class enumeration loops of tree.go.

  `Model/RIter.lean` has the stack loops of `all()` and `backward()` over RAW nodes: for a node4 / node16 the
  loop over `children[0 .. childrenLen)`, for a node48 the scan of the 256 index bytes, for a node256 the scan of
  the 256 slots, in the direction the Go code scans them.  `Proofs/RIterSim.lean` shows that on a tree whose raw
  nodes satisfy `Raw.inv` these loops never pop a nil reference and run in lockstep with Layer T.  Composed with
  `C11RawTree.run_sim` (every history keeps `Raw.inv` on every node) and with C02 (Layer T iterates over the
  in-order leaves): after ANY history from the empty tree, the raw-node tree's All() hands the consumer exactly
  the stored pairs in ascending order of the descent key, until the consumer stops, and Backward() the reverse.
-/
import ArtVerif.Proofs.RIterSim
import ArtVerif.Props.C02
import ArtVerif.Props.C11RawTree
namespace ArtVerif.C02Raw
open ArtVerif ArtVerif.T ArtVerif.Tree ArtVerif.C01 ArtVerif.C11RawTree

variable {V σ : Type}

/-- the raw tree after a history: every node well-formed, and its abstraction is Layer T's tree after the same history -/
theorem raw_state (tf : Bytes → Bytes) (ops : List (Op V)) (hpf : PrefixFree tf (insertedKeys ops)) :
    (runR tf ({} : RTree V) ops).1.Good ∧ (runR tf ({} : RTree V) ops).1.abs = (runT tf ({} : Tree V) ops).1 := by
  have hgood : ({} : RTree V).Good := by intro r hr; cases hr
  have hsim := run_sim tf (insertedKeys ops) hpf ops ({} : RTree V) hgood (inv_empty tf)
    (by intro it hit; simp [Tree.items, T.leaves, RTree.abs] at hit) (fun k hk => hk)
  have he : ({} : RTree V).abs = ({} : Tree V) := rfl
  rw [he] at hsim
  exact ⟨hsim.1, hsim.2.1⟩

/-- the per-class loops append the entries of the abstract table, in ascending / descending byte order, and never a
    nil reference -/
theorem push_loops_enumerate_the_table {C : Type} (r : Raw C) (hinv : r.inv = true) :
    r.pushAsc = r.abs.map (fun p => some p.2) ∧ r.pushDesc = (r.abs.map (fun p => some p.2)).reverse := by
  rw [Raw.pushDesc_eq, Raw.pushAsc_eq r hinv]; exact ⟨rfl, rfl⟩

/-- All() on a raw tree with well-formed nodes: never faults, and is Layer T's All() -/
theorem raw_all_eq_items (t : RTree V) (hg : t.Good) (f : Yield σ V) (s : σ) :
    t.all f s = some (foldUntil f s (items t.abs)) := by
  rw [RIterSim.rtree_all_sim t hg, C02.all_eq_items]

theorem raw_backward_eq_reverse (t : RTree V) (hg : t.Good) (f : Yield σ V) (s : σ) :
    t.backward f s = some (foldUntil f s (items t.abs).reverse) := by
  rw [RIterSim.rtree_backward_sim t hg, C02.backward_eq_reverse]

/-- after any history inside C01's contract: the raw tree's All() is the early-exit fold over Layer T's items,
    which are exactly the ideal map's pairs (`C02.all_after_history`), strictly ascending (`C02.items_strictly_sorted`) -/
theorem raw_all_after_history (tf : Bytes → Bytes) (ops : List (Op V)) (hpf : PrefixFree tf (insertedKeys ops))
    (f : Yield σ V) (s : σ) :
    (runR tf ({} : RTree V) ops).1.all f s = some (foldUntil f s (items (runT tf ({} : Tree V) ops).1)) ∧
    (runR tf ({} : RTree V) ops).1.backward f s = some (foldUntil f s (items (runT tf ({} : Tree V) ops).1).reverse) := by
  obtain ⟨hg, ha⟩ := raw_state tf ops hpf
  rw [raw_all_eq_items _ hg, raw_backward_eq_reverse _ hg, ha]
  exact ⟨rfl, rfl⟩

/-! non-vacuity: a node16 (6 children) below a node4, iterated through the raw loops -/
def hist : List (Op Nat) :=
  [.ins [7, 1, 0] 1, .ins [7, 2, 0] 2, .ins [7, 3, 0] 3, .ins [7, 4, 0] 4, .ins [7, 5, 0] 5, .ins [7, 6, 0] 6,
   .ins [9, 0] 7, .del [7, 3, 0]]

example : ((runR id ({} : RTree Nat) hist).1.all (collect 0) []).map (·.reverse.map (·.2.2)) = some [1, 2, 4, 5, 6, 7] := by
  decide
example : ((runR id ({} : RTree Nat) hist).1.backward (collect 0) []).map (·.reverse.map (·.2.2)) = some [7, 6, 5, 4, 2, 1] := by
  decide
example : ((runR id ({} : RTree Nat) hist).1.all (collect 2) []).map (·.reverse.map (·.2.2)) = some [1, 2] := by
  decide

end ArtVerif.C02Raw
