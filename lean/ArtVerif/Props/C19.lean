/-
  C19 — the checked-in generated trees are what the generator produces.

  `Gen/Template.lean` holds, regenerated on every run, the bytes of cmd/go-art/tree.tmpl, the five configuration
  records of cmd/go-art/main.go and the bytes of trees.go.  `Tmpl.render` (Model/Template.lean) is a model of the
  template constructs the template uses.  The theorem is a finite statement about the working tree, closed by
  kernel evaluation (no native_decide): rendering the template with the five records gives trees.go up to
  whitespace – exactly what gofmt may change.  Byte-for-byte equality is then established outside Lean by running
  the real generator and gofmt in a scratch copy and comparing with trees.go and with `render`'s output (leg of
  ./check C19).
-/
import ArtVerif.Model.Template
import ArtVerif.Gen.Template
namespace ArtVerif.C19
open ArtVerif.Tmpl

def cfgs : List Cfg := Gen.treeConfigs.map (fun rec => rec.map (fun (a, b) => (strBytes a, strBytes b)))

/-- every `{{…}}` action in the template is one of the constructs the model implements -/
theorem template_in_modelled_fragment : wellFormedToks (tokenize false [] Gen.treeTmplBytes) = true := by
  decide +kernel

/-- there are five instantiations -/
theorem five_instantiations : cfgs.length = 5 := by decide +kernel

set_option maxRecDepth 100000 in
/-- the template rendered with the generator's configuration is the checked-in trees.go, modulo whitespace -/
theorem rendered_eq_checked_in :
    (strip (render Gen.treeTmplBytes cfgs) == strip Gen.treesGoBytes) = true := by
  decide +kernel

end ArtVerif.C19
