/-
  C04 on raw nodes: `lowestCommonParent` descending through `Raw.find` (the real `findChild`) with
  `prefixMismatch` reading the raw header and `minimum()`, then `filter` with the per-class loops.  On well-formed
  raw nodes: Layer T's Prefix (`RIterSim.rtree_prefix_sim`), which C04 proves to be the filter by "starts with p".
-/
import ArtVerif.Props.C02Raw
import ArtVerif.Props.C04
namespace ArtVerif.C04Raw
open ArtVerif ArtVerif.T ArtVerif.Tree ArtVerif.C01 ArtVerif.C11RawTree

variable {V σ : Type}

theorem raw_prefix_eq_filter (t : RTree V) (hg : t.Good) (hinv : Inv id t.abs) (p : Bytes) (f : Yield σ V) (s : σ) :
    t.prefixBytes p f s = some (foldUntil f s ((items t.abs).filter (fun it => hasPrefix it.1.dropLast p))) := by
  rw [RIterSim.rtree_prefix_sim t hg, C04.prefix_eq_filter hinv]

theorem raw_prefix_after_history (ops : List (Op V)) (hpf : PrefixFree id (insertedKeys ops)) (p : Bytes)
    (f : Yield σ V) (s : σ) :
    (runR id ({} : RTree V) ops).1.prefixBytes p f s =
      some (foldUntil f s ((items (runT id ({} : Tree V) ops).1).filter (fun it => hasPrefix it.1.dropLast p))) := by
  obtain ⟨hg, ha⟩ := C02Raw.raw_state id ops hpf
  rw [raw_prefix_eq_filter _ hg (ha ▸ inv_run id ops hpf), ha]

example : ((runR id ({} : RTree Nat) C02Raw.hist).1.prefixBytes [7] (collect 0) []).map (·.reverse.map (·.2.2))
    = some [1, 2, 4, 5, 6] := by decide
example : ((runR id ({} : RTree Nat) C02Raw.hist).1.prefixBytes [8] (collect 0) []).map (·.reverse.map (·.2.2))
    = some [] := by decide

end ArtVerif.C04Raw
