/-
  Go primitives the regenerated modules refer to.
-/
namespace ArtVerif

/-- `bits.TrailingZeros32` (32 for zero). -/
def ctz32 (x : BitVec 32) : Nat :=
  (List.range 32).find? (fun i => x.getLsbD i) |>.getD 32

end ArtVerif
