/-
  Layer R∘T, continued: the push iterators of tree.go over RAW nodes.

  `all`, `backward`, `filter`, `rangeScan` of tree.go contain, for each of the four node classes, their own
  loop over the node's storage that appends children to the explicit stack:

      node4 / node16   for i := int(childrenLen)-1; i >= 0; i--  { q = append(q, children[i]) }          (all, filter, rangeScan)
                       for i := uint8(0); i < childrenLen; i++    { q = append(q, children[i]) }          (backward)
      node48           for i := 255; i >= 0; i--  { idx := keys[i]; if idx == 0 { continue }; q = append(q, children[idx-1]) }
      node256          for i := 255; i >= 0; i--  { if children[i].pointer == nil { continue }; q = append(q, children[i]) }

  `Raw.pushDesc` / `Raw.pushAsc` are those loops on the raw images of Model/Raw.lean (the list is what is
  appended, in the order of appending); an appended nil reference is `none`, and popping it – the Go code would
  dereference a nil node – makes the loop fault (`none` result).  The loops `RT.allLoop`, `RT.backLoop`,
  `RT.rangeLoop` and `RT.lowestCommonParent` are those of Model/Iter.lean with the raw node in place of the
  abstract child table: the header is read through `hdr` / `inlOf`, `findChild` is `Raw.find`, `minimum()` is
  `RT.minimum`.  `Proofs/RIterSim.lean` shows that on trees whose raw nodes satisfy `Raw.inv` they never fault and
  do exactly what Layer T does on the abstraction.
-/
import ArtVerif.Model.RTree
import ArtVerif.Model.Iter
namespace ArtVerif
open Gen

namespace Raw
variable {C : Type}

/-- what `backward()` appends for this node, in the order of appending (ascending lane / byte) -/
def pushAsc (r : Raw C) : List (Option C) :=
  match r with
  | n4 _ len _ slots => (List.range len).map fun i => (slots[i]?).join
  | n16 _ len _ slots => (List.range len).map fun i => (slots[i]?).join
  | n48 _ _ idx slots =>
    (List.range 256).filterMap fun i =>
      let p : UInt8 := idx.getD i 0
      if p != 0 then some ((slots[p.toNat - 1]?).join) else none
  | n256 _ _ slots =>
    (List.range 256).filterMap fun i =>
      match (slots[i]?).join with
      | some c => some (some c)
      | none => none

/-- what `all()` / `filter()` / `rangeScan()` append, in the order of appending (descending lane / byte) -/
def pushDesc (r : Raw C) : List (Option C) :=
  match r with
  | n4 _ len _ slots => (List.range len).reverse.map fun i => (slots[i]?).join
  | n16 _ len _ slots => (List.range len).reverse.map fun i => (slots[i]?).join
  | n48 _ _ idx slots =>
    (List.range 256).reverse.filterMap fun i =>
      let p : UInt8 := idx.getD i 0
      if p != 0 then some ((slots[p.toNat - 1]?).join) else none
  | n256 _ _ slots =>
    (List.range 256).reverse.filterMap fun i =>
      match (slots[i]?).join with
      | some c => some (some c)
      | none => none

end Raw

namespace RT
open Raw Compose T
variable {V σ : Type}

/-- number of nodes and leaves along `abs` (fuel for the stack loops; indexed by a height bound like `absRT`) -/
def nodes : Nat → RT V → Nat
  | _, .leaf .. => 1
  | 0, .node _ => 1
  | f+1, .node r => (r.abs.map fun p => nodes f p.2).sum + 1

/-- `all` / `filter`: the stack holds node references (`none` = a nil reference that was appended); the top is the head. -/
def allLoop (pred : Item V → Bool) (f : Yield σ V) : Nat → List (Option (RT V)) → σ → Option σ
  | 0, _, s => some s
  | _+1, [], s => some s
  | _+1, none :: _, _ => none
  | fuel+1, some (.leaf k tk v) :: rest, s =>
    if pred (k, tk, v) then
      match f s (k, tk, v) with
      | (s', true) => allLoop pred f fuel rest s'
      | (s', false) => some s'
    else allLoop pred f fuel rest s
  | fuel+1, some (.node r) :: rest, s => allLoop pred f fuel (r.pushDesc.reverse ++ rest) s

/-- `backward` -/
def backLoop (f : Yield σ V) : Nat → List (Option (RT V)) → σ → Option σ
  | 0, _, s => some s
  | _+1, [], s => some s
  | _+1, none :: _, _ => none
  | fuel+1, some (.leaf k tk v) :: rest, s =>
    match f s (k, tk, v) with
    | (s', true) => backLoop f fuel rest s'
    | (s', false) => some s'
  | fuel+1, some (.node r) :: rest, s => backLoop f fuel (r.pushAsc.reverse ++ rest) s

/-- `rangeScan`: every stack entry carries the depth of its own path -/
def rangeLoop (start stop search : Bytes) (f : Yield σ V) : Nat → List (Option (RT V) × Nat) → σ → Option σ
  | 0, _, s => some s
  | _+1, [], s => some s
  | _+1, (none, _) :: _, _ => none
  | fuel+1, (some (.leaf k tk v), _) :: rest, s =>
    if lexLt k start then rangeLoop start stop search f fuel rest s
    else if lexLt stop k then some s
    else
      match f s (k, tk, v) with
      | (s', true) => rangeLoop start stop search f fuel rest s'
      | (s', false) => some s'
  | fuel+1, (some (.node r), d) :: rest, s =>
    if r.hdr.plen > 0 ∧ d < search.length ∧
        lcpLen (inlOf r.hdr) ((search.drop d).take Gen.maxPrefixLen) = 0 then
      rangeLoop start stop search f fuel rest s
    else
      rangeLoop start stop search f fuel ((r.pushDesc.reverse.map fun c => (c, d + r.hdr.plen + 1)) ++ rest) s

/-- `lowestCommonParent`; `hf` is the fuel of `minimum()` -/
def lowestCommonParent (hf : Nat) : Nat → RT V → Bytes → Nat → Option (RT V)
  | 0, _, _, _ => none
  | fuel+1, t, p, d =>
    match t with
    | .leaf .. => some t
    | .node r =>
      let plen := r.hdr.plen
      let idx := if plen ≠ 0 then T.prefixMismatch plen (inlOf r.hdr) (minTKey hf t) p d else 0
      if plen ≠ 0 ∧ d + idx ≥ p.length then some t
      else if plen ≠ 0 ∧ idx < plen then none
      else
        let d' := d + plen
        match p[d']? with
        | none => some t
        | some b =>
          match r.find b with
          | none => none
          | some c => lowestCommonParent hf fuel c p (d' + 1)

end RT

namespace RTree
open T
variable {V σ : Type}

def stackFuel (r : RT V) : Nat := RT.nodes r.height r + 1

def all (t : RTree V) (f : Yield σ V) (s : σ) : Option σ :=
  match t.root with
  | none => some s
  | some r => RT.allLoop (fun _ => true) f (stackFuel r) [some r] s

def backward (t : RTree V) (f : Yield σ V) (s : σ) : Option σ :=
  match t.root with
  | none => some s
  | some r => RT.backLoop f (stackFuel r) [some r] s

def filterFrom (root : Option (RT V)) (pred : Item V → Bool) (f : Yield σ V) (s : σ) : Option σ :=
  match root with
  | none => some s
  | some r => RT.allLoop pred f (stackFuel r) [some r] s

def rangeScan (t : RTree V) (start stop tstart tstop : Bytes) (f : Yield σ V) (s : σ) : Option σ :=
  match t.root with
  | none => some s
  | some r =>
    let search := tstart.take (lcpLen tstart tstop)
    RT.rangeLoop start stop search f (stackFuel r) [(some r, 0)] s

def bottomK (t : RTree V) (n : Nat) (f : Yield σ V) (s : σ) : Option σ :=
  if n = 0 then some s else (all t (limitYield f) (s, n)).map (·.1)

def topK (t : RTree V) (n : Nat) (f : Yield σ V) (s : σ) : Option σ :=
  if n = 0 then some s else (backward t (limitYield f) (s, n)).map (·.1)

/-- `Range` of every kind: order the bounds, scan -/
def rangeBytes (t : RTree V) (a b : Bytes) (f : Yield σ V) (s : σ) : Option σ :=
  if lexLt b a then rangeScan t b a b a f s else rangeScan t a b a b f s

/-- `Prefix` of byte-string trees (`p` without terminator) -/
def prefixBytes (t : RTree V) (p : Bytes) (f : Yield σ V) (s : σ) : Option σ :=
  if p = [] then all t f s
  else
    filterFrom (t.root.bind fun r => RT.lowestCommonParent r.height (p.length + 2) r p 0)
      (fun it => hasPrefix it.1.dropLast p) f s

end RTree
end ArtVerif
