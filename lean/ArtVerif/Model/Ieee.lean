/-
  IEEE-754 binary32 / binary64 bit-pattern facts used both by the hand-written codec model
  (Model/Codec) and by the definitions regenerated from keys.go (Gen/Keys): which patterns
  `math.IsInf`, `math.IsNaN`, `math.Inf`, `math.NaN` denote.  These few lines are the trusted
  reading of package math (cross-checked on every run by the codec correspondence leg).
-/
namespace ArtVerif

def signBit (w : Nat) : BitVec w := BitVec.twoPow w (w-1)

structure FloatFmt (w : Nat) where
  expMask : BitVec w
  mantMask : BitVec w
  canonNaN : BitVec w   -- what `K(math.NaN())` is in this format

def fmt32 : FloatFmt 32 := ⟨0x7F800000#32, 0x007FFFFF#32, 0x7FC00000#32⟩
def fmt64 : FloatFmt 64 := ⟨0x7FF0000000000000#64, 0x000FFFFFFFFFFFFF#64, 0x7FF8000000000001#64⟩

def FloatFmt.isNaN {w} (f : FloatFmt w) (x : BitVec w) : Bool :=
  (x &&& f.expMask) == f.expMask && (x &&& f.mantMask) != 0#w
def FloatFmt.posInf {w} (f : FloatFmt w) : BitVec w := f.expMask
def FloatFmt.negInf {w} (f : FloatFmt w) : BitVec w := f.expMask ||| signBit w

end ArtVerif
