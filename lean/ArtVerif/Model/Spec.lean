/-
  Layer S: the specification — an ideal ordered map.
  Keys are identified by `id` (canonical literal of the original key) and ordered by `ord`,
  the declared order given as a list of integers compared lexicographically
  (bytes for byte strings and sort keys, the numeric rank for numbers; never the library's encoding).
-/
import ArtVerif.Model.Bytes
namespace ArtVerif

structure SKey where
  id : String
  ord : List Int
  orig : Bytes := []      -- original bytes (byte-string and collation kinds; for Prefix)
  deriving Repr, Inhabited

def lexLtInt : List Int → List Int → Bool
  | [], [] => false
  | [], _ :: _ => true
  | _ :: _, [] => false
  | a :: as, b :: bs => if a < b then true else if b < a then false else lexLtInt as bs

def lexLeInt (a b : List Int) : Bool := !lexLtInt b a

abbrev Spec := List (SKey × Nat)

namespace Spec

def find (s : Spec) (k : SKey) : Option Nat :=
  (List.find? (fun e => e.1.id == k.id) s).map (·.2)

def insertSorted (k : SKey) (v : Nat) : Spec → Spec
  | [] => [(k, v)]
  | e :: rest => if lexLtInt k.ord e.1.ord then (k, v) :: e :: rest else e :: insertSorted k v rest

def insert (s : Spec) (k : SKey) (v : Nat) : Spec :=
  if s.any (fun e => e.1.id == k.id) then
    s.map (fun e => if e.1.id == k.id then (e.1, v) else e)
  else insertSorted k v s

def erase (s : Spec) (k : SKey) : Spec × Bool :=
  if s.any (fun e => e.1.id == k.id) then (s.filter (fun e => e.1.id != k.id), true) else (s, false)

def range (s : Spec) (a b : SKey) : Spec :=
  let (lo, hi) := if lexLtInt b.ord a.ord then (b, a) else (a, b)
  s.filter (fun e => lexLeInt lo.ord e.1.ord && lexLeInt e.1.ord hi.ord)

/-- `Range(a, "")` on byte-string trees: up to the largest stored key. -/
def rangeFrom (s : Spec) (a : SKey) : Spec :=
  s.filter (fun e => lexLeInt a.ord e.1.ord)

def withPrefix (s : Spec) (p : Bytes) : Spec :=
  s.filter (fun e => hasPrefix e.1.orig p)

end Spec
end ArtVerif
