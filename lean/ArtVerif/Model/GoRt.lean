/-
  Go run-time behaviour the regenerated loop functions (`Gen/Loops.lean`) refer to: indexing a byte slice or
  array panics outside `0 ≤ i < len` (`none`).
-/
import ArtVerif.Model.Bytes
namespace ArtVerif

/-- `a[i]` for a Go `int` index -/
def idxB (a : Bytes) (i : Int) : Option UInt8 := if 0 ≤ i then a[i.toNat]? else none

end ArtVerif
