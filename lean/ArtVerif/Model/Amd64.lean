/-
  A small executable model of the amd64 instructions used by node16_amd64.s (Go assembler syntax:
  sources first, destination last).  The program itself is NOT written here: it is regenerated from
  the .s file on every run (`Gen/Asm.lean`) as a list of `Line`s; this file gives those lines a
  meaning.  General registers are 64 bits wide; byte and word instructions write the low 8 / 16 bits
  and leave the rest of the register as it was, `PMOVMSKB` zero-extends, `MOVQ`/`MOVD` (an alias of
  MOVQ in the Go assembler) move 64 bits (into an X register: the upper half is cleared).
  Anything the model has no meaning for makes `exec` return `none` (stuck) — it never defaults.

  Trusted: this reading of the Intel manual for sixteen instructions.  Checked on every run: the
  driver evaluates `exec` on the regenerated programs next to the real routines (correspondence leg
  `fn`), so a wrong reading shows as a difference on the real CPU.
-/
namespace ArtVerif.Amd64

inductive Reg
  | AX | BX | CX | DX | SI | DI | R8 | R9 | R10 | R11 | R12 | R13 | R14 | R15
  deriving DecidableEq, Repr

inductive Opnd
  | reg (r : Reg)                     -- a general register; the access width is the mnemonic's
  | xmm (n : Nat)
  | imm (v : Int)
  | mem (base : Reg)                  -- (R)
  | arg (name : String) (off : Nat)   -- name+off(FP)
  | lbl (name : String)
  deriving Repr

inductive Mn
  | MOVQ | MOVD | MOVB | PXOR | VMOVDQU | PSHUFB | PCMPGTB | PCMPEQB | PMOVMSKB
  | SALW | SUBW | ANDW | CMPW | JEQ | TZCNTW | RET
  deriving DecidableEq, Repr

inductive Line
  | ins (mn : Mn) (args : List Opnd)
  | label (name : String)
  deriving Repr

structure St where
  ax : BitVec 64
  bx : BitVec 64
  cx : BitVec 64
  dx : BitVec 64
  si : BitVec 64
  di : BitVec 64
  r8 : BitVec 64
  r9 : BitVec 64
  r10 : BitVec 64
  r11 : BitVec 64
  r12 : BitVec 64
  r13 : BitVec 64
  r14 : BitVec 64
  r15 : BitVec 64
  x0 : BitVec 128
  x1 : BitVec 128
  x2 : BitVec 128
  x3 : BitVec 128
  zf : Bool
  ret : BitVec 64      -- the result slot ret+16(FP)

/-- The caller's frame: `keys+0(FP)` (a pointer), `childrenLen+8(FP)`, `b+9(FP)`, and the sixteen bytes the pointer points to. -/
structure Frame where
  keysPtr : BitVec 64
  keys : BitVec 128     -- lane i = bits 8i .. 8i+7 (little endian, as VMOVDQU loads them)
  len : BitVec 8
  b : BitVec 8

def St.get (s : St) : Reg → BitVec 64
  | .AX => s.ax | .BX => s.bx | .CX => s.cx | .DX => s.dx | .SI => s.si | .DI => s.di
  | .R8 => s.r8 | .R9 => s.r9 | .R10 => s.r10 | .R11 => s.r11 | .R12 => s.r12 | .R13 => s.r13
  | .R14 => s.r14 | .R15 => s.r15

def St.set (s : St) (r : Reg) (v : BitVec 64) : St :=
  match r with
  | .AX => { s with ax := v } | .BX => { s with bx := v } | .CX => { s with cx := v } | .DX => { s with dx := v }
  | .SI => { s with si := v } | .DI => { s with di := v } | .R8 => { s with r8 := v } | .R9 => { s with r9 := v }
  | .R10 => { s with r10 := v } | .R11 => { s with r11 := v } | .R12 => { s with r12 := v } | .R13 => { s with r13 := v }
  | .R14 => { s with r14 := v } | .R15 => { s with r15 := v }

def St.getX (s : St) : Nat → Option (BitVec 128)
  | 0 => some s.x0 | 1 => some s.x1 | 2 => some s.x2 | 3 => some s.x3 | _ => none

def St.setX (s : St) (n : Nat) (v : BitVec 128) : Option St :=
  match n with
  | 0 => some { s with x0 := v } | 1 => some { s with x1 := v } | 2 => some { s with x2 := v } | 3 => some { s with x3 := v }
  | _ => none

/-- write the low 16 / 8 bits of a register, keeping the rest -/
def setLow16 (old : BitVec 64) (v : BitVec 16) : BitVec 64 := (old &&& 0xFFFFFFFFFFFF0000#64) ||| v.setWidth 64
def setLow8 (old : BitVec 64) (v : BitVec 8) : BitVec 64 := (old &&& 0xFFFFFFFFFFFFFF00#64) ||| v.setWidth 64

/-! ### vectors of sixteen bytes -/

def lane (x : BitVec 128) (i : Nat) : BitVec 8 := x.extractLsb' (8 * i) 8

def pack (f : Nat → BitVec 8) : BitVec 128 :=
  f 15 ++ f 14 ++ f 13 ++ f 12 ++ f 11 ++ f 10 ++ f 9 ++ f 8 ++ f 7 ++ f 6 ++ f 5 ++ f 4 ++ f 3 ++ f 2 ++ f 1 ++ f 0

def boolByte (c : Bool) : BitVec 8 := if c then 0xFF#8 else 0x00#8

/-- `PSHUFB ctrl, dst`: byte i of the result is 0 if bit 7 of control byte i is set, else byte (control & 15) of dst. -/
def pshufb (dst ctrl : BitVec 128) : BitVec 128 :=
  pack fun i =>
    let c := lane ctrl i
    if c.msb then 0#8 else (dst >>> ((c &&& 0x0F#8).setWidth 128 * 8#128)).setWidth 8

def pcmpeqb (dst src : BitVec 128) : BitVec 128 := pack fun i => boolByte (lane dst i == lane src i)
/-- signed byte-wise `dst > src` -/
def pcmpgtb (dst src : BitVec 128) : BitVec 128 := pack fun i => boolByte ((lane src i).slt (lane dst i))

def bit (c : Bool) (i : Nat) : BitVec 64 := if c then BitVec.twoPow 64 i else 0#64
def pmovmskb (x : BitVec 128) : BitVec 64 :=
  bit (lane x 0).msb 0 ||| bit (lane x 1).msb 1 ||| bit (lane x 2).msb 2 ||| bit (lane x 3).msb 3 |||
  bit (lane x 4).msb 4 ||| bit (lane x 5).msb 5 ||| bit (lane x 6).msb 6 ||| bit (lane x 7).msb 7 |||
  bit (lane x 8).msb 8 ||| bit (lane x 9).msb 9 ||| bit (lane x 10).msb 10 ||| bit (lane x 11).msb 11 |||
  bit (lane x 12).msb 12 ||| bit (lane x 13).msb 13 ||| bit (lane x 14).msb 14 ||| bit (lane x 15).msb 15

/-- `TZCNT` on 16 bits: the number of trailing zero bits, 16 for 0. -/
def tzcnt16 (x : BitVec 16) : BitVec 16 :=
  if x.getLsbD 0 then 0 else if x.getLsbD 1 then 1 else if x.getLsbD 2 then 2 else if x.getLsbD 3 then 3
  else if x.getLsbD 4 then 4 else if x.getLsbD 5 then 5 else if x.getLsbD 6 then 6 else if x.getLsbD 7 then 7
  else if x.getLsbD 8 then 8 else if x.getLsbD 9 then 9 else if x.getLsbD 10 then 10 else if x.getLsbD 11 then 11
  else if x.getLsbD 12 then 12 else if x.getLsbD 13 then 13 else if x.getLsbD 14 then 14 else if x.getLsbD 15 then 15
  else 16

/-- a 16-bit source operand: register or immediate -/
def src16 (s : St) : Opnd → Option (BitVec 16)
  | .reg r => some ((s.get r).setWidth 16)
  | .imm v => some (BitVec.ofInt 16 v)
  | _ => none

/-- One instruction.  `none` = no meaning in this model. (Jumps and RET are handled by `exec`.) -/
def step (fr : Frame) (s : St) (mn : Mn) (args : List Opnd) : Option St :=
  match mn, args with
  -- 64-bit moves (MOVD is the Go assembler's alias of MOVQ)
  | .MOVQ, [.arg _ 0, .reg d] | .MOVD, [.arg _ 0, .reg d] => some (s.set d fr.keysPtr)
  | .MOVQ, [.imm v, .reg d] | .MOVD, [.imm v, .reg d] => some (s.set d (BitVec.ofInt 64 v))
  | .MOVQ, [.reg r, .reg d] | .MOVD, [.reg r, .reg d] => some (s.set d (s.get r))
  | .MOVQ, [.reg r, .xmm n] | .MOVD, [.reg r, .xmm n] => s.setX n ((s.get r).setWidth 128)
  | .MOVQ, [.reg r, .arg _ 16] | .MOVD, [.reg r, .arg _ 16] => some { s with ret := s.get r }
  -- byte moves keep bits 8..63 of the destination
  | .MOVB, [.arg _ 8, .reg d] => some (s.set d (setLow8 (s.get d) fr.len))
  | .MOVB, [.arg _ 9, .reg d] => some (s.set d (setLow8 (s.get d) fr.b))
  | .MOVB, [.imm v, .reg d] => some (s.set d (setLow8 (s.get d) (BitVec.ofInt 8 v)))
  -- vectors
  | .VMOVDQU, [.mem r, .xmm n] => if s.get r == fr.keysPtr then s.setX n fr.keys else none
  | .PXOR, [.xmm a, .xmm d] => do s.setX d ((← s.getX d) ^^^ (← s.getX a))
  | .PSHUFB, [.xmm c, .xmm d] => do s.setX d (pshufb (← s.getX d) (← s.getX c))
  | .PCMPEQB, [.xmm a, .xmm d] => do s.setX d (pcmpeqb (← s.getX d) (← s.getX a))
  | .PCMPGTB, [.xmm a, .xmm d] => do s.setX d (pcmpgtb (← s.getX d) (← s.getX a))
  | .PMOVMSKB, [.xmm a, .reg d] => do some (s.set d (pmovmskb (← s.getX a)))
  -- 16-bit arithmetic: the count of a shift is taken modulo 32, results are written to the low word
  | .SALW, [.reg c, .reg d] =>
      let cnt := ((s.get c).setWidth 8 &&& 0x1F#8)
      let v := (s.get d).setWidth 16 <<< cnt
      some { (s.set d (setLow16 (s.get d) v)) with zf := v == 0#16 }
  | .SUBW, [a, .reg d] => do
      let v := (s.get d).setWidth 16 - (← src16 s a)
      some { (s.set d (setLow16 (s.get d) v)) with zf := v == 0#16 }
  | .ANDW, [a, .reg d] => do
      let v := (s.get d).setWidth 16 &&& (← src16 s a)
      some { (s.set d (setLow16 (s.get d) v)) with zf := v == 0#16 }
  | .CMPW, [.reg a, b] => do
      some { s with zf := (s.get a).setWidth 16 == (← src16 s b) }
  | .TZCNTW, [.reg a, .reg d] =>
      let v := tzcnt16 ((s.get a).setWidth 16)
      some { (s.set d (setLow16 (s.get d) v)) with zf := v == 0#16 }
  | _, _ => none

def findLabel (name : String) : List Line → Option (List Line)
  | [] => none
  | .label n :: rest => if n == name then some rest else findLabel name rest
  | _ :: rest => findLabel name rest

/-- Run from the first line; jumps look the label up in the whole routine. `fuel` bounds the number of steps. -/
def exec (routine : List Line) (fr : Frame) : Nat → List Line → St → Option (BitVec 64)
  | 0, _, _ => none
  | _ + 1, [], _ => none
  | fuel + 1, .label _ :: rest, s => exec routine fr fuel rest s
  | _ + 1, .ins .RET _ :: _, s => some s.ret
  | fuel + 1, .ins .JEQ [.lbl l] :: rest, s =>
      if s.zf then (match findLabel l routine with | some tgt => exec routine fr fuel tgt s | none => none)
      else exec routine fr fuel rest s
  | fuel + 1, .ins mn args :: rest, s =>
      match step fr s mn args with
      | some s' => exec routine fr fuel rest s'
      | none => none

def run (routine : List Line) (fr : Frame) (s : St) : Option (BitVec 64) := exec routine fr 64 routine s

end ArtVerif.Amd64
