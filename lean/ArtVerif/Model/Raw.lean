/-
  Layer R: raw images of the four inner-node classes of node.go and the
  child-table operations on them, statement for statement.

  * `keys` of a node4 is the SWAR word; every access goes through the
    regenerated `Gen.*` definitions (translated from node4.go).
  * `searchNode16`/`insertPosNode16` are modelled lane-wise (the assembly and
    the portable fallback are tied to this by correspondence).
  * An operation that replaces the node takes its new image from the pool;
    the model uses the zero image (that pooled images are zero is C12's
    invariant).
-/
import ArtVerif.Model.Bytes
import ArtVerif.Gen.Consts
import ArtVerif.Gen.Node4
namespace ArtVerif

open Gen

structure Hdr where
  plen : Nat := 0
  pfx : Bytes := List.replicate 10 0     -- the raw 10-byte array
  deriving DecidableEq, Repr

/-- Raw image of an inner node. `len` is the `childrenLen` byte. -/
inductive Raw (C : Type) where
  | n4 (h : Hdr) (len : Nat) (keys : BitVec 32) (slots : List (Option C))      -- 4 slots
  | n16 (h : Hdr) (len : Nat) (keys : Bytes) (slots : List (Option C))         -- 16 lanes / slots
  | n48 (h : Hdr) (len : Nat) (idx : Bytes) (slots : List (Option C))          -- 256 index bytes / 48 slots
  | n256 (h : Hdr) (len : Nat) (slots : List (Option C))                       -- 256 slots
  deriving Repr

namespace Raw
variable {C : Type}

def zero4 : Raw C := .n4 {} 0 0#32 (List.replicate 4 none)
def zero16 : Raw C := .n16 {} 0 (List.replicate 16 0) (List.replicate 16 none)
def zero48 : Raw C := .n48 {} 0 (List.replicate 256 0) (List.replicate 48 none)
def zero256 : Raw C := .n256 {} 0 (List.replicate 256 none)

def hdr : Raw C → Hdr
  | n4 h .. => h | n16 h .. => h | n48 h .. => h | n256 h .. => h

def len : Raw C → Nat
  | n4 _ l .. => l | n16 _ l .. => l | n48 _ l .. => l | n256 _ l .. => l

def cls : Raw C → Nat
  | n4 .. => 4 | n16 .. => 16 | n48 .. => 48 | n256 .. => 256

def b8 (b : UInt8) : BitVec 8 := b.toBitVec
def u8 (b : BitVec 8) : UInt8 := UInt8.ofBitVec b

/-- Go `copy(dst[i+1:], src[i:])` on one array: shift right by one from `i`, dropping the last. -/
def shiftUp {α} (l : List α) (i : Nat) : List α :=
  match l[i]? with
  | some x => (l.take i ++ x :: l.drop i).take l.length
  | none => l

/-- Go `copy(dst[i:], src[i+1:])` on one array: shift left by one onto `i`; the last element stays. -/
def shiftDown {α} (l : List α) (i : Nat) : List α :=
  match l.getLast? with
  | some x => if i < l.length then l.take i ++ l.drop (i+1) ++ [x] else l
  | none => l

/-- `searchNode16`: lowest lane `< len` equal to `b`. -/
def searchNode16 (keys : Bytes) (len : Nat) (b : UInt8) : Int :=
  match (List.range (min len 16)).find? (fun i => keys[i]? == some b) with
  | some i => i
  | none => -1

/-- `insertPosNode16`: lowest lane `< len` strictly greater than `b` (unsigned). -/
def insertPosNode16 (keys : Bytes) (len : Nat) (b : UInt8) : Int :=
  match (List.range (min len 16)).find? (fun i => match keys[i]? with | some k => b < k | none => false) with
  | some i => i
  | none => -1

/-- `findChild`. -/
def find (r : Raw C) (b : UInt8) : Option C :=
  match r with
  | n4 _ len keys slots =>
    let i := searchNode4 keys (b8 b)
    if i != -1 && i < len then (slots[i.toNat]?).join else none
  | n16 _ len keys slots =>
    let i := searchNode16 keys len b
    if i != -1 then (slots[i.toNat]?).join else none
  | n48 _ _ idx slots =>
    let i : UInt8 := idx.getD b.toNat 0
    if i != 0 then (slots[i.toNat - 1]?).join else none
  | n256 _ _ slots => (slots[b.toNat]?).join

def add256 (h : Hdr) (len : Nat) (slots : List (Option C)) (b : UInt8) (c : C) : Raw C :=
  .n256 h ((len + 1) % 256) (slots.set b.toNat (some c))

def firstFree (slots : List (Option C)) : Nat :=
  (slots.findIdx (fun s => s.isNone))

def add48 (h : Hdr) (len : Nat) (idx : Bytes) (slots : List (Option C)) (b : UInt8) (c : C) : Raw C :=
  if len < maxNode48 then
    let pos := firstFree slots
    .n48 h (len + 1) (idx.set b.toNat (UInt8.ofNat (pos + 1))) (slots.set pos (some c))
  else
    -- grow into a node256 taken from the pool
    let s256 : List (Option C) := (List.range 256).map fun i =>
      let p : UInt8 := idx.getD i 0
      if p != 0 then (slots[p.toNat - 1]?).join else none
    add256 h len s256 b c

def add16 (h : Hdr) (len : Nat) (keys : Bytes) (slots : List (Option C)) (b : UInt8) (c : C) : Raw C :=
  if len < maxNode16 then
    let i := insertPosNode16 keys len b
    if i != -1 then
      let idx := i.toNat
      .n16 h (len + 1) ((shiftUp keys idx).set idx b) ((shiftUp slots idx).set idx (some c))
    else
      .n16 h (len + 1) (keys.set len b) (slots.set len (some c))
  else
    -- grow into a node48 taken from the pool
    let idx48 : Bytes := (List.range len).foldl
      (fun acc i => acc.set (keys.getD i 0).toNat (UInt8.ofNat (i + 1)))
      (List.replicate 256 0)
    let s48 : List (Option C) := (slots.take len) ++ List.replicate (48 - len) none
    add48 h len idx48 s48 b c

def add4 (h : Hdr) (len : Nat) (keys : BitVec 32) (slots : List (Option C)) (b : UInt8) (c : C) : Raw C :=
  if len < maxNode4 then
    let i := insertPosNode4 keys (b8 b)
    if i != -1 then
      let idx := i.toNat
      let keys := shiftLeftClear keys idx
      .n4 h (len + 1) (setAtPos keys idx (b8 b)) ((shiftUp slots idx).set idx (some c))
    else
      .n4 h (len + 1) (setAtPos keys len (b8 b)) (slots.set len (some c))
  else
    -- grow into a node16 taken from the pool
    let k16 : Bytes := (deconstruct keys).map u8 ++ List.replicate 12 0
    let s16 : List (Option C) := slots.take 4 ++ List.replicate 12 none
    add16 h len k16 s16 b c

/-- `addChild`. -/
def add (r : Raw C) (b : UInt8) (c : C) : Raw C :=
  match r with
  | n4 h len keys slots => add4 h len keys slots b c
  | n16 h len keys slots => add16 h len keys slots b c
  | n48 h len idx slots => add48 h len idx slots b c
  | n256 h len slots => add256 h len slots b c

/-- Result of `deleteChild`: the node stays (possibly in a smaller class), or a node4 with one child
    left is replaced by that child (`collapse`, carrying what the path merge needs). -/
inductive DelRes (C : Type) where
  | node (r : Raw C)
  | collapse (h : Hdr) (b : UInt8) (c : Option C)
  deriving Repr

def remove4 (h : Hdr) (len : Nat) (keys : BitVec 32) (slots : List (Option C)) (b : UInt8) : DelRes C :=
  let i := searchNode4 keys (b8 b)
  let (keys, slots, len) :=
    if i != -1 then (shiftRightClear keys (i.toNat + 1), shiftDown slots i.toNat, (len + 255) % 256)
    else (keys, slots, len)
  if len == collapse4 then
    .collapse h (u8 (getAtPos keys 0)) (slots[0]?).join
  else .node (.n4 h len keys slots)

def remove16 (h : Hdr) (len : Nat) (keys : Bytes) (slots : List (Option C)) (b : UInt8) : DelRes C :=
  let pos := (searchNode16 keys len b).toNat   -- the Go code assumes the byte is present
  let keys := shiftDown keys pos
  let slots := shiftDown slots pos
  let len := (len + 255) % 256
  if len == shrink16 then
    let k := fun i => b8 (keys.getD i 0)
    .node (.n4 h len (construct (k 0) (k 1) (k 2) (k 3)) (slots.take 4))
  else .node (.n16 h len keys slots)

def remove48 (h : Hdr) (len : Nat) (idx : Bytes) (slots : List (Option C)) (b : UInt8) : DelRes C :=
  let pos := (idx.getD b.toNat 0).toNat
  let idx := idx.set b.toNat 0
  let slots := slots.set (pos - 1) none
  let len := (len + 255) % 256
  if len == shrink48 then
    let live := (List.range 256).filterMap fun i =>
      let p : UInt8 := idx.getD i 0
      if p != 0 then some (UInt8.ofNat i, (slots[p.toNat - 1]?).join) else none
    let k16 := live.map (·.1) ++ List.replicate (16 - live.length) 0
    let s16 := live.map (·.2) ++ List.replicate (16 - live.length) none
    .node (.n16 h len k16 s16)
  else .node (.n48 h len idx slots)

def remove256 (h : Hdr) (len : Nat) (slots : List (Option C)) (b : UInt8) : DelRes C :=
  let slots := slots.set b.toNat none
  let len := (len + 255) % 256
  if len == shrink256 then
    let live := (List.range 256).filterMap fun i =>
      match (slots[i]?).join with
      | some c => some (i, c)
      | none => none
    let idx48 : Bytes := (List.range live.length).foldl
      (fun acc j => match live[j]? with | some (i, _) => acc.set i (UInt8.ofNat (j + 1)) | none => acc)
      (List.replicate 256 0)
    let s48 := live.map (fun ic => some ic.2) ++ List.replicate (48 - live.length) none
    .node (.n48 h len idx48 s48)
  else .node (.n256 h len slots)

/-- `deleteChild`. -/
def remove (r : Raw C) (b : UInt8) : DelRes C :=
  match r with
  | n4 h len keys slots => remove4 h len keys slots b
  | n16 h len keys slots => remove16 h len keys slots b
  | n48 h len idx slots => remove48 h len idx slots b
  | n256 h len slots => remove256 h len slots b

/-- The path merge of `node4.deleteChild` applied to the surviving inner child's header. -/
def mergeHdr (h : Hdr) (b : UInt8) (ch : Hdr) : Hdr :=
  let p0 := h.plen
  -- n4.prefix[prefix] = branch byte
  let (pfx, p) := if p0 < maxPrefixLen then (h.pfx.set p0 b, p0 + 1) else (h.pfx, p0)
  -- copy(n4.prefix[prefix:], child.prefix[:])
  let (pfx, p) :=
    if p < maxPrefixLen then
      ((pfx.take p ++ ch.pfx).take 10, p + min ch.plen (maxPrefixLen - p))
    else (pfx, p)
  let hi := min maxPrefixLen p
  { plen := ch.plen + h.plen + 1, pfx := pfx.take hi ++ ch.pfx.drop hi }

/-- Occupied entries in ascending byte order: what `all()` pushes (reversed) and what
    `minimum/maximum` pick the ends of. -/
def abs (r : Raw C) : List (UInt8 × C) :=
  match r with
  | n4 _ len keys slots =>
    (List.range (min len 4)).filterMap fun i =>
      match (slots[i]?).join with
      | some c => some (u8 (getAtPos keys i), c)
      | none => none
  | n16 _ len keys slots =>
    (List.range (min len 16)).filterMap fun i =>
      match (slots[i]?).join with
      | some c => some (keys.getD i 0, c)
      | none => none
  | n48 _ _ idx slots =>
    (List.range 256).filterMap fun i =>
      let p : UInt8 := idx.getD i 0
      if p != 0 then
        match (slots[p.toNat - 1]?).join with
        | some c => some (UInt8.ofNat i, c)
        | none => none
      else none
  | n256 _ _ slots =>
    (List.range 256).filterMap fun i =>
      match (slots[i]?).join with
      | some c => some (UInt8.ofNat i, c)
      | none => none

/-- One step of `minimum()` (tree.go): the child the walk continues with. `none` where the Go code would index
    out of range or follow a nil pointer. -/
def minChild (r : Raw C) : Option C :=
  match r with
  | n4 _ _ _ slots => (slots[0]?).join
  | n16 _ _ _ slots => (slots[0]?).join
  | n48 _ _ idx slots =>
    -- for n48.keys[idx] == 0 { idx++ }
    match (List.range 256).find? (fun i => idx.getD i 0 != 0) with
    | some i => (slots[(idx.getD i 0).toNat - 1]?).join
    | none => none
  | n256 _ _ slots =>
    -- for n256.children[idx].pointer == nil { idx++ }
    match (List.range 256).find? (fun i => ((slots[i]?).join).isSome) with
    | some i => (slots[i]?).join
    | none => none

/-- One step of `maximum()`: `children[childrenLen-1]` (the subtraction is on a `uint8`), or the scan downward
    from 255. -/
def maxChild (r : Raw C) : Option C :=
  match r with
  | n4 _ len _ slots => (slots[(len + 255) % 256]?).join
  | n16 _ len _ slots => (slots[(len + 255) % 256]?).join
  | n48 _ _ idx slots =>
    match (List.range 256).reverse.find? (fun i => idx.getD i 0 != 0) with
    | some i => (slots[(idx.getD i 0).toNat - 1]?).join
    | none => none
  | n256 _ _ slots =>
    match (List.range 256).reverse.find? (fun i => ((slots[i]?).join).isSome) with
    | some i => (slots[i]?).join
    | none => none

/-- `keys` strictly ascending as unsigned bytes. -/
def strictAsc : List UInt8 → Bool
  | a :: b :: rest => a < b && strictAsc (b :: rest)
  | _ => true

/-- non-increasing -/
def nonInc : List UInt8 → Bool
  | a :: b :: rest => b ≤ a && nonInc (b :: rest)
  | _ => true

def lanes4 (keys : BitVec 32) : Bytes := (List.range 4).map fun i => u8 (getAtPos keys i)

def countSome (slots : List (Option C)) : Nat := (slots.filter (·.isSome)).length

/-- The raw invariant of each class (decidable; evaluated on every real dump). -/
def inv (r : Raw C) : Bool :=
  match r with
  | n4 h len keys slots =>
    h.pfx.length == 10 && slots.length == 4 && len ≤ 4 &&
    strictAsc ((lanes4 keys).take len) && nonInc ((lanes4 keys).drop len) &&
    (slots.take len).all (·.isSome)
  | n16 h len keys slots =>
    h.pfx.length == 10 && slots.length == 16 && keys.length == 16 && len ≤ 16 && shrink16 < len &&
    strictAsc (keys.take len) && (slots.take len).all (·.isSome)
  | n48 h len idx slots =>
    h.pfx.length == 10 && slots.length == 48 && idx.length == 256 && len ≤ 48 && shrink48 < len &&
    countSome slots == len &&
    -- idx is an injection from its support into occupied slots, and onto them
    (idx.filter (· != 0)).length == len &&
    (idx.filter (· != 0)).all (fun p => p.toNat ≤ 48 && ((slots[p.toNat - 1]?).join).isSome) &&
    ((idx.filter (· != 0)).eraseDups.length == len)
  | n256 h len slots =>
    h.pfx.length == 10 && slots.length == 256 && shrink256 < countSome slots &&
    len == countSome slots % 256

end Raw
end ArtVerif
