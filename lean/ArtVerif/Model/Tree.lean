/-
  Layer T: the tree over abstract child tables (`abs` of the raw node) with a
  size-class tag, and the point operations of trees.go / collation.go
  (`Search`, `Insert`, `Delete`, `Minimum`, `Maximum`), following the Go control
  flow.  `tk` is the key the descent runs on (`keyS` / `colKey`), `k` the key
  compared at the leaf (`leaf.getKey()`); they coincide except for collation.
-/
import ArtVerif.Model.Bytes
import ArtVerif.Gen.Consts
namespace ArtVerif
open Gen

inductive Kind where
  | k4 | k16 | k48 | k256
  deriving DecidableEq, Repr, Inhabited

def Kind.cap : Kind → Nat
  | .k4 => maxNode4 | .k16 => maxNode16 | .k48 => maxNode48 | .k256 => maxNode256

def Kind.grow : Kind → Kind
  | .k4 => .k16 | .k16 => .k48 | .k48 => .k256 | .k256 => .k256

def Kind.toNat : Kind → Nat
  | .k4 => 4 | .k16 => 16 | .k48 => 48 | .k256 => 256

inductive T (V : Type) where
  | leaf (key tkey : Bytes) (val : V)
  | node (kind : Kind) (plen : Nat) (inl : Bytes) (ch : List (UInt8 × T V))

namespace T
variable {V : Type}

abbrev Ch (V : Type) := List (UInt8 × T V)

/-- sorted insertion into a child table (what every class's `addChild` amounts to on `abs`) -/
def insCh (b : UInt8) (c : T V) : Ch V → Ch V
  | [] => [(b, c)]
  | (k, x) :: rest => if b < k then (b, c) :: (k, x) :: rest else (k, x) :: insCh b c rest

def lookupCh (b : UInt8) : Ch V → Option (T V)
  | [] => none
  | (k, x) :: rest => if k = b then some x else lookupCh b rest

def replaceCh (b : UInt8) (c : T V) : Ch V → Ch V
  | [] => []
  | (k, x) :: rest => if k = b then (k, c) :: rest else (k, x) :: replaceCh b c rest

def eraseCh (b : UInt8) : Ch V → Ch V
  | [] => []
  | (k, x) :: rest => if k = b then rest else (k, x) :: eraseCh b rest

/-- `addChild`: grows into the next class when the current one is full. -/
def addChild (kind : Kind) (ch : Ch V) (b : UInt8) (c : T V) : Kind × Ch V :=
  if ch.length < kind.cap then (kind, insCh b c ch) else (kind.grow, insCh b c ch)

/-- Class after a removal left `n` children (`deleteChild`'s `== 3 / 12 / 37` tests). -/
def shrinkKind (kind : Kind) (n : Nat) : Kind :=
  match kind with
  | .k4 => .k4
  | .k16 => if n = shrink16 then .k4 else .k16
  | .k48 => if n = shrink48 then .k16 else .k48
  | .k256 => if n = shrink256 then .k48 else .k256

/-- `deleteChild` on an inner node `(kind, plen, inl, ch)`: the replacement subtree. -/
def deleteChild (kind : Kind) (plen : Nat) (inl : Bytes) (ch : Ch V) (b : UInt8) : T V :=
  let ch' := eraseCh b ch
  match kind, ch' with
  | .k4, [(b0, c)] =>
    -- node4 left with one child: replaced by it; an inner child absorbs path ++ branch byte
    match c with
    | leaf .. => c
    | node ckind cplen cinl cch =>
      node ckind (cplen + plen + 1) ((inl ++ b0 :: cinl).take maxPrefixLen) cch
  | _, _ => node (shrinkKind kind ch'.length) plen inl ch'

mutual
/-- `minimum` -/
def minLeaf : T V → Option (Bytes × Bytes × V)
  | leaf k tk v => some (k, tk, v)
  | node _ _ _ ch => minLeafL ch
def minLeafL : Ch V → Option (Bytes × Bytes × V)
  | [] => none
  | (_, c) :: _ => minLeaf c
end

mutual
/-- `maximum` -/
def maxLeaf : T V → Option (Bytes × Bytes × V)
  | leaf k tk v => some (k, tk, v)
  | node _ _ _ ch => maxLeafL ch
def maxLeafL : Ch V → Option (Bytes × Bytes × V)
  | [] => none
  | [(_, c)] => maxLeaf c
  | _ :: c2 :: rest => maxLeafL (c2 :: rest)
end

def minTKey (t : T V) : Bytes :=
  match minLeaf t with
  | some (_, tk, _) => tk
  | none => []

/-- `checkPrefix(key, depth) == min(prefixLen, maxPrefixLen)` -/
def checkPrefixOk (inl tk : Bytes) (d : Nat) : Bool := hasPrefix (tk.drop d) inl

/-- `prefixMismatch`: compares the inline bytes, then – for a compressed path longer than the
    inline limit – carries on along the minimum leaf's key (not bounded by `plen`). -/
def prefixMismatch (plen : Nat) (inl : Bytes) (minTK : Bytes) (tk : Bytes) (d : Nat) : Nat :=
  let maxCmp := min (min maxPrefixLen plen) (tk.length - d)
  let idx := lcpLen (inl.take maxCmp) ((tk.drop d).take maxCmp)
  if idx < maxCmp then idx
  else if plen > maxPrefixLen then
    idx + lcpLen (minTK.drop (d + idx)) (tk.drop (d + idx))
  else idx

/-- `Search` below `t` at depth `d`. -/
def search : Nat → T V → Bytes → Bytes → Nat → Option V
  | 0, _, _, _, _ => none
  | fuel+1, t, tk, k, d =>
    match t with
    | leaf lk _ v => if lk = k then some v else none
    | node _ plen inl ch =>
      if plen ≠ 0 ∧ !checkPrefixOk inl tk d then none
      else
        let d' := d + plen
        match tk[d']? with
        | none => none
        | some b =>
          match lookupCh b ch with
          | none => none
          | some c => search fuel c tk k (d' + 1)

/-- `Insert` below `t` at depth `d`; the flag is `t.size++`. -/
def insert : Nat → T V → Bytes → Bytes → V → Nat → T V × Bool
  | 0, t, _, _, _, _ => (t, false)
  | fuel+1, t, tk, k, v, d =>
    match t with
    | leaf lk ltk lv =>
      if k = lk then (leaf lk ltk v, false)
      else
        let l := lcpLen (ltk.drop d) (tk.drop d)
        let sp := d + l
        let inl := ((tk.drop d).take l).take maxPrefixLen
        let ch0 : Ch V := match ltk[sp]? with
          | some a => [(a, leaf lk ltk lv)]
          | none => []
        let ch1 : Ch V := match tk[sp]? with
          | some b => insCh b (leaf k tk v) ch0
          | none => ch0
        (node .k4 l inl ch1, true)
    | node kind plen inl ch =>
      let pd := if plen ≠ 0 then prefixMismatch plen inl (minTKey t) tk d else 0
      if plen ≠ 0 ∧ pd < plen then
        -- split the compressed path at pd
        let (bOld, inlOld) :=
          if plen ≤ maxPrefixLen then (inl.getD pd 0, inl.drop (pd + 1))
          else
            let lk := minTKey t
            (lk.getD (d + pd) 0, ((lk.drop (d + pd + 1)).take maxPrefixLen).take (plen - (pd + 1)))
        let old := node kind (plen - (pd + 1)) inlOld ch
        match tk[d + pd]? with
        | none => (node .k4 pd (inl.take pd) [(bOld, old)], false)
        | some b => (node .k4 pd (inl.take pd) (insCh b (leaf k tk v) [(bOld, old)]), true)
      else
        let d' := d + plen
        match tk[d']? with
        | none => (t, false)
        | some b =>
          match lookupCh b ch with
          | some c =>
            let (c', inc) := insert fuel c tk k v (d' + 1)
            (node kind plen inl (replaceCh b c' ch), inc)
          | none =>
            let (kind', ch') := addChild kind ch b (leaf k tk v)
            (node kind' plen inl ch', true)

/-- `Delete` below an inner node; `none` = nothing deleted, `some t'` = the replacement subtree. -/
def deleteNode : Nat → T V → Bytes → Bytes → Nat → Option (T V)
  | 0, _, _, _, _ => none
  | fuel+1, t, tk, k, d =>
    match t with
    | leaf .. => none
    | node kind plen inl ch =>
      if plen ≠ 0 ∧ !checkPrefixOk inl tk d then none
      else
        let d' := d + plen
        match tk[d']? with
        | none => none
        | some b =>
          match lookupCh b ch with
          | none => none
          | some (leaf lk _ _) => if lk = k then some (deleteChild kind plen inl ch b) else none
          | some c =>
            match deleteNode fuel c tk k (d' + 1) with
            | none => none
            | some c' => some (node kind plen inl (replaceCh b c' ch))

end T

/-- The tree object: root + `size` field. -/
structure Tree (V : Type) where
  root : Option (T V) := none
  size : Int := 0

namespace Tree
variable {V : Type}

def fuelFor (tk : Bytes) : Nat := tk.length + 2

def search (t : Tree V) (tk k : Bytes) : Option V :=
  match t.root with
  | none => none
  | some r => T.search (fuelFor tk) r tk k 0

def insert (t : Tree V) (tk k : Bytes) (v : V) : Tree V :=
  match t.root with
  | none => { root := some (.leaf k tk v), size := t.size + 1 }
  | some r =>
    let (r', inc) := T.insert (fuelFor tk) r tk k v 0
    { root := some r', size := if inc then t.size + 1 else t.size }

def delete (t : Tree V) (tk k : Bytes) : Tree V × Bool :=
  match t.root with
  | none => (t, false)
  | some (.leaf lk _ _) => if lk = k then ({ root := none, size := t.size - 1 }, true) else (t, false)
  | some r =>
    match T.deleteNode (fuelFor tk) r tk k 0 with
    | none => (t, false)
    | some r' => ({ root := some r', size := t.size - 1 }, true)

def minimum (t : Tree V) : Option (Bytes × Bytes × V) := t.root.bind T.minLeaf
def maximum (t : Tree V) : Option (Bytes × Bytes × V) := t.root.bind T.maxLeaf

end Tree
end ArtVerif
