/-
  Layer K: the key codecs of keys.go on bit patterns.
  `toBE n x` is `binary.BigEndian.PutUintN`; the word-level transforms are
  written on `BitVec w` operator for operator as in keys.go.
-/
import ArtVerif.Model.Bytes
import ArtVerif.Model.Ieee
namespace ArtVerif

/-- Big-endian bytes of `x`, `n` bytes. -/
def toBE : Nat → Nat → Bytes
  | 0, _ => []
  | n+1, x => UInt8.ofNat (x / 256^n % 256) :: toBE n x

/-- Big-endian value of a byte string. -/
def ofBE (bs : Bytes) : Nat := bs.foldl (fun acc b => acc * 256 + b.toNat) 0

/-! ### unsigned / signed -/

def encU {w : Nat} (x : BitVec w) : Bytes := toBE (w/8) x.toNat
def decU (w : Nat) (bs : Bytes) : BitVec w := BitVec.ofNat w (ofBE bs)

def encI {w : Nat} (x : BitVec w) : Bytes := toBE (w/8) (x ^^^ signBit w).toNat
def decI (w : Nat) (bs : Bytes) : BitVec w := BitVec.ofNat w (ofBE bs) ^^^ signBit w

/-! ### floats (IEEE bit patterns; `e` exponent bits, `m` mantissa bits, `w = 1+e+m`) -/

/-- The word `FloatBinaryKey.Transform` stores (before `PutUintN`). -/
def encFWord {w} (f : FloatFmt w) (x : BitVec w) : BitVec w :=
  if x == f.posInf then BitVec.allOnes w - 1#w
  else if x == f.negInf then 1#w
  else if f.isNaN x then 0#w
  else
    let t := x >>> (w-1)
    let mask := -t
    let mask2 := mask ||| signBit w
    (x ^^^ mask2) + 2#w

/-- The word→bit pattern half of `FloatBinaryKey.Restore`. -/
def decFWord {w} (f : FloatFmt w) (i : BitVec w) : BitVec w :=
  if i == BitVec.allOnes w - 1#w then f.posInf
  else if i == 1#w then f.negInf
  else if i == 0#w then f.canonNaN
  else if i == 2#w then 0#w
  else
    let i := i - 2#w
    let mask := ((i >>> (w-1)) - 1#w) ||| signBit w
    i ^^^ mask

def encF {w} (f : FloatFmt w) (x : BitVec w) : Bytes := toBE (w/8) (encFWord f x).toNat
def decF {w} (f : FloatFmt w) (bs : Bytes) : BitVec w := decFWord f (BitVec.ofNat w (ofBE bs))

/-! ### the declared orders, stated without reference to the encoders -/

/-- Float rank: NaN lowest, then sign-magnitude order with −0 below +0. -/
def FloatFmt.rank {w} (f : FloatFmt w) (x : BitVec w) : Int :=
  if f.isNaN x then -(2^w : Int)
  else if x.msb then -((x &&& ~~~(signBit w)).toNat : Int) - 1
  else (x.toNat : Int)

/-! ### a uniform description of the numeric key types used by the driver -/

inductive NumTy where
  | u (w : Nat) | i (w : Nat) | f32 | f64
  deriving DecidableEq, Repr

def NumTy.width : NumTy → Nat
  | .u w => w | .i w => w | .f32 => 32 | .f64 => 64

/-- Encode a key given as its bit pattern (a natural number < 2^width). -/
def NumTy.enc (t : NumTy) (bits : Nat) : Bytes :=
  match t with
  | .u w => encU (BitVec.ofNat w bits)
  | .i w => encI (BitVec.ofNat w bits)
  | .f32 => encF fmt32 (BitVec.ofNat 32 bits)
  | .f64 => encF fmt64 (BitVec.ofNat 64 bits)

/-- Decode to a bit pattern. -/
def NumTy.dec (t : NumTy) (bs : Bytes) : Nat :=
  match t with
  | .u w => (decU w bs).toNat
  | .i w => (decI w bs).toNat
  | .f32 => (decF fmt32 bs).toNat
  | .f64 => (decF fmt64 bs).toNat

def NumTy.isNaN (t : NumTy) (bits : Nat) : Bool :=
  match t with
  | .f32 => fmt32.isNaN (BitVec.ofNat 32 bits)
  | .f64 => fmt64.isNaN (BitVec.ofNat 64 bits)
  | _ => false

/-- The declared order as an integer rank (independent of `enc`). -/
def NumTy.rank (t : NumTy) (bits : Nat) : Int :=
  match t with
  | .u w => ((BitVec.ofNat w bits).toNat : Int)
  | .i w => (BitVec.ofNat w bits).toInt
  | .f32 => fmt32.rank (BitVec.ofNat 32 bits)
  | .f64 => fmt64.rank (BitVec.ofNat 64 bits)

end ArtVerif
