/-
  A small executable model of the arm64 instructions used by node16_arm64.s (Go assembler syntax), in
  the style of Model/Amd64.lean.  The routines are regenerated from the .s file (`Gen/AsmArm64.lean`);
  this file gives the lines a meaning.  Two instructions are written in the source as raw `WORD`s
  (the Go assembler has no mnemonic for them); they are decoded here from the A64 encoding:
  `0x6e213400` = `CMHI V0.16B, V0.16B, V1.16B`, `0x0f0c8400` = `SHRN V0.8B, V0.8H, #4`.  Any other word,
  mnemonic or operand shape makes `exec` return `none`.

  **Status: trusted and NOT validated.**  No arm64 machine or emulator exists in this sandbox, so unlike
  Model/Amd64.lean nothing here is ever run next to the real routine.  What is proved about this model
  (`Props/C10Arm64.lean`) is a statement about this reading of the ARM architecture manual.
-/
import ArtVerif.Model.Amd64
namespace ArtVerif.Arm64
open ArtVerif.Amd64 (lane pack boolByte)

inductive Opnd
  | reg (n : Nat)                     -- R<n>
  | vreg (n : Nat) (arr : String)     -- V<n>.<arr>   (also `[V<n>.<arr>]`)
  | freg (n : Nat)                    -- F<n>: the low 64 bits of V<n>
  | imm (v : Int)
  | mem (base : Nat)                  -- (R<n>)
  | arg (name : String) (off : Nat)   -- name+off(FP)
  | lbl (name : String)
  deriving Repr

inductive Mn
  | MOVD | MOVB | MOVBU | VLD1 | VDUP | VCMEQ | WORD | FMOVD | CBNZ | CBZ | AND | RBIT | CLZ | ASR | LSR | RET
  deriving DecidableEq, Repr

inductive Line
  | ins (mn : Mn) (args : List Opnd)
  | label (name : String)
  deriving Repr

structure St where
  r0 : BitVec 64
  r1 : BitVec 64
  r2 : BitVec 64
  r3 : BitVec 64
  v0 : BitVec 128
  v1 : BitVec 128
  ret : BitVec 64

structure Frame where
  keysPtr : BitVec 64
  keys : BitVec 128     -- lane i = bits 8i .. 8i+7 (VLD1 loads byte i of memory into lane i)
  len : BitVec 8
  b : BitVec 8

def St.get (s : St) : Nat → Option (BitVec 64)
  | 0 => some s.r0 | 1 => some s.r1 | 2 => some s.r2 | 3 => some s.r3 | _ => none
def St.set (s : St) (n : Nat) (v : BitVec 64) : Option St :=
  match n with
  | 0 => some { s with r0 := v } | 1 => some { s with r1 := v } | 2 => some { s with r2 := v } | 3 => some { s with r3 := v }
  | _ => none
def St.getV (s : St) : Nat → Option (BitVec 128)
  | 0 => some s.v0 | 1 => some s.v1 | _ => none
def St.setV (s : St) (n : Nat) (v : BitVec 128) : Option St :=
  match n with
  | 0 => some { s with v0 := v } | 1 => some { s with v1 := v } | _ => none

def cmeq (a b : BitVec 128) : BitVec 128 := pack fun i => boolByte (lane a i == lane b i)
/-- unsigned byte-wise `a > b` -/
def cmhi (a b : BitVec 128) : BitVec 128 := pack fun i => boolByte (lane b i < lane a i)

def half (x : BitVec 128) (j : Nat) : BitVec 16 := x.extractLsb' (16 * j) 16
/-- `SHRN Vd.8B, Vn.8H, #4`: every 16-bit element shifted right by 4 and narrowed to its low byte; the upper half of Vd is cleared. -/
def shrn4 (x : BitVec 128) : BitVec 128 :=
  let n (j : Nat) : BitVec 8 := ((half x j) >>> 4).setWidth 8
  (0#64 ++ (n 7 ++ n 6 ++ n 5 ++ n 4 ++ n 3 ++ n 2 ++ n 1 ++ n 0) : BitVec 128)

def dup8 (b : BitVec 8) : BitVec 128 := pack fun _ => b

def step (fr : Frame) (s : St) (mn : Mn) (args : List Opnd) : Option St :=
  match mn, args with
  | .MOVD, [.arg _ 0, .reg d] => s.set d fr.keysPtr
  | .MOVD, [.imm v, .reg d] => s.set d (BitVec.ofInt 64 v)
  | .MOVD, [.reg r, .arg _ 16] => do some { s with ret := (← s.get r) }
  | .MOVD, [.reg r, .reg d] => do s.set d (← s.get r)
  -- MOVB loads a signed byte (LDRSB), MOVBU an unsigned one
  | .MOVB, [.arg _ 8, .reg d] => s.set d (fr.len.signExtend 64)
  | .MOVB, [.arg _ 9, .reg d] => s.set d (fr.b.signExtend 64)
  | .MOVBU, [.arg _ 8, .reg d] => s.set d (fr.len.setWidth 64)
  | .MOVBU, [.arg _ 9, .reg d] => s.set d (fr.b.setWidth 64)
  | .VLD1, [.mem r, .vreg d "B16"] => do if (← s.get r) == fr.keysPtr then s.setV d fr.keys else none
  | .VDUP, [.reg r, .vreg d "B16"] => do s.setV d (dup8 ((← s.get r).setWidth 8))
  | .VCMEQ, [.vreg m "B16", .vreg n "B16", .vreg d "B16"] => do s.setV d (cmeq (← s.getV n) (← s.getV m))
  | .WORD, [.imm w] =>
      if w == 0x6e213400 then do s.setV 0 (cmhi (← s.getV 0) (← s.getV 1))      -- cmhi v0.16b, v0.16b, v1.16b
      else if w == 0x0f0c8400 then do s.setV 0 (shrn4 (← s.getV 0))              -- shrn v0.8b, v0.8h, #4
      else none
  | .FMOVD, [.freg f, .reg d] => do s.set d ((← s.getV f).setWidth 64)
  | .AND, [.imm v, .reg n, .reg d] => do s.set d ((← s.get n) &&& BitVec.ofInt 64 v)
  | .RBIT, [.reg n, .reg d] => do s.set d (← s.get n).reverse
  | .CLZ, [.reg n, .reg d] => do s.set d (← s.get n).clz
  | .ASR, [.imm v, .reg d] => do s.set d ((← s.get d).sshiftRight v.toNat)
  | .LSR, [.imm v, .reg d] => do s.set d ((← s.get d) >>> v.toNat)
  | _, _ => none

def findLabel (name : String) : List Line → Option (List Line)
  | [] => none
  | .label n :: rest => if n == name then some rest else findLabel name rest
  | _ :: rest => findLabel name rest

def exec (routine : List Line) (fr : Frame) : Nat → List Line → St → Option (BitVec 64)
  | 0, _, _ => none
  | _ + 1, [], _ => none
  | fuel + 1, .label _ :: rest, s => exec routine fr fuel rest s
  | _ + 1, .ins .RET _ :: _, s => some s.ret
  | fuel + 1, .ins .CBNZ [.reg r, .lbl l] :: rest, s =>
      match s.get r with
      | none => none
      | some v =>
        if v != 0#64 then (match findLabel l routine with | some tgt => exec routine fr fuel tgt s | none => none)
        else exec routine fr fuel rest s
  | fuel + 1, .ins .CBZ [.reg r, .lbl l] :: rest, s =>
      match s.get r with
      | none => none
      | some v =>
        if v == 0#64 then (match findLabel l routine with | some tgt => exec routine fr fuel tgt s | none => none)
        else exec routine fr fuel rest s
  | fuel + 1, .ins mn args :: rest, s =>
      match step fr s mn args with
      | some s' => exec routine fr fuel rest s'
      | none => none

def run (routine : List Line) (fr : Frame) (s : St) : Option (BitVec 64) := exec routine fr 64 routine s

end ArtVerif.Arm64
