/-
  A model of the `text/template` constructs that cmd/go-art/tree.tmpl uses:
  `{{ range . }} … {{ end }}` around the whole body, `{{ .Field }}`, `{{if .B}}`, `{{ else if .B }}`,
  `{{ else }}`, `{{ end }}` (no whitespace trimming markers).  Bytes are natural numbers.
-/
namespace ArtVerif.Tmpl

inductive Tok where
  | text (bs : List Nat)
  | action (bs : List Nat)
  deriving Repr, DecidableEq

/-- split at `{{` / `}}` -/
def tokenize (inAction : Bool) (acc : List Nat) : List Nat → List Tok
  | [] => if inAction then [.action acc.reverse] else [.text acc.reverse]
  | [b] => if inAction then [.action (b :: acc).reverse] else [.text (b :: acc).reverse]
  | a :: b :: rest =>
    if !inAction && a == 123 && b == 123 then .text acc.reverse :: tokenize true [] rest
    else if inAction && a == 125 && b == 125 then .action acc.reverse :: tokenize false [] rest
    else tokenize inAction (a :: acc) (b :: rest)

def trim (bs : List Nat) : List Nat :=
  ((bs.dropWhile (· == 32)).reverse.dropWhile (· == 32)).reverse

inductive Act where
  | range | endA | elseA | ifA (f : List Nat) | elseIf (f : List Nat) | field (f : List Nat) | bad (bs : List Nat)
  deriving Repr, DecidableEq

def strBytes (s : String) : List Nat := s.toList.map Char.toNat

/-- classify an action by its text -/
def classify (bs : List Nat) : Act :=
  let t := trim bs
  if t == [114, 97, 110, 103, 101, 32, 46] then .range                 -- "range ."
  else if t == [101, 110, 100] then .endA                               -- "end"
  else if t == [101, 108, 115, 101] then .elseA                         -- "else"
  else if t.take 9 == [101, 108, 115, 101, 32, 105, 102, 32, 46] then .elseIf (t.drop 9)   -- "else if ."
  else if t.take 4 == [105, 102, 32, 46] then .ifA (t.drop 4)           -- "if ."
  else if t.take 1 == [46] then .field (t.drop 1)                       -- ".Name"
  else .bad t

abbrev Cfg := List (List Nat × List Nat)    -- field name ↦ value, as bytes

def lookup (c : Cfg) (f : List Nat) : List Nat := ((c.find? (·.1 == f)).map (·.2)).getD []

def isTrue (c : Cfg) (f : List Nat) : Bool := lookup c f == [116, 114, 117, 101]   -- "true"

structure Frame where
  parent : Bool   -- was the enclosing context emitting?
  taken : Bool    -- has a branch of this if-chain been taken already?
  cur : Bool      -- is the current branch the taken one?

def active (st : List Frame) : Bool := st.all (fun f => f.parent && f.cur)

/-- render the body of the range for one configuration record -/
def evalBody (c : Cfg) : List Tok → List Frame → List Nat
  | [], _ => []
  | .text bs :: rest, st => (if active st then bs else []) ++ evalBody c rest st
  | .action bs :: rest, st =>
    match classify bs with
    | .field f => (if active st then lookup c f else []) ++ evalBody c rest st
    | .ifA f => evalBody c rest ({ parent := active st, taken := isTrue c f, cur := isTrue c f } :: st)
    | .elseIf f =>
      match st with
      | fr :: st' =>
        let v := isTrue c f
        evalBody c rest ({ fr with cur := !fr.taken && v, taken := fr.taken || v } :: st')
      | [] => evalBody c rest st
    | .elseA =>
      match st with
      | fr :: st' => evalBody c rest ({ fr with cur := !fr.taken, taken := true } :: st')
      | [] => evalBody c rest st
    | .endA => evalBody c rest st.tail
    | .range => evalBody c rest st
    | .bad _ => evalBody c rest st

/-- every action of the template is one the model understands -/
def wellFormedToks (ts : List Tok) : Bool :=
  ts.all fun t => match t with
    | .text _ => true
    | .action bs => match classify bs with | .bad _ => false | _ => true

/-- the whole template: text before `{{ range . }}`, then the body once per record (the matching `{{ end }}`
    is the last action of the file) -/
def render (tmpl : List Nat) (cfgs : List Cfg) : List Nat :=
  let ts := tokenize false [] tmpl
  let pre := ts.takeWhile (fun t => match t with | .action bs => classify bs != .range | _ => true)
  let body := (ts.dropWhile (fun t => match t with | .action bs => classify bs != .range | _ => true)).drop 1
  -- drop the closing `end` of the range (and the text after it, rendered once at the very end)
  let revBody := body.reverse
  let tailText := revBody.takeWhile (fun t => match t with | .text _ => true | _ => false)
  let inner := (revBody.dropWhile (fun t => match t with | .text _ => true | _ => false)).drop 1 |>.reverse
  (pre.flatMap fun t => match t with | .text bs => bs | _ => []) ++
  cfgs.flatMap (fun c => evalBody c inner []) ++
  (tailText.reverse.flatMap fun t => match t with | .text bs => bs | _ => [])

/-- what gofmt may change: whitespace -/
def strip (bs : List Nat) : List Nat := bs.filter (fun b => !(b == 32 || b == 9 || b == 10 || b == 13))

end ArtVerif.Tmpl
