/-
  Layer R∘T: the concrete tree.  Inner nodes ARE raw images (`Raw (RT V)`, Model/Raw.lean) and the
  point operations of trees.go go through `Raw.find` / `Raw.add` / `Raw.remove` exactly where the Go code
  goes through `findChild` / `addChild` / `deleteChild`; the write through the pointer into the parent's
  slot (`*ref = …`, `n = *child; ref = child`) is `Raw.setChild`.  The control flow is that of
  `T.search` / `T.insert` / `T.deleteNode` (Model/Tree.lean), line by line.

  Headers are raw: `plen` and the 10-byte array `pfx`, stale bytes kept the way the Go code leaves them
  (`copy` semantics, `copyInto`).  Reads of the inline prefix (`checkPrefix`, `prefixMismatch`) see the
  first `min(plen,10)` bytes (`Compose.inlOf`).

  All recursion is on a fuel argument (or structural, for `height`); everything here evaluates by
  `decide` / `rfl`.
-/
import ArtVerif.Model.Raw
import ArtVerif.Model.Tree
import ArtVerif.Proofs.Compose      -- `kindOf`, `inlOf`, `withHdr` (definitions only are used here)
namespace ArtVerif
open Gen

/-! ## the one new raw operation: overwrite the child registered under a byte -/

namespace Raw
variable {C : Type}

def slots : Raw C → List (Option C)
  | n4 _ _ _ s => s | n16 _ _ _ s => s | n48 _ _ _ s => s | n256 _ _ s => s

def withSlots (s : List (Option C)) : Raw C → Raw C
  | n4 h l k _ => n4 h l k s
  | n16 h l k _ => n16 h l k s
  | n48 h l i _ => n48 h l i s
  | n256 h l _ => n256 h l s

/-- The slot `findChild(b)` returns a pointer into, class by class: node4 / node16 the lane found by the
    search routine (node4: only below `childrenLen`), node48 slot `idx[b]-1`, node256 slot `b`. -/
def slotOf (r : Raw C) (b : UInt8) : Option Nat :=
  match r with
  | n4 _ len keys _ =>
    let i := searchNode4 keys (b8 b)
    if i != -1 && i < len then some i.toNat else none
  | n16 _ len keys _ =>
    let i := searchNode16 keys len b
    if i != -1 then some i.toNat else none
  | n48 _ _ idx _ =>
    let i : UInt8 := idx.getD b.toNat 0
    if i != 0 then some (i.toNat - 1) else none
  | n256 .. => some b.toNat

/-- `*child = c` for `child := findChild(b)` (a non-nil pointer into the node's slot array): the slot is
    overwritten, nothing else moves.  Without such a child the node is unchanged. -/
def setChild (r : Raw C) (b : UInt8) (c : C) : Raw C :=
  match slotOf r b with
  | some i => if ((r.slots[i]?).join).isSome then r.withSlots (r.slots.set i (some c)) else r
  | none => r

/-- Go `copy(dst[:], src)` on a fixed array: the bytes of `dst` beyond `len(src)` stay. -/
def copyInto (dst src : Bytes) : Bytes := src.take dst.length ++ dst.drop src.length

end Raw

/-! ## the concrete tree -/

/-- a leaf, or an inner node given by its raw image (children inside the image's slots) -/
inductive RT (V : Type) where
  | leaf (key tkey : Bytes) (val : V)
  | node (r : Raw (RT V))

namespace RT
open Raw Compose
variable {V : Type}

mutual
/-- height over ALL slots (stale ones included): an upper bound of the height along `abs` -/
def height : RT V → Nat
  | .leaf .. => 0
  | .node r => heightRaw r + 1
def heightRaw : Raw (RT V) → Nat
  | .n4 _ _ _ s => heightSlots s
  | .n16 _ _ _ s => heightSlots s
  | .n48 _ _ _ s => heightSlots s
  | .n256 _ _ s => heightSlots s
def heightSlots : List (Option (RT V)) → Nat
  | [] => 0
  | o :: rest => max (heightOpt o) (heightSlots rest)
def heightOpt : Option (RT V) → Nat
  | none => 0
  | some t => height t
end

/-- the Layer-T tree denoted (fuel = height bound; a node out of fuel denotes a childless node) -/
def absRT : Nat → RT V → T V
  | _, .leaf k tk v => .leaf k tk v
  | 0, .node r => .node (kindOf r) r.hdr.plen (inlOf r.hdr) []
  | f+1, .node r => .node (kindOf r) r.hdr.plen (inlOf r.hdr) (r.abs.map fun p => (p.1, absRT f p.2))

/-- every raw node reachable along `abs` satisfies `Raw.inv`, and the height is at most the fuel -/
def good : Nat → RT V → Bool
  | _, .leaf .. => true
  | 0, .node _ => false
  | f+1, .node r => r.inv && r.abs.all fun p => good f p.2

abbrev GoodRT (h : Nat) (t : RT V) : Prop := good h t = true

/-- `minimum`: follows the first occupied entry (`children[0]` for node4/16, the first non-zero index
    byte / non-nil slot for node48/256 – the head of `abs`) -/
def minLeaf : Nat → RT V → Option (Bytes × Bytes × V)
  | _, .leaf k tk v => some (k, tk, v)
  | 0, .node _ => none
  | f+1, .node r =>
    match r.abs with
    | [] => none
    | (_, c) :: _ => minLeaf f c

/-- `minimum()` of tree.go statement for statement: per class, `children[0]` / the first non-zero index byte /
    the first non-nil slot (`Raw.minChild`), until a leaf. -/
def minimum : Nat → RT V → Option (Bytes × Bytes × V)
  | _, .leaf k tk v => some (k, tk, v)
  | 0, .node _ => none
  | f+1, .node r =>
    match r.minChild with
    | some c => minimum f c
    | none => none

/-- `maximum()` of tree.go: `children[childrenLen-1]` / the scans downward from 255 (`Raw.maxChild`). -/
def maximum : Nat → RT V → Option (Bytes × Bytes × V)
  | _, .leaf k tk v => some (k, tk, v)
  | 0, .node _ => none
  | f+1, .node r =>
    match r.maxChild with
    | some c => maximum f c
    | none => none

def minTKey (hf : Nat) (t : RT V) : Bytes :=
  match minLeaf hf t with
  | some (_, tk, _) => tk
  | none => []

/-- `Search` below `t` at depth `d`. -/
def search : Nat → RT V → Bytes → Bytes → Nat → Option V
  | 0, _, _, _, _ => none
  | fuel+1, t, tk, k, d =>
    match t with
    | .leaf lk _ v => if lk = k then some v else none
    | .node r =>
      if r.hdr.plen ≠ 0 ∧ !T.checkPrefixOk (inlOf r.hdr) tk d then none
      else
        let d' := d + r.hdr.plen
        match tk[d']? with
        | none => none
        | some b =>
          match r.find b with
          | none => none
          | some c => search fuel c tk k (d' + 1)

/-- `nodePools[nodeKind4].Get()` with its header set -/
def fresh4 (h : Hdr) : Raw (RT V) := withHdr h Raw.zero4

/-- `Insert` below `t` at depth `d`; the flag is `t.size++`.  `hf` is the fuel of `minimum`. -/
def insert (hf : Nat) : Nat → RT V → Bytes → Bytes → V → Nat → RT V × Bool
  | 0, t, _, _, _, _ => (t, false)
  | fuel+1, t, tk, k, v, d =>
    match t with
    | .leaf lk ltk lv =>
      if k = lk then (.leaf lk ltk v, false)
      else
        let l := lcpLen (ltk.drop d) (tk.drop d)
        let sp := d + l
        -- newNode.prefixLen = longestPrefix; copy(newNode.prefix[:], keyS[depth:])
        let n0 : Raw (RT V) := fresh4 { plen := l, pfx := copyInto (List.replicate 10 0) (tk.drop d) }
        let n1 := match ltk[sp]? with
          | some a => n0.add a (.leaf lk ltk lv)
          | none => n0
        let n2 := match tk[sp]? with
          | some b => n1.add b (.leaf k tk v)
          | none => n1
        (.node n2, true)
    | .node r =>
      let h := r.hdr
      let pd := if h.plen ≠ 0 then T.prefixMismatch h.plen (inlOf h) (minTKey hf t) tk d else 0
      if h.plen ≠ 0 ∧ pd < h.plen then
        -- split the compressed path at pd.  (The Go code registers `n` in the new node first and
        -- then shortens the old node's header through the pointer; with values: header first.)
        let (bOld, hOld) :=
          if h.plen ≤ maxPrefixLen then
            -- node.prefix[prefixDiff]; prefixLen -= loLimit; copy(node.prefix[:], node.prefix[loLimit:])
            (h.pfx.getD pd 0, ({ plen := h.plen - (pd + 1), pfx := copyInto h.pfx (h.pfx.drop (pd + 1)) } : Hdr))
          else
            -- leafKey[depth+prefixDiff]; copy(node.prefix[:], leafKey[depth+prefixDiff+1:])
            let lk := minTKey hf t
            (lk.getD (d + pd) 0, { plen := h.plen - (pd + 1), pfx := copyInto h.pfx (lk.drop (d + pd + 1)) })
        let old : RT V := .node (withHdr hOld r)
        -- newNode.prefixLen = prefixDiff; newNode.prefix = node.prefix
        let n1 := (fresh4 { plen := pd, pfx := h.pfx }).add bOld old
        match tk[d + pd]? with
        | none => (.node n1, false)
        | some b => (.node (n1.add b (.leaf k tk v)), true)
      else
        let d' := d + h.plen
        match tk[d']? with
        | none => (t, false)
        | some b =>
          match r.find b with
          | some c =>
            let (c', inc) := insert hf fuel c tk k v (d' + 1)
            (.node (r.setChild b c'), inc)
          | none => (.node (r.add b (.leaf k tk v)), true)

/-- what `ref.deleteChild(b)` leaves in `*ref`: the node (possibly in a smaller class), or – node4 with one
    child left – that child, an inner child with the merged header -/
def afterRemove (r : Raw (RT V)) (b : UInt8) : RT V :=
  match r.remove b with
  | .node r' => .node r'
  | .collapse _ _ (some (.leaf k tk v)) => .leaf k tk v
  | .collapse h b0 (some (.node rc)) => .node (withHdr (mergeHdr h b0 rc.hdr) rc)
  | .collapse _ _ none => .node r        -- not reachable under `inv`

/-- `Delete` below an inner node; `none` = nothing deleted, `some t'` = the replacement subtree. -/
def deleteNode : Nat → RT V → Bytes → Bytes → Nat → Option (RT V)
  | 0, _, _, _, _ => none
  | fuel+1, t, tk, k, d =>
    match t with
    | .leaf .. => none
    | .node r =>
      if r.hdr.plen ≠ 0 ∧ !T.checkPrefixOk (inlOf r.hdr) tk d then none
      else
        let d' := d + r.hdr.plen
        match tk[d']? with
        | none => none
        | some b =>
          match r.find b with
          | none => none
          | some (.leaf lk _ _) => if lk = k then some (afterRemove r b) else none
          | some c =>
            match deleteNode fuel c tk k (d' + 1) with
            | none => none
            | some c' => some (.node (r.setChild b c'))

end RT

/-- The tree object: root + `size` field. -/
structure RTree (V : Type) where
  root : Option (RT V) := none
  size : Int := 0

namespace RTree
variable {V : Type}

def search (t : RTree V) (tk k : Bytes) : Option V :=
  match t.root with
  | none => none
  | some r => RT.search (Tree.fuelFor tk) r tk k 0

def insert (t : RTree V) (tk k : Bytes) (v : V) : RTree V :=
  match t.root with
  | none => { root := some (.leaf k tk v), size := t.size + 1 }
  | some r =>
    let (r', inc) := RT.insert r.height (Tree.fuelFor tk) r tk k v 0
    { root := some r', size := if inc then t.size + 1 else t.size }

def delete (t : RTree V) (tk k : Bytes) : RTree V × Bool :=
  match t.root with
  | none => (t, false)
  | some (.leaf lk _ _) => if lk = k then ({ root := none, size := t.size - 1 }, true) else (t, false)
  | some r =>
    match RT.deleteNode (Tree.fuelFor tk) r tk k 0 with
    | none => (t, false)
    | some r' => ({ root := some r', size := t.size - 1 }, true)

/-- the Layer-T tree object denoted -/
def abs (t : RTree V) : Tree V :=
  { root := t.root.map fun r => RT.absRT r.height r, size := t.size }

/-- the per-node invariant on the whole tree -/
def Good (t : RTree V) : Prop := ∀ r, t.root = some r → RT.GoodRT r.height r

end RTree
end ArtVerif
