/-
  Byte strings and the three list functions the tree code is built on:
  `lcpLen` (longestCommonPrefix), `isPrefixOf` and lexicographic order (`bytes.Compare`).
  Core-only (the driver links this).
-/
namespace ArtVerif

abbrev Bytes := List UInt8

/-- Length of the longest common prefix (`longestCommonPrefix(key, other, 0)`). -/
def lcpLen : Bytes → Bytes → Nat
  | a :: as, b :: bs => if a = b then lcpLen as bs + 1 else 0
  | _, _ => 0

/-- `bytes.Compare(a,b) < 0`. -/
def lexLt : Bytes → Bytes → Bool
  | [], [] => false
  | [], _ :: _ => true
  | _ :: _, [] => false
  | a :: as, b :: bs => if a < b then true else if b < a then false else lexLt as bs

/-- `bytes.Compare(a,b) <= 0`. -/
def lexLe (a b : Bytes) : Bool := !lexLt b a

/-- `bytes.HasPrefix(k, p)`. -/
def hasPrefix : Bytes → Bytes → Bool
  | _, [] => true
  | [], _ :: _ => false
  | a :: as, b :: bs => a == b && hasPrefix as bs

/-! Hex rendering used by the line protocol. -/

def hexDigit (n : Nat) : Char :=
  if n < 10 then Char.ofNat (48 + n) else Char.ofNat (87 + n)

def hexOfByte (b : UInt8) : List Char := [hexDigit (b.toNat / 16), hexDigit (b.toNat % 16)]

def hexOfBytes (bs : Bytes) : String :=
  if bs.isEmpty then "-" else String.ofList (bs.flatMap hexOfByte)

def hexVal (c : Char) : Option Nat :=
  if '0' ≤ c ∧ c ≤ '9' then some (c.toNat - 48)
  else if 'a' ≤ c ∧ c ≤ 'f' then some (c.toNat - 87)
  else if 'A' ≤ c ∧ c ≤ 'F' then some (c.toNat - 55)
  else none

def parseHexChars : List Char → Option Bytes
  | [] => some []
  | [_] => none
  | a :: b :: rest => do
    let x ← hexVal a
    let y ← hexVal b
    let r ← parseHexChars rest
    pure (UInt8.ofNat (x * 16 + y) :: r)

def parseHex (s : String) : Option Bytes :=
  if s == "-" then some [] else parseHexChars s.toList

end ArtVerif
