/-
  The push iterators of tree.go as explicit-stack loops driven by a `yield`
  callback with early exit: `all`, `backward`, `filter`, `rangeScan`
  (depth carried per stack entry), `lowestCommonParent`, `topK`, `bottomK`.
-/
import ArtVerif.Model.Tree
namespace ArtVerif
namespace T
variable {V : Type} {σ : Type}

abbrev Item (V : Type) := Bytes × Bytes × V      -- (getKey, getTransformKey, value)
abbrev Yield (σ V : Type) := σ → Item V → σ × Bool   -- `false` = the consumer stops

/-- What a `for … range seq` loop does with a list: stop at the first `false`. -/
def foldUntil {α : Type} (f : σ → α → σ × Bool) : σ → List α → σ
  | s, [] => s
  | s, a :: as =>
    match f s a with
    | (s', true) => foldUntil f s' as
    | (s', false) => s'

mutual
/-- number of nodes and leaves (fuel for the stack loops) -/
def nodes : T V → Nat
  | leaf .. => 1
  | node _ _ _ ch => nodesL ch + 1
def nodesL : Ch V → Nat
  | [] => 0
  | (_, c) :: rest => nodes c + nodesL rest
end

mutual
/-- leaves in ascending order -/
def inorder : T V → List (Item V)
  | leaf k tk v => [(k, tk, v)]
  | node _ _ _ ch => inorderL ch
def inorderL : Ch V → List (Item V)
  | [] => []
  | (_, c) :: rest => inorder c ++ inorderL rest
end

/-- `all` / `filter` (with `pred`) : pop; a leaf is offered to `yield`, an inner node pushes its
    children so that they pop in ascending byte order. -/
def allLoop (pred : Item V → Bool) (f : Yield σ V) : Nat → List (T V) → σ → σ
  | 0, _, s => s
  | _+1, [], s => s
  | fuel+1, leaf k tk v :: rest, s =>
    if pred (k, tk, v) then
      match f s (k, tk, v) with
      | (s', true) => allLoop pred f fuel rest s'
      | (s', false) => s'
    else allLoop pred f fuel rest s
  | fuel+1, node _ _ _ ch :: rest, s => allLoop pred f fuel (ch.map (·.2) ++ rest) s

/-- `backward`: children pop in descending byte order. -/
def backLoop (f : Yield σ V) : Nat → List (T V) → σ → σ
  | 0, _, s => s
  | _+1, [], s => s
  | fuel+1, leaf k tk v :: rest, s =>
    match f s (k, tk, v) with
    | (s', true) => backLoop f fuel rest s'
    | (s', false) => s'
  | fuel+1, node _ _ _ ch :: rest, s => backLoop f fuel ((ch.map (·.2)).reverse ++ rest) s

def stackFuel (t : T V) : Nat := nodes t + 1

def all (t : Option (T V)) (f : Yield σ V) (s : σ) : σ :=
  match t with
  | none => s
  | some r => allLoop (fun _ => true) f (stackFuel r) [r] s

def backward (t : Option (T V)) (f : Yield σ V) (s : σ) : σ :=
  match t with
  | none => s
  | some r => backLoop f (stackFuel r) [r] s

def filter (t : Option (T V)) (pred : Item V → Bool) (f : Yield σ V) (s : σ) : σ :=
  match t with
  | none => s
  | some r => allLoop pred f (stackFuel r) [r] s

/-- `rangeScan`: leaves below `start` are skipped, the first leaf above `end` ends the scan, an
    inner node whose compressed path starts with a byte other than `search[depth]` is pruned.
    `depth` belongs to the stack entry. -/
def rangeLoop (start stop search : Bytes) (f : Yield σ V) : Nat → List (T V × Nat) → σ → σ
  | 0, _, s => s
  | _+1, [], s => s
  | fuel+1, (leaf k tk v, _) :: rest, s =>
    if lexLt k start then rangeLoop start stop search f fuel rest s
    else if lexLt stop k then s
    else
      match f s (k, tk, v) with
      | (s', true) => rangeLoop start stop search f fuel rest s'
      | (s', false) => s'
  | fuel+1, (node _ plen inl ch, d) :: rest, s =>
    if plen > 0 ∧ d < search.length ∧
        lcpLen inl ((search.drop d).take Gen.maxPrefixLen) = 0 then
      rangeLoop start stop search f fuel rest s
    else
      rangeLoop start stop search f fuel (ch.map (fun bc => (bc.2, d + plen + 1)) ++ rest) s

def rangeScan (t : Option (T V)) (start stop tstart tstop : Bytes) (f : Yield σ V) (s : σ) : σ :=
  match t with
  | none => s
  | some r =>
    let search := tstart.take (lcpLen tstart tstop)
    rangeLoop start stop search f (stackFuel r) [(r, 0)] s

/-- `lowestCommonParent` (descent along `p`): a subtree containing every key that starts with `p`,
    or `none` when no key can. -/
def lowestCommonParent : Nat → T V → Bytes → Nat → Option (T V)
  | 0, _, _, _ => none
  | fuel+1, t, p, d =>
    match t with
    | leaf .. => some t
    | node _ plen inl ch =>
      let idx := if plen ≠ 0 then prefixMismatch plen inl (minTKey t) p d else 0
      if plen ≠ 0 ∧ d + idx ≥ p.length then some t
      else if plen ≠ 0 ∧ idx < plen then none
      else
        let d' := d + plen
        match p[d']? with
        | none => some t
        | some b =>
          match lookupCh b ch with
          | none => none
          | some c => lowestCommonParent fuel c p (d' + 1)

/-- `topK` / `bottomK` wrap the consumer with a per-pass counter. -/
def limitYield (f : Yield σ V) : Yield (σ × Nat) V := fun (s, n) it =>
  if n = 0 then ((s, n), false)
  else
    match f s it with
    | (s', true) => ((s', n - 1), true)
    | (s', false) => ((s', n), false)

def bottomK (t : Option (T V)) (n : Nat) (f : Yield σ V) (s : σ) : σ :=
  if n = 0 then s else (all t (limitYield f) (s, n)).1

def topK (t : Option (T V)) (n : Nat) (f : Yield σ V) (s : σ) : σ :=
  if n = 0 then s else (backward t (limitYield f) (s, n)).1

/-- the consumer used by the harness: collect, and answer `false` on the `stop`-th element (0 = never) -/
def collect (stop : Nat) : Yield (List (Item V)) V := fun acc it =>
  (it :: acc, !(stop != 0 && (it :: acc).length == stop))

end T
end ArtVerif
