/-
  Micro-model of Go slices for the key prologue of Insert/Search/Delete/Range on byte-string trees:
  a heap of byte arrays, slices as (array, offset, length, capacity), `append` of one byte, and the
  three-index reslice `s[:n:n]`.
-/
import ArtVerif.Model.Bytes
namespace ArtVerif

structure Slice where
  arr : Nat      -- index of the backing array in the heap
  off : Nat
  len : Nat
  cap : Nat      -- capacity counted from `off`
  deriving DecidableEq, Repr

abbrev Heap := List Bytes

namespace Slice

def bytes (h : Heap) (s : Slice) : Bytes := ((h.getD s.arr []).drop s.off).take s.len

def wellFormed (h : Heap) (s : Slice) : Prop :=
  s.arr < h.length ∧ s.len ≤ s.cap ∧ s.off + s.cap ≤ (h.getD s.arr []).length

/-- Go's `append(s, b)`: in place when there is spare capacity, otherwise into a fresh array -/
def append1 (h : Heap) (s : Slice) (b : UInt8) : Heap × Slice :=
  if s.len < s.cap then
    (h.set s.arr ((h.getD s.arr []).set (s.off + s.len) b), { s with len := s.len + 1 })
  else
    (h ++ [bytes h s ++ [b]], { arr := h.length, off := 0, len := s.len + 1, cap := s.len + 1 })

/-- `s[:len(s):len(s)]` -/
def clip (s : Slice) : Slice := { s with cap := s.len }

/-- the unrepaired prologue for `[]byte` keys: `keyS = append(keyS, 0)` with `keyS` aliasing the argument -/
def prologueOld (h : Heap) (arg : Slice) : Heap × Slice := append1 h arg 0

/-- the repaired prologue: `keyS = append(keyS[:len(keyS):len(keyS)], 0)` -/
def prologueNew (h : Heap) (arg : Slice) : Heap × Slice := append1 h (clip arg) 0

end Slice
end ArtVerif
