/-
  The `Range` and `Prefix` entry points of trees.go / collation.go on top of the loops of Model/Iter.lean.
  Arguments are the byte keys as the tree stores them (byte-string keys carry their 0x00 terminator,
  numeric keys are their encodings).
-/
import ArtVerif.Model.Iter
namespace ArtVerif
namespace Tree
open T
variable {V σ : Type}

/-- common part of every `Range`: order the bounds, scan -/
def rangeBytes (t : Tree V) (a b : Bytes) (f : Yield σ V) (s : σ) : σ :=
  if lexLt b a then T.rangeScan t.root b a b a f s else T.rangeScan t.root a b a b f s

/-- numeric trees: `start == end` goes through `Search` and yields the bound itself -/
def rangeNum (t : Tree V) (a b : Bytes) (f : Yield σ V) (s : σ) : σ :=
  if a = b then
    match t.search a a with
    | some v => (f s (a, a, v)).1
    | none => s
  else rangeBytes t a b f s

/-- byte-string trees with an empty end bound: up to the largest stored key (nothing on an empty tree) -/
def rangeOpen (t : Tree V) (a : Bytes) (f : Yield σ V) (s : σ) : σ :=
  match t.maximum with
  | none => s
  | some (mx, _, _) => rangeBytes t a mx f s

/-- `Prefix` of byte-string trees (`p` without terminator) -/
def prefixBytes (t : Tree V) (p : Bytes) (f : Yield σ V) (s : σ) : σ :=
  if p = [] then T.all t.root f s
  else
    T.filter (t.root.bind (fun r => T.lowestCommonParent (p.length + 2) r p 0))
      (fun it => hasPrefix it.1.dropLast p) f s

/-- `Prefix` of collation trees: filter on the original bytes over the whole tree -/
def prefixColl (t : Tree V) (p : Bytes) (f : Yield σ V) (s : σ) : σ :=
  if p = [] then T.all t.root f s
  else T.filter t.root (fun it => hasPrefix it.1 p) f s

end Tree
end ArtVerif
