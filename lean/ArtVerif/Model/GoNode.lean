/-
  Go run-time behaviour that the regenerated child-table methods of node.go (`Gen/NodeOps.lean`) refer to.

  * Go `uint8` / `uint32` are Lean `UInt8` / `UInt32` (wrap-around arithmetic), `int` is `Int`.
  * A `nodeRef` VALUE is `Option C` – `none` for a nil pointer (the tag of a reference with a nil pointer is never
    looked at by node.go).  `C` is whatever the reference designates (a subtree); the two things node.go does to it
    – read its tag, read / write the header of the inner node it points to – are the parameters `Env.isLeaf`,
    `Env.hdr`, `Env.setHdr`.
  * An inner node is an `Img` – the three header fields, the `children` array and the `keys` field, which is the SWAR
    word of a node4 (`keysW`) or a byte array (`keysA`: 16 lanes of a node16, 256 index bytes of a node48); a field a
    class does not have is carried along unchanged and never looked at.
  * Indexing an array outside its bounds, slicing with `lo > hi` or `hi > len`, a negative shift count and following a
    nil pointer panic in Go: here they are `none`, and nothing is ever defaulted.
  * `sync.Pool.Get` is the parameter `Env.pool` (the image it hands out, per pool index); `Put` appends the image to
    the `released` list of the result, so that "what goes back to the pool" is part of what the theorems speak about.
-/
import ArtVerif.Model.Bytes
import ArtVerif.Model.Raw
namespace ArtVerif.GoNode

/-- the embedded `node` header, as seen through a `*node` -/
structure HdrV where
  prefixLen : UInt32
  childrenLen : UInt8
  «prefix» : Bytes
  deriving DecidableEq, Repr

structure Img (C : Type) where
  prefixLen : UInt32
  childrenLen : UInt8
  «prefix» : Bytes
  children : List (Option C)
  keysW : BitVec 32
  keysA : Bytes
  deriving DecidableEq, Repr

/-- what `*ref` designates when a method returns: an inner node (tag, image) or a plain reference value -/
inductive Out (C : Type) where
  | node (tag : Nat) (img : Img C)
  | child (c : Option C)
  deriving DecidableEq, Repr

structure Res (C : Type) where
  out : Out C
  released : List (Nat × Img C)
  deriving Repr

structure Env (C : Type) where
  pool : Nat → Img C
  isLeaf : C → Bool
  hdr : C → HdrV
  setHdr : C → HdrV → C

variable {α : Type}

/-- `a[i]` -/
def idx? (a : List α) (i : Int) : Option α := if 0 ≤ i then a[i.toNat]? else none

/-- `a[i] = v` -/
def setIdx (a : List α) (i : Int) (v : α) : Option (List α) :=
  if 0 ≤ i ∧ i.toNat < a.length then some (a.set i.toNat v) else none

/-- `copy(dst[dlo:dhi], src[slo:shi])` (memmove semantics: `src` is read as it was before the call); the new `dst` -/
def goCopy (dst : List α) (dlo dhi : Int) (src : List α) (slo shi : Int) : Option (List α) :=
  if 0 ≤ dlo ∧ dlo ≤ dhi ∧ dhi.toNat ≤ dst.length ∧ 0 ≤ slo ∧ slo ≤ shi ∧ shi.toNat ≤ src.length then
    let n := min (dhi - dlo).toNat (shi - slo).toNat
    some (dst.take dlo.toNat ++ ((src.drop slo.toNat).take n) ++ dst.drop (dlo.toNat + n))
  else none

/-- `clear(a[:])` -/
def clearAll (a : List α) (z : α) : List α := List.replicate a.length z

/-- an `int` used as a shift count / lane position of the node4.go helpers -/
def natOf (i : Int) : Option Nat := if 0 ≤ i then some i.toNat else none

def u8 (b : BitVec 8) : UInt8 := UInt8.ofBitVec b

/-- the zero value of a `node` header -/
def zeroPrefix : Bytes := List.replicate 10 0

end ArtVerif.GoNode
