/-
  Images of the raw node records as the regenerated Go code sees them (`Model/GoNode.lean`) and the run-time helper
  lemmas (checked indexing, `copy`, `uint8` counters) shared by `Proofs/GenNodeOps` (node.go), `GenWalk`, `GenIter`,
  `GenRange`, `GenLcp` (tree.go).  Imports no regenerated module: a translation failure of one source file stops only
  the property modules about that file.
-/
import ArtVerif.Model.GoNode
import ArtVerif.Proofs.RawNodes
namespace ArtVerif
namespace GenNodeOps
open Gen GoNode Raw Swar
variable {C : Type}

/-! ### images of the raw records -/

def hp (h : Hdr) : UInt32 := UInt32.ofNat h.plen
def hl (len : Nat) : UInt8 := UInt8.ofNat len

def img4 (h : Hdr) (len : Nat) (keys : BitVec 32) (slots : List (Option C)) : Img C :=
  { prefixLen := hp h, childrenLen := hl len, «prefix» := h.pfx, children := slots, keysW := keys, keysA := [] }
def img16 (h : Hdr) (len : Nat) (keys : Bytes) (slots : List (Option C)) : Img C :=
  { prefixLen := hp h, childrenLen := hl len, «prefix» := h.pfx, children := slots, keysW := 0#32, keysA := keys }
def img256 (h : Hdr) (len : Nat) (slots : List (Option C)) : Img C :=
  { prefixLen := hp h, childrenLen := hl len, «prefix» := h.pfx, children := slots, keysW := 0#32, keysA := [] }

/-- the image of a raw record and the tag its reference carries -/
def imgOf : Raw C → Nat × Img C
  | .n4 h len keys slots => (0, img4 h len keys slots)
  | .n16 h len keys slots => (1, img16 h len keys slots)
  | .n48 h len idx slots => (2, img16 h len idx slots)
  | .n256 h len slots => (3, img256 h len slots)

def outOf (r : Raw C) : Out C := .node (imgOf r).1 (imgOf r).2

/-- what `sync.Pool` hands out when every pooled node is zero (C12's invariant): the images of `Raw.zero4 … zero256` -/
def zeroImg : Nat → Img C
  | 0 => (imgOf (zero4 : Raw C)).2
  | 1 => (imgOf (zero16 : Raw C)).2
  | 2 => (imgOf (zero48 : Raw C)).2
  | _ => (imgOf (zero256 : Raw C)).2

def PoolsZero (E : Env C) : Prop := ∀ k, E.pool k = zeroImg k

/-! ### the run-time helpers on well-shaped arguments -/

section helpers
variable {α : Type}

theorem idx?_nat (l : List α) (i : Nat) : idx? l (i : Int) = l[i]? := by
  simp [idx?]

theorem setIdx_nat (l : List α) (i : Nat) (v : α) (hi : i < l.length) : setIdx l (i : Int) v = some (l.set i v) := by
  simp [setIdx, hi]

theorem natOf_nat (i : Nat) : natOf (i : Int) = some i := by simp [natOf]

theorem goCopy_nat (dst src : List α) (dlo dhi slo shi : Nat)
    (h1 : dlo ≤ dhi) (h2 : dhi ≤ dst.length) (h3 : slo ≤ shi) (h4 : shi ≤ src.length) :
    goCopy dst (dlo : Int) (dhi : Int) src (slo : Int) (shi : Int) =
      some (dst.take dlo ++ (src.drop slo).take (min (dhi - dlo) (shi - slo)) ++ dst.drop (dlo + min (dhi - dlo) (shi - slo))) := by
  unfold goCopy
  have e1 : ((dhi : Int) - (dlo : Int)).toNat = dhi - dlo := by omega
  have e2 : ((shi : Int) - (slo : Int)).toNat = shi - slo := by omega
  rw [if_pos (by refine ⟨by omega, by omega, by simpa using h2, by omega, by omega, by simpa using h4⟩)]
  simp only [Int.toNat_natCast, e1, e2]

theorem goCopy_up (l : List α) (i : Nat) (hi : i < l.length) :
    goCopy l ((i : Int) + 1) (l.length : Int) l (i : Int) (l.length : Int) = some (shiftUp l i) := by
  have := goCopy_nat l l (i + 1) l.length i l.length (by omega) (Nat.le_refl _) (by omega) (Nat.le_refl _)
  rw [show ((i : Int) + 1) = ((i + 1 : Nat) : Int) by omega, this]
  congr 1
  have hm : min (l.length - (i + 1)) (l.length - i) = l.length - (i + 1) := by omega
  have h : l[i]? = some l[i] := List.getElem?_eq_getElem hi
  simp only [shiftUp, h, hm]
  rw [show i + 1 + (l.length - (i + 1)) = l.length by omega, List.drop_length, List.append_nil]
  rw [List.take_append, List.length_take, Nat.min_eq_left (by omega), List.take_take, Nat.min_eq_right (by omega)]
  rw [show l.length - i = (l.length - (i + 1)) + 1 by omega, List.take_succ_cons]
  rw [List.take_succ_eq_append_getElem hi, List.append_assoc]
  rfl

theorem shiftUp_length (l : List α) (i : Nat) : (shiftUp l i).length = l.length := by
  unfold shiftUp
  rcases h : l[i]? with _ | x
  · rfl
  · simp; omega

theorem goCopy_down (l : List α) (i : Nat) (hi : i < l.length) :
    goCopy l (i : Int) (l.length : Int) l ((i : Int) + 1) (l.length : Int) = some (shiftDown l i) := by
  have := goCopy_nat l l i l.length (i + 1) l.length (by omega) (Nat.le_refl _) (by omega) (Nat.le_refl _)
  rw [show ((i : Int) + 1) = ((i + 1 : Nat) : Int) by omega, this]
  congr 1
  have hm : min (l.length - i) (l.length - (i + 1)) = l.length - (i + 1) := by omega
  have hne : l ≠ [] := by intro h; simp [h] at hi
  obtain ⟨x, hx⟩ : ∃ x, l.getLast? = some x := ⟨l.getLast hne, List.getLast?_eq_some_getLast hne⟩
  simp only [shiftDown, hx, if_pos hi, hm]
  congr 1
  · congr 1
    rw [List.take_of_length_le]; simp
  · rw [show i + (l.length - (i + 1)) = l.length - 1 by omega]
    rw [List.getLast?_eq_getElem?] at hx
    exact (List.drop_eq_getElem_cons (by omega)).trans (by
      have : l[l.length - 1]'(by omega) = x := by
        have := List.getElem?_eq_getElem (l := l) (i := l.length - 1) (by omega)
        rw [hx] at this; exact (Option.some.inj this).symm
      rw [this, show l.length - 1 + 1 = l.length by omega, List.drop_length])

theorem goCopy_front (dst src : List α) (dhi : Nat) (h2 : dhi ≤ dst.length) :
    goCopy dst (0 : Int) (dhi : Int) src (0 : Int) (src.length : Int) =
      some (src.take dhi ++ dst.drop (min dhi src.length)) := by
  have := goCopy_nat dst src 0 dhi 0 src.length (by omega) h2 (by omega) (Nat.le_refl _)
  rw [show (0 : Int) = ((0 : Nat) : Int) by rfl, this]
  simp [List.take_take]

end helpers

/-! ### `uint8` counters -/

theorem hl_succ (len : Nat) : hl len + 1 = hl ((len + 1) % 256) := by
  apply UInt8.toNat_inj.1
  simp [hl, UInt8.toNat_add]
theorem hl_pred (len : Nat) : hl len - 1 = hl ((len + 255) % 256) := by
  apply UInt8.toNat_inj.1
  simp [hl, UInt8.toNat_sub]
  omega
theorem hl_toNat (len : Nat) (h : len < 256) : (hl len).toNat = len := by
  simp [hl]; omega
theorem hl_lt (len n : Nat) (h : len < 256) (hn : n < 256) : (hl len < UInt8.ofNat n) ↔ len < n := by
  rw [UInt8.lt_iff_toNat_lt, hl_toNat _ h]; simp; omega
theorem hl_eq (len n : Nat) (h : len < 256) (hn : n < 256) : (hl len = UInt8.ofNat n) ↔ len = n := by
  rw [← UInt8.toNat_inj, hl_toNat _ h]; simp; omega

theorem firstIdx_cases (p : UInt8 → Bool) (l : List UInt8) :
    firstIdx p l = -1 ∨ ∃ n : Nat, firstIdx p l = (n : Int) ∧ n < l.length := by
  rw [firstIdx_eq]
  by_cases h : l.findIdx p < l.length
  · right; exact ⟨_, by rw [if_pos h], h⟩
  · left; rw [if_neg h]

theorem idx?_join (l : List (Option C)) (n : Nat) (h : n < l.length) :
    idx? l (n : Int) = some ((l[n]?).join) := by
  rw [idx?_nat, List.getElem?_eq_getElem h]; rfl

theorem hl_lt' (len n : Nat) (h : len < 256) (hn : n < 256) : decide (hl len < UInt8.ofNat n) = decide (len < n) := by
  simp only [hl_lt len n h hn]

theorem u8_ofNat_succ' (q : Nat) : UInt8.ofNat q + 1 = UInt8.ofNat (q + 1) := by
  apply UInt8.toNat_inj.1; simp [UInt8.toNat_add]

theorem u8_pred_toNat (p : UInt8) (hp : p ≠ 0) : (p - 1).toNat = p.toNat - 1 := by
  have hpos : 0 < p.toNat := by
    rcases Nat.eq_zero_or_pos p.toNat with h0 | h0
    · exact absurd (UInt8.toNat_inj.1 (by simpa using h0)) hp
    · exact h0
  rw [UInt8.toNat_sub_of_le]; · rfl
  · rw [UInt8.le_iff_toNat_le]; exact hpos

theorem u8_pos (p : UInt8) (hp : p ≠ 0) : 0 < p.toNat := by
  rcases Nat.eq_zero_or_pos p.toNat with h0 | h0
  · exact absurd (UInt8.toNat_inj.1 (by simpa using h0)) hp
  · exact h0

theorem hl_not_lt (len n : Nat) (h : len < 256) (hn : n < 256) (hlen : ¬ len < n) (x : UInt8) (hx : x = hl len) :
    decide (x < UInt8.ofNat n) = false := by
  subst hx
  rw [hl_lt' len n h hn]; simpa using hlen

theorem hl_beq (len n : Nat) (h : len < 256) (hn : n < 256) : (hl len == UInt8.ofNat n) = (len == n) := by
  rw [Bool.eq_iff_iff]; simp only [beq_iff_eq]; exact hl_eq len n h hn

theorem shiftDown_length' {α} (l : List α) (i : Nat) : (shiftDown l i).length = l.length := shiftDown_length l i


end GenNodeOps
end ArtVerif
