/-
  The explicit-stack loops of tree.go compute a left fold with early exit over the
  in-order leaf list; `minimum`/`maximum` pick its ends; `topK`/`bottomK` its first `n`.
-/
import ArtVerif.Model.Iter
namespace ArtVerif
namespace T
variable {V : Type} {σ : Type}

/-- induction principle for the nested tree type -/
theorem induct {motive : T V → Prop}
    (hleaf : ∀ k tk v, motive (leaf k tk v))
    (hnode : ∀ kind plen inl ch, (∀ bc ∈ ch, motive bc.2) → motive (node kind plen inl ch)) :
    ∀ t, motive t := by
  intro t; exact go t
where
  go : (t : T V) → motive t
    | leaf k tk v => hleaf k tk v
    | node kind plen inl ch => hnode kind plen inl ch (goL ch)
  goL : (ch : List (UInt8 × T V)) → ∀ bc ∈ ch, motive bc.2
    | [] => by intro bc h; cases h
    | (b, c) :: cs => by
      intro bc h
      cases h with
      | head => exact go c
      | tail _ h' => exact goL cs bc h'

theorem inorderL_eq (ch : Ch V) : inorderL ch = (ch.map (·.2)).flatMap inorder := by
  induction ch with
  | nil => simp [inorderL]
  | cons bc rest ih => obtain ⟨b, c⟩ := bc; simp [inorderL, ih]

theorem nodesL_eq (ch : Ch V) : nodesL ch = ((ch.map (·.2)).map nodes).sum := by
  induction ch with
  | nil => simp [nodesL]
  | cons bc rest ih => obtain ⟨b, c⟩ := bc; simp [nodesL, ih]

def stackNodes (st : List (T V)) : Nat := (st.map nodes).sum

/-- `all`/`filter`: the loop is the early-exit fold over the in-order leaves that satisfy `pred`. -/
theorem allLoop_eq (pred : Item V → Bool) (f : Yield σ V) :
    ∀ (fuel : Nat) (st : List (T V)) (s : σ), stackNodes st < fuel →
      allLoop pred f fuel st s = foldUntil f s ((st.flatMap inorder).filter pred) := by
  intro fuel
  induction fuel with
  | zero => intro st s h; omega
  | succ fuel ih =>
    intro st s h
    match st with
    | [] => simp [allLoop, foldUntil]
    | leaf k tk v :: rest =>
      have hr : stackNodes rest < fuel := by simp [stackNodes, nodes] at h ⊢; omega
      simp only [allLoop, List.flatMap_cons, inorder, List.cons_append, List.nil_append, List.filter_cons]
      by_cases hp : pred (k, tk, v) = true
      · simp only [hp, if_true, foldUntil]
        cases hf : f s (k, tk, v) with
        | mk s' c => cases c <;> simp [ih rest s' hr]
      · simp only [hp, if_false, Bool.false_eq_true]
        exact ih rest s hr
    | node kind plen inl ch :: rest =>
      have hr : stackNodes (ch.map (·.2) ++ rest) < fuel := by
        simp [stackNodes, nodes, nodesL_eq] at h ⊢; omega
      simp only [allLoop, List.flatMap_cons, inorder]
      rw [ih _ s hr, List.flatMap_append, inorderL_eq]

theorem flatMap_reverse_rev (l : List (T V)) :
    l.reverse.flatMap (fun t => (inorder t).reverse) = (l.flatMap inorder).reverse := by
  induction l with
  | nil => simp
  | cons a l ih => simp [List.flatMap_append, ih]

/-- `backward`: the early-exit fold over the reversed in-order list. -/
theorem backLoop_eq (f : Yield σ V) :
    ∀ (fuel : Nat) (st : List (T V)) (s : σ), stackNodes st < fuel →
      backLoop f fuel st s = foldUntil f s (st.flatMap (fun t => (inorder t).reverse)) := by
  intro fuel
  induction fuel with
  | zero => intro st s h; omega
  | succ fuel ih =>
    intro st s h
    match st with
    | [] => simp [backLoop, foldUntil]
    | leaf k tk v :: rest =>
      have hr : stackNodes rest < fuel := by simp [stackNodes, nodes] at h ⊢; omega
      simp only [backLoop, List.flatMap_cons, inorder, List.reverse_cons, List.reverse_nil,
        List.nil_append, List.cons_append, foldUntil]
      cases hf : f s (k, tk, v) with
      | mk s' c => cases c <;> simp [ih rest s' hr]
    | node kind plen inl ch :: rest =>
      have hr : stackNodes ((ch.map (·.2)).reverse ++ rest) < fuel := by
        simp [stackNodes, nodes, nodesL_eq] at h ⊢; omega
      simp only [backLoop, List.flatMap_cons, inorder]
      rw [ih _ s hr, List.flatMap_append, flatMap_reverse_rev, inorderL_eq]

/-! ### the three entry points -/

def leaves (t : Option (T V)) : List (Item V) :=
  match t with
  | none => []
  | some r => inorder r

theorem all_eq (t : Option (T V)) (f : Yield σ V) (s : σ) :
    all t f s = foldUntil f s (leaves t) := by
  cases t with
  | none => simp [all, leaves, foldUntil]
  | some r =>
    simp only [all, leaves]
    rw [allLoop_eq]
    · simp [List.filter_eq_self.mpr]
    · simp [stackNodes, stackFuel]

theorem backward_eq (t : Option (T V)) (f : Yield σ V) (s : σ) :
    backward t f s = foldUntil f s (leaves t).reverse := by
  cases t with
  | none => simp [backward, leaves, foldUntil]
  | some r =>
    simp only [backward, leaves]
    rw [backLoop_eq]
    · simp
    · simp [stackNodes, stackFuel]

theorem filter_eq (t : Option (T V)) (pred : Item V → Bool) (f : Yield σ V) (s : σ) :
    filter t pred f s = foldUntil f s ((leaves t).filter pred) := by
  cases t with
  | none => simp [filter, leaves, foldUntil]
  | some r =>
    simp only [filter, leaves]
    rw [allLoop_eq]
    · simp
    · simp [stackNodes, stackFuel]

/-! ### `topK` / `bottomK` -/

theorem foldUntil_limit (f : Yield σ V) :
    ∀ (xs : List (Item V)) (s : σ) (n : Nat),
      (foldUntil (limitYield f) (s, n) xs).1 = foldUntil f s (xs.take n) := by
  intro xs
  induction xs with
  | nil => intro s n; simp [foldUntil]
  | cons x xs ih =>
    intro s n
    cases n with
    | zero => simp [foldUntil, limitYield]
    | succ n =>
      simp only [foldUntil, limitYield, List.take_succ_cons]
      cases hf : f s x with
      | mk s' c =>
        cases c with
        | true => simp [ih]
        | false => simp

theorem bottomK_eq (t : Option (T V)) (n : Nat) (f : Yield σ V) (s : σ) :
    bottomK t n f s = foldUntil f s ((leaves t).take n) := by
  unfold bottomK
  by_cases h : n = 0
  · simp [h, foldUntil]
  · simp only [h, if_false, all_eq, foldUntil_limit]

theorem topK_eq (t : Option (T V)) (n : Nat) (f : Yield σ V) (s : σ) :
    topK t n f s = foldUntil f s ((leaves t).reverse.take n) := by
  unfold topK
  by_cases h : n = 0
  · simp [h, foldUntil]
  · simp only [h, if_false, backward_eq, foldUntil_limit]

/-! ### `minimum` / `maximum` -/

/-- every inner node has a child (implied by well-formedness: at least two) -/
inductive Full : T V → Prop where
  | leaf (k tk v) : Full (leaf k tk v)
  | node (kind plen inl ch) : ch ≠ [] → (∀ bc ∈ ch, Full bc.2) → Full (node kind plen inl ch)

theorem inorder_ne_nil : ∀ (t : T V), Full t → inorder t ≠ [] := by
  intro t
  induction t using induct with
  | hleaf k tk v => intro _; simp [inorder]
  | hnode kind plen inl ch ih =>
    intro h
    cases h with
    | node _ _ _ _ hne hall =>
      cases ch with
      | nil => exact absurd rfl hne
      | cons bc rest =>
        obtain ⟨b, c⟩ := bc
        have := ih (b, c) (List.mem_cons_self) (hall (b, c) List.mem_cons_self)
        simp [inorder, inorderL, this]

theorem minLeaf_eq : ∀ (t : T V), Full t → minLeaf t = (inorder t).head? := by
  intro t
  induction t using induct with
  | hleaf k tk v => intro _; simp [minLeaf, inorder]
  | hnode kind plen inl ch ih =>
    intro h
    cases h with
    | node _ _ _ _ hne hall =>
      cases ch with
      | nil => exact absurd rfl hne
      | cons bc rest =>
        obtain ⟨b, c⟩ := bc
        have hc := hall (b, c) List.mem_cons_self
        have h1 := ih (b, c) List.mem_cons_self hc
        have h2 := inorder_ne_nil c hc
        simp only [minLeaf, minLeafL, inorder, inorderL] at h1 ⊢
        rw [h1, List.head?_append]
        cases hh : (inorder c) with
        | nil => exact absurd hh h2
        | cons x xs => simp

theorem maxLeafL_eq (ch : Ch V) (hne : ch ≠ [])
    (ih : ∀ bc ∈ ch, Full bc.2 → maxLeaf bc.2 = (inorder bc.2).getLast?)
    (hall : ∀ bc ∈ ch, Full bc.2) : maxLeafL ch = (inorderL ch).getLast? := by
  induction ch with
  | nil => exact absurd rfl hne
  | cons bc rest ihl =>
    obtain ⟨b, c⟩ := bc
    cases rest with
    | nil =>
      have := ih (b, c) List.mem_cons_self (hall _ List.mem_cons_self)
      simpa [maxLeafL, inorderL] using this
    | cons c2 rest2 =>
      have hrest := ihl (by simp)
        (fun bc hm => ih bc (List.mem_cons_of_mem _ hm))
        (fun bc hm => hall bc (List.mem_cons_of_mem _ hm))
      have hne2 : inorderL (c2 :: rest2) ≠ [] := by
        obtain ⟨b2, t2⟩ := c2
        have := inorder_ne_nil t2 (hall (b2, t2) (by simp))
        simp [inorderL, this]
      have e1 : maxLeafL ((b, c) :: c2 :: rest2) = maxLeafL (c2 :: rest2) := by
        obtain ⟨b2, t2⟩ := c2; simp [maxLeafL]
      have e2 : inorderL ((b, c) :: c2 :: rest2) = inorder c ++ inorderL (c2 :: rest2) := by
        rw [inorderL]
      rw [e1, e2, hrest, List.getLast?_append]
      cases hh : (inorderL (c2 :: rest2)).getLast? with
      | none => simp [List.getLast?_eq_none_iff] at hh; exact absurd hh hne2
      | some x => simp

theorem maxLeaf_eq : ∀ (t : T V), Full t → maxLeaf t = (inorder t).getLast? := by
  intro t
  induction t using induct with
  | hleaf k tk v => intro _; simp [maxLeaf, inorder]
  | hnode kind plen inl ch ih =>
    intro h
    cases h with
    | node _ _ _ _ hne hall =>
      simp only [maxLeaf, inorder]
      exact maxLeafL_eq ch hne ih hall

end T
end ArtVerif
