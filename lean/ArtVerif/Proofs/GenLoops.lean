/-
  The byte-scanning helpers of tree.go as regenerated from the source (`Gen/Loops.lean`: statement by statement,
  loops by recursion on fuel, Go `int`s as `Int`, an out-of-range index = `none`) compute what the tree model uses
  in their place:

    longestCommonPrefix(key, other, depth)  =  lcpLen (key.drop depth) (other.drop depth)
    n.checkPrefix(key, depth)               =  lcpLen (first min(prefixLen,10) bytes of n.prefix) (key.drop depth)
                                               (= min(prefixLen,10) exactly when `T.checkPrefixOk`)
    prefixMismatch(n, key, depth)           =  T.prefixMismatch prefixLen (first min(prefixLen,10) bytes) minLeafKey key depth

  and never index out of range, for every key, every depth ≥ 0 and every node header with a 10-byte prefix array.
  Kernel-only.
-/
import ArtVerif.Gen.Loops
import ArtVerif.Model.Tree
namespace ArtVerif.GenLoops
open ArtVerif ArtVerif.Gen.Loops

/-! ### the list-level recurrence all four loops follow -/

/-- common-prefix length of `a` from `i` and `b` from `j`, looking at most `n` bytes ahead -/
def lcpFrom (a b : Bytes) (i j n : Nat) : Nat := lcpLen ((a.drop i).take n) ((b.drop j).take n)

theorem lcpFrom_zero (a b : Bytes) (i j : Nat) : lcpFrom a b i j 0 = 0 := by simp [lcpFrom, lcpLen]

theorem lcpFrom_succ (a b : Bytes) (i j n : Nat) (hi : i < a.length) (hj : j < b.length) :
    lcpFrom a b i j (n + 1) = if a[i] = b[j] then lcpFrom a b (i + 1) (j + 1) n + 1 else 0 := by
  unfold lcpFrom
  rw [List.drop_eq_getElem_cons hi, List.drop_eq_getElem_cons hj, List.take_succ_cons, List.take_succ_cons]
  simp only [lcpLen]

theorem lcpLen_nil_right (a : Bytes) : lcpLen a [] = 0 := by cases a <;> rfl
theorem lcpLen_nil_left (a : Bytes) : lcpLen [] a = 0 := rfl

theorem lcpFrom_le (a b : Bytes) (i j n : Nat) : lcpFrom a b i j n ≤ n := by
  induction n generalizing i j with
  | zero => simp [lcpFrom_zero]
  | succ n ih =>
    by_cases hi : i < a.length
    · by_cases hj : j < b.length
      · rw [lcpFrom_succ a b i j n hi hj]
        split
        · have := ih (i + 1) (j + 1); omega
        · omega
      · simp [lcpFrom, List.drop_eq_nil_of_le (Nat.le_of_not_lt hj), lcpLen_nil_right]
    · simp [lcpFrom, List.drop_eq_nil_of_le (Nat.le_of_not_lt hi), lcpLen]

theorem lcpLen_le_left : ∀ (a b : Bytes), lcpLen a b ≤ a.length
  | [], _ => by simp [lcpLen]
  | _ :: _, [] => by simp [lcpLen]
  | x :: a, y :: b => by
    simp only [lcpLen]; split
    · have := lcpLen_le_left a b; simp; omega
    · omega
theorem lcpLen_le_right : ∀ (a b : Bytes), lcpLen a b ≤ b.length
  | [], _ => by simp [lcpLen]
  | _ :: _, [] => by simp [lcpLen]
  | x :: a, y :: b => by
    simp only [lcpLen]; split
    · have := lcpLen_le_right a b; simp; omega
    · omega

/-- looking ahead at least as far as the shorter list is looking all the way -/
theorem lcpLen_take : ∀ (a b : Bytes) (n : Nat), min a.length b.length ≤ n →
    lcpLen (a.take n) (b.take n) = lcpLen a b
  | [], _, _, _ => by simp [lcpLen]
  | _ :: _, [], _, _ => by simp [lcpLen_nil_right]
  | x :: a, y :: b, 0, h => by simp at h
  | x :: a, y :: b, n + 1, h => by
    simp only [List.take_succ_cons, lcpLen]
    rw [lcpLen_take a b n (by simp at h; omega)]

theorem lcpFrom_full (a b : Bytes) (i j n : Nat) (h : min (a.length - i) (b.length - j) ≤ n) :
    lcpFrom a b i j n = lcpLen (a.drop i) (b.drop j) := by
  unfold lcpFrom
  exact lcpLen_take _ _ n (by simpa using h)

theorem idxB_nat (a : Bytes) (i : Nat) : idxB a (i : Int) = a[i]? := by
  simp [idxB]

/-! ### `longestCommonPrefix` -/

theorem lcp_loop (key other : Bytes) (depth : Int) :
    ∀ (fuel n i : Nat), n < fuel → i + n ≤ key.length → i + n ≤ other.length →
      longestCommonPrefix.loop0 key other depth ((i + n : Nat) : Int) fuel (i : Int) =
        some (.ok ((i + lcpFrom key other i i n : Nat) : Int)) := by
  intro fuel
  induction fuel with
  | zero => intro n i h; omega
  | succ fuel ih =>
    intro n i hf hk ho
    cases n with
    | zero =>
      simp [longestCommonPrefix.loop0, lcpFrom_zero]
    | succ n =>
      have hi1 : i < key.length := by omega
      have hi2 : i < other.length := by omega
      have hlt : ((i : Int) < ((i + (n + 1) : Nat) : Int)) := by omega
      simp only [longestCommonPrefix.loop0, hlt, decide_true, if_true, idxB_nat,
        List.getElem?_eq_getElem hi1, List.getElem?_eq_getElem hi2, bind, Option.bind, pure]
      rw [lcpFrom_succ key other i i n hi1 hi2]
      by_cases he : key[i] = other[i]
      · have : ((i : Int) + 1) = ((i + 1 : Nat) : Int) := by omega
        simp only [he, bne_self_eq_false, Bool.false_eq_true, if_false, if_true, this]
        have := ih n (i + 1) (by omega) (by omega) (by omega)
        rw [show i + (n + 1) = i + 1 + n by omega, this]
        congr 3; omega
      · simp [he]

theorem longestCommonPrefix_eq (key other : Bytes) (d : Nat) :
    longestCommonPrefix key other (d : Int) = some ((lcpLen (key.drop d) (other.drop d) : Nat) : Int) := by
  unfold longestCommonPrefix
  simp only [bind, Option.bind, pure]
  by_cases hd : d ≤ min key.length other.length
  · obtain ⟨n, hn⟩ : ∃ n, min key.length other.length = d + n := ⟨_, (Nat.add_sub_cancel' hd).symm⟩
    have hm : (min (key.length : Int) (other.length : Int)) = ((d + n : Nat) : Int) := by omega
    rw [hm, lcp_loop key other d _ n d (by omega) (by omega) (by omega)]
    simp only
    rw [lcpFrom_full key other d d n (by omega)]
    congr 1; omega
  · -- the loop does not run
    have hnlt : ¬ ((d : Int) < min (key.length : Int) (other.length : Int)) := by omega
    have hfuel : ∃ f, ((min (key.length : Int) (other.length : Int)) - (d : Int)).toNat + 1 = f + 1 := ⟨_, rfl⟩
    obtain ⟨f, hf⟩ := hfuel
    rw [hf]
    simp only [longestCommonPrefix.loop0, hnlt, decide_false, Bool.false_eq_true, if_false, pure]
    have : lcpLen (key.drop d) (other.drop d) = 0 := by
      by_cases h1 : key.length ≤ d
      · simp [List.drop_eq_nil_of_le h1, lcpLen]
      · have h2 : other.length ≤ d := by omega
        simp [List.drop_eq_nil_of_le h2, lcpLen_nil_right]
    rw [this]; simp

/-! ### loops that `return idx` on the first difference (`checkPrefix`, both loops of `prefixMismatch`) -/

/-- the outcome of such a loop started at `i` with `n` bytes to go, `l` of which agree -/
def outcome (i n l : Nat) : Except Int Int := if l < n then .error ((i + l : Nat) : Int) else .ok ((i + n : Nat) : Int)

theorem outcome_zero (i : Nat) : outcome i 0 0 = .ok (i : Int) := by simp [outcome]

/-- what such a loop leaves in `idx`, whichever way it is left (`break`/fall-through = `.ok`, `return idx` = `.error`):
    `(*node).checkPrefix` continues with `return idx` in both cases, so its proof does not depend on which of the two
    forms the source uses -/
def flat : Except Int Int → Int
  | .ok v => v
  | .error v => v

theorem checkPrefix_loop (plen : Int) (pfx key : Bytes) (d : Nat) :
    ∀ (fuel n i : Nat), n < fuel → i + n ≤ pfx.length → d + i + n ≤ key.length →
      (checkPrefix.loop0 plen pfx key (d : Int) ((i + n : Nat) : Int) fuel (i : Int)).map flat =
        some (((i + lcpFrom pfx key i (d + i) n : Nat)) : Int) := by
  intro fuel
  induction fuel with
  | zero => intro n i h; omega
  | succ fuel ih =>
    intro n i hf hp hk
    cases n with
    | zero => simp [checkPrefix.loop0, lcpFrom_zero, flat]
    | succ n =>
      have hi1 : i < pfx.length := by omega
      have hi2 : d + i < key.length := by omega
      have hlt : ((i : Int) < ((i + (n + 1) : Nat) : Int)) := by omega
      have hidx : ((d : Int) + (i : Int)) = ((d + i : Nat) : Int) := by omega
      simp only [checkPrefix.loop0, hlt, decide_true, if_true, hidx, idxB_nat,
        List.getElem?_eq_getElem hi1, List.getElem?_eq_getElem hi2, bind, Option.bind, pure]
      rw [lcpFrom_succ pfx key i (d + i) n hi1 hi2]
      by_cases he : pfx[i] = key[d + i]
      · have h1 : ((i : Int) + 1) = ((i + 1 : Nat) : Int) := by omega
        simp only [he, bne_self_eq_false, Bool.false_eq_true, if_false, if_true, h1]
        have := ih n (i + 1) (by omega) (by omega) (by omega)
        rw [show i + (n + 1) = i + 1 + n by omega, show d + (i + 1) = d + i + 1 by omega] at *
        rw [this]
        congr 2; omega
      · simp [he, flat]

/-- the first `min(prefixLen,10)` bytes of the prefix array -/
def inl (plen : Nat) (pfx : Bytes) : Bytes := pfx.take (min plen 10)

theorem checkPrefix_eq (plen : Nat) (pfx key : Bytes) (d : Nat) (hp : pfx.length = 10) :
    checkPrefix (plen : Int) pfx key (d : Int) = some ((lcpLen (inl plen pfx) (key.drop d) : Nat) : Int) := by
  unfold checkPrefix
  simp only [bind, Option.bind, pure]
  by_cases hd : d ≤ key.length
  · -- maxCmp = min (min plen 10) (len key - d) ≥ 0
    obtain ⟨n, hn⟩ : ∃ n : Nat, n = min (min plen 10) (key.length - d) := ⟨_, rfl⟩
    have hm : (min (min (plen : Int) 10) ((key.length : Int) - (d : Int))) = ((0 + n : Nat) : Int) := by omega
    rw [hm]
    have := checkPrefix_loop (plen : Int) pfx key d (n + 1) n 0 (by omega) (by omega) (by omega)
    simp only [Int.sub_zero, Int.toNat_natCast, Nat.zero_add] at this ⊢
    rw [show ((0 : Nat) : Int) = 0 from rfl] at this
    have hl : lcpFrom pfx key 0 (d + 0) n = lcpLen (inl plen pfx) (key.drop d) := by
      unfold lcpFrom inl
      simp only [List.drop_zero, Nat.add_zero]
      by_cases hc : min plen 10 ≤ key.length - d
      · have hn' : n = min plen 10 := by omega
        rw [hn', ← lcpLen_take (pfx.take (min plen 10)) (key.drop d) (min plen 10) (by simp; omega)]
        simp [List.take_take]
      · have hn' : n = key.length - d := by omega
        rw [← lcpLen_take (pfx.take (min plen 10)) (key.drop d) n (by simp; omega)]
        congr 1
        simp [List.take_take]; omega
    rw [hl] at this
    rcases hx : checkPrefix.loop0 (plen : Int) pfx key (d : Int) (n : Int) (n + 1) 0 with _ | a
    · rw [hx] at this; simp at this
    · rw [hx] at this
      simp only [Option.map_some, Option.some.injEq] at this
      cases a <;> simp only [flat] at this <;> simp only [this]
  · have hnlt : ¬ ((0 : Int) < min (min (plen : Int) 10) ((key.length : Int) - (d : Int))) := by omega
    obtain ⟨f, hf⟩ : ∃ f, ((min (min (plen : Int) 10) ((key.length : Int) - (d : Int))) - 0).toNat + 1 = f + 1 := ⟨_, rfl⟩
    rw [hf]
    simp only [checkPrefix.loop0, hnlt, decide_false, Bool.false_eq_true, if_false, pure]
    have : key.drop d = [] := List.drop_eq_nil_of_le (by omega)
    simp [this, lcpLen_nil_right]

/-- `checkPrefix(key, depth) == min(prefixLen, maxPrefixLen)` is the model's `checkPrefixOk` -/
theorem hasPrefix_iff_lcpLen : ∀ (ys xs : Bytes), hasPrefix ys xs = true ↔ lcpLen xs ys = xs.length
  | _, [] => by simp [hasPrefix, lcpLen]
  | [], _ :: _ => by simp [hasPrefix, lcpLen]
  | y :: ys, x :: xs => by
    simp only [hasPrefix, lcpLen, Bool.and_eq_true, beq_iff_eq, List.length_cons]
    by_cases h : x = y
    · subst h
      simp only [true_and, if_true, Nat.add_right_cancel_iff]
      constructor
      · intro hh; exact (hasPrefix_iff_lcpLen ys xs).1 hh
      · intro hh; exact (hasPrefix_iff_lcpLen ys xs).2 hh
    · have : ¬ y = x := fun e => h e.symm
      simp [h, this]

theorem checkPrefix_ok_iff (plen : Nat) (pfx key : Bytes) (d : Nat) (hp : pfx.length = 10) :
    checkPrefix (plen : Int) pfx key (d : Int) = some ((min plen 10 : Nat) : Int) ↔
      T.checkPrefixOk (inl plen pfx) key d = true := by
  rw [checkPrefix_eq plen pfx key d hp, T.checkPrefixOk, hasPrefix_iff_lcpLen]
  have : (inl plen pfx).length = min plen 10 := by simp [inl, hp]
  rw [this]
  constructor
  · intro h; have := Option.some.inj h; omega
  · intro h; rw [h]

/-! ### `prefixMismatch` -/

theorem pm_loop0 (plen : Int) (pfx key : Bytes) (d : Nat) :
    ∀ (fuel n i : Nat), n < fuel → i + n ≤ pfx.length → d + i + n ≤ key.length →
      prefixMismatch.loop0 plen pfx key (d : Int) ((i + n : Nat) : Int) fuel (i : Int) =
        some (outcome i n (lcpFrom pfx key i (d + i) n)) := by
  intro fuel
  induction fuel with
  | zero => intro n i h; omega
  | succ fuel ih =>
    intro n i hf hp hk
    cases n with
    | zero => simp [prefixMismatch.loop0, lcpFrom_zero, outcome]
    | succ n =>
      have hi1 : i < pfx.length := by omega
      have hi2 : d + i < key.length := by omega
      have hlt : ((i : Int) < ((i + (n + 1) : Nat) : Int)) := by omega
      have hidx : ((d : Int) + (i : Int)) = ((d + i : Nat) : Int) := by omega
      simp only [prefixMismatch.loop0, hlt, decide_true, if_true, hidx, idxB_nat,
        List.getElem?_eq_getElem hi1, List.getElem?_eq_getElem hi2, bind, Option.bind, pure]
      rw [lcpFrom_succ pfx key i (d + i) n hi1 hi2]
      by_cases he : pfx[i] = key[d + i]
      · have h1 : ((i : Int) + 1) = ((i + 1 : Nat) : Int) := by omega
        simp only [he, bne_self_eq_false, Bool.false_eq_true, if_false, if_true, h1]
        have := ih n (i + 1) (by omega) (by omega) (by omega)
        rw [show i + (n + 1) = i + 1 + n by omega, show d + (i + 1) = d + i + 1 by omega] at *
        rw [this]
        simp only [outcome]
        congr 1
        by_cases hl : lcpFrom pfx key (i + 1) (d + i + 1) n < n
        · have : lcpFrom pfx key (i + 1) (d + i + 1) n + 1 < n + 1 := by omega
          simp only [hl, this, if_true]; congr 2; omega
        · have : ¬ lcpFrom pfx key (i + 1) (d + i + 1) n + 1 < n + 1 := by omega
          simp only [hl, this, if_false]; congr 2; omega
      · simp [he, outcome]

theorem pm_loop1 (plen : Int) (pfx key leaf : Bytes) (d : Nat) :
    ∀ (fuel n i : Nat), n < fuel → d + i + n ≤ leaf.length → d + i + n ≤ key.length →
      prefixMismatch.loop1 plen pfx key (d : Int) ((i + n : Nat) : Int) leaf fuel (i : Int) =
        some (outcome i n (lcpFrom leaf key (d + i) (d + i) n)) := by
  intro fuel
  induction fuel with
  | zero => intro n i h; omega
  | succ fuel ih =>
    intro n i hf hl hk
    cases n with
    | zero => simp [prefixMismatch.loop1, lcpFrom_zero, outcome]
    | succ n =>
      have hi1 : d + i < leaf.length := by omega
      have hi2 : d + i < key.length := by omega
      have hlt : ((i : Int) < ((i + (n + 1) : Nat) : Int)) := by omega
      have hidx : ((d : Int) + (i : Int)) = ((d + i : Nat) : Int) := by omega
      simp only [prefixMismatch.loop1, hlt, decide_true, if_true, hidx, idxB_nat,
        List.getElem?_eq_getElem hi1, List.getElem?_eq_getElem hi2, bind, Option.bind, pure]
      rw [lcpFrom_succ leaf key (d + i) (d + i) n hi1 hi2]
      by_cases he : leaf[d + i] = key[d + i]
      · have h1 : ((i : Int) + 1) = ((i + 1 : Nat) : Int) := by omega
        simp only [he, bne_self_eq_false, Bool.false_eq_true, if_false, if_true, h1]
        have := ih n (i + 1) (by omega) (by omega) (by omega)
        rw [show i + (n + 1) = i + 1 + n by omega, show d + (i + 1) = d + i + 1 by omega] at *
        rw [this]
        simp only [outcome]
        congr 1
        by_cases hl : lcpFrom leaf key (d + i + 1) (d + i + 1) n < n
        · have : lcpFrom leaf key (d + i + 1) (d + i + 1) n + 1 < n + 1 := by omega
          simp only [hl, this, if_true]; congr 2; omega
        · have : ¬ lcpFrom leaf key (d + i + 1) (d + i + 1) n + 1 < n + 1 := by omega
          simp only [hl, this, if_false]; congr 2; omega
      · simp [he, outcome]

theorem maxPrefixLen_eq : Gen.maxPrefixLen = 10 := rfl

/-- the model's `prefixMismatch` with its first comparison written as `lcpFrom` -/
theorem T_prefixMismatch_eq (plen : Nat) (pfx key : Bytes) (d : Nat) (minTK : Bytes) (n : Nat)
    (hn : n = min (min 10 plen) (key.length - d)) :
    T.prefixMismatch plen (inl plen pfx) minTK key d =
      (if lcpFrom pfx key 0 d n < n then lcpFrom pfx key 0 d n
       else if plen > 10 then
         lcpFrom pfx key 0 d n + lcpLen (minTK.drop (d + lcpFrom pfx key 0 d n)) (key.drop (d + lcpFrom pfx key 0 d n))
       else lcpFrom pfx key 0 d n) := by
  subst hn
  unfold T.prefixMismatch lcpFrom inl
  simp only [maxPrefixLen_eq, List.drop_zero, List.take_take,
    show min (min (min 10 plen) (key.length - d)) (min plen 10) = min (min 10 plen) (key.length - d) by omega]

theorem prefixMismatch_eq (plen : Nat) (pfx key : Bytes) (d : Nat) (minTK : Bytes) (hp : pfx.length = 10) :
    prefixMismatch (plen : Int) pfx key (d : Int) minTK =
      some ((T.prefixMismatch plen (inl plen pfx) minTK key d : Nat) : Int) := by
  obtain ⟨n, hn⟩ : ∃ n : Nat, n = min (min 10 plen) (key.length - d) := ⟨_, rfl⟩
  rw [T_prefixMismatch_eq plen pfx key d minTK n hn]
  unfold prefixMismatch
  simp only [bind, Option.bind, pure]
  by_cases hd : d ≤ key.length
  · have hm : (min (min (10 : Int) (plen : Int)) ((key.length : Int) - (d : Int))) = ((0 + n : Nat) : Int) := by omega
    rw [hm]
    have h0 := pm_loop0 (plen : Int) pfx key d (n + 1) n 0 (by omega) (by omega) (by omega)
    simp only [Int.sub_zero, Int.toNat_natCast, Nat.zero_add, Nat.add_zero] at h0 ⊢
    rw [show ((0 : Nat) : Int) = 0 from rfl] at h0
    rw [h0]
    have hle := lcpFrom_le pfx key 0 d n
    generalize lcpFrom pfx key 0 d n = l at hle ⊢
    simp only [outcome, Nat.zero_add]
    by_cases hlt : l < n
    · simp only [hlt, if_true]
    · have he : l = n := by omega
      subst he
      simp only [Nat.lt_irrefl, if_false]
      by_cases hlong : plen > 10
      · have hlong' : ((plen : Int) > 10) := by omega
        simp only [hlong, hlong', decide_true, if_true]
        -- second loop: from l up to min(len leaf, len key) - d
        by_cases hrun : d + l ≤ min minTK.length key.length
        · obtain ⟨n2, hn2⟩ : ∃ n2, min minTK.length key.length = d + l + n2 := ⟨_, (Nat.add_sub_cancel' hrun).symm⟩
          have hm2 : (min (minTK.length : Int) (key.length : Int)) - (d : Int) = ((l + n2 : Nat) : Int) := by omega
          rw [hm2]
          have h1 := pm_loop1 (plen : Int) pfx key minTK d (n2 + 1) n2 l (by omega) (by omega) (by omega)
          have hfuel : (((l + n2 : Nat) : Int) - (l : Int)).toNat + 1 = n2 + 1 := by omega
          rw [hfuel, h1]
          have hfull := lcpFrom_full minTK key (d + l) (d + l) n2 (by omega)
          have hle2 := lcpFrom_le minTK key (d + l) (d + l) n2
          rw [hfull] at hle2 ⊢
          generalize lcpLen (minTK.drop (d + l)) (key.drop (d + l)) = l2 at hle2 ⊢
          simp only [outcome]
          by_cases hlt2 : l2 < n2
          · simp only [hlt2, if_true]
          · have : l2 = n2 := by omega
            subst this
            simp only [Nat.lt_irrefl, if_false]
        · -- the second loop does not run: the minimum leaf's key ends before depth + idx
          have hnlt : ¬ ((l : Int) < (min (minTK.length : Int) (key.length : Int)) - (d : Int)) := by omega
          obtain ⟨f, hf⟩ : ∃ f, ((min (minTK.length : Int) (key.length : Int)) - (d : Int) - (l : Int)).toNat + 1 = f + 1 := ⟨_, rfl⟩
          rw [hf]
          simp only [prefixMismatch.loop1, hnlt, decide_false, Bool.false_eq_true, if_false, pure]
          have : minTK.drop (d + l) = [] := List.drop_eq_nil_of_le (by omega)
          simp [this, lcpLen]
      · have hlong' : ¬ ((plen : Int) > 10) := by omega
        simp only [hlong, hlong', decide_false, Bool.false_eq_true, if_false]
  · -- depth beyond the key: neither loop runs
    have hn0 : n = 0 := by omega
    subst hn0
    have hnlt : ¬ ((0 : Int) < min (min (10 : Int) (plen : Int)) ((key.length : Int) - (d : Int))) := by omega
    obtain ⟨f, hf⟩ : ∃ f, ((min (min (10 : Int) (plen : Int)) ((key.length : Int) - (d : Int))) - 0).toNat + 1 = f + 1 := ⟨_, rfl⟩
    rw [hf]
    simp only [prefixMismatch.loop0, hnlt, decide_false, Bool.false_eq_true, if_false, pure]
    have hdrop : key.drop (d + 0) = [] := List.drop_eq_nil_of_le (by omega)
    simp only [lcpFrom_zero, Nat.lt_irrefl, if_false, Nat.zero_add, hdrop, lcpLen_nil_right]
    by_cases hlong : plen > 10
    · have hlong' : ((plen : Int) > 10) := by omega
      simp only [hlong, hlong', decide_true, if_true]
      have hnlt2 : ¬ ((0 : Int) < (min (minTK.length : Int) (key.length : Int)) - (d : Int)) := by omega
      obtain ⟨f2, hf2⟩ : ∃ f2, ((min (minTK.length : Int) (key.length : Int)) - (d : Int) - 0).toNat + 1 = f2 + 1 := ⟨_, rfl⟩
      rw [hf2]
      simp only [prefixMismatch.loop1, hnlt2, decide_false, Bool.false_eq_true, if_false, pure]
      rfl
    · have hlong' : ¬ ((plen : Int) > 10) := by omega
      simp only [hlong, hlong', decide_false, Bool.false_eq_true, if_false]
      rfl

end ArtVerif.GenLoops
