/-
  The codecs as regenerated from keys.go (`Gen/Keys.lean`, one definition per clause of the type
  switches in `Transform` / `Restore`) are the word-level functions of the hand-written codec model
  (`Model/Codec.lean`) the C07 theorems are about.  Every statement here is re-checked against what
  keys.go says *now*: an edit of a constant, an operator or a branch of keys.go changes `Gen/Keys.lean`
  and breaks the corresponding line.
-/
import ArtVerif.Gen.Keys
import ArtVerif.Model.Codec
namespace ArtVerif.GenKeys
open ArtVerif ArtVerif.Gen.Keys

/-! ### unsigned: the word written is the key itself -/
theorem transform_uint8_eq (k) : transform_uint8 k = k := rfl
theorem transform_uint16_eq (k) : transform_uint16 k = k := rfl
theorem transform_uint32_eq (k) : transform_uint32 k = k := rfl
theorem transform_uint64_eq (k) : transform_uint64 k = k := rfl
theorem transform_uint_32_eq (k) : transform_uint_32 k = k := rfl
theorem transform_uint_64_eq (k) : transform_uint_64 k = k := rfl
theorem restore_uint8_eq (i) : restore_uint8 i = i := rfl
theorem restore_uint16_eq (i) : restore_uint16 i = i := rfl
theorem restore_uint32_eq (i) : restore_uint32 i = i := rfl
theorem restore_uint64_eq (i) : restore_uint64 i = i := rfl
theorem restore_uint_32_eq (i) : restore_uint_32 i = i := rfl
theorem restore_uint_64_eq (i) : restore_uint_64 i = i := rfl

/-! ### signed: the sign bit is flipped -/
theorem signBit8 : signBit 8 = 0x80#8 := by decide
theorem signBit16 : signBit 16 = 0x8000#16 := by decide
theorem signBit32 : signBit 32 = 0x80000000#32 := by decide
theorem signBit64 : signBit 64 = 0x8000000000000000#64 := by decide

theorem transform_int8_eq (k) : transform_int8 k = k ^^^ signBit 8 := by rw [signBit8]; rfl
theorem transform_int16_eq (k) : transform_int16 k = k ^^^ signBit 16 := by rw [signBit16]; rfl
theorem transform_int32_eq (k) : transform_int32 k = k ^^^ signBit 32 := by rw [signBit32]; rfl
theorem transform_int64_eq (k) : transform_int64 k = k ^^^ signBit 64 := by rw [signBit64]; rfl
theorem transform_int_32_eq (k) : transform_int_32 k = k ^^^ signBit 32 := by rw [signBit32]; rfl
theorem transform_int_64_eq (k) : transform_int_64 k = k ^^^ signBit 64 := by rw [signBit64]; rfl
theorem restore_int8_eq (i) : restore_int8 i = i ^^^ signBit 8 := by rw [signBit8]; rfl
theorem restore_int16_eq (i) : restore_int16 i = i ^^^ signBit 16 := by rw [signBit16]; rfl
theorem restore_int32_eq (i) : restore_int32 i = i ^^^ signBit 32 := by rw [signBit32]; rfl
theorem restore_int64_eq (i) : restore_int64 i = i ^^^ signBit 64 := by rw [signBit64]; rfl
theorem restore_int_32_eq (i) : restore_int_32 i = i ^^^ signBit 32 := by rw [signBit32]; rfl
theorem restore_int_64_eq (i) : restore_int_64 i = i ^^^ signBit 64 := by rw [signBit64]; rfl

/-! ### floats: the regenerated clauses are `encFWord` / `decFWord` -/
theorem allOnes32 : BitVec.allOnes 32 - 1#32 = 0xfffffffe#32 := by decide
theorem allOnes64 : BitVec.allOnes 64 - 1#64 = 0xfffffffffffffffe#64 := by decide

theorem transform_float32_eq (k) : transform_float32 k = encFWord fmt32 k := by
  simp only [transform_float32, encFWord, allOnes32, signBit32]
theorem transform_float64_eq (k) : transform_float64 k = encFWord fmt64 k := by
  simp only [transform_float64, encFWord, allOnes64, signBit64]
theorem restore_float32_eq (i) : restore_float32 i = decFWord fmt32 i := by
  simp only [restore_float32, decFWord, allOnes32, signBit32]
theorem restore_float64_eq (i) : restore_float64 i = decFWord fmt64 i := by
  simp only [restore_float64, decFWord, allOnes64, signBit64]

/-! ### lengths: the slice made / the bytes read are `width / 8` -/
theorem lens :
    transformLen_uint8 = 8/8 ∧ transformLen_uint16 = 16/8 ∧ transformLen_uint32 = 32/8 ∧ transformLen_uint64 = 64/8 ∧
    transformLen_uint_32 = 32/8 ∧ transformLen_uint_64 = 64/8 ∧
    transformLen_int8 = 8/8 ∧ transformLen_int16 = 16/8 ∧ transformLen_int32 = 32/8 ∧ transformLen_int64 = 64/8 ∧
    transformLen_int_32 = 32/8 ∧ transformLen_int_64 = 64/8 ∧
    transformLen_float32 = 32/8 ∧ transformLen_float64 = 64/8 ∧
    restoreLen_uint8 = 8/8 ∧ restoreLen_uint16 = 16/8 ∧ restoreLen_uint32 = 32/8 ∧ restoreLen_uint64 = 64/8 ∧
    restoreLen_uint_32 = 32/8 ∧ restoreLen_uint_64 = 64/8 ∧
    restoreLen_int8 = 8/8 ∧ restoreLen_int16 = 16/8 ∧ restoreLen_int32 = 32/8 ∧ restoreLen_int64 = 64/8 ∧
    restoreLen_int_32 = 32/8 ∧ restoreLen_int_64 = 64/8 ∧
    restoreLen_float32 = 32/8 ∧ restoreLen_float64 = 64/8 := by decide

end ArtVerif.GenKeys
