/-
  Shared by `Proofs/GenIter` (all/backward/filter) and `Proofs/GenRange` (rangeScan): the per-lane / per-index-byte /
  per-slot functions the push loops map over, and `Raw.pushDesc` / `Raw.pushAsc` written with them.  Imports no
  regenerated module.
-/
import ArtVerif.Model.RIter
import ArtVerif.Proofs.GoNodeBase
namespace ArtVerif
namespace PushBase
open Gen GoNode Raw Swar GenNodeOps
variable {C : Type}

def fLane (slots : List (Option C)) (i : Nat) : Option C := (slots[i]?).join
def gIdx (idx : Bytes) (slots : List (Option C)) (i : Nat) : Option (Option C) :=
  let p : UInt8 := idx.getD i 0
  if p != 0 then some ((slots[p.toNat - 1]?).join) else none
def hSlot (slots : List (Option C)) (i : Nat) : Option (Option C) :=
  match (slots[i]?).join with
  | some c => some (some c)
  | none => none

theorem range_reverse_succ (n : Nat) : (List.range (n + 1)).reverse = n :: (List.range n).reverse := by
  rw [List.range_succ, List.reverse_append]; rfl

theorem range_rev_map_succ {β} (f : Nat → β) (m : Nat) :
    (List.range (m + 1)).reverse.map f = f m :: (List.range m).reverse.map f := by
  rw [range_reverse_succ]; rfl
theorem range_rev_filterMap_succ {β} (f : Nat → Option β) (m : Nat) :
    (List.range (m + 1)).reverse.filterMap f = (match f m with | some b => [b] | none => []) ++ (List.range m).reverse.filterMap f := by
  rw [range_reverse_succ, List.filterMap_cons]
  cases f m <;> rfl

theorem pushDesc_eq (r : Raw C) : r.pushDesc = match r with
    | .n4 _ len _ slots => (List.range len).reverse.map (fLane slots)
    | .n16 _ len _ slots => (List.range len).reverse.map (fLane slots)
    | .n48 _ _ idx slots => (List.range 256).reverse.filterMap (gIdx idx slots)
    | .n256 _ _ slots => (List.range 256).reverse.filterMap (hSlot slots) := by
  cases r <;> rfl

theorem pushAsc_eq (r : Raw C) : r.pushAsc = match r with
    | .n4 _ len _ slots => (List.range len).map (fLane slots)
    | .n16 _ len _ slots => (List.range len).map (fLane slots)
    | .n48 _ _ idx slots => (List.range 256).filterMap (gIdx idx slots)
    | .n256 _ _ slots => (List.range 256).filterMap (hSlot slots) := by
  cases r <;> rfl

theorem validIdx {len : Nat} {idx : Bytes} {slots : List (Option C)} (hI : Inv48 len idx slots) :
    ∀ i, i < 256 → idx.getD i 0 ≠ 0 → (idx.getD i 0).toNat ≤ 48 := by
  intro i hi hz
  exact (hI.hvalid _ (getD_mem idx i (by rw [hI.hi]; exact hi)) hz).1


end PushBase
end ArtVerif
