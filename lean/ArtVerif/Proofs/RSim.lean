/-
  Simulation of Layer T (`Model/Tree.lean`) by the concrete tree of `Model/RTree.lean`, whose inner
  nodes are raw images and whose operations go through `Raw.find / add / remove / setChild`.

    A. `Raw.setChild` (`*child = c`): `find`, `inv`, `abs` (= `replaceKey`), header, class
    B. tables of concrete children vs. tables of trees (`mapCh`): lookup / insert / replace / erase commute
    C. fuel (height bound) monotonicity of `good` / `absRT`
    D. M1 `search_sim`
    E. M3 `delete_sim` (`afterRemove_sim`: shrinks, node4 collapse, `mergeHdr`)
    F. M2 `insert_sim` (leaf split, path split with raw header arithmetic, descent, `addChild` with growth)
       under `InsSafe`, and `insSafe_of_wf : WF → InsSafe`
    G. M4 the tree object: `rtree_search_sim`, `rtree_insert_sim`, `rtree_delete_sim`

  Everything is stated under the per-node invariant `Raw.inv` (`GoodRT h t`: every raw node along
  `abs` satisfies `inv`, height ≤ `h`).  `Insert` needs one more hypothesis, `InsSafe`: two facts of
  the radix-tree invariant that the path split relies on and that `Raw.inv` cannot give (they tie a
  node's path to the keys below it); without them the two layers genuinely differ (duplicate branch
  bytes are ordered differently by `insertPosNode4` and `insCh`, see the witness in
  `Props/C11RawTree.lean`).  No decision procedure is called here; the SWAR lemmas of
  `Proofs/Swar.lean` are inherited through `Proofs/RawNodes.lean`.
-/
import ArtVerif.Model.RTree
import ArtVerif.Proofs.Insert
import ArtVerif.Proofs.Delete
namespace ArtVerif
open Gen Swar

/-! ## A. `Raw.setChild` -/
namespace Raw
variable {C : Type}

theorem find_eq_slotOf (r : Raw C) (b : UInt8) :
    r.find b = (slotOf r b).bind fun i => (r.slots[i]?).join := by
  cases r with
  | n4 h len keys s => simp only [find, slotOf, slots]; split <;> rfl
  | n16 h len keys s => simp only [find, slotOf, slots]; split <;> rfl
  | n48 h len idx s => simp only [find, slotOf, slots]; split <;> rfl
  | n256 h len s => rfl

theorem slotOf_withSlots (s : List (Option C)) (r : Raw C) (b : UInt8) :
    slotOf (withSlots s r) b = slotOf r b := by cases r <;> rfl
theorem slots_withSlots (s : List (Option C)) (r : Raw C) : (withSlots s r).slots = s := by cases r <;> rfl
theorem hdr_withSlots (s : List (Option C)) (r : Raw C) : (withSlots s r).hdr = r.hdr := by cases r <;> rfl
theorem kindOf_withSlots (s : List (Option C)) (r : Raw C) :
    Compose.kindOf (withSlots s r) = Compose.kindOf r := by cases r <;> rfl

theorem hdr_setChild (r : Raw C) (b : UInt8) (c : C) : (setChild r b c).hdr = r.hdr := by
  unfold setChild
  split
  · split
    · exact hdr_withSlots _ _
    · rfl
  · rfl

theorem kindOf_setChild (r : Raw C) (b : UInt8) (c : C) :
    Compose.kindOf (setChild r b c) = Compose.kindOf r := by
  unfold setChild
  split
  · split
    · exact kindOf_withSlots _ _
    · rfl
  · rfl

/-- under `inv`, membership in `abs` is what `find` reports -/
theorem mem_abs_iff_find (r : Raw C) (hinv : r.inv = true) (k : UInt8) (x : C) :
    (k, x) ∈ r.abs ↔ r.find k = some x := by
  rw [find_spec r k hinv]
  constructor
  · intro hm
    rw [sorted_find_unique r.abs (abs_sortedT r hinv) k x hm]; rfl
  · intro hf
    cases hq : r.abs.find? (fun p => p.1 == k) with
    | none => rw [hq] at hf; cases hf
    | some p =>
      rw [hq] at hf
      have h1 := List.find?_some hq
      have h2 := List.mem_of_find?_eq_some hq
      obtain ⟨a, y⟩ := p
      simp only [Option.map_some, Option.some.injEq] at hf
      simp only [beq_iff_eq] at h1
      subst hf; subst h1
      exact h2

/-- two images satisfying `inv` with the same `find` have the same table -/
theorem abs_ext (r' : Raw C) (hinv' : r'.inv = true)
    (L : List (UInt8 × C)) (hL : SortedT L) (hm : ∀ k x, r'.find k = some x ↔ (k, x) ∈ L) :
    r'.abs = L := by
  apply sorted_ext _ _ (abs_sortedT r' hinv') hL
  intro ⟨k, x⟩
  rw [mem_abs_iff_find r' hinv', hm]


/-! ### the slot index determines the byte -/

theorem firstIdx_some (p : UInt8 → Bool) (l : List UInt8) (h : (firstIdx p l != -1) = true) :
    ∃ j : Nat, firstIdx p l = (j : Int) ∧ ∃ hj : j < l.length, p l[j] = true := by
  rw [firstIdx_eq] at h ⊢
  by_cases hlt : l.findIdx p < l.length
  · rw [if_pos hlt]
    exact ⟨_, rfl, hlt, List.findIdx_getElem (w := hlt)⟩
  · rw [if_neg hlt] at h; exact absurd h (by decide)

theorem searchNode16_some (keys : Bytes) (len : Nat) (b : UInt8)
    (h : (searchNode16 keys len b != -1) = true) :
    ∃ j : Nat, searchNode16 keys len b = (j : Int) ∧ keys[j]? = some b := by
  unfold searchNode16 at h ⊢
  cases hf : (List.range (min len 16)).find? (fun i => keys[i]? == some b) with
  | none => rw [hf] at h; exact absurd h (by decide)
  | some j =>
    refine ⟨j, rfl, ?_⟩
    have := List.find?_some hf
    simpa using this

theorem filter_nodup_inj (l : Bytes) (hn : (l.filter (· != 0)).Nodup) (i j : Nat) (x : UInt8)
    (hi : l[i]? = some x) (hj : l[j]? = some x) (hx : x ≠ 0) : i = j := by
  induction l generalizing i j with
  | nil => simp at hi
  | cons y ys ih =>
    have hx' : (x != 0) = true := by simpa using hx
    cases i with
    | zero =>
      cases j with
      | zero => rfl
      | succ j =>
        simp only [List.getElem?_cons_zero, Option.some.injEq] at hi
        simp only [List.getElem?_cons_succ] at hj
        subst hi
        simp only [List.filter_cons, hx', ↓reduceIte, List.nodup_cons] at hn
        exact absurd (List.mem_filter.2 ⟨List.mem_of_getElem? hj, hx'⟩) hn.1
    | succ i =>
      cases j with
      | zero =>
        simp only [List.getElem?_cons_zero, Option.some.injEq] at hj
        simp only [List.getElem?_cons_succ] at hi
        subst hj
        simp only [List.filter_cons, hx', ↓reduceIte, List.nodup_cons] at hn
        exact absurd (List.mem_filter.2 ⟨List.mem_of_getElem? hi, hx'⟩) hn.1
      | succ j =>
        simp only [List.getElem?_cons_succ] at hi hj
        have hn' : (ys.filter (· != 0)).Nodup := by
          rw [List.filter_cons] at hn
          split at hn
          · exact (List.nodup_cons.1 hn).2
          · exact hn
        rw [ih hn' i j hi hj]

theorem slot_inj (r : Raw C) (hinv : r.inv = true) (k b : UInt8) (i : Nat)
    (hk : slotOf r k = some i) (hb : slotOf r b = some i) : k = b := by
  cases r with
  | n4 h len keys s =>
    simp only [slotOf, b8, searchNode4_spec] at hk hb
    split at hk
    · next ck =>
      split at hb
      · next cb =>
        simp only [Bool.and_eq_true] at ck cb
        obtain ⟨jk, ek, hjk, pk⟩ := firstIdx_some _ _ ck.1
        obtain ⟨jb, eb, hjb, pb⟩ := firstIdx_some _ _ cb.1
        rw [ek] at hk; rw [eb] at hb
        simp only [Int.toNat_natCast, Option.some.injEq] at hk hb
        subst hk; subst hb
        simp only [beq_iff_eq] at pk pb
        rw [← pk, ← pb]
      · cases hb
    · cases hk
  | n16 h len keys s =>
    simp only [slotOf] at hk hb
    split at hk
    · next ck =>
      split at hb
      · next cb =>
        obtain ⟨jk, ek, pk⟩ := searchNode16_some _ _ _ ck
        obtain ⟨jb, eb, pb⟩ := searchNode16_some _ _ _ cb
        rw [ek] at hk; rw [eb] at hb
        simp only [Int.toNat_natCast, Option.some.injEq] at hk hb
        subst hk; subst hb
        rw [pk] at pb
        exact Option.some.inj pb
      · cases hb
    · cases hk
  | n48 h len idx s =>
    obtain ⟨_, _, _, hI⟩ := (inv48_iff h len idx s).1 hinv
    simp only [slotOf] at hk hb
    split at hk
    · next ck =>
      split at hb
      · next cb =>
        simp only [Option.some.injEq] at hk hb
        have ck' : idx.getD k.toNat 0 ≠ 0 := by simpa using ck
        have cb' : idx.getD b.toNat 0 ≠ 0 := by simpa using cb
        have hkl : k.toNat < idx.length := by rw [hI.hi]; exact u8_toNat_lt k
        have hbl : b.toNat < idx.length := by rw [hI.hi]; exact u8_toNat_lt b
        have e : idx.getD k.toNat 0 = idx.getD b.toNat 0 := by
          apply UInt8.toNat_inj.1
          have h1 : (idx.getD k.toNat 0).toNat ≠ 0 := fun e => ck' (UInt8.toNat_inj.1 e)
          have h2 : (idx.getD b.toNat 0).toNat ≠ 0 := fun e => cb' (UInt8.toNat_inj.1 e)
          omega
        have := filter_nodup_inj idx hI.hnodup k.toNat b.toNat _ (getD_eq_some idx _ hkl)
          (e ▸ getD_eq_some idx _ hbl) ck'
        exact UInt8.toNat_inj.1 this
      · cases hb
    · cases hk
  | n256 h len s =>
    simp only [slotOf, Option.some.injEq] at hk hb
    exact UInt8.toNat_inj.1 (hk.trans hb.symm)


/-! ### `find` and `inv` after `setChild` -/

theorem join_some_lt {l : List (Option C)} {i : Nat} {c0 : C} (h : (l[i]?).join = some c0) :
    l[i]? = some (some c0) ∧ i < l.length := by
  cases hx : l[i]? with
  | none => rw [hx] at h; cases h
  | some o =>
    rw [hx] at h
    cases o with
    | none => cases h
    | some c' =>
      simp only [Option.join_some, Option.some.injEq] at h
      subst h
      exact ⟨rfl, (List.getElem?_eq_some_iff.1 hx).1⟩

theorem setChild_eq (r : Raw C) (b : UInt8) (c c0 : C) (hb : r.find b = some c0) :
    ∃ ib, slotOf r b = some ib ∧ r.slots[ib]? = some (some c0) ∧ ib < r.slots.length ∧
      setChild r b c = withSlots (r.slots.set ib (some c)) r := by
  rw [find_eq_slotOf] at hb
  cases hs : slotOf r b with
  | none => rw [hs] at hb; cases hb
  | some ib =>
    rw [hs] at hb
    simp only [Option.bind_some] at hb
    obtain ⟨h1, h2⟩ := join_some_lt hb
    refine ⟨ib, rfl, h1, h2, ?_⟩
    unfold setChild
    rw [hs]
    simp only [hb, Option.isSome_some, if_true]

theorem find_setChild (r : Raw C) (hinv : r.inv = true) (b : UInt8) (c c0 : C)
    (hb : r.find b = some c0) (k : UInt8) :
    (setChild r b c).find k = if k = b then some c else r.find k := by
  obtain ⟨ib, hs, _, hlt, hset⟩ := setChild_eq r b c c0 hb
  rw [hset, find_eq_slotOf, slotOf_withSlots, slots_withSlots]
  by_cases hkb : k = b
  · subst hkb
    rw [hs, if_pos rfl]
    simp [List.getElem?_set, hlt]
  · rw [if_neg hkb, find_eq_slotOf]
    cases hk : slotOf r k with
    | none => rfl
    | some ik =>
      have hne : ib ≠ ik := fun e => hkb (slot_inj r hinv k b ik hk (e ▸ hs))
      simp only [Option.bind_some, List.getElem?_set_ne hne]

theorem countSome_set_same (l : List (Option C)) (i : Nat) (c0 c : C) (h : l[i]? = some (some c0)) :
    countSome (l.set i (some c)) = countSome l := by
  rw [set_split l i (some c0) (some c) h]
  conv => rhs; rw [(split_at l i (some c0) h).1]
  simp [countSome]

theorem all_isSome_take_set (s : List (Option C)) (n i : Nat) (c : C)
    (h : (s.take n).all (·.isSome) = true) : ((s.set i (some c)).take n).all (·.isSome) = true := by
  rw [List.all_eq_true] at h ⊢
  intro x hx
  rw [List.take_set] at hx
  rcases List.mem_or_eq_of_mem_set hx with hx | hx
  · exact h x hx
  · subst hx; rfl

theorem inv_set_occupied (r : Raw C) (hinv : r.inv = true) (i : Nat) (c0 c : C)
    (h : r.slots[i]? = some (some c0)) : (withSlots (r.slots.set i (some c)) r).inv = true := by
  cases r with
  | n4 hd len keys s =>
    obtain ⟨hp, hs, hl, ha, hn, hall⟩ := (inv4_iff hd len keys s).1 hinv
    show (n4 hd len keys (s.set i (some c))).inv = true
    rw [inv4_iff]
    exact ⟨hp, by rw [List.length_set]; exact hs, hl, ha, hn, all_isSome_take_set s len i c hall⟩
  | n16 hd len keys s =>
    obtain ⟨hp, hs, hk, hl, hsh, ha, hall⟩ := (inv16_iff hd len keys s).1 hinv
    show (n16 hd len keys (s.set i (some c))).inv = true
    rw [inv16_iff]
    exact ⟨hp, by rw [List.length_set]; exact hs, hk, hl, hsh, ha, all_isSome_take_set s len i c hall⟩
  | n48 hd len idx s =>
    obtain ⟨hp, hl, hsh, hI⟩ := (inv48_iff hd len idx s).1 hinv
    show (n48 hd len idx (s.set i (some c))).inv = true
    rw [inv48_iff]
    refine ⟨hp, hl, hsh, ⟨by rw [List.length_set]; exact hI.hs, hI.hi, ?_, hI.hnz, ?_, hI.hnodup⟩⟩
    · rw [countSome_set_same s i c0 c h]; exact hI.hcount
    · intro p hpm hp0
      obtain ⟨h1, h2⟩ := hI.hvalid p hpm hp0
      refine ⟨h1, ?_⟩
      by_cases e : i = p.toNat - 1
      · subst e
        have hlt : p.toNat - 1 < s.length := (List.getElem?_eq_some_iff.1 h).1
        simp [hlt]
      · rw [List.getElem?_set_ne e]; exact h2
  | n256 hd len s =>
    obtain ⟨hp, hs, hsh, hlen⟩ := (inv256_iff hd len s).1 hinv
    show (n256 hd len (s.set i (some c))).inv = true
    rw [inv256_iff, countSome_set_same s i c0 c h, List.length_set]
    exact ⟨hp, hs, hsh, hlen⟩

theorem inv_setChild (r : Raw C) (hinv : r.inv = true) (b : UInt8) (c c0 : C)
    (hb : r.find b = some c0) : (setChild r b c).inv = true := by
  obtain ⟨ib, _, h1, _, hset⟩ := setChild_eq r b c c0 hb
  rw [hset]
  exact inv_set_occupied r hinv ib c0 c h1

/-! ### the abstract table after `setChild` -/

/-- replace the value registered under key `b` (generic twin of `T.replaceCh`) -/
def replaceKey (b : UInt8) (c : C) : List (UInt8 × C) → List (UInt8 × C)
  | [] => []
  | (k, x) :: rest => if k = b then (k, c) :: rest else (k, x) :: replaceKey b c rest

theorem map_fst_replaceKey (b : UInt8) (c : C) (L : List (UInt8 × C)) :
    (replaceKey b c L).map (·.1) = L.map (·.1) := by
  induction L with
  | nil => rfl
  | cons p rest ih =>
    obtain ⟨k, x⟩ := p
    simp only [replaceKey]
    split
    · rfl
    · simp only [List.map_cons, ih]

theorem sorted_replaceKey (b : UInt8) (c : C) (L : List (UInt8 × C)) (hs : SortedT L) :
    SortedT (replaceKey b c L) := by
  have h1 : (L.map (·.1)).Pairwise (· < ·) := by simpa only [List.pairwise_map] using hs
  rw [← map_fst_replaceKey b c L] at h1
  simpa only [List.pairwise_map] using h1

theorem mem_replaceKey (b : UInt8) (c : C) (L : List (UInt8 × C)) (hs : SortedT L)
    (hb : ∃ c0, (b, c0) ∈ L) (k : UInt8) (x : C) :
    (k, x) ∈ replaceKey b c L ↔ (k = b ∧ x = c) ∨ (k ≠ b ∧ (k, x) ∈ L) := by
  induction L with
  | nil => obtain ⟨c0, h⟩ := hb; cases h
  | cons p rest ih =>
    obtain ⟨a, y⟩ := p
    have hs' := List.pairwise_cons.1 hs
    simp only [replaceKey]
    split
    · next hab =>
      subst hab
      simp only [List.mem_cons, Prod.mk.injEq]
      constructor
      · rintro (⟨h1, h2⟩ | h)
        · exact Or.inl ⟨h1, h2⟩
        · have hlt : a < k := hs'.1 (k, x) h
          exact Or.inr ⟨fun e => by rw [e] at hlt; exact u8_lt_irrefl _ hlt, Or.inr h⟩
      · rintro (⟨h1, h2⟩ | ⟨h1, h2 | h2⟩)
        · exact Or.inl ⟨h1, h2⟩
        · exact absurd h2.1 h1
        · exact Or.inr h2
    · next hab =>
      have hb' : ∃ c0, (b, c0) ∈ rest := by
        obtain ⟨c0, h⟩ := hb
        rcases List.mem_cons.1 h with e | h
        · simp only [Prod.mk.injEq] at e; exact absurd e.1.symm hab
        · exact ⟨c0, h⟩
      simp only [List.mem_cons, Prod.mk.injEq, ih hs'.2 hb']
      constructor
      · rintro (⟨h1, h2⟩ | h | h)
        · subst h1; subst h2; exact Or.inr ⟨hab, Or.inl ⟨rfl, rfl⟩⟩
        · exact Or.inl h
        · exact Or.inr ⟨h.1, Or.inr h.2⟩
      · rintro (h | ⟨h1, h2 | h2⟩)
        · exact Or.inr (Or.inl h)
        · exact Or.inl h2
        · exact Or.inr (Or.inr ⟨h1, h2⟩)

/-- **`setChild` overwrites the entry of `b` in the abstract table** -/
theorem abs_setChild (r : Raw C) (hinv : r.inv = true) (b : UInt8) (c c0 : C)
    (hb : r.find b = some c0) : (setChild r b c).abs = replaceKey b c r.abs := by
  apply abs_ext _ (inv_setChild r hinv b c c0 hb) _ (sorted_replaceKey b c _ (abs_sortedT r hinv))
  intro k x
  have hbm : ∃ c0, (b, c0) ∈ r.abs := ⟨c0, (mem_abs_iff_find r hinv b c0).2 hb⟩
  rw [find_setChild r hinv b c c0 hb k, mem_replaceKey b c r.abs (abs_sortedT r hinv) hbm,
    mem_abs_iff_find r hinv]
  by_cases hkb : k = b
  · subst hkb
    simp only [if_true, Option.some.injEq, true_and, ne_eq, not_true_eq_false, false_and, or_false]
    exact eq_comm
  · simp only [hkb, if_false, false_and, false_or, ne_eq, not_false_eq_true, true_and]

end Raw
end ArtVerif

namespace ArtVerif.RSim
open ArtVerif Gen Raw Compose RT
variable {C V : Type}

/-! ## B. abstract tables of trees vs. tables of concrete children -/

/-- apply the abstraction to the children of a table -/
def mapCh (f : C → T V) (L : List (UInt8 × C)) : T.Ch V := L.map fun p => (p.1, f p.2)

theorem mapCh_congr {f g : C → T V} {L : List (UInt8 × C)} (h : ∀ p ∈ L, f p.2 = g p.2) :
    mapCh f L = mapCh g L := by
  apply List.map_congr_left
  intro p hp
  rw [h p hp]

theorem length_mapCh (f : C → T V) (L : List (UInt8 × C)) : (mapCh f L).length = L.length :=
  List.length_map _

theorem map_fst_mapCh (f : C → T V) (L : List (UInt8 × C)) : (mapCh f L).map (·.1) = L.map (·.1) := by
  simp only [mapCh, List.map_map]; rfl

theorem sorted_mapCh (f : C → T V) (L : List (UInt8 × C)) (hs : SortedT L) : SortedT (mapCh f L) := by
  have h1 : (L.map (·.1)).Pairwise (· < ·) := by simpa only [List.pairwise_map] using hs
  rw [← map_fst_mapCh f L] at h1
  simpa only [List.pairwise_map] using h1

theorem lookupCh_mapCh (f : C → T V) (b : UInt8) (L : List (UInt8 × C)) :
    T.lookupCh b (mapCh f L) = ((L.find? (fun p => p.1 == b)).map (·.2)).map f := by
  induction L with
  | nil => rfl
  | cons p rest ih =>
    obtain ⟨k, x⟩ := p
    simp only [mapCh, List.map_cons, T.lookupCh, List.find?_cons]
    by_cases h : k = b
    · subst h; simp
    · have hb : (k == b) = false := by simpa using h
      simp only [hb, if_neg h]
      exact ih

theorem insCh_mapCh (f : C → T V) (b : UInt8) (c : C) (L : List (UInt8 × C)) :
    T.insCh b (f c) (mapCh f L) = mapCh f (insertSorted b c L) := by
  induction L with
  | nil => rfl
  | cons p rest ih =>
    obtain ⟨k, x⟩ := p
    simp only [mapCh, List.map_cons, T.insCh, insertSorted]
    split
    · rfl
    · simp only [List.map_cons]
      congr 1

theorem replaceCh_mapCh (f : C → T V) (b : UInt8) (c : C) (L : List (UInt8 × C)) :
    T.replaceCh b (f c) (mapCh f L) = mapCh f (replaceKey b c L) := by
  induction L with
  | nil => rfl
  | cons p rest ih =>
    obtain ⟨k, x⟩ := p
    simp only [mapCh, List.map_cons, T.replaceCh, replaceKey]
    split
    · rfl
    · simp only [List.map_cons]
      congr 1

theorem eraseCh_mapCh (f : C → T V) (b : UInt8) (L : List (UInt8 × C)) (hs : SortedT L) :
    T.eraseCh b (mapCh f L) = mapCh f (L.filter (fun p => p.1 != b)) := by
  rw [← filter_eq_eraseCh b (mapCh f L) (sorted_mapCh f L hs)]
  simp only [mapCh, List.filter_map]
  rfl

/-- `findChild` against `lookupCh` on the image -/
theorem find_mapCh (f : C → T V) (r : Raw C) (hinv : r.inv = true) (b : UInt8) :
    T.lookupCh b (mapCh f r.abs) = (r.find b).map f := by
  rw [lookupCh_mapCh, find_spec r b hinv]

/-! ## C. fuel (height bound) monotonicity -/

theorem good_node_iff (f : Nat) (r : Raw (RT V)) :
    good (f + 1) (.node r) = true ↔ r.inv = true ∧ ∀ p ∈ r.abs, good f p.2 = true := by
  simp only [good, Bool.and_eq_true, List.all_eq_true]

theorem absRT_leaf (h : Nat) (k tk : Bytes) (v : V) : absRT h (.leaf k tk v) = .leaf k tk v := by
  cases h <;> rfl

theorem good_leaf (h : Nat) (k tk : Bytes) (v : V) : good h (.leaf k tk v) = true := by
  cases h <;> rfl

theorem absRT_node (f : Nat) (r : Raw (RT V)) :
    absRT (f + 1) (.node r) = .node (kindOf r) r.hdr.plen (inlOf r.hdr) (mapCh (absRT f) r.abs) := rfl

theorem good_succ : ∀ (h : Nat) (t : RT V), good h t = true →
    good (h + 1) t = true ∧ absRT (h + 1) t = absRT h t := by
  intro h
  induction h with
  | zero =>
    intro t hg
    cases t with
    | leaf k tk v => exact ⟨rfl, rfl⟩
    | node r => cases hg
  | succ h ih =>
    intro t hg
    cases t with
    | leaf k tk v => exact ⟨rfl, rfl⟩
    | node r =>
      obtain ⟨hinv, hch⟩ := (good_node_iff h r).1 hg
      refine ⟨(good_node_iff (h + 1) r).2 ⟨hinv, fun p hp => (ih p.2 (hch p hp)).1⟩, ?_⟩
      rw [absRT_node, absRT_node, mapCh_congr (fun p hp => (ih p.2 (hch p hp)).2)]

theorem good_le {h h' : Nat} (hle : h ≤ h') (t : RT V) (hg : good h t = true) :
    good h' t = true ∧ absRT h' t = absRT h t := by
  induction hle with
  | refl => exact ⟨hg, rfl⟩
  | step _ ih =>
    obtain ⟨h1, h2⟩ := ih
    obtain ⟨h3, h4⟩ := good_succ _ t h1
    exact ⟨h3, h4.trans h2⟩

/-- a child found by `findChild` is a live entry: it inherits the invariant -/
theorem good_child {h : Nat} {r : Raw (RT V)} (hg : good (h + 1) (.node r) = true) {b : UInt8} {c : RT V}
    (hf : r.find b = some c) : good h c = true :=
  ((good_node_iff h r).1 hg).2 (b, c) ((mem_abs_iff_find r ((good_node_iff h r).1 hg).1 b c).2 hf)

/-! ## D. M1: `Search` -/

theorem search_sim : ∀ (fuel h : Nat) (t : RT V) (tk k : Bytes) (d : Nat), GoodRT h t →
    RT.search fuel t tk k d = T.search fuel (absRT h t) tk k d := by
  intro fuel
  induction fuel with
  | zero => intro h t tk k d _; rfl
  | succ fuel ih =>
    intro h t tk k d hg
    cases t with
    | leaf lk ltk lv => rw [absRT_leaf]; rfl
    | node r =>
      cases h with
      | zero => cases hg
      | succ h =>
        have hinv := ((good_node_iff h r).1 hg).1
        rw [absRT_node]
        simp only [RT.search, T.search]
        split
        · rfl
        · cases htk : tk[d + r.hdr.plen]? with
          | none => rfl
          | some b =>
            simp only [find_mapCh (absRT h) r hinv b]
            cases hf : r.find b with
            | none => rfl
            | some c => exact ih h c tk k _ (good_child hg hf)


/-! ## E. M3: `Delete` -/

theorem hdr_withHdr (m : Hdr) (r : Raw C) : (withHdr m r).hdr = m := by cases r <;> rfl
theorem abs_withHdr (m : Hdr) (r : Raw C) : (withHdr m r).abs = r.abs := by cases r <;> rfl
theorem kindOf_withHdr (m : Hdr) (r : Raw C) : kindOf (withHdr m r) = kindOf r := by cases r <;> rfl
theorem find_withHdr (m : Hdr) (r : Raw C) (b : UInt8) : (withHdr m r).find b = r.find b := by
  cases r <;> rfl

theorem inv_withHdr (m : Hdr) (hm : m.pfx.length = 10) (r : Raw C) (hinv : r.inv = true) :
    (withHdr m r).inv = true := by
  cases r with
  | n4 h len keys s =>
    have := (inv4_iff h len keys s).1 hinv
    exact (inv4_iff m len keys s).2 ⟨hm, this.2⟩
  | n16 h len keys s =>
    have := (inv16_iff h len keys s).1 hinv
    exact (inv16_iff m len keys s).2 ⟨hm, this.2⟩
  | n48 h len idx s =>
    have := (inv48_iff h len idx s).1 hinv
    exact (inv48_iff m len idx s).2 ⟨hm, this.2⟩
  | n256 h len s =>
    have := (inv256_iff h len s).1 hinv
    exact (inv256_iff m len s).2 ⟨hm, this.2⟩

/-- `Compose.remove_node_simulates` for an arbitrary child type -/
theorem remove_node_generic (r : Raw C) (b : UInt8) (hinv : r.inv = true)
    (hk : ∃ p ∈ r.abs, p.1 = b) (r' : Raw C) (hr : r.remove b = .node r') :
    r'.abs = r.abs.filter (fun p => p.1 != b) ∧ r'.inv = true ∧ r'.hdr = r.hdr ∧
    kindOf r' = T.shrinkKind (kindOf r) r'.abs.length ∧
    ¬ (kindOf r = .k4 ∧ r'.abs.length = 1) := by
  have hspec := remove_spec r b hinv hk
  rw [hr] at hspec
  obtain ⟨ha, hi, hh⟩ := hspec
  have hshape := remove_shape r b
  rw [hr] at hshape
  have hlen := abs_length r' hi
  refine ⟨ha, hi, hh, ?_, ?_⟩
  · rw [hlen]
    cases r with
    | n4 h len keys slots => exact hshape.1
    | n16 h len keys slots =>
      rcases hshape with ⟨hk', hc⟩ | ⟨hk', hc⟩
      · rw [hk', hc]; rfl
      · rw [hk']; show Kind.k16 = if cnt r' = shrink16 then Kind.k4 else Kind.k16
        rw [if_neg hc]
    | n48 h len idx slots =>
      rcases hshape with ⟨hk', hc⟩ | ⟨hk', hc⟩
      · rw [hk', hc]; rfl
      · rw [hk']; show Kind.k48 = if cnt r' = shrink48 then Kind.k16 else Kind.k48
        rw [if_neg hc]
    | n256 h len slots =>
      rcases hshape with ⟨hk', hc⟩ | hk'
      · rw [hk', hc]; rfl
      · rw [hk']; show Kind.k256 = if cnt r' = shrink256 then Kind.k48 else Kind.k256
        have hc : cnt r' ≠ shrink256 := by
          have := kindOK_of_inv r' hi
          rw [hk', hlen] at this
          exact Nat.ne_of_gt this
        rw [if_neg hc]
  · rintro ⟨hk4, h1⟩
    rw [hlen] at h1
    cases r with
    | n4 h len keys slots => exact hshape.2 h1
    | _ => cases hk4

theorem mem_of_mem_filter_ne {L : List (UInt8 × C)} {b : UInt8} {p : UInt8 × C}
    (h : p ∈ L.filter (fun p => p.1 != b)) : p ∈ L := (List.mem_filter.1 h).1

/-- `ref.deleteChild(b)` against `T.deleteChild` on the image: shrinking, collapse, path merge -/
theorem afterRemove_sim (h : Nat) (r : Raw (RT V)) (hg : good (h + 1) (.node r) = true) (b : UInt8)
    (hk : ∃ p ∈ r.abs, p.1 = b) :
    good (h + 1) (afterRemove r b) = true ∧
    absRT (h + 1) (afterRemove r b) =
      T.deleteChild (kindOf r) r.hdr.plen (inlOf r.hdr) (mapCh (absRT h) r.abs) b := by
  obtain ⟨hinv, hch⟩ := (good_node_iff h r).1 hg
  have hsorted := abs_sortedT r hinv
  cases hr : r.remove b with
  | node r' =>
    obtain ⟨ha, hi, hh, hkind, hn⟩ := remove_node_generic r b hinv hk r' hr
    have haft : afterRemove r b = .node r' := by simp only [afterRemove, hr]
    rw [haft]
    constructor
    · refine (good_node_iff h r').2 ⟨hi, fun p hp => hch p ?_⟩
      rw [ha] at hp; exact mem_of_mem_filter_ne hp
    · have he : T.eraseCh b (mapCh (absRT h) r.abs) = mapCh (absRT h) r'.abs := by
        rw [eraseCh_mapCh _ _ _ hsorted, ha]
      rw [deleteChild_node _ _ _ _ _ (by rw [he, length_mapCh]; exact hn), he, length_mapCh,
        absRT_node, hkind, hh]
  | collapse hd b0 co =>
    have hspec := remove_spec r b hinv hk
    rw [hr] at hspec
    obtain ⟨hh, c', hco, hfil⟩ := hspec
    have hk4 : kindOf r = .k4 := by
      have := remove_shape r b
      rw [hr] at this; exact this
    subst hco; subst hh
    have hmem : (b0, c') ∈ r.abs := by
      apply mem_of_mem_filter_ne (b := b); rw [hfil]; exact List.mem_cons_self
    have hgc : good h c' = true := hch (b0, c') hmem
    have he : T.eraseCh b (mapCh (absRT h) r.abs) = [(b0, absRT h c')] := by
      rw [eraseCh_mapCh _ _ _ hsorted, hfil]; rfl
    rw [hk4]
    cases c' with
    | leaf lk ltk lv =>
      have haft : afterRemove r b = .leaf lk ltk lv := by simp only [afterRemove, hr]
      rw [haft, absRT_leaf] at *
      exact ⟨good_leaf _ _ _ _, (deleteChild_leaf _ _ _ _ _ _ _ _ he).symm⟩
    | node rc =>
      have haft : afterRemove r b = .node (withHdr (mergeHdr r.hdr b0 rc.hdr) rc) := by
        simp only [afterRemove, hr]
      rw [haft]
      cases h with
      | zero => cases hgc
      | succ h' =>
        obtain ⟨hic, hcc⟩ := (good_node_iff h' rc).1 hgc
        obtain ⟨m1, m2, m3⟩ := mergeHdr_simulates r.hdr rc.hdr b0 (hdr_pfx_length r hinv)
          (hdr_pfx_length rc hic)
        constructor
        · refine (good_node_iff (h' + 1) _).2 ⟨inv_withHdr _ m2 rc hic, fun p hp => ?_⟩
          rw [abs_withHdr] at hp
          exact (good_succ h' p.2 (hcc p hp)).1
        · rw [absRT_node] at he
          rw [collapse_inner_simulates r.hdr rc.hdr _ b b0 _ _ _ _ he rfl rfl (hdr_pfx_length rc hic)
            (hdr_pfx_length r hinv)]
          rw [absRT_node, kindOf_withHdr, hdr_withHdr, abs_withHdr,
            mapCh_congr (fun p hp => (good_succ h' p.2 (hcc p hp)).2)]

/-- writing a subtree back into the slot it was found in (`*ref = …`) against `replaceCh` -/
theorem setChild_sim (h : Nat) (r : Raw (RT V)) (hg : good (h + 1) (.node r) = true) (b : UInt8)
    (c0 c' : RT V) (hf : r.find b = some c0) (hc' : good h c' = true) :
    good (h + 1) (.node (setChild r b c')) = true ∧
    absRT (h + 1) (.node (setChild r b c')) =
      T.node (kindOf r) r.hdr.plen (inlOf r.hdr) (T.replaceCh b (absRT h c') (mapCh (absRT h) r.abs)) := by
  obtain ⟨hinv, hch⟩ := (good_node_iff h r).1 hg
  have habs := abs_setChild r hinv b c' c0 hf
  constructor
  · refine (good_node_iff h _).2 ⟨inv_setChild r hinv b c' c0 hf, fun p hp => ?_⟩
    rw [habs] at hp
    obtain ⟨k, x⟩ := p
    rcases (mem_replaceKey b c' r.abs (abs_sortedT r hinv)
      ⟨c0, (mem_abs_iff_find r hinv b c0).2 hf⟩ k x).1 hp with ⟨_, hx⟩ | ⟨_, hx⟩
    · subst hx; exact hc'
    · exact hch (k, x) hx
  · rw [absRT_node, kindOf_setChild, hdr_setChild, habs, replaceCh_mapCh]

theorem find_key {r : Raw C} (hinv : r.inv = true) {b : UInt8} {c : C} (hf : r.find b = some c) :
    ∃ p ∈ r.abs, p.1 = b := ⟨(b, c), (mem_abs_iff_find r hinv b c).2 hf, rfl⟩

/-- **M3.** `Delete` below an inner node: same outcome, same replacement subtree, invariant kept
    (the height bound does not grow). -/
theorem delete_sim : ∀ (fuel h : Nat) (t : RT V) (tk k : Bytes) (d : Nat), GoodRT h t →
    (RT.deleteNode fuel t tk k d).map (absRT h) = T.deleteNode fuel (absRT h t) tk k d ∧
    ∀ t', RT.deleteNode fuel t tk k d = some t' → GoodRT h t' := by
  intro fuel
  induction fuel with
  | zero => intro h t tk k d _; exact ⟨rfl, fun t' ht => by cases ht⟩
  | succ fuel ih =>
    intro h t tk k d hg
    cases t with
    | leaf lk ltk lv => rw [absRT_leaf]; exact ⟨rfl, fun t' ht => by cases ht⟩
    | node r =>
      cases h with
      | zero => cases hg
      | succ h =>
        have hinv := ((good_node_iff h r).1 hg).1
        rw [absRT_node]
        simp only [RT.deleteNode, T.deleteNode]
        split
        · exact ⟨rfl, fun t' ht => by cases ht⟩
        · cases htk : tk[d + r.hdr.plen]? with
          | none => exact ⟨rfl, fun t' ht => by cases ht⟩
          | some b =>
            simp only [find_mapCh (absRT h) r hinv b]
            cases hf : r.find b with
            | none => exact ⟨rfl, fun t' ht => by cases ht⟩
            | some c =>
              have hgc := good_child hg hf
              cases c with
              | leaf lk ltk lv =>
                simp only [Option.map_some, absRT_leaf]
                split
                · obtain ⟨h1, h2⟩ := afterRemove_sim h r hg b (find_key hinv hf)
                  refine ⟨by rw [Option.map_some, h2], fun t' ht => ?_⟩
                  cases ht; exact h1
                · exact ⟨rfl, fun t' ht => by cases ht⟩
              | node rc =>
                cases h with
                | zero => cases hgc
                | succ h' =>
                  obtain ⟨i1, i2⟩ := ih (h' + 1) (.node rc) tk k (d + r.hdr.plen + 1) hgc
                  simp only [Option.map_some, absRT_node]
                  rw [absRT_node] at i1
                  rw [← i1]
                  cases hd : RT.deleteNode fuel (.node rc) tk k (d + r.hdr.plen + 1) with
                  | none => exact ⟨rfl, fun t' ht => by cases ht⟩
                  | some c' =>
                    obtain ⟨s1, s2⟩ := setChild_sim (h' + 1) r hg b _ c' hf (i2 c' hd)
                    refine ⟨by simp only [Option.map_some]; rw [s2], fun t' ht => ?_⟩
                    cases ht; exact s1


/-! ## F. M2: `Insert` -/

theorem minLeaf_leaf (hf : Nat) (k tk : Bytes) (v : V) :
    RT.minLeaf hf (.leaf k tk v) = some (k, tk, v) := by cases hf <;> rfl

theorem minLeaf_sim : ∀ (h hf : Nat) (t : RT V), good h t = true → h ≤ hf →
    RT.minLeaf hf t = T.minLeaf (absRT h t) := by
  intro h
  induction h with
  | zero =>
    intro hf t hg _
    cases t with
    | leaf k tk v => rw [minLeaf_leaf, absRT_leaf]; rfl
    | node r => cases hg
  | succ h ih =>
    intro hf t hg hle
    cases t with
    | leaf k tk v => rw [minLeaf_leaf, absRT_leaf]; rfl
    | node r =>
      cases hf with
      | zero => omega
      | succ hf =>
        obtain ⟨_, hch⟩ := (good_node_iff h r).1 hg
        rw [absRT_node]
        simp only [RT.minLeaf, T.minLeaf]
        cases ha : r.abs with
        | nil => rfl
        | cons p rest =>
          obtain ⟨b, c⟩ := p
          simp only [mapCh, List.map_cons, T.minLeafL]
          exact ih hf c (hch (b, c) (by rw [ha]; exact List.mem_cons_self)) (by omega)

theorem minTKey_sim (h hf : Nat) (t : RT V) (hg : good h t = true) (hle : h ≤ hf) :
    RT.minTKey hf t = T.minTKey (absRT h t) := by
  unfold RT.minTKey T.minTKey
  rw [minLeaf_sim h hf t hg hle]
  rfl

/-! ### the pooled node4 -/

theorem hdr_fresh4 (hd : Hdr) : (fresh4 hd : Raw (RT V)).hdr = hd := rfl
theorem abs_fresh4 (hd : Hdr) : (fresh4 hd : Raw (RT V)).abs = [] := rfl
theorem kindOf_fresh4 (hd : Hdr) : kindOf (fresh4 hd : Raw (RT V)) = .k4 := rfl
theorem inv_fresh4 (hd : Hdr) (hp : hd.pfx.length = 10) : (fresh4 hd : Raw (RT V)).inv = true := by
  show (Raw.n4 hd 0 0#32 (List.replicate 4 none) : Raw (RT V)).inv = true
  rw [inv4_iff]
  exact ⟨hp, rfl, by omega, by decide, by decide, rfl⟩

theorem copyInto_length (dst src : Bytes) : (copyInto dst src).length = dst.length := by
  simp only [copyInto, List.length_append, List.length_take, List.length_drop]; omega

/-- the inline prefix read back after `copy(node.prefix[:], src)` with `prefixLen = p'` -/
theorem inlOf_copy (pfx src : Bytes) (p' : Nat) (hp : pfx.length = 10) (hs : min p' 10 ≤ src.length) :
    inlOf { plen := p', pfx := copyInto pfx src } = src.take (min p' 10) := by
  show (src.take pfx.length ++ pfx.drop src.length).take (min p' 10) = _
  rw [hp, List.take_append_of_le_length (by rw [List.length_take]; omega), List.take_take]
  congr 1; omega

/-! ### `addChild` on a node of the concrete tree -/

theorem not_key_of_find_none {r : Raw C} (hinv : r.inv = true) {b : UInt8} (hf : r.find b = none) :
    ∀ p ∈ r.abs, p.1 ≠ b := by
  intro p hp e
  obtain ⟨k, x⟩ := p
  simp only at e; subst e
  rw [(mem_abs_iff_find r hinv k x).1 hp] at hf; cases hf

theorem add_sim (h : Nat) (r : Raw (RT V)) (hinv : r.inv = true)
    (hch : ∀ p ∈ r.abs, good h p.2 = true) (b : UInt8) (c : RT V) (hc : good h c = true)
    (hnk : ∀ p ∈ r.abs, p.1 ≠ b) :
    good (h + 1) (.node (r.add b c)) = true ∧
    (r.add b c).abs = insertSorted b c r.abs ∧
    absRT (h + 1) (.node (r.add b c)) =
      T.node (T.addChild (kindOf r) (mapCh (absRT h) r.abs) b (absRT h c)).1 r.hdr.plen (inlOf r.hdr)
        (T.addChild (kindOf r) (mapCh (absRT h) r.abs) b (absRT h c)).2 := by
  obtain ⟨ha, hi⟩ := add_spec r b c hinv hnk
  refine ⟨?_, ha, ?_⟩
  · refine (good_node_iff h _).2 ⟨hi, fun p hp => ?_⟩
    rw [ha] at hp
    rcases (mem_insertSorted b c r.abs p).1 hp with e | hp
    · rw [e]; exact hc
    · exact hch p hp
  · rw [absRT_node, add_hdr, ha, ← insCh_mapCh, kindOf_add r b c hinv]
    unfold T.addChild
    rw [length_mapCh]
    split <;> rfl


/-- What the path split of `Insert` relies on, along the descent of `tk` (all of it follows from the
    radix-tree invariant `WF`, see `insSafe_of_wf`): at the node where the key leaves the compressed
    path, the branch byte of the old node differs from the key's byte, and – when the path is longer
    than the inline limit – the minimum leaf's key covers the whole path. -/
def InsSafe : Nat → T V → Bytes → Nat → Prop
  | 0, _, _, _ => True
  | fuel+1, t, tk, d =>
    match t with
    | .leaf .. => True
    | .node kind plen inl ch =>
      let pd := if plen ≠ 0 then T.prefixMismatch plen inl (T.minTKey (.node kind plen inl ch)) tk d else 0
      if plen ≠ 0 ∧ pd < plen then
        (maxPrefixLen < plen → d + plen ≤ (T.minTKey (.node kind plen inl ch)).length) ∧
        ∀ b, tk[d + pd]? = some b →
          (if plen ≤ maxPrefixLen then inl.getD pd 0
           else (T.minTKey (.node kind plen inl ch)).getD (d + pd) 0) ≠ b
      else
        match tk[d + plen]? with
        | none => True
        | some b =>
          match T.lookupCh b ch with
          | none => True
          | some c => InsSafe fuel c tk (d + plen + 1)

/-! ### a pooled node4 receiving one / two children (leaf split, path split) -/

theorem fresh_zero (h : Nat) (hd : Hdr) (hp : hd.pfx.length = 10) :
    good (h + 1) (.node (fresh4 hd : Raw (RT V))) = true ∧
    absRT (h + 1) (.node (fresh4 hd : Raw (RT V))) = T.node .k4 hd.plen (inlOf hd) [] :=
  ⟨(good_node_iff h _).2 ⟨inv_fresh4 hd hp, fun p hp' => by cases hp'⟩, rfl⟩

theorem fresh_one (h : Nat) (hd : Hdr) (hp : hd.pfx.length = 10) (a : UInt8) (x : RT V)
    (hx : good h x = true) :
    good (h + 1) (.node ((fresh4 hd).add a x)) = true ∧ ((fresh4 hd).add a x).abs = [(a, x)] ∧
    absRT (h + 1) (.node ((fresh4 hd).add a x)) = T.node .k4 hd.plen (inlOf hd) [(a, absRT h x)] := by
  obtain ⟨h1, h2, h3⟩ := add_sim h (fresh4 hd) (inv_fresh4 hd hp) (fun p hp' => by cases hp') a x hx
    (fun p hp' => by cases hp')
  exact ⟨h1, h2, h3⟩

theorem fresh_two (h : Nat) (hd : Hdr) (hp : hd.pfx.length = 10) (a b : UInt8) (x y : RT V)
    (hx : good h x = true) (hy : good h y = true) (hab : a ≠ b) :
    good (h + 1) (.node (((fresh4 hd).add a x).add b y)) = true ∧
    absRT (h + 1) (.node (((fresh4 hd).add a x).add b y)) =
      T.node .k4 hd.plen (inlOf hd) (T.insCh b (absRT h y) [(a, absRT h x)]) := by
  obtain ⟨g1, a1, _⟩ := fresh_one h hd hp a x hx
  obtain ⟨i1, c1⟩ := (good_node_iff h _).1 g1
  have hnk : ∀ p ∈ ((fresh4 hd).add a x).abs, p.1 ≠ b := by
    intro p hp'; rw [a1] at hp'
    simp only [List.mem_singleton] at hp'; subst hp'; exact hab
  obtain ⟨h1, _, h3⟩ := add_sim h ((fresh4 hd).add a x) i1 c1 b y hy hnk
  refine ⟨h1, ?_⟩
  have hk : kindOf ((fresh4 hd).add a x) = .k4 := by
    rw [kindOf_add _ _ _ (inv_fresh4 hd hp)]; rfl
  rw [h3, add_hdr, hdr_fresh4, a1, hk]
  rfl

/-! ### header arithmetic of the path split -/

/-- the new node's header at a leaf split (`prefixLen = l; copy(prefix[:], keyS[depth:])`, pooled image) -/
def keyHdr (l : Nat) (key : Bytes) : Hdr := { plen := l, pfx := copyInto (List.replicate 10 0) key }

theorem keyHdr_length (l : Nat) (key : Bytes) : (keyHdr l key).pfx.length = 10 := by
  show (copyInto (List.replicate 10 0) key).length = 10
  rw [copyInto_length, List.length_replicate]

/-- the old node's header after the split (`prefixLen -= pd+1; copy(prefix[:], src)`) -/
def oldHdr (hd : Hdr) (pd : Nat) (src : Bytes) : Hdr :=
  { plen := hd.plen - (pd + 1), pfx := copyInto hd.pfx src }

theorem oldHdr_length (hd : Hdr) (hp : hd.pfx.length = 10) (pd : Nat) (src : Bytes) :
    (oldHdr hd pd src).pfx.length = 10 := (copyInto_length _ _).trans hp

theorem inl_new (hd : Hdr) (pd : Nat) (hlt : pd < hd.plen) :
    (inlOf hd).take pd = inlOf { plen := pd, pfx := hd.pfx } := by
  show (hd.pfx.take (min hd.plen 10)).take pd = hd.pfx.take (min pd 10)
  rw [List.take_take]; congr 1; omega

theorem inl_old_short (hd : Hdr) (hp : hd.pfx.length = 10) (pd : Nat) (hlt : pd < hd.plen)
    (hle : hd.plen ≤ maxPrefixLen) :
    inlOf { plen := hd.plen - (pd + 1), pfx := copyInto hd.pfx (hd.pfx.drop (pd + 1)) } =
      (inlOf hd).drop (pd + 1) := by
  have hle' : hd.plen ≤ 10 := hle
  rw [inlOf_copy hd.pfx _ _ hp (by rw [List.length_drop]; omega)]
  show _ = (hd.pfx.take (min hd.plen 10)).drop (pd + 1)
  rw [List.drop_take]; congr 1; omega

theorem bOld_short (hd : Hdr) (pd : Nat) (hlt : pd < hd.plen) (hle : hd.plen ≤ maxPrefixLen) :
    (inlOf hd).getD pd 0 = hd.pfx.getD pd 0 := by
  have hle' : hd.plen ≤ 10 := hle
  show (hd.pfx.take (min hd.plen 10)).getD pd 0 = _
  rw [List.getD_eq_getElem?_getD, List.getD_eq_getElem?_getD, List.getElem?_take,
    if_pos (by omega)]

theorem inl_old_long (hd : Hdr) (lk : Bytes) (hp : hd.pfx.length = 10) (pd d : Nat) (hlt : pd < hd.plen)
    (hlong : d + hd.plen ≤ lk.length) :
    inlOf { plen := hd.plen - (pd + 1), pfx := copyInto hd.pfx (lk.drop (d + pd + 1)) } =
      ((lk.drop (d + pd + 1)).take maxPrefixLen).take (hd.plen - (pd + 1)) := by
  rw [inlOf_copy hd.pfx _ _ hp (by rw [List.length_drop]; omega), List.take_take]
  rfl

theorem absRT_old (h : Nat) (hOld : Hdr) (hl : hOld.pfx.length = 10) (r : Raw (RT V))
    (hg : good (h + 1) (.node r) = true) :
    good (h + 1) (.node (withHdr hOld r)) = true ∧
    absRT (h + 1) (.node (withHdr hOld r)) =
      T.node (kindOf r) hOld.plen (inlOf hOld) (mapCh (absRT h) r.abs) := by
  obtain ⟨hinv, hch⟩ := (good_node_iff h r).1 hg
  refine ⟨(good_node_iff h _).2 ⟨inv_withHdr _ hl r hinv, fun p hp => ?_⟩, ?_⟩
  · rw [abs_withHdr] at hp; exact hch p hp
  · rw [absRT_node, kindOf_withHdr, hdr_withHdr, abs_withHdr]

/-- the path split, once the old node's branch byte and shortened header are known: the key ends at
    the split point … -/
theorem split_none (h : Nat) (r : Raw (RT V)) (hg : good (h + 1) (.node r) = true) (pd : Nat)
    (bOld : UInt8) (hOld : Hdr) (hl : hOld.pfx.length = 10) :
    good (h + 2) (.node ((fresh4 { plen := pd, pfx := r.hdr.pfx }).add bOld (.node (withHdr hOld r)))) = true ∧
    absRT (h + 2) (.node ((fresh4 { plen := pd, pfx := r.hdr.pfx }).add bOld (.node (withHdr hOld r)))) =
      T.node .k4 pd (inlOf { plen := pd, pfx := r.hdr.pfx })
        [(bOld, T.node (kindOf r) hOld.plen (inlOf hOld) (mapCh (absRT h) r.abs))] := by
  have hpl : r.hdr.pfx.length = 10 := hdr_pfx_length r ((good_node_iff h r).1 hg).1
  obtain ⟨go, ao⟩ := absRT_old h hOld hl r hg
  obtain ⟨h1, _, h3⟩ := fresh_one (h + 1) { plen := pd, pfx := r.hdr.pfx } hpl bOld _ go
  exact ⟨h1, by rw [← ao]; exact h3⟩

/-- … or goes on with a byte other than the old node's -/
theorem split_some (h : Nat) (r : Raw (RT V)) (hg : good (h + 1) (.node r) = true) (pd : Nat)
    (bOld : UInt8) (hOld : Hdr) (hl : hOld.pfx.length = 10) (k tk : Bytes) (v : V)
    (b : UInt8) (hne : bOld ≠ b) :
    good (h + 2) (.node (((fresh4 { plen := pd, pfx := r.hdr.pfx }).add bOld (.node (withHdr hOld r))).add b
      (.leaf k tk v))) = true ∧
    absRT (h + 2) (.node (((fresh4 { plen := pd, pfx := r.hdr.pfx }).add bOld (.node (withHdr hOld r))).add b
      (.leaf k tk v))) =
      T.node .k4 pd (inlOf { plen := pd, pfx := r.hdr.pfx })
        (T.insCh b (T.leaf k tk v)
          [(bOld, T.node (kindOf r) hOld.plen (inlOf hOld) (mapCh (absRT h) r.abs))]) := by
  have hpl : r.hdr.pfx.length = 10 := hdr_pfx_length r ((good_node_iff h r).1 hg).1
  obtain ⟨go, ao⟩ := absRT_old h hOld hl r hg
  obtain ⟨h1, h3⟩ := fresh_two (h + 1) { plen := pd, pfx := r.hdr.pfx } hpl bOld b _ (.leaf k tk v) go
    (good_leaf _ _ _ _) hne
  refine ⟨h1, ?_⟩
  rw [← ao, h3, absRT_leaf]

theorem insert_sim : ∀ (fuel h hf : Nat) (t : RT V) (tk k : Bytes) (v : V) (d : Nat),
    GoodRT h t → h ≤ hf → InsSafe fuel (absRT h t) tk d →
    GoodRT (h + 1) (RT.insert hf fuel t tk k v d).1 ∧
    absRT (h + 1) (RT.insert hf fuel t tk k v d).1 = (T.insert fuel (absRT h t) tk k v d).1 ∧
    (RT.insert hf fuel t tk k v d).2 = (T.insert fuel (absRT h t) tk k v d).2 := by
  intro fuel
  induction fuel with
  | zero =>
    intro h hf t tk k v d hg _ _
    obtain ⟨h1, h2⟩ := good_succ h t hg
    exact ⟨h1, h2, rfl⟩
  | succ fuel ih =>
    intro h hf t tk k v d hg hle hsafe
    cases t with
    | leaf lk ltk lv =>
      rw [absRT_leaf]
      simp only [RT.insert, T.insert]
      by_cases hk : k = lk
      · simp only [if_pos hk]
        exact ⟨good_leaf _ _ _ _, absRT_leaf _ _ _ _, trivial⟩
      · simp only [if_neg hk]
        have hp := keyHdr_length (lcpLen (ltk.drop d) (tk.drop d)) (tk.drop d)
        have einl : ((tk.drop d).take (lcpLen (ltk.drop d) (tk.drop d))).take maxPrefixLen =
            inlOf { plen := lcpLen (ltk.drop d) (tk.drop d),
                    pfx := copyInto (List.replicate 10 0) (tk.drop d) } := by
          have hl := lcpLen_le_right (ltk.drop d) (tk.drop d)
          rw [inlOf_copy _ _ _ (List.length_replicate ..) (by omega), List.take_take, Nat.min_comm]
          rfl
        rw [einl]
        cases ha : ltk[d + lcpLen (ltk.drop d) (tk.drop d)]? with
        | none =>
          cases hb : tk[d + lcpLen (ltk.drop d) (tk.drop d)]? with
          | none =>
            obtain ⟨g, a⟩ := fresh_zero (V := V) h (keyHdr _ _) hp
            exact ⟨g, a, trivial⟩
          | some b =>
            obtain ⟨g, _, a⟩ := fresh_one h (keyHdr _ _) hp b (.leaf k tk v) (good_leaf _ _ _ _)
            rw [absRT_leaf] at a
            exact ⟨g, a, trivial⟩
        | some a0 =>
          cases hb : tk[d + lcpLen (ltk.drop d) (tk.drop d)]? with
          | none =>
            obtain ⟨g, _, a⟩ := fresh_one h (keyHdr _ _) hp a0 (.leaf lk ltk lv) (good_leaf _ _ _ _)
            rw [absRT_leaf] at a
            exact ⟨g, a, trivial⟩
          | some b =>
            have hne : a0 ≠ b := getElem_lcpLen_ne (ltk.drop d) (tk.drop d) a0 b
              (by rw [List.getElem?_drop]; exact ha) (by rw [List.getElem?_drop]; exact hb)
            obtain ⟨g, a⟩ := fresh_two h (keyHdr _ _) hp a0 b (.leaf lk ltk lv) (.leaf k tk v) (good_leaf _ _ _ _)
              (good_leaf _ _ _ _) hne
            rw [absRT_leaf, absRT_leaf] at a
            exact ⟨g, a, trivial⟩
    | node r =>
      cases h with
      | zero => cases hg
      | succ h =>
        obtain ⟨hinv, hch⟩ := (good_node_iff h r).1 hg
        have hmin : RT.minTKey hf (.node r) =
            T.minTKey (T.node (kindOf r) r.hdr.plen (inlOf r.hdr) (mapCh (absRT h) r.abs)) := by
          rw [← absRT_node]; exact minTKey_sim (h + 1) hf _ hg hle
        rw [absRT_node] at hsafe ⊢
        simp only [RT.insert, T.insert, InsSafe, hmin] at hsafe ⊢
        generalize hpd : (if r.hdr.plen ≠ 0 then T.prefixMismatch r.hdr.plen (inlOf r.hdr)
          (T.minTKey (T.node (kindOf r) r.hdr.plen (inlOf r.hdr) (mapCh (absRT h) r.abs))) tk d else 0) = pd
          at hsafe ⊢
        by_cases hsplit : r.hdr.plen ≠ 0 ∧ pd < r.hdr.plen
        · -- the key leaves the compressed path: split
          simp only [if_pos hsplit] at hsafe ⊢
          obtain ⟨hs1, hs2⟩ := hsafe
          have hpl := hdr_pfx_length r hinv
          have enew := inl_new r.hdr pd hsplit.2
          by_cases hle10 : r.hdr.plen ≤ maxPrefixLen
          · simp only [if_pos hle10] at hs2 ⊢
            have eb := bOld_short r.hdr pd hsplit.2 hle10
            have eo := inl_old_short r.hdr hpl pd hsplit.2 hle10
            rw [eb] at hs2
            rw [eb, enew, ← eo]
            cases htk : tk[d + pd]? with
            | none =>
              obtain ⟨g, a⟩ := split_none h r hg pd (r.hdr.pfx.getD pd 0)
                (oldHdr r.hdr pd (r.hdr.pfx.drop (pd + 1))) (oldHdr_length _ hpl _ _)
              exact ⟨g, a, rfl⟩
            | some b =>
              obtain ⟨g, a⟩ := split_some h r hg pd (r.hdr.pfx.getD pd 0)
                (oldHdr r.hdr pd (r.hdr.pfx.drop (pd + 1))) (oldHdr_length _ hpl _ _) k tk v b (hs2 b htk)
              exact ⟨g, a, rfl⟩
          · simp only [if_neg hle10] at hs2 ⊢
            have hlong := hs1 (Nat.lt_of_not_le hle10)
            have eo := inl_old_long r.hdr _ hpl pd d hsplit.2 hlong
            rw [enew, ← eo]
            cases htk : tk[d + pd]? with
            | none =>
              obtain ⟨g, a⟩ := split_none h r hg pd
                ((T.minTKey (T.node (kindOf r) r.hdr.plen (inlOf r.hdr) (mapCh (absRT h) r.abs))).getD (d + pd) 0)
                (oldHdr r.hdr pd
                  ((T.minTKey (T.node (kindOf r) r.hdr.plen (inlOf r.hdr) (mapCh (absRT h) r.abs))).drop (d + pd + 1)))
                (oldHdr_length _ hpl _ _)
              exact ⟨g, a, rfl⟩
            | some b =>
              obtain ⟨g, a⟩ := split_some h r hg pd
                ((T.minTKey (T.node (kindOf r) r.hdr.plen (inlOf r.hdr) (mapCh (absRT h) r.abs))).getD (d + pd) 0)
                (oldHdr r.hdr pd
                  ((T.minTKey (T.node (kindOf r) r.hdr.plen (inlOf r.hdr) (mapCh (absRT h) r.abs))).drop (d + pd + 1)))
                (oldHdr_length _ hpl _ _) k tk v b (hs2 b htk)
              exact ⟨g, a, rfl⟩
        · -- the whole compressed path matches: descend
          simp only [if_neg hsplit] at hsafe ⊢
          obtain ⟨g1, a1⟩ := good_succ (h + 1) (.node r) hg
          cases htk : tk[d + r.hdr.plen]? with
          | none => exact ⟨g1, a1, rfl⟩
          | some b =>
            simp only [htk, find_mapCh (absRT h) r hinv b] at hsafe
            simp only [find_mapCh (absRT h) r hinv b]
            cases hfd : r.find b with
            | none =>
              obtain ⟨h1, _, h3⟩ := add_sim h r hinv hch b (.leaf k tk v) (good_leaf _ _ _ _)
                (not_key_of_find_none hinv hfd)
              obtain ⟨g2, a2⟩ := good_succ (h + 1) _ h1
              rw [absRT_leaf] at h3
              exact ⟨g2, a2.trans h3, rfl⟩
            | some c =>
              have hgc := good_child hg hfd
              simp only [hfd, Option.map_some] at hsafe
              obtain ⟨i1, i2, i3⟩ := ih h hf c tk k v (d + r.hdr.plen + 1) hgc (by omega) hsafe
              obtain ⟨s1, s2⟩ := setChild_sim (h + 1) r g1 b c _ hfd i1
              refine ⟨s1, ?_, i3⟩
              show absRT (h + 2) (.node _) = _
              rw [s2, i2, mapCh_congr (fun p hp => (good_succ h p.2 (hch p hp)).2)]
              rfl


/-! ### `InsSafe` follows from the radix-tree invariant -/

theorem insSafe_leaf (fuel : Nat) (k tk' : Bytes) (v : V) (tk : Bytes) (d : Nat) :
    InsSafe fuel (T.leaf k tk' v) tk d := by
  cases fuel <;> simp only [InsSafe]

theorem insSafe_of_wf : ∀ (fuel : Nat) (t : T V) (p tk : Bytes), T.WF t p → p <+: tk →
    InsSafe fuel t tk p.length := by
  intro fuel
  induction fuel with
  | zero => intro t p tk _ _; simp only [InsSafe]
  | succ fuel ih =>
    intro t p tk hwf hp
    cases hwf with
    | @leaf lk ltk lv _ hpl => exact insSafe_leaf _ _ _ _ _ _
    | @node kind plen inl ch _ cp hl hi hs h2 hkd hc =>
      have hmin := T.cp_prefix_minTKey hl hi hs h2 hkd hc
      have hspec := T.prefixMismatch_spec (kind := kind) (ch := ch) hl hi hmin hp
      have hmle : lcpLen cp (tk.drop p.length) ≤ plen := by
        have := lcpLen_le_left cp (tk.drop p.length); omega
      simp only [InsSafe]
      generalize hpd : (if plen ≠ 0 then T.prefixMismatch plen inl (T.minTKey (T.node kind plen inl ch)) tk
        p.length else 0) = pd
      by_cases hsplit : plen ≠ 0 ∧ pd < plen
      · rw [if_pos hsplit]
        obtain ⟨h0, hlt⟩ := hsplit
        rw [if_pos h0] at hpd
        have hm : lcpLen cp (tk.drop p.length) < plen := by
          rcases Nat.lt_or_ge (lcpLen cp (tk.drop p.length)) plen with h | h
          · exact h
          · have := hspec.2 h; omega
        have hpdm : pd = lcpLen cp (tk.drop p.length) := by rw [← hpd]; exact hspec.1 hm
        constructor
        · intro _
          have := hmin.length_le
          simp only [List.length_append, hl] at this
          exact this
        · intro b hb
          obtain ⟨c1, x, c2, hcp, hc1⟩ := T.split_at cp (lcpLen cp (tk.drop p.length)) (by omega)
          subst hcp
          have hparts := T.split_parts (kind := kind) (ch := ch) hl hi hmin
          have hbx : x ≠ b := by
            have h1 : (c1 ++ x :: c2)[lcpLen (c1 ++ x :: c2) (tk.drop p.length)]? = some x := by
              rw [← hc1]; exact T.getElem?_mid c1 c2 x _ rfl
            have h2' : (tk.drop p.length)[lcpLen (c1 ++ x :: c2) (tk.drop p.length)]? = some b := by
              rw [List.getElem?_drop, ← hpdm]; exact hb
            exact getElem_lcpLen_ne _ _ x b h1 h2'
          rw [hpdm, ← hc1]
          by_cases hle : plen ≤ maxPrefixLen
          · rw [if_pos hle] at hparts ⊢
            rw [(Prod.mk.inj hparts).1]; exact hbx
          · rw [if_neg hle] at hparts ⊢
            rw [(Prod.mk.inj hparts).1]; exact hbx
      · rw [if_neg hsplit]
        cases htk : tk[p.length + plen]? with
        | none => trivial
        | some b =>
          dsimp only
          cases hlk : T.lookupCh b ch with
          | none => trivial
          | some c =>
            have hmeq : lcpLen cp (tk.drop p.length) = cp.length := by
              by_cases h0 : plen = 0
              · omega
              · rw [if_pos h0] at hpd
                rcases Nat.lt_or_ge (lcpLen cp (tk.drop p.length)) plen with h | h
                · have := hspec.1 h
                  exact absurd ⟨h0, by omega⟩ hsplit
                · omega
            have hcpre : cp <+: tk.drop p.length := (lcpLen_eq_length_iff _ _).mp hmeq
            have hpcp : p ++ cp <+: tk := by
              obtain ⟨r, rfl⟩ := hp
              simp only [List.drop_left] at hcpre
              exact (List.prefix_append_right_inj p).mpr hcpre
            have hbq : tk[(p ++ cp).length]? = some b := by simpa [hl] using htk
            have hpb : p ++ cp ++ [b] <+: tk := by
              obtain ⟨r, hr⟩ := hpcp
              have : r[0]? = some b := by
                rw [← hr, List.getElem?_append_right (by simp)] at hbq
                simpa using hbq
              cases r with
              | nil => simp at this
              | cons y r => simp at this; subst this; exact ⟨r, by rw [← hr]; simp⟩
            have hrec := ih c (p ++ cp ++ [b]) tk (hc (b, c) (T.lookupCh_some_mem hlk)) hpb
            have hdepth : (p ++ cp ++ [b]).length = p.length + plen + 1 := by simp [hl]; omega
            rw [hdepth] at hrec
            exact hrec


/-! ## G. M4: the tree object -/

theorem mem_abs_slots (r : Raw C) (b : UInt8) (c : C) (h : (b, c) ∈ r.abs) : some c ∈ r.slots := by
  cases r with
  | n4 hd len keys s =>
    simp only [Raw.abs, List.mem_filterMap] at h
    obtain ⟨i, _, hi⟩ := h
    cases hj : (s[i]?).join with
    | none => rw [hj] at hi; cases hi
    | some c' =>
      rw [hj] at hi
      simp only [Option.some.injEq, Prod.mk.injEq] at hi
      rw [← hi.2]
      exact List.mem_of_getElem? (join_some_lt hj).1
  | n16 hd len keys s =>
    simp only [Raw.abs, List.mem_filterMap] at h
    obtain ⟨i, _, hi⟩ := h
    cases hj : (s[i]?).join with
    | none => rw [hj] at hi; cases hi
    | some c' =>
      rw [hj] at hi
      simp only [Option.some.injEq, Prod.mk.injEq] at hi
      rw [← hi.2]
      exact List.mem_of_getElem? (join_some_lt hj).1
  | n48 hd len idx s =>
    simp only [Raw.abs, List.mem_filterMap] at h
    obtain ⟨i, _, hi⟩ := h
    split at hi
    · cases hj : (s[(idx.getD i 0).toNat - 1]?).join with
      | none => rw [hj] at hi; cases hi
      | some c' =>
        rw [hj] at hi
        simp only [Option.some.injEq, Prod.mk.injEq] at hi
        rw [← hi.2]
        exact List.mem_of_getElem? (join_some_lt hj).1
    · cases hi
  | n256 hd len s =>
    simp only [Raw.abs, List.mem_filterMap] at h
    obtain ⟨i, _, hi⟩ := h
    cases hj : (s[i]?).join with
    | none => rw [hj] at hi; cases hi
    | some c' =>
      rw [hj] at hi
      simp only [Option.some.injEq, Prod.mk.injEq] at hi
      rw [← hi.2]
      exact List.mem_of_getElem? (join_some_lt hj).1

theorem height_le_heightSlots (s : List (Option (RT V))) (c : RT V) (h : some c ∈ s) :
    c.height ≤ RT.heightSlots s := by
  induction s with
  | nil => cases h
  | cons o rest ih =>
    simp only [RT.heightSlots]
    rcases List.mem_cons.1 h with e | h
    · subst e; simp only [RT.heightOpt]; omega
    · have := ih h; omega

theorem heightRaw_eq (r : Raw (RT V)) : RT.heightRaw r = RT.heightSlots r.slots := by
  cases r <;> rfl

theorem height_child (r : Raw (RT V)) (b : UInt8) (c : RT V) (h : (b, c) ∈ r.abs) :
    c.height ≤ RT.heightRaw r := by
  rw [heightRaw_eq]; exact height_le_heightSlots _ _ (mem_abs_slots r b c h)

/-- the structural height is a sufficient fuel -/
theorem good_height : ∀ (h : Nat) (t : RT V), good h t = true → good t.height t = true := by
  intro h
  induction h with
  | zero =>
    intro t hg
    cases t with
    | leaf k tk v => exact good_leaf _ _ _ _
    | node r => cases hg
  | succ h ih =>
    intro t hg
    cases t with
    | leaf k tk v => exact good_leaf _ _ _ _
    | node r =>
      obtain ⟨hinv, hch⟩ := (good_node_iff h r).1 hg
      show good (RT.heightRaw r + 1) (.node r) = true
      refine (good_node_iff _ r).2 ⟨hinv, fun p hp => ?_⟩
      exact (good_le (height_child r p.1 p.2 hp) p.2 (ih p.2 (hch p hp))).1

theorem absRT_eq_of_good {h h' : Nat} (t : RT V) (hg : good h t = true) (hg' : good h' t = true) :
    absRT h t = absRT h' t := by
  rcases Nat.le_total h h' with hle | hle
  · exact (good_le hle t hg).2.symm
  · exact (good_le hle t hg').2

theorem absRT_height {h : Nat} (t : RT V) (hg : good h t = true) : absRT t.height t = absRT h t :=
  absRT_eq_of_good t (good_height h t hg) hg

/-- `Search` on the tree object -/
theorem rtree_search_sim (t : RTree V) (hg : t.Good) (tk k : Bytes) :
    t.search tk k = t.abs.search tk k := by
  unfold RTree.search Tree.search RTree.abs
  cases hr : t.root with
  | none => rfl
  | some r => exact search_sim _ _ r tk k 0 (hg r hr)

/-- `Insert` on the tree object; the radix-tree invariant of the image (maintained by Layer T's own
    `Insert`/`Delete`, `Proofs/Refine.lean`) is what makes the path split well-defined -/
theorem rtree_insert_sim (t : RTree V) (hg : t.Good) (hwf : ∀ r, t.abs.root = some r → T.WF r [])
    (tk k : Bytes) (v : V) :
    (t.insert tk k v).Good ∧ (t.insert tk k v).abs = t.abs.insert tk k v := by
  unfold RTree.Good RTree.insert Tree.insert RTree.abs at *
  cases hr : t.root with
  | none =>
    constructor
    · intro r' h'
      simp only [Option.some.injEq] at h'
      subst h'; rfl
    · rfl
  | some r =>
    have hgr := hg r hr
    rw [hr] at hwf
    have hsafe := insSafe_of_wf (Tree.fuelFor tk) _ [] tk (hwf _ rfl) (List.nil_prefix)
    obtain ⟨i1, i2, i3⟩ := insert_sim (Tree.fuelFor tk) r.height r.height r tk k v 0 hgr (Nat.le_refl _) hsafe
    constructor
    · intro r' h'
      simp only [Option.some.injEq] at h'
      subst h'
      exact good_height _ _ i1
    · simp only [Option.map_some]
      rw [absRT_height _ i1, i2, i3]

/-- `Delete` on the tree object -/
theorem rtree_delete_sim (t : RTree V) (hg : t.Good) (tk k : Bytes) :
    (t.delete tk k).1.Good ∧ (t.delete tk k).1.abs = (t.abs.delete tk k).1 ∧
    (t.delete tk k).2 = (t.abs.delete tk k).2 := by
  cases hr : t.root with
  | none =>
    have e1 : t.delete tk k = (t, false) := by simp only [RTree.delete, hr]
    have e2 : t.abs.delete tk k = (t.abs, false) := by simp only [Tree.delete, RTree.abs, hr, Option.map_none]
    rw [e1, e2]; exact ⟨hg, rfl, rfl⟩
  | some r =>
    cases r with
    | leaf lk ltk lv =>
      by_cases hk : lk = k
      · have e1 : t.delete tk k = ({ root := none, size := t.size - 1 }, true) := by
          simp only [RTree.delete, hr, if_pos hk]
        have e2 : t.abs.delete tk k = ({ root := none, size := t.size - 1 }, true) := by
          simp only [Tree.delete, RTree.abs, hr, Option.map_some, absRT_leaf, if_pos hk]
        rw [e1, e2]
        exact ⟨fun r' h' => (by cases h'), rfl, rfl⟩
      · have e1 : t.delete tk k = (t, false) := by simp only [RTree.delete, hr, if_neg hk]
        have e2 : t.abs.delete tk k = (t.abs, false) := by
          simp only [Tree.delete, RTree.abs, hr, Option.map_some, absRT_leaf, if_neg hk]
        rw [e1, e2]; exact ⟨hg, rfl, rfl⟩
    | node rr =>
      have hgr := hg _ hr
      obtain ⟨d1, d2⟩ := delete_sim (Tree.fuelFor tk) _ (.node rr) tk k 0 hgr
      have ea : (RTree.abs t).root = some (absRT (RT.node rr).height (.node rr)) := by
        simp only [RTree.abs, hr, Option.map_some]
      cases hd : RT.deleteNode (Tree.fuelFor tk) (.node rr) tk k 0 with
      | none =>
        rw [hd] at d1
        have e1 : t.delete tk k = (t, false) := by simp only [RTree.delete, hr, hd]
        have e2 : t.abs.delete tk k = (t.abs, false) := by
          unfold Tree.delete
          rw [ea]
          show (match T.deleteNode (Tree.fuelFor tk) (absRT (RT.node rr).height (.node rr)) tk k 0 with
            | none => (t.abs, false)
            | some r' => ({ root := some r', size := t.abs.size - 1 }, true)) = _
          rw [← d1]; rfl
        rw [e1, e2]; exact ⟨hg, rfl, rfl⟩
      | some r' =>
        rw [hd] at d1
        have e1 : t.delete tk k = ({ root := some r', size := t.size - 1 }, true) := by
          simp only [RTree.delete, hr, hd]
        have e2 : t.abs.delete tk k =
            ({ root := some (absRT (RT.node rr).height r'), size := t.size - 1 }, true) := by
          unfold Tree.delete
          rw [ea]
          show (match T.deleteNode (Tree.fuelFor tk) (absRT (RT.node rr).height (.node rr)) tk k 0 with
            | none => (t.abs, false)
            | some r' => ({ root := some r', size := t.abs.size - 1 }, true)) = _
          rw [← d1]; rfl
        rw [e1, e2]
        have hg' := d2 r' hd
        refine ⟨fun r'' h' => ?_, ?_, rfl⟩
        · simp only [Option.some.injEq] at h'
          subst h'; exact good_height _ _ hg'
        · simp only [RTree.abs, Option.map_some]
          rw [absRT_height _ hg']

end ArtVerif.RSim
