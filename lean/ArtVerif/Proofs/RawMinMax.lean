/-
  `minimum()` / `maximum()` of tree.go, one node at a time: on a node satisfying the raw invariant the child the
  walk continues with is the child of the first / last entry of the node's byte→child table.
-/
import ArtVerif.Proofs.RawNodes
namespace ArtVerif
open Gen
namespace Raw
variable {C : Type}

theorem head?_filterMap_find {α β} (g : α → Option β) (l : List α) :
    (l.filterMap g).head? = (l.find? (fun a => (g a).isSome)).bind g := by
  induction l with
  | nil => rfl
  | cons a l ih =>
    simp only [List.filterMap_cons, List.find?_cons]
    cases h : g a with
    | none => simpa using ih
    | some b => simp [h]

theorem getLast?_filterMap_find {α β} (g : α → Option β) (l : List α) :
    (l.filterMap g).getLast? = (l.reverse.find? (fun a => (g a).isSome)).bind g := by
  rw [← List.head?_reverse, ← List.filterMap_reverse, head?_filterMap_find]

theorem find?_congr' {α} {p q : α → Bool} {l : List α} (h : ∀ a ∈ l, p a = q a) : l.find? p = l.find? q := by
  induction l with
  | nil => rfl
  | cons a l ih =>
    simp only [List.find?_cons, h a List.mem_cons_self]
    rw [ih (fun b hb => h b (List.mem_cons_of_mem _ hb))]

/-- first / last entry of a byte-indexed table -/
theorem absF_head (f : Nat → Option C) :
    ((absF f).head?).map (·.2) = ((List.range 256).find? (fun i => (f i).isSome)).bind f := by
  unfold absF
  rw [head?_filterMap_find]
  have : (fun i => ((f i).map (fun c => (UInt8.ofNat i, c))).isSome) = (fun i => (f i).isSome) := by
    funext i; cases f i <;> rfl
  rw [this]
  cases (List.range 256).find? (fun i => (f i).isSome) with
  | none => rfl
  | some i => simp only [Option.bind_some]; cases f i <;> rfl

theorem absF_last (f : Nat → Option C) :
    ((absF f).getLast?).map (·.2) = ((List.range 256).reverse.find? (fun i => (f i).isSome)).bind f := by
  unfold absF
  rw [getLast?_filterMap_find]
  have : (fun i => ((f i).map (fun c => (UInt8.ofNat i, c))).isSome) = (fun i => (f i).isSome) := by
    funext i; cases f i <;> rfl
  rw [this]
  cases (List.range 256).reverse.find? (fun i => (f i).isSome) with
  | none => rfl
  | some i => simp only [Option.bind_some]; cases f i <;> rfl

/-- first / last entry of a lane table -/
theorem rep_head {n : Nat} {keys : Bytes} {slots : List (Option C)} {L : List (UInt8 × C)}
    (h : Rep n keys slots L) (hn : 0 < n) : (L.head?).map (·.2) = (slots[0]?).join := by
  obtain ⟨_, h2, h3⟩ := h
  cases L with
  | nil => simp at h3; omega
  | cons p L =>
    have := congrArg (fun l => l[0]?) h2
    simp only [List.map_cons, List.getElem?_cons_zero] at this
    rw [List.getElem?_take_of_lt hn] at this
    rw [this]; rfl

theorem rep_last {n : Nat} {keys : Bytes} {slots : List (Option C)} {L : List (UInt8 × C)}
    (h : Rep n keys slots L) (hn : 0 < n) : (L.getLast?).map (·.2) = (slots[n - 1]?).join := by
  obtain ⟨_, h2, h3⟩ := h
  have h4 : (slots.take n)[n - 1]? = (L.map (fun p => some p.2))[n - 1]? := by rw [h2]
  rw [List.getElem?_take_of_lt (by omega)] at h4
  rw [h4, List.getElem?_map, ← h3, ← List.getLast?_eq_getElem?]
  cases L.getLast? <;> rfl

theorem minChild_spec (r : Raw C) (hinv : r.inv = true) (hne : r.abs ≠ []) :
    r.minChild = (r.abs.head?).map (·.2) := by
  cases r with
  | n4 h len keys slots =>
    obtain ⟨L, hrep, habs, _⟩ := inv4_rep hinv
    have hn : 0 < len := by
      rcases Nat.eq_zero_or_pos len with h0 | h0
      · exfalso; apply hne; rw [habs]; have := hrep.2.2; subst h0; exact List.eq_nil_of_length_eq_zero this
      · exact h0
    rw [habs, rep_head hrep hn]; rfl
  | n16 h len keys slots =>
    obtain ⟨L, hrep, habs, _⟩ := inv16_rep hinv
    have hn : 0 < len := by
      rcases Nat.eq_zero_or_pos len with h0 | h0
      · exfalso; apply hne; rw [habs]; have := hrep.2.2; subst h0; exact List.eq_nil_of_length_eq_zero this
      · exact h0
    rw [habs, rep_head hrep hn]; rfl
  | n48 h len idx slots =>
    obtain ⟨_, _, _, hI⟩ := (inv48_iff h len idx slots).1 hinv
    rw [abs48_eq, absF_head]
    have hcong : (List.range 256).find? (fun i => (look48 idx slots i).isSome) =
        (List.range 256).find? (fun i => idx.getD i 0 != 0) := by
      apply find?_congr'
      intro i hi
      have hi' : i < idx.length := by rw [hI.hi]; exact List.mem_range.1 hi
      have hv := hI.hvalid _ (getD_mem idx i hi')
      simp only [look48]
      generalize idx.getD i 0 = p at hv ⊢
      by_cases hp : p = 0
      · subst hp; rfl
      · have h1 : (p != 0) = true := by simpa using hp
        rw [h1, if_pos rfl, (hv hp).2]
    rw [hcong]
    simp only [minChild]
    cases hf : (List.range 256).find? (fun i => idx.getD i 0 != 0) with
    | none => rfl
    | some i =>
      have := List.find?_some hf
      simp only [Option.bind_some, look48, this, if_true]
  | n256 h len slots =>
    rw [abs256_eq, absF_head]
    simp only [minChild, look256]
    cases (List.range 256).find? (fun i => ((slots[i]?).join).isSome) <;> rfl

theorem maxChild_spec (r : Raw C) (hinv : r.inv = true) (hne : r.abs ≠ []) :
    r.maxChild = (r.abs.getLast?).map (·.2) := by
  cases r with
  | n4 h len keys slots =>
    obtain ⟨L, hrep, habs, _⟩ := inv4_rep hinv
    obtain ⟨_, _, hl, _⟩ := (inv4_iff h len keys slots).1 hinv
    have hn : 0 < len := by
      rcases Nat.eq_zero_or_pos len with h0 | h0
      · exfalso; apply hne; rw [habs]; have := hrep.2.2; subst h0; exact List.eq_nil_of_length_eq_zero this
      · exact h0
    rw [habs, rep_last hrep hn]
    have : (len + 255) % 256 = len - 1 := by omega
    simp only [maxChild, this]
  | n16 h len keys slots =>
    obtain ⟨L, hrep, habs, _⟩ := inv16_rep hinv
    obtain ⟨_, _, _, hl, _⟩ := (inv16_iff h len keys slots).1 hinv
    have hn : 0 < len := by
      rcases Nat.eq_zero_or_pos len with h0 | h0
      · exfalso; apply hne; rw [habs]; have := hrep.2.2; subst h0; exact List.eq_nil_of_length_eq_zero this
      · exact h0
    rw [habs, rep_last hrep hn]
    have : (len + 255) % 256 = len - 1 := by omega
    simp only [maxChild, this]
  | n48 h len idx slots =>
    obtain ⟨_, _, _, hI⟩ := (inv48_iff h len idx slots).1 hinv
    rw [abs48_eq, absF_last]
    have hcong : (List.range 256).reverse.find? (fun i => (look48 idx slots i).isSome) =
        (List.range 256).reverse.find? (fun i => idx.getD i 0 != 0) := by
      apply find?_congr'
      intro i hi
      have hi' : i < idx.length := by rw [hI.hi]; exact List.mem_range.1 (List.mem_reverse.1 hi)
      have hv := hI.hvalid _ (getD_mem idx i hi')
      simp only [look48]
      generalize idx.getD i 0 = p at hv ⊢
      by_cases hp : p = 0
      · subst hp; rfl
      · have h1 : (p != 0) = true := by simpa using hp
        rw [h1, if_pos rfl, (hv hp).2]
    rw [hcong]
    simp only [maxChild]
    cases hf : (List.range 256).reverse.find? (fun i => idx.getD i 0 != 0) with
    | none => rfl
    | some i =>
      have := List.find?_some hf
      simp only [Option.bind_some, look48, this, if_true]
  | n256 h len slots =>
    rw [abs256_eq, absF_last]
    simp only [maxChild, look256]
    cases (List.range 256).reverse.find? (fun i => ((slots[i]?).join).isSome) <;> rfl

end Raw
end ArtVerif
