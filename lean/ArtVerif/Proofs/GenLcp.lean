/-
  One step of `lowestCommonParent` of tree.go (the body of its descent loop) AS REGENERATED from the source on every run
  (`Gen/LcpOps.lean`) takes the decision `RT.lowestCommonParent` of `Model/RIter.lean` takes (the subject of
  `C04Raw.raw_prefix_after_history`): stop here when the prefix ends inside the compressed path or at the node, give up
  when it leaves the path, otherwise look up the next byte one past the path.  `prefixMismatch(n, prefix, depth)` is a
  parameter here; that the regenerated `prefixMismatch` is the model's is `GenLoops.prefixMismatch_eq`.  Kernel only.
-/
import ArtVerif.Gen.LcpOps
import ArtVerif.Model.RIter
import ArtVerif.Proofs.GoNodeBase
namespace ArtVerif
namespace GenLcp
open Gen Gen.LcpOps GoNode GenNodeOps
variable {C : Type}

/-- the decision of `RT.lowestCommonParent` on an inner node with path length `plen`, mismatch position `idx` -/
def modelStep (plen idx : Nat) (p : Bytes) (d : Nat) : Lcp :=
  if plen ≠ 0 ∧ d + idx ≥ p.length then .here
  else if plen ≠ 0 ∧ idx < plen then .nothing
  else match p[d + plen]? with
    | none => .here
    | some b => .descend b ((d + plen + 1 : Nat) : Int)

theorem u32_ne_zero_iff (x : UInt32) : (x != (0 : UInt32)) = decide (x.toNat ≠ 0) := by
  by_cases h : x = 0
  · subst h; rfl
  · have : x.toNat ≠ 0 := fun e => h (UInt32.toNat_inj.1 (by simpa using e))
    simp [h, this]

theorem lowestCommonParent_step_eq (E : Env C) (cc : C) (idx : Nat) (p : Bytes) (d : Nat) :
    lowestCommonParent_step E (some cc) (idx : Int) p (d : Int) =
      some (modelStep (E.hdr cc).prefixLen.toNat idx p d) := by
  generalize hpl : (E.hdr cc).prefixLen.toNat = plen
  simp only [lowestCommonParent_step, Option.bind_eq_bind, Option.bind_some, u32_ne_zero_iff, hpl, modelStep]
  by_cases h0 : plen = 0
  · subst h0
    simp only [ne_eq, not_true_eq_false, decide_false, Bool.false_eq_true, if_false, ↓reduceIte, false_and, Nat.add_zero]
    by_cases h1 : d ≥ p.length
    · have : decide ((d : Int) ≥ (p.length : Int)) = true := by simp; omega
      simp only [this, if_true, ↓reduceIte, pure, List.getElem?_eq_none h1]
    · have : decide ((d : Int) ≥ (p.length : Int)) = false := by simp; omega
      have hg : p[d]? = some p[d] := List.getElem?_eq_getElem (by omega)
      simp only [this, Bool.false_eq_true, if_false, ↓reduceIte, idx?_nat, hg, Option.bind_some, pure]
      congr 2
  · have hne : decide (plen ≠ 0) = true := by simp [h0]
    simp only [hne, if_true, ↓reduceIte, ne_eq, h0, not_false_eq_true, true_and]
    by_cases h1 : d + idx ≥ p.length
    · have : decide (((d : Int) + (idx : Int)) ≥ (p.length : Int)) = true := by simp; omega
      simp only [this, if_true, ↓reduceIte, h1, pure, decide_true]
    · have : decide (((d : Int) + (idx : Int)) ≥ (p.length : Int)) = false := by simp; omega
      simp only [this, Bool.false_eq_true, if_false, ↓reduceIte, h1]
      by_cases h2 : idx < plen
      · have : decide ((idx : Int) < (plen : Int)) = true := by simp; omega
        simp only [this, if_true, ↓reduceIte, h2, pure, decide_true]
      · have : decide ((idx : Int) < (plen : Int)) = false := by simp; omega
        simp only [this, Bool.false_eq_true, if_false, ↓reduceIte, h2]
        have hc : ((d : Int) + (plen : Int)) = ((d + plen : Nat) : Int) := by omega
        rw [hc]
        by_cases h3 : d + plen ≥ p.length
        · have : decide (((d + plen : Nat) : Int) ≥ (p.length : Int)) = true := by simp; omega
          simp only [this, if_true, ↓reduceIte, pure, List.getElem?_eq_none h3, decide_true]
        · have : decide (((d + plen : Nat) : Int) ≥ (p.length : Int)) = false := by simp; omega
          have hg : p[d + plen]? = some p[d + plen] := List.getElem?_eq_getElem (by omega)
          simp only [this, Bool.false_eq_true, if_false, ↓reduceIte, idx?_nat, hg, Option.bind_some, pure]
          congr 2

end GenLcp
end ArtVerif
