/-
  Child tables as sorted association lists: `insCh`, `replaceCh`, `eraseCh`, `lookupCh`.
-/
import ArtVerif.Proofs.WF
namespace ArtVerif
namespace T
variable {V : Type}

abbrev KeysSorted (ch : Ch V) : Prop := (ch.map (·.1)).Pairwise (· < ·)

theorem mem_inorderL_iff {ch : Ch V} {x : Item V} : x ∈ inorderL ch ↔ ∃ bc ∈ ch, x ∈ inorder bc.2 := by
  simp only [inorderL_eq, List.mem_flatMap, List.mem_map]
  constructor
  · rintro ⟨c, ⟨bc, hbc, rfl⟩, hx⟩; exact ⟨bc, hbc, hx⟩
  · rintro ⟨bc, hbc, hx⟩; exact ⟨bc.2, ⟨bc, hbc, rfl⟩, hx⟩

theorem mem_insCh {b : UInt8} {c : T V} {ch : Ch V} {x : UInt8 × T V} :
    x ∈ insCh b c ch ↔ x = (b, c) ∨ x ∈ ch := by
  induction ch with
  | nil => simp [insCh]
  | cons bc rest ih =>
    obtain ⟨k, y⟩ := bc
    simp only [insCh]
    split
    · simp
    · simp only [List.mem_cons, ih]
      constructor
      · rintro (h | h | h)
        · exact Or.inr (Or.inl h)
        · exact Or.inl h
        · exact Or.inr (Or.inr h)
      · rintro (h | h | h)
        · exact Or.inr (Or.inl h)
        · exact Or.inl h
        · exact Or.inr (Or.inr h)

theorem length_insCh {b : UInt8} {c : T V} {ch : Ch V} : (insCh b c ch).length = ch.length + 1 := by
  induction ch with
  | nil => simp [insCh]
  | cons bc rest ih =>
    obtain ⟨k, y⟩ := bc
    simp only [insCh]
    split <;> simp [ih]

theorem insCh_sorted {b : UInt8} {c : T V} {ch : Ch V} (hs : KeysSorted ch) (hb : ∀ bc ∈ ch, bc.1 ≠ b) :
    KeysSorted (insCh b c ch) := by
  induction ch with
  | nil => simp [insCh, KeysSorted]
  | cons bc rest ih =>
    obtain ⟨k, y⟩ := bc
    simp only [KeysSorted, List.map_cons, List.pairwise_cons] at hs
    simp only [insCh]
    split
    · next hlt =>
      simp only [KeysSorted, List.map_cons, List.pairwise_cons]
      refine ⟨?_, hs⟩
      intro a ha
      cases ha with
      | head => exact hlt
      | tail _ ha' => exact uint8_lt_trans hlt (hs.1 a ha')
    · next hnlt =>
      have hkb : k ≠ b := hb (k, y) List.mem_cons_self
      have hkltb : k < b := by
        rcases uint8_lt_or_eq_or_gt k b with h | h | h
        · exact h
        · exact absurd h hkb
        · exact absurd h hnlt
      simp only [KeysSorted, List.map_cons, List.pairwise_cons]
      refine ⟨?_, ih hs.2 (fun bc h => hb bc (List.mem_cons_of_mem _ h))⟩
      intro a ha
      simp only [List.mem_map] at ha
      obtain ⟨bc, hbc, rfl⟩ := ha
      rcases mem_insCh.mp hbc with h | h
      · subst h; exact hkltb
      · exact hs.1 bc.1 (by simp only [List.mem_map]; exact ⟨bc, h, rfl⟩)

theorem map_fst_replaceCh {b : UInt8} {c : T V} {ch : Ch V} : (replaceCh b c ch).map (·.1) = ch.map (·.1) := by
  induction ch with
  | nil => simp [replaceCh]
  | cons bc rest ih =>
    obtain ⟨k, y⟩ := bc
    simp only [replaceCh]
    split <;> simp [ih]

theorem length_replaceCh {b : UInt8} {c : T V} {ch : Ch V} : (replaceCh b c ch).length = ch.length := by
  have := congrArg List.length (map_fst_replaceCh (b := b) (c := c) (ch := ch))
  simpa using this

theorem keys_ne_of_sorted_mem {ch : Ch V} (hs : KeysSorted ch) {x y : UInt8 × T V}
    (hx : x ∈ ch) (hy : y ∈ ch) (he : x.1 = y.1) : x = y := by
  induction ch with
  | nil => simp at hx
  | cons bc rest ih =>
    simp only [KeysSorted, List.map_cons, List.pairwise_cons] at hs
    cases hx with
    | head =>
      cases hy with
      | head => rfl
      | tail _ hy' =>
        have := hs.1 y.1 (by simp only [List.mem_map]; exact ⟨y, hy', rfl⟩)
        rw [he] at this; exact absurd this (UInt8.lt_irrefl _)
    | tail _ hx' =>
      cases hy with
      | head =>
        have := hs.1 x.1 (by simp only [List.mem_map]; exact ⟨x, hx', rfl⟩)
        rw [he] at this; exact absurd this (UInt8.lt_irrefl _)
      | tail _ hy' => exact ih hs.2 hx' hy'

theorem mem_replaceCh {b : UInt8} {c : T V} {ch : Ch V} (hs : KeysSorted ch) (hb : ∃ c0, (b, c0) ∈ ch)
    {x : UInt8 × T V} : x ∈ replaceCh b c ch ↔ x = (b, c) ∨ (x ∈ ch ∧ x.1 ≠ b) := by
  induction ch with
  | nil => obtain ⟨c0, h⟩ := hb; simp at h
  | cons bc rest ih =>
    obtain ⟨k, y⟩ := bc
    simp only [KeysSorted, List.map_cons, List.pairwise_cons] at hs
    simp only [replaceCh]
    split
    · next hk =>
      subst hk
      simp only [List.mem_cons]
      constructor
      · rintro (h | h)
        · exact Or.inl h
        · refine Or.inr ⟨Or.inr h, ?_⟩
          intro e
          have := hs.1 x.1 (by simp only [List.mem_map]; exact ⟨x, h, rfl⟩)
          rw [e] at this; exact UInt8.lt_irrefl _ this
      · rintro (h | ⟨h | h, hne⟩)
        · exact Or.inl h
        · subst h; exact absurd rfl hne
        · exact Or.inr h
    · next hk =>
      have hb' : ∃ c0, (b, c0) ∈ rest := by
        obtain ⟨c0, h⟩ := hb
        cases h with
        | head => exact absurd rfl hk
        | tail _ h' => exact ⟨c0, h'⟩
      simp only [List.mem_cons, ih hs.2 hb']
      constructor
      · rintro (h | h | ⟨h, hne⟩)
        · subst h; exact Or.inr ⟨Or.inl rfl, hk⟩
        · exact Or.inl h
        · exact Or.inr ⟨Or.inr h, hne⟩
      · rintro (h | ⟨h | h, hne⟩)
        · exact Or.inr (Or.inl h)
        · exact Or.inl h
        · exact Or.inr (Or.inr ⟨h, hne⟩)

theorem mem_eraseCh {b : UInt8} {ch : Ch V} (hs : KeysSorted ch) {x : UInt8 × T V} :
    x ∈ eraseCh b ch ↔ x ∈ ch ∧ x.1 ≠ b := by
  induction ch with
  | nil => simp [eraseCh]
  | cons bc rest ih =>
    obtain ⟨k, y⟩ := bc
    simp only [KeysSorted, List.map_cons, List.pairwise_cons] at hs
    simp only [eraseCh]
    split
    · next hk =>
      subst hk
      simp only [List.mem_cons]
      constructor
      · intro h
        refine ⟨Or.inr h, ?_⟩
        intro e
        have := hs.1 x.1 (by simp only [List.mem_map]; exact ⟨x, h, rfl⟩)
        rw [e] at this; exact UInt8.lt_irrefl _ this
      · rintro ⟨h | h, hne⟩
        · subst h; exact absurd rfl hne
        · exact h
    · next hk =>
      simp only [List.mem_cons, ih hs.2]
      constructor
      · rintro (h | ⟨h, hne⟩)
        · subst h; exact ⟨Or.inl rfl, hk⟩
        · exact ⟨Or.inr h, hne⟩
      · rintro ⟨h | h, hne⟩
        · exact Or.inl h
        · exact Or.inr ⟨h, hne⟩

theorem eraseCh_sublist {b : UInt8} {ch : Ch V} : (eraseCh b ch).Sublist ch := by
  induction ch with
  | nil => simp [eraseCh]
  | cons bc rest ih =>
    obtain ⟨k, y⟩ := bc
    simp only [eraseCh]
    split
    · exact List.sublist_cons_self _ _
    · exact List.Sublist.cons₂ _ ih

theorem eraseCh_sorted {b : UInt8} {ch : Ch V} (hs : KeysSorted ch) : KeysSorted (eraseCh b ch) :=
  List.Pairwise.sublist (List.Sublist.map _ eraseCh_sublist) hs

theorem length_eraseCh {b : UInt8} {ch : Ch V} (hb : ∃ c0, (b, c0) ∈ ch) :
    (eraseCh b ch).length + 1 = ch.length := by
  induction ch with
  | nil => obtain ⟨c0, h⟩ := hb; simp at h
  | cons bc rest ih =>
    obtain ⟨k, y⟩ := bc
    simp only [eraseCh]
    split
    · simp
    · next hk =>
      have hb' : ∃ c0, (b, c0) ∈ rest := by
        obtain ⟨c0, h⟩ := hb
        cases h with
        | head => exact absurd rfl hk
        | tail _ h' => exact ⟨c0, h'⟩
      simp [ih hb']

end T
end ArtVerif
