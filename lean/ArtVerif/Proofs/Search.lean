/-
  `Search`: sound on any tree (it only returns values of leaves carrying the probe key), complete on
  well-formed trees (a stored key is reached by the descent its bytes determine, although only the
  first ten bytes of each compressed path are compared on the way: the leaf comparison settles it).
-/
import ArtVerif.Proofs.WF
namespace ArtVerif
open Gen
namespace T
variable {V : Type}

theorem mem_inorderL_of_mem {ch : Ch V} {b : UInt8} {c : T V} {x : Item V}
    (h : (b, c) ∈ ch) (hx : x ∈ inorder c) : x ∈ inorderL ch := by
  simp only [inorderL_eq, List.mem_flatMap, List.mem_map]
  exact ⟨c, ⟨(b, c), h, rfl⟩, hx⟩

theorem getElem?_of_append_singleton_prefix {q tk : Bytes} {b : UInt8} (h : q ++ [b] <+: tk) :
    tk[q.length]? = some b := by
  obtain ⟨r, rfl⟩ := h
  simp

theorem prefix_drop_of_append_prefix {p cp tk : Bytes} (h : p ++ cp <+: tk) : cp <+: tk.drop p.length := by
  obtain ⟨r, rfl⟩ := h
  simp [List.append_assoc]

theorem search_sound : ∀ (fuel : Nat) (t : T V) (tk k : Bytes) (d : Nat) (v : V),
    search fuel t tk k d = some v → ∃ tk', (k, tk', v) ∈ inorder t := by
  intro fuel
  induction fuel with
  | zero => intro t tk k d v h; simp [search] at h
  | succ fuel ih =>
    intro t tk k d v h
    cases t with
    | leaf lk ltk lv =>
      simp only [search] at h
      split at h
      · next hk => subst hk; simp at h; subst h; exact ⟨ltk, by simp [inorder]⟩
      · simp at h
    | node kind plen inl ch =>
      simp only [search] at h
      split at h
      · simp at h
      · split at h
        · simp at h
        · next b hb =>
          split at h
          · simp at h
          · next c hc =>
            obtain ⟨tk', hm⟩ := ih c tk k _ v h
            exact ⟨tk', by simp only [inorder]; exact mem_inorderL_of_mem (lookupCh_some_mem hc) hm⟩

theorem search_complete : ∀ (fuel : Nat) (t : T V) (p tk k : Bytes) (v : V),
    WF t p → (k, tk, v) ∈ inorder t → tk.length < fuel + p.length →
    search fuel t tk k p.length = some v := by
  intro fuel
  induction fuel with
  | zero =>
    intro t p tk k v hwf hm hf
    have := (WF.prefix_of_mem t p hwf _ hm).length_le
    simp at this hf; omega
  | succ fuel ih =>
    intro t p tk k v hwf hm hf
    cases hwf with
    | leaf hp =>
      simp [inorder] at hm
      obtain ⟨rfl, rfl, rfl⟩ := hm
      simp [search]
    | @node kind plen inl ch _ cp hl hi hs h2 hk hc =>
      simp only [inorder] at hm
      obtain ⟨bc, hbc, hpre, hin⟩ := WF.prefix_cp hc _ hm
      have hpre' : p ++ cp <+: tk := List.IsPrefix.trans (by simp) hpre
      have hcheck : checkPrefixOk inl tk p.length = true := by
        simp only [checkPrefixOk, hasPrefix_iff, hi]
        exact List.IsPrefix.trans (List.take_prefix _ _) (prefix_drop_of_append_prefix hpre')
      have hb : tk[p.length + plen]? = some bc.1 := by
        have := getElem?_of_append_singleton_prefix hpre
        simpa [hl] using this
      have hl' : lookupCh bc.1 ch = some bc.2 := lookupCh_of_mem hs (by cases bc; exact hbc)
      simp only [search, hcheck, Bool.not_true, Bool.false_eq_true, and_false, if_false, hb, hl']
      have := ih bc.2 (p ++ cp ++ [bc.1]) tk k v (hc bc hbc) hin (by simp; omega)
      simpa [hl, Nat.add_assoc] using this

end T
end ArtVerif
