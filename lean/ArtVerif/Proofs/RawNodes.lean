/-
  The raw inner-node images of `Model/Raw.lean` (node4 / node16 / node48 / node256 of node.go)
  are a correct ordered byte → child table.  Core Lean only; no `bv_decide` here (the node4
  theorems use the lane-list lemmas of `Proofs/Swar.lean` and inherit its disclosed axioms).

  Structure
  * list helpers (`insTrunc`, `shiftUp`, `shiftDown`), byte order, `strictAsc`/`nonInc` as `Pairwise`;
  * node4 / node16: `Rep n keys slots L` — the first `n` lanes/slots hold the table `L`;
    insertion = `insertSorted` (position = index of the first larger key, which is what
    `insertPosNode16`, and on a node4 satisfying `inv` also the UNMASKED `insertPosNode4`, return),
    removal = dropping the entry at the index of the key;
  * node48 / node256: `absF f` — the table of a lookup function on byte values; two strictly sorted
    tables with the same entries are equal (`sorted_ext`), so `add`/`remove` are handled through
    `find`;  `Inv48` is the propositional form of the node48 invariant;
  * class changes: 4→16, 16→4 carry `Rep` over; 16→48 and 256→48 build the index with
    `buildIdx` (`build48`); 48→16 and 48→256 enumerate `look48`;
  * `find_spec`, `abs_sorted`, `add_spec`, `remove_spec`, `add_hdr`, `mergeHdr_spec` at the end.
-/
import ArtVerif.Model.Raw
import ArtVerif.Proofs.Swar
namespace ArtVerif
namespace Raw
open Gen Swar
variable {C : Type}

/-! ### list helpers -/

theorem firstIdx_eq (p : UInt8 → Bool) (l : List UInt8) :
    firstIdx p l = if l.findIdx p < l.length then (l.findIdx p : Int) else -1 := by
  unfold firstIdx
  rw [List.findIdx?_eq_guard_findIdx_lt]
  by_cases h : l.findIdx p < l.length <;> simp [h, Option.guard]

/-- `(l.take i ++ x :: l.drop i)` cut back to the length of `l` -/
def insTrunc {α} (i : Nat) (x : α) (l : List α) : List α := (l.take i ++ x :: l.drop i).take l.length

theorem insTrunc_length {α} (i : Nat) (x : α) (l : List α) : (insTrunc i x l).length = l.length := by
  simp [insTrunc]; omega

theorem shiftUp_set {α} (l : List α) (i : Nat) (x : α) (hi : i < l.length) :
    (shiftUp l i).set i x = insTrunc i x l := by
  have h : l[i]? = some l[i] := List.getElem?_eq_getElem hi
  simp only [shiftUp, h, insTrunc]
  rw [← List.take_set]
  congr 1
  rw [List.set_append_right _ _ (by simp; omega)]
  simp [Nat.min_eq_left (Nat.le_of_lt hi)]

theorem insTrunc_set {α} (l : List α) (i : Nat) (x y : α) (hi : i < l.length) :
    (insTrunc i y l).set i x = insTrunc i x l := by
  simp only [insTrunc]
  rw [← List.take_set]
  congr 1
  rw [List.set_append_right _ _ (by simp; omega)]
  simp [Nat.min_eq_left (Nat.le_of_lt hi)]

theorem insTrunc_take {α} (l : List α) (i n : Nat) (x : α) (hi : i ≤ n) (hn : n < l.length) :
    (insTrunc i x l).take (n + 1) = (l.take n).take i ++ x :: (l.take n).drop i := by
  simp only [insTrunc, List.take_take]
  rw [Nat.min_eq_left (by omega)]
  rw [List.take_append, List.take_take, List.length_take]
  have h1 : min i l.length = i := by omega
  rw [h1, Nat.min_eq_right (by omega : i ≤ n + 1), Nat.min_eq_left hi]
  congr 1
  have : n + 1 - i = (n - i) + 1 := by omega
  rw [this, List.take_succ_cons, List.drop_take]

theorem insTrunc_drop {α} (l : List α) (i n : Nat) (x : α) (hi : i ≤ n) (hn : n < l.length) :
    (insTrunc i x l).drop (n + 1) = (l.drop n).take (l.length - (n + 1)) := by
  simp only [insTrunc]
  rw [List.drop_take, List.drop_append, List.length_take]
  have h1 : min i l.length = i := by omega
  rw [h1, List.drop_eq_nil_of_le (by simp; omega)]
  have : n + 1 - i = (n - i) + 1 := by omega
  rw [this, List.nil_append, List.drop_succ_cons, List.drop_drop]
  congr 2; omega

theorem set_take_succ {α} (l : List α) (n : Nat) (x : α) (hn : n < l.length) :
    (l.set n x).take (n + 1) = l.take n ++ [x] := by
  rw [List.take_add_one]
  simp [List.take_set_of_le, hn]

theorem set_drop_succ {α} (l : List α) (n : Nat) (x : α) :
    (l.set n x).drop (n + 1) = l.drop (n + 1) := by
  simp [List.drop_set]

theorem shiftDown_eq {α} (l : List α) (i : Nat) (hi : i < l.length) :
    ∃ x, l.getLast? = some x ∧ shiftDown l i = l.take i ++ l.drop (i + 1) ++ [x] := by
  cases hl : l.getLast? with
  | none => simp at hl; subst hl; simp at hi
  | some x => exact ⟨x, rfl, by simp [shiftDown, hl, hi]⟩

theorem shiftDown_length {α} (l : List α) (i : Nat) : (shiftDown l i).length = l.length := by
  unfold shiftDown
  cases hl : l.getLast? with
  | none => rfl
  | some x =>
    by_cases hi : i < l.length
    · simp only [hi, if_true, List.length_append, List.length_take, List.length_drop, List.length_singleton]; omega
    · simp [hi]

theorem shiftDown_take {α} (l : List α) (i n : Nat) (hi : i < n) (hn : n ≤ l.length) :
    (shiftDown l i).take (n - 1) = (l.take n).take i ++ (l.take n).drop (i + 1) := by
  obtain ⟨x, _, h⟩ := shiftDown_eq l i (by omega)
  rw [h, List.append_assoc, List.take_append, List.length_take]
  rw [List.take_take, List.take_take]
  have h1 : min i l.length = i := by omega
  rw [h1, Nat.min_eq_right (by omega : i ≤ n - 1), Nat.min_eq_left (by omega : i ≤ n)]
  congr 1
  rw [List.take_append, List.length_drop]
  have : n - 1 - i - (l.length - (i + 1)) = 0 := by omega
  rw [this, List.take_zero, List.append_nil, List.drop_take, List.take_drop]
  rw [List.drop_take]; congr 1; omega

theorem shiftDown_drop {α} (l : List α) (i n : Nat) (hi : i < n) (hn : n ≤ l.length) :
    ∃ x, l.getLast? = some x ∧ (shiftDown l i).drop (n - 1) = l.drop n ++ [x] := by
  obtain ⟨x, hx, h⟩ := shiftDown_eq l i (by omega)
  refine ⟨x, hx, ?_⟩
  rw [h, List.append_assoc, List.drop_append, List.length_take]
  have h1 : min i l.length = i := by omega
  rw [h1, List.drop_eq_nil_of_le (by simp; omega), List.nil_append, List.drop_append, List.drop_drop]
  rw [List.length_drop]
  have : n - 1 - i - (l.length - (i + 1)) = 0 := by omega
  rw [this, List.drop_zero]
  congr 2; omega

/-! ### order on bytes, `strictAsc`, `nonInc` -/

theorem u8_lt_trans {a b c : UInt8} (h1 : a < b) (h2 : b < c) : a < c := by
  rw [UInt8.lt_iff_toNat_lt] at *; omega
theorem u8_lt_irrefl (a : UInt8) : ¬ a < a := by
  rw [UInt8.lt_iff_toNat_lt]; omega
theorem u8_le_iff_lt_or_eq {a b : UInt8} : a ≤ b ↔ a < b ∨ a = b := by
  rw [UInt8.le_iff_toNat_le, UInt8.lt_iff_toNat_lt, ← UInt8.toNat_inj]; omega
theorem u8_not_lt {a b : UInt8} : ¬ a < b ↔ b ≤ a := by
  rw [UInt8.le_iff_toNat_le, UInt8.lt_iff_toNat_lt]; omega
theorem u8_le_trans {a b c : UInt8} (h1 : a ≤ b) (h2 : b ≤ c) : a ≤ c := by
  rw [UInt8.le_iff_toNat_le] at *; omega

theorem strictAsc_iff (l : List UInt8) : strictAsc l = true ↔ l.Pairwise (· < ·) := by
  induction l with
  | nil => simp [strictAsc]
  | cons a t ih =>
    cases t with
    | nil => simp [strictAsc]
    | cons b t' =>
      simp only [strictAsc, Bool.and_eq_true, decide_eq_true_eq, ih]
      constructor
      · rintro ⟨hab, ht⟩
        refine List.pairwise_cons.2 ⟨?_, ht⟩
        intro x hx
        rcases List.mem_cons.1 hx with rfl | hx
        · exact hab
        · exact u8_lt_trans hab (List.rel_of_pairwise_cons ht hx)
      · intro h
        exact ⟨List.rel_of_pairwise_cons h (List.mem_cons_self), (List.pairwise_cons.1 h).2⟩

theorem nonInc_iff (l : List UInt8) : nonInc l = true ↔ l.Pairwise (fun a b => b ≤ a) := by
  induction l with
  | nil => simp [nonInc]
  | cons a t ih =>
    cases t with
    | nil => simp [nonInc]
    | cons b t' =>
      simp only [nonInc, Bool.and_eq_true, decide_eq_true_eq, ih]
      constructor
      · rintro ⟨hab, ht⟩
        refine List.pairwise_cons.2 ⟨?_, ht⟩
        intro x hx
        rcases List.mem_cons.1 hx with rfl | hx
        · exact hab
        · exact u8_le_trans (List.rel_of_pairwise_cons ht hx) hab
      · intro h
        exact ⟨List.rel_of_pairwise_cons h (List.mem_cons_self), (List.pairwise_cons.1 h).2⟩

/-! ### the abstract table of a keys/slots pair -/

/-- `abs` of node4 / node16 over a lane list -/
def absKS (n : Nat) (keys : Bytes) (slots : List (Option C)) : List (UInt8 × C) :=
  (List.range n).filterMap fun i =>
    match (slots[i]?).join with
    | some c => some (keys.getD i 0, c)
    | none => none

/-- `L` is what the first `n` lanes / slots hold -/
def Rep (n : Nat) (keys : Bytes) (slots : List (Option C)) (L : List (UInt8 × C)) : Prop :=
  keys.take n = L.map (·.1) ∧ slots.take n = L.map (fun p => some p.2) ∧ L.length = n

theorem absKS_of_rep {n : Nat} {keys : Bytes} {slots : List (Option C)} {L : List (UInt8 × C)}
    (h : Rep n keys slots L) : absKS n keys slots = L := by
  induction L generalizing n keys slots with
  | nil =>
    obtain ⟨_, _, h3⟩ := h
    simp at h3; subst h3; simp [absKS]
  | cons p L ih =>
    obtain ⟨h1, h2, h3⟩ := h
    simp at h3; subst h3
    cases keys with
    | nil => simp at h1
    | cons k keys =>
      cases slots with
      | nil => simp at h2
      | cons s slots =>
        simp only [List.take_succ_cons, List.map_cons, List.cons.injEq] at h1 h2
        obtain ⟨rfl, h1⟩ := h1
        obtain ⟨rfl, h2⟩ := h2
        have := ih (n := L.length) (keys := keys) (slots := slots) ⟨h1, h2, rfl⟩
        simp only [absKS, List.range_succ_eq_map, List.filterMap_cons, List.filterMap_map] at this ⊢
        simp only [List.getElem?_cons_zero, Option.join_some, List.getD_cons_zero]
        congr 1

theorem rep_of_all {n : Nat} {keys : Bytes} {slots : List (Option C)}
    (hk : n ≤ keys.length) (hs : n ≤ slots.length) (ha : (slots.take n).all (·.isSome) = true) :
    ∃ L, Rep n keys slots L := by
  induction n generalizing keys slots with
  | zero => exact ⟨[], by simp [Rep]⟩
  | succ n ih =>
    cases keys with
    | nil => simp at hk
    | cons k keys =>
      cases slots with
      | nil => simp at hs
      | cons s slots =>
        simp only [List.take_succ_cons, List.all_cons, Bool.and_eq_true] at ha
        obtain ⟨hs0, ha⟩ := ha
        obtain ⟨c, rfl⟩ := Option.isSome_iff_exists.1 hs0
        obtain ⟨L, h1, h2, h3⟩ := ih (keys := keys) (slots := slots) (by simpa using hk) (by simpa using hs) ha
        exact ⟨(k, c) :: L, by simp [h1], by simp [h2], by simp [h3]⟩

/-! ### sorted association lists: the specification side -/

/-- sorted by key, strictly -/
abbrev SortedT (L : List (UInt8 × C)) : Prop := L.Pairwise (fun x y => x.1 < y.1)

/-- insertion in front of the first entry with a larger key -/
def insertSorted (b : UInt8) (c : C) : List (UInt8 × C) → List (UInt8 × C)
  | [] => [(b, c)]
  | p :: r => if b < p.1 then (b, c) :: p :: r else p :: insertSorted b c r

theorem sortedT_iff (L : List (UInt8 × C)) : strictAsc (L.map (·.1)) = true ↔ SortedT L := by
  rw [strictAsc_iff, List.pairwise_map]

theorem mem_insertSorted (b : UInt8) (c : C) (L : List (UInt8 × C)) (x : UInt8 × C) :
    x ∈ insertSorted b c L ↔ x = (b, c) ∨ x ∈ L := by
  induction L with
  | nil => simp [insertSorted]
  | cons p r ih =>
    simp only [insertSorted]
    split
    · simp
    · simp only [List.mem_cons, ih]
      constructor
      · rintro (h | h | h) <;> simp [h]
      · rintro (h | h | h) <;> simp [h]

theorem sorted_insertSorted (b : UInt8) (c : C) (L : List (UInt8 × C)) (hs : SortedT L)
    (hb : ∀ p ∈ L, p.1 ≠ b) : SortedT (insertSorted b c L) := by
  induction L with
  | nil => simp [insertSorted, SortedT]
  | cons p r ih =>
    simp only [insertSorted]
    have hs' := List.pairwise_cons.1 hs
    split
    · rename_i hlt
      refine List.pairwise_cons.2 ⟨?_, hs⟩
      intro x hx
      rcases List.mem_cons.1 hx with rfl | hx
      · exact hlt
      · exact u8_lt_trans hlt (hs'.1 x hx)
    · rename_i hnlt
      have hpb : p.1 < b := by
        have := u8_not_lt.1 hnlt
        rcases u8_le_iff_lt_or_eq.1 this with h | h
        · exact h
        · exact absurd h (hb p List.mem_cons_self)
      refine List.pairwise_cons.2 ⟨?_, ih hs'.2 (fun q hq => hb q (List.mem_cons_of_mem _ hq))⟩
      intro x hx
      rcases (mem_insertSorted b c r x).1 hx with rfl | hx
      · exact hpb
      · exact hs'.1 x hx

/-- `insertSorted` puts the new entry at the index of the first larger key -/
theorem insAt_findIdx (b : UInt8) (c : C) (L : List (UInt8 × C)) :
    L.take (L.findIdx (fun p => decide (b < p.1))) ++ (b, c) :: L.drop (L.findIdx (fun p => decide (b < p.1)))
      = insertSorted b c L := by
  induction L with
  | nil => simp [insertSorted]
  | cons p r ih =>
    simp only [insertSorted, List.findIdx_cons]
    by_cases h : b < p.1
    · simp [h]
    · simp [h, ih]

/-- dropping the entry at the index of the first entry with key `b` = filtering the key out -/
theorem eraseAt_findIdx (b : UInt8) (L : List (UInt8 × C)) (hs : SortedT L) :
    L.take (L.findIdx (fun p => p.1 == b)) ++ L.drop (L.findIdx (fun p => p.1 == b) + 1)
      = L.filter (fun p => p.1 != b) := by
  induction L with
  | nil => simp
  | cons p r ih =>
    have hs' := List.pairwise_cons.1 hs
    simp only [List.findIdx_cons]
    by_cases h : p.1 == b
    · have hb : p.1 = b := by simpa using h
      simp only [h, cond_true, List.take_zero, List.nil_append, Nat.zero_add, List.drop_succ_cons,
        List.drop_zero]
      rw [List.filter_cons_of_neg (by simp [hb])]
      symm
      rw [List.filter_eq_self]
      intro q hq
      have := hs'.1 q hq
      rw [hb] at this
      simp only [bne_iff_ne, ne_eq]
      intro e; rw [e] at this; exact u8_lt_irrefl _ this
    · simp only [h, cond_false, List.take_succ_cons, List.cons_append, List.drop_succ_cons]
      rw [List.filter_cons_of_pos (by simpa [bne] using h), ih hs'.2]

/-- keys of a strictly sorted list are unique, so `find?` by key is `lookup` -/
theorem sorted_find_unique (L : List (UInt8 × C)) (hs : SortedT L) (b : UInt8) (c : C)
    (hm : (b, c) ∈ L) : L.find? (fun p => p.1 == b) = some (b, c) := by
  induction L with
  | nil => simp at hm
  | cons p r ih =>
    have hs' := List.pairwise_cons.1 hs
    rcases List.mem_cons.1 hm with rfl | hm
    · simp
    · have hlt := hs'.1 _ hm
      have hne : ¬ (p.1 == b) = true := by
        intro e
        have : p.1 = b := by simpa using e
        rw [this] at hlt; exact u8_lt_irrefl _ hlt
      simp only [List.find?_cons, hne]
      exact ih hs'.2 hm

/-- two strictly sorted tables with the same entries are equal -/
theorem sorted_ext (L₁ L₂ : List (UInt8 × C)) (h₁ : SortedT L₁) (h₂ : SortedT L₂)
    (hm : ∀ x, x ∈ L₁ ↔ x ∈ L₂) : L₁ = L₂ := by
  induction L₁ generalizing L₂ with
  | nil =>
    cases L₂ with
    | nil => rfl
    | cons y ys => exact absurd ((hm y).2 List.mem_cons_self) (by simp)
  | cons x xs ih =>
    cases L₂ with
    | nil => exact absurd ((hm x).1 List.mem_cons_self) (by simp)
    | cons y ys =>
      have hx := List.pairwise_cons.1 h₁
      have hy := List.pairwise_cons.1 h₂
      have hxy : x = y := by
        have xm := (hm x).1 List.mem_cons_self
        have ym := (hm y).2 List.mem_cons_self
        rcases List.mem_cons.1 xm with e | xm
        · exact e
        · rcases List.mem_cons.1 ym with e | ym
          · exact e.symm
          · exact absurd (u8_lt_trans (hx.1 y ym) (hy.1 x xm)) (u8_lt_irrefl _)
      subst hxy
      congr 1
      apply ih ys hx.2 hy.2
      intro z
      constructor
      · intro hz
        rcases List.mem_cons.1 ((hm z).1 (List.mem_cons_of_mem _ hz)) with e | h
        · subst e; exact absurd (hx.1 z hz) (u8_lt_irrefl _)
        · exact h
      · intro hz
        rcases List.mem_cons.1 ((hm z).2 (List.mem_cons_of_mem _ hz)) with e | h
        · subst e; exact absurd (hy.1 z hz) (u8_lt_irrefl _)
        · exact h

/-! ### node16: the lane-wise search routines as `firstIdx` -/

theorem range_find?_eq (f : Option UInt8 → Bool) (l : List UInt8) (n : Nat) (hn : n ≤ l.length) :
    (List.range n).find? (fun i => f l[i]?) = (l.take n).findIdx? (fun x => f (some x)) := by
  induction l generalizing n with
  | nil => simp at hn; subst hn; simp
  | cons x xs ih =>
    cases n with
    | zero => simp
    | succ m =>
      rw [List.range_succ_eq_map, List.find?_cons, List.take_succ_cons, List.findIdx?_cons]
      simp only [List.getElem?_cons_zero]
      by_cases h : f (some x) = true
      · simp [h]
      · simp only [h, List.find?_map]
        have e : ((fun i => f (x :: xs)[i]?) ∘ Nat.succ) = fun i => f xs[i]? := by
          funext i; simp
        rw [e, ih m (by simpa using hn)]
        simp

theorem searchNode16_eq (keys : Bytes) (len : Nat) (b : UInt8) (hl : len ≤ keys.length) (h16 : len ≤ 16) :
    searchNode16 keys len b = firstIdx (fun k => k == b) (keys.take len) := by
  unfold searchNode16 firstIdx
  rw [Nat.min_eq_left h16]
  have key := range_find?_eq (fun o => o == some b) keys len hl
  have e : (fun x : UInt8 => (some x == some b)) = (fun k => k == b) := by funext x; simp
  rw [e] at key
  exact congrArg (fun o : Option Nat => match o with | some i => (i : Int) | none => -1) key

theorem insertPosNode16_eq (keys : Bytes) (len : Nat) (b : UInt8) (hl : len ≤ keys.length) (h16 : len ≤ 16) :
    insertPosNode16 keys len b = firstIdx (fun k => decide (b < k)) (keys.take len) := by
  unfold insertPosNode16 firstIdx
  rw [Nat.min_eq_left h16]
  have key := range_find?_eq (fun o => match o with | some k => decide (b < k) | none => false) keys len hl
  exact congrArg (fun o : Option Nat => match o with | some i => (i : Int) | none => -1) key

/-! ### `Rep` under search / insertion / removal -/

theorem rep_len_le {n : Nat} {keys : Bytes} {slots : List (Option C)} {L : List (UInt8 × C)}
    (h : Rep n keys slots L) : n ≤ keys.length ∧ n ≤ slots.length := by
  obtain ⟨h1, h2, h3⟩ := h
  have a := congrArg List.length h1
  have b := congrArg List.length h2
  simp at a b
  omega

theorem rep_slot {n : Nat} {keys : Bytes} {slots : List (Option C)} {L : List (UInt8 × C)}
    (h : Rep n keys slots L) (i : Nat) (hi : i < n) :
    (slots[i]?).join = (L[i]?).map (·.2) := by
  obtain ⟨_, h2, h3⟩ := h
  have : (slots.take n)[i]? = slots[i]? := by simp [hi]
  rw [← this, h2]
  simp [List.getElem?_map]
  cases L[i]? <;> simp

/-- looking `b` up through the first-match index of the live keys -/
theorem rep_find {n : Nat} {keys : Bytes} {slots : List (Option C)} {L : List (UInt8 × C)}
    (h : Rep n keys slots L) (b : UInt8) :
    let pos := (keys.take n).findIdx (fun k => k == b)
    (if pos < n then (slots[pos]?).join else none) = (L.find? (fun p => p.1 == b)).map (·.2) := by
  intro pos
  have hpos : pos = L.findIdx (fun p => p.1 == b) := by
    show (keys.take n).findIdx _ = _
    rw [h.1, List.findIdx_map]; rfl
  rw [List.find?_eq_getElem?_findIdx, ← hpos]
  by_cases hp : pos < n
  · rw [if_pos hp, rep_slot h pos hp]
  · rw [if_neg hp]
    have : L.length ≤ pos := by rw [h.2.2]; omega
    simp [List.getElem?_eq_none this]

theorem rep_add {n : Nat} {keys keys' : Bytes} {slots slots' : List (Option C)} {L : List (UInt8 × C)}
    (h : Rep n keys slots L) (i : Nat) (b : UInt8) (c : C)
    (hk : keys'.take (n + 1) = (keys.take n).take i ++ b :: (keys.take n).drop i)
    (hs : slots'.take (n + 1) = (slots.take n).take i ++ some c :: (slots.take n).drop i) :
    Rep (n + 1) keys' slots' (L.take i ++ (b, c) :: L.drop i) := by
  obtain ⟨h1, h2, h3⟩ := h
  refine ⟨?_, ?_, ?_⟩
  · rw [hk, h1]; simp [List.map_take, List.map_drop]
  · rw [hs, h2]; simp [List.map_take, List.map_drop]
  · simp; omega

theorem rep_remove {n : Nat} {keys keys' : Bytes} {slots slots' : List (Option C)} {L : List (UInt8 × C)}
    (h : Rep n keys slots L) (i : Nat) (hi : i < n)
    (hk : keys'.take (n - 1) = (keys.take n).take i ++ (keys.take n).drop (i + 1))
    (hs : slots'.take (n - 1) = (slots.take n).take i ++ (slots.take n).drop (i + 1)) :
    Rep (n - 1) keys' slots' (L.take i ++ L.drop (i + 1)) := by
  obtain ⟨h1, h2, h3⟩ := h
  refine ⟨?_, ?_, ?_⟩
  · rw [hk, h1]; simp [List.map_take, List.map_drop]
  · rw [hs, h2]; simp [List.map_take, List.map_drop]
  · simp; omega

/-- the common insertion step of node4 / node16 -/
theorem rep_insert {n : Nat} {keys : Bytes} {slots : List (Option C)} {L : List (UInt8 × C)}
    (h : Rep n keys slots L) (b : UInt8) (c : C) (hk : n < keys.length) (hs : n < slots.length)
    (i : Nat) (hi : i = L.findIdx (fun p => decide (b < p.1))) :
    Rep (n + 1) (insTrunc i b keys) (insTrunc i (some c) slots) (insertSorted b c L) := by
  have hin : i ≤ n := by rw [hi, ← h.2.2]; exact List.findIdx_le_length
  rw [← insAt_findIdx, ← hi]
  exact rep_add h i b c (insTrunc_take keys i n b hin hk) (insTrunc_take slots i n (some c) hin hs)

/-- … and of its append branch (no larger key) -/
theorem rep_append {n : Nat} {keys : Bytes} {slots : List (Option C)} {L : List (UInt8 × C)}
    (h : Rep n keys slots L) (b : UInt8) (c : C) (hk : n < keys.length) (hs : n < slots.length)
    (hi : n = L.findIdx (fun p => decide (b < p.1))) :
    Rep (n + 1) (keys.set n b) (slots.set n (some c)) (insertSorted b c L) := by
  rw [← insAt_findIdx, ← hi]
  apply rep_add h n b c
  · rw [set_take_succ _ _ _ hk]; simp [List.take_take]
  · rw [set_take_succ _ _ _ hs]; simp [List.take_take]

theorem filterMap_congr' {α β} {f g : α → Option β} {l : List α} (h : ∀ a ∈ l, f a = g a) :
    l.filterMap f = l.filterMap g := by
  induction l with
  | nil => rfl
  | cons x xs ih =>
    rw [List.filterMap_cons, List.filterMap_cons, h x List.mem_cons_self,
      ih (fun a ha => h a (List.mem_cons_of_mem _ ha))]

/-! ### node4 -/

theorem lanes4_eq (keys : BitVec 32) : lanes4 keys = lanes keys := rfl

theorem inv4_iff (h : Hdr) (len : Nat) (keys : BitVec 32) (slots : List (Option C)) :
    (n4 h len keys slots).inv = true ↔
      h.pfx.length = 10 ∧ slots.length = 4 ∧ len ≤ 4 ∧ strictAsc ((lanes keys).take len) = true ∧
      nonInc ((lanes keys).drop len) = true ∧ (slots.take len).all (·.isSome) = true := by
  simp only [inv, lanes4_eq, Bool.and_eq_true, beq_iff_eq, decide_eq_true_eq, and_assoc]

theorem abs4_eq (h : Hdr) (len : Nat) (keys : BitVec 32) (slots : List (Option C)) (hl : len ≤ 4) :
    (n4 h len keys slots).abs = absKS len (lanes keys) slots := by
  simp only [abs, absKS, Nat.min_eq_left hl]
  apply filterMap_congr'
  intro i hi
  have hi4 : i < 4 := by have := List.mem_range.1 hi; omega
  have : (lanes keys).getD i 0 = u8 (getAtPos keys i) := by
    rw [List.getD_eq_getElem?_getD, getAtPos_lanes keys i hi4]; rfl
  rw [this]
  rfl

/-- the unpacked view of a node4 satisfying `inv` -/
theorem inv4_rep {h : Hdr} {len : Nat} {keys : BitVec 32} {slots : List (Option C)}
    (hinv : (n4 h len keys slots).inv = true) :
    ∃ L, Rep len (lanes keys) slots L ∧ (n4 h len keys slots).abs = L ∧ SortedT L := by
  obtain ⟨_, hs, hl, hasc, _, hall⟩ := (inv4_iff h len keys slots).1 hinv
  obtain ⟨L, hrep⟩ := rep_of_all (keys := lanes keys) (by simpa [lanes_length] using hl) (by omega) hall
  refine ⟨L, hrep, ?_, ?_⟩
  · rw [abs4_eq h len keys slots hl, absKS_of_rep hrep]
  · rw [hrep.1] at hasc; exact (sortedT_iff L).1 hasc

theorem find4_spec (h : Hdr) (len : Nat) (keys : BitVec 32) (slots : List (Option C)) (b : UInt8)
    (hinv : (n4 h len keys slots).inv = true) :
    (n4 h len keys slots).find b = ((n4 h len keys slots).abs.find? (fun p => p.1 == b)).map (·.2) := by
  obtain ⟨L, hrep, habs, _⟩ := inv4_rep hinv
  obtain ⟨_, hs, hl, _, _, _⟩ := (inv4_iff h len keys slots).1 hinv
  rw [habs, ← rep_find hrep b]
  simp only [find, b8, searchNode4_spec, firstIdx_eq]
  have hA : ((lanes keys).take len).length = len := by simp [lanes_length, hl]
  have hsplit : (lanes keys).findIdx (fun k => k == b) =
      if ((lanes keys).take len).findIdx (fun k => k == b) < len
      then ((lanes keys).take len).findIdx (fun k => k == b)
      else ((lanes keys).drop len).findIdx (fun k => k == b) + len := by
    conv => lhs; rw [← List.take_append_drop len (lanes keys)]
    rw [List.findIdx_append, hA]
  generalize ((lanes keys).take len).findIdx (fun k => k == b) = pA at *
  generalize ((lanes keys).drop len).findIdx (fun k => k == b) = pB at *
  rw [hsplit, lanes_length]
  by_cases hp : pA < len
  · have : pA < 4 := by omega
    simp only [hp, this, if_true]
    have e : (((pA : Nat) : Int) != -1 && decide ((pA : Int) < (len : Int))) = true := by
      simp; omega
    rw [if_pos e, Int.toNat_natCast]
  · simp only [hp, if_false]
    by_cases h4 : pB + len < 4
    · have e : ((((pB + len : Nat)) : Int) != -1 && decide (((pB + len : Nat) : Int) < (len : Int))) = false := by
        simp; omega
      simp only [h4, if_true, e]; simp
    · simp [h4]

theorem findIdx_congr' {α} {p q : α → Bool} {l : List α} (h : ∀ a ∈ l, p a = q a) :
    l.findIdx p = l.findIdx q := by
  induction l with
  | nil => rfl
  | cons x xs ih =>
    rw [List.findIdx_cons, List.findIdx_cons, h x List.mem_cons_self,
      ih (fun a ha => h a (List.mem_cons_of_mem _ ha))]

/-- in a non-increasing list the first lane `≥ b`, if any, is the first lane -/
theorem nonInc_findIdx_zero (B : List UInt8) (b : UInt8) (hB : B.Pairwise (fun x y => y ≤ x))
    (hf : B.findIdx (fun k => decide (b ≤ k)) < B.length) : B.findIdx (fun k => decide (b ≤ k)) = 0 := by
  cases B with
  | nil => simp at hf
  | cons x t =>
    rw [List.findIdx_cons]
    by_cases hx : b ≤ x
    · simp [hx]
    · exfalso
      obtain ⟨y, hy, hpy⟩ := List.findIdx_lt_length.1 hf
      have hby : b ≤ y := by simpa using hpy
      rcases List.mem_cons.1 hy with rfl | hy
      · exact hx hby
      · exact hx (u8_le_trans hby (List.rel_of_pairwise_cons hB hy))

theorem all_isSome_map_some {α β} (L : List α) (f : α → β) :
    (L.map (fun p => some (f p))).all (·.isSome) = true := by
  simp

/-- a node4 image whose live part is `L` -/
theorem inv4_of_rep (h : Hdr) (len : Nat) (keys : BitVec 32) (slots : List (Option C))
    (L : List (UInt8 × C)) (hp : h.pfx.length = 10) (hs : slots.length = 4) (hl : len ≤ 4)
    (hrep : Rep len (lanes keys) slots L) (hsorted : SortedT L)
    (hst : ((lanes keys).drop len).Pairwise (fun a b => b ≤ a)) :
    (n4 h len keys slots).abs = L ∧ (n4 h len keys slots).inv = true := by
  refine ⟨by rw [abs4_eq h len keys slots hl, absKS_of_rep hrep], ?_⟩
  rw [inv4_iff]
  refine ⟨hp, hs, hl, ?_, (nonInc_iff _).2 hst, ?_⟩
  · rw [hrep.1]; exact (sortedT_iff L).2 hsorted
  · rw [hrep.2.1]; simp

theorem maxNode4_eq : maxNode4 = 4 := rfl

/-- where the unmasked `insertPosNode4` lands on a node4 satisfying `inv` -/
theorem insertPos4_pos (len : Nat) (keys : BitVec 32) (L : List (UInt8 × C)) (b : UInt8)
    (hl : len ≤ 4) (hk : (lanes keys).take len = L.map (·.1)) (hlen : L.length = len)
    (hst : ((lanes keys).drop len).Pairwise (fun a b => b ≤ a))
    (hnk : ∀ p ∈ L, p.1 ≠ b) :
    let pos4 := (lanes keys).findIdx (fun k => decide (b ≤ k))
    let pos := L.findIdx (fun p => decide (b < p.1))
    (pos4 < 4 → pos4 = pos) ∧ (¬ pos4 < 4 → pos = len) := by
  intro pos4 pos
  have hA : ((lanes keys).take len).length = len := by simp [lanes_length, hl]
  have hposA : ((lanes keys).take len).findIdx (fun k => decide (b ≤ k)) = pos := by
    rw [hk, List.findIdx_map]
    apply findIdx_congr'
    intro p hp
    have := hnk p hp
    simp only [Function.comp]
    rw [decide_eq_decide, u8_le_iff_lt_or_eq]
    constructor
    · rintro (h | h)
      · exact h
      · exact absurd h.symm this
    · exact Or.inl
  have hpos_le : pos ≤ len := by rw [← hlen]; exact List.findIdx_le_length
  have hsplit : pos4 = if pos < len then pos
      else ((lanes keys).drop len).findIdx (fun k => decide (b ≤ k)) + len := by
    show (lanes keys).findIdx _ = _
    conv => lhs; rw [← List.take_append_drop len (lanes keys)]
    rw [List.findIdx_append, hA, hposA]
  by_cases hp : pos < len
  · rw [if_pos hp] at hsplit
    exact ⟨fun _ => hsplit, fun h4 => by omega⟩
  · rw [if_neg hp] at hsplit
    refine ⟨fun h4 => ?_, fun _ => by omega⟩
    have hBlen : ((lanes keys).drop len).length = 4 - len := by simp [lanes_length]
    have := nonInc_findIdx_zero _ b hst (by rw [hBlen]; omega)
    omega

theorem add4_spec (h : Hdr) (len : Nat) (keys : BitVec 32) (slots : List (Option C)) (b : UInt8) (c : C)
    (hinv : (n4 h len keys slots).inv = true)
    (hnk : ∀ p ∈ (n4 h len keys slots).abs, p.1 ≠ b) (hlen : len < maxNode4) :
    (add4 h len keys slots b c).abs = insertSorted b c (n4 h len keys slots).abs ∧
    (add4 h len keys slots b c).inv = true := by
  obtain ⟨L, hrep, habs, hsorted⟩ := inv4_rep hinv
  obtain ⟨hp, hs, hl, _, hst, _⟩ := (inv4_iff h len keys slots).1 hinv
  rw [habs] at hnk ⊢
  rw [maxNode4_eq] at hlen
  have hst' := (nonInc_iff _).1 hst
  have hsorted' := sorted_insertSorted b c L hsorted hnk
  obtain ⟨hpos1, hpos2⟩ := insertPos4_pos len keys L b hl hrep.1 hrep.2.2 hst' hnk
  have hi : insertPosNode4 keys (b8 b) =
      if (lanes keys).findIdx (fun k => decide (b ≤ k)) < 4
      then (((lanes keys).findIdx (fun k => decide (b ≤ k)) : Nat) : Int) else -1 := by
    rw [b8, insertPosNode4_spec, firstIdx_eq, lanes_length]
  have hlen' : len < maxNode4 := by rw [maxNode4_eq]; exact hlen
  by_cases h4 : (lanes keys).findIdx (fun k => decide (b ≤ k)) < 4
  · have hpos := hpos1 h4
    have hple : L.findIdx (fun p => decide (b < p.1)) ≤ len := by
      rw [← hrep.2.2]; exact List.findIdx_le_length
    rw [if_pos h4, hpos] at hi
    generalize hP : L.findIdx (fun p => decide (b < p.1)) = pos at *
    have e : (((pos : Nat) : Int) != -1) = true := by simp
    simp only [add4, if_pos hlen', hi, if_pos e, Int.toNat_natCast]
    simp only [b8]
    have hp4 : pos < 4 := by omega
    have hlanes : lanes (setAtPos (shiftLeftClear keys pos) pos b.toBitVec) = insTrunc pos b (lanes keys) := by
      rw [lanes_setAtPos _ _ hp4, lanes_shiftLeftClear _ _ hp4]
      have : ((lanes keys).take pos ++ 0 :: (lanes keys).drop pos).take 4 = insTrunc pos 0 (lanes keys) := rfl
      rw [this, insTrunc_set _ _ _ _ (by rw [lanes_length]; exact hp4)]
    have hslots : (shiftUp slots pos).set pos (some c) = insTrunc pos (some c) slots :=
      shiftUp_set _ _ _ (by omega)
    rw [hslots]
    apply inv4_of_rep _ _ _ _ _ hp (by rw [insTrunc_length]; exact hs) (by omega)
    · rw [hlanes]
      exact rep_insert hrep b c (by rw [lanes_length]; omega) (by omega) pos hP.symm
    · exact hsorted'
    · rw [hlanes, insTrunc_drop _ _ _ _ hple (by rw [lanes_length]; omega)]
      exact hst'.sublist (List.take_sublist _ _)
  · have hpos := hpos2 h4
    rw [if_neg h4] at hi
    have e : ¬ (((-1 : Int) != -1) = true) := by decide
    simp only [add4, if_pos hlen', hi, if_neg e]
    simp only [b8]
    have hlanes : lanes (setAtPos keys len b.toBitVec) = (lanes keys).set len b :=
      lanes_setAtPos _ _ hlen _
    apply inv4_of_rep _ _ _ _ _ hp (by rw [List.length_set]; exact hs) (by omega)
    · rw [hlanes]
      exact rep_append hrep b c (by rw [lanes_length]; omega) (by omega) hpos.symm
    · exact hsorted'
    · rw [hlanes, set_drop_succ]
      have : (lanes keys).drop (len + 1) = ((lanes keys).drop len).drop 1 := by
        rw [List.drop_drop]
      rw [this]
      exact hst'.sublist (List.drop_sublist _ _)

/-- duplicating the last element keeps a tail of the list non-increasing -/
theorem pairwise_drop_snoc_last {α} {R : α → α → Prop} (hrefl : ∀ a, R a a) (l : List α) (n : Nat) (x : α)
    (hl : l.getLast? = some x) (hp : (l.drop n).Pairwise R) : (l.drop n ++ [x]).Pairwise R := by
  rw [List.pairwise_append]
  refine ⟨hp, List.pairwise_singleton _ _, ?_⟩
  intro a ha y hy
  have hy : y = x := by simpa using hy
  subst hy
  have hlast : (l.drop n).getLast? = some y := by
    rw [List.getLast?_drop]
    split
    · rename_i hle
      rw [List.drop_eq_nil_of_le hle] at ha; simp at ha
    · exact hl
  obtain ⟨ys, hys⟩ := List.getLast?_eq_some_iff.1 hlast
  rw [hys] at hp ha
  rcases List.mem_append.1 ha with ha | ha
  · exact (List.pairwise_append.1 hp).2.2 a ha y (by simp)
  · have : a = y := by simpa using ha
    rw [this]; exact hrefl y

theorem lanes_getLast? (w : BitVec 32) : (lanes w).getLast? = some (UInt8.ofBitVec (getAtPos w 3)) := rfl

theorem lanes_shiftRightClear' (w : BitVec 32) (i : Nat) (hi : i < 4) :
    lanes (shiftRightClear w (i + 1)) = shiftDown (lanes w) i := by
  rw [lanes_shiftRightClear w i hi]
  simp only [shiftDown, lanes_getLast?]
  rw [if_pos (by rw [lanes_length]; exact hi)]

theorem collapse4_eq : collapse4 = 1 := rfl

/-- what `remove4` returns, in the terms of the abstract table -/
def RemoveOK (h : Hdr) (L' : List (UInt8 × C)) : DelRes C → Prop
  | .node r' => r'.abs = L' ∧ r'.inv = true ∧ r'.hdr = h
  | .collapse h' b0 c => h' = h ∧ ∃ c', c = some c' ∧ L' = [(b0, c')]

theorem remove4_spec (h : Hdr) (len : Nat) (keys : BitVec 32) (slots : List (Option C)) (b : UInt8)
    (hinv : (n4 h len keys slots).inv = true)
    (hk : ∃ p ∈ (n4 h len keys slots).abs, p.1 = b) :
    RemoveOK h ((n4 h len keys slots).abs.filter (fun p => p.1 != b)) (remove4 h len keys slots b) := by
  obtain ⟨L, hrep, habs, hsorted⟩ := inv4_rep hinv
  obtain ⟨hp, hs, hl, _, hst, _⟩ := (inv4_iff h len keys slots).1 hinv
  rw [habs] at hk ⊢
  have hst' := (nonInc_iff _).1 hst
  rw [← eraseAt_findIdx b L hsorted]
  -- the position of `b`
  have hposL : L.findIdx (fun p => p.1 == b) < L.length := by
    apply List.findIdx_lt_length.2
    obtain ⟨p, hp, hpb⟩ := hk
    exact ⟨p, hp, by simp [hpb]⟩
  have hposA : ((lanes keys).take len).findIdx (fun k => k == b) = L.findIdx (fun p => p.1 == b) := by
    rw [hrep.1, List.findIdx_map]; rfl
  have hA : ((lanes keys).take len).length = len := by simp [lanes_length, hl]
  have hpos4 : (lanes keys).findIdx (fun k => k == b) = L.findIdx (fun p => p.1 == b) := by
    conv => lhs; rw [← List.take_append_drop len (lanes keys)]
    rw [List.findIdx_append, hA, hposA, if_pos (by rw [← hrep.2.2]; exact hposL)]
  generalize hP : L.findIdx (fun p => p.1 == b) = pos at *
  have hpl : pos < len := by rw [← hrep.2.2]; exact hposL
  have hp4 : pos < 4 := by omega
  have hi : searchNode4 keys (b8 b) = (pos : Int) := by
    rw [b8, searchNode4_spec, firstIdx_eq, lanes_length, hpos4, if_pos hp4]
  have e : (((pos : Nat) : Int) != -1) = true := by simp
  have hlen' : (len + 255) % 256 = len - 1 := by omega
  have hrep' : Rep (len - 1) (shiftDown (lanes keys) pos) (shiftDown slots pos)
      (L.take pos ++ L.drop (pos + 1)) :=
    rep_remove hrep pos hpl (shiftDown_take _ _ _ hpl (by rw [lanes_length]; exact hl))
      (shiftDown_take _ _ _ hpl (by omega))
  have hsorted' : SortedT (L.take pos ++ L.drop (pos + 1)) := by
    rw [← List.eraseIdx_eq_take_drop_succ]
    exact hsorted.sublist (List.eraseIdx_sublist _ _)
  simp only [remove4, hi, if_pos e, Int.toNat_natCast, hlen']
  by_cases hc : (len - 1 == collapse4) = true
  · rw [if_pos hc]
    have hc1 : len - 1 = 1 := by rw [collapse4_eq] at hc; simpa using hc
    refine ⟨rfl, ?_⟩
    rw [hc1] at hrep'
    obtain ⟨h1, h2, h3⟩ := hrep'
    generalize L.take pos ++ L.drop (pos + 1) = L' at *
    match L', h3 with
    | [(k0, c0)], _ =>
      refine ⟨c0, ?_, ?_⟩
      · have : (shiftDown slots pos)[0]? = some (some c0) := by
          have := congrArg (fun l => l[0]?) h2
          simpa [List.getElem?_take] using this
        rw [this]; rfl
      · have hk0 : (shiftDown (lanes keys) pos)[0]? = some k0 := by
          have := congrArg (fun l => l[0]?) h1
          simpa [List.getElem?_take] using this
        rw [← lanes_shiftRightClear' keys pos hp4, getAtPos_lanes _ 0 (by decide)] at hk0
        have : u8 (getAtPos (shiftRightClear keys (pos + 1)) 0) = k0 := by
          simpa [u8] using hk0
        rw [this]
  · rw [if_neg hc]
    have hlanes := lanes_shiftRightClear' keys pos hp4
    have := inv4_of_rep h (len - 1) (shiftRightClear keys (pos + 1)) (shiftDown slots pos) _ hp
      (by rw [shiftDown_length]; exact hs) (by omega) (by rw [hlanes]; exact hrep') hsorted'
      (by
        rw [hlanes]
        obtain ⟨x, hx, hd⟩ := shiftDown_drop (lanes keys) pos len hpl (by rw [lanes_length]; exact hl)
        rw [hd]
        exact pairwise_drop_snoc_last (R := fun a b => b ≤ a) (fun a => UInt8.le_refl a) _ _ _ hx hst')
    exact ⟨this.1, this.2, rfl⟩

/-! ### node16 -/

theorem maxNode16_eq : maxNode16 = 16 := rfl

theorem inv16_iff (h : Hdr) (len : Nat) (keys : Bytes) (slots : List (Option C)) :
    (n16 h len keys slots).inv = true ↔
      h.pfx.length = 10 ∧ slots.length = 16 ∧ keys.length = 16 ∧ len ≤ 16 ∧ shrink16 < len ∧
      strictAsc (keys.take len) = true ∧ (slots.take len).all (·.isSome) = true := by
  simp only [inv, Bool.and_eq_true, beq_iff_eq, decide_eq_true_eq, and_assoc]

theorem abs16_eq (h : Hdr) (len : Nat) (keys : Bytes) (slots : List (Option C)) (hl : len ≤ 16) :
    (n16 h len keys slots).abs = absKS len keys slots := by
  simp only [abs, absKS, Nat.min_eq_left hl]
  rfl

theorem inv16_rep {h : Hdr} {len : Nat} {keys : Bytes} {slots : List (Option C)}
    (hinv : (n16 h len keys slots).inv = true) :
    ∃ L, Rep len keys slots L ∧ (n16 h len keys slots).abs = L ∧ SortedT L := by
  obtain ⟨_, hs, hk, hl, _, hasc, hall⟩ := (inv16_iff h len keys slots).1 hinv
  obtain ⟨L, hrep⟩ := rep_of_all (keys := keys) (by omega) (by omega) hall
  refine ⟨L, hrep, ?_, ?_⟩
  · rw [abs16_eq h len keys slots hl, absKS_of_rep hrep]
  · rw [hrep.1] at hasc; exact (sortedT_iff L).1 hasc

theorem inv16_of_rep (h : Hdr) (len : Nat) (keys : Bytes) (slots : List (Option C))
    (L : List (UInt8 × C)) (hp : h.pfx.length = 10) (hs : slots.length = 16) (hk : keys.length = 16)
    (hl : len ≤ 16) (hsh : shrink16 < len)
    (hrep : Rep len keys slots L) (hsorted : SortedT L) :
    (n16 h len keys slots).abs = L ∧ (n16 h len keys slots).inv = true := by
  refine ⟨by rw [abs16_eq h len keys slots hl, absKS_of_rep hrep], ?_⟩
  rw [inv16_iff]
  refine ⟨hp, hs, hk, hl, hsh, ?_, ?_⟩
  · rw [hrep.1]; exact (sortedT_iff L).2 hsorted
  · rw [hrep.2.1]; simp

theorem find16_spec (h : Hdr) (len : Nat) (keys : Bytes) (slots : List (Option C)) (b : UInt8)
    (hinv : (n16 h len keys slots).inv = true) :
    (n16 h len keys slots).find b = ((n16 h len keys slots).abs.find? (fun p => p.1 == b)).map (·.2) := by
  obtain ⟨L, hrep, habs, _⟩ := inv16_rep hinv
  obtain ⟨_, hs, hk, hl, _, _, _⟩ := (inv16_iff h len keys slots).1 hinv
  rw [habs, ← rep_find hrep b]
  have hA : (keys.take len).length = len := by simp; omega
  have hi : searchNode16 keys len b =
      if (keys.take len).findIdx (fun k => k == b) < len
      then (((keys.take len).findIdx (fun k => k == b) : Nat) : Int) else -1 := by
    rw [searchNode16_eq keys len b (by omega) hl, firstIdx_eq, hA]
  simp only [find, hi]
  generalize (keys.take len).findIdx (fun k => k == b) = pA at *
  by_cases hp : pA < len
  · have e : (((pA : Nat) : Int) != -1) = true := by simp
    simp only [if_pos hp, if_pos e, Int.toNat_natCast]
  · have e : ¬ (((-1 : Int) != -1) = true) := by decide
    simp only [if_neg hp, if_neg e]

/-- insertion into a node16 image whose live part is `L` (also used for the image grown from a node4) -/
theorem add16_core (h : Hdr) (len : Nat) (keys : Bytes) (slots : List (Option C)) (b : UInt8) (c : C)
    (L : List (UInt8 × C)) (hp : h.pfx.length = 10) (hs : slots.length = 16) (hk : keys.length = 16)
    (hrep : Rep len keys slots L) (hsorted : SortedT L) (hnk : ∀ p ∈ L, p.1 ≠ b)
    (hlen : len < maxNode16) (hsh : shrink16 < len + 1) :
    (add16 h len keys slots b c).abs = insertSorted b c L ∧ (add16 h len keys slots b c).inv = true := by
  have hlen16 : len < 16 := by rw [maxNode16_eq] at hlen; exact hlen
  have hsorted' := sorted_insertSorted b c L hsorted hnk
  have hA : (keys.take len).length = len := by simp; omega
  have hposA : (keys.take len).findIdx (fun k => decide (b < k)) = L.findIdx (fun p => decide (b < p.1)) := by
    rw [hrep.1, List.findIdx_map]; rfl
  have hi : insertPosNode16 keys len b =
      if L.findIdx (fun p => decide (b < p.1)) < len
      then ((L.findIdx (fun p => decide (b < p.1)) : Nat) : Int) else -1 := by
    rw [insertPosNode16_eq keys len b (by omega) (by omega), firstIdx_eq, hA, hposA]
  have hple : L.findIdx (fun p => decide (b < p.1)) ≤ len := by
    rw [← hrep.2.2]; exact List.findIdx_le_length
  generalize hP : L.findIdx (fun p => decide (b < p.1)) = pos at *
  by_cases hpl : pos < len
  · rw [if_pos hpl] at hi
    have e : (((pos : Nat) : Int) != -1) = true := by simp
    simp only [add16, if_pos hlen, hi, if_pos e, Int.toNat_natCast]
    rw [shiftUp_set _ _ _ (by omega), shiftUp_set _ _ _ (by omega)]
    exact inv16_of_rep _ _ _ _ _ hp (by rw [insTrunc_length]; exact hs)
      (by rw [insTrunc_length]; exact hk) (by omega) hsh
      (rep_insert hrep b c (by omega) (by omega) pos hP.symm) hsorted'
  · rw [if_neg hpl] at hi
    have e : ¬ (((-1 : Int) != -1) = true) := by decide
    simp only [add16, if_pos hlen, hi, if_neg e]
    exact inv16_of_rep _ _ _ _ _ hp (by rw [List.length_set]; exact hs)
      (by rw [List.length_set]; exact hk) (by omega) hsh
      (rep_append hrep b c (by omega) (by omega) (by omega)) hsorted'

theorem add16_spec (h : Hdr) (len : Nat) (keys : Bytes) (slots : List (Option C)) (b : UInt8) (c : C)
    (hinv : (n16 h len keys slots).inv = true)
    (hnk : ∀ p ∈ (n16 h len keys slots).abs, p.1 ≠ b) (hlen : len < maxNode16) :
    (add16 h len keys slots b c).abs = insertSorted b c (n16 h len keys slots).abs ∧
    (add16 h len keys slots b c).inv = true := by
  obtain ⟨L, hrep, habs, hsorted⟩ := inv16_rep hinv
  obtain ⟨hp, hs, hk, hl, hsh, _, _⟩ := (inv16_iff h len keys slots).1 hinv
  rw [habs] at hnk ⊢
  exact add16_core h len keys slots b c L hp hs hk hrep hsorted hnk hlen (by omega)

/-- growth node4 → node16 -/
theorem add4_grow_spec (h : Hdr) (len : Nat) (keys : BitVec 32) (slots : List (Option C)) (b : UInt8) (c : C)
    (hinv : (n4 h len keys slots).inv = true)
    (hnk : ∀ p ∈ (n4 h len keys slots).abs, p.1 ≠ b) (hlen : ¬ len < maxNode4) :
    (add4 h len keys slots b c).abs = insertSorted b c (n4 h len keys slots).abs ∧
    (add4 h len keys slots b c).inv = true := by
  obtain ⟨L, hrep, habs, hsorted⟩ := inv4_rep hinv
  obtain ⟨hp, hs, hl, _, _, _⟩ := (inv4_iff h len keys slots).1 hinv
  rw [habs] at hnk ⊢
  have hl4 : len = 4 := by rw [maxNode4_eq] at hlen; omega
  subst hl4
  simp only [add4, if_neg hlen]
  have hk16 : (deconstruct keys).map u8 ++ List.replicate 12 0 = lanes keys ++ List.replicate 12 0 := by
    rw [← deconstruct_lanes]; rfl
  rw [hk16]
  apply add16_core h 4 _ _ b c L hp (by simp [hs]) (by simp [lanes_length]) _ hsorted hnk
    (by decide) (by decide)
  obtain ⟨h1, h2, h3⟩ := hrep
  refine ⟨?_, ?_, h3⟩
  · rw [← h1, List.take_append_of_le_length (by rw [lanes_length]; omega)]
  · rw [← h2, List.take_append_of_le_length (by simp [hs])]
    simp [List.take_take]

theorem pairwise_of_length_le_one {α} {R : α → α → Prop} (l : List α) (h : l.length ≤ 1) : l.Pairwise R := by
  match l, h with
  | [], _ => exact List.Pairwise.nil
  | [_], _ => exact List.pairwise_singleton _ _

theorem take4_eq (l : List UInt8) (h : 4 ≤ l.length) :
    [l.getD 0 0, l.getD 1 0, l.getD 2 0, l.getD 3 0] = l.take 4 := by
  match l, h with
  | _ :: _ :: _ :: _ :: _, _ => rfl

theorem rep_take {n m : Nat} {keys : Bytes} {slots : List (Option C)} {L : List (UInt8 × C)}
    (h : Rep n keys slots L) (hm : n ≤ m) : Rep n (keys.take m) (slots.take m) L := by
  obtain ⟨h1, h2, h3⟩ := h
  refine ⟨?_, ?_, h3⟩
  · rw [List.take_take, Nat.min_eq_left hm, h1]
  · rw [List.take_take, Nat.min_eq_left hm, h2]

theorem remove16_spec (h : Hdr) (len : Nat) (keys : Bytes) (slots : List (Option C)) (b : UInt8)
    (hinv : (n16 h len keys slots).inv = true)
    (hk : ∃ p ∈ (n16 h len keys slots).abs, p.1 = b) :
    RemoveOK h ((n16 h len keys slots).abs.filter (fun p => p.1 != b)) (remove16 h len keys slots b) := by
  obtain ⟨L, hrep, habs, hsorted⟩ := inv16_rep hinv
  obtain ⟨hp, hs, hkl, hl, hsh, _, _⟩ := (inv16_iff h len keys slots).1 hinv
  rw [habs] at hk ⊢
  rw [← eraseAt_findIdx b L hsorted]
  have hposL : L.findIdx (fun p => p.1 == b) < L.length := by
    apply List.findIdx_lt_length.2
    obtain ⟨p, hp, hpb⟩ := hk
    exact ⟨p, hp, by simp [hpb]⟩
  have hposA : (keys.take len).findIdx (fun k => k == b) = L.findIdx (fun p => p.1 == b) := by
    rw [hrep.1, List.findIdx_map]; rfl
  have hA : (keys.take len).length = len := by simp; omega
  generalize hP : L.findIdx (fun p => p.1 == b) = pos at *
  have hpl : pos < len := by rw [← hrep.2.2]; exact hposL
  have hi : searchNode16 keys len b = (pos : Int) := by
    rw [searchNode16_eq keys len b (by omega) hl, firstIdx_eq, hA, hposA, if_pos hpl]
  have hlen' : (len + 255) % 256 = len - 1 := by omega
  have hrep' : Rep (len - 1) (shiftDown keys pos) (shiftDown slots pos)
      (L.take pos ++ L.drop (pos + 1)) :=
    rep_remove hrep pos hpl (shiftDown_take _ _ _ hpl (by omega)) (shiftDown_take _ _ _ hpl (by omega))
  have hsorted' : SortedT (L.take pos ++ L.drop (pos + 1)) := by
    rw [← List.eraseIdx_eq_take_drop_succ]
    exact hsorted.sublist (List.eraseIdx_sublist _ _)
  simp only [remove16, hi, Int.toNat_natCast, hlen']
  by_cases hc : (len - 1 == shrink16) = true
  · rw [if_pos hc]
    have hc1 : len - 1 = shrink16 := by simpa using hc
    have c1 : shrink16 ≤ 4 := by decide
    have c2 : 4 ≤ shrink16 + 1 := by decide
    have hlanes : lanes (construct (b8 ((shiftDown keys pos).getD 0 0)) (b8 ((shiftDown keys pos).getD 1 0))
        (b8 ((shiftDown keys pos).getD 2 0)) (b8 ((shiftDown keys pos).getD 3 0))) = (shiftDown keys pos).take 4 := by
      simp only [b8]
      rw [lanes_construct, take4_eq _ (by rw [shiftDown_length]; omega)]
    have := inv4_of_rep h (len - 1) _ ((shiftDown slots pos).take 4) _ hp
      (by rw [List.length_take, shiftDown_length]; omega) (by omega)
      (by rw [hlanes]; exact rep_take hrep' (by omega)) hsorted'
      (by
        rw [hlanes]
        apply pairwise_of_length_le_one
        rw [List.length_drop, List.length_take, shiftDown_length]; omega)
    exact ⟨this.1, this.2, rfl⟩
  · rw [if_neg hc]
    have hc1 : len - 1 ≠ shrink16 := by simpa using hc
    have := inv16_of_rep h (len - 1) _ _ _ hp (by rw [shiftDown_length]; exact hs)
      (by rw [shiftDown_length]; exact hkl) (by omega) (by omega) hrep' hsorted'
    exact ⟨this.1, this.2, rfl⟩

/-! ### byte-indexed tables (node48 / node256) -/

/-- the table of a lookup function on byte values, in ascending byte order -/
def absF (f : Nat → Option C) : List (UInt8 × C) :=
  (List.range 256).filterMap fun i => (f i).map (fun c => (UInt8.ofNat i, c))

theorem absF_congr {f g : Nat → Option C} (h : ∀ i, i < 256 → f i = g i) : absF f = absF g := by
  apply filterMap_congr'
  intro i hi
  rw [h i (List.mem_range.1 hi)]

theorem u8_ofNat_lt {i j : Nat} (hij : i < j) (hj : j < 256) : UInt8.ofNat i < UInt8.ofNat j := by
  rw [UInt8.lt_iff_toNat_lt, UInt8.toNat_ofNat', UInt8.toNat_ofNat']
  rw [Nat.mod_eq_of_lt (by omega), Nat.mod_eq_of_lt hj]; exact hij

theorem u8_toNat_lt (b : UInt8) : b.toNat < 256 := UInt8.toNat_lt b

theorem u8_ofNat_toNat (b : UInt8) : UInt8.ofNat b.toNat = b := by simp

theorem absF_sorted (f : Nat → Option C) : SortedT (absF f) := by
  apply List.pairwise_filterMap.2
  apply (List.pairwise_lt_range (n := 256)).imp_of_mem
  intro i j hi hj hij x hx y hy
  have hj := List.mem_range.1 hj
  cases hfi : f i with
  | none => simp [hfi] at hx
  | some c =>
    cases hfj : f j with
    | none => simp [hfj] at hy
    | some c' =>
      simp [hfi] at hx; simp [hfj] at hy
      rw [← hx, ← hy]
      exact u8_ofNat_lt hij hj

theorem mem_absF (f : Nat → Option C) (k : UInt8) (c : C) : (k, c) ∈ absF f ↔ f k.toNat = some c := by
  simp only [absF, List.mem_filterMap, List.mem_range, Option.map_eq_some_iff, Prod.mk.injEq]
  constructor
  · rintro ⟨i, hi, c', hc', hk, rfl⟩
    have : k.toNat = i := by rw [← hk, UInt8.toNat_ofNat', Nat.mod_eq_of_lt hi]
    rw [this]; exact hc'
  · intro h
    exact ⟨k.toNat, u8_toNat_lt k, c, h, u8_ofNat_toNat k, rfl⟩

theorem find_absF (f : Nat → Option C) (b : UInt8) :
    ((absF f).find? (fun p => p.1 == b)).map (·.2) = f b.toNat := by
  cases h : f b.toNat with
  | some c =>
    rw [sorted_find_unique _ (absF_sorted f) b c ((mem_absF f b c).2 h)]; rfl
  | none =>
    have : (absF f).find? (fun p => p.1 == b) = none := by
      rw [List.find?_eq_none]
      intro p hp hpb
      have hpb : p.1 = b := by simpa using hpb
      have := (mem_absF f p.1 p.2).1 hp
      rw [hpb, h] at this; cases this
    rw [this]; rfl

theorem absF_insert (f : Nat → Option C) (b : UInt8) (c : C) (hb : f b.toNat = none) :
    absF (fun i => if i = b.toNat then some c else f i) = insertSorted b c (absF f) := by
  have hnk : ∀ p ∈ absF f, p.1 ≠ b := by
    intro p hp e
    have := (mem_absF f p.1 p.2).1 hp
    rw [e, hb] at this; cases this
  apply sorted_ext _ _ (absF_sorted _) (sorted_insertSorted b c _ (absF_sorted f) hnk)
  rintro ⟨k, v⟩
  rw [mem_insertSorted, mem_absF, mem_absF]
  by_cases hk : k = b
  · subst hk
    simp only [if_true, Option.some.injEq, Prod.mk.injEq, true_and, hb]
    constructor
    · intro e; exact Or.inl e.symm
    · rintro (e | e)
      · exact e.symm
      · cases e
  · have : k.toNat ≠ b.toNat := fun e => hk (UInt8.toNat_inj.1 e)
    simp only [if_neg this, Prod.mk.injEq, hk, false_and, false_or]

theorem absF_erase (f : Nat → Option C) (b : UInt8) :
    absF (fun i => if i = b.toNat then none else f i) = (absF f).filter (fun p => p.1 != b) := by
  apply sorted_ext _ _ (absF_sorted _) ((absF_sorted f).filter _)
  rintro ⟨k, v⟩
  rw [List.mem_filter, mem_absF, mem_absF]
  by_cases hk : k = b
  · subst hk; simp
  · have : k.toNat ≠ b.toNat := fun e => hk (UInt8.toNat_inj.1 e)
    simp [if_neg this, hk]

/-! ### counting -/

theorem countSome_append (l₁ l₂ : List (Option C)) : countSome (l₁ ++ l₂) = countSome l₁ + countSome l₂ := by
  simp [countSome]

theorem countSome_le (l : List (Option C)) : countSome l ≤ l.length := List.length_filter_le _ _

theorem split_at {α} (l : List α) (i : Nat) (x : α) (h : l[i]? = some x) :
    l = l.take i ++ x :: l.drop (i + 1) ∧ i < l.length := by
  obtain ⟨hi, hx⟩ := List.getElem?_eq_some_iff.1 h
  refine ⟨?_, hi⟩
  rw [← hx, ← List.drop_eq_getElem_cons hi, List.take_append_drop]

theorem set_split {α} (l : List α) (i : Nat) (x y : α) (h : l[i]? = some x) :
    l.set i y = l.take i ++ y :: l.drop (i + 1) := by
  rw [List.set_eq_take_append_cons_drop, if_pos (split_at l i x h).2]

theorem countSome_set_some (l : List (Option C)) (i : Nat) (c : C) (h : l[i]? = some none) :
    countSome (l.set i (some c)) = countSome l + 1 := by
  rw [set_split l i none (some c) h]
  conv => rhs; rw [(split_at l i none h).1]
  simp [countSome]; omega

theorem countSome_set_none (l : List (Option C)) (i : Nat) (c : C) (h : l[i]? = some (some c)) :
    countSome (l.set i none) + 1 = countSome l := by
  rw [set_split l i (some c) none h]
  conv => rhs; rw [(split_at l i (some c) h).1]
  simp [countSome]; omega

/-- counting the positions of a list that satisfy `p` = counting the elements -/
theorem count_range {α} (p : α → Bool) (l : List α) :
    ((List.range l.length).filter (fun i => (l[i]?).any p)).length = (l.filter p).length := by
  induction l with
  | nil => simp
  | cons a l ih =>
    rw [List.length_cons, List.range_succ_eq_map, List.filter_cons, List.filter_map, List.filter_cons]
    have e : ((fun i => ((a :: l)[i]?).any p) ∘ Nat.succ) = fun i => (l[i]?).any p := by
      funext i; simp
    rw [e]
    simp only [List.getElem?_cons_zero, Option.any_some]
    by_cases h : p a = true
    · simp [h, ih]
    · simp [h, ih]

theorem length_filterMap_eq {α β} (f : α → Option β) (l : List α) :
    (l.filterMap f).length = (l.filter (fun x => (f x).isSome)).length := by
  induction l with
  | nil => rfl
  | cons a l ih =>
    rw [List.filterMap_cons, List.filter_cons]
    cases h : f a <;> simp [ih]

theorem filter_congr' {α} {p q : α → Bool} {l : List α} (h : ∀ a ∈ l, p a = q a) :
    l.filter p = l.filter q := by
  induction l with
  | nil => rfl
  | cons x xs ih =>
    rw [List.filter_cons, List.filter_cons, h x List.mem_cons_self,
      ih (fun a ha => h a (List.mem_cons_of_mem _ ha))]

/-! ### node256 -/

def look256 (slots : List (Option C)) : Nat → Option C := fun i => (slots[i]?).join

theorem abs256_eq (h : Hdr) (len : Nat) (slots : List (Option C)) :
    (n256 h len slots).abs = absF (look256 slots) := by
  simp only [abs, absF, look256]
  apply filterMap_congr'
  intro i _
  cases (slots[i]?).join <;> rfl

theorem find256_eq (h : Hdr) (len : Nat) (slots : List (Option C)) (b : UInt8) :
    (n256 h len slots).find b = look256 slots b.toNat := rfl

theorem inv256_iff (h : Hdr) (len : Nat) (slots : List (Option C)) :
    (n256 h len slots).inv = true ↔
      h.pfx.length = 10 ∧ slots.length = 256 ∧ shrink256 < countSome slots ∧ len = countSome slots % 256 := by
  simp only [inv, Bool.and_eq_true, beq_iff_eq, decide_eq_true_eq, and_assoc]

theorem look256_set (slots : List (Option C)) (hs : slots.length = 256) (b : UInt8) (v : Option C) (i : Nat) :
    look256 (slots.set b.toNat v) i = if i = b.toNat then v else look256 slots i := by
  simp only [look256, List.getElem?_set]
  have := u8_toNat_lt b
  by_cases hi : b.toNat = i
  · subst hi; simp [hs, this]
  · have : ¬ i = b.toNat := fun e => hi e.symm
    simp [hi, this]

theorem not_key_iff (f : Nat → Option C) (b : UInt8) : (∀ p ∈ absF f, p.1 ≠ b) ↔ f b.toNat = none := by
  constructor
  · intro h
    cases hf : f b.toNat with
    | none => rfl
    | some c => exact absurd rfl (h (b, c) ((mem_absF f b c).2 hf))
  · intro h p hp e
    have := (mem_absF f p.1 p.2).1 hp
    rw [e, h] at this; cases this

theorem is_key_iff (f : Nat → Option C) (b : UInt8) : (∃ p ∈ absF f, p.1 = b) ↔ ∃ c, f b.toNat = some c := by
  constructor
  · rintro ⟨p, hp, e⟩
    have := (mem_absF f p.1 p.2).1 hp
    rw [e] at this; exact ⟨_, this⟩
  · rintro ⟨c, hc⟩
    exact ⟨(b, c), (mem_absF f b c).2 hc, rfl⟩

theorem look256_none (slots : List (Option C)) (hs : slots.length = 256) (b : UInt8)
    (h : look256 slots b.toNat = none) : slots[b.toNat]? = some none := by
  have hb : b.toNat < slots.length := by rw [hs]; exact u8_toNat_lt b
  simp only [look256, List.getElem?_eq_getElem hb] at h ⊢
  cases hx : slots[b.toNat] with
  | none => rfl
  | some c => rw [hx] at h; cases h

theorem look256_some (slots : List (Option C)) (b : UInt8) (c : C)
    (h : look256 slots b.toNat = some c) : slots[b.toNat]? = some (some c) := by
  simp only [look256] at h
  cases hx : slots[b.toNat]? with
  | none => rw [hx] at h; cases h
  | some o => rw [hx] at h; cases o with
    | none => cases h
    | some c' => simp at h; rw [h]

theorem add256_spec (h : Hdr) (len : Nat) (slots : List (Option C)) (b : UInt8) (c : C)
    (hinv : (n256 h len slots).inv = true) (hnk : ∀ p ∈ (n256 h len slots).abs, p.1 ≠ b) :
    (add256 h len slots b c).abs = insertSorted b c (n256 h len slots).abs ∧
    (add256 h len slots b c).inv = true := by
  obtain ⟨hp, hs, hsh, hlen⟩ := (inv256_iff h len slots).1 hinv
  rw [abs256_eq] at hnk ⊢
  have hb := (not_key_iff _ b).1 hnk
  have hb' := look256_none slots hs b hb
  simp only [add256]
  refine ⟨?_, ?_⟩
  · rw [abs256_eq, ← absF_insert _ b c hb]
    exact absF_congr (fun i _ => look256_set slots hs b (some c) i)
  · rw [inv256_iff, countSome_set_some _ _ _ hb', List.length_set]
    refine ⟨hp, hs, by omega, by omega⟩

/-! ### node48 -/

def look48 (idx : Bytes) (slots : List (Option C)) : Nat → Option C := fun i =>
  let p : UInt8 := idx.getD i 0
  if p != 0 then (slots[p.toNat - 1]?).join else none

theorem abs48_eq (h : Hdr) (len : Nat) (idx : Bytes) (slots : List (Option C)) :
    (n48 h len idx slots).abs = absF (look48 idx slots) := by
  simp only [abs, absF, look48]
  apply filterMap_congr'
  intro i _
  by_cases hp : (idx.getD i 0 != 0) = true
  · simp only [hp, if_true]
    cases (slots[(idx.getD i 0).toNat - 1]?).join <;> rfl
  · simp only [hp]; rfl

theorem find48_eq (h : Hdr) (len : Nat) (idx : Bytes) (slots : List (Option C)) (b : UInt8) :
    (n48 h len idx slots).find b = look48 idx slots b.toNat := rfl

theorem eraseDups_length_le_aux : ∀ (n : Nat) (l : List UInt8), l.length ≤ n → l.eraseDups.length ≤ l.length := by
  intro n
  induction n with
  | zero => intro l hl; cases l with
    | nil => simp
    | cons a as => simp at hl
  | succ n ih =>
    intro l hl
    cases l with
    | nil => simp
    | cons a as =>
      rw [List.eraseDups_cons, List.length_cons, List.length_cons]
      have hle : (as.filter fun b => !b == a).length ≤ as.length := List.length_filter_le _ _
      have := ih (as.filter fun b => !b == a) (by rw [List.length_cons] at hl; omega)
      omega

theorem eraseDups_length_le (l : List UInt8) : l.eraseDups.length ≤ l.length :=
  eraseDups_length_le_aux l.length l (Nat.le_refl _)

theorem eraseDups_length_iff_aux : ∀ (n : Nat) (l : List UInt8), l.length ≤ n →
    (l.eraseDups.length = l.length ↔ l.Nodup) := by
  intro n
  induction n with
  | zero => intro l hl; cases l with
    | nil => simp
    | cons a as => simp at hl
  | succ n ih =>
    intro l hl
    cases l with
    | nil => simp
    | cons a as =>
      rw [List.eraseDups_cons, List.length_cons, List.length_cons, List.nodup_cons]
      have hle : (as.filter fun b => !b == a).length ≤ as.length := List.length_filter_le _ _
      have hle2 := eraseDups_length_le (as.filter fun b => !b == a)
      have ih' := ih (as.filter fun b => !b == a) (by rw [List.length_cons] at hl; omega)
      constructor
      · intro h
        have h1 : (as.filter fun b => !b == a).length = as.length := by omega
        have h2 : (as.filter fun b => !b == a) = as :=
          List.filter_eq_self.2 (List.length_filter_eq_length_iff.1 h1)
        rw [h2] at ih' h
        have hnd : as.Nodup := ih'.1 (by omega)
        refine ⟨?_, hnd⟩
        intro ha
        have := List.filter_eq_self.1 h2 a ha
        simp at this
      · rintro ⟨ha, hnd⟩
        have h2 : (as.filter fun b => !b == a) = as := by
          rw [List.filter_eq_self]
          intro x hx
          have : x ≠ a := fun e => ha (e ▸ hx)
          simpa using this
        rw [h2] at ih' ⊢
        rw [ih'.2 hnd]

theorem eraseDups_length_iff (l : List UInt8) : l.eraseDups.length = l.length ↔ l.Nodup :=
  eraseDups_length_iff_aux l.length l (Nat.le_refl _)

/-- the `idx`/`slots` part of the node48 invariant, as a proposition -/
structure Inv48 (len : Nat) (idx : Bytes) (slots : List (Option C)) : Prop where
  hs : slots.length = 48
  hi : idx.length = 256
  hcount : countSome slots = len
  hnz : (idx.filter (· != 0)).length = len
  hvalid : ∀ p ∈ idx, p ≠ 0 → p.toNat ≤ 48 ∧ ((slots[p.toNat - 1]?).join).isSome = true
  hnodup : (idx.filter (· != 0)).Nodup

theorem inv48_iff (h : Hdr) (len : Nat) (idx : Bytes) (slots : List (Option C)) :
    (n48 h len idx slots).inv = true ↔
      h.pfx.length = 10 ∧ len ≤ 48 ∧ shrink48 < len ∧ Inv48 len idx slots := by
  simp only [inv, Bool.and_eq_true, beq_iff_eq, decide_eq_true_eq, and_assoc, List.all_eq_true,
    List.mem_filter, bne_iff_ne, ne_eq]
  constructor
  · rintro ⟨hp, hs, hi, hl, hsh, hc, hnz, hv, hd⟩
    refine ⟨hp, hl, hsh, hs, hi, hc, hnz, fun p hp hp0 => hv p ⟨hp, hp0⟩, ?_⟩
    rw [← eraseDups_length_iff, hd, hnz]
  · rintro ⟨hp, hl, hsh, hs, hi, hc, hnz, hv, hd⟩
    refine ⟨hp, hs, hi, hl, hsh, hc, hnz, fun p hp => hv p hp.1 hp.2, ?_⟩
    rw [(eraseDups_length_iff _).2 hd, hnz]

theorem maxNode48_eq : maxNode48 = 48 := rfl

theorem filter_set_from_zero (idx : Bytes) (x : Nat) (v : UInt8) (h : idx[x]? = some 0) (hv : v ≠ 0) :
    ((idx.set x v).filter (· != 0)).Perm (v :: idx.filter (· != 0)) := by
  rw [set_split idx x 0 v h]
  conv => rhs; rw [(split_at idx x 0 h).1]
  simp only [List.filter_append, List.filter_cons, bne_self_eq_false, Bool.false_eq_true, if_false]
  have : (v != 0) = true := by simpa using hv
  simp only [this, if_true]
  exact List.perm_middle

theorem filter_set_to_zero (idx : Bytes) (x : Nat) (v : UInt8) (h : idx[x]? = some v) (hv : v ≠ 0) :
    (idx.filter (· != 0)).Perm (v :: (idx.set x 0).filter (· != 0)) := by
  rw [set_split idx x v 0 h]
  conv => lhs; rw [(split_at idx x v h).1]
  simp only [List.filter_append, List.filter_cons, bne_self_eq_false, Bool.false_eq_true, if_false]
  have : (v != 0) = true := by simpa using hv
  simp only [this, if_true]
  exact List.perm_middle

theorem getD_mem (idx : Bytes) (i : Nat) (hi : i < idx.length) : idx.getD i 0 ∈ idx := by
  rw [List.getD_eq_getElem?_getD, List.getElem?_eq_getElem hi]; exact List.getElem_mem hi

theorem getD_eq_some (idx : Bytes) (i : Nat) (hi : i < idx.length) : idx[i]? = some (idx.getD i 0) := by
  rw [List.getD_eq_getElem?_getD, List.getElem?_eq_getElem hi]; rfl

theorem exists_none (l : List (Option C)) (h : countSome l < l.length) :
    l.findIdx (·.isNone) < l.length ∧ l[l.findIdx (·.isNone)]? = some none := by
  have hlt : l.findIdx (·.isNone) < l.length := by
    rcases Nat.lt_or_ge (l.findIdx (·.isNone)) l.length with h' | h'
    · exact h'
    · exfalso
      have he : l.findIdx (·.isNone) = l.length := Nat.le_antisymm List.findIdx_le_length h'
      have hall := List.findIdx_eq_length.1 he
      have : l.filter (·.isSome) = l := by
        rw [List.filter_eq_self]
        intro a ha
        have := hall a ha
        cases a <;> simp_all
      simp only [countSome, this] at h
      omega
  refine ⟨hlt, ?_⟩
  have := List.findIdx_getElem (w := hlt)
  rw [List.getElem?_eq_getElem hlt]
  cases hx : l[l.findIdx (·.isNone)] with
  | none => rfl
  | some c => rw [hx] at this; simp at this

theorem slot_ne {len : Nat} {idx : Bytes} {slots : List (Option C)} (hI : Inv48 len idx slots)
    (p : UInt8) (hp : p ∈ idx) (hp0 : p ≠ 0) (q : Nat) (hq : slots[q]? = some none) : p.toNat - 1 ≠ q := by
  intro e
  have := (hI.hvalid p hp hp0).2
  rw [e, hq] at this
  simp at this

theorem look48_none {len : Nat} {idx : Bytes} {slots : List (Option C)} (hI : Inv48 len idx slots)
    (i : Nat) (hi : i < 256) (h : look48 idx slots i = none) : idx.getD i 0 = 0 := by
  by_cases hp : idx.getD i 0 = 0
  · exact hp
  · exfalso
    have hm := getD_mem idx i (by rw [hI.hi]; exact hi)
    have := (hI.hvalid _ hm hp).2
    have hp' : (idx.getD i 0 != 0) = true := by simpa using hp
    simp only [look48, hp', if_true] at h
    rw [h] at this; simp at this

theorem u8_ofNat_succ (q : Nat) (hq : q < 48) :
    (UInt8.ofNat (q + 1)).toNat = q + 1 ∧ UInt8.ofNat (q + 1) ≠ 0 := by
  have h1 : (UInt8.ofNat (q + 1)).toNat = q + 1 := by
    rw [UInt8.toNat_ofNat', Nat.mod_eq_of_lt (by omega)]
  refine ⟨h1, ?_⟩
  intro e
  rw [e] at h1
  simp at h1

/-- the insertion step of node48 (also used on the image grown from a node16) -/
theorem add48_core (h : Hdr) (len : Nat) (idx : Bytes) (slots : List (Option C)) (b : UInt8) (c : C)
    (hp : h.pfx.length = 10) (hI : Inv48 len idx slots) (hnk : look48 idx slots b.toNat = none)
    (hlen : len < maxNode48) (hsh : shrink48 < len + 1) :
    (add48 h len idx slots b c).abs = insertSorted b c (absF (look48 idx slots)) ∧
    (add48 h len idx slots b c).inv = true := by
  have hlen48 : len < 48 := by rw [maxNode48_eq] at hlen; exact hlen
  obtain ⟨hq, hqn⟩ := exists_none slots (by rw [hI.hcount, hI.hs]; exact hlen48)
  have hb := u8_toNat_lt b
  have hb0 := look48_none hI b.toNat hb hnk
  have hbz : idx[b.toNat]? = some 0 := by rw [← hb0]; exact getD_eq_some idx _ (by rw [hI.hi]; exact hb)
  simp only [add48, if_pos hlen, firstFree]
  generalize slots.findIdx (·.isNone) = q at hq hqn
  rw [hI.hs] at hq
  obtain ⟨hv1, hv0⟩ := u8_ofNat_succ q hq
  generalize UInt8.ofNat (q + 1) = v at hv1 hv0
  have hperm := filter_set_from_zero idx b.toNat v hbz hv0
  have hI' : Inv48 (len + 1) (idx.set b.toNat v) (slots.set q (some c)) := by
    refine ⟨by rw [List.length_set]; exact hI.hs, by rw [List.length_set]; exact hI.hi, ?_, ?_, ?_, ?_⟩
    · rw [countSome_set_some _ _ _ hqn, hI.hcount]
    · rw [hperm.length_eq, List.length_cons, hI.hnz]
    · intro p hp hp0
      rcases List.mem_or_eq_of_mem_set hp with hp | hp
      · refine ⟨(hI.hvalid p hp hp0).1, ?_⟩
        rw [List.getElem?_set_ne (fun e => slot_ne hI p hp hp0 q hqn e.symm)]
        exact (hI.hvalid p hp hp0).2
      · subst hp
        rw [hv1]
        refine ⟨by omega, ?_⟩
        simp [hI.hs, hq]
    · rw [hperm.nodup_iff, List.nodup_cons]
      refine ⟨?_, hI.hnodup⟩
      intro hm
      have hm' := (List.mem_filter.1 hm).1
      exact slot_ne hI v hm' hv0 q hqn (by omega)
  refine ⟨?_, ?_⟩
  · rw [abs48_eq, ← absF_insert _ b c hnk]
    apply absF_congr
    intro i hi
    by_cases hib : i = b.toNat
    · subst hib
      have : (idx.set b.toNat v).getD b.toNat 0 = v := by
        rw [List.getD_eq_getElem?_getD, List.getElem?_set_self (by rw [hI.hi]; exact hb)]; rfl
      have hv' : (v != 0) = true := by simpa using hv0
      simp only [look48, this, hv', if_true, hv1]
      simp [hI.hs, hq]
    · have : (idx.set b.toNat v).getD i 0 = idx.getD i 0 := by
        rw [List.getD_eq_getElem?_getD, List.getElem?_set_ne (fun e => hib e.symm), ← List.getD_eq_getElem?_getD]
      simp only [look48, this, if_neg hib]
      by_cases hp0 : (idx.getD i 0 != 0) = true
      · simp only [hp0, if_true]
        have hm := getD_mem idx i (by rw [hI.hi]; exact hi)
        rw [List.getElem?_set_ne (fun e => slot_ne hI _ hm (by simpa using hp0) q hqn e.symm)]
      · simp only [hp0]; rfl
  · rw [inv48_iff]
    exact ⟨hp, by omega, hsh, hI'⟩

theorem add48_spec (h : Hdr) (len : Nat) (idx : Bytes) (slots : List (Option C)) (b : UInt8) (c : C)
    (hinv : (n48 h len idx slots).inv = true)
    (hnk : ∀ p ∈ (n48 h len idx slots).abs, p.1 ≠ b) (hlen : len < maxNode48) :
    (add48 h len idx slots b c).abs = insertSorted b c (n48 h len idx slots).abs ∧
    (add48 h len idx slots b c).inv = true := by
  obtain ⟨hp, hl, hsh, hI⟩ := (inv48_iff h len idx slots).1 hinv
  rw [abs48_eq] at hnk ⊢
  exact add48_core h len idx slots b c hp hI ((not_key_iff _ b).1 hnk) hlen (by omega)

theorem absF_length (f : Nat → Option C) :
    (absF f).length = ((List.range 256).filter (fun i => (f i).isSome)).length := by
  rw [absF, length_filterMap_eq]
  congr 1
  apply filter_congr'
  intro i _
  cases f i <;> rfl

theorem nz_count (idx : Bytes) (hi : idx.length = 256) :
    ((List.range 256).filter (fun i => idx.getD i 0 != 0)).length = (idx.filter (· != 0)).length := by
  rw [← count_range (fun x => x != 0) idx, hi]
  congr 1
  apply filter_congr'
  intro i hi'
  rw [getD_eq_some idx i (by rw [hi]; exact List.mem_range.1 hi')]
  rfl

theorem look48_isSome {len : Nat} {idx : Bytes} {slots : List (Option C)} (hI : Inv48 len idx slots)
    (i : Nat) (hi : i < 256) : (look48 idx slots i).isSome = (idx.getD i 0 != 0) := by
  by_cases hp : (idx.getD i 0 != 0) = true
  · simp only [look48, hp, if_true]
    exact (hI.hvalid _ (getD_mem idx i (by rw [hI.hi]; exact hi)) (by simpa using hp)).2
  · simp only [look48, hp]; simp

theorem abs48_length {len : Nat} {idx : Bytes} {slots : List (Option C)} (hI : Inv48 len idx slots) :
    (absF (look48 idx slots)).length = len := by
  rw [absF_length, ← hI.hnz, ← nz_count idx hI.hi]
  congr 1
  apply filter_congr'
  intro i hi
  exact look48_isSome hI i (List.mem_range.1 hi)

theorem look48_some {idx : Bytes} {slots : List (Option C)} {i : Nat} {c : C}
    (h : look48 idx slots i = some c) :
    idx.getD i 0 ≠ 0 ∧ slots[(idx.getD i 0).toNat - 1]? = some (some c) := by
  by_cases hp : (idx.getD i 0 != 0) = true
  · simp only [look48, hp, if_true] at h
    refine ⟨by simpa using hp, ?_⟩
    cases hx : slots[(idx.getD i 0).toNat - 1]? with
    | none => rw [hx] at h; cases h
    | some o =>
      rw [hx] at h
      cases o with
      | none => cases h
      | some c' => simp at h; rw [h]
  · simp only [look48, hp] at h; cases h

/-- the deletion step of node48 -/
theorem remove48_core (len : Nat) (idx : Bytes) (slots : List (Option C)) (b : UInt8) (c0 : C)
    (hI : Inv48 len idx slots) (hk : look48 idx slots b.toNat = some c0) :
    Inv48 (len - 1) (idx.set b.toNat 0) (slots.set ((idx.getD b.toNat 0).toNat - 1) none) ∧ 1 ≤ len ∧
    ∀ i, i < 256 → look48 (idx.set b.toNat 0) (slots.set ((idx.getD b.toNat 0).toNat - 1) none) i =
      if i = b.toNat then none else look48 idx slots i := by
  have hb := u8_toNat_lt b
  obtain ⟨hv0, hsv⟩ := look48_some hk
  have hbv : idx[b.toNat]? = some (idx.getD b.toNat 0) := getD_eq_some idx _ (by rw [hI.hi]; exact hb)
  generalize idx.getD b.toNat 0 = v at *
  have hperm := filter_set_to_zero idx b.toNat v hbv hv0
  have hnd : (v :: (idx.set b.toNat 0).filter (· != 0)).Nodup := hperm.nodup_iff.1 hI.hnodup
  have hlen : len = ((idx.set b.toNat 0).filter (· != 0)).length + 1 := by
    rw [← hI.hnz, hperm.length_eq, List.length_cons]
  -- a non-zero entry that survives is not `v`, hence points to another slot
  have hother : ∀ p ∈ idx.set b.toNat 0, p ≠ 0 → p ∈ idx ∧ p.toNat - 1 ≠ v.toNat - 1 := by
    intro p hp hp0
    have hpi : p ∈ idx := by
      rcases List.mem_or_eq_of_mem_set hp with h | h
      · exact h
      · exact absurd h hp0
    refine ⟨hpi, ?_⟩
    have hpv : p ≠ v := by
      intro e
      have : p ∈ (idx.set b.toNat 0).filter (· != 0) := List.mem_filter.2 ⟨hp, by simpa using hp0⟩
      exact (List.nodup_cons.1 hnd).1 (e ▸ this)
    have h1 : p.toNat ≠ 0 := fun e => hp0 (UInt8.toNat_inj.1 (by simpa using e))
    have h2 : v.toNat ≠ 0 := fun e => hv0 (UInt8.toNat_inj.1 (by simpa using e))
    have h3 : p.toNat ≠ v.toNat := fun e => hpv (UInt8.toNat_inj.1 e)
    omega
  refine ⟨⟨by rw [List.length_set]; exact hI.hs, by rw [List.length_set]; exact hI.hi, ?_, ?_, ?_, ?_⟩,
    by omega, ?_⟩
  · have := countSome_set_none _ _ _ hsv
    rw [hI.hcount] at this; omega
  · omega
  · intro p hp hp0
    obtain ⟨hpi, hne⟩ := hother p hp hp0
    refine ⟨(hI.hvalid p hpi hp0).1, ?_⟩
    rw [List.getElem?_set_ne (fun e => hne e.symm)]
    exact (hI.hvalid p hpi hp0).2
  · exact (List.nodup_cons.1 hnd).2
  · intro i hi
    by_cases hib : i = b.toNat
    · subst hib
      have : (idx.set b.toNat 0).getD b.toNat 0 = 0 := by
        rw [List.getD_eq_getElem?_getD, List.getElem?_set_self (by rw [hI.hi]; exact hb)]; rfl
      simp only [look48, this]; rfl
    · have hg : (idx.set b.toNat 0).getD i 0 = idx.getD i 0 := by
        rw [List.getD_eq_getElem?_getD, List.getElem?_set_ne (fun e => hib e.symm), ← List.getD_eq_getElem?_getD]
      simp only [look48, hg, if_neg hib]
      by_cases hp0 : (idx.getD i 0 != 0) = true
      · simp only [hp0, if_true]
        have hm : idx.getD i 0 ∈ idx.set b.toNat 0 := by
          rw [← hg]; exact getD_mem _ i (by rw [List.length_set, hI.hi]; exact hi)
        rw [List.getElem?_set_ne (fun e => (hother _ hm (by simpa using hp0)).2 e.symm)]
      · simp only [hp0]; rfl

theorem live48_eq {len : Nat} {idx : Bytes} {slots : List (Option C)} (hI : Inv48 len idx slots) :
    ((List.range 256).filterMap fun i =>
      let p : UInt8 := idx.getD i 0
      if p != 0 then some (UInt8.ofNat i, (slots[p.toNat - 1]?).join) else none)
    = (absF (look48 idx slots)).map (fun kc => (kc.1, some kc.2)) := by
  rw [absF, List.map_filterMap]
  apply filterMap_congr'
  intro i hi
  have hi := List.mem_range.1 hi
  by_cases hp : (idx.getD i 0 != 0) = true
  · have hs := (hI.hvalid _ (getD_mem idx i (by rw [hI.hi]; exact hi)) (by simpa using hp)).2
    obtain ⟨c, hc⟩ := Option.isSome_iff_exists.1 hs
    simp only [look48, hp, if_true, hc]; rfl
  · simp only [look48, hp]; rfl

theorem shrink48_consts : shrink48 ≤ 16 ∧ shrink16 < shrink48 := by decide

theorem remove48_spec (h : Hdr) (len : Nat) (idx : Bytes) (slots : List (Option C)) (b : UInt8)
    (hinv : (n48 h len idx slots).inv = true)
    (hk : ∃ p ∈ (n48 h len idx slots).abs, p.1 = b) :
    RemoveOK h ((n48 h len idx slots).abs.filter (fun p => p.1 != b)) (remove48 h len idx slots b) := by
  obtain ⟨hp, hl, hsh, hI⟩ := (inv48_iff h len idx slots).1 hinv
  rw [abs48_eq] at hk ⊢
  obtain ⟨c0, hc0⟩ := (is_key_iff _ b).1 hk
  obtain ⟨hI', hl1, hlook⟩ := remove48_core len idx slots b c0 hI hc0
  have habs' : absF (look48 (idx.set b.toNat 0) (slots.set ((idx.getD b.toNat 0).toNat - 1) none)) =
      (absF (look48 idx slots)).filter (fun p => p.1 != b) := by
    rw [← absF_erase]; exact absF_congr hlook
  have hlen' : (len + 255) % 256 = len - 1 := by omega
  simp only [remove48, hlen']
  by_cases hc : (len - 1 == shrink48) = true
  · rw [if_pos hc]
    have hc1 : len - 1 = shrink48 := by simpa using hc
    rw [live48_eq hI', habs']
    generalize hL : (absF (look48 idx slots)).filter (fun p => p.1 != b) = L' at *
    have hLlen : L'.length = len - 1 := by rw [← habs']; exact abs48_length hI'
    have hsorted : SortedT L' := by rw [← habs']; exact absF_sorted _
    obtain ⟨c1, c2⟩ := shrink48_consts
    simp only [List.map_map, List.length_map]
    have := inv16_of_rep h (len - 1)
      (L'.map ((·.1) ∘ fun kc => (kc.1, some kc.2)) ++ List.replicate (16 - L'.length) 0)
      (L'.map ((·.2) ∘ fun kc => (kc.1, some kc.2)) ++ List.replicate (16 - L'.length) none) L' hp
      (by simp; omega) (by simp; omega) (by omega) (by omega)
      ⟨by rw [List.take_left' (by simp [hLlen])]; rfl,
       by rw [List.take_left' (by simp [hLlen])]; rfl, hLlen⟩ hsorted
    exact ⟨this.1, this.2, rfl⟩
  · rw [if_neg hc]
    have hc1 : len - 1 ≠ shrink48 := by simpa using hc
    refine ⟨?_, ?_, rfl⟩
    · rw [abs48_eq, habs']
    · rw [inv48_iff]; exact ⟨hp, by omega, by omega, hI'⟩

theorem look256_map (f : Nat → Option C) (i : Nat) (hi : i < 256) :
    look256 ((List.range 256).map f) i = f i := by
  simp [look256, List.getElem?_map, List.getElem?_range hi]

theorem countSome_map_range (f : Nat → Option C) :
    countSome ((List.range 256).map f) = (absF f).length := by
  rw [absF_length, countSome, List.filter_map, List.length_map]
  rfl

theorem grow48_consts : shrink256 < maxNode48 := by decide

/-- growth node48 → node256 -/
theorem add48_grow_spec (h : Hdr) (len : Nat) (idx : Bytes) (slots : List (Option C)) (b : UInt8) (c : C)
    (hinv : (n48 h len idx slots).inv = true)
    (hnk : ∀ p ∈ (n48 h len idx slots).abs, p.1 ≠ b) (hlen : ¬ len < maxNode48) :
    (add48 h len idx slots b c).abs = insertSorted b c (n48 h len idx slots).abs ∧
    (add48 h len idx slots b c).inv = true := by
  obtain ⟨hp, hl, hsh, hI⟩ := (inv48_iff h len idx slots).1 hinv
  have hl48 : len = 48 := by rw [maxNode48_eq] at hlen; omega
  have hc := grow48_consts
  rw [maxNode48_eq] at hc
  simp only [add48, if_neg hlen]
  have hs256 : (List.range 256).map (fun i =>
      let p : UInt8 := idx.getD i 0
      if p != 0 then (slots[p.toNat - 1]?).join else none) = (List.range 256).map (look48 idx slots) := rfl
  rw [hs256]
  have habs : (n256 h len ((List.range 256).map (look48 idx slots))).abs = (n48 h len idx slots).abs := by
    rw [abs256_eq, abs48_eq]
    exact absF_congr (fun i hi => look256_map _ i hi)
  have hinv' : (n256 h len ((List.range 256).map (look48 idx slots))).inv = true := by
    rw [inv256_iff, countSome_map_range, abs48_length hI]
    refine ⟨hp, by simp, by omega, by omega⟩
  have := add256_spec h len _ b c hinv' (by rw [habs]; exact hnk)
  rw [habs] at this
  exact this

/-! ### building a node48 index from scratch (growth 16→48, shrink 256→48) -/

/-- `idx[g j] = j+1` for `j < n`, on the zero index -/
def buildIdx (g : Nat → Nat) (n : Nat) : Bytes :=
  (List.range n).foldl (fun acc j => acc.set (g j) (UInt8.ofNat (j + 1))) (List.replicate 256 0)

theorem buildIdx_succ (g : Nat → Nat) (n : Nat) :
    buildIdx g (n + 1) = (buildIdx g n).set (g n) (UInt8.ofNat (n + 1)) := by
  unfold buildIdx
  rw [List.range_succ, List.foldl_append]; rfl

structure BuildOK (g : Nat → Nat) (n : Nat) (idx : Bytes) : Prop where
  hlen : idx.length = 256
  hnz : (idx.filter (· != 0)).length = n
  hnodup : (idx.filter (· != 0)).Nodup
  hle : ∀ p ∈ idx, p.toNat ≤ n
  hhit : ∀ j, j < n → idx.getD (g j) 0 = UInt8.ofNat (j + 1)
  hmiss : ∀ x, (∀ j, j < n → g j ≠ x) → idx.getD x 0 = 0

theorem buildIdx_ok (g : Nat → Nat) (n : Nat) (hn : n ≤ 48) (hg : ∀ j, j < n → g j < 256)
    (hinj : ∀ i j, i < n → j < n → g i = g j → i = j) : BuildOK g n (buildIdx g n) := by
  induction n with
  | zero =>
    have h0 : buildIdx g 0 = List.replicate 256 0 := rfl
    have hf : (List.replicate 256 (0 : UInt8)).filter (· != 0) = [] := by
      rw [List.filter_eq_nil_iff]
      intro a ha
      rw [List.eq_of_mem_replicate ha]; decide
    rw [h0]
    refine ⟨List.length_replicate, by rw [hf]; rfl, by rw [hf]; exact List.nodup_nil, ?_,
      fun j hj => by omega, ?_⟩
    · intro p hp
      rw [List.eq_of_mem_replicate hp]; decide
    · intro x _
      rw [List.getD_eq_getElem?_getD, List.getElem?_replicate]
      split <;> rfl
  | succ n ih =>
    have ih := ih (by omega) (fun j hj => hg j (by omega)) (fun i j hi hj => hinj i j (by omega) (by omega))
    rw [buildIdx_succ]
    generalize buildIdx g n = idx at ih
    obtain ⟨hv1, hv0⟩ := u8_ofNat_succ n (by omega)
    generalize hv : UInt8.ofNat (n + 1) = v at hv1 hv0 ⊢
    have hgn : g n < idx.length := by rw [ih.hlen]; exact hg n (by omega)
    have hz : idx[g n]? = some 0 := by
      rw [getD_eq_some idx _ hgn, ih.hmiss (g n) (fun j hj e => by have := hinj j n (by omega) (by omega) e; omega)]
    have hperm := filter_set_from_zero idx (g n) v hz hv0
    refine ⟨by rw [List.length_set]; exact ih.hlen, ?_, ?_, ?_, ?_, ?_⟩
    · rw [hperm.length_eq, List.length_cons, ih.hnz]
    · rw [hperm.nodup_iff, List.nodup_cons]
      refine ⟨?_, ih.hnodup⟩
      intro hm
      have := ih.hle v (List.mem_filter.1 hm).1
      omega
    · intro p hp
      rcases List.mem_or_eq_of_mem_set hp with h | h
      · have := ih.hle p h; omega
      · rw [h, hv1]; omega
    · intro j hj
      by_cases hjn : j = n
      · subst hjn
        rw [List.getD_eq_getElem?_getD, List.getElem?_set_self hgn, hv]
        rfl
      · have hne : g n ≠ g j := fun e => hjn (hinj j n (by omega) (by omega) e.symm)
        rw [List.getD_eq_getElem?_getD, List.getElem?_set_ne hne, ← List.getD_eq_getElem?_getD]
        exact ih.hhit j (by omega)
    · intro x hx
      have hne : g n ≠ x := hx n (by omega)
      rw [List.getD_eq_getElem?_getD, List.getElem?_set_ne hne, ← List.getD_eq_getElem?_getD]
      exact ih.hmiss x (fun j hj => hx j (by omega))

theorem nodup_getElem_inj {α} {l : List α} (h : l.Nodup) (i j : Nat) (hi : i < l.length) (hj : j < l.length)
    (e : l[i] = l[j]) : i = j := by
  have hp := List.pairwise_iff_getElem.1 h
  rcases Nat.lt_trichotomy i j with hlt | heq | hgt
  · exact absurd e (hp i j hi hj hlt)
  · exact heq
  · exact absurd e.symm (hp j i hj hi hgt)

/-- a node48 image built from an entry list `E` of (byte value, child) with distinct byte values -/
theorem build48 (E : List (Nat × C)) (hn : E.length ≤ 48) (hlt : ∀ e ∈ E, e.1 < 256)
    (hnd : (E.map (·.1)).Nodup) :
    Inv48 E.length (buildIdx (fun j => (E.map (·.1)).getD j 0) E.length)
      (E.map (fun e => some e.2) ++ List.replicate (48 - E.length) none) ∧
    ∀ x c, look48 (buildIdx (fun j => (E.map (·.1)).getD j 0) E.length)
      (E.map (fun e => some e.2) ++ List.replicate (48 - E.length) none) x = some c ↔ (x, c) ∈ E := by
  have hgj : ∀ j (hj : j < E.length), (E.map (·.1)).getD j 0 = E[j].1 := by
    intro j hj
    rw [List.getD_eq_getElem?_getD, List.getElem?_map, List.getElem?_eq_getElem hj]; rfl
  have hok := buildIdx_ok (fun j => (E.map (·.1)).getD j 0) E.length hn
    (fun j hj => by rw [hgj j hj]; exact hlt _ (List.getElem_mem hj))
    (fun i j hi hj e => by
      rw [hgj i hi, hgj j hj] at e
      exact nodup_getElem_inj hnd i j (by simpa using hi) (by simpa using hj) (by simpa using e))
  generalize buildIdx (fun j => (E.map (·.1)).getD j 0) E.length = idx at hok
  have hslot : ∀ j (hj : j < E.length),
      (E.map (fun e => some e.2) ++ List.replicate (48 - E.length) none)[j]? = some (some E[j].2) := by
    intro j hj
    rw [List.getElem?_append_left (by simpa using hj), List.getElem?_map, List.getElem?_eq_getElem hj]; rfl
  have hhit : ∀ j (hj : j < E.length),
      look48 idx (E.map (fun e => some e.2) ++ List.replicate (48 - E.length) none) E[j].1 = some E[j].2 := by
    intro j hj
    have h1 := hok.hhit j hj
    simp only [hgj j hj] at h1
    obtain ⟨hv1, hv0⟩ := u8_ofNat_succ j (by omega)
    have hv' : (UInt8.ofNat (j + 1) != 0) = true := by simpa using hv0
    simp only [look48, h1, hv', if_true, hv1, Nat.add_sub_cancel, hslot j hj]; rfl
  refine ⟨⟨by simp; omega, hok.hlen, ?_, hok.hnz, ?_, hok.hnodup⟩, ?_⟩
  · rw [countSome_append]
    have h1 : countSome (E.map (fun e => some e.2)) = E.length := by
      simp only [countSome]
      rw [List.filter_eq_self.2 (by intro a ha; obtain ⟨e, _, rfl⟩ := List.mem_map.1 ha; rfl), List.length_map]
    have h2 : countSome (List.replicate (48 - E.length) (none : Option C)) = 0 := by
      simp only [countSome]
      rw [List.filter_eq_nil_iff.2 (by intro a ha; rw [List.eq_of_mem_replicate ha]; simp)]; rfl
    rw [h1, h2]; rfl
  · intro p hp hp0
    have hle := hok.hle p hp
    have h1 : p.toNat ≠ 0 := fun e => hp0 (UInt8.toNat_inj.1 (by simpa using e))
    refine ⟨by omega, ?_⟩
    rw [hslot (p.toNat - 1) (by omega)]; rfl
  · intro x c
    constructor
    · intro h
      have hne := (look48_some h).1
      have : ¬ ∀ j, j < E.length → (E.map (·.1)).getD j 0 ≠ x := fun hall => hne (hok.hmiss x hall)
      have : ∃ j, j < E.length ∧ (E.map (·.1)).getD j 0 = x := by
        apply Classical.byContradiction
        intro hno
        exact this (fun j hj e => hno ⟨j, hj, e⟩)
      obtain ⟨j, hj, e⟩ := this
      rw [hgj j hj] at e
      have := hhit j hj
      rw [e, h] at this
      have hc : c = E[j].2 := by simpa using this
      have : (x, c) = E[j] := by rw [hc, ← e]
      rw [this]; exact List.getElem_mem hj
    · intro h
      obtain ⟨j, hj, e⟩ := List.getElem_of_mem h
      have := hhit j hj
      rw [e] at this; exact this

theorem foldl_congr' {α β} {f g : β → α → β} {l : List α} (init : β)
    (h : ∀ acc, ∀ x ∈ l, f acc x = g acc x) : l.foldl f init = l.foldl g init := by
  induction l generalizing init with
  | nil => rfl
  | cons x xs ih =>
    rw [List.foldl_cons, List.foldl_cons, h init x List.mem_cons_self]
    exact ih _ (fun acc y hy => h acc y (List.mem_cons_of_mem _ hy))

theorem buildIdx_congr {g g' : Nat → Nat} {n : Nat} (h : ∀ j, j < n → g j = g' j) :
    buildIdx g n = buildIdx g' n := by
  unfold buildIdx
  apply foldl_congr'
  intro acc j hj
  rw [h j (List.mem_range.1 hj)]

theorem grow16_consts : maxNode16 < maxNode48 ∧ shrink48 < maxNode16 + 1 := by decide

/-- growth node16 → node48 -/
theorem add16_grow_spec (h : Hdr) (len : Nat) (keys : Bytes) (slots : List (Option C)) (b : UInt8) (c : C)
    (hinv : (n16 h len keys slots).inv = true)
    (hnk : ∀ p ∈ (n16 h len keys slots).abs, p.1 ≠ b) (hlen : ¬ len < maxNode16) :
    (add16 h len keys slots b c).abs = insertSorted b c (n16 h len keys slots).abs ∧
    (add16 h len keys slots b c).inv = true := by
  obtain ⟨L, hrep, habs, hsorted⟩ := inv16_rep hinv
  obtain ⟨hp, hs, hk, hl, hsh, _, _⟩ := (inv16_iff h len keys slots).1 hinv
  rw [habs] at hnk ⊢
  obtain ⟨c1, c2⟩ := grow16_consts
  have hl16 : len = maxNode16 := by rw [maxNode16_eq] at hlen ⊢; omega
  simp only [add16, if_neg hlen]
  -- the entry list
  obtain ⟨E, hE⟩ : ∃ E : List (Nat × C), E = L.map (fun kc => (kc.1.toNat, kc.2)) := ⟨_, rfl⟩
  have hElen : E.length = len := by simp [hE, hrep.2.2]
  have hE1 : E.map (·.1) = (L.map (·.1)).map (·.toNat) := by simp [hE, List.map_map]
  subst hElen
  have hidx : (List.range E.length).foldl
      (fun acc i => acc.set (keys.getD i 0).toNat (UInt8.ofNat (i + 1))) (List.replicate 256 0)
      = buildIdx (fun j => (E.map (·.1)).getD j 0) E.length := by
    show buildIdx (fun i => (keys.getD i 0).toNat) E.length = _
    apply buildIdx_congr
    intro j hj
    have hjL : j < L.length := by rw [hrep.2.2]; exact hj
    have : keys[j]? = (L.map (·.1))[j]? := by
      rw [← hrep.1, List.getElem?_take_of_lt hj]
    have hkj : keys.getD j 0 = L[j].1 := by
      rw [List.getD_eq_getElem?_getD, this, List.getElem?_map, List.getElem?_eq_getElem hjL]; rfl
    rw [hkj, hE1]
    simp [List.getD_eq_getElem?_getD, List.getElem?_map, List.getElem?_eq_getElem hjL]
  have hslots : slots.take E.length ++ List.replicate (48 - E.length) none
      = E.map (fun e => some e.2) ++ List.replicate (48 - E.length) none := by
    rw [hrep.2.1]; simp [hE, List.map_map]
  rw [hidx, hslots]
  have hnd : (E.map (·.1)).Nodup := by
    rw [hE1]
    have : ((L.map (·.1)).map (·.toNat)).Pairwise (· < ·) := by
      rw [List.pairwise_map, List.pairwise_map]
      exact hsorted.imp (fun h => UInt8.lt_iff_toNat_lt.1 h)
    exact this.imp (fun h => Nat.ne_of_lt h)
  obtain ⟨hI, hlook⟩ := build48 E (by rw [hl16]; rw [maxNode48_eq] at c1; omega)
    (by intro e he; rw [hE] at he; obtain ⟨kc, _, rfl⟩ := List.mem_map.1 he; exact u8_toNat_lt _) hnd
  have hmemE : ∀ (k : UInt8) (v : C), (k.toNat, v) ∈ E ↔ (k, v) ∈ L := by
    intro k v
    simp only [hE, List.mem_map, Prod.mk.injEq]
    constructor
    · rintro ⟨kc, hkc, h1, h2⟩
      have : kc = (k, v) := by
        cases kc; simp only [Prod.mk.injEq]; exact ⟨UInt8.toNat_inj.1 h1, h2⟩
      rw [← this]; exact hkc
    · intro hm; exact ⟨(k, v), hm, rfl, rfl⟩
  have hL : absF (look48 (buildIdx (fun j => (E.map (·.1)).getD j 0) E.length)
      (E.map (fun e => some e.2) ++ List.replicate (48 - E.length) none)) = L := by
    apply sorted_ext _ _ (absF_sorted _) hsorted
    rintro ⟨k, v⟩
    rw [mem_absF, hlook, hmemE]
  rw [← hL] at hnk ⊢
  exact add48_core h E.length _ _ b c hp hI ((not_key_iff _ b).1 hnk) (by omega) (by omega)

/-- the occupied positions of a node256 slot array, in ascending order -/
def live256 (slots : List (Option C)) : List (Nat × C) :=
  (List.range 256).filterMap fun i =>
    match (slots[i]?).join with
    | some c => some (i, c)
    | none => none

theorem mem_live256 (slots : List (Option C)) (x : Nat) (c : C) :
    (x, c) ∈ live256 slots ↔ x < 256 ∧ look256 slots x = some c := by
  simp only [live256, List.mem_filterMap, List.mem_range, look256]
  constructor
  · rintro ⟨i, hi, h⟩
    cases hj : (slots[i]?).join with
    | none => rw [hj] at h; cases h
    | some c' =>
      rw [hj] at h
      simp only [Option.some.injEq, Prod.mk.injEq] at h
      obtain ⟨rfl, rfl⟩ := h
      exact ⟨hi, hj⟩
  · rintro ⟨hx, h⟩
    exact ⟨x, hx, by rw [h]⟩

theorem live256_nodup (slots : List (Option C)) : ((live256 slots).map (·.1)).Nodup := by
  have : ((live256 slots).map (·.1)).Pairwise (· < ·) := by
    rw [List.pairwise_map]
    apply List.pairwise_filterMap.2
    apply (List.pairwise_lt_range (n := 256)).imp
    intro i j hij x hx y hy
    cases hi : (slots[i]?).join with
    | none => rw [hi] at hx; cases hx
    | some c =>
      cases hj : (slots[j]?).join with
      | none => rw [hj] at hy; cases hy
      | some c' =>
        rw [hi] at hx; rw [hj] at hy
        simp only [Option.some.injEq] at hx hy
        rw [← hx, ← hy]; exact hij
  exact this.imp (fun h => Nat.ne_of_lt h)

theorem live256_length (slots : List (Option C)) (hs : slots.length = 256) :
    (live256 slots).length = countSome slots := by
  rw [live256, length_filterMap_eq, countSome, ← count_range (·.isSome) slots, hs]
  congr 1
  apply filter_congr'
  intro i hi
  cases h : slots[i]? with
  | none => rfl
  | some o => cases o <;> rfl

theorem shrink256_consts : shrink256 ≤ maxNode48 ∧ shrink48 < shrink256 := by decide

theorem remove256_spec (h : Hdr) (len : Nat) (slots : List (Option C)) (b : UInt8)
    (hinv : (n256 h len slots).inv = true)
    (hk : ∃ p ∈ (n256 h len slots).abs, p.1 = b) :
    RemoveOK h ((n256 h len slots).abs.filter (fun p => p.1 != b)) (remove256 h len slots b) := by
  obtain ⟨hp, hs, hsh, hlen⟩ := (inv256_iff h len slots).1 hinv
  rw [abs256_eq] at hk ⊢
  obtain ⟨c0, hc0⟩ := (is_key_iff _ b).1 hk
  have hb' := look256_some slots b c0 hc0
  have hcnt := countSome_set_none slots b.toNat c0 hb'
  have hle := countSome_le slots
  have hs' : (slots.set b.toNat none).length = 256 := by rw [List.length_set]; exact hs
  have habs' : absF (look256 (slots.set b.toNat none)) =
      (absF (look256 slots)).filter (fun p => p.1 != b) := by
    rw [← absF_erase]
    exact absF_congr (fun i _ => look256_set slots hs b none i)
  have hlen' : (len + 255) % 256 = countSome (slots.set b.toNat none) := by omega
  simp only [remove256, hlen']
  generalize slots.set b.toNat none = slots' at *
  by_cases hc : (countSome slots' == shrink256) = true
  · rw [if_pos hc]
    have hc1 : countSome slots' = shrink256 := by simpa using hc
    obtain ⟨c1, c2⟩ := shrink256_consts
    rw [maxNode48_eq] at c1
    show RemoveOK h _ (.node (.n48 h (countSome slots')
      ((List.range (live256 slots').length).foldl
        (fun acc j => match (live256 slots')[j]? with
          | some (i, _) => acc.set i (UInt8.ofNat (j + 1))
          | none => acc) (List.replicate 256 0))
      ((live256 slots').map (fun ic => some ic.2) ++ List.replicate (48 - (live256 slots').length) none)))
    have hElen := live256_length slots' hs'
    have hidx : (List.range (live256 slots').length).foldl
        (fun (acc : Bytes) j => match (live256 slots')[j]? with
          | some (i, _) => acc.set i (UInt8.ofNat (j + 1))
          | none => acc) (List.replicate 256 0)
        = buildIdx (fun j => ((live256 slots').map (·.1)).getD j 0) (live256 slots').length := by
      unfold buildIdx
      apply foldl_congr'
      intro acc j hj
      have hj := List.mem_range.1 hj
      have e : (live256 slots')[j]? = some (live256 slots')[j] := List.getElem?_eq_getElem hj
      have e2 : ((live256 slots').map (·.1)).getD j 0 = (live256 slots')[j].1 := by
        rw [List.getD_eq_getElem?_getD, List.getElem?_map, e]; rfl
      show _ = acc.set (((live256 slots').map (·.1)).getD j 0) _
      rw [e2, e]
    rw [hidx]
    obtain ⟨hI, hlook⟩ := build48 (live256 slots') (by omega)
      (fun e he => ((mem_live256 slots' e.1 e.2).1 he).1) (live256_nodup slots')
    rw [← hElen] at hc1 ⊢
    refine ⟨?_, ?_, rfl⟩
    · rw [abs48_eq, ← habs']
      apply absF_congr
      intro x hx
      apply Option.ext
      intro c
      rw [hlook, mem_live256]
      exact ⟨fun h => h.2, fun h => ⟨hx, h⟩⟩
    · rw [inv48_iff]
      exact ⟨hp, by omega, by omega, hI⟩
  · rw [if_neg hc]
    have hc1 : countSome slots' ≠ shrink256 := by simpa using hc
    refine ⟨by rw [abs256_eq, habs'], ?_, rfl⟩
    rw [inv256_iff]
    refine ⟨hp, hs', by omega, by omega⟩

/-! ### the four classes together -/

theorem find_spec (r : Raw C) (b : UInt8) (hinv : r.inv = true) :
    r.find b = (r.abs.find? (fun p => p.1 == b)).map (·.2) := by
  cases r with
  | n4 h len keys slots => exact find4_spec h len keys slots b hinv
  | n16 h len keys slots => exact find16_spec h len keys slots b hinv
  | n48 h len idx slots => rw [find48_eq, abs48_eq, find_absF]
  | n256 h len slots => rw [find256_eq, abs256_eq, find_absF]

theorem abs_sortedT (r : Raw C) (hinv : r.inv = true) : SortedT r.abs := by
  cases r with
  | n4 h len keys slots => obtain ⟨L, _, habs, hs⟩ := inv4_rep hinv; rw [habs]; exact hs
  | n16 h len keys slots => obtain ⟨L, _, habs, hs⟩ := inv16_rep hinv; rw [habs]; exact hs
  | n48 h len idx slots => rw [abs48_eq]; exact absF_sorted _
  | n256 h len slots => rw [abs256_eq]; exact absF_sorted _

theorem abs_sorted (r : Raw C) (hinv : r.inv = true) : strictAsc (r.abs.map (·.1)) = true :=
  (sortedT_iff _).2 (abs_sortedT r hinv)

/-- `addChild`, all classes, growth included -/
theorem add_spec (r : Raw C) (b : UInt8) (c : C) (hinv : r.inv = true) (hnk : ∀ p ∈ r.abs, p.1 ≠ b) :
    (r.add b c).abs = insertSorted b c r.abs ∧ (r.add b c).inv = true := by
  cases r with
  | n4 h len keys slots =>
    by_cases hl : len < maxNode4
    · exact add4_spec h len keys slots b c hinv hnk hl
    · exact add4_grow_spec h len keys slots b c hinv hnk hl
  | n16 h len keys slots =>
    by_cases hl : len < maxNode16
    · exact add16_spec h len keys slots b c hinv hnk hl
    · exact add16_grow_spec h len keys slots b c hinv hnk hl
  | n48 h len idx slots =>
    by_cases hl : len < maxNode48
    · exact add48_spec h len idx slots b c hinv hnk hl
    · exact add48_grow_spec h len idx slots b c hinv hnk hl
  | n256 h len slots => exact add256_spec h len slots b c hinv hnk

/-- `deleteChild`, all classes, shrinking and the node4 collapse included -/
theorem remove_spec (r : Raw C) (b : UInt8) (hinv : r.inv = true) (hk : ∃ p ∈ r.abs, p.1 = b) :
    RemoveOK r.hdr (r.abs.filter (fun p => p.1 != b)) (r.remove b) := by
  cases r with
  | n4 h len keys slots => exact remove4_spec h len keys slots b hinv hk
  | n16 h len keys slots => exact remove16_spec h len keys slots b hinv hk
  | n48 h len idx slots => exact remove48_spec h len idx slots b hinv hk
  | n256 h len slots => exact remove256_spec h len slots b hinv hk

/-! ### `mergeHdr` -/

theorem mergeHdr_spec (h ch : Hdr) (b : UInt8) (hh : h.pfx.length = 10) (hc : ch.pfx.length = 10) :
    (mergeHdr h b ch).plen = ch.plen + h.plen + 1 ∧ (mergeHdr h b ch).pfx.length = 10 ∧
    (mergeHdr h b ch).pfx.take (min (ch.plen + h.plen + 1) 10) =
      (h.pfx.take (min h.plen 10) ++ [b] ++ ch.pfx.take (min ch.plen 10)).take 10 := by
  by_cases h1 : h.plen < 10
  · by_cases h2 : h.plen + 1 < 10
    · -- the branch byte and (part of) the child's prefix are copied in
      have e : mergeHdr h b ch =
          { plen := ch.plen + h.plen + 1,
            pfx := (((h.pfx.set h.plen b).take (h.plen + 1) ++ ch.pfx).take 10).take
                (min 10 (h.plen + 1 + min ch.plen (10 - (h.plen + 1)))) ++
              ch.pfx.drop (min 10 (h.plen + 1 + min ch.plen (10 - (h.plen + 1)))) } := by
        simp only [mergeHdr, maxPrefixLen, h1, h2, ↓reduceIte]
      rw [e]
      have hp2 : min 10 (h.plen + 1 + min ch.plen (10 - (h.plen + 1))) = min (ch.plen + h.plen + 1) 10 := by
        omega
      have hA : (h.pfx.set h.plen b).take (h.plen + 1) = h.pfx.take h.plen ++ [b] :=
        set_take_succ _ _ _ (by omega)
      simp only [hp2, hA]
      generalize hm : min (ch.plen + h.plen + 1) 10 = m
      have hm10 : m ≤ 10 := by omega
      have hmp : h.plen + 1 ≤ m := by omega
      refine ⟨trivial, ?_, ?_⟩
      · simp only [List.length_append, List.length_take, List.length_drop, List.length_cons,
          List.length_nil, hh, hc]
        omega
      · have l1 : (h.pfx.take h.plen ++ [b]).length = h.plen + 1 := by
          simp only [List.length_append, List.length_take, List.length_cons, List.length_nil, hh]; omega
        rw [Nat.min_eq_left (Nat.le_of_lt h1)]
        generalize h.pfx.take h.plen ++ [b] = A at l1 ⊢
        rw [List.take_append_of_le_length (by
          simp only [List.length_append, List.length_take, hc, l1]; omega)]
        rw [List.take_take, List.take_take, Nat.min_self, Nat.min_eq_left hm10]
        rw [List.take_append, List.take_append]
        rw [l1, List.take_of_length_le (by rw [l1]; exact hmp)]
        rw [List.take_of_length_le (by rw [l1]; omega : A.length ≤ 10), List.take_take]
        congr 2
        omega
    · -- only the branch byte fits
      have h9 : h.plen = 9 := by omega
      have e : mergeHdr h b ch =
          { plen := ch.plen + h.plen + 1,
            pfx := (h.pfx.set h.plen b).take (min 10 (h.plen + 1)) ++ ch.pfx.drop (min 10 (h.plen + 1)) } := by
        simp only [mergeHdr, maxPrefixLen, h1, h2, ↓reduceIte]
      rw [e, h9]
      have hm : min (ch.plen + 9 + 1) 10 = 10 := by omega
      have hA : (h.pfx.set 9 b).take 10 = h.pfx.take 9 ++ [b] := set_take_succ _ _ _ (by omega)
      simp only [hm, Nat.min_self, hA, List.drop_eq_nil_of_le (Nat.le_of_eq hc), List.append_nil]
      have l1 : (h.pfx.take 9 ++ [b]).length = 10 := by
        simp only [List.length_append, List.length_take, List.length_cons, List.length_nil, hh]; omega
      refine ⟨trivial, l1, ?_⟩
      rw [List.take_of_length_le (Nat.le_of_eq l1), Nat.min_eq_left (by omega : 9 ≤ 10),
        List.take_append_of_le_length (Nat.le_of_eq l1.symm), List.take_of_length_le (Nat.le_of_eq l1)]
  · -- the inline prefix of the parent is already full
    have e : mergeHdr h b ch =
        { plen := ch.plen + h.plen + 1,
          pfx := h.pfx.take (min 10 h.plen) ++ ch.pfx.drop (min 10 h.plen) } := by
      simp only [mergeHdr, maxPrefixLen, h1, ↓reduceIte]
    rw [e]
    have hm : min 10 h.plen = 10 := by omega
    have hm' : min (ch.plen + h.plen + 1) 10 = 10 := by omega
    have hm'' : min h.plen 10 = 10 := by omega
    simp only [hm, hm', hm'', List.drop_eq_nil_of_le (Nat.le_of_eq hc), List.append_nil,
      List.take_of_length_le (Nat.le_of_eq hh)]
    refine ⟨trivial, hh, ?_⟩
    rw [List.append_assoc, List.take_append_of_le_length (Nat.le_of_eq hh.symm),
      List.take_of_length_le (Nat.le_of_eq hh)]

theorem add256_hdr (h : Hdr) (len : Nat) (slots : List (Option C)) (b : UInt8) (c : C) :
    (add256 h len slots b c).hdr = h := rfl

theorem add48_hdr (h : Hdr) (len : Nat) (idx : Bytes) (slots : List (Option C)) (b : UInt8) (c : C) :
    (add48 h len idx slots b c).hdr = h := by
  unfold add48; split <;> rfl

theorem add16_hdr (h : Hdr) (len : Nat) (keys : Bytes) (slots : List (Option C)) (b : UInt8) (c : C) :
    (add16 h len keys slots b c).hdr = h := by
  unfold add16
  split
  · dsimp only; split <;> rfl
  · exact add48_hdr ..

theorem add4_hdr (h : Hdr) (len : Nat) (keys : BitVec 32) (slots : List (Option C)) (b : UInt8) (c : C) :
    (add4 h len keys slots b c).hdr = h := by
  unfold add4
  split
  · dsimp only; split <;> rfl
  · exact add16_hdr ..

/-- `addChild` never touches the header (prefix) of the node -/
theorem add_hdr (r : Raw C) (b : UInt8) (c : C) : (r.add b c).hdr = r.hdr := by
  cases r with
  | n4 h len keys slots => exact add4_hdr ..
  | n16 h len keys slots => exact add16_hdr ..
  | n48 h len idx slots => exact add48_hdr ..
  | n256 h len slots => rfl

end Raw
end ArtVerif
