/-
  `Insert` preserves well-formedness and changes the leaf set exactly as an ideal map would,
  provided the new key is compatible with the stored ones (`Compat`: same key ⇒ same descent key,
  and descent keys that are prefixes of one another belong to the same key – i.e. the key encoding
  is a function and prefix-free on the keys in play).
-/
import ArtVerif.Proofs.Mismatch
import ArtVerif.Proofs.Search
namespace ArtVerif
open Gen
namespace T
variable {V : Type}

def Compat (k tk : Bytes) (l : List (Item V)) : Prop :=
  ∀ it ∈ l, (it.1 = k → it.2.1 = tk) ∧ ((tk <+: it.2.1 ∨ it.2.1 <+: tk) → it.1 = k)

/-- what `Insert` must achieve below a subtree hanging at path `p` -/
def InsOK (t : T V) (p k tk : Bytes) (v : V) (r : T V × Bool) : Prop :=
  WF r.1 p ∧ (∀ x, x ∈ inorder r.1 ↔ x = (k, tk, v) ∨ (x ∈ inorder t ∧ x.1 ≠ k)) ∧
  (r.2 = true ↔ ∀ it ∈ inorder t, it.1 ≠ k)

theorem prefix_of_take_getElem {p tk : Bytes} {l : Nat} {b : UInt8} (hp : p <+: tk)
    (hb : tk[p.length + l]? = some b) : p ++ (tk.drop p.length).take l ++ [b] <+: tk := by
  obtain ⟨r, rfl⟩ := hp
  simp only [List.drop_left] at *
  rw [List.getElem?_append_right (by omega)] at hb
  simp only [Nat.add_sub_cancel_left] at hb
  obtain ⟨hlt, hget⟩ := List.getElem?_eq_some_iff.mp hb
  refine ⟨r.drop (l + 1), ?_⟩
  have : r = r.take l ++ b :: r.drop (l + 1) := by
    rw [← hget, ← List.drop_eq_getElem_cons hlt, List.take_append_drop]
  simp only [List.append_assoc, List.singleton_append]
  rw [← this]

theorem getElem?_drop_none_prefix {a : Bytes} {d l : Nat} (h : a[d + l]? = none) : (a.drop d).length ≤ l := by
  simp at h ⊢; omega

theorem kindOK_k4_two : KindOK .k4 2 := by unfold KindOK; decide

theorem addChild_kindOK (kind : Kind) (ch : Ch V) (b : UInt8) (c : T V) (h : KindOK kind ch.length) :
    KindOK (addChild kind ch b c).1 (ch.length + 1) := by
  have h1 : shrink16 < maxNode4 + 1 ∧ maxNode4 + 1 ≤ maxNode16 := by decide
  have h2 : shrink48 < maxNode16 + 1 ∧ maxNode16 + 1 ≤ maxNode48 := by decide
  have h3 : shrink256 < maxNode48 + 1 := by decide
  cases kind with
  | k4 =>
    simp only [addChild, Kind.cap, Kind.grow]
    by_cases hlt : ch.length < maxNode4 <;> simp only [hlt, if_true, if_false, KindOK] at h ⊢ <;> omega
  | k16 =>
    simp only [addChild, Kind.cap, Kind.grow]
    by_cases hlt : ch.length < maxNode16 <;> simp only [hlt, if_true, if_false, KindOK] at h ⊢ <;> omega
  | k48 =>
    simp only [addChild, Kind.cap, Kind.grow]
    by_cases hlt : ch.length < maxNode48 <;> simp only [hlt, if_true, if_false, KindOK] at h ⊢ <;> omega
  | k256 =>
    simp only [addChild, Kind.cap, Kind.grow]
    by_cases hlt : ch.length < maxNode256 <;> simp only [hlt, if_true, if_false, KindOK] at h ⊢ <;> omega

/-- case: the descent ended at a leaf with another key -/
theorem insert_leaf_split {lk ltk : Bytes} {lv : V} {p tk k : Bytes} {v : V}
    (hp : p <+: ltk) (hpk : p <+: tk) (hne : k ≠ lk)
    (hc : Compat k tk [(lk, ltk, lv)]) (fuel : Nat) :
    InsOK (leaf lk ltk lv) p k tk v (insert (fuel + 1) (leaf lk ltk lv) tk k v p.length) := by
  have hnp1 : ¬ tk <+: ltk := fun h => hne ((hc (lk, ltk, lv) (by simp)).2 (Or.inl h)).symm
  have hnp2 : ¬ ltk <+: tk := fun h => hne ((hc (lk, ltk, lv) (by simp)).2 (Or.inr h)).symm
  -- both keys go on after the common part
  have hla : ∃ a, ltk[p.length + lcpLen (ltk.drop p.length) (tk.drop p.length)]? = some a := by
    cases h : ltk[p.length + lcpLen (ltk.drop p.length) (tk.drop p.length)]? with
    | some a => exact ⟨a, rfl⟩
    | none =>
      exfalso; apply hnp2
      have hlen := getElem?_drop_none_prefix h
      have := (lcpLen_eq_length_iff (ltk.drop p.length) (tk.drop p.length)).mp
        (by have := lcpLen_le_left (ltk.drop p.length) (tk.drop p.length); omega)
      obtain ⟨r1, rfl⟩ := hp
      obtain ⟨r2, rfl⟩ := hpk
      simp only [List.drop_left] at this
      exact (List.prefix_append_right_inj p).mpr this
  have hlb : ∃ b, tk[p.length + lcpLen (ltk.drop p.length) (tk.drop p.length)]? = some b := by
    cases h : tk[p.length + lcpLen (ltk.drop p.length) (tk.drop p.length)]? with
    | some b => exact ⟨b, rfl⟩
    | none =>
      exfalso; apply hnp1
      have hlen := getElem?_drop_none_prefix h
      have hlr := lcpLen_le_right (ltk.drop p.length) (tk.drop p.length)
      have htake := take_lcpLen (ltk.drop p.length) (tk.drop p.length)
      rw [List.take_of_length_le (l := tk.drop p.length) hlen] at htake
      obtain ⟨r1, rfl⟩ := hp
      obtain ⟨r2, rfl⟩ := hpk
      simp only [List.drop_left] at htake
      refine (List.prefix_append_right_inj p).mpr ?_
      rw [← htake]; exact List.take_prefix _ _
  obtain ⟨a, ha⟩ := hla
  obtain ⟨b, hb⟩ := hlb
  have hab : a ≠ b := by
    have ha' : (ltk.drop p.length)[lcpLen (ltk.drop p.length) (tk.drop p.length)]? = some a := by
      simpa [List.getElem?_drop] using ha
    have hb' : (tk.drop p.length)[lcpLen (ltk.drop p.length) (tk.drop p.length)]? = some b := by
      simpa [List.getElem?_drop] using hb
    exact getElem_lcpLen_ne _ _ a b ha' hb'
  have hwa : WF (leaf lk ltk lv) (p ++ (tk.drop p.length).take (lcpLen (ltk.drop p.length) (tk.drop p.length)) ++ [a]) := by
    refine WF.leaf ?_
    rw [← take_lcpLen]
    exact prefix_of_take_getElem hp ha
  have hwb : WF (leaf k tk v) (p ++ (tk.drop p.length).take (lcpLen (ltk.drop p.length) (tk.drop p.length)) ++ [b]) :=
    WF.leaf (prefix_of_take_getElem hpk hb)
  simp only [insert, hne, if_false, ha, hb]
  have hcplen : ((tk.drop p.length).take (lcpLen (ltk.drop p.length) (tk.drop p.length))).length
      = lcpLen (ltk.drop p.length) (tk.drop p.length) := by
    have := lcpLen_le_right (ltk.drop p.length) (tk.drop p.length)
    simp only [List.length_take]; omega
  refine ⟨?_, ?_, ?_⟩
  · refine WF.node ((tk.drop p.length).take (lcpLen (ltk.drop p.length) (tk.drop p.length))) hcplen rfl ?_ ?_ ?_ ?_
    · apply insCh_sorted
      · simp [KeysSorted]
      · intro bc h; simp at h; subst h; exact hab
    · simp [length_insCh]
    · rw [length_insCh]; exact kindOK_k4_two
    · intro bc h
      rcases mem_insCh.mp h with h | h
      · subst h; exact hwb
      · simp at h; subst h; exact hwa
  · intro x
    simp only [inorder, mem_inorderL_iff]
    constructor
    · rintro ⟨bc, hbc, hx⟩
      rcases mem_insCh.mp hbc with h | h
      · subst h; simp [inorder] at hx; exact Or.inl hx
      · simp at h; subst h; simp [inorder] at hx; subst hx; exact Or.inr ⟨by simp, fun e => hne e.symm⟩
    · rintro (h | ⟨h, _⟩)
      · exact ⟨(b, leaf k tk v), mem_insCh.mpr (Or.inl rfl), by simp [inorder, h]⟩
      · simp at h; exact ⟨(a, leaf lk ltk lv), mem_insCh.mpr (Or.inr (by simp)), by simp [inorder, h]⟩
  · simp [inorder]; exact fun e => hne e.symm

end T
end ArtVerif

namespace ArtVerif
open Gen
namespace T
variable {V : Type}

theorem take_min_length {α} (l : List α) (n L : Nat) (h : l.length = L) : l.take (min n L) = l.take n := by
  rw [List.take_eq_take_iff]; omega

theorem getElem?_mid {α} (l1 l2 : List α) (x : α) (n : Nat) (h : l1.length = n) : (l1 ++ x :: l2)[n]? = some x := by
  subst h; simp

theorem drop_mid {α} (l1 l2 : List α) (x : α) (n : Nat) (h : l1.length + 1 = n) : (l1 ++ x :: l2).drop n = l2 := by
  subst h
  have : l1 ++ x :: l2 = (l1 ++ [x]) ++ l2 := by simp
  rw [this]; exact List.drop_left' (by simp)

theorem split_at {α} (l : List α) (n : Nat) (h : n < l.length) :
    ∃ c1 x c2, l = c1 ++ x :: c2 ∧ c1.length = n :=
  ⟨l.take n, l[n], l.drop (n+1), by rw [← List.drop_eq_getElem_cons h, List.take_append_drop], by simp; omega⟩

/-- the branch byte and the shortened inline prefix of the old node after a path split -/
theorem split_parts {kind : Kind} {plen : Nat} {inl : Bytes} {ch : Ch V} {p c1 c2 : Bytes} {x : UInt8}
    (hl : (c1 ++ x :: c2).length = plen) (hi : inl = (c1 ++ x :: c2).take maxPrefixLen)
    (hmin : p ++ (c1 ++ x :: c2) <+: minTKey (node kind plen inl ch)) :
    (if plen ≤ maxPrefixLen then (inl.getD c1.length 0, inl.drop (c1.length + 1))
     else ((minTKey (node kind plen inl ch)).getD (p.length + c1.length) 0,
           (((minTKey (node kind plen inl ch)).drop (p.length + c1.length + 1)).take maxPrefixLen).take (plen - (c1.length + 1))))
    = (x, c2.take maxPrefixLen) := by
  have hlen : c1.length + 1 + c2.length = plen := by simp at hl; omega
  split
  · next hle =>
    have : inl = c1 ++ x :: c2 := by rw [hi]; exact List.take_of_length_le (by omega)
    rw [this]
    congr 1
    · simp [List.getD_eq_getElem?_getD, getElem?_mid c1 c2 x c1.length rfl]
    · rw [drop_mid c1 c2 x _ rfl]
      exact (List.take_of_length_le (by omega)).symm
  · next hgt =>
    obtain ⟨rest, hrest⟩ := hmin
    have hmk : minTKey (node kind plen inl ch) = (p ++ c1) ++ x :: (c2 ++ rest) := by
      rw [← hrest]; simp [List.append_assoc]
    rw [hmk]
    congr 1
    · simp [List.getD_eq_getElem?_getD, getElem?_mid (p ++ c1) (c2 ++ rest) x (p.length + c1.length) (by simp)]
    · rw [drop_mid (p ++ c1) (c2 ++ rest) x _ (by simp), List.take_take,
        List.take_append_of_le_length (by omega), Nat.min_comm]
      exact take_min_length c2 _ _ (by omega)

theorem cp_prefix_minTKey {kind : Kind} {plen : Nat} {inl : Bytes} {ch : Ch V} {p cp : Bytes}
    (hl : cp.length = plen) (hi : inl = cp.take maxPrefixLen) (hs : KeysSorted ch) (h2 : 2 ≤ ch.length)
    (hk : KindOK kind ch.length) (hc : ∀ bc ∈ ch, WF bc.2 (p ++ cp ++ [bc.1])) :
    p ++ cp <+: minTKey (node kind plen inl ch) := by
  have hwf : WF (node kind plen inl ch) p := WF.node cp hl hi hs h2 hk hc
  obtain ⟨it, hit, he⟩ := minTKey_mem hwf
  rw [he]
  simp only [inorder] at hit
  obtain ⟨bc, _, hpre, _⟩ := WF.prefix_cp hc it hit
  exact List.IsPrefix.trans (by simp) hpre

/-- no stored key equals `k` when the probe's descent key leaves the subtree's common path -/
theorem no_key_of_not_prefix {t : T V} {q k tk : Bytes} (hc : Compat k tk (inorder t))
    (hq : ∀ it ∈ inorder t, q <+: it.2.1) (hn : ¬ q <+: tk) : ∀ it ∈ inorder t, it.1 ≠ k := by
  intro it hit e
  have := (hc it hit).1 e
  exact hn (this ▸ hq it hit)

/-- case: the key leaves the compressed path after `c1` -/
theorem insert_path_split {kind : Kind} {plen : Nat} {inl : Bytes} {ch : Ch V} {p c1 c2 : Bytes} {x : UInt8}
    {tk k : Bytes} {v : V}
    (hl : (c1 ++ x :: c2).length = plen) (hi : inl = (c1 ++ x :: c2).take maxPrefixLen)
    (hs : KeysSorted ch) (h2 : 2 ≤ ch.length) (hk : KindOK kind ch.length)
    (hc : ∀ bc ∈ ch, WF bc.2 (p ++ (c1 ++ x :: c2) ++ [bc.1]))
    (hp : p <+: tk) (hm : lcpLen (c1 ++ x :: c2) (tk.drop p.length) = c1.length)
    (hcompat : Compat k tk (inorder (node kind plen inl ch))) (fuel : Nat) :
    InsOK (node kind plen inl ch) p k tk v (insert (fuel + 1) (node kind plen inl ch) tk k v p.length) := by
  have hwf : WF (node kind plen inl ch) p := WF.node _ hl hi hs h2 hk hc
  have hmin := cp_prefix_minTKey hl hi hs h2 hk hc
  have hlen : c1.length + 1 + c2.length = plen := by simp at hl; omega
  have hpl : plen ≠ 0 := by omega
  have hpm : prefixMismatch plen inl (minTKey (node kind plen inl ch)) tk p.length = c1.length := by
    have := (prefixMismatch_spec (kind := kind) (ch := ch) hl hi hmin hp).1
    simp only [hm] at this
    exact this (by omega)
  -- all stored descent keys extend p ++ cp, the new one does not
  have hnpre : ¬ p ++ (c1 ++ x :: c2) <+: tk := by
    intro h
    have := (lcpLen_eq_length_iff _ _).mpr (prefix_drop_of_append_prefix h)
    simp at this; omega
  have hall : ∀ it ∈ inorder (node kind plen inl ch), p ++ (c1 ++ x :: c2) <+: it.2.1 := by
    intro it hit
    simp only [inorder] at hit
    obtain ⟨bc, _, hpre, _⟩ := WF.prefix_cp hc it hit
    exact List.IsPrefix.trans (by simp) hpre
  have hnokey := no_key_of_not_prefix hcompat hall hnpre
  -- the key goes on at the split point
  have hb : ∃ b, tk[p.length + c1.length]? = some b := by
    cases h : tk[p.length + c1.length]? with
    | some b => exact ⟨b, rfl⟩
    | none =>
      exfalso
      have hlen' := getElem?_drop_none_prefix h
      have htake := take_lcpLen (c1 ++ x :: c2) (tk.drop p.length)
      rw [hm, List.take_of_length_le hlen'] at htake
      -- tk = p ++ c1 is a prefix of every stored key
      obtain ⟨it, hit, _⟩ := minTKey_mem hwf
      have hpre : tk <+: it.2.1 := by
        refine List.IsPrefix.trans ?_ (hall it hit)
        obtain ⟨r, rfl⟩ := hp
        simp only [List.drop_left] at htake
        rw [← htake]
        simp
      exact hnokey it hit ((hcompat it hit).2 (Or.inl hpre))
  obtain ⟨b, hb⟩ := hb
  have hbx : x ≠ b := by
    have h1 : (c1 ++ x :: c2)[lcpLen (c1 ++ x :: c2) (tk.drop p.length)]? = some x := by
      rw [hm]; exact getElem?_mid c1 c2 x _ rfl
    have h2' : (tk.drop p.length)[lcpLen (c1 ++ x :: c2) (tk.drop p.length)]? = some b := by
      rw [hm]; simpa [List.getElem?_drop] using hb
    exact getElem_lcpLen_ne _ _ x b h1 h2'
  have hparts := split_parts (kind := kind) (ch := ch) hl hi hmin
  have hc1take : (tk.drop p.length).take c1.length = c1 := by
    have htake := take_lcpLen (c1 ++ x :: c2) (tk.drop p.length)
    rw [hm] at htake
    rw [← htake]; simp
  have hwb : WF (leaf k tk v) (p ++ c1 ++ [b]) := by
    refine WF.leaf ?_
    have := prefix_of_take_getElem hp hb
    rwa [hc1take] at this
  have hwold : WF (node kind (plen - (c1.length + 1)) (c2.take maxPrefixLen) ch) (p ++ c1 ++ [x]) := by
    refine WF.node c2 (by omega) rfl hs h2 hk ?_
    intro bc hbc
    have := hc bc hbc
    simpa [List.append_assoc] using this
  have hinl : inl.take c1.length = c1.take maxPrefixLen := by
    rw [hi, List.take_take, Nat.min_comm, ← List.take_take, List.take_left']
    rfl
  simp only [insert, hpl, ne_eq, not_false_eq_true, if_true, hpm, true_and, show c1.length < plen by omega,
    hparts, hb, hinl]
  refine ⟨?_, ?_, ?_⟩
  · refine WF.node c1 rfl rfl ?_ ?_ ?_ ?_
    · apply insCh_sorted
      · simp [KeysSorted]
      · intro bc h; simp at h; subst h; exact hbx
    · simp [length_insCh]
    · rw [length_insCh]; exact kindOK_k4_two
    · intro bc h
      rcases mem_insCh.mp h with h | h
      · subst h; exact hwb
      · simp at h; subst h; exact hwold
  · intro y
    simp only [inorder, mem_inorderL_iff]
    constructor
    · rintro ⟨bc, hbc, hy⟩
      rcases mem_insCh.mp hbc with h | h
      · subst h; simp [inorder] at hy; exact Or.inl hy
      · simp at h; subst h
        simp only [inorder] at hy
        exact Or.inr ⟨mem_inorderL_iff.mp hy, hnokey y (by simpa [inorder] using hy)⟩
    · rintro (h | ⟨h, _⟩)
      · exact ⟨(b, leaf k tk v), mem_insCh.mpr (Or.inl rfl), by simp [inorder, h]⟩
      · exact ⟨(x, node kind (plen - (c1.length + 1)) (c2.take maxPrefixLen) ch),
          mem_insCh.mpr (Or.inr (by simp)), by simp only [inorder]; exact mem_inorderL_iff.mpr h⟩
  · simp only [true_iff]; exact hnokey

theorem not_prefix_of_byte_ne {q tk : Bytes} {b b' : UInt8} (h : tk[q.length]? = some b) (hne : b' ≠ b) :
    ¬ q ++ [b'] <+: tk := by
  intro hp
  have := getElem?_of_append_singleton_prefix hp
  rw [h] at this
  exact hne (Option.some.inj this).symm

theorem Compat.mono {k tk : Bytes} {l l' : List (Item V)} (h : Compat k tk l) (hsub : ∀ x ∈ l', x ∈ l) :
    Compat k tk l' := fun it hit => h it (hsub it hit)

/-- **Insert is correct on well-formed trees.** -/
theorem insert_spec : ∀ (fuel : Nat) (t : T V) (p tk k : Bytes) (v : V),
    WF t p → p <+: tk → Compat k tk (inorder t) → tk.length < fuel + p.length →
    InsOK t p k tk v (insert fuel t tk k v p.length) := by
  intro fuel
  induction fuel with
  | zero =>
    intro t p tk k v _ hp _ hf
    have := hp.length_le
    omega
  | succ fuel ih =>
    intro t p tk k v hwf hp hcompat hf
    cases hwf with
    | @leaf lk ltk lv _ hpl =>
      by_cases hk : k = lk
      · subst hk
        have htk : ltk = tk := (hcompat (k, ltk, lv) (by simp [inorder])).1 rfl
        subst htk
        simp only [insert, if_true]
        refine ⟨WF.leaf hpl, ?_, ?_⟩
        · intro x
          simp only [inorder, List.mem_singleton]
          constructor
          · intro h; exact Or.inl h
          · rintro (h | ⟨h, hne⟩)
            · exact h
            · subst h; exact absurd rfl hne
        · simp [inorder]
      · exact insert_leaf_split hpl hp hk (by simpa [inorder] using hcompat) fuel
    | @node kind plen inl ch _ cp hl hi hs h2 hkd hc =>
      have hmle : lcpLen cp (tk.drop p.length) ≤ plen := by
        have := lcpLen_le_left cp (tk.drop p.length); omega
      by_cases hm : lcpLen cp (tk.drop p.length) < plen
      · -- the key leaves the compressed path
        obtain ⟨c1, x, c2, hcp, hc1⟩ := split_at cp (lcpLen cp (tk.drop p.length)) (by omega)
        subst hcp
        exact insert_path_split hl hi hs h2 hkd hc hp hc1.symm hcompat fuel
      · -- the whole compressed path matches
        have hmeq : lcpLen cp (tk.drop p.length) = cp.length := by omega
        have hcpre : cp <+: tk.drop p.length := (lcpLen_eq_length_iff _ _).mp hmeq
        have hpcp : p ++ cp <+: tk := by
          obtain ⟨r, rfl⟩ := hp
          simp only [List.drop_left] at hcpre
          exact (List.prefix_append_right_inj p).mpr hcpre
        have hmin := cp_prefix_minTKey hl hi hs h2 hkd hc
        have hwf : WF (node kind plen inl ch) p := WF.node cp hl hi hs h2 hkd hc
        have hcond : ¬ (plen ≠ 0 ∧
            (if plen ≠ 0 then prefixMismatch plen inl (minTKey (node kind plen inl ch)) tk p.length else 0) < plen) := by
          rintro ⟨h0, hlt⟩
          simp only [h0, ne_eq, not_false_eq_true, if_true] at hlt
          have := (prefixMismatch_spec (kind := kind) (ch := ch) hl hi hmin hp).2 (by omega)
          omega
        have hall : ∀ it ∈ inorder (node kind plen inl ch), ∃ bc ∈ ch, p ++ cp ++ [bc.1] <+: it.2.1 ∧ it ∈ inorder bc.2 := by
          intro it hit
          simp only [inorder] at hit
          exact WF.prefix_cp hc it hit
        -- the key goes on after the compressed path
        have hb : ∃ b, tk[p.length + plen]? = some b := by
          cases h : tk[p.length + plen]? with
          | some b => exact ⟨b, rfl⟩
          | none =>
            exfalso
            have hlen : tk.length ≤ (p ++ cp).length := by simp at h ⊢; omega
            have htk : tk = p ++ cp := (List.IsPrefix.eq_of_length_le hpcp hlen).symm
            obtain ⟨it, hit, _⟩ := minTKey_mem hwf
            obtain ⟨bc, _, hpre, _⟩ := hall it hit
            have hpre' : tk <+: it.2.1 := htk ▸ List.IsPrefix.trans (by simp) hpre
            have hkk := (hcompat it hit).2 (Or.inl hpre')
            have htk' := (hcompat it hit).1 hkk
            have := hpre.length_le
            rw [htk', htk] at this
            simp at this
            omega
        obtain ⟨b, hb⟩ := hb
        have hbq : tk[(p ++ cp).length]? = some b := by simpa [hl] using hb
        -- keys below other children differ from k
        have hother : ∀ bc ∈ ch, bc.1 ≠ b → ∀ y ∈ inorder bc.2, y.1 ≠ k := by
          intro bc hbc hne
          exact no_key_of_not_prefix (hcompat.mono (fun x hx => by
              simp only [inorder]; exact mem_inorderL_of_mem (b := bc.1) (by cases bc; exact hbc) hx))
            (WF.prefix_of_mem _ _ (hc bc hbc)) (not_prefix_of_byte_ne hbq hne)
        simp only [insert, hcond, if_false, hb]
        cases hlk : lookupCh b ch with
        | none =>
          have hnb : ∀ bc ∈ ch, bc.1 ≠ b := lookupCh_none_iff.mp hlk
          have hnokey : ∀ it ∈ inorder (node kind plen inl ch), it.1 ≠ k := by
            intro it hit
            obtain ⟨bc, hbc, _, hin⟩ := hall it hit
            exact hother bc hbc (hnb bc hbc) it hin
          have hwb : WF (leaf k tk v) (p ++ cp ++ [b]) := by
            refine WF.leaf ?_
            obtain ⟨r, hr⟩ := hpcp
            have : r[0]? = some b := by
              rw [← hr, List.getElem?_append_right (by simp)] at hbq
              simpa using hbq
            cases r with
            | nil => simp at this
            | cons y r => simp at this; subst this; exact ⟨r, by rw [← hr]; simp⟩
          simp only [addChild]
          refine ⟨?_, ?_, ?_⟩
          · have hk' := addChild_kindOK kind ch b (leaf k tk v) hkd
            simp only [addChild] at hk'
            split <;> rename_i hcap
            · simp only [hcap, if_true] at hk'
              refine WF.node cp hl hi (insCh_sorted hs hnb) (by rw [length_insCh]; omega)
                (by rw [length_insCh]; exact hk') ?_
              intro bc hbc
              rcases mem_insCh.mp hbc with h | h
              · subst h; exact hwb
              · exact hc bc h
            · simp only [hcap, if_false] at hk'
              refine WF.node cp hl hi (insCh_sorted hs hnb) (by rw [length_insCh]; omega)
                (by rw [length_insCh]; exact hk') ?_
              intro bc hbc
              rcases mem_insCh.mp hbc with h | h
              · subst h; exact hwb
              · exact hc bc h
          · intro y
            have : ∀ kd, y ∈ inorder (node kd plen inl (insCh b (leaf k tk v) ch)) ↔
                y = (k, tk, v) ∨ (y ∈ inorder (node kind plen inl ch) ∧ y.1 ≠ k) := by
              intro kd
              simp only [inorder, mem_inorderL_iff]
              constructor
              · rintro ⟨bc, hbc, hy⟩
                rcases mem_insCh.mp hbc with h | h
                · subst h; simp [inorder] at hy; exact Or.inl hy
                · exact Or.inr ⟨⟨bc, h, hy⟩, hother bc h (hnb bc h) y hy⟩
              · rintro (h | ⟨⟨bc, hbc, hy⟩, _⟩)
                · exact ⟨(b, leaf k tk v), mem_insCh.mpr (Or.inl rfl), by simp [inorder, h]⟩
                · exact ⟨bc, mem_insCh.mpr (Or.inr hbc), hy⟩
            split <;> exact this _
          · split <;> simp only [true_iff] <;> exact hnokey
        | some c =>
          have hmem : (b, c) ∈ ch := lookupCh_some_mem hlk
          have hwc : WF c (p ++ cp ++ [b]) := hc (b, c) hmem
          have hpb : p ++ cp ++ [b] <+: tk := by
            obtain ⟨r, hr⟩ := hpcp
            have : r[0]? = some b := by
              rw [← hr, List.getElem?_append_right (by simp)] at hbq
              simpa using hbq
            cases r with
            | nil => simp at this
            | cons y r => simp at this; subst this; exact ⟨r, by rw [← hr]; simp⟩
          have hcc : Compat k tk (inorder c) :=
            hcompat.mono (fun x hx => by simp only [inorder]; exact mem_inorderL_of_mem hmem hx)
          have hrec := ih c (p ++ cp ++ [b]) tk k v hwc hpb hcc (by simp; omega)
          have hdepth : (p ++ cp ++ [b]).length = p.length + plen + 1 := by simp [hl]; omega
          rw [hdepth] at hrec
          obtain ⟨hw', hmem', hflag'⟩ := hrec
          refine ⟨?_, ?_, ?_⟩
          · refine WF.node cp hl hi (by simp only [KeysSorted, map_fst_replaceCh]; exact hs)
              (by rw [length_replaceCh]; exact h2) (by rw [length_replaceCh]; exact hkd) ?_
            intro bc hbc
            rcases (mem_replaceCh hs ⟨c, hmem⟩).mp hbc with h | ⟨h, _⟩
            · subst h; exact hw'
            · exact hc bc h
          · intro y
            simp only [inorder, mem_inorderL_iff]
            constructor
            · rintro ⟨bc, hbc, hy⟩
              rcases (mem_replaceCh hs ⟨c, hmem⟩).mp hbc with h | ⟨h, hne⟩
              · subst h
                rcases (hmem' y).mp hy with h1 | ⟨h1, h2'⟩
                · exact Or.inl h1
                · exact Or.inr ⟨⟨(b, c), hmem, h1⟩, h2'⟩
              · exact Or.inr ⟨⟨bc, h, hy⟩, hother bc h hne y hy⟩
            · rintro (h | ⟨⟨bc, hbc, hy⟩, hne⟩)
              · exact ⟨(b, _), (mem_replaceCh hs ⟨c, hmem⟩).mpr (Or.inl rfl), (hmem' y).mpr (Or.inl h)⟩
              · by_cases hbb : bc.1 = b
                · have : bc = (b, c) := keys_ne_of_sorted_mem hs hbc hmem hbb
                  subst this
                  exact ⟨(b, _), (mem_replaceCh hs ⟨c, hmem⟩).mpr (Or.inl rfl), (hmem' y).mpr (Or.inr ⟨hy, hne⟩)⟩
                · exact ⟨bc, (mem_replaceCh hs ⟨c, hmem⟩).mpr (Or.inr ⟨hbc, hbb⟩), hy⟩
          · rw [hflag']
            constructor
            · intro h it hit
              obtain ⟨bc, hbc, _, hin⟩ := hall it hit
              by_cases hbb : bc.1 = b
              · have : bc = (b, c) := keys_ne_of_sorted_mem hs hbc hmem hbb
                subst this
                exact h it hin
              · exact hother bc hbc hbb it hin
            · intro h it hit
              exact h it (by simp only [inorder]; exact mem_inorderL_of_mem hmem hit)

end T
end ArtVerif
