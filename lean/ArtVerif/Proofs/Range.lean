/-
  `rangeScan` – the pruned, early-terminating scan with a depth per stack entry – is the early-exit fold
  over the in-order leaves whose key lies between the bounds.
-/
import ArtVerif.Proofs.SortedExt
import ArtVerif.Model.Api
namespace ArtVerif
open Gen
namespace T
variable {V σ : Type}

def inRange (start stop : Bytes) (it : Item V) : Bool := !lexLt it.1 start && !lexLt stop it.1

/-- a key between two bounds shares their common prefix -/
theorem between_prefix : ∀ (search start stop x : Bytes), search <+: start → search <+: stop →
    lexLt x start = false → lexLt stop x = false → search <+: x := by
  intro search
  induction search with
  | nil => intro _ _ _ _ _ _ _; simp
  | cons c s ih =>
    intro start stop x h1 h2 h3 h4
    cases start with
    | nil => simp at h1
    | cons a start =>
      cases stop with
      | nil => simp at h2
      | cons b stop =>
        simp only [List.cons_prefix_cons] at h1 h2
        obtain ⟨rfl, h1⟩ := h1
        obtain ⟨rfl, h2⟩ := h2
        cases x with
        | nil => simp [lexLt] at h3
        | cons d x =>
          simp only [lexLt] at h3 h4
          have hdc : ¬ d < c := by intro h; simp [h] at h3
          have hcd : ¬ c < d := by intro h; simp [h] at h4
          have hd : d = c := uint8_eq_of_not_lt hdc hcd
          subst hd
          simp only [UInt8.lt_irrefl, if_false] at h3 h4
          simp only [List.cons_prefix_cons, true_and]
          exact ih start stop x h1 h2 h3 h4

theorem prefix_getElem? {a b : Bytes} (h : a <+: b) (i : Nat) (hi : i < a.length) : a[i]? = b[i]? := by
  obtain ⟨r, rfl⟩ := h
  rw [List.getElem?_append_left hi]

def pairNodes (st : List (T V × Nat)) : Nat := (st.map (fun e => nodes e.1)).sum

def flat (st : List (T V × Nat)) : List (Item V) := st.flatMap (fun e => inorder e.1)

theorem lcpLen_zero_cons {a b : UInt8} {as bs : Bytes} (h : lcpLen (a :: as) (b :: bs) = 0) : a ≠ b := by
  intro e; subst e; simp [lcpLen] at h

/-- a pruned node holds no key in range -/
theorem pruned_out_of_range {kind plen inl} {ch : Ch V} {p search start stop : Bytes}
    (hwf : WF (node kind plen inl ch) p) (h1 : search <+: start) (h2 : search <+: stop)
    (hpl : plen > 0) (hd : p.length < search.length)
    (hz : lcpLen inl ((search.drop p.length).take maxPrefixLen) = 0) :
    ∀ x ∈ inorder (node kind plen inl ch), x.1 = x.2.1 → inRange start stop x = false := by
  intro x hx hk
  cases hwf with
  | node cp hl hi hs h2' hkd hc =>
    simp only [inorder] at hx
    obtain ⟨bc, _, hpre, _⟩ := WF.prefix_cp hc x hx
    have hpcp : p ++ cp <+: x.2.1 := List.IsPrefix.trans (by simp) hpre
    cases hb : inRange start stop x with
    | false => rfl
    | true =>
      exfalso
      simp only [inRange, Bool.and_eq_true, Bool.not_eq_true'] at hb
      have hsx : search <+: x.2.1 := hk ▸ between_prefix search start stop x.1 h1 h2 hb.1 hb.2
      -- first byte of the compressed path vs. search at this depth
      cases cp with
      | nil => simp at hl; omega
      | cons c0 cp' =>
        have e1 : x.2.1[p.length]? = some c0 := by
          obtain ⟨r, hr⟩ := hpcp
          rw [← hr]; simp
        have e2 : search[p.length]? = x.2.1[p.length]? := prefix_getElem? hsx _ hd
        have hs0 : ∃ s0 rest, search.drop p.length = s0 :: rest := by
          cases hdr : search.drop p.length with
          | nil => simp at hdr; omega
          | cons s0 rest => exact ⟨s0, rest, rfl⟩
        obtain ⟨s0, rest, hdr⟩ := hs0
        have e3 : search[p.length]? = some s0 := by
          have := congrArg (fun l => l[0]?) hdr
          simpa [List.getElem?_drop] using this
        rw [hi, hdr] at hz
        have hmp : maxPrefixLen = 10 := rfl
        simp only [hmp, List.take_succ_cons] at hz
        have := lcpLen_zero_cons hz
        rw [e2, e1] at e3
        exact this (Option.some.inj e3)

theorem rangeLoop_eq (start stop search : Bytes) (h1 : search <+: start) (h2 : search <+: stop) (f : Yield σ V) :
    ∀ (fuel : Nat) (st : List (T V × Nat)) (s : σ),
      (∀ e ∈ st, ∃ p, WF e.1 p ∧ p.length = e.2) → (flat st).Pairwise ItemLt →
      (∀ x ∈ flat st, x.1 = x.2.1) → pairNodes st < fuel →
      rangeLoop start stop search f fuel st s = foldUntil f s ((flat st).filter (inRange start stop)) := by
  intro fuel
  induction fuel with
  | zero => intro st s _ _ _ h; omega
  | succ fuel ih =>
    intro st s hwf hsorted hkeyed hfuel
    match st with
    | [] => simp [rangeLoop, flat, foldUntil]
    | (leaf k tk v, d) :: rest =>
      have hr : pairNodes rest < fuel := by simp [pairNodes, nodes] at hfuel ⊢; omega
      have hflat : flat ((leaf k tk v, d) :: rest) = (k, tk, v) :: flat rest := by simp [flat, inorder]
      rw [hflat] at hsorted hkeyed ⊢
      simp only [List.pairwise_cons] at hsorted
      have hrest := ih rest
      have hwf' : ∀ e ∈ rest, ∃ p, WF e.1 p ∧ p.length = e.2 := fun e he => hwf e (List.mem_cons_of_mem _ he)
      have hk' : ∀ x ∈ flat rest, x.1 = x.2.1 := fun x hx => hkeyed x (List.mem_cons_of_mem _ hx)
      have hktk : k = tk := hkeyed (k, tk, v) List.mem_cons_self
      have hir : inRange start stop (k, tk, v) = (!lexLt k start && !lexLt stop k) := rfl
      simp only [rangeLoop, List.filter_cons, hir]
      by_cases hlo : lexLt k start = true
      · simp only [hlo, if_true, Bool.not_true, Bool.false_and, Bool.false_eq_true, if_false]
        exact hrest s hwf' hsorted.2 hk' hr
      · simp only [hlo, if_false, Bool.not_false, Bool.true_and]
        by_cases hhi : lexLt stop k = true
        · simp only [hhi, if_true, Bool.not_true, Bool.false_eq_true, if_false]
          -- everything that follows is above the end bound
          have : (flat rest).filter (inRange start stop) = [] := by
            rw [List.filter_eq_nil_iff]
            intro y hy
            have hlt := hsorted.1 y hy
            simp only [ItemLt] at hlt
            have hy' := hk' y hy
            have : lexLt stop y.1 = true := by rw [hy']; exact lexLt_trans hhi (hktk ▸ hlt)
            simp [inRange, this]
          rw [this]; simp [foldUntil]
        · simp only [hhi, if_false, Bool.not_false, if_true, foldUntil]
          cases hf : f s (k, tk, v) with
          | mk s' c =>
            cases c with
            | true => exact hrest s' hwf' hsorted.2 hk' hr
            | false => rfl
    | (node kind plen inl ch, d) :: rest =>
      obtain ⟨p, hw, hpd⟩ := hwf (node kind plen inl ch, d) List.mem_cons_self
      have hwf' : ∀ e ∈ rest, ∃ p, WF e.1 p ∧ p.length = e.2 := fun e he => hwf e (List.mem_cons_of_mem _ he)
      have hflat : flat ((node kind plen inl ch, d) :: rest) = inorder (node kind plen inl ch) ++ flat rest := by
        simp [flat]
      simp only [rangeLoop]
      split
      · next hprune =>
        -- pruned
        obtain ⟨hpl, hdl, hz⟩ := hprune
        have hr : pairNodes rest < fuel := by simp [pairNodes, nodes] at hfuel ⊢; omega
        rw [hflat] at hsorted hkeyed ⊢
        have hout := pruned_out_of_range hw h1 h2 hpl (hpd ▸ hdl) (hpd ▸ hz)
        have hfil : (inorder (node kind plen inl ch)).filter (inRange start stop) = [] := by
          rw [List.filter_eq_nil_iff]
          intro x hx
          rw [hout x hx (hkeyed x (List.mem_append_left _ hx))]; simp
        rw [List.filter_append, hfil, List.nil_append]
        exact ih rest s hwf' (List.pairwise_append.mp hsorted).2.1
          (fun x hx => hkeyed x (List.mem_append_right _ hx)) hr
      · -- descend: children with their own depth
        have hr : pairNodes (ch.map (fun bc => (bc.2, d + plen + 1)) ++ rest) < fuel := by
          simp [pairNodes, nodes, nodesL_eq, Function.comp_def] at hfuel ⊢; omega
        have hflat' : flat (ch.map (fun bc => (bc.2, d + plen + 1)) ++ rest) = flat ((node kind plen inl ch, d) :: rest) := by
          simp [flat, inorder, inorderL_eq, List.flatMap_map]
        rw [← hflat']
        rw [← hflat'] at hsorted hkeyed
        refine ih _ s ?_ hsorted hkeyed hr
        intro e he
        rcases List.mem_append.mp he with he | he
        · simp only [List.mem_map] at he
          obtain ⟨bc, hbc, rfl⟩ := he
          cases hw with
          | node cp hl hi hs h2' hkd hc =>
            exact ⟨p ++ cp ++ [bc.1], hc bc hbc, by simp [hl, hpd]; omega⟩
        · exact hwf' e he

end T
end ArtVerif
