/-
  Insert of a present key changes nothing but that key's value: the whole structure (size classes,
  compressed paths, inline bytes, branch bytes, every other leaf) is untouched.
-/
import ArtVerif.Proofs.Insert
namespace ArtVerif
open Gen
namespace T
variable {V : Type}

mutual
/-- replace the value of the leaf carrying key `k` -/
def setVal (k : Bytes) (v : V) : T V → T V
  | leaf lk ltk lv => if lk = k then leaf lk ltk v else leaf lk ltk lv
  | node kind plen inl ch => node kind plen inl (setValL k v ch)
def setValL (k : Bytes) (v : V) : Ch V → Ch V
  | [] => []
  | (b, c) :: rest => (b, setVal k v c) :: setValL k v rest
end

theorem setVal_id_of_absent (k : Bytes) (v : V) : ∀ (t : T V), (∀ it ∈ inorder t, it.1 ≠ k) → setVal k v t = t := by
  intro t
  induction t using induct with
  | hleaf lk ltk lv =>
    intro h
    have : lk ≠ k := h (lk, ltk, lv) (by simp [inorder])
    simp [setVal, this]
  | hnode kind plen inl ch ih =>
    intro h
    simp only [setVal]
    congr 1
    induction ch with
    | nil => rfl
    | cons bc rest ihl =>
      obtain ⟨b, c⟩ := bc
      simp only [setValL]
      have hc : ∀ it ∈ inorder c, it.1 ≠ k := fun it hit =>
        h it (by simp only [inorder]; exact mem_inorderL_of_mem (b := b) (c := c) List.mem_cons_self hit)
      rw [ih (b, c) List.mem_cons_self hc]
      congr 1
      apply ihl (fun bc hbc => ih bc (List.mem_cons_of_mem _ hbc))
      intro it hit
      apply h it
      simp only [inorder] at hit ⊢
      obtain ⟨bc, hbc, hin⟩ := mem_inorderL_iff.mp hit
      exact mem_inorderL_iff.mpr ⟨bc, List.mem_cons_of_mem _ hbc, hin⟩

theorem setValL_replace (k : Bytes) (v : V) (b : UInt8) (c : T V) : ∀ (ch : Ch V), KeysSorted ch → (b, c) ∈ ch →
    (∀ bc ∈ ch, bc.1 ≠ b → ∀ it ∈ inorder bc.2, it.1 ≠ k) →
    setValL k v ch = replaceCh b (setVal k v c) ch := by
  intro ch
  induction ch with
  | nil => intro _ h _; simp at h
  | cons bc rest ihl =>
    obtain ⟨b', c'⟩ := bc
    intro hs hmem hother
    simp only [KeysSorted, List.map_cons, List.pairwise_cons] at hs
    simp only [setValL, replaceCh]
    by_cases hb : b' = b
    · subst hb
      have hcc : c' = c := by
        cases hmem with
        | head => rfl
        | tail _ h' =>
          have := hs.1 b' (by simp only [List.mem_map]; exact ⟨(b', c), h', rfl⟩)
          exact absurd this (UInt8.lt_irrefl _)
      subst hcc
      simp only [if_true]
      congr 1
      -- the rest holds no key k
      have : ∀ (l : Ch V), (∀ bc ∈ l, ∀ it ∈ inorder bc.2, it.1 ≠ k) → setValL k v l = l := by
        intro l
        induction l with
        | nil => intro _; rfl
        | cons x xs ihx =>
          obtain ⟨xb, xc⟩ := x
          intro hx
          simp only [setValL]
          rw [setVal_id_of_absent k v xc (hx (xb, xc) List.mem_cons_self),
            ihx (fun bc h => hx bc (List.mem_cons_of_mem _ h))]
      apply this
      intro bc hbc
      refine hother bc (List.mem_cons_of_mem _ hbc) ?_
      intro e
      have := hs.1 bc.1 (by simp only [List.mem_map]; exact ⟨bc, hbc, rfl⟩)
      rw [e] at this; exact UInt8.lt_irrefl _ this
    · simp only [hb, if_false]
      have hmem' : (b, c) ∈ rest := by
        cases hmem with
        | head => exact absurd rfl hb
        | tail _ h' => exact h'
      rw [setVal_id_of_absent k v c' (hother (b', c') List.mem_cons_self hb)]
      congr 1
      exact ihl hs.2 hmem' (fun bc hbc => hother bc (List.mem_cons_of_mem _ hbc))

/-- **overwrite**: with the key present, `Insert` returns the same tree with that leaf's value replaced -/
theorem insert_present : ∀ (fuel : Nat) (t : T V) (p tk k : Bytes) (v : V),
    WF t p → p <+: tk → Compat k tk (inorder t) → tk.length < fuel + p.length →
    (∃ it ∈ inorder t, it.1 = k) →
    (insert fuel t tk k v p.length).1 = setVal k v t := by
  intro fuel
  induction fuel with
  | zero => intro t p tk k v _ hp _ hf _; have := hp.length_le; omega
  | succ fuel ih =>
    intro t p tk k v hwf hp hcompat hf hex
    cases hwf with
    | @leaf lk ltk lv _ hpl =>
      obtain ⟨it, hit, hk⟩ := hex
      simp [inorder] at hit; subst hit
      simp only at hk; subst hk
      simp [insert, setVal]
    | @node kind plen inl ch _ cp hl hi hs h2 hkd hc =>
      obtain ⟨it0, hit0, hk0⟩ := hex
      -- the stored key pins the descent: tk extends p ++ cp ++ [b] for its child b
      have htk0 := (hcompat it0 hit0).1 hk0
      simp only [inorder] at hit0
      obtain ⟨bc0, hbc0, hpre0, hin0⟩ := WF.prefix_cp hc it0 hit0
      rw [htk0] at hpre0
      have hpcp : p ++ cp <+: tk := List.IsPrefix.trans (by simp) hpre0
      have hcpre : cp <+: tk.drop p.length := prefix_drop_of_append_prefix hpcp
      have hmeq : lcpLen cp (tk.drop p.length) = cp.length := (lcpLen_eq_length_iff _ _).mpr hcpre
      have hmin := cp_prefix_minTKey hl hi hs h2 hkd hc
      have hcond : ¬ (plen ≠ 0 ∧
          (if plen ≠ 0 then prefixMismatch plen inl (minTKey (node kind plen inl ch)) tk p.length else 0) < plen) := by
        rintro ⟨h0, hlt⟩
        simp only [h0, ne_eq, not_false_eq_true, if_true] at hlt
        have := (prefixMismatch_spec (kind := kind) (ch := ch) hl hi hmin hp).2 (by omega)
        omega
      have hb : tk[p.length + plen]? = some bc0.1 := by
        have := getElem?_of_append_singleton_prefix hpre0
        simpa [hl] using this
      have hbq : tk[(p ++ cp).length]? = some bc0.1 := by simpa [hl] using hb
      have hlk : lookupCh bc0.1 ch = some bc0.2 := lookupCh_of_mem hs (by cases bc0; exact hbc0)
      have hother : ∀ bc ∈ ch, bc.1 ≠ bc0.1 → ∀ y ∈ inorder bc.2, y.1 ≠ k := by
        intro bc hbc hne
        exact no_key_of_not_prefix (hcompat.mono (fun x hx => by
            simp only [inorder]; exact mem_inorderL_iff.mpr ⟨bc, hbc, hx⟩))
          (WF.prefix_of_mem _ _ (hc bc hbc)) (not_prefix_of_byte_ne hbq hne)
      simp only [insert, hcond, if_false, hb, hlk, setVal]
      have hcc : Compat k tk (inorder bc0.2) :=
        hcompat.mono (fun x hx => by simp only [inorder]; exact mem_inorderL_iff.mpr ⟨bc0, hbc0, hx⟩)
      have hrec := ih bc0.2 (p ++ cp ++ [bc0.1]) tk k v (hc bc0 hbc0) hpre0 hcc (by simp; omega) ⟨it0, hin0, hk0⟩
      have hdepth : (p ++ cp ++ [bc0.1]).length = p.length + plen + 1 := by simp [hl]; omega
      rw [hdepth] at hrec
      rw [hrec]
      congr 1
      exact (setValL_replace k v bc0.1 bc0.2 ch hs (by cases bc0; exact hbc0) hother).symm

end T
end ArtVerif
