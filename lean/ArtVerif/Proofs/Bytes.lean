/-
  Lemmas about `lcpLen`, `hasPrefix`, `lexLt` on byte strings.
-/
import ArtVerif.Model.Bytes
namespace ArtVerif

theorem hasPrefix_iff (a p : Bytes) : hasPrefix a p = true ↔ p <+: a := by
  induction p generalizing a with
  | nil => simp [hasPrefix]
  | cons x p ih =>
    cases a with
    | nil => simp [hasPrefix]
    | cons y a =>
      simp only [hasPrefix, Bool.and_eq_true, beq_iff_eq, ih, List.cons_prefix_cons]
      constructor
      · rintro ⟨h1, h2⟩; exact ⟨h1.symm, h2⟩
      · rintro ⟨h1, h2⟩; exact ⟨h1.symm, h2⟩

theorem lcpLen_le_left (a b : Bytes) : lcpLen a b ≤ a.length := by
  induction a generalizing b with
  | nil => simp [lcpLen]
  | cons x a ih =>
    cases b with
    | nil => simp [lcpLen]
    | cons y b =>
      simp only [lcpLen]
      split
      · have := ih b; simp; omega
      · simp

theorem lcpLen_le_right (a b : Bytes) : lcpLen a b ≤ b.length := by
  induction a generalizing b with
  | nil => simp [lcpLen]
  | cons x a ih =>
    cases b with
    | nil => simp [lcpLen]
    | cons y b =>
      simp only [lcpLen]
      split
      · have := ih b; simp; omega
      · simp

theorem take_lcpLen (a b : Bytes) : a.take (lcpLen a b) = b.take (lcpLen a b) := by
  induction a generalizing b with
  | nil => simp [lcpLen]
  | cons x a ih =>
    cases b with
    | nil => simp [lcpLen]
    | cons y b =>
      simp only [lcpLen]
      split
      · next h => subst h; simp [ih b]
      · simp

/-- at the end of the common prefix the two strings differ (when both go on) -/
theorem getElem_lcpLen_ne (a b : Bytes) (x y : UInt8)
    (ha : a[lcpLen a b]? = some x) (hb : b[lcpLen a b]? = some y) : x ≠ y := by
  induction a generalizing b with
  | nil => simp at ha
  | cons x' a ih =>
    cases b with
    | nil => simp at hb
    | cons y' b =>
      simp only [lcpLen] at ha hb
      split at ha
      · next h =>
        simp only [h, if_true] at hb
        simp at ha hb
        exact ih b ha hb
      · next h =>
        simp only [h, if_false] at hb
        simp at ha hb
        subst ha; subst hb; exact h

theorem lcpLen_eq_length_iff (a b : Bytes) : lcpLen a b = a.length ↔ a <+: b := by
  induction a generalizing b with
  | nil => simp [lcpLen]
  | cons x a ih =>
    cases b with
    | nil => simp [lcpLen]
    | cons y b =>
      simp only [lcpLen, List.cons_prefix_cons, List.length_cons]
      split
      · next h => subst h; simp [ih b]
      · next h => simp [h]

/-- a prefix `q` of both is within the common prefix -/
theorem prefix_le_lcpLen (q a b : Bytes) (ha : q <+: a) (hb : q <+: b) : q.length ≤ lcpLen a b := by
  induction q generalizing a b with
  | nil => simp
  | cons x q ih =>
    cases a with
    | nil => simp at ha
    | cons y a =>
      cases b with
      | nil => simp at hb
      | cons z b =>
        simp only [List.cons_prefix_cons] at ha hb
        obtain ⟨h1, h2⟩ := ha
        obtain ⟨h3, h4⟩ := hb
        subst h1; subst h3
        simp only [lcpLen, if_true, List.length_cons]
        have := ih a b h2 h4
        omega

/-! ### lexicographic order -/

theorem lexLt_irrefl (a : Bytes) : lexLt a a = false := by
  induction a with
  | nil => simp [lexLt]
  | cons x a ih => simp [lexLt, ih, UInt8.lt_irrefl]

theorem uint8_lt_asymm {a b : UInt8} (h : a < b) : ¬ b < a := by
  rw [UInt8.lt_iff_toNat_lt] at *; omega

theorem uint8_lt_trans {a b c : UInt8} (h1 : a < b) (h2 : b < c) : a < c := by
  rw [UInt8.lt_iff_toNat_lt] at *; omega

theorem uint8_eq_of_not_lt {a b : UInt8} (h1 : ¬ a < b) (h2 : ¬ b < a) : a = b := by
  rw [UInt8.lt_iff_toNat_lt] at *
  exact UInt8.toNat_inj.mp (by omega)

theorem uint8_lt_or_eq_or_gt (a b : UInt8) : a < b ∨ a = b ∨ b < a := by
  by_cases h1 : a < b
  · exact Or.inl h1
  · by_cases h2 : b < a
    · exact Or.inr (Or.inr h2)
    · exact Or.inr (Or.inl (uint8_eq_of_not_lt h1 h2))

theorem lexLt_trans {a b c : Bytes} (h1 : lexLt a b = true) (h2 : lexLt b c = true) : lexLt a c = true := by
  induction a generalizing b c with
  | nil =>
    cases b with
    | nil => simp [lexLt] at h1
    | cons y b => cases c with
      | nil => simp [lexLt] at h2
      | cons z c => simp [lexLt]
  | cons x a ih =>
    cases b with
    | nil => simp [lexLt] at h1
    | cons y b =>
      cases c with
      | nil => simp [lexLt] at h2
      | cons z c =>
        simp only [lexLt] at h1 h2 ⊢
        by_cases hxy : x < y
        · by_cases hyz : y < z
          · simp [uint8_lt_trans hxy hyz]
          · simp only [hyz, if_false] at h2
            by_cases hzy : z < y
            · simp [hzy] at h2
            · have := uint8_eq_of_not_lt hyz hzy; subst this; simp [hxy]
        · simp only [hxy, if_false] at h1
          by_cases hyx : y < x
          · simp [hyx] at h1
          · have := uint8_eq_of_not_lt hxy hyx; subst this
            simp only [hyx, if_false] at h1
            by_cases hxz : x < z
            · simp [hxz]
            · simp only [hxz, if_false] at h2 ⊢
              by_cases hzx : z < x
              · simp [hzx] at h2
              · simp only [hzx, if_false] at h2 ⊢
                exact ih h1 h2

theorem lexLt_asymm {a b : Bytes} (h : lexLt a b = true) : lexLt b a = false := by
  cases hb : lexLt b a with
  | false => rfl
  | true => have := lexLt_trans h hb; simp [lexLt_irrefl] at this

/-- total: distinct strings are ordered one way or the other -/
theorem lexLt_total (a b : Bytes) : lexLt a b = true ∨ a = b ∨ lexLt b a = true := by
  induction a generalizing b with
  | nil => cases b <;> simp [lexLt]
  | cons x a ih =>
    cases b with
    | nil => simp [lexLt]
    | cons y b =>
      simp only [lexLt]
      rcases uint8_lt_or_eq_or_gt x y with h | h | h
      · simp [h]
      · subst h
        simp only [UInt8.lt_irrefl, if_false, List.cons.injEq, true_and]
        exact ih b
      · simp [h, uint8_lt_asymm h]

/-- strings that branch at the same point with bytes `b1 < b2` are ordered -/
theorem lexLt_of_branch (q x y : Bytes) (b1 b2 : UInt8) (hb : b1 < b2)
    (hx : q ++ [b1] <+: x) (hy : q ++ [b2] <+: y) : lexLt x y = true := by
  induction q generalizing x y with
  | nil =>
    obtain ⟨x', rfl⟩ := hx
    obtain ⟨y', rfl⟩ := hy
    simp [lexLt, hb]
  | cons c q ih =>
    cases x with
    | nil => simp at hx
    | cons c1 x =>
      cases y with
      | nil => simp at hy
      | cons c2 y =>
        simp only [List.cons_append, List.cons_prefix_cons] at hx hy
        obtain ⟨h1, h2⟩ := hx
        obtain ⟨h3, h4⟩ := hy
        subst h1; subst h3
        simp only [lexLt, UInt8.lt_irrefl, if_false]
        exact ih x y h2 h4

/-- a proper prefix sorts first -/
theorem lexLt_of_prefix {a b : Bytes} (h : a <+: b) (hne : a ≠ b) : lexLt a b = true := by
  induction a generalizing b with
  | nil => cases b with
    | nil => exact absurd rfl hne
    | cons y b => simp [lexLt]
  | cons x a ih =>
    cases b with
    | nil => simp at h
    | cons y b =>
      simp only [List.cons_prefix_cons] at h
      obtain ⟨h1, h2⟩ := h
      subst h1
      simp only [lexLt, UInt8.lt_irrefl, if_false]
      exact ih h2 (by intro e; exact hne (by rw [e]))

end ArtVerif
