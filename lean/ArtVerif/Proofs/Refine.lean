/-
  Refinement: the tree object (root + size field) under `Insert`/`Delete`/`Search` behaves as an
  ideal map `Bytes → Option V`, for every history whose inserted keys have prefix-free descent keys.
-/
import ArtVerif.Proofs.Delete
namespace ArtVerif
open Gen T

variable {V : Type}

namespace Tree

def items (t : Tree V) : List (Item V) := T.leaves t.root

/-- the abstraction: the map the tree denotes -/
def abs (t : Tree V) : Bytes → Option V :=
  fun k => ((items t).find? (fun it => it.1 = k)).map (·.2.2)

/-- `tf` maps the key compared at the leaves to the key the descent runs on -/
structure Inv (tf : Bytes → Bytes) (t : Tree V) : Prop where
  wf : ∀ r, t.root = some r → WF r []
  size : t.size = (items t).length
  keyed : ∀ it ∈ items t, it.2.1 = tf it.1

theorem items_sorted {tf} {t : Tree V} (h : Inv tf t) : (items t).Pairwise ItemLt := by
  unfold items leaves
  cases hr : t.root with
  | none => simp
  | some r => exact WF.sorted r [] (h.wf r hr)

theorem itemLt_irrefl (a : Item V) : ¬ ItemLt a a := by simp [ItemLt, lexLt_irrefl]

theorem nodup_of_sorted {l : List (Item V)} (h : l.Pairwise ItemLt) : l.Nodup := by
  unfold List.Nodup
  refine List.Pairwise.imp ?_ h
  intro a b hab e
  subst e
  exact itemLt_irrefl a hab

theorem tkey_unique_of_sorted {l : List (Item V)} (hs : l.Pairwise ItemLt) {a b : Item V}
    (ha : a ∈ l) (hb : b ∈ l) (he : a.2.1 = b.2.1) : a = b := by
  induction l with
  | nil => simp at ha
  | cons x l ih =>
    simp only [List.pairwise_cons] at hs
    cases ha with
    | head =>
      cases hb with
      | head => rfl
      | tail _ hb' => have := hs.1 b hb'; simp [ItemLt, he, lexLt_irrefl] at this
    | tail _ ha' =>
      cases hb with
      | head => have := hs.1 a ha'; simp [ItemLt, ← he, lexLt_irrefl] at this
      | tail _ hb' => exact ih hs.2 ha' hb'

theorem key_unique {tf} {t : Tree V} (h : Inv tf t) {a b : Item V}
    (ha : a ∈ items t) (hb : b ∈ items t) (he : a.1 = b.1) : a = b :=
  tkey_unique_of_sorted (items_sorted h) ha hb (by rw [h.keyed a ha, h.keyed b hb, he])

theorem abs_eq_some_iff {tf} {t : Tree V} (h : Inv tf t) (k : Bytes) (v : V) :
    abs t k = some v ↔ (k, tf k, v) ∈ items t := by
  unfold abs
  constructor
  · intro hv
    cases hf : (items t).find? (fun it => it.1 = k) with
    | none => simp [hf] at hv
    | some it =>
      simp [hf] at hv
      have hm := List.mem_of_find?_eq_some hf
      have hk : it.1 = k := by simpa using List.find?_some hf
      have htk := h.keyed it hm
      obtain ⟨a, b, c⟩ := it
      simp at hk hv htk; subst hk; subst hv; subst htk; exact hm
  · intro hm
    cases hf : (items t).find? (fun it => it.1 = k) with
    | none =>
      have := List.find?_eq_none.mp hf _ hm
      simp at this
    | some it =>
      have hm' := List.mem_of_find?_eq_some hf
      have hk : it.1 = k := by simpa using List.find?_some hf
      have := key_unique h hm' hm hk
      subst this; simp

theorem abs_eq_none_iff {tf} {t : Tree V} (h : Inv tf t) (k : Bytes) :
    abs t k = none ↔ ∀ it ∈ items t, it.1 ≠ k := by
  unfold abs
  simp only [Option.map_eq_none_iff, List.find?_eq_none, decide_eq_true_eq]

/-- `Search` returns exactly what the denoted map holds -/
theorem search_eq {tf} {t : Tree V} (h : Inv tf t) (k : Bytes) : t.search (tf k) k = abs t k := by
  cases hs : t.search (tf k) k with
  | some v =>
    symm
    rw [abs_eq_some_iff h]
    unfold search at hs
    cases hr : t.root with
    | none => simp [hr] at hs
    | some r =>
      simp only [hr] at hs
      obtain ⟨tk', hm⟩ := search_sound _ r _ _ _ v hs
      have hm' : (k, tk', v) ∈ items t := by simp [items, leaves, hr, hm]
      have := h.keyed _ hm'
      simp at this; subst this; exact hm'
  | none =>
    symm
    rw [abs_eq_none_iff h]
    intro it hit hk
    unfold search at hs
    cases hr : t.root with
    | none => simp [items, leaves, hr] at hit
    | some r =>
      simp only [hr] at hs
      have hit' : it ∈ inorder r := by simpa [items, leaves, hr] using hit
      have htk := h.keyed it hit
      obtain ⟨a, b, c⟩ := it
      simp at hk htk; subst hk; subst htk
      have := search_complete (fuelFor (tf a)) r [] (tf a) a c (h.wf r hr) hit' (by simp [fuelFor])
      simp at this
      rw [this] at hs; simp at hs

/-! ### counting -/

theorem length_le_one_of_all_eq {α} {l : List α} (hn : l.Nodup) (a : α) (h : ∀ x ∈ l, x = a) : l.length ≤ 1 := by
  match l with
  | [] => simp
  | [_] => simp
  | x :: y :: rest =>
    have hx := h x (by simp)
    have hy := h y (by simp)
    simp only [List.nodup_cons] at hn
    exact absurd (by rw [hx, hy]; simp) hn.1

theorem filter_ne_length {l : List (Item V)} (hs : l.Pairwise ItemLt) (k : Bytes)
    (huniq : ∀ a ∈ l, ∀ b ∈ l, a.1 = k → b.1 = k → a = b) :
    (l.filter (fun it => it.1 ≠ k)).length + (if ∀ it ∈ l, it.1 ≠ k then 0 else 1) = l.length := by
  have hsplit := List.length_eq_countP_add_countP (fun it : Item V => decide (it.1 ≠ k)) (l := l)
  rw [List.countP_eq_length_filter, List.countP_eq_length_filter] at hsplit
  by_cases hall : ∀ it ∈ l, it.1 ≠ k
  · rw [if_pos hall]
    have : l.filter (fun it => decide (it.1 ≠ k)) = l := List.filter_eq_self.mpr (by simpa using hall)
    rw [this]; simp
  · rw [if_neg hall]
    have hex : ∃ a ∈ l, a.1 = k := by
      apply Classical.byContradiction
      intro hne
      apply hall
      intro it hit hk
      exact hne ⟨it, hit, hk⟩
    obtain ⟨a, ha, hak⟩ := hex
    have hle : (l.filter (fun it => decide ¬ decide (it.1 ≠ k) = true)).length ≤ 1 := by
      refine length_le_one_of_all_eq (List.Nodup.sublist List.filter_sublist (nodup_of_sorted hs)) a ?_
      intro x hx
      simp only [List.mem_filter] at hx
      exact huniq x hx.1 a ha (by simpa using hx.2) hak
    have hge : 1 ≤ (l.filter (fun it => decide ¬ decide (it.1 ≠ k) = true)).length := by
      have : a ∈ l.filter (fun it => decide ¬ decide (it.1 ≠ k) = true) := by
        simp only [List.mem_filter]; exact ⟨ha, by simpa using hak⟩
      exact List.length_pos_of_mem this
    omega

theorem length_of_mem_iff {l l' : List (Item V)} (hs : l.Pairwise ItemLt) (hs' : l'.Pairwise ItemLt)
    (hmem : ∀ x, x ∈ l' ↔ x ∈ l) : l'.length = l.length :=
  ((List.perm_ext_iff_of_nodup (nodup_of_sorted hs') (nodup_of_sorted hs)).mpr hmem).length_eq

/-- size bookkeeping of an upsert -/
theorem length_upsert {l l' : List (Item V)} (hs : l.Pairwise ItemLt) (hs' : l'.Pairwise ItemLt)
    (new : Item V) (hmem : ∀ x, x ∈ l' ↔ x = new ∨ (x ∈ l ∧ x.1 ≠ new.1))
    (huniq : ∀ a ∈ l, ∀ b ∈ l, a.1 = new.1 → b.1 = new.1 → a = b) :
    l'.length = (if ∀ it ∈ l, it.1 ≠ new.1 then l.length + 1 else l.length) := by
  have hn' := nodup_of_sorted hs'
  have hnf : (new :: l.filter (fun it => it.1 ≠ new.1)).Nodup := by
    simp only [List.nodup_cons, List.mem_filter]
    exact ⟨by simp, List.Nodup.sublist List.filter_sublist (nodup_of_sorted hs)⟩
  have hp : List.Perm l' (new :: l.filter (fun it => it.1 ≠ new.1)) := by
    rw [List.perm_ext_iff_of_nodup hn' hnf]
    intro x
    rw [hmem]
    simp only [List.mem_cons, List.mem_filter, decide_eq_true_eq]
  have := hp.length_eq
  have hc := filter_ne_length hs new.1 huniq
  simp only [List.length_cons] at this
  by_cases hall : ∀ it ∈ l, it.1 ≠ new.1
  · rw [if_pos hall] at hc ⊢; omega
  · rw [if_neg hall] at hc ⊢; omega

theorem length_erase {l l' : List (Item V)} (hs : l.Pairwise ItemLt) (hs' : l'.Pairwise ItemLt)
    (k : Bytes) (hmem : ∀ x, x ∈ l' ↔ (x ∈ l ∧ x.1 ≠ k))
    (huniq : ∀ a ∈ l, ∀ b ∈ l, a.1 = k → b.1 = k → a = b) :
    l'.length + (if ∀ it ∈ l, it.1 ≠ k then 0 else 1) = l.length := by
  have hp : List.Perm l' (l.filter (fun it => it.1 ≠ k)) := by
    rw [List.perm_ext_iff_of_nodup (nodup_of_sorted hs') (List.Nodup.sublist List.filter_sublist (nodup_of_sorted hs))]
    intro x
    rw [hmem]
    simp only [List.mem_filter, decide_eq_true_eq]
  rw [hp.length_eq]
  exact filter_ne_length hs k huniq

/-! ### the three operations on the tree object -/

/-- the new key's descent key is prefix-free against the stored ones -/
def PFree (tf : Bytes → Bytes) (k : Bytes) (l : List (Item V)) : Prop :=
  ∀ it ∈ l, (tf k <+: tf it.1 ∨ tf it.1 <+: tf k) → it.1 = k

theorem compat_of_pfree {tf} {t : Tree V} (h : Inv tf t) {k : Bytes} (hpf : PFree tf k (items t)) :
    Compat k (tf k) (items t) := by
  intro it hit
  refine ⟨fun hk => by rw [h.keyed it hit, hk], fun hpre => hpf it hit ?_⟩
  rw [← h.keyed it hit]; exact hpre

theorem insert_items {tf} {t : Tree V} (h : Inv tf t) (k : Bytes) (v : V) (hpf : PFree tf k (items t)) :
    Inv tf (t.insert (tf k) k v) ∧
    (∀ x, x ∈ items (t.insert (tf k) k v) ↔ x = (k, tf k, v) ∨ (x ∈ items t ∧ x.1 ≠ k)) := by
  have hcompat := compat_of_pfree h hpf
  have huniq : ∀ a ∈ items t, ∀ b ∈ items t, a.1 = k → b.1 = k → a = b :=
    fun a ha b hb h1 h2 => key_unique h ha hb (h1.trans h2.symm)
  cases hr : t.root with
  | none =>
    have hi : items t = [] := by simp [items, leaves, hr]
    have hmem : ∀ x, x ∈ items (t.insert (tf k) k v) ↔ x = (k, tf k, v) ∨ (x ∈ items t ∧ x.1 ≠ k) := by
      intro x; simp [Tree.insert, hr, items, leaves, inorder]
    refine ⟨⟨?_, ?_, ?_⟩, hmem⟩
    · intro r hr'; simp [Tree.insert, hr] at hr'; subst hr'; exact WF.leaf (by simp)
    · have := h.size; simp [Tree.insert, hr, items, leaves, inorder] at this ⊢; omega
    · intro it hit; simp [Tree.insert, hr, items, leaves, inorder] at hit; subst hit; rfl
  | some r =>
    have hit : items t = inorder r := by simp [items, leaves, hr]
    have hspec := insert_spec (fuelFor (tf k)) r [] (tf k) k v (h.wf r hr) (by simp) (hit ▸ hcompat) (by simp [fuelFor])
    simp only [List.length_nil] at hspec
    obtain ⟨hw, hmem, hflag⟩ := hspec
    have hitems' : items (t.insert (tf k) k v) = inorder (T.insert (fuelFor (tf k)) r (tf k) k v 0).1 := by
      simp [Tree.insert, hr, items, leaves]
    have hmem' : ∀ x, x ∈ items (t.insert (tf k) k v) ↔ x = (k, tf k, v) ∨ (x ∈ items t ∧ x.1 ≠ k) := by
      intro x; rw [hitems', hit]; exact hmem x
    refine ⟨⟨?_, ?_, ?_⟩, hmem'⟩
    · intro r' hr'; simp [Tree.insert, hr] at hr'; subst hr'; exact hw
    · have hlen := length_upsert (items_sorted h) (WF.sorted _ [] hw) (k, tf k, v)
        (by intro x; rw [hit]; exact hmem x) huniq
      have hsz := h.size
      have hil : ∀ sz, (items ({ root := some (T.insert (fuelFor (tf k)) r (tf k) k v 0).1, size := sz } : Tree V)).length
          = (inorder (T.insert (fuelFor (tf k)) r (tf k) k v 0).1).length := by
        intro sz; simp [items, leaves]
      simp only [Tree.insert, hr, hil]
      by_cases hall : ∀ it ∈ items t, it.1 ≠ k
      · have hf : (T.insert (fuelFor (tf k)) r (tf k) k v 0).2 = true := hflag.mpr (hit ▸ hall)
        simp only [hf, if_true]
        rw [if_pos hall] at hlen
        omega
      · have hf : (T.insert (fuelFor (tf k)) r (tf k) k v 0).2 = false := by
          cases hb : (T.insert (fuelFor (tf k)) r (tf k) k v 0).2 with
          | false => rfl
          | true => exact absurd (hit ▸ hflag.mp hb) hall
        simp only [hf, Bool.false_eq_true, if_false]
        rw [if_neg hall] at hlen
        omega
    · intro it hit'
      rcases (hmem' it).mp hit' with h1 | ⟨h1, _⟩
      · subst h1; rfl
      · exact h.keyed it h1

theorem delete_items {tf} {t : Tree V} (h : Inv tf t) (k : Bytes) :
    Inv tf (t.delete (tf k) k).1 ∧
    (∀ x, x ∈ items (t.delete (tf k) k).1 ↔ (x ∈ items t ∧ x.1 ≠ k)) ∧
    ((t.delete (tf k) k).2 = true ↔ ∃ it ∈ items t, it.1 = k) := by
  have hfun : T.Fun k (tf k) (items t) := fun it hit hk => by rw [h.keyed it hit, hk]
  have huniq : ∀ a ∈ items t, ∀ b ∈ items t, a.1 = k → b.1 = k → a = b :=
    fun a ha b hb h1 h2 => key_unique h ha hb (h1.trans h2.symm)
  -- a common finishing step: from the membership characterisation to the invariant
  have finish : ∀ (t' : Tree V), (∀ r, t'.root = some r → WF r []) →
      (∀ x, x ∈ items t' ↔ (x ∈ items t ∧ x.1 ≠ k)) → (∃ it ∈ items t, it.1 = k) → t'.size = t.size - 1 →
      Inv tf t' := by
    intro t' hw hm hex hsz
    have hs' : (items t').Pairwise ItemLt := by
      unfold items leaves
      cases hr' : t'.root with
      | none => simp
      | some r' => exact WF.sorted r' [] (hw r' hr')
    refine ⟨hw, ?_, fun it hit => h.keyed it ((hm it).mp hit).1⟩
    have hlen := length_erase (items_sorted h) hs' k hm huniq
    have hnall : ¬ ∀ it ∈ items t, it.1 ≠ k := by
      obtain ⟨it, hit, hk⟩ := hex
      exact fun hall => hall it hit hk
    rw [if_neg hnall] at hlen
    have := h.size
    omega
  cases hr : t.root with
  | none =>
    have hi : items t = [] := by simp [items, leaves, hr]
    simp only [Tree.delete, hr]
    exact ⟨h, by intro x; simp [hi], by simp [hi]⟩
  | some r =>
    have hit : items t = inorder r := by simp [items, leaves, hr]
    cases r with
    | leaf lk ltk lv =>
      simp only [Tree.delete, hr]
      by_cases hk : lk = k
      · subst hk
        simp only [if_true]
        have hm : ∀ x, x ∈ items ({ root := none, size := t.size - 1 } : Tree V) ↔ (x ∈ items t ∧ x.1 ≠ lk) := by
          intro x
          constructor
          · intro hx; simp [items, leaves] at hx
          · rintro ⟨hx, hne⟩
            rw [hit] at hx
            simp only [inorder, List.mem_singleton] at hx
            subst hx; exact absurd rfl hne
        refine ⟨finish _ (by intro r hr'; simp at hr') hm ⟨(lk, ltk, lv), by simp [hit, inorder], rfl⟩ rfl, hm, ?_⟩
        simp [hit, inorder]
      · simp only [hk, if_false]
        refine ⟨h, ?_, ?_⟩
        · intro x; simp only [hit, inorder, List.mem_singleton]
          constructor
          · intro hx; subst hx; exact ⟨rfl, hk⟩
          · exact fun hx => hx.1
        · simp [hit, inorder, hk]
    | node kind plen inl ch =>
      have hspec := deleteNode_spec (fuelFor (tf k)) kind plen inl ch [] (tf k) k (h.wf _ hr) (hit ▸ hfun) (by simp [fuelFor])
      simp only [List.length_nil] at hspec
      simp only [Tree.delete, hr]
      cases hd : deleteNode (fuelFor (tf k)) (node kind plen inl ch) (tf k) k 0 with
      | none =>
        rw [hd] at hspec
        simp only [DelOK] at hspec
        refine ⟨h, ?_, ?_⟩
        · intro x; rw [hit]; exact ⟨fun hx => ⟨hx, hspec x hx⟩, fun hx => hx.1⟩
        · simp only [Bool.false_eq_true, false_iff, not_exists, not_and]
          intro it hit'; exact hspec it (hit ▸ hit')
      | some r' =>
        rw [hd] at hspec
        simp only [DelOK] at hspec
        obtain ⟨hw, hm, hex⟩ := hspec
        have hm' : ∀ x, x ∈ items ({ root := some r', size := t.size - 1 } : Tree V) ↔ (x ∈ items t ∧ x.1 ≠ k) := by
          intro x; rw [hit]; simpa [items, leaves] using hm x
        refine ⟨finish _ (by intro r hr'; simp at hr'; subst hr'; exact hw) hm' (hit ▸ hex) rfl, hm', ?_⟩
        simp only [true_iff]; exact hit ▸ hex

/-! ### effect on the denoted map -/

theorem option_ext {α} {a b : Option α} (h : ∀ w, a = some w ↔ b = some w) : a = b := by
  cases a with
  | none => cases b with
    | none => rfl
    | some y => exact absurd ((h y).mpr rfl) (by simp)
  | some x => exact ((h x).mp rfl).symm

theorem abs_insert {tf} {t : Tree V} (h : Inv tf t) (k : Bytes) (v : V) (hpf : PFree tf k (items t)) :
    abs (t.insert (tf k) k v) = fun x => if x = k then some v else abs t x := by
  obtain ⟨hinv, hmem⟩ := insert_items h k v hpf
  funext x
  apply option_ext
  intro w
  rw [abs_eq_some_iff hinv, hmem]
  by_cases hx : x = k
  · subst hx
    simp only [if_true, Prod.mk.injEq, true_and, ne_eq, not_true_eq_false, and_false, or_false, Option.some.injEq]
    exact ⟨fun h => h.symm, fun h => h.symm⟩
  · simp only [hx, if_false, Prod.mk.injEq, false_and, ne_eq, not_false_eq_true, and_true, false_or]
    exact (abs_eq_some_iff h x w).symm

theorem abs_delete {tf} {t : Tree V} (h : Inv tf t) (k : Bytes) :
    abs (t.delete (tf k) k).1 = (fun x => if x = k then none else abs t x) ∧
    (t.delete (tf k) k).2 = (abs t k).isSome := by
  obtain ⟨hinv, hmem, hflag⟩ := delete_items h k
  constructor
  · funext x
    apply option_ext
    intro w
    rw [abs_eq_some_iff hinv, hmem]
    by_cases hx : x = k
    · subst hx; simp
    · simp only [hx, if_false, ne_eq, not_false_eq_true, and_true]
      exact (abs_eq_some_iff h x w).symm
  · cases hb : (t.delete (tf k) k).2 with
    | true =>
      obtain ⟨it, hit, hk⟩ := hflag.mp hb
      cases ha : abs t k with
      | none => exact absurd hk ((abs_eq_none_iff h k).mp ha it hit)
      | some w => rfl
    | false =>
      cases ha : abs t k with
      | none => rfl
      | some w =>
        have := (abs_eq_some_iff h k w).mp ha
        have : (t.delete (tf k) k).2 = true := hflag.mpr ⟨_, this, rfl⟩
        rw [hb] at this; exact absurd this (by simp)

/-- `Size()` is the number of stored keys -/
theorem size_insert {tf} {t : Tree V} (h : Inv tf t) (k : Bytes) (v : V) (hpf : PFree tf k (items t)) :
    (t.insert (tf k) k v).size = if abs t k = none then t.size + 1 else t.size := by
  cases hr : t.root with
  | none =>
    have : abs t k = none := by simp [abs, items, leaves, hr]
    simp [Tree.insert, hr, this]
  | some r =>
    have hit : items t = inorder r := by simp [items, leaves, hr]
    have hspec := insert_spec (fuelFor (tf k)) r [] (tf k) k v (h.wf r hr) (by simp)
      (hit ▸ compat_of_pfree h hpf) (by simp [fuelFor])
    simp only [List.length_nil] at hspec
    obtain ⟨_, _, hflag⟩ := hspec
    simp only [Tree.insert, hr]
    by_cases ha : abs t k = none
    · have := hflag.mpr (hit ▸ (abs_eq_none_iff h k).mp ha)
      simp [this, ha]
    · have : (T.insert (fuelFor (tf k)) r (tf k) k v 0).2 = false := by
        cases hb : (T.insert (fuelFor (tf k)) r (tf k) k v 0).2 with
        | false => rfl
        | true => exact absurd ((abs_eq_none_iff h k).mpr (hit ▸ hflag.mp hb)) ha
      simp [this, ha]

theorem size_delete {tf : Bytes → Bytes} {t : Tree V} (k : Bytes) :
    (t.delete (tf k) k).1.size = if (t.delete (tf k) k).2 then t.size - 1 else t.size := by
  unfold Tree.delete
  cases t.root with
  | none => simp
  | some r =>
    cases r with
    | leaf lk ltk lv => by_cases hk : lk = k <;> simp [hk]
    | node kind plen inl ch =>
      cases hd : deleteNode (fuelFor (tf k)) (node kind plen inl ch) (tf k) k 0 with
      | none => simp only [hd]; simp
      | some r' => simp only [hd]; simp

end Tree
end ArtVerif
