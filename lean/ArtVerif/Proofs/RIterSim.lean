/-
  The iterators over raw nodes (Model/RIter.lean) simulate the iterators of Layer T (Model/Iter.lean).

    A. the per-class loops: on a node satisfying `Raw.inv`, `pushAsc` appends exactly the children of `abs` in
       ascending byte order (never a nil reference) and `pushDesc` the same in descending order
    B. `allLoop_sim`, `backLoop_sim`, `rangeLoop_sim`: the stack loops run in lockstep with those of Layer T on
       the abstraction and never fault
    C. `lcp_sim`: `lowestCommonParent`
    D. fuel: `RT.nodes` counts the nodes of the abstraction
    E. the tree object: `rtree_all_sim` … `rtree_prefix_sim`

  Kernel-only (no decision procedure is called here; SWAR facts come in through `Proofs/RawNodes`).
-/
import ArtVerif.Model.RIter
import ArtVerif.Proofs.RSim
import ArtVerif.Proofs.Iter
import ArtVerif.Model.Api
namespace ArtVerif
open Gen Swar

/-! ## A. the per-class loops -/
namespace Raw
variable {C : Type}

theorem pushDesc_eq (r : Raw C) : r.pushDesc = r.pushAsc.reverse := by
  cases r <;> simp [pushDesc, pushAsc, List.map_reverse, List.filterMap_reverse]

theorem range_map_join (slots : List (Option C)) (n : Nat) (hn : n ≤ slots.length) :
    (List.range n).map (fun i => (slots[i]?).join) = slots.take n := by
  apply List.ext_getElem
  · simp [Nat.min_eq_left hn]
  · intro i h1 h2
    simp only [List.length_map, List.length_range] at h1
    simp only [List.getElem_map, List.getElem_range, List.getElem_take]
    rw [List.getElem?_eq_getElem (by omega)]
    rfl

theorem pushAsc_eq (r : Raw C) (hinv : r.inv = true) : r.pushAsc = r.abs.map (fun p => some p.2) := by
  cases r with
  | n4 h len keys slots =>
    obtain ⟨_, hs, hl, _, _, _⟩ := (inv4_iff h len keys slots).1 hinv
    obtain ⟨L, hrep, habs, _⟩ := inv4_rep hinv
    rw [habs]
    simp only [pushAsc]
    rw [range_map_join slots len (by omega), hrep.2.1]
  | n16 h len keys slots =>
    obtain ⟨_, hs, _, hl, _, _, _⟩ := (inv16_iff h len keys slots).1 hinv
    obtain ⟨L, hrep, habs, _⟩ := inv16_rep hinv
    rw [habs]
    simp only [pushAsc]
    rw [range_map_join slots len (by omega), hrep.2.1]
  | n48 h len idx slots =>
    obtain ⟨_, _, _, hI⟩ := (inv48_iff h len idx slots).1 hinv
    rw [abs48_eq]
    simp only [pushAsc, absF, List.map_filterMap]
    apply filterMap_congr'
    intro i hi
    have hi256 : i < 256 := List.mem_range.1 hi
    simp only [look48]
    by_cases hp : (idx.getD i 0 != 0) = true
    · simp only [hp, if_true]
      have hmem : idx.getD i 0 ∈ idx := by
        rw [List.getD_eq_getElem?_getD, List.getElem?_eq_getElem (by rw [hI.hi]; exact hi256)]
        exact List.getElem_mem _
      have hne : idx.getD i 0 ≠ 0 := by simpa using hp
      obtain ⟨c, hc⟩ := Option.isSome_iff_exists.1 (hI.hvalid _ hmem hne).2
      rw [hc]
      rfl
    · simp only [hp]
      rfl
  | n256 h len slots =>
    rw [abs256_eq]
    simp only [pushAsc, absF, List.map_filterMap]
    apply filterMap_congr'
    intro i _
    simp only [look256]
    cases (slots[i]?).join <;> rfl

end Raw

end ArtVerif

/-! ## B. the stack loops -/
namespace ArtVerif.RIterSim
open ArtVerif Gen Raw Compose RT RSim
variable {V σ : Type}

/-- all stack entries are trees whose raw nodes satisfy the invariant (height at most `h`) -/
def GoodStack (h : Nat) (stk : List (RT V)) : Prop := ∀ t ∈ stk, good h t = true

theorem children_good {h : Nat} {r : Raw (RT V)} (hg : good (h + 1) (.node r) = true) :
    (∀ p ∈ r.abs, good (h + 1) p.2 = true) ∧
    r.abs.map (fun p => absRT (h + 1) p.2) = r.abs.map (fun p => absRT h p.2) := by
  obtain ⟨_, hch⟩ := (good_node_iff h r).1 hg
  refine ⟨fun p hp => (good_succ h p.2 (hch p hp)).1, ?_⟩
  apply List.map_congr_left
  intro p hp
  exact (good_succ h p.2 (hch p hp)).2

theorem absRT_node_children (h : Nat) (r : Raw (RT V)) :
    (mapCh (absRT h) r.abs).map (·.2) = r.abs.map (fun p => absRT h p.2) := by
  simp [mapCh, List.map_map, Function.comp_def]

theorem allLoop_sim (pred : T.Item V → Bool) (f : T.Yield σ V) :
    ∀ (fuel : Nat) (stk : List (RT V)) (s : σ) (h : Nat), GoodStack h stk →
      RT.allLoop pred f fuel (stk.map some) s = some (T.allLoop pred f fuel (stk.map (absRT h)) s) := by
  intro fuel
  induction fuel with
  | zero => intro stk s h _; rfl
  | succ fuel ih =>
    intro stk s h hg
    cases stk with
    | nil => rfl
    | cons t rest =>
      have hrest : GoodStack h rest := fun x hx => hg x (List.mem_cons_of_mem _ hx)
      cases t with
      | leaf k tk v =>
        simp only [List.map_cons, absRT_leaf, RT.allLoop, T.allLoop]
        by_cases hp : pred (k, tk, v) = true
        · simp only [hp, if_true]
          rcases hf : f s (k, tk, v) with ⟨s', b⟩
          cases b
          · rfl
          · exact ih rest s' h hrest
        · simp only [hp]
          exact ih rest s h hrest
      | node r =>
        cases h with
        | zero => exact absurd (hg _ List.mem_cons_self) (by simp [good])
        | succ h =>
          have hgr := hg _ List.mem_cons_self
          have hinv := ((good_node_iff h r).1 hgr).1
          obtain ⟨hch, habs⟩ := children_good hgr
          simp only [List.map_cons, absRT_node, RT.allLoop, T.allLoop]
          rw [pushDesc_eq, List.reverse_reverse, pushAsc_eq r hinv, absRT_node_children, ← habs]
          have hstack : GoodStack (h + 1) (r.abs.map (·.2) ++ rest) := by
            intro x hx
            rcases List.mem_append.1 hx with hx | hx
            · obtain ⟨p, hp, rfl⟩ := List.mem_map.1 hx
              exact hch p hp
            · exact hrest x hx
          have := ih (r.abs.map (·.2) ++ rest) s (h + 1) hstack
          simpa [List.map_append, List.map_map, Function.comp_def] using this

theorem backLoop_sim (f : T.Yield σ V) :
    ∀ (fuel : Nat) (stk : List (RT V)) (s : σ) (h : Nat), GoodStack h stk →
      RT.backLoop f fuel (stk.map some) s = some (T.backLoop f fuel (stk.map (absRT h)) s) := by
  intro fuel
  induction fuel with
  | zero => intro stk s h _; rfl
  | succ fuel ih =>
    intro stk s h hg
    cases stk with
    | nil => rfl
    | cons t rest =>
      have hrest : GoodStack h rest := fun x hx => hg x (List.mem_cons_of_mem _ hx)
      cases t with
      | leaf k tk v =>
        simp only [List.map_cons, absRT_leaf, RT.backLoop, T.backLoop]
        rcases hf : f s (k, tk, v) with ⟨s', b⟩
        cases b
        · rfl
        · exact ih rest s' h hrest
      | node r =>
        cases h with
        | zero => exact absurd (hg _ List.mem_cons_self) (by simp [good])
        | succ h =>
          have hgr := hg _ List.mem_cons_self
          have hinv := ((good_node_iff h r).1 hgr).1
          obtain ⟨hch, habs⟩ := children_good hgr
          simp only [List.map_cons, absRT_node, RT.backLoop, T.backLoop]
          rw [pushAsc_eq r hinv, absRT_node_children, ← habs]
          have hstack : GoodStack (h + 1) ((r.abs.map (·.2)).reverse ++ rest) := by
            intro x hx
            rcases List.mem_append.1 hx with hx | hx
            · obtain ⟨p, hp, rfl⟩ := List.mem_map.1 (List.mem_reverse.1 hx)
              exact hch p hp
            · exact hrest x hx
          have := ih ((r.abs.map (·.2)).reverse ++ rest) s (h + 1) hstack
          simpa [List.map_append, List.map_map, List.map_reverse, Function.comp_def] using this

/-- stack entries of `rangeScan` -/
def GoodStackD (h : Nat) (stk : List (RT V × Nat)) : Prop := ∀ e ∈ stk, good h e.1 = true

theorem rangeLoop_sim (start stop search : Bytes) (f : T.Yield σ V) :
    ∀ (fuel : Nat) (stk : List (RT V × Nat)) (s : σ) (h : Nat), GoodStackD h stk →
      RT.rangeLoop start stop search f fuel (stk.map fun e => (some e.1, e.2)) s =
        some (T.rangeLoop start stop search f fuel (stk.map fun e => (absRT h e.1, e.2)) s) := by
  intro fuel
  induction fuel with
  | zero => intro stk s h _; rfl
  | succ fuel ih =>
    intro stk s h hg
    cases stk with
    | nil => rfl
    | cons e rest =>
      obtain ⟨t, d⟩ := e
      have hrest : GoodStackD h rest := fun x hx => hg x (List.mem_cons_of_mem _ hx)
      cases t with
      | leaf k tk v =>
        simp only [List.map_cons, absRT_leaf, RT.rangeLoop, T.rangeLoop]
        by_cases h1 : lexLt k start = true
        · simp only [h1, if_true]; exact ih rest s h hrest
        · simp only [h1]
          by_cases h2 : lexLt stop k = true
          · simp only [h2, if_true]; rfl
          · simp only [h2]
            rcases hf : f s (k, tk, v) with ⟨s', b⟩
            cases b
            · rfl
            · exact ih rest s' h hrest
      | node r =>
        cases h with
        | zero => exact absurd (hg _ List.mem_cons_self) (by simp [good])
        | succ h =>
          have hgr : good (h + 1) (.node r) = true := hg (.node r, d) List.mem_cons_self
          have hinv := ((good_node_iff h r).1 hgr).1
          obtain ⟨hch, habs⟩ := children_good hgr
          simp only [List.map_cons, absRT_node, RT.rangeLoop, T.rangeLoop]
          split
          · exact ih rest s (h + 1) hrest
          · rw [pushDesc_eq, List.reverse_reverse, pushAsc_eq r hinv]
            have hstack : GoodStackD (h + 1) ((r.abs.map fun p => (p.2, d + r.hdr.plen + 1)) ++ rest) := by
              intro x hx
              rcases List.mem_append.1 hx with hx | hx
              · obtain ⟨p, hp, rfl⟩ := List.mem_map.1 hx
                exact hch p hp
              · exact hrest x hx
            have := ih ((r.abs.map fun p => (p.2, d + r.hdr.plen + 1)) ++ rest) s (h + 1) hstack
            have hT : (mapCh (absRT h) r.abs).map (fun bc => (bc.2, d + r.hdr.plen + 1)) =
                r.abs.map (fun p => (absRT (h + 1) p.2, d + r.hdr.plen + 1)) := by
              simp only [mapCh, List.map_map, Function.comp_def]
              apply List.map_congr_left
              intro p hp
              have hgp := ((good_node_iff h r).1 hgr).2 p hp
              rw [(good_succ h p.2 hgp).2]
            rw [hT]
            simpa [List.map_append, List.map_map, Function.comp_def] using this

/-! ## C. `lowestCommonParent` -/

theorem lcp_sim : ∀ (fuel h hf : Nat) (t : RT V) (p : Bytes) (d : Nat), good h t = true → h ≤ hf →
    (RT.lowestCommonParent hf fuel t p d).map (absRT h) = T.lowestCommonParent fuel (absRT h t) p d ∧
    (∀ t', RT.lowestCommonParent hf fuel t p d = some t' → good h t' = true) := by
  intro fuel
  induction fuel with
  | zero => intro h hf t p d _ _; exact ⟨rfl, fun _ h => by cases h⟩
  | succ fuel ih =>
    intro h hf t p d hg hle
    cases t with
    | leaf k tk v =>
      refine ⟨?_, ?_⟩
      · simp only [RT.lowestCommonParent, absRT_leaf, T.lowestCommonParent, Option.map_some]
      · intro t' ht'
        simp only [RT.lowestCommonParent, Option.some.injEq] at ht'
        subst ht'; exact hg
    | node r =>
      cases h with
      | zero => cases hg
      | succ h =>
        have hinv := ((good_node_iff h r).1 hg).1
        have hmin : RT.minTKey hf (.node r) = T.minTKey (absRT (h + 1) (.node r)) := minTKey_sim (h + 1) hf (.node r) hg hle
        rw [absRT_node] at hmin ⊢
        simp only [RT.lowestCommonParent, T.lowestCommonParent, hmin]
        generalize (if r.hdr.plen ≠ 0 then T.prefixMismatch r.hdr.plen (inlOf r.hdr)
          (T.minTKey (T.node (kindOf r) r.hdr.plen (inlOf r.hdr) (mapCh (absRT h) r.abs))) p d else 0) = idx
        by_cases c1 : r.hdr.plen ≠ 0 ∧ d + idx ≥ p.length
        · simp only [if_pos c1]
          exact ⟨by rw [Option.map_some, absRT_node], fun t' ht' => by cases ht'; exact hg⟩
        · simp only [if_neg c1]
          by_cases c2 : r.hdr.plen ≠ 0 ∧ idx < r.hdr.plen
          · simp only [if_pos c2]
            exact ⟨rfl, fun _ h => by cases h⟩
          · simp only [if_neg c2]
            cases hpd : p[d + r.hdr.plen]? with
            | none => exact ⟨by rw [Option.map_some, absRT_node], fun t' ht' => by cases ht'; exact hg⟩
            | some b =>
              simp only [find_mapCh (absRT h) r hinv b]
              cases hfd : r.find b with
              | none => exact ⟨rfl, fun _ h => by cases h⟩
              | some c =>
                have hgc := good_child hg hfd
                obtain ⟨e1, e2⟩ := ih h hf c p (d + r.hdr.plen + 1) hgc (by omega)
                simp only [Option.map_some]
                refine ⟨?_, fun t' ht' => (good_succ h t' (e2 t' ht')).1⟩
                rw [← e1]
                cases hres : RT.lowestCommonParent hf fuel c p (d + r.hdr.plen + 1) with
                | none => rfl
                | some t' => simp only [Option.map_some, (good_succ h t' (e2 t' hres)).2]

/-! ## D. fuel -/

theorem nodes_eq : ∀ (h : Nat) (t : RT V), good h t = true → RT.nodes h t = T.nodes (absRT h t) := by
  intro h
  induction h with
  | zero =>
    intro t hg
    cases t with
    | leaf k tk v => rfl
    | node r => cases hg
  | succ h ih =>
    intro t hg
    cases t with
    | leaf k tk v => rfl
    | node r =>
      obtain ⟨_, hch⟩ := (good_node_iff h r).1 hg
      rw [absRT_node]
      simp only [RT.nodes, T.nodes, T.nodesL_eq, mapCh, List.map_map, Function.comp_def]
      congr 2
      apply List.map_congr_left
      intro p hp
      exact ih p.2 (hch p hp)

/-! ## E. the tree object -/
open RTree

theorem stackFuel_eq (r : RT V) (hg : good r.height r = true) :
    stackFuel r = T.stackFuel (absRT r.height r) := by
  simp only [stackFuel, T.stackFuel, nodes_eq _ r hg]

theorem rtree_all_sim (t : RTree V) (hg : t.Good) (f : T.Yield σ V) (s : σ) :
    t.all f s = some (T.all t.abs.root f s) := by
  cases hr : t.root with
  | none => simp [all, RTree.abs, T.all, hr]
  | some r =>
    have hgr := hg r hr
    simp only [all, RTree.abs, T.all, hr, Option.map_some, stackFuel_eq r hgr]
    exact allLoop_sim _ f _ [r] s r.height (fun x hx => by simp at hx; subst hx; exact hgr)

theorem rtree_backward_sim (t : RTree V) (hg : t.Good) (f : T.Yield σ V) (s : σ) :
    t.backward f s = some (T.backward t.abs.root f s) := by
  cases hr : t.root with
  | none => simp [backward, RTree.abs, T.backward, hr]
  | some r =>
    have hgr := hg r hr
    simp only [backward, RTree.abs, T.backward, hr, Option.map_some, stackFuel_eq r hgr]
    exact backLoop_sim f _ [r] s r.height (fun x hx => by simp at hx; subst hx; exact hgr)

theorem filterFrom_sim (root : Option (RT V)) (h : Nat) (hg : ∀ r, root = some r → good h r = true)
    (pred : T.Item V → Bool) (f : T.Yield σ V) (s : σ) :
    filterFrom root pred f s = some (T.filter (root.map (absRT h)) pred f s) := by
  cases hr : root with
  | none => simp [filterFrom, T.filter]
  | some r =>
    have hgr := hg r hr
    -- the fuel is computed at the node's own height; the abstraction does not depend on the bound
    have hg' := good_height h r hgr
    have ha := absRT_height r hgr
    simp only [filterFrom, T.filter, Option.map_some, stackFuel_eq r hg', ← ha]
    exact allLoop_sim pred f _ [r] s r.height (fun x hx => by simp at hx; subst hx; exact hg')

theorem rtree_rangeScan_sim (t : RTree V) (hg : t.Good) (start stop tstart tstop : Bytes) (f : T.Yield σ V) (s : σ) :
    t.rangeScan start stop tstart tstop f s = some (T.rangeScan t.abs.root start stop tstart tstop f s) := by
  cases hr : t.root with
  | none => simp [rangeScan, RTree.abs, T.rangeScan, hr]
  | some r =>
    have hgr := hg r hr
    simp only [rangeScan, RTree.abs, T.rangeScan, hr, Option.map_some, stackFuel_eq r hgr]
    exact rangeLoop_sim start stop _ f _ [(r, 0)] s r.height (fun x hx => by simp at hx; subst hx; exact hgr)

theorem rtree_rangeBytes_sim (t : RTree V) (hg : t.Good) (a b : Bytes) (f : T.Yield σ V) (s : σ) :
    t.rangeBytes a b f s = some (Tree.rangeBytes t.abs a b f s) := by
  simp only [rangeBytes, Tree.rangeBytes]
  split <;> exact rtree_rangeScan_sim t hg _ _ _ _ f s

theorem rtree_bottomK_sim (t : RTree V) (hg : t.Good) (n : Nat) (f : T.Yield σ V) (s : σ) :
    t.bottomK n f s = some (T.bottomK t.abs.root n f s) := by
  simp only [bottomK, T.bottomK]
  split
  · rfl
  · rw [rtree_all_sim t hg]; rfl

theorem rtree_topK_sim (t : RTree V) (hg : t.Good) (n : Nat) (f : T.Yield σ V) (s : σ) :
    t.topK n f s = some (T.topK t.abs.root n f s) := by
  simp only [topK, T.topK]
  split
  · rfl
  · rw [rtree_backward_sim t hg]; rfl

theorem rtree_prefix_sim (t : RTree V) (hg : t.Good) (p : Bytes) (f : T.Yield σ V) (s : σ) :
    t.prefixBytes p f s = some (Tree.prefixBytes t.abs p f s) := by
  simp only [prefixBytes, Tree.prefixBytes]
  split
  · exact rtree_all_sim t hg f s
  · cases hr : t.root with
    | none => simp [RTree.abs, hr, filterFrom, T.filter]
    | some r =>
      have hgr := hg r hr
      obtain ⟨e1, e2⟩ := lcp_sim (p.length + 2) r.height r.height r p 0 hgr (Nat.le_refl _)
      simp only [RTree.abs, hr, Option.map_some, Option.bind_some]
      rw [← e1]
      exact filterFrom_sim _ r.height (fun r' hr' => e2 r' hr') _ f s

end ArtVerif.RIterSim
