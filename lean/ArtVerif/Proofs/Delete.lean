/-
  `Delete` preserves well-formedness (including the shrink thresholds and the node4 collapse with its
  path merge) and removes exactly the leaf carrying the key.
-/
import ArtVerif.Proofs.Insert
namespace ArtVerif
open Gen
namespace T
variable {V : Type}

theorem take_append_take_take (a b : Bytes) (x : UInt8) (n : Nat) :
    (a.take n ++ x :: b.take n).take n = (a ++ x :: b).take n := by
  by_cases h : a.length < n
  · rw [List.take_of_length_le (l := a) (by omega)]
    rw [List.take_append, List.take_append]
    congr 1
    have hpos : 0 < n - a.length := by omega
    obtain ⟨m, hm⟩ : ∃ m, n - a.length = m + 1 := ⟨n - a.length - 1, by omega⟩
    rw [hm, List.take_succ_cons, List.take_succ_cons, List.take_take]
    congr 2
    omega
  · rw [List.take_append_of_le_length (by simp; omega), List.take_append_of_le_length (by omega), List.take_take]
    simp

theorem shrink_kindOK (kind : Kind) (n : Nat) (h : KindOK kind (n + 1)) (hn : kind = .k4 → 2 ≤ n) :
    KindOK (shrinkKind kind n) n ∧ 2 ≤ n := by
  have c1 : 2 ≤ shrink16 ∧ shrink16 ≤ maxNode4 := by decide
  have c2 : shrink16 < shrink48 ∧ shrink48 ≤ maxNode16 := by decide
  have c3 : shrink48 < shrink256 ∧ shrink256 ≤ maxNode48 := by decide
  cases kind with
  | k4 => simp only [KindOK, shrinkKind] at h ⊢; have := hn rfl; omega
  | k16 =>
    simp only [KindOK, shrinkKind] at h ⊢
    by_cases he : n = shrink16 <;> simp only [he, if_true, if_false, KindOK] <;> omega
  | k48 =>
    simp only [KindOK, shrinkKind] at h ⊢
    by_cases he : n = shrink48 <;> simp only [he, if_true, if_false, KindOK] <;> omega
  | k256 =>
    simp only [KindOK, shrinkKind] at h ⊢
    by_cases he : n = shrink256 <;> simp only [he, if_true, if_false, KindOK] <;> omega

/-- `deleteChild`: well-formed result whose leaves are those of the other children -/
theorem deleteChild_spec {kind : Kind} {plen : Nat} {inl : Bytes} {ch : Ch V} {p cp : Bytes} {b : UInt8} {c0 : T V}
    (hl : cp.length = plen) (hi : inl = cp.take maxPrefixLen) (hs : KeysSorted ch) (h2 : 2 ≤ ch.length)
    (hk : KindOK kind ch.length) (hc : ∀ bc ∈ ch, WF bc.2 (p ++ cp ++ [bc.1])) (hmem : (b, c0) ∈ ch) :
    WF (deleteChild kind plen inl ch b) p ∧
    ∀ x, x ∈ inorder (deleteChild kind plen inl ch b) ↔ ∃ bc ∈ ch, bc.1 ≠ b ∧ x ∈ inorder bc.2 := by
  have hlen := length_eraseCh ⟨c0, hmem⟩
  have hs' := eraseCh_sorted (b := b) hs
  have hmem' : ∀ x, x ∈ eraseCh b ch ↔ x ∈ ch ∧ x.1 ≠ b := fun x => mem_eraseCh hs
  have hgen : ∀ kd, 2 ≤ (eraseCh b ch).length → KindOK kd (eraseCh b ch).length →
      WF (node kd plen inl (eraseCh b ch)) p ∧
      ∀ x, x ∈ inorder (node kd plen inl (eraseCh b ch)) ↔ ∃ bc ∈ ch, bc.1 ≠ b ∧ x ∈ inorder bc.2 := by
    intro kd h2' hk'
    refine ⟨WF.node cp hl hi hs' h2' hk' (fun bc hbc => hc bc ((hmem' bc).mp hbc).1), ?_⟩
    intro x
    simp only [inorder, mem_inorderL_iff]
    constructor
    · rintro ⟨bc, hbc, hx⟩
      exact ⟨bc, ((hmem' bc).mp hbc).1, ((hmem' bc).mp hbc).2, hx⟩
    · rintro ⟨bc, hbc, hne, hx⟩
      exact ⟨bc, (hmem' bc).mpr ⟨hbc, hne⟩, hx⟩
  unfold deleteChild
  dsimp only
  split
  · next b0 c heq =>
    -- node4 left with one child
    have hbc : (b0, c) ∈ ch ∧ b0 ≠ b := by
      have : (b0, c) ∈ eraseCh b ch := by rw [heq]; simp
      exact (hmem' _).mp this
    have hwc := hc (b0, c) hbc.1
    have honly : ∀ bc ∈ ch, bc.1 ≠ b → bc = (b0, c) := by
      intro bc h1 h2'
      have : bc ∈ eraseCh b ch := (hmem' bc).mpr ⟨h1, h2'⟩
      rw [heq] at this; simpa using this
    split
    · next k tk v =>
      refine ⟨?_, ?_⟩
      · cases hwc with
        | leaf hp => exact WF.leaf (List.IsPrefix.trans (by simp [List.append_assoc]) hp)
      · intro x
        constructor
        · intro hx; exact ⟨(b0, leaf k tk v), hbc.1, hbc.2, hx⟩
        · rintro ⟨bc, h1, h2', hx⟩
          rw [honly bc h1 h2'] at hx; exact hx
    · next ckind cplen cinl cch =>
      refine ⟨?_, ?_⟩
      · cases hwc with
        | node ccp hcl hci hcs hc2 hck hcc =>
          refine WF.node (cp ++ b0 :: ccp) (by simp; omega) ?_ hcs hc2 hck ?_
          · rw [hi, hci]; exact take_append_take_take cp ccp b0 maxPrefixLen
          · intro bc hbc'
            have := hcc bc hbc'
            simpa [List.append_assoc] using this
      · intro x
        constructor
        · intro hx
          exact ⟨(b0, node ckind cplen cinl cch), hbc.1, hbc.2, by simpa [inorder] using hx⟩
        · rintro ⟨bc, h1, h2', hx⟩
          rw [honly bc h1 h2'] at hx
          simpa [inorder] using hx
  · next kd _ _ hnot =>
    have hk4 : kd = .k4 → 2 ≤ (eraseCh b ch).length := by
      intro hkk
      -- not exactly one child, and at least one
      match hch : eraseCh b ch with
      | [] => rw [hch] at hlen; simp at hlen; omega
      | [(b0, c)] => exact absurd hch (hnot b0 c hkk)
      | _ :: _ :: _ => simp
    have := shrink_kindOK kd (eraseCh b ch).length (by rw [hlen]; exact hk) hk4
    exact hgen _ this.2 this.1

/-- the probe's key, if stored, is stored under the probe's descent key -/
def Fun (k tk : Bytes) (l : List (Item V)) : Prop := ∀ it ∈ l, it.1 = k → it.2.1 = tk

def DelOK (t : T V) (p k : Bytes) : Option (T V) → Prop
  | none => ∀ it ∈ inorder t, it.1 ≠ k
  | some t' => WF t' p ∧ (∀ x, x ∈ inorder t' ↔ x ∈ inorder t ∧ x.1 ≠ k) ∧ ∃ it ∈ inorder t, it.1 = k

/-- **Delete is correct on well-formed trees** (below an inner node). -/
theorem deleteNode_spec : ∀ (fuel : Nat) (kind : Kind) (plen : Nat) (inl : Bytes) (ch : Ch V) (p tk k : Bytes),
    WF (node kind plen inl ch) p → Fun k tk (inorder (node kind plen inl ch)) → tk.length < fuel + p.length →
    DelOK (node kind plen inl ch) p k (deleteNode fuel (node kind plen inl ch) tk k p.length) := by
  intro fuel
  induction fuel with
  | zero =>
    intro kind plen inl ch p tk k hwf hfun hf
    simp only [deleteNode, DelOK]
    intro it hit hk
    have h1 := hfun it hit hk
    have := (WF.prefix_of_mem _ _ hwf it hit).length_le
    rw [h1] at this; omega
  | succ fuel ih =>
    intro kind plen inl ch p tk k hwf hfun hf
    cases hwf with
    | node cp hl hi hs h2 hkd hc =>
      have hall : ∀ it ∈ inorder (node kind plen inl ch), ∃ bc ∈ ch, p ++ cp ++ [bc.1] <+: it.2.1 ∧ it ∈ inorder bc.2 := by
        intro it hit
        simp only [inorder] at hit
        exact WF.prefix_cp hc it hit
      -- a stored leaf with key k pins down the descent
      have hroute : ∀ it ∈ inorder (node kind plen inl ch), it.1 = k →
          ∃ bc ∈ ch, p ++ cp ++ [bc.1] <+: tk ∧ it ∈ inorder bc.2 := by
        intro it hit hk
        obtain ⟨bc, hbc, hpre, hin⟩ := hall it hit
        exact ⟨bc, hbc, hfun it hit hk ▸ hpre, hin⟩
      simp only [deleteNode]
      split
      · next hchk =>
        -- inline prefix check failed
        intro it hit hk
        obtain ⟨bc, _, hpre, _⟩ := hroute it hit hk
        have hpre' : p ++ cp <+: tk := List.IsPrefix.trans (by simp) hpre
        have : checkPrefixOk inl tk p.length = true := by
          simp only [checkPrefixOk, hasPrefix_iff, hi]
          exact List.IsPrefix.trans (List.take_prefix _ _) (prefix_drop_of_append_prefix hpre')
        simp [this] at hchk
      · split
        · next hnone =>
          intro it hit hk
          obtain ⟨bc, _, hpre, _⟩ := hroute it hit hk
          have := getElem?_of_append_singleton_prefix hpre
          simp [hl] at this
          rw [this] at hnone; simp at hnone
        · next b hb =>
          have hbq : tk[(p ++ cp).length]? = some b := by simpa [hl] using hb
          have hsame : ∀ bc ∈ ch, p ++ cp ++ [bc.1] <+: tk → bc.1 = b := by
            intro bc _ hpre
            have := getElem?_of_append_singleton_prefix hpre
            rw [hbq] at this; exact (Option.some.inj this).symm
          split
          · next hlk =>
            intro it hit hk
            obtain ⟨bc, hbc, hpre, _⟩ := hroute it hit hk
            exact lookupCh_none_iff.mp hlk bc hbc (hsame bc hbc hpre)
          · next lk ltk lv hlk =>
            have hmem := lookupCh_some_mem hlk
            split
            · next hkk =>
              subst hkk
              obtain ⟨hw, hm⟩ := deleteChild_spec hl hi hs h2 hkd hc hmem
              have hleaf : (lk, ltk, lv) ∈ inorder (node kind plen inl ch) := by
                simp only [inorder]; exact mem_inorderL_of_mem hmem (by simp [inorder])
              refine ⟨hw, ?_, ⟨_, hleaf, rfl⟩⟩
              intro x
              rw [hm]
              constructor
              · rintro ⟨bc, hbc, hne, hx⟩
                refine ⟨by simp only [inorder]; exact mem_inorderL_iff.mpr ⟨bc, hbc, hx⟩, ?_⟩
                intro hxk
                have hx' : x ∈ inorder (node kind plen inl ch) := by
                  simp only [inorder]; exact mem_inorderL_iff.mpr ⟨bc, hbc, hx⟩
                have htk := hfun x hx' hxk
                have hpre := WF.prefix_of_mem _ _ (hc bc hbc) x hx
                rw [htk] at hpre
                exact hne (hsame bc hbc hpre)
              · rintro ⟨hx, hne⟩
                obtain ⟨bc, hbc, _, hin⟩ := hall x hx
                refine ⟨bc, hbc, ?_, hin⟩
                intro hbb
                have : bc = (b, leaf lk ltk lv) := keys_ne_of_sorted_mem hs hbc hmem hbb
                subst this
                simp [inorder] at hin
                subst hin
                exact hne rfl
            · next hkk =>
              intro it hit hk
              obtain ⟨bc, hbc, hpre, hin⟩ := hroute it hit hk
              have : bc = (b, leaf lk ltk lv) := keys_ne_of_sorted_mem hs hbc hmem (hsame bc hbc hpre)
              subst this
              simp [inorder] at hin
              subst hin
              exact hkk hk
          · next c hnotleaf hlk =>
            have hmem := lookupCh_some_mem hlk
            have hwc := hc (b, c) hmem
            -- c is an inner node
            cases c with
            | leaf a1 a2 a3 => exact absurd rfl (hnotleaf a1 a2 a3)
            | node ckind cplen cinl cch =>
              have hfunc : Fun k tk (inorder (node ckind cplen cinl cch)) := by
                intro it hit
                exact hfun it (by simp only [inorder] at hit ⊢; exact mem_inorderL_of_mem hmem (by simpa [inorder] using hit))
              have hrec := ih ckind cplen cinl cch (p ++ cp ++ [b]) tk k hwc hfunc (by simp; omega)
              have hdepth : (p ++ cp ++ [b]).length = p.length + plen + 1 := by simp [hl]; omega
              rw [hdepth] at hrec
              have hother : ∀ bc ∈ ch, bc.1 ≠ b → ∀ y ∈ inorder bc.2, y.1 ≠ k := by
                intro bc hbc hne y hy hyk
                have hy' : y ∈ inorder (node kind plen inl ch) := by
                  simp only [inorder]; exact mem_inorderL_iff.mpr ⟨bc, hbc, hy⟩
                have hpre := WF.prefix_of_mem _ _ (hc bc hbc) y hy
                rw [hfun y hy' hyk] at hpre
                exact hne (hsame bc hbc hpre)
              split
              · next hnone =>
                rw [hnone] at hrec
                simp only [DelOK] at hrec ⊢
                intro it hit
                obtain ⟨bc, hbc, _, hin⟩ := hall it hit
                by_cases hbb : bc.1 = b
                · have : bc = (b, _) := keys_ne_of_sorted_mem hs hbc hmem hbb
                  subst this
                  exact hrec it hin
                · exact hother bc hbc hbb it hin
              · next c' hsome =>
                rw [hsome] at hrec
                simp only [DelOK] at hrec ⊢
                obtain ⟨hw', hmem', it0, hit0, hk0⟩ := hrec
                refine ⟨?_, ?_, ⟨it0, by simp only [inorder] at hit0 ⊢; exact mem_inorderL_of_mem hmem (by simpa [inorder] using hit0), hk0⟩⟩
                · refine WF.node cp hl hi (by simp only [KeysSorted, map_fst_replaceCh]; exact hs)
                    (by rw [length_replaceCh]; exact h2) (by rw [length_replaceCh]; exact hkd) ?_
                  intro bc hbc
                  rcases (mem_replaceCh hs ⟨_, hmem⟩).mp hbc with h | ⟨h, _⟩
                  · subst h; exact hw'
                  · exact hc bc h
                · intro y
                  simp only [inorder, mem_inorderL_iff]
                  constructor
                  · rintro ⟨bc, hbc, hy⟩
                    rcases (mem_replaceCh hs ⟨_, hmem⟩).mp hbc with h | ⟨h, hne⟩
                    · subst h
                      obtain ⟨h1, h2'⟩ := (hmem' y).mp hy
                      exact ⟨⟨(b, _), hmem, h1⟩, h2'⟩
                    · exact ⟨⟨bc, h, hy⟩, hother bc h hne y hy⟩
                  · rintro ⟨⟨bc, hbc, hy⟩, hne⟩
                    by_cases hbb : bc.1 = b
                    · have : bc = (b, _) := keys_ne_of_sorted_mem hs hbc hmem hbb
                      subst this
                      exact ⟨(b, c'), (mem_replaceCh hs ⟨_, hmem⟩).mpr (Or.inl rfl), (hmem' y).mpr ⟨hy, hne⟩⟩
                    · exact ⟨bc, (mem_replaceCh hs ⟨_, hmem⟩).mpr (Or.inr ⟨hbc, hbb⟩), hy⟩

end T
end ArtVerif
