/-
  `prefixMismatch` – which compares the ten inline bytes and then, for a longer compressed path,
  carries on along the minimum leaf's key – agrees with the comparison against the true path.
-/
import ArtVerif.Proofs.Ch
namespace ArtVerif
open Gen

theorem lcpLen_take (a b : Bytes) (n : Nat) : lcpLen (a.take n) (b.take n) = min n (lcpLen a b) := by
  induction a generalizing b n with
  | nil => simp [lcpLen]
  | cons x a ih =>
    cases b with
    | nil => cases n <;> simp [lcpLen]
    | cons y b =>
      cases n with
      | zero => simp [lcpLen]
      | succ n =>
        simp only [List.take_succ_cons, lcpLen]
        split
        · rw [ih]; omega
        · simp

theorem lcpLen_drop_add (a b : Bytes) (n : Nat) (h : n ≤ lcpLen a b) :
    n + lcpLen (a.drop n) (b.drop n) = lcpLen a b := by
  induction a generalizing b n with
  | nil => simp [lcpLen] at h; subst h; simp [lcpLen]
  | cons x a ih =>
    cases b with
    | nil => simp [lcpLen] at h; subst h; simp [lcpLen]
    | cons y b =>
      cases n with
      | zero => simp
      | succ n =>
        simp only [lcpLen] at h ⊢
        split at h
        · next hxy =>
          simp only [hxy, if_true, List.drop_succ_cons]
          have := ih b n (by omega)
          omega
        · omega

theorem lcpLen_append_lt (a r b : Bytes) (h : lcpLen a b < a.length) : lcpLen (a ++ r) b = lcpLen a b := by
  induction a generalizing b with
  | nil => simp at h
  | cons x a ih =>
    cases b with
    | nil => simp [lcpLen]
    | cons y b =>
      simp only [List.cons_append, lcpLen] at h ⊢
      split
      · next hxy =>
        simp only [hxy, if_true, List.length_cons] at h
        rw [ih b (by omega)]
      · rfl

theorem lcpLen_append_ge (a r b : Bytes) (h : lcpLen a b = a.length) : a.length ≤ lcpLen (a ++ r) b := by
  induction a generalizing b with
  | nil => simp
  | cons x a ih =>
    cases b with
    | nil => simp [lcpLen] at h
    | cons y b =>
      simp only [List.cons_append, lcpLen, List.length_cons] at h ⊢
      split
      · next hxy =>
        simp only [hxy, if_true] at h
        have := ih b (by omega)
        omega
      · next hxy => simp [hxy] at h

namespace T
variable {V : Type}

theorem minTKey_mem {t : T V} {p : Bytes} (h : WF t p) : ∃ it ∈ inorder t, minTKey t = it.2.1 := by
  have hf := WF.full t p h
  have hm := minLeaf_eq t hf
  have hne := inorder_ne_nil t hf
  cases hl : inorder t with
  | nil => exact absurd hl hne
  | cons x xs =>
    refine ⟨x, by simp, ?_⟩
    simp only [minTKey, hm, hl, List.head?_cons]

/-- the specification of `prefixMismatch` on a well-formed node whose path so far matches the key -/
theorem prefixMismatch_spec {kind : Kind} {plen : Nat} {inl : Bytes} {ch : Ch V} {p cp tk : Bytes}
    (hl : cp.length = plen) (hi : inl = cp.take maxPrefixLen)
    (hmin : p ++ cp <+: minTKey (node kind plen inl ch)) (hp : p <+: tk) :
    let m := lcpLen cp (tk.drop p.length)
    let pm := prefixMismatch plen inl (minTKey (node kind plen inl ch)) tk p.length
    (m < plen → pm = m) ∧ (plen ≤ m → plen ≤ pm) := by
  intro m pm
  have hm_le : m ≤ plen := by have := lcpLen_le_left cp (tk.drop p.length); omega
  have hm_le2 : m ≤ tk.length - p.length := by
    have := lcpLen_le_right cp (tk.drop p.length); simp at this; exact this
  obtain ⟨rest, hrest⟩ := hmin
  -- the inline comparison
  have hidx : lcpLen (inl.take (min (min maxPrefixLen plen) (tk.length - p.length)))
      ((tk.drop p.length).take (min (min maxPrefixLen plen) (tk.length - p.length)))
      = min (min (min maxPrefixLen plen) (tk.length - p.length)) m := by
    have : inl.take (min (min maxPrefixLen plen) (tk.length - p.length))
        = cp.take (min (min maxPrefixLen plen) (tk.length - p.length)) := by
      rw [hi, List.take_take]; congr 1; omega
    rw [this, lcpLen_take]
  simp only [pm, prefixMismatch, hidx]
  split
  · next hlt =>
    -- mismatch inside the inline bytes
    have : min (min (min maxPrefixLen plen) (tk.length - p.length)) m = m := by omega
    rw [this]
    constructor
    · intro _; trivial
    · intro h; omega
  · next hge =>
    have hmc : min (min maxPrefixLen plen) (tk.length - p.length) ≤ m := by omega
    have hmin_eq : min (min (min maxPrefixLen plen) (tk.length - p.length)) m
        = min (min maxPrefixLen plen) (tk.length - p.length) := by omega
    rw [hmin_eq]
    split
    · next hlong =>
      -- carry on along the minimum leaf
      have hdrop : (minTKey (node kind plen inl ch)).drop p.length = cp ++ rest := by
        rw [← hrest]; simp [List.append_assoc]
      have hM : ∀ n, n ≤ lcpLen (cp ++ rest) (tk.drop p.length) →
          n + lcpLen ((minTKey (node kind plen inl ch)).drop (p.length + n)) (tk.drop (p.length + n))
            = lcpLen (cp ++ rest) (tk.drop p.length) := by
        intro n hn
        have := lcpLen_drop_add ((minTKey (node kind plen inl ch)).drop p.length) (tk.drop p.length) n
          (by rw [hdrop]; exact hn)
        rw [List.drop_drop, List.drop_drop, hdrop] at this
        simpa [Nat.add_comm] using this
      by_cases hmp : m < plen
      · have hMm : lcpLen (cp ++ rest) (tk.drop p.length) = m := lcpLen_append_lt cp rest _ (by omega)
        have := hM (min (min maxPrefixLen plen) (tk.length - p.length)) (by omega)
        constructor
        · intro _; omega
        · intro h; omega
      · have hMm : plen ≤ lcpLen (cp ++ rest) (tk.drop p.length) := by
          have := lcpLen_append_ge cp rest (tk.drop p.length) (by omega); omega
        have := hM (min (min maxPrefixLen plen) (tk.length - p.length)) (by omega)
        constructor
        · intro h; omega
        · intro _; omega
    · next hshort =>
      constructor
      · intro h; omega
      · intro h; omega

end T
end ArtVerif
