/-
  The child-table methods of node.go as REGENERATED from the source on every run (`Gen/NodeOps.lean`) are the
  hand-written raw-node model (`Model/Raw.lean`: `Raw.find`, `Raw.add`, `Raw.remove`, `Raw.mergeHdr`) that
  `Proofs/RawNodes` proves to be a correct ordered byte → child table and that the tree-level simulation
  (`Proofs/RSim`) is built on.  Kernel only (no `bv_decide` in this file).
-/
import ArtVerif.Gen.NodeOps
import ArtVerif.Proofs.GoNodeBase
namespace ArtVerif
namespace GenNodeOps
open Gen Gen.NodeOps GoNode Raw Swar
variable {C : Type}

/-! ### `clear()` : what goes back to the pool is the zero image -/

theorem u8_ofNat_zero : hl 0 = 0 := rfl

theorem node4_clear_eq (E : Env C) (h : Hdr) (len : Nat) (keys : BitVec 32) (slots : List (Option C))
    (hs : slots.length = 4) : node4_clear E (img4 h len keys slots) = some (zeroImg 0) := by
  simp [node4_clear, img4, zeroImg, imgOf, zero4, clearAll, hs, zeroPrefix, hp, hl]

theorem node16_clear_eq (E : Env C) (h : Hdr) (len : Nat) (keys : Bytes) (slots : List (Option C))
    (hs : slots.length = 16) (hk : keys.length = 16) : node16_clear E (img16 h len keys slots) = some (zeroImg 1) := by
  simp [node16_clear, img16, zeroImg, imgOf, zero16, clearAll, hs, hk, zeroPrefix, hp, hl]

theorem node48_clear_eq (E : Env C) (h : Hdr) (len : Nat) (keys : Bytes) (slots : List (Option C))
    (hs : slots.length = 48) (hk : keys.length = 256) : node48_clear E (img16 h len keys slots) = some (zeroImg 2) := by
  simp [node48_clear, img16, zeroImg, imgOf, zero48, clearAll, hs, hk, zeroPrefix, hp, hl]

theorem node256_clear_eq (E : Env C) (h : Hdr) (len : Nat) (slots : List (Option C))
    (hs : slots.length = 256) : node256_clear E (img256 h len slots) = some (zeroImg 3) := by
  simp only [node256_clear, img256, clearAll, hs, bind, Option.bind, pure]
  rfl

/-! ### findChild -/

theorem findChild_eq (E : Env C) (r : Raw C) (b : UInt8) (hinv : r.inv = true) (hlen : r.len < 256) :
    nodeRef_findChild E (imgOf r).1 (imgOf r).2 b = some (r.find b) := by
  cases r with
  | n4 h len keys slots =>
    simp only [Raw.len] at hlen
    obtain ⟨_, hs, hl4, _⟩ := (inv4_iff h len keys slots).1 hinv
    simp only [imgOf, nodeRef_findChild, img4, Raw.find, b8, hl_toNat _ hlen]
    rcases firstIdx_cases (fun k => k == b) (lanes keys) with h1 | ⟨n, h1, hn⟩
    · simp only [searchNode4_spec, h1]; rfl
    · simp only [searchNode4_spec, h1]
      by_cases hc : n < len
      · have e : (((n : Int) != -1) && decide ((n : Int) < (len : Int))) = true := by
          simp; omega
        rw [if_pos e, if_pos e, idx?_join _ _ (by omega)]; simp
      · have e : ¬ (((n : Int) != -1) && decide ((n : Int) < (len : Int))) = true := by
          simp; omega
        rw [if_neg e, if_neg e]; rfl
  | n16 h len keys slots =>
    simp only [Raw.len] at hlen
    obtain ⟨_, hs, hk, hl16, _⟩ := (inv16_iff h len keys slots).1 hinv
    simp only [imgOf, nodeRef_findChild, img16, Raw.find, hl_toNat _ hlen]
    rw [searchNode16_eq keys len b (by omega) hl16]
    rcases firstIdx_cases (fun k => k == b) (keys.take len) with h1 | ⟨n, h1, hn⟩
    · rw [h1]; rfl
    · rw [h1]
      have hn' : n < 16 := by simp at hn; omega
      have e : (((n : Int) != -1)) = true := by simp
      rw [if_pos e, if_pos e, idx?_join _ _ (by omega)]; simp
  | n48 h len idx slots =>
    obtain ⟨_, _, _, hI⟩ := (inv48_iff h len idx slots).1 hinv
    simp only [imgOf, nodeRef_findChild, img16, Raw.find]
    have hb : b.toNat < idx.length := by rw [hI.hi]; exact UInt8.toNat_lt b
    rw [idx?_nat, getD_eq_some idx _ hb]
    simp only [bind, Option.bind]
    by_cases hz : (idx.getD b.toNat 0 != 0) = true
    · rw [if_pos hz, if_pos hz]
      have hv := hI.hvalid _ (getD_mem idx _ hb) (by simpa using hz)
      have hne : (idx.getD b.toNat 0) ≠ 0 := by simpa using hz
      have hpos : 0 < (idx.getD b.toNat 0).toNat := by
        rcases Nat.eq_zero_or_pos (idx.getD b.toNat 0).toNat with h0 | h0
        · exact absurd (UInt8.toNat_inj.1 (by simpa using h0)) hne
        · exact h0
      have e : ((idx.getD b.toNat 0) - 1).toNat = (idx.getD b.toNat 0).toNat - 1 := by
        rw [UInt8.toNat_sub_of_le]; · rfl
        · rw [UInt8.le_iff_toNat_le]; exact hpos
      rw [e, idx?_join _ _ (by rw [hI.hs]; omega)]
    · rw [if_neg hz, if_neg hz]; rfl
  | n256 h len slots =>
    obtain ⟨_, hs, _⟩ := (inv256_iff h len slots).1 hinv
    simp only [imgOf, nodeRef_findChild, img256, Raw.find]
    have hb : b.toNat < slots.length := by rw [hs]; exact UInt8.toNat_lt b
    rw [idx?_join _ _ hb]
    simp only [bind, Option.bind]
    rcases hx : slots[b.toNat]?.join with _ | c <;> simp [pure]

/-! ### addChild -/

theorem node256_addChild_eq (E : Env C) (h : Hdr) (len : Nat) (slots : List (Option C)) (b : UInt8) (c : C)
    (hs : slots.length = 256) :
    node256_addChild E (img256 h len slots) b (some c) = some (imgOf (add256 h len slots b c)).2 := by
  have hb : b.toNat < slots.length := by rw [hs]; exact UInt8.toNat_lt b
  simp only [node256_addChild, img256, add256, imgOf, setIdx_nat _ _ _ hb, hl_succ, bind, Option.bind, pure]

theorem getElem?_firstFree (l : List (Option C)) (h : firstFree l < l.length) : l[firstFree l]? = some none := by
  unfold firstFree at h ⊢
  have := List.findIdx_getElem (w := h)
  rw [List.getElem?_eq_getElem h]
  rcases hx : l[List.findIdx (fun s => s.isNone) l] with _ | x
  · rw [hx]
  · rw [hx] at this; simp at this

theorem getElem?_lt_firstFree (l : List (Option C)) (pos : Nat) (h : pos < firstFree l) (hl : pos < l.length) :
    ∃ x, l[pos]? = some (some x) := by
  unfold firstFree at h
  have := List.not_of_lt_findIdx h
  rw [List.getElem?_eq_getElem hl]
  rcases hx : l[pos] with _ | x
  · rw [hx] at this; simp at this
  · exact ⟨x, rfl⟩

/-- `for n48.children[pos].pointer != nil { pos++ }` stops at the first free slot -/
theorem loop_firstFree (E : Env C) (n : Img C) (b : UInt8) (child : Option C) :
    ∀ (d pos fuel : Nat), pos + d = firstFree n.children → firstFree n.children < n.children.length →
      firstFree n.children < 256 → d < fuel →
      node48_addChild.loop0 E n b child fuel (UInt8.ofNat pos) = some (UInt8.ofNat (firstFree n.children)) := by
  intro d
  induction d with
  | zero =>
    intro pos fuel hpos hlt h256 hf
    obtain ⟨fuel, rfl⟩ : ∃ k, fuel = k + 1 := ⟨fuel - 1, by omega⟩
    have hp : pos = firstFree n.children := by omega
    have e : (UInt8.ofNat pos).toNat = pos := by simp; omega
    simp only [node48_addChild.loop0, e, idx?_nat, bind, Option.bind]
    rw [hp, getElem?_firstFree _ hlt]
    simp [pure]
  | succ d ih =>
    intro pos fuel hpos hlt h256 hf
    obtain ⟨fuel, rfl⟩ : ∃ k, fuel = k + 1 := ⟨fuel - 1, by omega⟩
    have hp : pos < firstFree n.children := by omega
    obtain ⟨x, hx⟩ := getElem?_lt_firstFree n.children pos hp (by omega)
    have e : (UInt8.ofNat pos).toNat = pos := by simp; omega
    have e2 : UInt8.ofNat pos + 1 = UInt8.ofNat (pos + 1) := by
      apply UInt8.toNat_inj.1; simp [UInt8.toNat_add]
    simp only [node48_addChild.loop0, e, idx?_nat, hx, bind, Option.bind, Option.isSome_some, if_true, e2]
    exact ih (pos + 1) fuel (by omega) hlt h256 (by omega)

/-- the slot a node48 index byte designates -/
def look (idx : Bytes) (slots : List (Option C)) (i : Nat) : Option C :=
  let p : UInt8 := idx.getD i 0
  if p != 0 then (slots[p.toNat - 1]?).join else none

theorem set_fill {α} (f : Nat → α) (i k : Nat) (z v : α) :
    ((List.range i).map f ++ List.replicate (k + 1) z).set i v = (List.range i).map f ++ v :: List.replicate k z := by
  rw [List.set_append_right _ _ (by simp)]
  simp [List.replicate_succ]

/-- the 48 → 256 copy loop fills slot `i` with what index byte `i` designates -/
theorem loop_grow48 (E : Env C) (n48 m : Img C) (b : UInt8) (child : Option C)
    (hk : n48.keysA.length = 256) (hs : n48.children.length = 48)
    (hv : ∀ i, i < 256 → n48.keysA.getD i 0 ≠ 0 → (n48.keysA.getD i 0).toNat ≤ 48) :
    ∀ (d i fuel : Nat), i + d = 256 → d < fuel →
      node48_addChild.loop1 E n48 b child fuel
        ({ m with children := (List.range i).map (look n48.keysA n48.children) ++ List.replicate (256 - i) none }, (i : Int)) =
      some ({ m with children := (List.range 256).map (look n48.keysA n48.children) }, (256 : Int)) := by
  intro d
  induction d with
  | zero =>
    intro i fuel hi hf
    obtain ⟨fuel, rfl⟩ : ∃ k, fuel = k + 1 := ⟨fuel - 1, by omega⟩
    have : i = 256 := by omega
    subst this
    have hc : (decide (((256 : Nat) : Int) < 256)) = false := by decide
    simp only [node48_addChild.loop1, hc, Nat.sub_self, List.replicate_zero, List.append_nil]
    rfl
  | succ d ih =>
    intro i fuel hi hf
    obtain ⟨fuel, rfl⟩ : ∃ k, fuel = k + 1 := ⟨fuel - 1, by omega⟩
    have hi' : i < 256 := by omega
    have hc : (decide ((i : Int) < 256)) = true := by simp; omega
    have hget : n48.keysA[i]? = some (n48.keysA.getD i 0) := getD_eq_some _ _ (by omega)
    have hrep : List.replicate (256 - i) (none : Option C) = List.replicate (255 - i + 1) none := by
      have : 256 - i = 255 - i + 1 := by omega
      rw [this]
    have hnext : (List.range (i + 1)).map (look n48.keysA n48.children) ++ List.replicate (256 - (i + 1)) none =
        (List.range i).map (look n48.keysA n48.children) ++ look n48.keysA n48.children i :: List.replicate (255 - i) none := by
      have : 256 - (i + 1) = 255 - i := by omega
      rw [List.range_succ, List.map_append, List.append_assoc, this]
      rfl
    have hcast : ((i : Int) + 1) = ((i + 1 : Nat) : Int) := by omega
    simp only [node48_addChild.loop1, hc, if_true, idx?_nat, hget, Option.bind_eq_bind, Option.bind_some]
    by_cases hz : n48.keysA.getD i 0 = 0
    · have hl0 : look n48.keysA n48.children i = none := by
        show (if (n48.keysA.getD i 0 != 0) = true then _ else none) = none
        rw [hz]; rfl
      simp only [hz, bne_self_eq_false, Bool.false_eq_true, if_false]
      rw [hcast]
      have := ih (i + 1) fuel (by omega) (by omega)
      rw [hnext, hl0] at this
      rw [hrep, List.replicate_succ]
      exact this
    · have hnz : (n48.keysA.getD i 0 != 0) = true := by simpa using hz
      have hle := hv i hi' hz
      have hpos := u8_pos _ hz
      have hsl : n48.children[(n48.keysA.getD i 0).toNat - 1]? =
          some ((n48.children[(n48.keysA.getD i 0).toNat - 1]?).join) := by
        rw [List.getElem?_eq_getElem (by omega)]; rfl
      have hl1 : look n48.keysA n48.children i = (n48.children[(n48.keysA.getD i 0).toNat - 1]?).join := by
        show (if (n48.keysA.getD i 0 != 0) = true then _ else none) = _
        rw [if_pos hnz]
      rw [if_pos hnz]
      simp only [u8_pred_toNat _ hz, idx?_nat]
      rw [hsl]
      simp only [Option.bind_some]
      rw [setIdx_nat _ _ _ (by rw [List.length_append, List.length_map, List.length_range, List.length_replicate]; omega)]
      simp only [Option.bind_some]
      rw [hrep, set_fill, hcast, ← hl1, ← hnext]
      exact ih (i + 1) fuel (by omega) (by omega)

theorem node48_addChild_small (E : Env C) (h : Hdr) (len : Nat) (idx : Bytes) (slots : List (Option C)) (b : UInt8) (c : C)
    (hs : slots.length = 48) (hi : idx.length = 256) (hlen : len < 48) (hff : firstFree slots < 48) :
    node48_addChild E (img16 h len idx slots) b (some c) =
      some { out := outOf (add48 h len idx slots b c), released := [] } := by
  have hd : decide (hl len < (48 : UInt8)) = true := by
    have := hl_lt' len 48 (by omega) (by omega)
    rw [show UInt8.ofNat 48 = (48 : UInt8) from rfl] at this
    rw [this]; simpa using hlen
  have hloop := loop_firstFree E (img16 h len idx slots) b (some c) (firstFree slots) 0 loopFuel
    (by simp [img16]) (by simp only [img16]; omega) (by simp only [img16]; omega) (by simp only [loopFuel]; omega)
  simp only [img16] at hloop
  have e : (UInt8.ofNat (firstFree slots)).toNat = firstFree slots := by simp; omega
  have hb : b.toNat < idx.length := by rw [hi]; exact UInt8.toNat_lt b
  simp only [node48_addChild, img16, hd, if_true, show (0 : UInt8) = UInt8.ofNat 0 from rfl, hloop,
    Option.bind_eq_bind, Option.bind_some, e, setIdx_nat _ _ _ (show firstFree slots < slots.length by omega),
    setIdx_nat _ _ _ hb, hl_succ, u8_ofNat_succ', pure]
  split
  · simp only [add48, maxNode48_eq, hlen, ↓reduceIte, outOf, imgOf, img16]
    rw [Nat.mod_eq_of_lt (by omega)]
  · rename_i hneg
    exact absurd hd hneg

theorem node48_addChild_grow (E : Env C) (hpz : PoolsZero E) (h : Hdr) (len : Nat) (idx : Bytes) (slots : List (Option C))
    (b : UInt8) (c : C) (hs : slots.length = 48) (hi : idx.length = 256) (hlen : ¬ len < 48) (hl256 : len < 256)
    (hv : ∀ i, i < 256 → idx.getD i 0 ≠ 0 → (idx.getD i 0).toNat ≤ 48) :
    node48_addChild E (img16 h len idx slots) b (some c) =
      some { out := outOf (add48 h len idx slots b c), released := [(2, zeroImg 2)] } := by
  have hd : decide ((img16 h len idx slots : Img C).childrenLen < (48 : UInt8)) = false :=
    hl_not_lt len 48 hl256 (by omega) hlen _ rfl
  have hloop := loop_grow48 E (img16 h len idx slots) (zeroImg 3) b (some c) hi hs hv 256 0 loopFuel (by omega)
    (by simp only [loopFuel]; omega)
  have hz : ({ (zeroImg 3 : Img C) with children := (List.range 0).map (look (img16 h len idx slots).keysA
      (img16 h len idx slots).children) ++ List.replicate (256 - 0) none } : Img C) = zeroImg 3 := by
    rfl
  rw [hz] at hloop
  have hs256 : ((List.range 256).map (look idx slots)).length = 256 := by
    rw [List.length_map, List.length_range]
  have h256 := node256_addChild_eq E h len ((List.range 256).map (look idx slots)) b c hs256
  have hclear := node48_clear_eq E h len idx slots hs hi
  simp only [node48_addChild, hd, Bool.false_eq_true, if_false, hpz 3, Option.bind_eq_bind,
    show ((0 : Int)) = ((0 : Nat) : Int) from rfl, hloop, Option.bind_some, hclear]
  have himg : ({ (zeroImg 3 : Img C) with
      children := (List.range 256).map (look (img16 h len idx slots).keysA (img16 h len idx slots).children),
      childrenLen := (img16 h len idx slots : Img C).childrenLen,
      prefixLen := (img16 h len idx slots : Img C).prefixLen,
      «prefix» := (img16 h len idx slots : Img C).«prefix» } : Img C) =
      img256 h len ((List.range 256).map (look idx slots)) := by
    rfl
  simp only [himg, h256, Option.bind_some, pure, List.nil_append]
  simp only [outOf, add48, maxNode48_eq, hlen, ↓reduceIte]
  rfl

theorem firstIdx_lt_len (p : UInt8 → Bool) (l : List UInt8) (n : Nat) (h : firstIdx p l = (n : Int)) : n < l.length := by
  rcases firstIdx_cases p l with h1 | ⟨m, h1, hm⟩
  · rw [h1] at h; omega
  · rw [h1] at h; have : m = n := by omega
    subst this; exact hm

theorem node16_addChild_small (E : Env C) (h : Hdr) (len : Nat) (keys : Bytes) (slots : List (Option C)) (b : UInt8) (c : C)
    (hs : slots.length = 16) (hk : keys.length = 16) (hlen : len < 16) :
    node16_addChild E (img16 h len keys slots) b (some c) =
      some { out := outOf (add16 h len keys slots b c), released := [] } := by
  have hd : decide ((img16 h len keys slots : Img C).childrenLen < (16 : UInt8)) = true := by
    have := hl_lt' len 16 (by omega) (by omega)
    rw [show UInt8.ofNat 16 = (16 : UInt8) from rfl] at this
    show decide (hl len < 16) = true
    rw [this]; simpa using hlen
  have hlt : (hl len).toNat = len := hl_toNat _ (by omega)
  simp only [node16_addChild, hd, if_true]
  simp only [img16, hlt, add16, maxNode16_eq, hlen, ↓reduceIte, outOf]
  rw [insertPosNode16_eq keys len b (by omega) (by omega)]
  rcases firstIdx_cases (fun k => decide (b < k)) (keys.take len) with h1 | ⟨n, h1, hn⟩
  · rw [h1]
    have e : ¬ (((-1 : Int) != -1) = true) := by decide
    simp only [e, if_false, Bool.false_eq_true, ↓reduceIte, setIdx_nat _ _ _ (show len < keys.length by omega),
      setIdx_nat _ _ _ (show len < slots.length by omega), Option.bind_eq_bind, Option.bind_some, pure, hl_succ,
      Int.toNat_natCast, imgOf, img16]
    rw [Nat.mod_eq_of_lt (by omega)]
  · rw [h1]
    have hn' : n < 16 := by simp at hn; omega
    have e : (((n : Int) != -1) = true) := by simp
    simp only [e, if_true, ↓reduceIte]
    rw [goCopy_up keys n (by omega)]
    simp only [Option.bind_eq_bind, Option.bind_some]
    rw [goCopy_up slots n (by omega)]
    simp only [Option.bind_some, setIdx_nat _ _ _ (show n < (shiftUp keys n).length by rw [shiftUp_length]; omega),
      setIdx_nat _ _ _ (show n < (shiftUp slots n).length by rw [shiftUp_length]; omega), pure, hl_succ,
      Int.toNat_natCast, imgOf, img16]
    rw [Nat.mod_eq_of_lt (by omega)]

/-- one step of the 16 → 48 index construction -/
def idxStep (keys : Bytes) (acc : Bytes) (i : Nat) : Bytes := acc.set (keys.getD i 0).toNat (UInt8.ofNat (i + 1))

theorem loop_build48 (E : Env C) (n16 m : Img C) (b : UInt8) (child : Option C) (len : Nat)
    (hcl : n16.childrenLen = hl len) (hlen : len ≤ n16.keysA.length) (hl256 : len < 256) :
    ∀ (d i fuel : Nat) (acc : Bytes), i + d = len → d < fuel → acc.length = 256 →
      node16_addChild.loop0 E n16 b child fuel ({ m with keysA := acc }, UInt8.ofNat i) =
      some ({ m with keysA := (List.range' i d).foldl (idxStep n16.keysA) acc }, UInt8.ofNat len) := by
  intro d
  induction d with
  | zero =>
    intro i fuel acc hi hf ha
    obtain ⟨fuel, rfl⟩ : ∃ k, fuel = k + 1 := ⟨fuel - 1, by omega⟩
    have : i = len := by omega
    subst this
    have hc : decide (UInt8.ofNat i < n16.childrenLen) = false := by
      rw [hcl]; simp [hl]
    simp only [node16_addChild.loop0, hc, Bool.false_eq_true, if_false, List.range'_zero, List.foldl_nil]
    rfl
  | succ d ih =>
    intro i fuel acc hi hf ha
    obtain ⟨fuel, rfl⟩ : ∃ k, fuel = k + 1 := ⟨fuel - 1, by omega⟩
    have hc : decide (UInt8.ofNat i < n16.childrenLen) = true := by
      rw [hcl]; show decide (hl i < UInt8.ofNat len) = true
      rw [hl_lt' i len (by omega) hl256]; simp; omega
    have e : (UInt8.ofNat i).toNat = i := by simp; omega
    have hget : n16.keysA[i]? = some (n16.keysA.getD i 0) := getD_eq_some _ _ (by omega)
    have hb : (n16.keysA.getD i 0).toNat < acc.length := by rw [ha]; exact UInt8.toNat_lt _
    simp only [node16_addChild.loop0, hc, if_true, e, idx?_nat, hget, Option.bind_eq_bind, Option.bind_some,
      setIdx_nat _ _ _ hb, u8_ofNat_succ', List.range'_succ, List.foldl_cons]
    exact ih (i + 1) fuel _ (by omega) (by omega) (by simp [ha])

theorem foldl_idxStep_length (keys : Bytes) (l : List Nat) (acc : Bytes) :
    (l.foldl (idxStep keys) acc).length = acc.length := by
  induction l generalizing acc with
  | nil => rfl
  | cons x xs ih => rw [List.foldl_cons, ih]; simp [idxStep]

theorem firstFree_lt_of_mem (l : List (Option C)) (h : none ∈ l) : firstFree l < l.length := by
  unfold firstFree
  exact List.findIdx_lt_length_of_exists ⟨none, h, rfl⟩

theorem node16_addChild_grow (E : Env C) (hpz : PoolsZero E) (h : Hdr) (keys : Bytes) (slots : List (Option C))
    (b : UInt8) (c : C) (hs : slots.length = 16) (hk : keys.length = 16) :
    node16_addChild E (img16 h 16 keys slots) b (some c) =
      some { out := outOf (add16 h 16 keys slots b c), released := [(1, zeroImg 1)] } := by
  have hd : decide ((img16 h 16 keys slots : Img C).childrenLen < (16 : UInt8)) = false :=
    hl_not_lt 16 16 (by omega) (by omega) (by omega) _ rfl
  have hcopy : goCopy (zeroImg 2 : Img C).children (0 : Int) (((img16 h 16 keys slots : Img C).childrenLen.toNat : Nat) : Int)
      (img16 h 16 keys slots : Img C).children (0 : Int) (((img16 h 16 keys slots : Img C).children.length : Nat) : Int) =
      some (slots.take 16 ++ List.replicate (48 - 16) none) := by
    have := goCopy_front (List.replicate 48 (none : Option C)) slots 16 (by simp)
    simp only [img16, zeroImg, imgOf, zero48, show (hl 16).toNat = 16 from rfl]
    rw [this, hs]
    simp
  have hloop := loop_build48 E (img16 h 16 keys slots)
    ({ (zeroImg 2 : Img C) with children := slots.take 16 ++ List.replicate (48 - 16) none }) b (some c) 16 rfl
    (by show 16 ≤ keys.length; omega) (by omega) 16 0 loopFuel (List.replicate 256 0) (by omega) (by simp only [loopFuel]; omega)
    (by rw [List.length_replicate])
  have hclear := node16_clear_eq E h 16 keys slots hs hk
  have hidxlen : ((List.range' 0 16).foldl (idxStep keys) (List.replicate 256 0)).length = 256 := by
    rw [foldl_idxStep_length, List.length_replicate]
  have hs48 : (slots.take 16 ++ List.replicate (48 - 16) (none : Option C)).length = 48 := by simp [hs]
  have hff : firstFree (slots.take 16 ++ List.replicate (48 - 16) (none : Option C)) < 48 := by
    have := firstFree_lt_of_mem (slots.take 16 ++ List.replicate (48 - 16) (none : Option C)) (by simp)
    rw [hs48] at this; exact this
  have h48 := node48_addChild_small E h 16 ((List.range' 0 16).foldl (idxStep keys) (List.replicate 256 0))
    (slots.take 16 ++ List.replicate (48 - 16) none) b c hs48 hidxlen (by omega) hff
  have himg : ({ ({ (zeroImg 2 : Img C) with children := slots.take 16 ++ List.replicate (48 - 16) none } : Img C) with
        keysA := (List.range' 0 16).foldl (idxStep (img16 h 16 keys slots : Img C).keysA) (List.replicate 256 0),
        childrenLen := (img16 h 16 keys slots : Img C).childrenLen,
        prefixLen := (img16 h 16 keys slots : Img C).prefixLen,
        «prefix» := (img16 h 16 keys slots : Img C).«prefix» } : Img C) =
      img16 h 16 ((List.range' 0 16).foldl (idxStep keys) (List.replicate 256 0))
        (slots.take 16 ++ List.replicate (48 - 16) none) := rfl
  have hz : ({ ({ (zeroImg 2 : Img C) with children := slots.take 16 ++ List.replicate (48 - 16) none } : Img C) with
      keysA := List.replicate 256 0 } : Img C) =
      { (zeroImg 2 : Img C) with children := slots.take 16 ++ List.replicate (48 - 16) none } := rfl
  rw [hz] at hloop
  simp only [node16_addChild, hd, Bool.false_eq_true, if_false, hpz 2, Option.bind_eq_bind, hcopy, Option.bind_some,
    show (0 : UInt8) = UInt8.ofNat 0 from rfl, hloop, hclear, pure, List.nil_append, List.append_nil]
  change (node48_addChild E (img16 h 16 ((List.range' 0 16).foldl (idxStep keys) (List.replicate 256 0))
    (slots.take 16 ++ List.replicate (48 - 16) none)) b (some c)).bind _ = _
  rw [h48]
  simp only [Option.bind_some, add16, maxNode16_eq, show ¬ (16 < 16) by omega, ↓reduceIte, List.range_eq_range',
    List.nil_append]
  rfl

theorem node4_addChild_small (E : Env C) (h : Hdr) (len : Nat) (keys : BitVec 32) (slots : List (Option C)) (b : UInt8) (c : C)
    (hs : slots.length = 4) (hlen : len < 4) :
    node4_addChild E (img4 h len keys slots) b (some c) =
      some { out := outOf (add4 h len keys slots b c), released := [] } := by
  have hd : decide ((img4 h len keys slots : Img C).childrenLen < (4 : UInt8)) = true := by
    have := hl_lt' len 4 (by omega) (by omega)
    rw [show UInt8.ofNat 4 = (4 : UInt8) from rfl] at this
    show decide (hl len < 4) = true
    rw [this]; simpa using hlen
  have hlt : (hl len).toNat = len := hl_toNat _ (by omega)
  -- the same fact for the guard-clause form `if n4.childrenLen >= maxNode4 { grow; return }` of the method
  have hd' : decide ((img4 h len keys slots : Img C).childrenLen ≥ (4 : UInt8)) = false := by
    show decide ((4 : UInt8) ≤ hl len) = false
    rw [decide_eq_false_iff_not, UInt8.le_iff_toNat_le, hlt]; show ¬ 4 ≤ len; omega
  simp only [node4_addChild, hd, hd', if_true, Bool.false_eq_true, if_false]
  simp only [img4, hlt, add4, maxNode4_eq, hlen, ↓reduceIte, outOf, b8]
  rcases firstIdx_cases (fun k => decide (b ≤ k)) (lanes keys) with h1 | ⟨n, h1, hn⟩
  · simp only [insertPosNode4_spec, h1]
    have e : ¬ (((-1 : Int) != -1) = true) := by decide
    simp only [e, if_false, Bool.false_eq_true, ↓reduceIte, natOf_nat,
      setIdx_nat _ _ _ (show len < slots.length by omega), Option.bind_eq_bind, Option.bind_some, pure, hl_succ,
      Int.toNat_natCast, imgOf, img4]
    rw [Nat.mod_eq_of_lt (by omega)]
  · simp only [insertPosNode4_spec, h1]
    have hn' : n < 4 := by rw [lanes_length] at hn; exact hn
    have e : (((n : Int) != -1) = true) := by simp
    simp only [e, if_true, ↓reduceIte, natOf_nat, Option.bind_eq_bind, Option.bind_some]
    rw [goCopy_up slots n (by omega)]
    simp only [Option.bind_some, setIdx_nat _ _ _ (show n < (shiftUp slots n).length by rw [shiftUp_length]; omega),
      pure, hl_succ, Int.toNat_natCast, imgOf, img4]
    rw [Nat.mod_eq_of_lt (by omega)]

theorem node4_addChild_grow (E : Env C) (hpz : PoolsZero E) (h : Hdr) (keys : BitVec 32) (slots : List (Option C))
    (b : UInt8) (c : C) (hs : slots.length = 4) :
    node4_addChild E (img4 h 4 keys slots) b (some c) =
      some { out := outOf (add4 h 4 keys slots b c), released := [(0, zeroImg 0)] } := by
  have hd : decide ((img4 h 4 keys slots : Img C).childrenLen < (4 : UInt8)) = false :=
    hl_not_lt 4 4 (by omega) (by omega) (by omega) _ rfl
  have hck : goCopy (zeroImg 1 : Img C).keysA (0 : Int) (((zeroImg 1 : Img C).keysA.length : Nat) : Int)
      ((Gen.deconstruct (img4 h 4 keys slots : Img C).keysW).map GoNode.u8) (0 : Int)
      ((((Gen.deconstruct (img4 h 4 keys slots : Img C).keysW).map GoNode.u8).length : Nat) : Int) =
      some ((Gen.deconstruct keys).map Raw.u8 ++ List.replicate 12 0) := by
    have := goCopy_front (List.replicate 16 (0 : UInt8)) ((Gen.deconstruct keys).map Raw.u8) 16 (by simp)
    simp only [img4, img16, zeroImg, imgOf, zero16, List.length_replicate]
    rw [show ((Gen.deconstruct keys).map GoNode.u8) = ((Gen.deconstruct keys).map Raw.u8) from rfl, this]
    simp [Gen.deconstruct]
  have hcs : goCopy (zeroImg 1 : Img C).children (0 : Int) (((zeroImg 1 : Img C).children.length : Nat) : Int)
      (img4 h 4 keys slots : Img C).children (0 : Int) (((img4 h 4 keys slots : Img C).children.length : Nat) : Int) =
      some (slots.take 4 ++ List.replicate 12 none) := by
    have := goCopy_front (List.replicate 16 (none : Option C)) slots 16 (by simp)
    simp only [img4, img16, zeroImg, imgOf, zero16, List.length_replicate]
    rw [this, hs]
    simp [List.take_of_length_le, hs]
  have hs16 : (slots.take 4 ++ List.replicate 12 (none : Option C)).length = 16 := by simp [hs]
  have hk16 : ((Gen.deconstruct keys).map Raw.u8 ++ List.replicate 12 (0 : UInt8)).length = 16 := by
    simp [Gen.deconstruct]
  have h16 := node16_addChild_small E h 4 ((Gen.deconstruct keys).map Raw.u8 ++ List.replicate 12 0)
    (slots.take 4 ++ List.replicate 12 none) b c hs16 hk16 (by omega)
  have hclear := node4_clear_eq E h 4 keys slots hs
  have hd' : decide ((img4 h 4 keys slots : Img C).childrenLen ≥ (4 : UInt8)) = true := by
    show decide ((4 : UInt8) ≤ hl 4) = true
    rfl
  simp only [node4_addChild, hd, hd', if_true, Bool.false_eq_true, if_false, hpz 1, Option.bind_eq_bind, hck, hcs, Option.bind_some,
    hclear, pure, List.nil_append, List.append_nil]
  change (node16_addChild E (img16 h 4 ((Gen.deconstruct keys).map Raw.u8 ++ List.replicate 12 0)
    (slots.take 4 ++ List.replicate 12 none)) b (some c)).bind _ = _
  rw [h16]
  simp only [Option.bind_some, add4, maxNode4_eq, show ¬ (4 < 4) by omega, ↓reduceIte, List.nil_append]

/-! ### deleteChild -/

theorem node16_deleteChild_eq (E : Env C) (hpz : PoolsZero E) (h : Hdr) (len : Nat) (keys : Bytes) (slots : List (Option C))
    (b : UInt8) (pos : Nat) (hs : slots.length = 16) (hk : keys.length = 16) (hlen : len ≤ 16) (h0 : 0 < len)
    (hpos : searchNode16 keys len b = (pos : Int)) (hp16 : pos < 16) :
    node16_deleteChild E (img16 h len keys slots) b =
      some { out := match remove16 h len keys slots b with | .node r => outOf r | .collapse _ _ c => .child c,
             released := if (len + 255) % 256 == shrink16 then [(1, zeroImg 1)] else [] } := by
  have hlt : (hl len).toNat = len := hl_toNat _ (by omega)
  have hlen' : (len + 255) % 256 = len - 1 := by omega
  simp only [node16_deleteChild, img16, hlt, hpos]
  rw [show (16 : Nat) = keys.length from hk.symm] at hp16
  rw [goCopy_down keys pos hp16]
  simp only [Option.bind_eq_bind, Option.bind_some]
  rw [show keys.length = slots.length by rw [hk, hs]] at hp16
  rw [goCopy_down slots pos hp16]
  simp only [Option.bind_some, hl_pred, remove16, hpos, Int.toNat_natCast]
  have hbeq : (hl ((len + 255) % 256) == (3 : UInt8)) = ((len + 255) % 256 == shrink16) := by
    have := hl_beq ((len + 255) % 256) 3 (by omega) (by omega)
    rw [show UInt8.ofNat 3 = (3 : UInt8) from rfl] at this
    rw [this]; rfl
  by_cases hsh : ((len + 255) % 256 == shrink16) = true
  · have hclear := node16_clear_eq E h ((len + 255) % 256) (shiftDown keys pos) (shiftDown slots pos)
      (by rw [shiftDown_length, hs]) (by rw [shiftDown_length, hk])
    have hcp : goCopy (zeroImg 0 : Img C).children (0 : Int) (((zeroImg 0 : Img C).children.length : Nat) : Int)
        (shiftDown slots pos) (0 : Int) (((shiftDown slots pos).length : Nat) : Int) =
        some ((shiftDown slots pos).take 4) := by
      have := goCopy_front (List.replicate 4 (none : Option C)) (shiftDown slots pos) 4 (by simp)
      simp only [img4, zeroImg, imgOf, zero4, List.length_replicate]
      rw [this]
      have : (shiftDown slots pos).length = 16 := by rw [shiftDown_length, hs]
      simp [this]
    have hg : ∀ i, i < 16 → idx? (shiftDown keys pos) ((i : Nat) : Int) = some ((shiftDown keys pos).getD i 0) := by
      intro i hi
      rw [idx?_nat]; exact getD_eq_some _ _ (by rw [shiftDown_length, hk]; exact hi)
    have e0 : idx? (shiftDown keys pos) (0 : Int) = some ((shiftDown keys pos).getD 0 0) := hg 0 (by omega)
    have e1 : idx? (shiftDown keys pos) (1 : Int) = some ((shiftDown keys pos).getD 1 0) := hg 1 (by omega)
    have e2 : idx? (shiftDown keys pos) (2 : Int) = some ((shiftDown keys pos).getD 2 0) := hg 2 (by omega)
    have e3 : idx? (shiftDown keys pos) (3 : Int) = some ((shiftDown keys pos).getD 3 0) := hg 3 (by omega)
    rw [if_pos (by rw [hbeq]; exact hsh)]
    simp only [hpz 0, e0, e1, e2, e3, Option.bind_some, hsh, if_true, ↓reduceIte]
    rw [hcp, Option.bind_some]
    simp only [img16] at hclear
    rw [hclear]
    rfl
  · rw [if_neg (by rw [hbeq]; exact hsh)]
    simp only [hsh, Bool.false_eq_true, if_false, ↓reduceIte]
    rfl

theorem node48_deleteChild_noshrink (E : Env C) (h : Hdr) (len : Nat) (idx : Bytes) (slots : List (Option C))
    (b : UInt8) (hs : slots.length = 48) (hi : idx.length = 256) (hlen : len < 256)
    (hnz : idx.getD b.toNat 0 ≠ 0) (hle : (idx.getD b.toNat 0).toNat ≤ 48)
    (hsh : ¬ ((len + 255) % 256 == shrink48) = true) :
    node48_deleteChild E (img16 h len idx slots) b =
      some { out := match remove48 h len idx slots b with | .node r => outOf r | .collapse _ _ c => .child c,
             released := [] } := by
  have hb : b.toNat < idx.length := by rw [hi]; exact UInt8.toNat_lt b
  have hpos := u8_pos _ hnz
  have hbeq : (hl ((len + 255) % 256) == (12 : UInt8)) = ((len + 255) % 256 == shrink48) := by
    have := hl_beq ((len + 255) % 256) 12 (by omega) (by omega)
    rw [show UInt8.ofNat 12 = (12 : UInt8) from rfl] at this
    rw [this]; rfl
  simp only [node48_deleteChild, img16, idx?_nat, getD_eq_some idx _ hb, Option.bind_eq_bind, Option.bind_some,
    setIdx_nat _ _ _ hb, u8_pred_toNat _ hnz, setIdx_nat _ _ _ (show (idx.getD b.toNat 0).toNat - 1 < slots.length by omega),
    hl_pred]
  rw [if_neg (by rw [hbeq]; exact hsh)]
  simp only [remove48, hsh, Bool.false_eq_true, if_false, ↓reduceIte]
  rfl

theorem node256_deleteChild_noshrink (E : Env C) (h : Hdr) (len : Nat) (slots : List (Option C))
    (b : UInt8) (hs : slots.length = 256) (hlen : len < 256)
    (hsh : ¬ ((len + 255) % 256 == shrink256) = true) :
    node256_deleteChild E (img256 h len slots) b =
      some { out := match remove256 h len slots b with | .node r => outOf r | .collapse _ _ c => .child c,
             released := [] } := by
  have hb : b.toNat < slots.length := by rw [hs]; exact UInt8.toNat_lt b
  have hbeq : (hl ((len + 255) % 256) == (37 : UInt8)) = ((len + 255) % 256 == shrink256) := by
    have := hl_beq ((len + 255) % 256) 37 (by omega) (by omega)
    rw [show UInt8.ofNat 37 = (37 : UInt8) from rfl] at this
    rw [this]; rfl
  simp only [node256_deleteChild, img256, Option.bind_eq_bind, Option.bind_some, setIdx_nat _ _ _ hb, hl_pred]
  rw [if_neg (by rw [hbeq]; exact hsh)]
  simp only [remove256, hsh, Bool.false_eq_true, if_false, ↓reduceIte]
  rfl

/-! ### `uint32` prefix lengths -/

theorem hp_toNat (h : Hdr) (hb : h.plen < 2^32) : (hp h).toNat = h.plen := by
  simp [hp]; omega
theorem u32_lt_iff (a b : UInt32) : decide (a < b) = decide (a.toNat < b.toNat) := by
  simp [UInt32.lt_iff_toNat_lt]
theorem u32_add_toNat (a b : UInt32) (h : a.toNat + b.toNat < 2^32) : (a + b).toNat = a.toNat + b.toNat := by
  rw [UInt32.toNat_add]; omega
theorem u32_sub_toNat (a b : UInt32) (h : b.toNat ≤ a.toNat) : (a - b).toNat = a.toNat - b.toNat := by
  rw [UInt32.toNat_sub_of_le]; rw [UInt32.le_iff_toNat_le]; exact h
theorem u32_min_toNat (a b : UInt32) : (min a b).toNat = min a.toNat b.toNat := by
  show (if a ≤ b then a else b).toNat = _
  by_cases h : a ≤ b
  · rw [if_pos h]; rw [UInt32.le_iff_toNat_le] at h; omega
  · rw [if_neg h]; rw [UInt32.le_iff_toNat_le] at h; omega

def hdrOf (v : HdrV) : Hdr := { plen := v.prefixLen.toNat, pfx := v.«prefix» }
def hdrV (v : HdrV) (m : Hdr) : HdrV := { prefixLen := UInt32.ofNat m.plen, childrenLen := v.childrenLen, «prefix» := m.pfx }

theorem copy_into_prefix (pfx chp : Bytes) (p : Nat) (h1 : pfx.length = 10) (h2 : chp.length = 10) (hp : p ≤ 10) :
    goCopy pfx (p : Int) ((pfx.length : Nat) : Int) chp (0 : Int) ((chp.length : Nat) : Int) =
      some ((pfx.take p ++ chp).take 10) := by
  have := goCopy_nat pfx chp p pfx.length 0 chp.length (by omega) (Nat.le_refl _) (by omega) (Nat.le_refl _)
  rw [show (0 : Int) = ((0 : Nat) : Int) from rfl, this]
  congr 1
  rw [h1, h2, List.take_append, List.length_take, h1, Nat.min_eq_left hp, List.take_take, Nat.min_eq_right hp]
  rw [show min (10 - p) (10 - 0) = 10 - p by omega, show p + (10 - p) = 10 by omega, List.drop_zero]
  rw [List.drop_of_length_le (by omega), List.append_nil]

theorem copy_back_prefix (pfx chp : Bytes) (hi : Nat) (h1 : pfx.length = 10) (h2 : chp.length = 10) (hhi : hi ≤ 10) :
    goCopy chp (0 : Int) ((chp.length : Nat) : Int) pfx (0 : Int) (hi : Int) = some (pfx.take hi ++ chp.drop hi) := by
  have := goCopy_nat chp pfx 0 chp.length 0 hi (by omega) (Nat.le_refl _) (by omega) (by omega)
  rw [show (0 : Int) = ((0 : Nat) : Int) from rfl, this]
  congr 1
  rw [h2, show min (10 - 0) (hi - 0) = hi by omega, List.take_zero, List.nil_append, List.drop_zero, Nat.zero_add]

/-- what `*ref` designates after `node4.deleteChild`, read off the raw-node model: the node itself, or – when one child
    is left – that child, whose header (if it is an inner node) has absorbed the node4's path, its last branch byte and
    its own path (`Raw.mergeHdr`) -/
def collapseOut (E : Env C) : DelRes C → Out C
  | .node r => outOf r
  | .collapse _ _ none => .child none
  | .collapse h kb (some cc) =>
    if E.isLeaf cc then .child (some cc)
    else .child (some (E.setHdr cc (hdrV (E.hdr cc) (mergeHdr h kb (hdrOf (E.hdr cc))))))

theorem node4_deleteChild_eq (E : Env C) (h : Hdr) (len : Nat) (keys : BitVec 32) (slots : List (Option C))
    (b : UInt8) (pos : Nat) (hs : slots.length = 4) (hpf : h.pfx.length = 10) (hlen : len ≤ 4) (h0 : 0 < len)
    (hplen : h.plen < 2 ^ 31)
    (hpos : searchNode4 keys b.toBitVec = (pos : Int)) (hp4 : pos < 4)
    (hch : ∀ cc, (shiftDown slots pos)[0]? = some (some cc) → E.isLeaf cc = false →
      (E.hdr cc).«prefix».length = 10 ∧ (E.hdr cc).prefixLen.toNat < 2 ^ 31)
    (hnn : (len + 255) % 256 = collapse4 → ∃ cc, (shiftDown slots pos)[0]? = some (some cc)) :
    node4_deleteChild E (img4 h len keys slots) b =
      some { out := collapseOut E (remove4 h len keys slots b),
             released := if (len + 255) % 256 == collapse4 then [(0, zeroImg 0)] else [] } := by
  have hlt : (hl len).toNat = len := hl_toNat _ (by omega)
  have hbeq : (hl ((len + 255) % 256) == (1 : UInt8)) = ((len + 255) % 256 == collapse4) := by
    have := hl_beq ((len + 255) % 256) 1 (by omega) (by omega)
    rw [show UInt8.ofNat 1 = (1 : UInt8) from rfl] at this
    rw [this]; rfl
  have e : (((pos : Int) != -1) = true) := by simp
  have hcast : ((pos : Int) + 1) = ((pos + 1 : Nat) : Int) := by omega
  simp only [node4_deleteChild, img4, hpos, e, if_true, ↓reduceIte, hcast, natOf_nat, Option.bind_eq_bind, Option.bind_some]
  rw [← hcast, goCopy_down slots pos (by omega)]
  simp only [Option.bind_some, hl_pred]
  have hsd : (shiftDown slots pos).length = 4 := by rw [shiftDown_length, hs]
  have hrem : remove4 h len keys slots b =
      if ((len + 255) % 256 == collapse4) = true then
        .collapse h (Raw.u8 (getAtPos (shiftRightClear keys (pos + 1)) 0)) ((shiftDown slots pos)[0]?).join
      else .node (.n4 h ((len + 255) % 256) (shiftRightClear keys (pos + 1)) (shiftDown slots pos)) := by
    simp only [remove4, b8, hpos, e, if_true, ↓reduceIte, Int.toNat_natCast]
  rw [hrem]
  by_cases hc : ((len + 255) % 256 == collapse4) = true
  · rw [if_pos (by rw [hbeq]; exact hc), if_pos hc, if_pos hc]
    obtain ⟨cc, hcc⟩ := hnn (by simpa using hc)
    have hidx : idx? (shiftDown slots pos) (0 : Int) = some (some cc) := by
      rw [show (0 : Int) = ((0 : Nat) : Int) from rfl, idx?_nat]; exact hcc
    have hj : ((shiftDown slots pos)[0]?).join = some cc := by rw [hcc]; rfl
    rw [hj]
    simp only [hidx, Option.bind_some, collapseOut]
    have hclr : ∀ n : Img C, n.children.length = 4 → n.keysA = [] → node4_clear E n = some (zeroImg 0) := by
      intro n h4 hk
      simp [node4_clear, zeroImg, imgOf, zero4, clearAll, h4, hk, zeroPrefix, img4, hp, hl]
    by_cases hleaf : E.isLeaf cc = true
    · simp only [hleaf, Bool.not_true, Bool.false_eq_true, if_false, ↓reduceIte, Option.bind_some,
        Option.map_some, pure, List.nil_append, if_true]
      rw [hclr _ hsd rfl]; rfl
    · have hleaf' : E.isLeaf cc = false := by simpa using hleaf
      obtain ⟨hcp, hcl⟩ := hch cc hcc hleaf'
      simp only [hleaf', Bool.not_false, if_true, ↓reduceIte, Bool.false_eq_true, if_false]
      have hpn : (hp h).toNat = h.plen := hp_toNat h (by omega)
      have hpn1 : (hp h + 1).toNat = h.plen + 1 := by
        rw [u32_add_toNat _ _ (by rw [hpn]; show h.plen + 1 < 2 ^ 32; omega), hpn]; rfl
      have c1 : decide (hp h < 10) = decide (h.plen < 10) := by
        rw [u32_lt_iff, hpn]; rfl
      have c2 : decide (hp h + 1 < 10) = decide (h.plen + 1 < 10) := by
        rw [u32_lt_iff, hpn1]; rfl
      have hplenEq : (E.hdr cc).prefixLen + (hp h + 1) = UInt32.ofNat ((E.hdr cc).prefixLen.toNat + h.plen + 1) := by
        apply UInt32.toNat_inj.1
        rw [u32_add_toNat _ _ (by rw [hpn1]; omega), hpn1]
        simp; omega
      have hkb : GoNode.u8 (getAtPos (shiftRightClear keys (pos + 1)) 0) = Raw.u8 (getAtPos (shiftRightClear keys (pos + 1)) 0) := rfl
      simp only [natOf, hpn, hpn1, hplenEq, hkb, Int.toNat_zero, Option.bind_some]
      have hmin10 : ∀ x : UInt32, (min (10 : UInt32) x).toNat = min 10 x.toNat := fun x => u32_min_toNat 10 x
      by_cases hA : h.plen < 10
      · have d1 : decide (hp h < 10) = true := by rw [c1]; simpa using hA
        split
        next =>
          simp only [Int.le_refl, ↓reduceIte, Option.bind_some, setIdx_nat _ _ _ (show h.plen < h.pfx.length by omega)]
          by_cases hB : h.plen + 1 < 10
          · have d2 : decide (hp h + 1 < 10) = true := by rw [c2]; simpa using hB
            split
            next =>
              have hsub : ((10 : UInt32) - (hp h + 1)).toNat = 10 - (h.plen + 1) := by
                rw [u32_sub_toNat _ _ (by rw [hpn1]; show h.plen + 1 ≤ 10; omega), hpn1]; rfl
              have hm : (min (E.hdr cc).prefixLen ((10 : UInt32) - (hp h + 1))).toNat =
                  min (E.hdr cc).prefixLen.toNat (10 - (h.plen + 1)) := by rw [u32_min_toNat, hsub]
              have hsum : (hp h + 1 + min (E.hdr cc).prefixLen ((10 : UInt32) - (hp h + 1))).toNat =
                  h.plen + 1 + min (E.hdr cc).prefixLen.toNat (10 - (h.plen + 1)) := by
                rw [u32_add_toNat _ _ (by rw [hpn1, hm]; omega), hpn1, hm]
              have hhi : (min (10 : UInt32) (hp h + 1 + min (E.hdr cc).prefixLen ((10 : UInt32) - (hp h + 1)))).toNat =
                  min 10 (h.plen + 1 + min (E.hdr cc).prefixLen.toNat (10 - (h.plen + 1))) := by rw [hmin10, hsum]
              have hl' : (h.pfx.set h.plen (GoNode.u8 (getAtPos (shiftRightClear keys (pos + 1)) 0))).length = 10 := by
                simp [hpf]
              rw [hhi, copy_into_prefix _ _ (h.plen + 1) hl' hcp (by omega)]
              simp only [Option.bind_some]
              rw [copy_back_prefix _ _ _ (by simp [hpf, hcp]) hcp (by omega)]
              simp only [Option.bind_some, Option.map_some, pure, List.nil_append]
              rw [hclr _ hsd rfl]
              simp only [Option.bind_some, hdrV, hdrOf, mergeHdr, maxPrefixLen, hA, ↓reduceIte, hB]
              rfl
            next hx => exact absurd d2 hx
          · have d2 : decide (hp h + 1 < 10) = false := by rw [c2]; simpa using hB
            split
            next hx => exact absurd (d2.symm.trans hx) (by decide)
            next =>
              have hhi : (min (10 : UInt32) (hp h + 1)).toNat = 10 := by rw [hmin10, hpn1]; omega
              rw [hhi, copy_back_prefix _ _ 10 (by simp [hpf]) hcp (by omega)]
              simp only [Option.bind_some, Option.map_some, pure, List.nil_append]
              rw [hclr _ hsd rfl]
              simp only [Option.bind_some, hdrV, hdrOf, mergeHdr, maxPrefixLen, hA, ↓reduceIte, hB]
              have : min 10 (h.plen + 1) = 10 := by omega
              simp only [this]
              rfl
        next hx => exact absurd d1 hx
      · have d1 : decide (hp h < 10) = false := by rw [c1]; simpa using hA
        split
        next hx => exact absurd (d1.symm.trans hx) (by decide)
        next =>
          have hhi : (min (10 : UInt32) (hp h)).toNat = 10 := by rw [hmin10, hpn]; omega
          rw [hhi, copy_back_prefix _ _ 10 hpf hcp (by omega)]
          simp only [Option.bind_some, Option.map_some, pure, List.nil_append]
          rw [hclr _ hsd rfl]
          simp only [Option.bind_some, hdrV, hdrOf, mergeHdr, maxPrefixLen, hA, ↓reduceIte]
          have : min 10 h.plen = 10 := by omega
          simp only [this]
  · rw [if_neg (by rw [hbeq]; exact hc), if_neg hc, if_neg hc]
    rfl

/-! ### the 256 → 48 shrink loop -/

/-- occupied positions among the first `i` slots, ascending -/
def liveUpTo (slots : List (Option C)) (i : Nat) : List (Nat × C) :=
  (List.range i).filterMap fun j =>
    match (slots[j]?).join with
    | some c => some (j, c)
    | none => none

theorem liveUpTo_256 (slots : List (Option C)) : liveUpTo slots 256 = live256 slots := rfl

theorem liveUpTo_succ (slots : List (Option C)) (i : Nat) :
    liveUpTo slots (i + 1) = liveUpTo slots i ++
      (match (slots[i]?).join with | some c => [(i, c)] | none => []) := by
  unfold liveUpTo
  rw [List.range_succ, List.filterMap_append]
  congr 1
  cases h : (slots[i]?).join <;> simp [h]

theorem liveUpTo_mono (slots : List (Option C)) (j k : Nat) :
    (liveUpTo slots j).length ≤ (liveUpTo slots (j + k)).length := by
  induction k with
  | zero => exact Nat.le_refl _
  | succ k ih =>
    rw [← Nat.add_assoc, liveUpTo_succ, List.length_append]
    omega

/-- the node48 index built from a list of (position, child) pairs: entry `j` of the list gets slot `j` (stored `j+1`) -/
def idxOf (L : List (Nat × C)) : Bytes :=
  (List.range L.length).foldl
    (fun acc j => match L[j]? with | some (i, _) => acc.set i (UInt8.ofNat (j + 1)) | none => acc)
    (List.replicate 256 0)

theorem idxOf_snoc (L : List (Nat × C)) (i : Nat) (c : C) :
    idxOf (L ++ [(i, c)]) = (idxOf L).set i (UInt8.ofNat (L.length + 1)) := by
  unfold idxOf
  rw [List.length_append, List.length_singleton, List.range_succ, List.foldl_append, List.foldl_cons, List.foldl_nil]
  have e : (L ++ [(i, c)])[L.length]? = some (i, c) := by simp
  simp only [e]
  congr 1
  apply foldl_congr'
  intro acc j hj
  have hj' : j < L.length := List.mem_range.1 hj
  rw [List.getElem?_append_left hj']

theorem idxOf_length (L : List (Nat × C)) : (idxOf L).length = 256 := by
  unfold idxOf
  generalize List.range L.length = R
  have : ∀ (R : List Nat) (acc : Bytes), acc.length = 256 →
      (R.foldl (fun acc j => match L[j]? with | some (i, _) => acc.set i (UInt8.ofNat (j + 1)) | none => acc) acc).length = 256 := by
    intro R
    induction R with
    | nil => intro acc h; exact h
    | cons x xs ih =>
      intro acc h
      rw [List.foldl_cons]
      apply ih
      cases L[x]? with
      | none => exact h
      | some p => obtain ⟨i, _⟩ := p; simp [h]
  exact this R _ (by rw [List.length_replicate])

theorem set_fill' {α} (A : List α) (k : Nat) (z v : α) :
    (A ++ List.replicate (k + 1) z).set A.length v = A ++ v :: List.replicate k z := by
  rw [List.set_append_right _ _ (Nat.le_refl _)]
  simp [List.replicate_succ]

theorem u8_ofInt_succ (n : Nat) : UInt8.ofInt ((n : Int) + 1) = UInt8.ofNat (n + 1) := by
  apply UInt8.toNat_inj.1
  simp [UInt8.ofInt, UInt8.toNat_ofNat']
  omega

theorem loop_shrink256 (E : Env C) (n256 m : Img C) (b : UInt8)
    (hs : n256.children.length = 256) (hlive : (live256 n256.children).length ≤ 48) :
    ∀ (d i fuel : Nat), i + d = 256 → d < fuel →
      node256_deleteChild.loop0 E n256 b fuel
        ({ m with children := (liveUpTo n256.children i).map (fun ic => some ic.2) ++ List.replicate (48 - (liveUpTo n256.children i).length) none, keysA := idxOf (liveUpTo n256.children i) },
         ((liveUpTo n256.children i).length : Int), (i : Int)) =
      some ({ m with children := (live256 n256.children).map (fun ic => some ic.2) ++ List.replicate (48 - (live256 n256.children).length) none, keysA := idxOf (live256 n256.children) },
            ((live256 n256.children).length : Int), (256 : Int)) := by
  intro d
  induction d with
  | zero =>
    intro i fuel hi hf
    obtain ⟨fuel, rfl⟩ : ∃ k, fuel = k + 1 := ⟨fuel - 1, by omega⟩
    have : i = 256 := by omega
    subst this
    have hc : (decide (((256 : Nat) : Int) < 256)) = false := by decide
    simp only [node256_deleteChild.loop0, hc, liveUpTo_256]
    rfl
  | succ d ih =>
    intro i fuel hi hf
    obtain ⟨fuel, rfl⟩ : ∃ k, fuel = k + 1 := ⟨fuel - 1, by omega⟩
    have hi' : i < 256 := by omega
    have hc : (decide ((i : Int) < 256)) = true := by simp; omega
    have hcast : ((i : Int) + 1) = ((i + 1 : Nat) : Int) := by omega
    have hget : n256.children[i]? = some ((n256.children[i]?).join) := by
      rw [List.getElem?_eq_getElem (by omega)]; rfl
    have hsub : (liveUpTo n256.children (i + 1)).length ≤ 48 := by
      have : (liveUpTo n256.children (i + 1)).length ≤ (live256 n256.children).length := by
        have h := liveUpTo_mono n256.children (i + 1) (256 - (i + 1))
        have e : i + 1 + (256 - (i + 1)) = 256 := by omega
        rw [e, liveUpTo_256] at h
        exact h
      omega
    simp only [node256_deleteChild.loop0, hc, if_true, idx?_nat, Option.bind_eq_bind]
    rw [hget]
    simp only [Option.bind_some]
    rw [liveUpTo_succ] at hsub
    have := ih (i + 1) fuel (by omega) (by omega)
    rw [liveUpTo_succ] at this
    rcases hx : (n256.children[i]?).join with _ | c
    · rw [hx] at this hsub
      simp only [List.append_nil] at this
      simp only [Option.isSome_none, Bool.false_eq_true, if_false, ↓reduceIte, hcast]
      exact this
    · rw [hx] at this hsub
      simp only [Option.isSome_some, if_true, ↓reduceIte, hget, hx, Option.bind_some]
      simp only [List.length_append, List.length_singleton] at hsub
      have hrep : List.replicate (48 - (liveUpTo n256.children i).length) (none : Option C) =
          List.replicate (48 - ((liveUpTo n256.children i).length + 1) + 1) none := by
        have : 48 - (liveUpTo n256.children i).length = 48 - ((liveUpTo n256.children i).length + 1) + 1 := by omega
        rw [this]
      have hlen : ((liveUpTo n256.children i).map (fun ic => some ic.2)).length = (liveUpTo n256.children i).length := by
        rw [List.length_map]
      rw [hrep, setIdx_nat _ _ _ (by rw [List.length_append, List.length_map, List.length_replicate]; omega)]
      simp only [Option.bind_some]
      rw [← hlen, set_fill', hlen]
      rw [setIdx_nat _ _ _ (by rw [idxOf_length]; exact hi')]
      simp only [Option.bind_some, u8_ofInt_succ, hcast]
      rw [List.length_append, List.length_singleton, List.map_append, List.map_singleton, idxOf_snoc,
        List.append_assoc, List.singleton_append] at this
      rw [show (((liveUpTo n256.children i).length : Int) + 1) = (((liveUpTo n256.children i).length + 1 : Nat) : Int) by omega]
      exact this

theorem node256_deleteChild_shrink (E : Env C) (hpz : PoolsZero E) (h : Hdr) (len : Nat) (slots : List (Option C))
    (b : UInt8) (hs : slots.length = 256) (hlen : len < 256)
    (hsh : ((len + 255) % 256 == shrink256) = true)
    (hlive : (live256 (slots.set b.toNat none)).length ≤ 48) :
    node256_deleteChild E (img256 h len slots) b =
      some { out := match remove256 h len slots b with | .node r => outOf r | .collapse _ _ c => .child c,
             released := [(3, zeroImg 3)] } := by
  have hb : b.toNat < slots.length := by rw [hs]; exact UInt8.toNat_lt b
  have hbeq : (hl ((len + 255) % 256) == (37 : UInt8)) = ((len + 255) % 256 == shrink256) := by
    have := hl_beq ((len + 255) % 256) 37 (by omega) (by omega)
    rw [show UInt8.ofNat 37 = (37 : UInt8) from rfl] at this
    rw [this]; rfl
  have hs' : (slots.set b.toNat none).length = 256 := by rw [List.length_set, hs]
  have hloop := loop_shrink256 E (img256 h ((len + 255) % 256) (slots.set b.toNat none))
    ({ (zeroImg 2 : Img C) with childrenLen := hl ((len + 255) % 256), prefixLen := hp h, «prefix» := h.pfx }) b hs' hlive
    256 0 loopFuel (by omega) (by simp only [loopFuel]; omega)
  have hclear := node256_clear_eq E h ((len + 255) % 256) (slots.set b.toNat none) hs'
  simp only [node256_deleteChild, img256, Option.bind_eq_bind, Option.bind_some, setIdx_nat _ _ _ hb, hl_pred]
  rw [if_pos (by rw [hbeq]; exact hsh)]
  simp only [img256] at hloop hclear
  simp only [hpz 2, Option.bind_eq_bind]
  change (node256_deleteChild.loop0 E _ b loopFuel (_, ((0 : Nat) : Int), ((0 : Nat) : Int))).bind _ = _
  have key : node256_deleteChild.loop0 E { prefixLen := hp h, childrenLen := hl ((len + 255) % 256), «prefix» := h.pfx, children := slots.set b.toNat none, keysW := 0#32, keysA := [] } b loopFuel ({ prefixLen := hp h, childrenLen := hl ((len + 255) % 256), «prefix» := h.pfx, children := (zeroImg 2 : Img C).children, keysW := (zeroImg 2 : Img C).keysW, keysA := (zeroImg 2 : Img C).keysA }, ((0 : Nat) : Int), ((0 : Nat) : Int)) = _ := hloop
  rw [key, Option.bind_some, hclear, Option.bind_some]
  simp only [remove256, hsh, ↓reduceIte, pure, List.nil_append]
  rfl

/-! ### the 48 → 16 shrink loop -/

/-- (byte, slot content) of the non-zero index bytes among the first `i`, ascending -/
def live48 (idx : Bytes) (slots : List (Option C)) (i : Nat) : List (UInt8 × Option C) :=
  (List.range i).filterMap fun j =>
    let p : UInt8 := idx.getD j 0
    if p != 0 then some (UInt8.ofNat j, (slots[p.toNat - 1]?).join) else none

theorem live48_succ (idx : Bytes) (slots : List (Option C)) (i : Nat) :
    live48 idx slots (i + 1) = live48 idx slots i ++
      (if (idx.getD i 0 != 0) = true then [(UInt8.ofNat i, (slots[(idx.getD i 0).toNat - 1]?).join)] else []) := by
  unfold live48
  rw [List.range_succ, List.filterMap_append]
  congr 1
  by_cases h : (idx.getD i 0 != 0) = true <;> simp only [List.filterMap_cons, List.filterMap_nil, h, ↓reduceIte, Bool.false_eq_true]

theorem live48_mono (idx : Bytes) (slots : List (Option C)) (j k : Nat) :
    (live48 idx slots j).length ≤ (live48 idx slots (j + k)).length := by
  induction k with
  | zero => exact Nat.le_refl _
  | succ k ih =>
    rw [← Nat.add_assoc, live48_succ, List.length_append]
    omega

theorem u8_ofInt_nat (n : Nat) : UInt8.ofInt (n : Int) = UInt8.ofNat n := by
  apply UInt8.toNat_inj.1
  simp [UInt8.ofInt, UInt8.toNat_ofNat']
  omega

theorem loop_shrink48 (E : Env C) (n48 m : Img C) (b : UInt8)
    (hk : n48.keysA.length = 256) (hs : n48.children.length = 48)
    (hv : ∀ i, i < 256 → n48.keysA.getD i 0 ≠ 0 → (n48.keysA.getD i 0).toNat ≤ 48)
    (hlive : (live48 n48.keysA n48.children 256).length ≤ 16) :
    ∀ (d i fuel : Nat) (p0 : UInt8), i + d = 256 → d < fuel →
      (node48_deleteChild.loop0 E n48 b fuel
        (p0, { m with keysA := (live48 n48.keysA n48.children i).map (·.1) ++ List.replicate (16 - (live48 n48.keysA n48.children i).length) 0, children := (live48 n48.keysA n48.children i).map (·.2) ++ List.replicate (16 - (live48 n48.keysA n48.children i).length) none },
         ((live48 n48.keysA n48.children i).length : Int), (i : Int))).map (fun st => st.2.1) =
      some { m with keysA := (live48 n48.keysA n48.children 256).map (·.1) ++ List.replicate (16 - (live48 n48.keysA n48.children 256).length) 0, children := (live48 n48.keysA n48.children 256).map (·.2) ++ List.replicate (16 - (live48 n48.keysA n48.children 256).length) none } := by
  intro d
  induction d with
  | zero =>
    intro i fuel p0 hi hf
    obtain ⟨fuel, rfl⟩ : ∃ k, fuel = k + 1 := ⟨fuel - 1, by omega⟩
    have : i = 256 := by omega
    subst this
    have hc : (decide (((256 : Nat) : Int) < 256)) = false := by decide
    simp only [node48_deleteChild.loop0, hc]
    rfl
  | succ d ih =>
    intro i fuel p0 hi hf
    obtain ⟨fuel, rfl⟩ : ∃ k, fuel = k + 1 := ⟨fuel - 1, by omega⟩
    have hi' : i < 256 := by omega
    have hc : (decide ((i : Int) < 256)) = true := by simp; omega
    have hcast : ((i : Int) + 1) = ((i + 1 : Nat) : Int) := by omega
    have hget : n48.keysA[i]? = some (n48.keysA.getD i 0) := getD_eq_some _ _ (by omega)
    have hsub : (live48 n48.keysA n48.children (i + 1)).length ≤ 16 := by
      have h := live48_mono n48.keysA n48.children (i + 1) (256 - (i + 1))
      have e : i + 1 + (256 - (i + 1)) = 256 := by omega
      rw [e] at h
      omega
    simp only [node48_deleteChild.loop0, hc, if_true, idx?_nat, hget, Option.bind_eq_bind, Option.bind_some]
    have := ih (i + 1) fuel (n48.keysA.getD i 0) (by omega) (by omega)
    rw [live48_succ] at this hsub
    by_cases hz : n48.keysA.getD i 0 = 0
    · have hnz : ¬ (n48.keysA.getD i 0 != 0) = true := by rw [hz]; decide
      rw [if_neg hnz] at this hsub
      simp only [List.append_nil] at this
      rw [if_neg hnz, hcast]
      exact this
    · have hnz : (n48.keysA.getD i 0 != 0) = true := by simpa using hz
      rw [if_pos hnz] at this hsub
      rw [if_pos hnz]
      have hle := hv i hi' hz
      have hpos := u8_pos _ hz
      have hsl : n48.children[(n48.keysA.getD i 0).toNat - 1]? =
          some ((n48.children[(n48.keysA.getD i 0).toNat - 1]?).join) := by
        rw [List.getElem?_eq_getElem (by omega)]; rfl
      simp only [List.length_append, List.length_singleton] at hsub
      generalize hL : live48 n48.keysA n48.children i = L at *
      have hrepk : List.replicate (16 - L.length) (0 : UInt8) = List.replicate (16 - (L.length + 1) + 1) 0 := by
        have : 16 - L.length = 16 - (L.length + 1) + 1 := by omega
        rw [this]
      have hreps : List.replicate (16 - L.length) (none : Option C) = List.replicate (16 - (L.length + 1) + 1) none := by
        have : 16 - L.length = 16 - (L.length + 1) + 1 := by omega
        rw [this]
      have hlk : (L.map (·.1)).length = L.length := by rw [List.length_map]
      have hls : (L.map (·.2)).length = L.length := by rw [List.length_map]
      rw [hrepk, hreps, setIdx_nat _ _ _ (by rw [List.length_append, List.length_map, List.length_replicate]; omega)]
      simp only [Option.bind_some, u8_pred_toNat _ hz, idx?_nat]
      rw [hsl]
      simp only [Option.bind_some]
      rw [setIdx_nat _ _ _ (by rw [List.length_append, List.length_map, List.length_replicate]; omega)]
      simp only [Option.bind_some]
      rw [← hlk, set_fill', hlk, ← hls, set_fill', hls, u8_ofInt_nat, hcast]
      rw [List.length_append, List.length_singleton, List.map_append, List.map_append, List.map_singleton,
        List.map_singleton, List.append_assoc, List.append_assoc, List.singleton_append, List.singleton_append] at this
      rw [show ((L.length : Int) + 1) = ((L.length + 1 : Nat) : Int) by omega]
      exact this

theorem node48_deleteChild_shrink (E : Env C) (hpz : PoolsZero E) (h : Hdr) (len : Nat) (idx : Bytes)
    (slots : List (Option C)) (b : UInt8) (hs : slots.length = 48) (hi : idx.length = 256) (hlen : len < 256)
    (hnz : idx.getD b.toNat 0 ≠ 0) (hle : (idx.getD b.toNat 0).toNat ≤ 48)
    (hsh : ((len + 255) % 256 == shrink48) = true)
    (hv : ∀ i, i < 256 → (idx.set b.toNat 0).getD i 0 ≠ 0 → ((idx.set b.toNat 0).getD i 0).toNat ≤ 48)
    (hlive : (live48 (idx.set b.toNat 0) (slots.set ((idx.getD b.toNat 0).toNat - 1) none) 256).length ≤ 16) :
    node48_deleteChild E (img16 h len idx slots) b =
      some { out := match remove48 h len idx slots b with | .node r => outOf r | .collapse _ _ c => .child c,
             released := [(2, zeroImg 2)] } := by
  have hb : b.toNat < idx.length := by rw [hi]; exact UInt8.toNat_lt b
  have hpos := u8_pos _ hnz
  have hbeq : (hl ((len + 255) % 256) == (12 : UInt8)) = ((len + 255) % 256 == shrink48) := by
    have := hl_beq ((len + 255) % 256) 12 (by omega) (by omega)
    rw [show UInt8.ofNat 12 = (12 : UInt8) from rfl] at this
    rw [this]; rfl
  have hi' : (idx.set b.toNat 0).length = 256 := by rw [List.length_set, hi]
  have hs' : (slots.set ((idx.getD b.toNat 0).toNat - 1) none).length = 48 := by rw [List.length_set, hs]
  have hloop := loop_shrink48 E (img16 h ((len + 255) % 256) (idx.set b.toNat 0) (slots.set ((idx.getD b.toNat 0).toNat - 1) none))
    ({ (zeroImg 1 : Img C) with childrenLen := hl ((len + 255) % 256), prefixLen := hp h, «prefix» := h.pfx }) b hi' hs' hv hlive
    256 0 loopFuel (idx.getD b.toNat 0) (by omega) (by simp only [loopFuel]; omega)
  have hclear := node48_clear_eq E h ((len + 255) % 256) (idx.set b.toNat 0) (slots.set ((idx.getD b.toNat 0).toNat - 1) none) hs' hi'
  simp only [node48_deleteChild, img16, idx?_nat, getD_eq_some idx _ hb, Option.bind_eq_bind, Option.bind_some,
    setIdx_nat _ _ _ hb, u8_pred_toNat _ hnz, setIdx_nat _ _ _ (show (idx.getD b.toNat 0).toNat - 1 < slots.length by omega),
    hl_pred]
  rw [if_pos (by rw [hbeq]; exact hsh)]
  simp only [img16] at hloop hclear
  simp only [hpz 1, Option.bind_eq_bind]
  have key : (node48_deleteChild.loop0 E { prefixLen := hp h, childrenLen := hl ((len + 255) % 256), «prefix» := h.pfx, children := slots.set ((idx.getD b.toNat 0).toNat - 1) none, keysW := 0#32, keysA := idx.set b.toNat 0 } b loopFuel (idx.getD b.toNat 0, { prefixLen := hp h, childrenLen := hl ((len + 255) % 256), «prefix» := h.pfx, children := (zeroImg 1 : Img C).children, keysW := (zeroImg 1 : Img C).keysW, keysA := (zeroImg 1 : Img C).keysA }, ((0 : Nat) : Int), ((0 : Nat) : Int))).map (fun st => st.2.1) = _ := hloop
  change (node48_deleteChild.loop0 E _ b loopFuel (_, _, ((0 : Nat) : Int), ((0 : Nat) : Int))).bind _ = _
  rcases hx : node48_deleteChild.loop0 E { prefixLen := hp h, childrenLen := hl ((len + 255) % 256), «prefix» := h.pfx, children := slots.set ((idx.getD b.toNat 0).toNat - 1) none, keysW := 0#32, keysA := idx.set b.toNat 0 } b loopFuel (idx.getD b.toNat 0, { prefixLen := hp h, childrenLen := hl ((len + 255) % 256), «prefix» := h.pfx, children := (zeroImg 1 : Img C).children, keysW := (zeroImg 1 : Img C).keysW, keysA := (zeroImg 1 : Img C).keysA }, ((0 : Nat) : Int), ((0 : Nat) : Int)) with _ | st
  · rw [hx] at key; simp at key
  · rw [hx] at key
    simp only [Option.map_some, Option.some.injEq] at key
    simp only [Option.bind_some, hclear, key, pure, List.nil_append]
    simp only [remove48, hsh, ↓reduceIte]
    rfl

/-! ### the dispatchers: `(*nodeRef).addChild` / `deleteChild` on any raw record satisfying the invariant -/

theorem addChild_eq (E : Env C) (hpz : PoolsZero E) (r : Raw C) (b : UInt8) (c : C) (hinv : r.inv = true) :
    ∃ rel, nodeRef_addChild E (imgOf r).1 (imgOf r).2 b (some c) = some { out := outOf (r.add b c), released := rel } ∧
      ∀ x ∈ rel, x.2 = zeroImg x.1 := by
  cases r with
  | n4 h len keys slots =>
    obtain ⟨_, hs, hl4, _⟩ := (inv4_iff h len keys slots).1 hinv
    by_cases hlt : len < 4
    · refine ⟨[], ?_, by simp⟩
      simp only [imgOf, nodeRef_addChild, node4_addChild_small E h len keys slots b c hs hlt, Option.bind_eq_bind,
        Option.bind_some, pure, List.nil_append, Raw.add]
    · have : len = 4 := by omega
      subst this
      refine ⟨[(0, zeroImg 0)], ?_, by simp⟩
      simp only [imgOf, nodeRef_addChild, node4_addChild_grow E hpz h keys slots b c hs, Option.bind_eq_bind,
        Option.bind_some, pure, List.nil_append, Raw.add]
  | n16 h len keys slots =>
    obtain ⟨_, hs, hk, hl16, _⟩ := (inv16_iff h len keys slots).1 hinv
    by_cases hlt : len < 16
    · refine ⟨[], ?_, by simp⟩
      simp only [imgOf, nodeRef_addChild, node16_addChild_small E h len keys slots b c hs hk hlt, Option.bind_eq_bind,
        Option.bind_some, pure, List.nil_append, Raw.add]
    · have : len = 16 := by omega
      subst this
      refine ⟨[(1, zeroImg 1)], ?_, by simp⟩
      simp only [imgOf, nodeRef_addChild, node16_addChild_grow E hpz h keys slots b c hs hk, Option.bind_eq_bind,
        Option.bind_some, pure, List.nil_append, Raw.add]
  | n48 h len idx slots =>
    obtain ⟨_, hl48, _, hI⟩ := (inv48_iff h len idx slots).1 hinv
    by_cases hlt : len < 48
    · have hff : firstFree slots < 48 := by
        have := (exists_none slots (by rw [hI.hcount, hI.hs]; exact hlt)).1
        rw [hI.hs] at this; exact this
      refine ⟨[], ?_, by simp⟩
      simp only [imgOf, nodeRef_addChild, node48_addChild_small E h len idx slots b c hI.hs hI.hi hlt hff,
        Option.bind_eq_bind, Option.bind_some, pure, List.nil_append, Raw.add]
    · refine ⟨[(2, zeroImg 2)], ?_, by simp⟩
      have hv : ∀ i, i < 256 → idx.getD i 0 ≠ 0 → (idx.getD i 0).toNat ≤ 48 := by
        intro i hi hz
        exact (hI.hvalid _ (getD_mem idx i (by rw [hI.hi]; exact hi)) hz).1
      simp only [imgOf, nodeRef_addChild, node48_addChild_grow E hpz h len idx slots b c hI.hs hI.hi hlt (by omega) hv,
        Option.bind_eq_bind, Option.bind_some, pure, List.nil_append, Raw.add]
  | n256 h len slots =>
    obtain ⟨_, hs, _⟩ := (inv256_iff h len slots).1 hinv
    refine ⟨[], ?_, by simp⟩
    simp only [imgOf, nodeRef_addChild, node256_addChild_eq E h len slots b c hs, Option.bind_eq_bind,
      Option.bind_some, pure, Raw.add, outOf, add256]

/-- what the tree above guarantees about the children of a node4 (their `*node` headers are ten-byte arrays, path
    lengths far below 2^31) – needed only by the path merge -/
def ChildHdrsOK (E : Env C) (slots : List (Option C)) : Prop :=
  ∀ cc, some cc ∈ slots → E.isLeaf cc = false → (E.hdr cc).«prefix».length = 10 ∧ (E.hdr cc).prefixLen.toNat < 2 ^ 31

theorem mem_shiftDown {α} (l : List α) (i : Nat) (x : α) (hi : i < l.length) (h : x ∈ shiftDown l i) : x ∈ l := by
  obtain ⟨y, hy, he⟩ := shiftDown_eq l i hi
  rw [he] at h
  rcases List.mem_append.1 h with h | h
  · rcases List.mem_append.1 h with h | h
    · exact List.mem_of_mem_take h
    · exact List.mem_of_mem_drop h
  · rw [List.mem_singleton] at h; rw [h]; exact List.mem_of_getLast? hy

theorem remove16_isNode (h : Hdr) (len : Nat) (keys : Bytes) (slots : List (Option C)) (b : UInt8) :
    ∃ r', remove16 h len keys slots b = .node r' := by
  simp only [remove16]; split <;> exact ⟨_, rfl⟩
theorem remove48_isNode (h : Hdr) (len : Nat) (idx : Bytes) (slots : List (Option C)) (b : UInt8) :
    ∃ r', remove48 h len idx slots b = .node r' := by
  simp only [remove48]; split <;> exact ⟨_, rfl⟩
theorem remove256_isNode (h : Hdr) (len : Nat) (slots : List (Option C)) (b : UInt8) :
    ∃ r', remove256 h len slots b = .node r' := by
  simp only [remove256]; split <;> exact ⟨_, rfl⟩

theorem deleteChild_eq (E : Env C) (hpz : PoolsZero E) (r : Raw C) (b : UInt8) (hinv : r.inv = true)
    (hk : ∃ p ∈ r.abs, p.1 = b) (hplen : r.hdr.plen < 2 ^ 31)
    (hE : ∀ h len keys slots, r = .n4 h len keys slots → ChildHdrsOK E slots) :
    ∃ rel, nodeRef_deleteChild E (imgOf r).1 (imgOf r).2 b = some { out := collapseOut E (r.remove b), released := rel } ∧
      ∀ x ∈ rel, x.2 = zeroImg x.1 := by
  cases r with
  | n4 h len keys slots =>
    obtain ⟨L, hrep, habs, hsorted⟩ := inv4_rep hinv
    obtain ⟨hp, hs, hl, _, hst, hall⟩ := (inv4_iff h len keys slots).1 hinv
    rw [habs] at hk
    have hposL : L.findIdx (fun p => p.1 == b) < L.length := by
      apply List.findIdx_lt_length.2
      obtain ⟨p, hp, hpb⟩ := hk
      exact ⟨p, hp, by simp [hpb]⟩
    have hposA : ((lanes keys).take len).findIdx (fun k => k == b) = L.findIdx (fun p => p.1 == b) := by
      rw [hrep.1, List.findIdx_map]; rfl
    have hA : ((lanes keys).take len).length = len := by simp [lanes_length, hl]
    have hpos4 : (lanes keys).findIdx (fun k => k == b) = L.findIdx (fun p => p.1 == b) := by
      conv => lhs; rw [← List.take_append_drop len (lanes keys)]
      rw [List.findIdx_append, hA, hposA, if_pos (by rw [← hrep.2.2]; exact hposL)]
    generalize hP : L.findIdx (fun p => p.1 == b) = pos at *
    have hpl : pos < len := by rw [← hrep.2.2]; exact hposL
    have hp4 : pos < 4 := by omega
    have hi : searchNode4 keys b.toBitVec = (pos : Int) := by
      rw [searchNode4_spec, firstIdx_eq, lanes_length, hpos4, if_pos hp4]
    have hOK := hE h len keys slots rfl
    have hch : ∀ cc, (shiftDown slots pos)[0]? = some (some cc) → E.isLeaf cc = false →
        (E.hdr cc).«prefix».length = 10 ∧ (E.hdr cc).prefixLen.toNat < 2 ^ 31 := by
      intro cc hcc hleaf
      exact hOK cc (mem_shiftDown _ _ _ (by omega) (List.mem_of_getElem? hcc)) hleaf
    have hnn : (len + 255) % 256 = collapse4 → ∃ cc, (shiftDown slots pos)[0]? = some (some cc) := by
      intro hc
      have hlen2 : len = 2 := by have : collapse4 = 1 := rfl; omega
      subst hlen2
      have h0 : ∀ j, j < 2 → ∃ c', slots[j]? = some (some c') := by
        intro j hj
        have hj4 : j < slots.length := by omega
        have hm : slots[j] ∈ slots.take 2 := by
          rw [List.mem_take_iff_getElem]; exact ⟨j, by omega, rfl⟩
        have := List.all_eq_true.1 hall _ hm
        obtain ⟨c', hc'⟩ := Option.isSome_iff_exists.1 this
        exact ⟨c', by rw [List.getElem?_eq_getElem hj4, hc']⟩
      obtain ⟨y, _, he⟩ := shiftDown_eq slots pos (by omega)
      rw [he]
      have hp2 : pos = 0 ∨ pos = 1 := by omega
      rcases hp2 with rfl | rfl
      · obtain ⟨c', hc'⟩ := h0 1 (by omega)
        refine ⟨c', ?_⟩
        simp only [List.take_zero, List.nil_append]
        rw [List.getElem?_append_left (by simp; omega), List.getElem?_drop]; exact hc'
      · obtain ⟨c', hc'⟩ := h0 0 (by omega)
        refine ⟨c', ?_⟩
        rw [List.append_assoc, List.getElem?_append_left (by simp; omega), List.getElem?_take_of_lt (by omega)]; exact hc'
    have key := node4_deleteChild_eq E h len keys slots b pos hs hp hl (by omega) hplen hi hp4 hch hnn
    refine ⟨(if (len + 255) % 256 == collapse4 then [(0, zeroImg 0)] else []), ?_, ?_⟩
    · simp only [imgOf, nodeRef_deleteChild, key, Option.bind_eq_bind, Option.bind_some, pure, List.nil_append, Raw.remove]
    · intro x hx
      by_cases hc : ((len + 255) % 256 == collapse4) = true
      · rw [if_pos hc] at hx; simp at hx; rw [hx]
      · rw [if_neg hc] at hx; simp at hx
  | n16 h len keys slots =>
    obtain ⟨L, hrep, habs, hsorted⟩ := inv16_rep hinv
    obtain ⟨hp, hs, hkl, hl, hsh, _, _⟩ := (inv16_iff h len keys slots).1 hinv
    rw [habs] at hk
    have hposL : L.findIdx (fun p => p.1 == b) < L.length := by
      apply List.findIdx_lt_length.2
      obtain ⟨p, hp, hpb⟩ := hk
      exact ⟨p, hp, by simp [hpb]⟩
    have hposA : (keys.take len).findIdx (fun k => k == b) = L.findIdx (fun p => p.1 == b) := by
      rw [hrep.1, List.findIdx_map]; rfl
    have hA : (keys.take len).length = len := by simp; omega
    generalize hP : L.findIdx (fun p => p.1 == b) = pos at *
    have hpl : pos < len := by rw [← hrep.2.2]; exact hposL
    have hi : searchNode16 keys len b = (pos : Int) := by
      rw [searchNode16_eq keys len b (by omega) hl, firstIdx_eq, hA, hposA, if_pos hpl]
    have key := node16_deleteChild_eq E hpz h len keys slots b pos hs hkl hl (by omega) hi (by omega)
    refine ⟨(if (len + 255) % 256 == shrink16 then [(1, zeroImg 1)] else []), ?_, ?_⟩
    · simp only [imgOf, nodeRef_deleteChild, key, Option.bind_eq_bind, Option.bind_some, pure, List.nil_append, Raw.remove]
      obtain ⟨r', hr'⟩ := remove16_isNode h len keys slots b
      rw [hr']; rfl
    · intro x hx
      by_cases hc : ((len + 255) % 256 == shrink16) = true
      · rw [if_pos hc] at hx; simp at hx; rw [hx]
      · rw [if_neg hc] at hx; simp at hx
  | n48 h len idx slots =>
    obtain ⟨hp, hl, hsh, hI⟩ := (inv48_iff h len idx slots).1 hinv
    rw [abs48_eq] at hk
    obtain ⟨c0, hc0⟩ := (is_key_iff _ b).1 hk
    obtain ⟨hI', hl1, hlook⟩ := remove48_core len idx slots b c0 hI hc0
    obtain ⟨hv0, hsv⟩ := look48_some hc0
    have hbmem : idx.getD b.toNat 0 ∈ idx := getD_mem idx _ (by rw [hI.hi]; exact u8_toNat_lt b)
    have hle := (hI.hvalid _ hbmem hv0).1
    have hlen' : (len + 255) % 256 = len - 1 := by omega
    by_cases hc : ((len + 255) % 256 == shrink48) = true
    · have hv : ∀ i, i < 256 → (idx.set b.toNat 0).getD i 0 ≠ 0 → ((idx.set b.toNat 0).getD i 0).toNat ≤ 48 := by
        intro i hi hz
        exact (hI'.hvalid _ (getD_mem _ i (by rw [hI'.hi]; exact hi)) hz).1
      have hlive : (live48 (idx.set b.toNat 0) (slots.set ((idx.getD b.toNat 0).toNat - 1) none) 256).length ≤ 16 := by
        have e : live48 (idx.set b.toNat 0) (slots.set ((idx.getD b.toNat 0).toNat - 1) none) 256 = _ := live48_eq hI'
        rw [e, List.length_map, abs48_length hI']
        have : len - 1 = shrink48 := by rw [← hlen']; simpa using hc
        have c := shrink48_consts.1
        omega
      have key := node48_deleteChild_shrink E hpz h len idx slots b hI.hs hI.hi (by omega) hv0 hle hc hv hlive
      refine ⟨[(2, zeroImg 2)], ?_, by simp⟩
      simp only [imgOf, nodeRef_deleteChild, key, Option.bind_eq_bind, Option.bind_some, pure, List.nil_append, Raw.remove]
      obtain ⟨r', hr'⟩ := remove48_isNode h len idx slots b
      rw [hr']; rfl
    · have key := node48_deleteChild_noshrink E h len idx slots b hI.hs hI.hi (by omega) hv0 hle hc
      refine ⟨[], ?_, by simp⟩
      simp only [imgOf, nodeRef_deleteChild, key, Option.bind_eq_bind, Option.bind_some, pure, List.nil_append, Raw.remove]
      obtain ⟨r', hr'⟩ := remove48_isNode h len idx slots b
      rw [hr']; rfl
  | n256 h len slots =>
    obtain ⟨hp, hs, hsh, hlen⟩ := (inv256_iff h len slots).1 hinv
    rw [abs256_eq] at hk
    obtain ⟨c0, hc0⟩ := (is_key_iff _ b).1 hk
    have hb' := look256_some slots b c0 hc0
    have hcnt := countSome_set_none slots b.toNat c0 hb'
    have hle := countSome_le slots
    have hs' : (slots.set b.toNat none).length = 256 := by rw [List.length_set]; exact hs
    have hl256 : len < 256 := by omega
    by_cases hc : ((len + 255) % 256 == shrink256) = true
    · have hlive : (live256 (slots.set b.toNat none)).length ≤ 48 := by
        rw [live256_length _ hs']
        have : (len + 255) % 256 = shrink256 := by simpa using hc
        have c : shrink256 = 37 := rfl
        omega
      have key := node256_deleteChild_shrink E hpz h len slots b hs hl256 hc hlive
      refine ⟨[(3, zeroImg 3)], ?_, by simp⟩
      simp only [imgOf, nodeRef_deleteChild, key, Option.bind_eq_bind, Option.bind_some, pure, List.nil_append, Raw.remove]
      obtain ⟨r', hr'⟩ := remove256_isNode h len slots b
      rw [hr']; rfl
    · have key := node256_deleteChild_noshrink E h len slots b hs hl256 hc
      refine ⟨[], ?_, by simp⟩
      simp only [imgOf, nodeRef_deleteChild, key, Option.bind_eq_bind, Option.bind_some, pure, List.nil_append, Raw.remove]
      obtain ⟨r', hr'⟩ := remove256_isNode h len slots b
      rw [hr']; rfl

end GenNodeOps
end ArtVerif
