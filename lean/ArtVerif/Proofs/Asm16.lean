/-
  node16_amd64.s proved against the lane-level model of `searchNode16` / `insertPosNode16`.

  `Gen/Asm.lean` holds the two routines as regenerated from the .s file, `Model/Amd64.lean` the meaning of
  the sixteen instructions they use.  Here:

  * `search_asm`, `insertPos_asm` (symbolic execution by `simp`, then `bv_decide`): for EVERY initial
    register file (all general and vector registers, the flag and the result slot hold arbitrary values on
    entry), every 16-byte key array, every probe byte and every fill count ≤ 16, the routine runs to a RET
    and has stored in `ret+16(FP)` the lowest lane `i < childrenLen` with `keys[i] == b`
    (resp. `keys[i] > b`, unsigned), or −1 — `firstFrom`, a 16-step scan written on bit vectors;
  * `search_bridge`, `insertPos_bridge` (kernel only): `firstFrom` is `Raw.searchNode16` /
    `Raw.insertPosNode16` — the functions `Proofs/RawNodes` proves to implement the byte→child table —
    on the lanes of the vector read as the byte array.

  The fill count is needed: for `childrenLen ≥ 32` the shift count of `SALW` wraps (`fill_count_needed`).
-/
import Std.Tactic.BVDecide
import ArtVerif.Gen.Asm
import ArtVerif.Model.Raw
namespace ArtVerif.Asm16
open ArtVerif ArtVerif.Amd64

/-- the sixteen lanes of a vector register as the byte array they were loaded from -/
def lanes (keys : BitVec 128) : Bytes := (List.range 16).map fun i => UInt8.ofBitVec (lane keys i)

/-- lowest lane `i < len` with `p (lane i)`, scanning lanes `i, i+1, …` (`fuel` of them); all ones (−1) if none -/
def firstFrom (p : BitVec 8 → Bool) (keys : BitVec 128) (len : BitVec 8) : Nat → Nat → BitVec 64
  | _, 0 => 0xFFFFFFFFFFFFFFFF#64
  | i, fuel + 1 =>
    if BitVec.ofNat 8 i < len && p (lane keys i) then BitVec.ofNat 64 i else firstFrom p keys len (i + 1) fuel

/-! ### the assembly computes `firstFrom` -/

set_option maxRecDepth 8192 in
set_option linter.unusedSimpArgs false in
theorem search_asm (s : St) (fr : Frame) (hl : fr.len ≤ 16#8) :
    run Gen.Asm.searchNode16 fr s = some (firstFrom (· == fr.b) fr.keys fr.len 0 16) := by
  obtain ⟨ax, bx, cx, dx, si, di, r8, r9, r10, r11, r12, r13, r14, r15, x0, x1, x2, x3, zf, ret⟩ := s
  obtain ⟨kp, keys, len, b⟩ := fr
  simp only [run, Gen.Asm.searchNode16, exec, step, St.get, St.set, St.getX, St.setX, findLabel, src16, bind, Option.bind,
    BEq.rfl, if_true, ite_true, beq_self_eq_true, String.reduceEq, reduceIte, Bool.false_eq_true, if_false]
  simp only [Frame.len] at hl
  rw [← apply_ite some, Option.some.injEq]
  simp only [setLow16, setLow8, pmovmskb, pcmpeqb, pcmpgtb, pshufb, pack, lane, boolByte, bit, tzcnt16, firstFrom,
    BitVec.reduceOfInt, BitVec.reduceSetWidth, BitVec.xor_self, BitVec.reduceOfNat, Nat.reduceAdd]
  bv_decide

set_option maxRecDepth 8192 in
set_option linter.unusedSimpArgs false in
theorem insertPos_asm (s : St) (fr : Frame) (hl : fr.len ≤ 16#8) :
    run Gen.Asm.insertPosNode16 fr s = some (firstFrom (fun k => fr.b < k) fr.keys fr.len 0 16) := by
  obtain ⟨ax, bx, cx, dx, si, di, r8, r9, r10, r11, r12, r13, r14, r15, x0, x1, x2, x3, zf, ret⟩ := s
  obtain ⟨kp, keys, len, b⟩ := fr
  simp only [run, Gen.Asm.insertPosNode16, exec, step, St.get, St.set, St.getX, St.setX, findLabel, src16, bind, Option.bind,
    BEq.rfl, if_true, ite_true, beq_self_eq_true, String.reduceEq, reduceIte, Bool.false_eq_true, if_false]
  simp only [Frame.len] at hl
  rw [← apply_ite some, Option.some.injEq]
  simp only [setLow16, setLow8, pmovmskb, pcmpeqb, pcmpgtb, pshufb, pack, lane, boolByte, bit, tzcnt16, firstFrom,
    BitVec.reduceOfInt, BitVec.reduceSetWidth, BitVec.xor_self, BitVec.reduceOfNat, Nat.reduceAdd]
  bv_decide

/-! ### `firstFrom` is the lane-level model of Model/Raw -/

theorem firstFrom_eq (p : BitVec 8 → Bool) (keys : BitVec 128) (len : BitVec 8) (i fuel : Nat) (h : i + fuel ≤ 16) :
    firstFrom p keys len i fuel =
      match (List.range' i fuel).find? (fun j => decide (j < len.toNat) && p (lane keys j)) with
      | some j => BitVec.ofNat 64 j
      | none => 0xFFFFFFFFFFFFFFFF#64 := by
  induction fuel generalizing i with
  | zero => simp [firstFrom]
  | succ f ih =>
    have hlt : (BitVec.ofNat 8 i < len) ↔ i < len.toNat := by
      rw [BitVec.lt_def, BitVec.toNat_ofNat, Nat.mod_eq_of_lt (by omega)]
    simp only [firstFrom, List.range'_succ, List.find?_cons]
    by_cases hc : i < len.toNat
    · by_cases hp : p (lane keys i) = true
      · simp [hlt, hc, hp]
      · simp [hlt, hc, hp]; exact ih (i + 1) (by omega)
    · simp [hlt, hc]; exact ih (i + 1) (by omega)

theorem find?_congr' {α} {l : List α} {p q : α → Bool} (h : ∀ a ∈ l, p a = q a) : l.find? p = l.find? q := by
  induction l with
  | nil => rfl
  | cons x xs ih =>
    simp only [List.find?_cons, h x (List.mem_cons_self ..)]
    rw [ih (fun a ha => h a (List.mem_cons_of_mem _ ha))]

theorem find_guard (n : Nat) (q : Nat → Bool) :
    (List.range 16).find? (fun j => decide (j < n) && q j) = (List.range (min n 16)).find? q := by
  cases h : (List.range (min n 16)).find? q with
  | none =>
    rw [List.find?_range_eq_none] at h ⊢
    intro i hi
    by_cases hn : i < n
    · have := h i (by omega); simp_all
    · simp [hn]
  | some i =>
    rw [List.find?_range_eq_some] at h ⊢
    obtain ⟨h1, h2, h3⟩ := h
    rw [List.mem_range] at h2
    refine ⟨?_, ?_, ?_⟩
    · simp only [h1, Bool.and_true, decide_eq_true_eq]; omega
    · rw [List.mem_range]; omega
    · intro j hj; have := h3 j hj; simp_all

theorem lanes_get (keys : BitVec 128) (j : Nat) (hj : j < 16) : (lanes keys)[j]? = some (UInt8.ofBitVec (lane keys j)) := by
  simp [lanes, List.getElem?_map, List.getElem?_range hj]

theorem lanes_length (keys : BitVec 128) : (lanes keys).length = 16 := by simp [lanes]

theorem ofBitVec_beq (a b : BitVec 8) : (UInt8.ofBitVec a == UInt8.ofBitVec b) = (a == b) := by
  by_cases h : a = b
  · subst h; simp
  · have : UInt8.ofBitVec a ≠ UInt8.ofBitVec b := fun e => h (by injection e)
    rw [beq_eq_false_iff_ne.mpr this, beq_eq_false_iff_ne.mpr h]

theorem search_bridge (keys : BitVec 128) (len b : BitVec 8) :
    firstFrom (· == b) keys len 0 16 = BitVec.ofInt 64 (Raw.searchNode16 (lanes keys) len.toNat (UInt8.ofBitVec b)) := by
  rw [firstFrom_eq _ _ _ 0 16 (by omega), ← List.range_eq_range', Raw.searchNode16, ← find_guard]
  have hcongr : (List.range 16).find? (fun j => decide (j < len.toNat) && (fun x => x == b) (lane keys j)) =
      (List.range 16).find? (fun j => decide (j < len.toNat) && ((lanes keys)[j]? == some (UInt8.ofBitVec b))) := by
    apply find?_congr'
    intro j hj
    rw [List.mem_range] at hj
    rw [lanes_get keys j hj]
    simp [ofBitVec_beq]
  rw [hcongr]
  cases (List.range 16).find? (fun j => decide (j < len.toNat) && ((lanes keys)[j]? == some (UInt8.ofBitVec b))) with
  | none => decide
  | some j => simp only [BitVec.ofInt_natCast]

theorem insertPos_bridge (keys : BitVec 128) (len b : BitVec 8) :
    firstFrom (fun k => b < k) keys len 0 16 =
      BitVec.ofInt 64 (Raw.insertPosNode16 (lanes keys) len.toNat (UInt8.ofBitVec b)) := by
  rw [firstFrom_eq _ _ _ 0 16 (by omega), ← List.range_eq_range', Raw.insertPosNode16, ← find_guard]
  have hcongr : (List.range 16).find? (fun j => decide (j < len.toNat) && (fun k => decide (b < k)) (lane keys j)) =
      (List.range 16).find? (fun j => decide (j < len.toNat) &&
        (match (lanes keys)[j]? with | some k => decide (UInt8.ofBitVec b < k) | none => false)) := by
    apply find?_congr'
    intro j hj
    rw [List.mem_range] at hj
    rw [lanes_get keys j hj]
    simp [UInt8.lt_iff_toBitVec_lt]
  rw [hcongr]
  cases (List.range 16).find? _ with
  | none => decide
  | some j => simp only [BitVec.ofInt_natCast]

end ArtVerif.Asm16
