/-
  The child lookup that `Search` of the five generated trees (trees.go) and of the collation tree (collation.go)
  inlines – `b := keyS[depth]; switch n.tag { case nodeKind4: if i := searchNode4(n4.keys, b); i != -1 && i <
  int(n4.childrenLen) { n = n4.children[i]; depth++; continue } … }; break` – AS REGENERATED from the source on every
  run (`Gen/SearchOps.lean`, one function per tree type) is `Raw.find`, like `(*nodeRef).findChild` of node.go
  (`GenNodeOps.findChild_eq`): for every probe byte the child registered under it in the node's ordered table, `none`
  (the descent stops, the key is absent) otherwise, and no index out of range on a node satisfying the raw invariant.
  Kernel only; imports no other regenerated module.
-/
import ArtVerif.Gen.SearchOps
import ArtVerif.Proofs.GoNodeBase
namespace ArtVerif
namespace GenSearch
open Gen Gen.SearchOps GoNode Raw Swar GenNodeOps
variable {C : Type}

theorem search_find_alpha_eq (E : Env C) (r : Raw C) (b : UInt8) (hinv : r.inv = true) (hlen : r.len < 256) :
    search_find_alpha E (imgOf r).1 (imgOf r).2 b = some (r.find b) := by
  cases r with
  | n4 h len keys slots =>
    simp only [Raw.len] at hlen
    obtain ⟨_, hs, hl4, _⟩ := (inv4_iff h len keys slots).1 hinv
    simp only [imgOf, search_find_alpha, img4, Raw.find, b8, hl_toNat _ hlen]
    rcases firstIdx_cases (fun k => k == b) (lanes keys) with h1 | ⟨n, h1, hn⟩
    · simp only [searchNode4_spec, h1]; rfl
    · simp only [searchNode4_spec, h1]
      by_cases hc : n < len
      · have e : (((n : Int) != -1) && decide ((n : Int) < (len : Int))) = true := by
          simp; omega
        rw [if_pos e, if_pos e, idx?_join _ _ (by omega)]; simp
      · have e : ¬ (((n : Int) != -1) && decide ((n : Int) < (len : Int))) = true := by
          simp; omega
        rw [if_neg e, if_neg e]; rfl
  | n16 h len keys slots =>
    simp only [Raw.len] at hlen
    obtain ⟨_, hs, hk, hl16, _⟩ := (inv16_iff h len keys slots).1 hinv
    simp only [imgOf, search_find_alpha, img16, Raw.find, hl_toNat _ hlen]
    rw [searchNode16_eq keys len b (by omega) hl16]
    rcases firstIdx_cases (fun k => k == b) (keys.take len) with h1 | ⟨n, h1, hn⟩
    · rw [h1]; rfl
    · rw [h1]
      have hn' : n < 16 := by simp at hn; omega
      have e : (((n : Int) != -1)) = true := by simp
      rw [if_pos e, if_pos e, idx?_join _ _ (by omega)]; simp
  | n48 h len idx slots =>
    obtain ⟨_, _, _, hI⟩ := (inv48_iff h len idx slots).1 hinv
    simp only [imgOf, search_find_alpha, img16, Raw.find]
    have hb : b.toNat < idx.length := by rw [hI.hi]; exact UInt8.toNat_lt b
    rw [idx?_nat, getD_eq_some idx _ hb]
    simp only [bind, Option.bind]
    by_cases hz : (idx.getD b.toNat 0 != 0) = true
    · rw [if_pos hz, if_pos hz]
      have hv := hI.hvalid _ (getD_mem idx _ hb) (by simpa using hz)
      have hne : (idx.getD b.toNat 0) ≠ 0 := by simpa using hz
      have hpos : 0 < (idx.getD b.toNat 0).toNat := by
        rcases Nat.eq_zero_or_pos (idx.getD b.toNat 0).toNat with h0 | h0
        · exact absurd (UInt8.toNat_inj.1 (by simpa using h0)) hne
        · exact h0
      have e : ((idx.getD b.toNat 0) - 1).toNat = (idx.getD b.toNat 0).toNat - 1 := by
        rw [UInt8.toNat_sub_of_le]; · rfl
        · rw [UInt8.le_iff_toNat_le]; exact hpos
      rw [e, idx?_join _ _ (by rw [hI.hs]; omega)]
    · rw [if_neg hz, if_neg hz]; rfl
  | n256 h len slots =>
    obtain ⟨_, hs, _⟩ := (inv256_iff h len slots).1 hinv
    simp only [imgOf, search_find_alpha, img256, Raw.find]
    have hb : b.toNat < slots.length := by rw [hs]; exact UInt8.toNat_lt b
    rw [idx?_join _ _ hb]
    simp only [bind, Option.bind]
    rcases hx : slots[b.toNat]?.join with _ | c <;> simp [pure]

theorem search_find_unsigned_eq (E : Env C) (r : Raw C) (b : UInt8) (hinv : r.inv = true) (hlen : r.len < 256) :
    search_find_unsigned E (imgOf r).1 (imgOf r).2 b = some (r.find b) := by
  cases r with
  | n4 h len keys slots =>
    simp only [Raw.len] at hlen
    obtain ⟨_, hs, hl4, _⟩ := (inv4_iff h len keys slots).1 hinv
    simp only [imgOf, search_find_unsigned, img4, Raw.find, b8, hl_toNat _ hlen]
    rcases firstIdx_cases (fun k => k == b) (lanes keys) with h1 | ⟨n, h1, hn⟩
    · simp only [searchNode4_spec, h1]; rfl
    · simp only [searchNode4_spec, h1]
      by_cases hc : n < len
      · have e : (((n : Int) != -1) && decide ((n : Int) < (len : Int))) = true := by
          simp; omega
        rw [if_pos e, if_pos e, idx?_join _ _ (by omega)]; simp
      · have e : ¬ (((n : Int) != -1) && decide ((n : Int) < (len : Int))) = true := by
          simp; omega
        rw [if_neg e, if_neg e]; rfl
  | n16 h len keys slots =>
    simp only [Raw.len] at hlen
    obtain ⟨_, hs, hk, hl16, _⟩ := (inv16_iff h len keys slots).1 hinv
    simp only [imgOf, search_find_unsigned, img16, Raw.find, hl_toNat _ hlen]
    rw [searchNode16_eq keys len b (by omega) hl16]
    rcases firstIdx_cases (fun k => k == b) (keys.take len) with h1 | ⟨n, h1, hn⟩
    · rw [h1]; rfl
    · rw [h1]
      have hn' : n < 16 := by simp at hn; omega
      have e : (((n : Int) != -1)) = true := by simp
      rw [if_pos e, if_pos e, idx?_join _ _ (by omega)]; simp
  | n48 h len idx slots =>
    obtain ⟨_, _, _, hI⟩ := (inv48_iff h len idx slots).1 hinv
    simp only [imgOf, search_find_unsigned, img16, Raw.find]
    have hb : b.toNat < idx.length := by rw [hI.hi]; exact UInt8.toNat_lt b
    rw [idx?_nat, getD_eq_some idx _ hb]
    simp only [bind, Option.bind]
    by_cases hz : (idx.getD b.toNat 0 != 0) = true
    · rw [if_pos hz, if_pos hz]
      have hv := hI.hvalid _ (getD_mem idx _ hb) (by simpa using hz)
      have hne : (idx.getD b.toNat 0) ≠ 0 := by simpa using hz
      have hpos : 0 < (idx.getD b.toNat 0).toNat := by
        rcases Nat.eq_zero_or_pos (idx.getD b.toNat 0).toNat with h0 | h0
        · exact absurd (UInt8.toNat_inj.1 (by simpa using h0)) hne
        · exact h0
      have e : ((idx.getD b.toNat 0) - 1).toNat = (idx.getD b.toNat 0).toNat - 1 := by
        rw [UInt8.toNat_sub_of_le]; · rfl
        · rw [UInt8.le_iff_toNat_le]; exact hpos
      rw [e, idx?_join _ _ (by rw [hI.hs]; omega)]
    · rw [if_neg hz, if_neg hz]; rfl
  | n256 h len slots =>
    obtain ⟨_, hs, _⟩ := (inv256_iff h len slots).1 hinv
    simp only [imgOf, search_find_unsigned, img256, Raw.find]
    have hb : b.toNat < slots.length := by rw [hs]; exact UInt8.toNat_lt b
    rw [idx?_join _ _ hb]
    simp only [bind, Option.bind]
    rcases hx : slots[b.toNat]?.join with _ | c <;> simp [pure]

theorem search_find_signed_eq (E : Env C) (r : Raw C) (b : UInt8) (hinv : r.inv = true) (hlen : r.len < 256) :
    search_find_signed E (imgOf r).1 (imgOf r).2 b = some (r.find b) := by
  cases r with
  | n4 h len keys slots =>
    simp only [Raw.len] at hlen
    obtain ⟨_, hs, hl4, _⟩ := (inv4_iff h len keys slots).1 hinv
    simp only [imgOf, search_find_signed, img4, Raw.find, b8, hl_toNat _ hlen]
    rcases firstIdx_cases (fun k => k == b) (lanes keys) with h1 | ⟨n, h1, hn⟩
    · simp only [searchNode4_spec, h1]; rfl
    · simp only [searchNode4_spec, h1]
      by_cases hc : n < len
      · have e : (((n : Int) != -1) && decide ((n : Int) < (len : Int))) = true := by
          simp; omega
        rw [if_pos e, if_pos e, idx?_join _ _ (by omega)]; simp
      · have e : ¬ (((n : Int) != -1) && decide ((n : Int) < (len : Int))) = true := by
          simp; omega
        rw [if_neg e, if_neg e]; rfl
  | n16 h len keys slots =>
    simp only [Raw.len] at hlen
    obtain ⟨_, hs, hk, hl16, _⟩ := (inv16_iff h len keys slots).1 hinv
    simp only [imgOf, search_find_signed, img16, Raw.find, hl_toNat _ hlen]
    rw [searchNode16_eq keys len b (by omega) hl16]
    rcases firstIdx_cases (fun k => k == b) (keys.take len) with h1 | ⟨n, h1, hn⟩
    · rw [h1]; rfl
    · rw [h1]
      have hn' : n < 16 := by simp at hn; omega
      have e : (((n : Int) != -1)) = true := by simp
      rw [if_pos e, if_pos e, idx?_join _ _ (by omega)]; simp
  | n48 h len idx slots =>
    obtain ⟨_, _, _, hI⟩ := (inv48_iff h len idx slots).1 hinv
    simp only [imgOf, search_find_signed, img16, Raw.find]
    have hb : b.toNat < idx.length := by rw [hI.hi]; exact UInt8.toNat_lt b
    rw [idx?_nat, getD_eq_some idx _ hb]
    simp only [bind, Option.bind]
    by_cases hz : (idx.getD b.toNat 0 != 0) = true
    · rw [if_pos hz, if_pos hz]
      have hv := hI.hvalid _ (getD_mem idx _ hb) (by simpa using hz)
      have hne : (idx.getD b.toNat 0) ≠ 0 := by simpa using hz
      have hpos : 0 < (idx.getD b.toNat 0).toNat := by
        rcases Nat.eq_zero_or_pos (idx.getD b.toNat 0).toNat with h0 | h0
        · exact absurd (UInt8.toNat_inj.1 (by simpa using h0)) hne
        · exact h0
      have e : ((idx.getD b.toNat 0) - 1).toNat = (idx.getD b.toNat 0).toNat - 1 := by
        rw [UInt8.toNat_sub_of_le]; · rfl
        · rw [UInt8.le_iff_toNat_le]; exact hpos
      rw [e, idx?_join _ _ (by rw [hI.hs]; omega)]
    · rw [if_neg hz, if_neg hz]; rfl
  | n256 h len slots =>
    obtain ⟨_, hs, _⟩ := (inv256_iff h len slots).1 hinv
    simp only [imgOf, search_find_signed, img256, Raw.find]
    have hb : b.toNat < slots.length := by rw [hs]; exact UInt8.toNat_lt b
    rw [idx?_join _ _ hb]
    simp only [bind, Option.bind]
    rcases hx : slots[b.toNat]?.join with _ | c <;> simp [pure]

theorem search_find_float_eq (E : Env C) (r : Raw C) (b : UInt8) (hinv : r.inv = true) (hlen : r.len < 256) :
    search_find_float E (imgOf r).1 (imgOf r).2 b = some (r.find b) := by
  cases r with
  | n4 h len keys slots =>
    simp only [Raw.len] at hlen
    obtain ⟨_, hs, hl4, _⟩ := (inv4_iff h len keys slots).1 hinv
    simp only [imgOf, search_find_float, img4, Raw.find, b8, hl_toNat _ hlen]
    rcases firstIdx_cases (fun k => k == b) (lanes keys) with h1 | ⟨n, h1, hn⟩
    · simp only [searchNode4_spec, h1]; rfl
    · simp only [searchNode4_spec, h1]
      by_cases hc : n < len
      · have e : (((n : Int) != -1) && decide ((n : Int) < (len : Int))) = true := by
          simp; omega
        rw [if_pos e, if_pos e, idx?_join _ _ (by omega)]; simp
      · have e : ¬ (((n : Int) != -1) && decide ((n : Int) < (len : Int))) = true := by
          simp; omega
        rw [if_neg e, if_neg e]; rfl
  | n16 h len keys slots =>
    simp only [Raw.len] at hlen
    obtain ⟨_, hs, hk, hl16, _⟩ := (inv16_iff h len keys slots).1 hinv
    simp only [imgOf, search_find_float, img16, Raw.find, hl_toNat _ hlen]
    rw [searchNode16_eq keys len b (by omega) hl16]
    rcases firstIdx_cases (fun k => k == b) (keys.take len) with h1 | ⟨n, h1, hn⟩
    · rw [h1]; rfl
    · rw [h1]
      have hn' : n < 16 := by simp at hn; omega
      have e : (((n : Int) != -1)) = true := by simp
      rw [if_pos e, if_pos e, idx?_join _ _ (by omega)]; simp
  | n48 h len idx slots =>
    obtain ⟨_, _, _, hI⟩ := (inv48_iff h len idx slots).1 hinv
    simp only [imgOf, search_find_float, img16, Raw.find]
    have hb : b.toNat < idx.length := by rw [hI.hi]; exact UInt8.toNat_lt b
    rw [idx?_nat, getD_eq_some idx _ hb]
    simp only [bind, Option.bind]
    by_cases hz : (idx.getD b.toNat 0 != 0) = true
    · rw [if_pos hz, if_pos hz]
      have hv := hI.hvalid _ (getD_mem idx _ hb) (by simpa using hz)
      have hne : (idx.getD b.toNat 0) ≠ 0 := by simpa using hz
      have hpos : 0 < (idx.getD b.toNat 0).toNat := by
        rcases Nat.eq_zero_or_pos (idx.getD b.toNat 0).toNat with h0 | h0
        · exact absurd (UInt8.toNat_inj.1 (by simpa using h0)) hne
        · exact h0
      have e : ((idx.getD b.toNat 0) - 1).toNat = (idx.getD b.toNat 0).toNat - 1 := by
        rw [UInt8.toNat_sub_of_le]; · rfl
        · rw [UInt8.le_iff_toNat_le]; exact hpos
      rw [e, idx?_join _ _ (by rw [hI.hs]; omega)]
    · rw [if_neg hz, if_neg hz]; rfl
  | n256 h len slots =>
    obtain ⟨_, hs, _⟩ := (inv256_iff h len slots).1 hinv
    simp only [imgOf, search_find_float, img256, Raw.find]
    have hb : b.toNat < slots.length := by rw [hs]; exact UInt8.toNat_lt b
    rw [idx?_join _ _ hb]
    simp only [bind, Option.bind]
    rcases hx : slots[b.toNat]?.join with _ | c <;> simp [pure]

theorem search_find_compound_eq (E : Env C) (r : Raw C) (b : UInt8) (hinv : r.inv = true) (hlen : r.len < 256) :
    search_find_compound E (imgOf r).1 (imgOf r).2 b = some (r.find b) := by
  cases r with
  | n4 h len keys slots =>
    simp only [Raw.len] at hlen
    obtain ⟨_, hs, hl4, _⟩ := (inv4_iff h len keys slots).1 hinv
    simp only [imgOf, search_find_compound, img4, Raw.find, b8, hl_toNat _ hlen]
    rcases firstIdx_cases (fun k => k == b) (lanes keys) with h1 | ⟨n, h1, hn⟩
    · simp only [searchNode4_spec, h1]; rfl
    · simp only [searchNode4_spec, h1]
      by_cases hc : n < len
      · have e : (((n : Int) != -1) && decide ((n : Int) < (len : Int))) = true := by
          simp; omega
        rw [if_pos e, if_pos e, idx?_join _ _ (by omega)]; simp
      · have e : ¬ (((n : Int) != -1) && decide ((n : Int) < (len : Int))) = true := by
          simp; omega
        rw [if_neg e, if_neg e]; rfl
  | n16 h len keys slots =>
    simp only [Raw.len] at hlen
    obtain ⟨_, hs, hk, hl16, _⟩ := (inv16_iff h len keys slots).1 hinv
    simp only [imgOf, search_find_compound, img16, Raw.find, hl_toNat _ hlen]
    rw [searchNode16_eq keys len b (by omega) hl16]
    rcases firstIdx_cases (fun k => k == b) (keys.take len) with h1 | ⟨n, h1, hn⟩
    · rw [h1]; rfl
    · rw [h1]
      have hn' : n < 16 := by simp at hn; omega
      have e : (((n : Int) != -1)) = true := by simp
      rw [if_pos e, if_pos e, idx?_join _ _ (by omega)]; simp
  | n48 h len idx slots =>
    obtain ⟨_, _, _, hI⟩ := (inv48_iff h len idx slots).1 hinv
    simp only [imgOf, search_find_compound, img16, Raw.find]
    have hb : b.toNat < idx.length := by rw [hI.hi]; exact UInt8.toNat_lt b
    rw [idx?_nat, getD_eq_some idx _ hb]
    simp only [bind, Option.bind]
    by_cases hz : (idx.getD b.toNat 0 != 0) = true
    · rw [if_pos hz, if_pos hz]
      have hv := hI.hvalid _ (getD_mem idx _ hb) (by simpa using hz)
      have hne : (idx.getD b.toNat 0) ≠ 0 := by simpa using hz
      have hpos : 0 < (idx.getD b.toNat 0).toNat := by
        rcases Nat.eq_zero_or_pos (idx.getD b.toNat 0).toNat with h0 | h0
        · exact absurd (UInt8.toNat_inj.1 (by simpa using h0)) hne
        · exact h0
      have e : ((idx.getD b.toNat 0) - 1).toNat = (idx.getD b.toNat 0).toNat - 1 := by
        rw [UInt8.toNat_sub_of_le]; · rfl
        · rw [UInt8.le_iff_toNat_le]; exact hpos
      rw [e, idx?_join _ _ (by rw [hI.hs]; omega)]
    · rw [if_neg hz, if_neg hz]; rfl
  | n256 h len slots =>
    obtain ⟨_, hs, _⟩ := (inv256_iff h len slots).1 hinv
    simp only [imgOf, search_find_compound, img256, Raw.find]
    have hb : b.toNat < slots.length := by rw [hs]; exact UInt8.toNat_lt b
    rw [idx?_join _ _ hb]
    simp only [bind, Option.bind]
    rcases hx : slots[b.toNat]?.join with _ | c <;> simp [pure]

theorem search_find_collation_eq (E : Env C) (r : Raw C) (b : UInt8) (hinv : r.inv = true) (hlen : r.len < 256) :
    search_find_collation E (imgOf r).1 (imgOf r).2 b = some (r.find b) := by
  cases r with
  | n4 h len keys slots =>
    simp only [Raw.len] at hlen
    obtain ⟨_, hs, hl4, _⟩ := (inv4_iff h len keys slots).1 hinv
    simp only [imgOf, search_find_collation, img4, Raw.find, b8, hl_toNat _ hlen]
    rcases firstIdx_cases (fun k => k == b) (lanes keys) with h1 | ⟨n, h1, hn⟩
    · simp only [searchNode4_spec, h1]; rfl
    · simp only [searchNode4_spec, h1]
      by_cases hc : n < len
      · have e : (((n : Int) != -1) && decide ((n : Int) < (len : Int))) = true := by
          simp; omega
        rw [if_pos e, if_pos e, idx?_join _ _ (by omega)]; simp
      · have e : ¬ (((n : Int) != -1) && decide ((n : Int) < (len : Int))) = true := by
          simp; omega
        rw [if_neg e, if_neg e]; rfl
  | n16 h len keys slots =>
    simp only [Raw.len] at hlen
    obtain ⟨_, hs, hk, hl16, _⟩ := (inv16_iff h len keys slots).1 hinv
    simp only [imgOf, search_find_collation, img16, Raw.find, hl_toNat _ hlen]
    rw [searchNode16_eq keys len b (by omega) hl16]
    rcases firstIdx_cases (fun k => k == b) (keys.take len) with h1 | ⟨n, h1, hn⟩
    · rw [h1]; rfl
    · rw [h1]
      have hn' : n < 16 := by simp at hn; omega
      have e : (((n : Int) != -1)) = true := by simp
      rw [if_pos e, if_pos e, idx?_join _ _ (by omega)]; simp
  | n48 h len idx slots =>
    obtain ⟨_, _, _, hI⟩ := (inv48_iff h len idx slots).1 hinv
    simp only [imgOf, search_find_collation, img16, Raw.find]
    have hb : b.toNat < idx.length := by rw [hI.hi]; exact UInt8.toNat_lt b
    rw [idx?_nat, getD_eq_some idx _ hb]
    simp only [bind, Option.bind]
    by_cases hz : (idx.getD b.toNat 0 != 0) = true
    · rw [if_pos hz, if_pos hz]
      have hv := hI.hvalid _ (getD_mem idx _ hb) (by simpa using hz)
      have hne : (idx.getD b.toNat 0) ≠ 0 := by simpa using hz
      have hpos : 0 < (idx.getD b.toNat 0).toNat := by
        rcases Nat.eq_zero_or_pos (idx.getD b.toNat 0).toNat with h0 | h0
        · exact absurd (UInt8.toNat_inj.1 (by simpa using h0)) hne
        · exact h0
      have e : ((idx.getD b.toNat 0) - 1).toNat = (idx.getD b.toNat 0).toNat - 1 := by
        rw [UInt8.toNat_sub_of_le]; · rfl
        · rw [UInt8.le_iff_toNat_le]; exact hpos
      rw [e, idx?_join _ _ (by rw [hI.hs]; omega)]
    · rw [if_neg hz, if_neg hz]; rfl
  | n256 h len slots =>
    obtain ⟨_, hs, _⟩ := (inv256_iff h len slots).1 hinv
    simp only [imgOf, search_find_collation, img256, Raw.find]
    have hb : b.toNat < slots.length := by rw [hs]; exact UInt8.toNat_lt b
    rw [idx?_join _ _ hb]
    simp only [bind, Option.bind]
    rcases hx : slots[b.toNat]?.join with _ | c <;> simp [pure]

end GenSearch
end ArtVerif
