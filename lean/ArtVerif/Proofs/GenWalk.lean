/-
  `minimum()` / `maximum()` of tree.go, one step of the walk on an inner node, as REGENERATED from the source
  (`Gen/WalkOps.lean`: `minimum_step`, `maximum_step` – `children[0]`, `children[childrenLen-1]` on a `uint8`, the
  upward / downward scans over the node48 index and the node256 slots): they are `Raw.minChild` / `Raw.maxChild`, the
  functions `Proofs/RawMinMax` proves to return the child of the first / last entry of the byte → child table and that
  `RT.minimum` / `RT.maximum` (C05Raw) are built from.  Kernel only.
-/
import ArtVerif.Gen.WalkOps
import ArtVerif.Proofs.GoNodeBase
import ArtVerif.Proofs.RawMinMax
namespace ArtVerif
namespace GenWalk
open Gen Gen.WalkOps GoNode Raw Swar GenNodeOps
variable {C : Type}

/-! ### the four scans -/

theorem scan_up_idx (E : Env C) (n : Img C) (hk : n.keysA.length = 256) (j : Nat) :
    ∀ (d i fuel : Nat), i + d = 256 → d < fuel →
      (List.range' i d).find? (fun k => n.keysA.getD k 0 != 0) = some j →
      minimum_step.loop0 E n fuel (i : Int) = some (j : Int) := by
  intro d
  induction d with
  | zero => intro i fuel _ _ h; simp at h
  | succ d ih =>
    intro i fuel hi hf h
    obtain ⟨fuel, rfl⟩ : ∃ k, fuel = k + 1 := ⟨fuel - 1, by omega⟩
    have hget : n.keysA[i]? = some (n.keysA.getD i 0) := getD_eq_some _ _ (by omega)
    rw [List.range'_succ, List.find?_cons] at h
    simp only [minimum_step.loop0, idx?_nat, hget, Option.bind_eq_bind, Option.bind_some]
    by_cases hz : n.keysA.getD i 0 = 0
    · have hq : (n.keysA.getD i 0 != 0) = false := by rw [hz]; rfl
      rw [hq] at h
      have hc : (n.keysA.getD i 0 == (0 : UInt8)) = true := by rw [hz]; rfl
      rw [if_pos hc, show ((i : Int) + 1) = ((i + 1 : Nat) : Int) by omega]
      exact ih (i + 1) fuel (by omega) (by omega) h
    · have hq : (n.keysA.getD i 0 != 0) = true := by simpa using hz
      rw [hq] at h
      have hc : ¬ (n.keysA.getD i 0 == (0 : UInt8)) = true := by simpa using hz
      rw [if_neg hc]
      simp only [Option.some.injEq] at h
      rw [h]; rfl

theorem scan_up_slots (E : Env C) (n : Img C) (hs : n.children.length = 256) (j : Nat) :
    ∀ (d i fuel : Nat), i + d = 256 → d < fuel →
      (List.range' i d).find? (fun k => ((n.children[k]?).join).isSome) = some j →
      minimum_step.loop1 E n fuel (i : Int) = some (j : Int) := by
  intro d
  induction d with
  | zero => intro i fuel _ _ h; simp at h
  | succ d ih =>
    intro i fuel hi hf h
    obtain ⟨fuel, rfl⟩ : ∃ k, fuel = k + 1 := ⟨fuel - 1, by omega⟩
    have hget : n.children[i]? = some ((n.children[i]?).join) := by
      rw [List.getElem?_eq_getElem (by omega)]; rfl
    rw [List.range'_succ, List.find?_cons] at h
    simp only [minimum_step.loop1, idx?_nat, Option.bind_eq_bind]
    rw [hget]
    simp only [Option.bind_some]
    rcases hx : (n.children[i]?).join with _ | c
    · rw [hx] at h
      simp only [Option.isSome_none] at h
      simp only [Option.isNone_none, if_true, ↓reduceIte]
      rw [show ((i : Int) + 1) = ((i + 1 : Nat) : Int) by omega]
      exact ih (i + 1) fuel (by omega) (by omega) h
    · rw [hx] at h
      simp only [Option.isSome_some, Option.some.injEq] at h
      simp only [Option.isNone_some, Bool.false_eq_true, if_false, ↓reduceIte]
      rw [h]; rfl

theorem range_reverse_succ (n : Nat) : (List.range (n + 1)).reverse = n :: (List.range n).reverse := by
  rw [List.range_succ, List.reverse_append]; rfl

theorem scan_down_idx (E : Env C) (n : Img C) (hk : n.keysA.length = 256) (j : Nat) :
    ∀ (m fuel : Nat), m ≤ 256 → m < fuel →
      (List.range m).reverse.find? (fun k => n.keysA.getD k 0 != 0) = some j →
      maximum_step.loop0 E n fuel ((m : Int) - 1) = some (j : Int) := by
  intro m
  induction m with
  | zero => intro fuel _ _ h; simp at h
  | succ m ih =>
    intro fuel hm hf h
    obtain ⟨fuel, rfl⟩ : ∃ k, fuel = k + 1 := ⟨fuel - 1, by omega⟩
    have hget : n.keysA[m]? = some (n.keysA.getD m 0) := getD_eq_some _ _ (by omega)
    rw [range_reverse_succ, List.find?_cons] at h
    rw [show (((m + 1 : Nat) : Int) - 1) = (m : Int) by omega]
    simp only [maximum_step.loop0, idx?_nat, hget, Option.bind_eq_bind, Option.bind_some]
    by_cases hz : n.keysA.getD m 0 = 0
    · have hq : (n.keysA.getD m 0 != 0) = false := by rw [hz]; rfl
      rw [hq] at h
      have hc : (n.keysA.getD m 0 == (0 : UInt8)) = true := by rw [hz]; rfl
      rw [if_pos hc]
      exact ih fuel (by omega) (by omega) h
    · have hq : (n.keysA.getD m 0 != 0) = true := by simpa using hz
      rw [hq] at h
      have hc : ¬ (n.keysA.getD m 0 == (0 : UInt8)) = true := by simpa using hz
      rw [if_neg hc]
      simp only [Option.some.injEq] at h
      rw [h]; rfl

theorem scan_down_slots (E : Env C) (n : Img C) (hs : n.children.length = 256) (j : Nat) :
    ∀ (m fuel : Nat), m ≤ 256 → m < fuel →
      (List.range m).reverse.find? (fun k => ((n.children[k]?).join).isSome) = some j →
      maximum_step.loop1 E n fuel ((m : Int) - 1) = some (j : Int) := by
  intro m
  induction m with
  | zero => intro fuel _ _ h; simp at h
  | succ m ih =>
    intro fuel hm hf h
    obtain ⟨fuel, rfl⟩ : ∃ k, fuel = k + 1 := ⟨fuel - 1, by omega⟩
    have hget : n.children[m]? = some ((n.children[m]?).join) := by
      rw [List.getElem?_eq_getElem (by omega)]; rfl
    rw [range_reverse_succ, List.find?_cons] at h
    rw [show (((m + 1 : Nat) : Int) - 1) = (m : Int) by omega]
    simp only [maximum_step.loop1, idx?_nat, Option.bind_eq_bind]
    rw [hget]
    simp only [Option.bind_some]
    rcases hx : (n.children[m]?).join with _ | c
    · rw [hx] at h
      simp only [Option.isSome_none] at h
      simp only [Option.isNone_none, if_true, ↓reduceIte]
      exact ih fuel (by omega) (by omega) h
    · rw [hx] at h
      simp only [Option.isSome_some, Option.some.injEq] at h
      simp only [Option.isNone_some, Bool.false_eq_true, if_false, ↓reduceIte]
      rw [h]; rfl

/-! ### one step of the walk -/

theorem exists_nonzero (idx : Bytes) (hi : idx.length = 256) (h : 0 < (idx.filter (· != 0)).length) :
    ∃ j, (List.range 256).find? (fun k => idx.getD k 0 != 0) = some j := by
  have hne : idx.filter (· != 0) ≠ [] := by intro e; rw [e] at h; simp at h
  obtain ⟨x, hx⟩ := List.exists_mem_of_ne_nil _ hne
  obtain ⟨hxm, hx0⟩ := List.mem_filter.1 hx
  obtain ⟨i, hi', hxi⟩ := List.getElem_of_mem hxm
  have : ((List.range 256).find? (fun k => idx.getD k 0 != 0)).isSome = true := by
    rw [List.find?_isSome]
    refine ⟨i, List.mem_range.2 (by omega), ?_⟩
    have : idx.getD i 0 = x := by rw [List.getD_eq_getElem?_getD, List.getElem?_eq_getElem hi', hxi]; rfl
    rw [this]; exact hx0
  exact Option.isSome_iff_exists.1 this

theorem exists_nonzero_rev (idx : Bytes) (hi : idx.length = 256) (h : 0 < (idx.filter (· != 0)).length) :
    ∃ j, (List.range 256).reverse.find? (fun k => idx.getD k 0 != 0) = some j := by
  obtain ⟨j, hj⟩ := exists_nonzero idx hi h
  have : ((List.range 256).reverse.find? (fun k => idx.getD k 0 != 0)).isSome = true := by
    rw [List.find?_isSome]
    have h1 := List.find?_some (p := fun k => idx.getD k 0 != 0) hj
    have h2 := List.mem_of_find?_eq_some hj
    exact ⟨j, List.mem_reverse.2 h2, h1⟩
  exact Option.isSome_iff_exists.1 this

theorem exists_some (slots : List (Option C)) (h : 0 < countSome slots) (hs : slots.length = 256) :
    ∃ j, (List.range 256).find? (fun k => ((slots[k]?).join).isSome) = some j := by
  have hne : slots.filter (·.isSome) ≠ [] := by intro e; unfold countSome at h; rw [e] at h; simp at h
  obtain ⟨x, hx⟩ := List.exists_mem_of_ne_nil _ hne
  obtain ⟨hxm, hx0⟩ := List.mem_filter.1 hx
  obtain ⟨i, hi', hxi⟩ := List.getElem_of_mem hxm
  have : ((List.range 256).find? (fun k => ((slots[k]?).join).isSome)).isSome = true := by
    rw [List.find?_isSome]
    refine ⟨i, List.mem_range.2 (by omega), ?_⟩
    rw [List.getElem?_eq_getElem hi', hxi]; exact hx0
  exact Option.isSome_iff_exists.1 this

theorem exists_some_rev (slots : List (Option C)) (h : 0 < countSome slots) (hs : slots.length = 256) :
    ∃ j, (List.range 256).reverse.find? (fun k => ((slots[k]?).join).isSome) = some j := by
  obtain ⟨j, hj⟩ := exists_some slots h hs
  have : ((List.range 256).reverse.find? (fun k => ((slots[k]?).join).isSome)).isSome = true := by
    rw [List.find?_isSome]
    exact ⟨j, List.mem_reverse.2 (List.mem_of_find?_eq_some hj), List.find?_some (p := fun k => ((slots[k]?).join).isSome) hj⟩
  exact Option.isSome_iff_exists.1 this

theorem int_pred (p : UInt8) (hp : p ≠ 0) : ((p.toNat : Int) - 1) = ((p.toNat - 1 : Nat) : Int) := by
  have := u8_pos p hp; omega

/-- `minimum()`: the reference the walk continues with is `Raw.minChild` -/
theorem minimum_step_eq (E : Env C) (r : Raw C) (hinv : r.inv = true) :
    minimum_step E (imgOf r).1 (imgOf r).2 = some r.minChild := by
  cases r with
  | n4 h len keys slots =>
    obtain ⟨_, hs, _⟩ := (inv4_iff h len keys slots).1 hinv
    simp only [imgOf, minimum_step, img4, Raw.minChild, Option.bind_eq_bind]
    rw [show (0 : Int) = ((0 : Nat) : Int) from rfl, idx?_join _ _ (by omega)]
  | n16 h len keys slots =>
    obtain ⟨_, hs, _⟩ := (inv16_iff h len keys slots).1 hinv
    simp only [imgOf, minimum_step, img16, Raw.minChild, Option.bind_eq_bind]
    rw [show (0 : Int) = ((0 : Nat) : Int) from rfl, idx?_join _ _ (by omega)]
  | n48 h len idx slots =>
    obtain ⟨_, _, hsh, hI⟩ := (inv48_iff h len idx slots).1 hinv
    obtain ⟨j, hj⟩ := exists_nonzero idx hI.hi (by rw [hI.hnz]; omega)
    have hjm := List.mem_range.1 (List.mem_of_find?_eq_some hj)
    have hq : (idx.getD j 0 != 0) = true := List.find?_some (p := fun k => idx.getD k 0 != 0) hj
    have hz : idx.getD j 0 ≠ 0 := by simpa using hq
    have hv := (hI.hvalid _ (getD_mem idx j (by rw [hI.hi]; exact hjm)) hz).1
    have hloop := scan_up_idx E (img16 h len idx slots) hI.hi j 256 0 loopFuel (by omega) (by simp only [loopFuel]; omega)
      (by rw [← List.range_eq_range']; exact hj)
    simp only [img16] at hloop
    have hp := u8_pos _ hz
    simp only [imgOf, minimum_step, img16, Raw.minChild, Option.bind_eq_bind, hj,
      show (0 : Int) = ((0 : Nat) : Int) from rfl, hloop, Option.bind_some, idx?_nat,
      getD_eq_some idx j (by rw [hI.hi]; exact hjm), int_pred _ hz]
    rw [List.getElem?_eq_getElem (by rw [hI.hs]; omega)]; rfl
  | n256 h len slots =>
    obtain ⟨_, hs, hsh, _⟩ := (inv256_iff h len slots).1 hinv
    obtain ⟨j, hj⟩ := exists_some slots (by omega) hs
    have hjm := List.mem_range.1 (List.mem_of_find?_eq_some hj)
    have hloop := scan_up_slots E (img256 h len slots) hs j 256 0 loopFuel (by omega) (by simp only [loopFuel]; omega)
      (by rw [← List.range_eq_range']; exact hj)
    simp only [img256] at hloop
    simp only [imgOf, minimum_step, img256, Raw.minChild, Option.bind_eq_bind, hj,
      show (0 : Int) = ((0 : Nat) : Int) from rfl, hloop, Option.bind_some, idx?_nat]
    rw [List.getElem?_eq_getElem (by rw [hs]; omega)]; rfl

/-- `maximum()`: the reference the walk continues with is `Raw.maxChild` (`childrenLen-1` is computed on a `uint8`:
    on a node4/node16 the node must hold at least one child, which every node of a tree does) -/
theorem maximum_step_eq (E : Env C) (r : Raw C) (hinv : r.inv = true) (hlen : 0 < r.len ∨ r.cls = 256) :
    maximum_step E (imgOf r).1 (imgOf r).2 = some r.maxChild := by
  cases r with
  | n4 h len keys slots =>
    obtain ⟨_, hs, hl4, _⟩ := (inv4_iff h len keys slots).1 hinv
    have h0 : 0 < len := by rcases hlen with h | h; · exact h
                            · simp [Raw.cls] at h
    have e : (hl len - 1).toNat = (len + 255) % 256 := by rw [hl_pred, hl_toNat _ (by omega)]
    simp only [imgOf, maximum_step, img4, Raw.maxChild, Option.bind_eq_bind, e]
    rw [idx?_join _ _ (by omega)]
  | n16 h len keys slots =>
    obtain ⟨_, hs, _, hl16, _⟩ := (inv16_iff h len keys slots).1 hinv
    have h0 : 0 < len := by rcases hlen with h | h; · exact h
                            · simp [Raw.cls] at h
    have e : (hl len - 1).toNat = (len + 255) % 256 := by rw [hl_pred, hl_toNat _ (by omega)]
    simp only [imgOf, maximum_step, img16, Raw.maxChild, Option.bind_eq_bind, e]
    rw [idx?_join _ _ (by omega)]
  | n48 h len idx slots =>
    obtain ⟨_, _, hsh, hI⟩ := (inv48_iff h len idx slots).1 hinv
    obtain ⟨j, hj⟩ := exists_nonzero_rev idx hI.hi (by rw [hI.hnz]; omega)
    have hjm := List.mem_range.1 (List.mem_reverse.1 (List.mem_of_find?_eq_some hj))
    have hq : (idx.getD j 0 != 0) = true := List.find?_some (p := fun k => idx.getD k 0 != 0) hj
    have hz : idx.getD j 0 ≠ 0 := by simpa using hq
    have hv := (hI.hvalid _ (getD_mem idx j (by rw [hI.hi]; exact hjm)) hz).1
    have hloop := scan_down_idx E (img16 h len idx slots) hI.hi j 256 loopFuel (by omega) (by simp only [loopFuel]; omega) hj
    simp only [img16] at hloop
    have hp := u8_pos _ hz
    simp only [imgOf, maximum_step, img16, Raw.maxChild, Option.bind_eq_bind, hj,
      show (255 : Int) = (((256 : Nat) : Int) - 1) from rfl, hloop, Option.bind_some, idx?_nat,
      getD_eq_some idx j (by rw [hI.hi]; exact hjm), int_pred _ hz]
    rw [List.getElem?_eq_getElem (by rw [hI.hs]; omega)]; rfl
  | n256 h len slots =>
    obtain ⟨_, hs, hsh, _⟩ := (inv256_iff h len slots).1 hinv
    obtain ⟨j, hj⟩ := exists_some_rev slots (by omega) hs
    have hjm := List.mem_range.1 (List.mem_reverse.1 (List.mem_of_find?_eq_some hj))
    have hloop := scan_down_slots E (img256 h len slots) hs j 256 loopFuel (by omega) (by simp only [loopFuel]; omega) hj
    simp only [img256] at hloop
    simp only [imgOf, maximum_step, img256, Raw.maxChild, Option.bind_eq_bind, hj,
      show (255 : Int) = (((256 : Nat) : Int) - 1) from rfl, hloop, Option.bind_some, idx?_nat]
    rw [List.getElem?_eq_getElem (by rw [hs]; omega)]; rfl

end GenWalk
end ArtVerif
