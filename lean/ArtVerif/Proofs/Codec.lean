/-
  Helper lemmas for the numeric key codecs (Model/Codec.lean):
  big-endian bytes, lexicographic order on equal-length strings,
  the sign flip, and the word-level float transform.

  `bv_decide` is used ONLY in the section "word-level float lemmas"
  (fixed widths 32 and 64); everything else is kernel-checked from
  propext / Classical.choice / Quot.sound.
-/
import ArtVerif.Model.Codec
import Std.Tactic.BVDecide
namespace ArtVerif

/-! ### lexLt: generic list facts -/

theorem lexLt_cons_cons (a b : UInt8) (as bs : Bytes) :
    lexLt (a :: as) (b :: bs) = true ↔ a < b ∨ (a = b ∧ lexLt as bs = true) := by
  have hab : a < b ↔ a.toNat < b.toNat := UInt8.lt_iff_toNat_lt
  have hba : b < a ↔ b.toNat < a.toNat := UInt8.lt_iff_toNat_lt
  have heq : a = b ↔ a.toNat = b.toNat := UInt8.toNat_inj.symm
  show (if a < b then true else if b < a then false else lexLt as bs) = true ↔ _
  by_cases h1 : a < b
  · simp [h1]
  · by_cases h2 : b < a
    · have : ¬ a = b := by rw [heq]; rw [hba] at h2; omega
      simp [h1, h2, this]
    · have : a = b := by rw [heq]; rw [hab] at h1; rw [hba] at h2; omega
      simp [this, UInt8.lt_irrefl]

/-- Lexicographic comparison of concatenations whose heads have equal length. -/
theorem lexLt_append_of_length_eq {a1 a2 : Bytes} (b1 b2 : Bytes)
    (h : a1.length = a2.length) :
    lexLt (a1 ++ b1) (a2 ++ b2) = true ↔
      lexLt a1 a2 = true ∨ (a1 = a2 ∧ lexLt b1 b2 = true) := by
  induction a1 generalizing a2 with
  | nil =>
    cases a2 with
    | nil => simp [lexLt]
    | cons y ys => simp at h
  | cons x xs ih =>
    cases a2 with
    | nil => simp at h
    | cons y ys =>
      have hl : xs.length = ys.length := by simpa using h
      simp only [List.cons_append, lexLt_cons_cons, ih hl, List.cons.injEq]
      constructor
      · rintro (g | ⟨rfl, g | ⟨rfl, g⟩⟩)
        · exact Or.inl (Or.inl g)
        · exact Or.inl (Or.inr ⟨rfl, g⟩)
        · exact Or.inr ⟨⟨rfl, rfl⟩, g⟩
      · rintro ((g | ⟨rfl, g⟩) | ⟨⟨rfl, rfl⟩, g⟩)
        · exact Or.inl g
        · exact Or.inr ⟨rfl, Or.inl g⟩
        · exact Or.inr ⟨rfl, Or.inr ⟨rfl, g⟩⟩

/-! ### big-endian bytes -/

@[simp] theorem toBE_length (n x : Nat) : (toBE n x).length = n := by
  induction n with
  | zero => rfl
  | succ n ih => simp [toBE, ih]

theorem ofBE_cons_aux (bs : Bytes) (acc : Nat) :
    bs.foldl (fun acc b => acc * 256 + b.toNat) acc
      = acc * 256 ^ bs.length + ofBE bs := by
  induction bs generalizing acc with
  | nil => simp [ofBE]
  | cons b bs ih =>
    simp only [List.foldl_cons, List.length_cons, ofBE]
    rw [ih, ih (0 * 256 + b.toNat), Nat.pow_succ]
    simp [ofBE, Nat.add_mul, Nat.mul_assoc, Nat.add_assoc, Nat.mul_comm 256]

theorem ofBE_cons (b : UInt8) (bs : Bytes) :
    ofBE (b :: bs) = b.toNat * 256 ^ bs.length + ofBE bs := by
  show List.foldl _ _ _ = _
  rw [List.foldl_cons, ofBE_cons_aux]; simp

theorem pow256_pos (n : Nat) : 0 < 256 ^ n := Nat.pow_pos (by decide)

/-- `toBE n` only looks at `x mod 256^n`. -/
theorem toBE_mod (n x : Nat) : toBE n (x % 256 ^ n) = toBE n x := by
  induction n generalizing x with
  | zero => rfl
  | succ n ih =>
    simp only [toBE]
    have h1 : x % 256 ^ (n+1) / 256 ^ n % 256 = x / 256 ^ n % 256 := by
      rw [Nat.pow_succ, Nat.mod_mul_right_div_self, Nat.mod_mod]
    have h2 : toBE n (x % 256 ^ (n+1)) = toBE n x := by
      rw [← ih (x % 256 ^ (n+1)), ← ih x, Nat.pow_succ,
        Nat.mod_mul_right_mod]
    rw [h1, h2]

theorem toNat_ofNat_digit (x n : Nat) : (UInt8.ofNat (x / 256 ^ n % 256)).toNat = x / 256 ^ n % 256 := by
  rw [UInt8.toNat_ofNat']
  exact Nat.mod_eq_of_lt (Nat.mod_lt _ (by decide))

theorem ofBE_toBE_mod (n x : Nat) : ofBE (toBE n x) = x % 256 ^ n := by
  induction n generalizing x with
  | zero => simp [toBE, ofBE, Nat.mod_one]
  | succ n ih =>
    simp only [toBE]
    rw [ofBE_cons, toBE_length, ih, toNat_ofNat_digit, Nat.pow_succ,
      Nat.mod_mul, Nat.mul_comm (x / 256 ^ n % 256), Nat.add_comm]

theorem ofBE_toBE {n x : Nat} (h : x < 256 ^ n) : ofBE (toBE n x) = x := by
  rw [ofBE_toBE_mod, Nat.mod_eq_of_lt h]

theorem toBE_inj {n x y : Nat} (hx : x < 256 ^ n) (hy : y < 256 ^ n)
    (h : toBE n x = toBE n y) : x = y := by
  rw [← ofBE_toBE hx, ← ofBE_toBE hy, h]

theorem lexLt_toBE {n x y : Nat} (hx : x < 256 ^ n) (hy : y < 256 ^ n) :
    lexLt (toBE n x) (toBE n y) = true ↔ x < y := by
  induction n generalizing x y with
  | zero =>
    simp only [Nat.pow_zero] at hx hy
    simp [toBE, lexLt]; omega
  | succ n ih =>
    have hp := pow256_pos n
    have hxm : x % 256 ^ n < 256 ^ n := Nat.mod_lt _ hp
    have hym : y % 256 ^ n < 256 ^ n := Nat.mod_lt _ hp
    have hxd : x / 256 ^ n < 256 := by
      rw [Nat.div_lt_iff_lt_mul hp, Nat.mul_comm, ← Nat.pow_succ]; exact hx
    have hyd : y / 256 ^ n < 256 := by
      rw [Nat.div_lt_iff_lt_mul hp, Nat.mul_comm, ← Nat.pow_succ]; exact hy
    have hxe := Nat.div_add_mod x (256 ^ n)
    have hye := Nat.div_add_mod y (256 ^ n)
    simp only [toBE, lexLt_cons_cons]
    rw [← toBE_mod n x, ← toBE_mod n y, ih hxm hym,
      UInt8.lt_iff_toNat_lt, ← UInt8.toNat_inj,
      toNat_ofNat_digit, toNat_ofNat_digit,
      Nat.mod_eq_of_lt hxd, Nat.mod_eq_of_lt hyd]
    generalize x / 256 ^ n = qx at *
    generalize y / 256 ^ n = qy at *
    generalize x % 256 ^ n = rx at *
    generalize y % 256 ^ n = ry at *
    generalize 256 ^ n = P at *
    subst hxe hye
    constructor
    · rintro (h | ⟨h, h'⟩)
      · have : P * (qx + 1) ≤ P * qy := Nat.mul_le_mul_left _ h
        rw [Nat.mul_add] at this; omega
      · subst h; omega
    · intro h
      rcases Nat.lt_trichotomy qx qy with h' | h' | h'
      · exact Or.inl h'
      · subst h'; exact Or.inr ⟨rfl, by omega⟩
      · have : P * (qy + 1) ≤ P * qx := Nat.mul_le_mul_left _ h'
        rw [Nat.mul_add] at this; omega

/-- Byte count vs bit width. -/
theorem two_pow_eq_256_pow {w : Nat} (h : 8 ∣ w) : 2 ^ w = 256 ^ (w / 8) := by
  obtain ⟨n, rfl⟩ := h
  rw [Nat.mul_div_cancel_left n (by decide : 0 < 8), Nat.pow_mul]

theorem toNat_lt_256_pow {w : Nat} (h : 8 ∣ w) (x : BitVec w) : x.toNat < 256 ^ (w / 8) := by
  rw [← two_pow_eq_256_pow h]; exact x.isLt

/-- Reading back the big-endian bytes of a `w`-bit word (`8 ∣ w`). -/
theorem ofNat_ofBE_toBE {w : Nat} (h : 8 ∣ w) (x : BitVec w) :
    BitVec.ofNat w (ofBE (toBE (w / 8) x.toNat)) = x := by
  rw [ofBE_toBE (toNat_lt_256_pow h x)]
  apply BitVec.eq_of_toNat_eq
  rw [BitVec.toNat_ofNat, Nat.mod_eq_of_lt x.isLt]

theorem lexLt_toBE_word {w : Nat} (h : 8 ∣ w) (x y : BitVec w) :
    lexLt (toBE (w / 8) x.toNat) (toBE (w / 8) y.toNat) = true ↔ x.toNat < y.toNat :=
  lexLt_toBE (toNat_lt_256_pow h x) (toNat_lt_256_pow h y)

theorem toBE_word_inj {w : Nat} (h : 8 ∣ w) {x y : BitVec w}
    (e : toBE (w / 8) x.toNat = toBE (w / 8) y.toNat) : x = y :=
  BitVec.eq_of_toNat_eq (toBE_inj (toNat_lt_256_pow h x) (toNat_lt_256_pow h y) e)

/-! ### the sign flip `x ^^^ signBit w` (kernel-only) -/

theorem xor_two_pow_of_lt {k a : Nat} (h : a < 2 ^ k) : a ^^^ 2 ^ k = a + 2 ^ k := by
  have e : a + 2 ^ k = 2 ^ k * 1 + a := by omega
  rw [e]
  apply Nat.eq_of_testBit_eq
  intro j
  rw [Nat.testBit_two_pow_mul_add 1 h, Nat.testBit_xor, Nat.testBit_two_pow]
  by_cases hj : j < k
  · have : ¬ k = j := by omega
    simp [hj, this]
  · have hz : a.testBit j = false := Nat.testBit_lt_two_pow (Nat.lt_of_lt_of_le h (Nat.pow_le_pow_right (by decide) (by omega)))
    by_cases hk : k = j
    · subst hk; simp [hz]
    · have h1 : Nat.testBit 1 (j - k) = false :=
        Nat.testBit_lt_two_pow (Nat.one_lt_two_pow (by omega))
      simp [hj, hk, hz, h1]

theorem xor_two_pow_of_ge {k a : Nat} (h1 : 2 ^ k ≤ a) (h2 : a < 2 ^ (k + 1)) :
    a ^^^ 2 ^ k = a - 2 ^ k := by
  have hlt : a - 2 ^ k < 2 ^ k := by rw [Nat.pow_succ] at h2; omega
  have e := xor_two_pow_of_lt hlt
  have e' : a - 2 ^ k + 2 ^ k = a := by omega
  rw [e'] at e
  conv => lhs; rw [← e]
  rw [Nat.xor_assoc, Nat.xor_self, Nat.xor_zero]

theorem toNat_signBit {w : Nat} (hw : 0 < w) : (signBit w).toNat = 2 ^ (w - 1) := by
  unfold signBit; exact BitVec.toNat_twoPow_of_lt (by omega)

theorem toNat_xor_signBit {w : Nat} (hw : 0 < w) (x : BitVec w) :
    (x ^^^ signBit w).toNat =
      if x.toNat < 2 ^ (w - 1) then x.toNat + 2 ^ (w - 1) else x.toNat - 2 ^ (w - 1) := by
  rw [BitVec.toNat_xor, toNat_signBit hw]
  split
  · next h => exact xor_two_pow_of_lt h
  · next h =>
    refine xor_two_pow_of_ge (by omega) ?_
    have : w - 1 + 1 = w := by omega
    rw [this]; exact x.isLt

/-- The sign flip turns signed order into unsigned order. -/
theorem signFlip_lt_iff {w : Nat} (hw : 0 < w) (x y : BitVec w) :
    (x ^^^ signBit w).toNat < (y ^^^ signBit w).toNat ↔ x.toInt < y.toInt := by
  rw [toNat_xor_signBit hw, toNat_xor_signBit hw, BitVec.toInt_eq_toNat_cond,
    BitVec.toInt_eq_toNat_cond]
  have hx := x.isLt
  have hy := y.isLt
  have e : 2 ^ w = 2 * 2 ^ (w - 1) := by
    conv => lhs; rw [show w = (w - 1) + 1 by omega]
    rw [Nat.pow_succ]; omega
  rw [e] at hx hy ⊢
  generalize 2 ^ (w - 1) = P at *
  generalize x.toNat = a at *
  generalize y.toNat = b at *
  push_cast
  split <;> split <;> split <;> split <;> omega

theorem xor_signBit_xor_signBit {w : Nat} (x : BitVec w) : x ^^^ signBit w ^^^ signBit w = x := by
  rw [BitVec.xor_assoc, BitVec.xor_self, BitVec.xor_zero]

/-! ### the declared float order as a Boolean on words -/

/-- `rank x < rank y` expressed with BitVec operations only. -/
def FloatFmt.ltB {w} (f : FloatFmt w) (x y : BitVec w) : Bool :=
  if f.isNaN x then !f.isNaN y
  else if f.isNaN y then false
  else if x.msb then
    (if y.msb then (y &&& ~~~(signBit w)).ult (x &&& ~~~(signBit w)) else true)
  else (if y.msb then false else x.ult y)

theorem mag_succ_lt {w : Nat} (z : BitVec w) (h : z.msb = true) :
    (z &&& ~~~(signBit w)).toNat + 1 < 2 ^ w := by
  have hw : 0 < w := by
    rcases Nat.eq_zero_or_pos w with rfl | h'
    · simp [BitVec.msb_eq_decide] at h
      have := z.isLt; omega
    · exact h'
  have h1 : (z &&& ~~~(signBit w)).toNat ≤ (~~~(signBit w)).toNat := by
    rw [BitVec.toNat_and]; exact Nat.and_le_right
  rw [BitVec.toNat_not, toNat_signBit hw] at h1
  have : 0 < 2 ^ (w - 1) := Nat.pow_pos (by decide)
  have e : 2 ^ w = 2 * 2 ^ (w - 1) := by
    conv => lhs; rw [show w = (w - 1) + 1 by omega]
    rw [Nat.pow_succ]; omega
  omega

theorem FloatFmt.rank_lt_iff {w} (f : FloatFmt w) (x y : BitVec w) :
    f.rank x < f.rank y ↔ f.ltB x y = true := by
  unfold FloatFmt.rank FloatFmt.ltB
  have hx := (x &&& ~~~(signBit w)).isLt
  have hy := (y &&& ~~~(signBit w)).isLt
  have hx' := x.isLt
  have hy' := y.isLt
  have hmx := mag_succ_lt x
  have hmy := mag_succ_lt y
  have hc : ((2 ^ w : Nat) : Int) = (2 : Int) ^ w := by push_cast; rfl
  rw [← hc]
  simp only [BitVec.ult]
  generalize (x &&& ~~~(signBit w)).toNat = mx at *
  generalize (y &&& ~~~(signBit w)).toNat = my at *
  generalize x.toNat = a at *
  generalize y.toNat = b at *
  generalize 2 ^ w = P at *
  clear hc
  revert hmx hmy
  cases f.isNaN x <;> cases f.isNaN y <;> cases x.msb <;> cases y.msb <;> simp <;> omega

/-! ### word-level float lemmas (fixed widths; `bv_decide`) -/

section word

theorem encFWord32_ult (x y : BitVec 32) :
    (encFWord fmt32 x).ult (encFWord fmt32 y) = fmt32.ltB x y := by
  simp only [encFWord, FloatFmt.ltB, fmt32, FloatFmt.isNaN, FloatFmt.posInf, FloatFmt.negInf,
    signBit, BitVec.twoPow]
  bv_decide

theorem encFWord64_ult (x y : BitVec 64) :
    (encFWord fmt64 x).ult (encFWord fmt64 y) = fmt64.ltB x y := by
  simp only [encFWord, FloatFmt.ltB, fmt64, FloatFmt.isNaN, FloatFmt.posInf, FloatFmt.negInf,
    signBit, BitVec.twoPow]
  bv_decide

theorem encFWord32_eq_zero_iff (x : BitVec 32) :
    (encFWord fmt32 x == 0#32) = fmt32.isNaN x := by
  simp only [encFWord, fmt32, FloatFmt.isNaN, FloatFmt.posInf, FloatFmt.negInf,
    signBit, BitVec.twoPow]
  bv_decide

theorem encFWord64_eq_zero_iff (x : BitVec 64) :
    (encFWord fmt64 x == 0#64) = fmt64.isNaN x := by
  simp only [encFWord, fmt64, FloatFmt.isNaN, FloatFmt.posInf, FloatFmt.negInf,
    signBit, BitVec.twoPow]
  bv_decide

theorem decFWord32_encFWord32 (x : BitVec 32) (h : fmt32.isNaN x = false) :
    decFWord fmt32 (encFWord fmt32 x) = x := by
  simp only [encFWord, decFWord, fmt32, FloatFmt.isNaN, FloatFmt.posInf, FloatFmt.negInf,
    signBit, BitVec.twoPow] at *
  bv_decide

theorem decFWord64_encFWord64 (x : BitVec 64) (h : fmt64.isNaN x = false) :
    decFWord fmt64 (encFWord fmt64 x) = x := by
  simp only [encFWord, decFWord, fmt64, FloatFmt.isNaN, FloatFmt.posInf, FloatFmt.negInf,
    signBit, BitVec.twoPow] at *
  bv_decide

end word

/-! ### float codec facts, generic in the format given the word-level facts -/

/-- The word-level facts (proved above for `fmt32`, `fmt64`) the byte-level theorems need. -/
structure FloatFmt.WordFacts {w} (f : FloatFmt w) : Prop where
  ult : ∀ x y, (encFWord f x).ult (encFWord f y) = f.ltB x y
  zero : ∀ x, (encFWord f x == 0#w) = f.isNaN x
  rt : ∀ x, f.isNaN x = false → decFWord f (encFWord f x) = x
  dec0 : decFWord f 0#w = f.canonNaN
  canon : f.isNaN f.canonNaN = true

theorem fmt32_wordFacts : fmt32.WordFacts :=
  ⟨encFWord32_ult, encFWord32_eq_zero_iff, decFWord32_encFWord32, by decide, by decide⟩

theorem fmt64_wordFacts : fmt64.WordFacts :=
  ⟨encFWord64_ult, encFWord64_eq_zero_iff, decFWord64_encFWord64, by decide, by decide⟩

namespace FloatFmt.WordFacts
variable {w : Nat} {f : FloatFmt w} (hf : f.WordFacts)
include hf

theorem encFWord_nan {x : BitVec w} (h : f.isNaN x = true) : encFWord f x = 0#w := by
  have := hf.zero x; rw [h] at this; simpa using this

theorem encFWord_ne_zero {x : BitVec w} (h : f.isNaN x = false) : encFWord f x ≠ 0#w := by
  have := hf.zero x; rw [h] at this; simpa using this

theorem decF_encF (h8 : 8 ∣ w) {x : BitVec w} (h : f.isNaN x = false) :
    decF f (encF f x) = x := by
  unfold decF encF; rw [ofNat_ofBE_toBE h8, hf.rt x h]

theorem decF_encF_nan (h8 : 8 ∣ w) {x : BitVec w} (h : f.isNaN x = true) :
    f.isNaN (decF f (encF f x)) = true := by
  unfold decF encF; rw [ofNat_ofBE_toBE h8, hf.encFWord_nan h, hf.dec0, hf.canon]

theorem encF_nan_eq {x y : BitVec w} (hx : f.isNaN x = true) (hy : f.isNaN y = true) :
    encF f x = encF f y := by
  unfold encF; rw [hf.encFWord_nan hx, hf.encFWord_nan hy]

theorem encF_lt_iff (h8 : 8 ∣ w) (x y : BitVec w) :
    lexLt (encF f x) (encF f y) = true ↔ f.rank x < f.rank y := by
  unfold encF
  rw [lexLt_toBE_word h8, f.rank_lt_iff, ← hf.ult]
  simp [BitVec.ult]

theorem encF_eq_iff (h8 : 8 ∣ w) (x y : BitVec w) :
    encF f x = encF f y ↔ (x = y ∨ (f.isNaN x = true ∧ f.isNaN y = true)) := by
  constructor
  · intro e
    have ew : encFWord f x = encFWord f y := toBE_word_inj h8 e
    cases hx : f.isNaN x with
    | true =>
      cases hy : f.isNaN y with
      | true => exact Or.inr ⟨rfl, rfl⟩
      | false =>
        rw [hf.encFWord_nan hx] at ew
        exact absurd ew.symm (hf.encFWord_ne_zero hy)
    | false =>
      cases hy : f.isNaN y with
      | true =>
        rw [hf.encFWord_nan hy] at ew
        exact absurd ew (hf.encFWord_ne_zero hx)
      | false =>
        left
        rw [← hf.decF_encF h8 hx, ← hf.decF_encF h8 hy, e]
  · rintro (rfl | ⟨hx, hy⟩)
    · rfl
    · exact hf.encF_nan_eq hx hy

end FloatFmt.WordFacts

end ArtVerif
