/-
  What `all()`, `backward()` and `filter()` of tree.go push for one inner node – the switch inside their
  `for len(q) != 0` loops, with the per-class loops (lanes below `childrenLen` in descending / ascending order, the 256
  index bytes of a node48, the 256 slots of a node256, the `continue`s over empty entries) – AS REGENERATED from the
  source on every run (`Gen/IterOps.lean`), is `Raw.pushDesc` / `Raw.pushAsc` of `Model/RIter.lean`, the functions
  `Proofs/RIterSim` proves to append exactly the entries of the ordered byte → child table and from which the
  traversals over the tree of raw node records (`C02Raw`, `C03Raw`, `C04Raw`) are built.  Kernel only.
-/
import ArtVerif.Gen.IterOps
import ArtVerif.Proofs.PushBase
namespace ArtVerif
namespace GenIter
open Gen Gen.IterOps GoNode Raw Swar GenNodeOps PushBase
variable {C : Type}

theorem all4_desc_lanes (E : Env C) (n : Img C) :
    ∀ (m fuel : Nat) (q : List (Option C)), m ≤ n.children.length → m < fuel →
      all_push.loop0 E n fuel (q, (m : Int) - 1) = some (q ++ (List.range m).reverse.map (fLane n.children), (-1 : Int)) := by
  intro m
  induction m with
  | zero =>
    intro fuel q _ hf
    obtain ⟨fuel, rfl⟩ : ∃ k, fuel = k + 1 := ⟨fuel - 1, by omega⟩
    have hc : decide ((((0 : Nat) : Int) - 1) ≥ (0 : Int)) = false := by decide
    simp only [all_push.loop0, hc]
    simp
  | succ m ih =>
    intro fuel q hm hf
    obtain ⟨fuel, rfl⟩ : ∃ k, fuel = k + 1 := ⟨fuel - 1, by omega⟩
    rw [show (((m + 1 : Nat) : Int) - 1) = (m : Int) by omega]
    have hc : decide ((m : Int) ≥ (0 : Int)) = true := by simp
    simp only [all_push.loop0, hc, if_true, Option.bind_eq_bind]
    rw [idx?_join _ _ (by omega)]
    simp only [Option.bind_some]
    rw [ih fuel _ (by omega) (by omega), range_rev_map_succ]
    simp [fLane]

theorem all16_desc_lanes (E : Env C) (n : Img C) :
    ∀ (m fuel : Nat) (q : List (Option C)), m ≤ n.children.length → m < fuel →
      all_push.loop1 E n fuel (q, (m : Int) - 1) = some (q ++ (List.range m).reverse.map (fLane n.children), (-1 : Int)) := by
  intro m
  induction m with
  | zero =>
    intro fuel q _ hf
    obtain ⟨fuel, rfl⟩ : ∃ k, fuel = k + 1 := ⟨fuel - 1, by omega⟩
    have hc : decide ((((0 : Nat) : Int) - 1) ≥ (0 : Int)) = false := by decide
    simp only [all_push.loop1, hc]
    simp
  | succ m ih =>
    intro fuel q hm hf
    obtain ⟨fuel, rfl⟩ : ∃ k, fuel = k + 1 := ⟨fuel - 1, by omega⟩
    rw [show (((m + 1 : Nat) : Int) - 1) = (m : Int) by omega]
    have hc : decide ((m : Int) ≥ (0 : Int)) = true := by simp
    simp only [all_push.loop1, hc, if_true, Option.bind_eq_bind]
    rw [idx?_join _ _ (by omega)]
    simp only [Option.bind_some]
    rw [ih fuel _ (by omega) (by omega), range_rev_map_succ]
    simp [fLane]

theorem all48_desc_idx (E : Env C) (n : Img C) (hk : n.keysA.length = 256) (hs : n.children.length = 48)
    (hv : ∀ i, i < 256 → n.keysA.getD i 0 ≠ 0 → (n.keysA.getD i 0).toNat ≤ 48) :
    ∀ (m fuel : Nat) (q : List (Option C)), m ≤ 256 → m < fuel →
      all_push.loop2 E n fuel (q, (m : Int) - 1) = some (q ++ (List.range m).reverse.filterMap (gIdx n.keysA n.children), (-1 : Int)) := by
  intro m
  induction m with
  | zero =>
    intro fuel q _ hf
    obtain ⟨fuel, rfl⟩ : ∃ k, fuel = k + 1 := ⟨fuel - 1, by omega⟩
    have hc : decide ((((0 : Nat) : Int) - 1) ≥ (0 : Int)) = false := by decide
    simp only [all_push.loop2, hc]
    simp
  | succ m ih =>
    intro fuel q hm hf
    obtain ⟨fuel, rfl⟩ : ∃ k, fuel = k + 1 := ⟨fuel - 1, by omega⟩
    rw [show (((m + 1 : Nat) : Int) - 1) = (m : Int) by omega]
    have hc : decide ((m : Int) ≥ (0 : Int)) = true := by simp
    have hget : n.keysA[m]? = some (n.keysA.getD m 0) := getD_eq_some _ _ (by omega)
    simp only [all_push.loop2, hc, if_true, Option.bind_eq_bind, idx?_nat, hget, Option.bind_some]
    rw [range_rev_filterMap_succ]
    by_cases hz : n.keysA.getD m 0 = 0
    · have h1 : (n.keysA.getD m 0 == (0 : UInt8)) = true := by rw [hz]; rfl
      have h2 : gIdx n.keysA n.children m = none := by
        show (if (n.keysA.getD m 0 != 0) = true then _ else none) = none
        rw [hz]; rfl
      rw [if_pos h1, ih fuel _ (by omega) (by omega), h2]
      simp
    · have h1 : ¬ (n.keysA.getD m 0 == (0 : UInt8)) = true := by simpa using hz
      have hnz : (n.keysA.getD m 0 != 0) = true := by simpa using hz
      have h2 : gIdx n.keysA n.children m = some ((n.children[(n.keysA.getD m 0).toNat - 1]?).join) := by
        show (if (n.keysA.getD m 0 != 0) = true then _ else none) = _
        rw [if_pos hnz]
      have hle := hv m (by omega) hz
      have hp := u8_pos _ hz
      have hsl : n.children[(n.keysA.getD m 0).toNat - 1]? =
          some ((n.children[(n.keysA.getD m 0).toNat - 1]?).join) := by
        rw [List.getElem?_eq_getElem (by omega)]; rfl
      rw [if_neg h1, u8_pred_toNat _ hz, hsl]
      simp only [Option.bind_some]
      rw [ih fuel _ (by omega) (by omega), h2]
      simp

theorem all256_desc_slots (E : Env C) (n : Img C) (hs : n.children.length = 256) :
    ∀ (m fuel : Nat) (q : List (Option C)), m ≤ 256 → m < fuel →
      all_push.loop3 E n fuel (q, (m : Int) - 1) = some (q ++ (List.range m).reverse.filterMap (hSlot n.children), (-1 : Int)) := by
  intro m
  induction m with
  | zero =>
    intro fuel q _ hf
    obtain ⟨fuel, rfl⟩ : ∃ k, fuel = k + 1 := ⟨fuel - 1, by omega⟩
    have hc : decide ((((0 : Nat) : Int) - 1) ≥ (0 : Int)) = false := by decide
    simp only [all_push.loop3, hc]
    simp
  | succ m ih =>
    intro fuel q hm hf
    obtain ⟨fuel, rfl⟩ : ∃ k, fuel = k + 1 := ⟨fuel - 1, by omega⟩
    rw [show (((m + 1 : Nat) : Int) - 1) = (m : Int) by omega]
    have hc : decide ((m : Int) ≥ (0 : Int)) = true := by simp
    simp only [all_push.loop3, hc, if_true, Option.bind_eq_bind]
    rw [idx?_join _ _ (by omega)]
    simp only [Option.bind_some]
    rw [range_rev_filterMap_succ]
    rcases hx : (n.children[m]?).join with _ | c
    · have h2 : hSlot n.children m = none := by unfold hSlot; rw [hx]
      simp only [Option.isNone_none, if_true, ↓reduceIte]
      rw [ih fuel _ (by omega) (by omega), h2]
      simp
    · have h2 : hSlot n.children m = some (some c) := by unfold hSlot; rw [hx]
      simp only [Option.isNone_some, Bool.false_eq_true, if_false, ↓reduceIte]
      rw [ih fuel _ (by omega) (by omega), h2]
      simp

theorem back4_asc_lanes (E : Env C) (n : Img C) (len : Nat) (hcl : n.childrenLen = hl len)
    (hlen : len ≤ n.children.length) (hl256 : len < 256) :
    ∀ (d i fuel : Nat) (q : List (Option C)), i + d = len → d < fuel →
      backward_push.loop0 E n fuel (q, UInt8.ofNat i) = some (q ++ (List.range' i d).map (fLane n.children), UInt8.ofNat len) := by
  intro d
  induction d with
  | zero =>
    intro i fuel q hi hf
    obtain ⟨fuel, rfl⟩ : ∃ k, fuel = k + 1 := ⟨fuel - 1, by omega⟩
    have : i = len := by omega
    subst this
    have hc : decide (UInt8.ofNat i < n.childrenLen) = false := by rw [hcl]; simp [hl]
    simp only [backward_push.loop0, hc]
    simp
  | succ d ih =>
    intro i fuel q hi hf
    obtain ⟨fuel, rfl⟩ : ∃ k, fuel = k + 1 := ⟨fuel - 1, by omega⟩
    have hc : decide (UInt8.ofNat i < n.childrenLen) = true := by
      rw [hcl]; show decide (hl i < UInt8.ofNat len) = true
      rw [hl_lt' i len (by omega) hl256]; simp; omega
    have e : (UInt8.ofNat i).toNat = i := by simp; omega
    simp only [backward_push.loop0, hc, if_true, e, Option.bind_eq_bind]
    rw [idx?_join _ _ (by omega)]
    simp only [Option.bind_some, u8_ofNat_succ']
    rw [ih (i + 1) fuel _ (by omega) (by omega), List.range'_succ]
    simp [fLane]

theorem back16_asc_lanes (E : Env C) (n : Img C) (len : Nat) (hcl : n.childrenLen = hl len)
    (hlen : len ≤ n.children.length) (hl256 : len < 256) :
    ∀ (d i fuel : Nat) (q : List (Option C)), i + d = len → d < fuel →
      backward_push.loop1 E n fuel (q, UInt8.ofNat i) = some (q ++ (List.range' i d).map (fLane n.children), UInt8.ofNat len) := by
  intro d
  induction d with
  | zero =>
    intro i fuel q hi hf
    obtain ⟨fuel, rfl⟩ : ∃ k, fuel = k + 1 := ⟨fuel - 1, by omega⟩
    have : i = len := by omega
    subst this
    have hc : decide (UInt8.ofNat i < n.childrenLen) = false := by rw [hcl]; simp [hl]
    simp only [backward_push.loop1, hc]
    simp
  | succ d ih =>
    intro i fuel q hi hf
    obtain ⟨fuel, rfl⟩ : ∃ k, fuel = k + 1 := ⟨fuel - 1, by omega⟩
    have hc : decide (UInt8.ofNat i < n.childrenLen) = true := by
      rw [hcl]; show decide (hl i < UInt8.ofNat len) = true
      rw [hl_lt' i len (by omega) hl256]; simp; omega
    have e : (UInt8.ofNat i).toNat = i := by simp; omega
    simp only [backward_push.loop1, hc, if_true, e, Option.bind_eq_bind]
    rw [idx?_join _ _ (by omega)]
    simp only [Option.bind_some, u8_ofNat_succ']
    rw [ih (i + 1) fuel _ (by omega) (by omega), List.range'_succ]
    simp [fLane]

theorem back48_asc_idx (E : Env C) (n : Img C) (hk : n.keysA.length = 256) (hs : n.children.length = 48)
    (hv : ∀ i, i < 256 → n.keysA.getD i 0 ≠ 0 → (n.keysA.getD i 0).toNat ≤ 48) :
    ∀ (d i fuel : Nat) (q : List (Option C)), i + d = 256 → d < fuel →
      backward_push.loop2 E n fuel (q, (i : Int)) = some (q ++ (List.range' i d).filterMap (gIdx n.keysA n.children), (256 : Int)) := by
  intro d
  induction d with
  | zero =>
    intro i fuel q hi hf
    obtain ⟨fuel, rfl⟩ : ∃ k, fuel = k + 1 := ⟨fuel - 1, by omega⟩
    have : i = 256 := by omega
    subst this
    have hc : decide ((((256 : Nat) : Int)) < (256 : Int)) = false := by decide
    simp only [backward_push.loop2, hc]
    simp
  | succ d ih =>
    intro i fuel q hi hf
    obtain ⟨fuel, rfl⟩ : ∃ k, fuel = k + 1 := ⟨fuel - 1, by omega⟩
    have hc : decide ((i : Int) < (256 : Int)) = true := by simp; omega
    have hcast : ((i : Int) + 1) = ((i + 1 : Nat) : Int) := by omega
    have hget : n.keysA[i]? = some (n.keysA.getD i 0) := getD_eq_some _ _ (by omega)
    simp only [backward_push.loop2, hc, if_true, Option.bind_eq_bind, idx?_nat, hget, Option.bind_some]
    rw [List.range'_succ, List.filterMap_cons]
    by_cases hz : n.keysA.getD i 0 = 0
    · have h1 : (n.keysA.getD i 0 == (0 : UInt8)) = true := by rw [hz]; rfl
      have h2 : gIdx n.keysA n.children i = none := by
        show (if (n.keysA.getD i 0 != 0) = true then _ else none) = none
        rw [hz]; rfl
      rw [if_pos h1, hcast, ih (i + 1) fuel _ (by omega) (by omega), h2]
    · have h1 : ¬ (n.keysA.getD i 0 == (0 : UInt8)) = true := by simpa using hz
      have hnz : (n.keysA.getD i 0 != 0) = true := by simpa using hz
      have h2 : gIdx n.keysA n.children i = some ((n.children[(n.keysA.getD i 0).toNat - 1]?).join) := by
        show (if (n.keysA.getD i 0 != 0) = true then _ else none) = _
        rw [if_pos hnz]
      have hle := hv i (by omega) hz
      have hp := u8_pos _ hz
      have hsl : n.children[(n.keysA.getD i 0).toNat - 1]? =
          some ((n.children[(n.keysA.getD i 0).toNat - 1]?).join) := by
        rw [List.getElem?_eq_getElem (by omega)]; rfl
      rw [if_neg h1, u8_pred_toNat _ hz, hsl]
      simp only [Option.bind_some]
      rw [hcast, ih (i + 1) fuel _ (by omega) (by omega), h2]
      simp

theorem back256_asc_slots (E : Env C) (n : Img C) (hs : n.children.length = 256) :
    ∀ (d i fuel : Nat) (q : List (Option C)), i + d = 256 → d < fuel →
      backward_push.loop3 E n fuel (q, (i : Int)) = some (q ++ (List.range' i d).filterMap (hSlot n.children), (256 : Int)) := by
  intro d
  induction d with
  | zero =>
    intro i fuel q hi hf
    obtain ⟨fuel, rfl⟩ : ∃ k, fuel = k + 1 := ⟨fuel - 1, by omega⟩
    have : i = 256 := by omega
    subst this
    have hc : decide ((((256 : Nat) : Int)) < (256 : Int)) = false := by decide
    simp only [backward_push.loop3, hc]
    simp
  | succ d ih =>
    intro i fuel q hi hf
    obtain ⟨fuel, rfl⟩ : ∃ k, fuel = k + 1 := ⟨fuel - 1, by omega⟩
    have hc : decide ((i : Int) < (256 : Int)) = true := by simp; omega
    have hcast : ((i : Int) + 1) = ((i + 1 : Nat) : Int) := by omega
    simp only [backward_push.loop3, hc, if_true, Option.bind_eq_bind]
    rw [idx?_join _ _ (by omega)]
    simp only [Option.bind_some]
    rw [List.range'_succ, List.filterMap_cons]
    rcases hx : (n.children[i]?).join with _ | c
    · have h2 : hSlot n.children i = none := by unfold hSlot; rw [hx]
      simp only [Option.isNone_none, if_true, ↓reduceIte]
      rw [hcast, ih (i + 1) fuel _ (by omega) (by omega), h2]
    · have h2 : hSlot n.children i = some (some c) := by unfold hSlot; rw [hx]
      simp only [Option.isNone_some, Bool.false_eq_true, if_false, ↓reduceIte]
      rw [hcast, ih (i + 1) fuel _ (by omega) (by omega), h2]
      simp

theorem filter4_desc_lanes (E : Env C) (n : Img C) :
    ∀ (m fuel : Nat) (q : List (Option C)), m ≤ n.children.length → m < fuel →
      filter_push.loop0 E n fuel (q, (m : Int) - 1) = some (q ++ (List.range m).reverse.map (fLane n.children), (-1 : Int)) := by
  intro m
  induction m with
  | zero =>
    intro fuel q _ hf
    obtain ⟨fuel, rfl⟩ : ∃ k, fuel = k + 1 := ⟨fuel - 1, by omega⟩
    have hc : decide ((((0 : Nat) : Int) - 1) ≥ (0 : Int)) = false := by decide
    simp only [filter_push.loop0, hc]
    simp
  | succ m ih =>
    intro fuel q hm hf
    obtain ⟨fuel, rfl⟩ : ∃ k, fuel = k + 1 := ⟨fuel - 1, by omega⟩
    rw [show (((m + 1 : Nat) : Int) - 1) = (m : Int) by omega]
    have hc : decide ((m : Int) ≥ (0 : Int)) = true := by simp
    simp only [filter_push.loop0, hc, if_true, Option.bind_eq_bind]
    rw [idx?_join _ _ (by omega)]
    simp only [Option.bind_some]
    rw [ih fuel _ (by omega) (by omega), range_rev_map_succ]
    simp [fLane]


theorem filter16_desc_lanes (E : Env C) (n : Img C) :
    ∀ (m fuel : Nat) (q : List (Option C)), m ≤ n.children.length → m < fuel →
      filter_push.loop1 E n fuel (q, (m : Int) - 1) = some (q ++ (List.range m).reverse.map (fLane n.children), (-1 : Int)) := by
  intro m
  induction m with
  | zero =>
    intro fuel q _ hf
    obtain ⟨fuel, rfl⟩ : ∃ k, fuel = k + 1 := ⟨fuel - 1, by omega⟩
    have hc : decide ((((0 : Nat) : Int) - 1) ≥ (0 : Int)) = false := by decide
    simp only [filter_push.loop1, hc]
    simp
  | succ m ih =>
    intro fuel q hm hf
    obtain ⟨fuel, rfl⟩ : ∃ k, fuel = k + 1 := ⟨fuel - 1, by omega⟩
    rw [show (((m + 1 : Nat) : Int) - 1) = (m : Int) by omega]
    have hc : decide ((m : Int) ≥ (0 : Int)) = true := by simp
    simp only [filter_push.loop1, hc, if_true, Option.bind_eq_bind]
    rw [idx?_join _ _ (by omega)]
    simp only [Option.bind_some]
    rw [ih fuel _ (by omega) (by omega), range_rev_map_succ]
    simp [fLane]


theorem filter48_desc_idx (E : Env C) (n : Img C) (hk : n.keysA.length = 256) (hs : n.children.length = 48)
    (hv : ∀ i, i < 256 → n.keysA.getD i 0 ≠ 0 → (n.keysA.getD i 0).toNat ≤ 48) :
    ∀ (m fuel : Nat) (q : List (Option C)), m ≤ 256 → m < fuel →
      filter_push.loop2 E n fuel (q, (m : Int) - 1) = some (q ++ (List.range m).reverse.filterMap (gIdx n.keysA n.children), (-1 : Int)) := by
  intro m
  induction m with
  | zero =>
    intro fuel q _ hf
    obtain ⟨fuel, rfl⟩ : ∃ k, fuel = k + 1 := ⟨fuel - 1, by omega⟩
    have hc : decide ((((0 : Nat) : Int) - 1) ≥ (0 : Int)) = false := by decide
    simp only [filter_push.loop2, hc]
    simp
  | succ m ih =>
    intro fuel q hm hf
    obtain ⟨fuel, rfl⟩ : ∃ k, fuel = k + 1 := ⟨fuel - 1, by omega⟩
    rw [show (((m + 1 : Nat) : Int) - 1) = (m : Int) by omega]
    have hc : decide ((m : Int) ≥ (0 : Int)) = true := by simp
    have hget : n.keysA[m]? = some (n.keysA.getD m 0) := getD_eq_some _ _ (by omega)
    simp only [filter_push.loop2, hc, if_true, Option.bind_eq_bind, idx?_nat, hget, Option.bind_some]
    rw [range_rev_filterMap_succ]
    by_cases hz : n.keysA.getD m 0 = 0
    · have h1 : (n.keysA.getD m 0 == (0 : UInt8)) = true := by rw [hz]; rfl
      have h2 : gIdx n.keysA n.children m = none := by
        show (if (n.keysA.getD m 0 != 0) = true then _ else none) = none
        rw [hz]; rfl
      rw [if_pos h1, ih fuel _ (by omega) (by omega), h2]
      simp
    · have h1 : ¬ (n.keysA.getD m 0 == (0 : UInt8)) = true := by simpa using hz
      have hnz : (n.keysA.getD m 0 != 0) = true := by simpa using hz
      have h2 : gIdx n.keysA n.children m = some ((n.children[(n.keysA.getD m 0).toNat - 1]?).join) := by
        show (if (n.keysA.getD m 0 != 0) = true then _ else none) = _
        rw [if_pos hnz]
      have hle := hv m (by omega) hz
      have hp := u8_pos _ hz
      have hsl : n.children[(n.keysA.getD m 0).toNat - 1]? =
          some ((n.children[(n.keysA.getD m 0).toNat - 1]?).join) := by
        rw [List.getElem?_eq_getElem (by omega)]; rfl
      rw [if_neg h1, u8_pred_toNat _ hz, hsl]
      simp only [Option.bind_some]
      rw [ih fuel _ (by omega) (by omega), h2]
      simp


theorem filter256_desc_slots (E : Env C) (n : Img C) (hs : n.children.length = 256) :
    ∀ (m fuel : Nat) (q : List (Option C)), m ≤ 256 → m < fuel →
      filter_push.loop3 E n fuel (q, (m : Int) - 1) = some (q ++ (List.range m).reverse.filterMap (hSlot n.children), (-1 : Int)) := by
  intro m
  induction m with
  | zero =>
    intro fuel q _ hf
    obtain ⟨fuel, rfl⟩ : ∃ k, fuel = k + 1 := ⟨fuel - 1, by omega⟩
    have hc : decide ((((0 : Nat) : Int) - 1) ≥ (0 : Int)) = false := by decide
    simp only [filter_push.loop3, hc]
    simp
  | succ m ih =>
    intro fuel q hm hf
    obtain ⟨fuel, rfl⟩ : ∃ k, fuel = k + 1 := ⟨fuel - 1, by omega⟩
    rw [show (((m + 1 : Nat) : Int) - 1) = (m : Int) by omega]
    have hc : decide ((m : Int) ≥ (0 : Int)) = true := by simp
    simp only [filter_push.loop3, hc, if_true, Option.bind_eq_bind]
    rw [idx?_join _ _ (by omega)]
    simp only [Option.bind_some]
    rw [range_rev_filterMap_succ]
    rcases hx : (n.children[m]?).join with _ | c
    · have h2 : hSlot n.children m = none := by unfold hSlot; rw [hx]
      simp only [Option.isNone_none, if_true, ↓reduceIte]
      rw [ih fuel _ (by omega) (by omega), h2]
      simp
    · have h2 : hSlot n.children m = some (some c) := by unfold hSlot; rw [hx]
      simp only [Option.isNone_some, Bool.false_eq_true, if_false, ↓reduceIte]
      rw [ih fuel _ (by omega) (by omega), h2]
      simp



/-! ### the push steps -/

/-- `all()` / `filter()` / (the same switch in) `rangeScan()`: the stack after one inner node has been expanded -/
theorem all_push_eq (E : Env C) (r : Raw C) (q : List (Option C)) (hinv : r.inv = true) :
    all_push E (imgOf r).1 (imgOf r).2 q = some (q ++ r.pushDesc) := by
  rw [pushDesc_eq]
  cases r with
  | n4 h len keys slots =>
    obtain ⟨_, hs, hl4, _⟩ := (inv4_iff h len keys slots).1 hinv
    have := all4_desc_lanes E (img4 h len keys slots) len loopFuel q (by simp only [img4]; omega) (by simp only [loopFuel]; omega)
    simp only [imgOf, all_push, img4, hl_toNat _ (show len < 256 by omega), Option.bind_eq_bind] at this ⊢
    rw [this]; rfl
  | n16 h len keys slots =>
    obtain ⟨_, hs, _, hl16, _⟩ := (inv16_iff h len keys slots).1 hinv
    have := all16_desc_lanes E (img16 h len keys slots) len loopFuel q (by simp only [img16]; omega) (by simp only [loopFuel]; omega)
    simp only [imgOf, all_push, img16, hl_toNat _ (show len < 256 by omega), Option.bind_eq_bind] at this ⊢
    rw [this]; rfl
  | n48 h len idx slots =>
    obtain ⟨_, _, _, hI⟩ := (inv48_iff h len idx slots).1 hinv
    have := all48_desc_idx E (img16 h len idx slots) hI.hi hI.hs (validIdx hI) 256 loopFuel q (by omega) (by simp only [loopFuel]; omega)
    simp only [imgOf, all_push, img16, Option.bind_eq_bind, show (255 : Int) = (((256 : Nat) : Int) - 1) from rfl] at this ⊢
    rw [this]; rfl
  | n256 h len slots =>
    obtain ⟨_, hs, _⟩ := (inv256_iff h len slots).1 hinv
    have := all256_desc_slots E (img256 h len slots) hs 256 loopFuel q (by omega) (by simp only [loopFuel]; omega)
    simp only [imgOf, all_push, img256, Option.bind_eq_bind, show (255 : Int) = (((256 : Nat) : Int) - 1) from rfl] at this ⊢
    rw [this]; rfl

theorem filter_push_eq (E : Env C) (r : Raw C) (q : List (Option C)) (hinv : r.inv = true) :
    filter_push E (imgOf r).1 (imgOf r).2 q = some (q ++ r.pushDesc) := by
  rw [pushDesc_eq]
  cases r with
  | n4 h len keys slots =>
    obtain ⟨_, hs, hl4, _⟩ := (inv4_iff h len keys slots).1 hinv
    have := filter4_desc_lanes E (img4 h len keys slots) len loopFuel q (by simp only [img4]; omega) (by simp only [loopFuel]; omega)
    simp only [imgOf, filter_push, img4, hl_toNat _ (show len < 256 by omega), Option.bind_eq_bind] at this ⊢
    rw [this]; rfl
  | n16 h len keys slots =>
    obtain ⟨_, hs, _, hl16, _⟩ := (inv16_iff h len keys slots).1 hinv
    have := filter16_desc_lanes E (img16 h len keys slots) len loopFuel q (by simp only [img16]; omega) (by simp only [loopFuel]; omega)
    simp only [imgOf, filter_push, img16, hl_toNat _ (show len < 256 by omega), Option.bind_eq_bind] at this ⊢
    rw [this]; rfl
  | n48 h len idx slots =>
    obtain ⟨_, _, _, hI⟩ := (inv48_iff h len idx slots).1 hinv
    have := filter48_desc_idx E (img16 h len idx slots) hI.hi hI.hs (validIdx hI) 256 loopFuel q (by omega) (by simp only [loopFuel]; omega)
    simp only [imgOf, filter_push, img16, Option.bind_eq_bind, show (255 : Int) = (((256 : Nat) : Int) - 1) from rfl] at this ⊢
    rw [this]; rfl
  | n256 h len slots =>
    obtain ⟨_, hs, _⟩ := (inv256_iff h len slots).1 hinv
    have := filter256_desc_slots E (img256 h len slots) hs 256 loopFuel q (by omega) (by simp only [loopFuel]; omega)
    simp only [imgOf, filter_push, img256, Option.bind_eq_bind, show (255 : Int) = (((256 : Nat) : Int) - 1) from rfl] at this ⊢
    rw [this]; rfl

/-- `backward()`: the stack after one inner node has been expanded -/
theorem backward_push_eq (E : Env C) (r : Raw C) (q : List (Option C)) (hinv : r.inv = true) :
    backward_push E (imgOf r).1 (imgOf r).2 q = some (q ++ r.pushAsc) := by
  rw [pushAsc_eq]
  cases r with
  | n4 h len keys slots =>
    obtain ⟨_, hs, hl4, _⟩ := (inv4_iff h len keys slots).1 hinv
    have := back4_asc_lanes E (img4 h len keys slots) len rfl (by simp only [img4]; omega) (by omega) len 0 loopFuel q (by omega) (by simp only [loopFuel]; omega)
    simp only [imgOf, backward_push, img4, Option.bind_eq_bind, show (0 : UInt8) = UInt8.ofNat 0 from rfl, List.range_eq_range'] at this ⊢
    rw [this]; rfl
  | n16 h len keys slots =>
    obtain ⟨_, hs, _, hl16, _⟩ := (inv16_iff h len keys slots).1 hinv
    have := back16_asc_lanes E (img16 h len keys slots) len rfl (by simp only [img16]; omega) (by omega) len 0 loopFuel q (by omega) (by simp only [loopFuel]; omega)
    simp only [imgOf, backward_push, img16, Option.bind_eq_bind, show (0 : UInt8) = UInt8.ofNat 0 from rfl, List.range_eq_range'] at this ⊢
    rw [this]; rfl
  | n48 h len idx slots =>
    obtain ⟨_, _, _, hI⟩ := (inv48_iff h len idx slots).1 hinv
    have := back48_asc_idx E (img16 h len idx slots) hI.hi hI.hs (validIdx hI) 256 0 loopFuel q (by omega) (by simp only [loopFuel]; omega)
    simp only [imgOf, backward_push, img16, Option.bind_eq_bind, show (0 : Int) = ((0 : Nat) : Int) from rfl, List.range_eq_range'] at this ⊢
    rw [this]; rfl
  | n256 h len slots =>
    obtain ⟨_, hs, _⟩ := (inv256_iff h len slots).1 hinv
    have := back256_asc_slots E (img256 h len slots) hs 256 0 loopFuel q (by omega) (by simp only [loopFuel]; omega)
    simp only [imgOf, backward_push, img256, Option.bind_eq_bind, show (0 : Int) = ((0 : Nat) : Int) from rfl, List.range_eq_range'] at this ⊢
    rw [this]; rfl

end GenIter
end ArtVerif
