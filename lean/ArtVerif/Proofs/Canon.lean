/-
  Canonical shape: apart from the size class of each node (and the values), a well-formed tree is
  determined by its leaf keys.
-/
import ArtVerif.Proofs.SortedExt
namespace ArtVerif
open Gen
namespace T
variable {V W : Type}

mutual
/-- forget size classes and values -/
def shape : T V → T Unit
  | leaf k tk _ => leaf k tk ()
  | node _ plen inl ch => node .k4 plen inl (shapeL ch)
def shapeL : Ch V → Ch Unit
  | [] => []
  | (b, c) :: rest => (b, shape c) :: shapeL rest
end

/-- the keys of the leaves, in order -/
def keysOf (t : T V) : List (Bytes × Bytes) := (inorder t).map (fun it => (it.1, it.2.1))
def keysOfL (ch : Ch V) : List (Bytes × Bytes) := (inorderL ch).map (fun it => (it.1, it.2.1))

theorem keysOfL_cons (b : UInt8) (c : T V) (rest : Ch V) :
    keysOfL ((b, c) :: rest) = keysOf c ++ keysOfL rest := by
  simp [keysOfL, keysOf, inorderL]

theorem lcpLen_branch (q x y : Bytes) (a b : UInt8) (hab : a ≠ b) :
    lcpLen (q ++ a :: x) (q ++ b :: y) = q.length := by
  induction q with
  | nil => simp [lcpLen, hab]
  | cons c q ih => simp [lcpLen, ih]

theorem keysOf_ne_nil {t : T V} {p : Bytes} (h : WF t p) : keysOf t ≠ [] := by
  have := inorder_ne_nil t (WF.full t p h)
  simp [keysOf, this]

/-- every key below a child carries the child's byte right after the node's path -/
theorem byte_of_child {c : T V} {q : Bytes} {b : UInt8} (h : WF c (q ++ [b])) :
    ∀ kt ∈ keysOf c, kt.2[q.length]? = some b := by
  intro kt hkt
  simp only [keysOf, List.mem_map] at hkt
  obtain ⟨it, hit, rfl⟩ := hkt
  exact getElem?_of_append_singleton_prefix (WF.prefix_of_mem _ _ h it hit)

/-- the leaves of the first child are the longest prefix of the leaf list carrying its byte -/
theorem takeWhile_first_child (q : Bytes) (b : UInt8) (c : T V) (rest : Ch V)
    (hs : KeysSorted ((b, c) :: rest)) (hc : ∀ bc ∈ (b, c) :: rest, WF bc.2 (q ++ [bc.1])) :
    (keysOfL ((b, c) :: rest)).takeWhile (fun kt => kt.2[q.length]? == some b) = keysOf c ∧
    (keysOfL ((b, c) :: rest)).dropWhile (fun kt => kt.2[q.length]? == some b) = keysOfL rest := by
  rw [keysOfL_cons]
  have hall : ∀ kt ∈ keysOf c, (kt.2[q.length]? == some b) = true := by
    intro kt hkt; simp [byte_of_child (hc (b, c) List.mem_cons_self) kt hkt]
  have hnone : ∀ kt ∈ keysOfL rest, (kt.2[q.length]? == some b) = false := by
    intro kt hkt
    simp only [keysOfL, List.mem_map] at hkt
    obtain ⟨it, hit, rfl⟩ := hkt
    obtain ⟨bc, hbc, hin⟩ := mem_inorderL_iff.mp hit
    have hb' := byte_of_child (hc bc (List.mem_cons_of_mem _ hbc)) (it.1, it.2.1)
      (by simp only [keysOf, List.mem_map]; exact ⟨it, hin, rfl⟩)
    simp only [KeysSorted, List.map_cons, List.pairwise_cons] at hs
    have hlt := hs.1 bc.1 (by simp only [List.mem_map]; exact ⟨bc, hbc, rfl⟩)
    have hne : bc.1 ≠ b := fun e => by rw [e] at hlt; exact UInt8.lt_irrefl _ hlt
    simp only at hb'
    rw [hb']
    simpa using hne
  constructor
  · rw [List.takeWhile_append_of_pos hall]
    cases hr : keysOfL rest with
    | nil => simp
    | cons kt l =>
      have := hnone kt (by rw [hr]; simp)
      simp [List.takeWhile, this]
  · rw [List.dropWhile_append_of_pos hall]
    cases hr : keysOfL rest with
    | nil => simp
    | cons kt l =>
      have := hnone kt (by rw [hr]; simp)
      simp [List.dropWhile, this]

theorem shapeL_eq_of_keys (q : Bytes) : ∀ (ch : Ch V) (ch' : Ch W),
    KeysSorted ch → KeysSorted ch' →
    (∀ bc ∈ ch, WF bc.2 (q ++ [bc.1])) → (∀ bc ∈ ch', WF bc.2 (q ++ [bc.1])) →
    keysOfL ch = keysOfL ch' →
    (∀ bc ∈ ch, ∀ (t' : T W) (p : Bytes), WF bc.2 p → WF t' p → keysOf bc.2 = keysOf t' → shape bc.2 = shape t') →
    shapeL ch = shapeL ch' := by
  intro ch
  induction ch with
  | nil =>
    intro ch' _ _ _ hc' hk _
    cases ch' with
    | nil => rfl
    | cons bc' rest' =>
      obtain ⟨b', c'⟩ := bc'
      have := keysOf_ne_nil (hc' (b', c') List.mem_cons_self)
      rw [keysOfL_cons] at hk
      simp [keysOfL, inorderL] at hk
      exact absurd hk.1 this
  | cons bc rest ihl =>
    obtain ⟨b, c⟩ := bc
    intro ch' hs hs' hc hc' hk ih
    cases ch' with
    | nil =>
      have := keysOf_ne_nil (hc (b, c) List.mem_cons_self)
      rw [keysOfL_cons] at hk
      simp [keysOfL, inorderL] at hk
      exact absurd hk.1 this
    | cons bc' rest' =>
      obtain ⟨b', c'⟩ := bc'
      -- the first key decides the first branch byte
      have hbb : b = b' := by
        have hne := keysOf_ne_nil (hc (b, c) List.mem_cons_self)
        have hne' := keysOf_ne_nil (hc' (b', c') List.mem_cons_self)
        cases hkc : keysOf c with
        | nil => exact absurd hkc hne
        | cons kt l =>
          cases hkc' : keysOf c' with
          | nil => exact absurd hkc' hne'
          | cons kt' l' =>
            rw [keysOfL_cons, keysOfL_cons, hkc, hkc'] at hk
            simp only [List.cons_append, List.cons.injEq] at hk
            have h1 := byte_of_child (hc (b, c) List.mem_cons_self) kt (by rw [hkc]; simp)
            have h2 := byte_of_child (hc' (b', c') List.mem_cons_self) kt' (by rw [hkc']; simp)
            rw [hk.1] at h1
            simp only at h1 h2
            rw [h1] at h2
            exact Option.some.inj h2
      subst hbb
      obtain ⟨t1, d1⟩ := takeWhile_first_child q b c rest hs hc
      obtain ⟨t2, d2⟩ := takeWhile_first_child q b c' rest' hs' hc'
      rw [hk] at t1 d1
      have hkc : keysOf c = keysOf c' := t1.symm.trans t2
      have hkr : keysOfL rest = keysOfL rest' := d1.symm.trans d2
      simp only [shapeL]
      have h1 := ih (b, c) List.mem_cons_self c' (q ++ [b]) (hc (b, c) List.mem_cons_self)
        (hc' (b, c') List.mem_cons_self) hkc
      simp only at h1
      rw [h1]
      congr 1
      simp only [KeysSorted, List.map_cons, List.pairwise_cons] at hs hs'
      exact ihl rest' hs.2 hs'.2 (fun bc h => hc bc (List.mem_cons_of_mem _ h))
        (fun bc h => hc' bc (List.mem_cons_of_mem _ h)) hkr
        (fun bc h => ih bc (List.mem_cons_of_mem _ h))

/-- two keys below different children diverge exactly at the end of the compressed path -/
theorem exists_pair_lcp {kind plen inl} {ch : Ch V} {p : Bytes} (h : WF (node kind plen inl ch) p) :
    ∃ x ∈ keysOf (node kind plen inl ch), ∃ y ∈ keysOf (node kind plen inl ch),
      lcpLen x.2 y.2 = p.length + plen := by
  cases h with
  | node cp hl hi hs h2 hk hc =>
    match ch, h2 with
    | (b1, c1) :: (b2, c2) :: rest, _ =>
      have hw1 := hc (b1, c1) (by simp)
      have hw2 := hc (b2, c2) (by simp)
      have hne1 := inorder_ne_nil c1 (WF.full _ _ hw1)
      have hne2 := inorder_ne_nil c2 (WF.full _ _ hw2)
      cases hi1 : inorder c1 with
      | nil => exact absurd hi1 hne1
      | cons x xs =>
        cases hi2 : inorder c2 with
        | nil => exact absurd hi2 hne2
        | cons y ys =>
          have hx := WF.prefix_of_mem _ _ hw1 x (by rw [hi1]; simp)
          have hy := WF.prefix_of_mem _ _ hw2 y (by rw [hi2]; simp)
          refine ⟨(x.1, x.2.1), ?_, (y.1, y.2.1), ?_, ?_⟩
          · simp only [keysOf, inorder, inorderL, List.mem_map]; exact ⟨x, by simp [hi1], rfl⟩
          · simp only [keysOf, inorder, inorderL, List.mem_map]; exact ⟨y, by simp [hi2], rfl⟩
          · obtain ⟨r1, hr1⟩ := hx
            obtain ⟨r2, hr2⟩ := hy
            simp only at hr1 hr2 ⊢
            rw [← hr1, ← hr2]
            have hb : b1 ≠ b2 := by
              simp only [List.map_cons, List.pairwise_cons] at hs
              have := hs.1 b2 (by simp)
              intro e; rw [e] at this; exact UInt8.lt_irrefl _ this
            have := lcpLen_branch (p ++ cp) r1 r2 b1 b2 hb
            simpa [List.append_assoc, hl] using this

theorem all_pairs_lcp {kind plen inl} {ch : Ch V} {p : Bytes} (h : WF (node kind plen inl ch) p) :
    ∀ x ∈ keysOf (node kind plen inl ch), ∀ y ∈ keysOf (node kind plen inl ch), p.length + plen ≤ lcpLen x.2 y.2 := by
  intro x hx y hy
  cases h with
  | node cp hl hi hs h2 hk hc =>
    simp only [keysOf, inorder, List.mem_map] at hx hy
    obtain ⟨ix, hix, rfl⟩ := hx
    obtain ⟨iy, hiy, rfl⟩ := hy
    obtain ⟨_, _, hpx, _⟩ := WF.prefix_cp hc ix hix
    obtain ⟨_, _, hpy, _⟩ := WF.prefix_cp hc iy hiy
    have := prefix_le_lcpLen (p ++ cp) ix.2.1 iy.2.1
      (List.IsPrefix.trans (by simp) hpx) (List.IsPrefix.trans (by simp) hpy)
    simpa [hl] using this

theorem cp_of_key {kind plen inl} {ch : Ch V} {p : Bytes} (h : WF (node kind plen inl ch) p) :
    ∀ x ∈ keysOf (node kind plen inl ch), inl = ((x.2.drop p.length).take plen).take maxPrefixLen := by
  intro x hx
  cases h with
  | node cp hl hi hs h2 hk hc =>
    simp only [keysOf, inorder, List.mem_map] at hx
    obtain ⟨ix, hix, rfl⟩ := hx
    obtain ⟨_, _, hpx, _⟩ := WF.prefix_cp hc ix hix
    obtain ⟨r, hr⟩ := hpx
    simp only
    rw [hi, ← hr]
    simp [List.append_assoc, ← hl]

theorem key_len {kind plen inl} {ch : Ch V} {p : Bytes} (h : WF (node kind plen inl ch) p) :
    ∀ x ∈ keysOf (node kind plen inl ch), p.length + plen + 1 ≤ x.2.length := by
  intro x hx
  cases h with
  | node cp hl hi hs h2 hk hc =>
    simp only [keysOf, inorder, List.mem_map] at hx
    obtain ⟨ix, hix, rfl⟩ := hx
    obtain ⟨_, _, hpx, _⟩ := WF.prefix_cp hc ix hix
    have := hpx.length_le
    simp [hl] at this
    simp only
    omega

theorem node_ne_leaf_keys {kind plen inl} {ch : Ch V} {p k tk : Bytes} (h : WF (node kind plen inl ch) p)
    (hk : keysOf (node kind plen inl ch) = [(k, tk)]) : False := by
  obtain ⟨x, hx, y, hy, hxy⟩ := exists_pair_lcp h
  have hlen := key_len h x hx
  rw [hk] at hx hy
  simp at hx hy
  subst hx; subst hy
  have hself : lcpLen tk tk = tk.length := (lcpLen_eq_length_iff tk tk).mpr (List.prefix_refl _)
  simp only at hxy hlen
  omega

/-- **Canonical shape**: two well-formed trees below the same path with the same leaf keys have the same
    shape (compressed paths, branch bytes, nesting), whatever histories produced them. -/
theorem canonical_shape : ∀ (t : T V) (t' : T W) (p : Bytes), WF t p → WF t' p → keysOf t = keysOf t' →
    shape t = shape t' := by
  intro t
  induction t using induct with
  | hleaf k tk v =>
    intro t' p _ hw' hk
    cases t' with
    | leaf k' tk' v' => simp [keysOf, inorder] at hk; simp [shape, hk]
    | node kind' plen' inl' ch' =>
      exact (node_ne_leaf_keys (k := k) (tk := tk) hw' (by rw [← hk]; simp [keysOf, inorder])).elim
  | hnode kind plen inl ch ih =>
    intro t' p hw hw' hk
    cases t' with
    | leaf k' tk' v' =>
      exact (node_ne_leaf_keys (k := k') (tk := tk') hw (by rw [hk]; simp [keysOf, inorder])).elim
    | node kind' plen' inl' ch' =>
      -- same compressed path length
      have hpl : plen = plen' := by
        obtain ⟨x, hx, y, hy, hxy⟩ := exists_pair_lcp hw
        obtain ⟨x', hx', y', hy', hxy'⟩ := exists_pair_lcp hw'
        have h1 := all_pairs_lcp hw' x (hk ▸ hx) y (hk ▸ hy)
        have h2 := all_pairs_lcp hw x' (hk ▸ hx') y' (hk ▸ hy')
        omega
      subst hpl
      -- same inline bytes
      have hinl : inl = inl' := by
        obtain ⟨x, hx, _, _, _⟩ := exists_pair_lcp hw
        rw [cp_of_key hw x hx, cp_of_key hw' x (hk ▸ hx)]
      subst hinl
      simp only [shape]
      congr 1
      cases hw with
      | node cp hl hi hs h2 hkd hc =>
        cases hw' with
        | node cp' hl' hi' hs' h2' hkd' hc' =>
          -- same compressed path
          have hcp : cp = cp' := by
            obtain ⟨bc, hbc⟩ : ∃ bc, bc ∈ ch := by
              cases ch with
              | nil => simp at h2
              | cons a _ => exact ⟨a, by simp⟩
            have hne := inorder_ne_nil bc.2 (WF.full _ _ (hc bc hbc))
            cases hib : inorder bc.2 with
            | nil => exact absurd hib hne
            | cons it _ =>
              have hit : it ∈ inorderL ch := mem_inorderL_iff.mpr ⟨bc, hbc, by rw [hib]; simp⟩
              obtain ⟨bc1, _, hp1, _⟩ := WF.prefix_cp hc it hit
              have hkt : (it.1, it.2.1) ∈ keysOf (node kind' plen inl ch') := by
                rw [← hk]; simp only [keysOf, inorder, List.mem_map]; exact ⟨it, hit, rfl⟩
              simp only [keysOf, inorder, List.mem_map] at hkt
              obtain ⟨it', hit', he⟩ := hkt
              obtain ⟨bc2, _, hp2, _⟩ := WF.prefix_cp hc' it' hit'
              have he2 : it'.2.1 = it.2.1 := by simpa using congrArg Prod.snd he
              rw [he2] at hp2
              obtain ⟨r1, hr1⟩ := hp1
              obtain ⟨r2, hr2⟩ := hp2
              have : p ++ (cp ++ (bc1.1 :: r1)) = p ++ (cp' ++ (bc2.1 :: r2)) := by
                simpa [List.append_assoc] using hr1.trans hr2.symm
              have := List.append_cancel_left this
              exact (List.append_inj this (by omega)).1
          subst hcp
          exact shapeL_eq_of_keys (p ++ cp) ch ch' hs hs' hc hc'
            (by simpa [keysOf, keysOfL, inorder] using hk) ih

end T
end ArtVerif
