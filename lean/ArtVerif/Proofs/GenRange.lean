/-
  What `rangeScan()` of tree.go pushes for one inner node – the switch at the end of its `for len(q) != 0` body, where
  every entry is `rangeEntry{child, childDepth}` – AS REGENERATED from the source on every run (`Gen/RangeOps.lean`), is
  `Raw.pushDesc` of `Model/RIter.lean` paired with the depth: exactly what `RT.rangeLoop` (the subject of `C03Raw`)
  puts on its stack.  Kernel only.
-/
import ArtVerif.Gen.RangeOps
import ArtVerif.Proofs.PushBase
namespace ArtVerif
namespace GenRange
open Gen Gen.RangeOps GoNode Raw Swar GenNodeOps PushBase
variable {C : Type}

def tag (cd : Int) (l : List (Option C)) : List (Option C × Int) := l.map fun c => (c, cd)

theorem rs4_desc_lanes (E : Env C) (cd : Int) (n : Img C) :
    ∀ (m fuel : Nat) (q : List (Option C × Int)), m ≤ n.children.length → m < fuel →
      rangeScan_push.loop0 E cd n fuel (q, (m : Int) - 1) = some (q ++ tag cd ((List.range m).reverse.map (fLane n.children)), (-1 : Int)) := by
  intro m
  induction m with
  | zero =>
    intro fuel q _ hf
    obtain ⟨fuel, rfl⟩ : ∃ k, fuel = k + 1 := ⟨fuel - 1, by omega⟩
    have hc : decide ((((0 : Nat) : Int) - 1) ≥ (0 : Int)) = false := by decide
    simp only [rangeScan_push.loop0, hc]
    simp [tag]
  | succ m ih =>
    intro fuel q hm hf
    obtain ⟨fuel, rfl⟩ : ∃ k, fuel = k + 1 := ⟨fuel - 1, by omega⟩
    rw [show (((m + 1 : Nat) : Int) - 1) = (m : Int) by omega]
    have hc : decide ((m : Int) ≥ (0 : Int)) = true := by simp
    simp only [rangeScan_push.loop0, hc, if_true, Option.bind_eq_bind]
    rw [idx?_join _ _ (by omega)]
    simp only [Option.bind_some]
    rw [ih fuel _ (by omega) (by omega), range_rev_map_succ]
    simp [fLane, tag]

theorem rs16_desc_lanes (E : Env C) (cd : Int) (n : Img C) :
    ∀ (m fuel : Nat) (q : List (Option C × Int)), m ≤ n.children.length → m < fuel →
      rangeScan_push.loop1 E cd n fuel (q, (m : Int) - 1) = some (q ++ tag cd ((List.range m).reverse.map (fLane n.children)), (-1 : Int)) := by
  intro m
  induction m with
  | zero =>
    intro fuel q _ hf
    obtain ⟨fuel, rfl⟩ : ∃ k, fuel = k + 1 := ⟨fuel - 1, by omega⟩
    have hc : decide ((((0 : Nat) : Int) - 1) ≥ (0 : Int)) = false := by decide
    simp only [rangeScan_push.loop1, hc]
    simp [tag]
  | succ m ih =>
    intro fuel q hm hf
    obtain ⟨fuel, rfl⟩ : ∃ k, fuel = k + 1 := ⟨fuel - 1, by omega⟩
    rw [show (((m + 1 : Nat) : Int) - 1) = (m : Int) by omega]
    have hc : decide ((m : Int) ≥ (0 : Int)) = true := by simp
    simp only [rangeScan_push.loop1, hc, if_true, Option.bind_eq_bind]
    rw [idx?_join _ _ (by omega)]
    simp only [Option.bind_some]
    rw [ih fuel _ (by omega) (by omega), range_rev_map_succ]
    simp [fLane, tag]

theorem rs48_desc_idx (E : Env C) (cd : Int) (n : Img C) (hk : n.keysA.length = 256) (hs : n.children.length = 48)
    (hv : ∀ i, i < 256 → n.keysA.getD i 0 ≠ 0 → (n.keysA.getD i 0).toNat ≤ 48) :
    ∀ (m fuel : Nat) (q : List (Option C × Int)), m ≤ 256 → m < fuel →
      rangeScan_push.loop2 E cd n fuel (q, (m : Int) - 1) = some (q ++ tag cd ((List.range m).reverse.filterMap (gIdx n.keysA n.children)), (-1 : Int)) := by
  intro m
  induction m with
  | zero =>
    intro fuel q _ hf
    obtain ⟨fuel, rfl⟩ : ∃ k, fuel = k + 1 := ⟨fuel - 1, by omega⟩
    have hc : decide ((((0 : Nat) : Int) - 1) ≥ (0 : Int)) = false := by decide
    simp only [rangeScan_push.loop2, hc]
    simp [tag]
  | succ m ih =>
    intro fuel q hm hf
    obtain ⟨fuel, rfl⟩ : ∃ k, fuel = k + 1 := ⟨fuel - 1, by omega⟩
    rw [show (((m + 1 : Nat) : Int) - 1) = (m : Int) by omega]
    have hc : decide ((m : Int) ≥ (0 : Int)) = true := by simp
    have hget : n.keysA[m]? = some (n.keysA.getD m 0) := getD_eq_some _ _ (by omega)
    simp only [rangeScan_push.loop2, hc, if_true, Option.bind_eq_bind, idx?_nat, hget, Option.bind_some]
    rw [range_rev_filterMap_succ]
    by_cases hz : n.keysA.getD m 0 = 0
    · have h1 : (n.keysA.getD m 0 == (0 : UInt8)) = true := by rw [hz]; rfl
      have h2 : gIdx n.keysA n.children m = none := by
        show (if (n.keysA.getD m 0 != 0) = true then _ else none) = none
        rw [hz]; rfl
      rw [if_pos h1, ih fuel _ (by omega) (by omega), h2]
      simp
    · have h1 : ¬ (n.keysA.getD m 0 == (0 : UInt8)) = true := by simpa using hz
      have hnz : (n.keysA.getD m 0 != 0) = true := by simpa using hz
      have h2 : gIdx n.keysA n.children m = some ((n.children[(n.keysA.getD m 0).toNat - 1]?).join) := by
        show (if (n.keysA.getD m 0 != 0) = true then _ else none) = _
        rw [if_pos hnz]
      have hle := hv m (by omega) hz
      have hp := u8_pos _ hz
      have hsl : n.children[(n.keysA.getD m 0).toNat - 1]? =
          some ((n.children[(n.keysA.getD m 0).toNat - 1]?).join) := by
        rw [List.getElem?_eq_getElem (by omega)]; rfl
      rw [if_neg h1, u8_pred_toNat _ hz, hsl]
      simp only [Option.bind_some]
      rw [ih fuel _ (by omega) (by omega), h2]
      simp [tag]

theorem rs256_desc_slots (E : Env C) (cd : Int) (n : Img C) (hs : n.children.length = 256) :
    ∀ (m fuel : Nat) (q : List (Option C × Int)), m ≤ 256 → m < fuel →
      rangeScan_push.loop3 E cd n fuel (q, (m : Int) - 1) = some (q ++ tag cd ((List.range m).reverse.filterMap (hSlot n.children)), (-1 : Int)) := by
  intro m
  induction m with
  | zero =>
    intro fuel q _ hf
    obtain ⟨fuel, rfl⟩ : ∃ k, fuel = k + 1 := ⟨fuel - 1, by omega⟩
    have hc : decide ((((0 : Nat) : Int) - 1) ≥ (0 : Int)) = false := by decide
    simp only [rangeScan_push.loop3, hc]
    simp [tag]
  | succ m ih =>
    intro fuel q hm hf
    obtain ⟨fuel, rfl⟩ : ∃ k, fuel = k + 1 := ⟨fuel - 1, by omega⟩
    rw [show (((m + 1 : Nat) : Int) - 1) = (m : Int) by omega]
    have hc : decide ((m : Int) ≥ (0 : Int)) = true := by simp
    simp only [rangeScan_push.loop3, hc, if_true, Option.bind_eq_bind]
    rw [idx?_join _ _ (by omega)]
    simp only [Option.bind_some]
    rw [range_rev_filterMap_succ]
    rcases hx : (n.children[m]?).join with _ | c
    · have h2 : hSlot n.children m = none := by unfold hSlot; rw [hx]
      simp only [Option.isNone_none, if_true, ↓reduceIte]
      rw [ih fuel _ (by omega) (by omega), h2]
      simp
    · have h2 : hSlot n.children m = some (some c) := by unfold hSlot; rw [hx]
      simp only [Option.isNone_some, Bool.false_eq_true, if_false, ↓reduceIte]
      rw [ih fuel _ (by omega) (by omega), h2]
      simp [tag]

/-- `rangeScan()`: the stack after one inner node has been expanded – its children in descending byte order, each
    with the depth `childDepth` the scan computed for them -/
theorem rangeScan_push_eq (E : Env C) (r : Raw C) (q : List (Option C × Int)) (cd : Int) (hinv : r.inv = true) :
    rangeScan_push E (imgOf r).1 (imgOf r).2 q cd = some (q ++ tag cd r.pushDesc) := by
  rw [PushBase.pushDesc_eq]
  cases r with
  | n4 h len keys slots =>
    obtain ⟨_, hs, hl4, _⟩ := (inv4_iff h len keys slots).1 hinv
    have := rs4_desc_lanes E cd (img4 h len keys slots) len loopFuel q (by simp only [img4]; omega) (by simp only [loopFuel]; omega)
    simp only [imgOf, rangeScan_push, img4, hl_toNat _ (show len < 256 by omega), Option.bind_eq_bind] at this ⊢
    rw [this]; rfl
  | n16 h len keys slots =>
    obtain ⟨_, hs, _, hl16, _⟩ := (inv16_iff h len keys slots).1 hinv
    have := rs16_desc_lanes E cd (img16 h len keys slots) len loopFuel q (by simp only [img16]; omega) (by simp only [loopFuel]; omega)
    simp only [imgOf, rangeScan_push, img16, hl_toNat _ (show len < 256 by omega), Option.bind_eq_bind] at this ⊢
    rw [this]; rfl
  | n48 h len idx slots =>
    obtain ⟨_, _, _, hI⟩ := (inv48_iff h len idx slots).1 hinv
    have := rs48_desc_idx E cd (img16 h len idx slots) hI.hi hI.hs (validIdx hI) 256 loopFuel q (by omega) (by simp only [loopFuel]; omega)
    simp only [imgOf, rangeScan_push, img16, Option.bind_eq_bind, show (255 : Int) = (((256 : Nat) : Int) - 1) from rfl] at this ⊢
    rw [this]; rfl
  | n256 h len slots =>
    obtain ⟨_, hs, _⟩ := (inv256_iff h len slots).1 hinv
    have := rs256_desc_slots E cd (img256 h len slots) hs 256 loopFuel q (by omega) (by simp only [loopFuel]; omega)
    simp only [imgOf, rangeScan_push, img256, Option.bind_eq_bind, show (255 : Int) = (((256 : Nat) : Int) - 1) from rfl] at this ⊢
    rw [this]; rfl

end GenRange
end ArtVerif
