/-
  Strictly sorted lists are determined by their elements.
-/
import ArtVerif.Proofs.Refine
namespace ArtVerif
namespace T
variable {V : Type}

theorem itemLt_asymm {a b : Item V} (h : ItemLt a b) : ¬ ItemLt b a := by
  intro h'
  have := lexLt_asymm h
  simp only [ItemLt] at h'
  rw [h'] at this; exact absurd this (by simp)

theorem sorted_ext : ∀ (l1 l2 : List (Item V)), l1.Pairwise ItemLt → l2.Pairwise ItemLt →
    (∀ x, x ∈ l1 ↔ x ∈ l2) → l1 = l2 := by
  intro l1
  induction l1 with
  | nil =>
    intro l2 _ _ h
    cases l2 with
    | nil => rfl
    | cons y l2 => exact absurd ((h y).mpr (by simp)) (by simp)
  | cons x l1 ih =>
    intro l2 h1 h2 h
    cases l2 with
    | nil => exact absurd ((h x).mp (by simp)) (by simp)
    | cons y l2 =>
      simp only [List.pairwise_cons] at h1 h2
      have hxy : x = y := by
        have hx : x ∈ y :: l2 := (h x).mp (by simp)
        have hy : y ∈ x :: l1 := (h y).mpr (by simp)
        cases hx with
        | head => rfl
        | tail _ hx' =>
          cases hy with
          | head => rfl
          | tail _ hy' => exact absurd (h1.1 y hy') (itemLt_asymm (h2.1 x hx'))
      subst hxy
      congr 1
      apply ih l2 h1.2 h2.2
      intro z
      constructor
      · intro hz
        have : z ∈ x :: l2 := (h z).mp (List.mem_cons_of_mem _ hz)
        cases this with
        | head => exact absurd (h1.1 _ hz) (Tree.itemLt_irrefl _)
        | tail _ h' => exact h'
      · intro hz
        have : z ∈ x :: l1 := (h z).mpr (List.mem_cons_of_mem _ hz)
        cases this with
        | head => exact absurd (h2.1 _ hz) (Tree.itemLt_irrefl _)
        | tail _ h' => exact h'

end T
end ArtVerif
