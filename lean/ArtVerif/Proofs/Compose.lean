/-
  Composition of the two model layers (R ∘ T).

  Layer R (`Model/Raw.lean`, proved in `Proofs/RawNodes.lean`) says what the raw node images do to
  their abstract table `abs`; layer T (`Model/Tree.lean`) runs the tree algorithms over abstract
  child tables tagged with a size class.  This file proves that the child-table functions of
  layer T (`lookupCh`, `addChild`, `deleteChild`, enumeration) are exactly what the raw
  operations (`find`, `add`, `remove`, `abs`) compute on a raw node whose children are trees:

      toT (r.add b c)            = node (addChild (kindOf r) r.abs b c) …
      toT' (r.remove b)          = deleteChild (kindOf r) r.hdr.plen (inlOf r.hdr) r.abs b
      r.find b                   = lookupCh b r.abs

  Core Lean only; no decision procedure is called here.  (The node4 lemmas of `RawNodes` rest on
  the SWAR lemmas of `Proofs/Swar.lean`, whose solver certificates are inherited through them.)
-/
import ArtVerif.Model.Tree
import ArtVerif.Proofs.RawNodes
import ArtVerif.Proofs.Ch
namespace ArtVerif.Compose
open ArtVerif ArtVerif.Gen ArtVerif.Raw

variable {C : Type} {V : Type}

/-! ## the abstraction function node ↦ tree node -/

/-- size class of a raw image -/
def kindOf : Raw C → Kind
  | .n4 .. => .k4
  | .n16 .. => .k16
  | .n48 .. => .k48
  | .n256 .. => .k256

/-- canonical inline prefix of a header: the first `min(plen,10)` raw bytes
    (bytes of the raw array beyond that are stale and never read) -/
def inlOf (h : Hdr) : Bytes := h.pfx.take (min h.plen 10)

/-- the tree node a raw node (whose children are already trees) denotes -/
def toT (r : Raw (T V)) : T V := T.node (kindOf r) r.hdr.plen (inlOf r.hdr) r.abs

/-- number of children a raw image holds according to its own bookkeeping: the `childrenLen`
    byte for node4/16/48; for node256 the byte is only `mod 256` (a full node256 records 0), so
    the occupied slots are counted instead -/
def cnt : Raw C → Nat
  | .n4 _ l _ _ => l
  | .n16 _ l _ _ => l
  | .n48 _ l _ _ => l
  | .n256 _ _ s => countSome s

/-- the raw image with another header (what the path merge writes into the surviving child) -/
def withHdr (m : Hdr) : Raw C → Raw C
  | .n4 _ l k s => .n4 m l k s
  | .n16 _ l k s => .n16 m l k s
  | .n48 _ l i s => .n48 m l i s
  | .n256 _ l s => .n256 m l s

theorem kindOf_cls (r : Raw C) : (kindOf r).toNat = r.cls := by cases r <;> rfl

theorem inlOf_length (h : Hdr) (hp : h.pfx.length = 10) : (inlOf h).length = min h.plen 10 := by
  simp only [inlOf, List.length_take, hp]; omega

/-! ## bridges between the two vocabularies of sorted tables -/

theorem insertSorted_eq_insCh (b : UInt8) (c : T V) (L : T.Ch V) :
    insertSorted b c L = T.insCh b c L := by
  induction L with
  | nil => rfl
  | cons p rest ih =>
    obtain ⟨k, x⟩ := p
    simp only [insertSorted, T.insCh, ih]

theorem find?_eq_lookupCh (b : UInt8) (L : T.Ch V) :
    (L.find? (fun p => p.1 == b)).map (·.2) = T.lookupCh b L := by
  induction L with
  | nil => rfl
  | cons p rest ih =>
    obtain ⟨k, x⟩ := p
    simp only [List.find?_cons, T.lookupCh]
    by_cases h : k = b
    · subst h; simp
    · have hb : (k == b) = false := by simpa using h
      simp only [hb, if_neg h]
      exact ih

/-- on a table with strictly ascending keys, filtering the key out = erasing its first entry -/
theorem filter_eq_eraseCh (b : UInt8) (L : T.Ch V) (hs : SortedT L) :
    L.filter (fun p => p.1 != b) = T.eraseCh b L := by
  induction L with
  | nil => rfl
  | cons p rest ih =>
    obtain ⟨k, x⟩ := p
    have hs' := List.pairwise_cons.1 hs
    simp only [T.eraseCh]
    by_cases h : k = b
    · subst h
      rw [if_pos rfl, List.filter_cons_of_neg (by simp), List.filter_eq_self]
      intro q hq
      have hlt : k < q.1 := hs'.1 q hq
      simp only [bne_iff_ne, ne_eq]
      intro e; rw [e] at hlt; exact u8_lt_irrefl _ hlt
    · rw [if_neg h, List.filter_cons_of_pos (by simpa using h), ih hs'.2]

theorem sortedT_iff_keysSorted (L : T.Ch V) : SortedT L ↔ T.KeysSorted L := by
  simp only [T.KeysSorted, List.pairwise_map]

theorem key_iff_mem (b : UInt8) (L : T.Ch V) : (∃ p ∈ L, p.1 = b) ↔ ∃ c0, (b, c0) ∈ L := by
  constructor
  · rintro ⟨⟨k, x⟩, hp, rfl⟩; exact ⟨x, hp⟩
  · rintro ⟨c0, h⟩; exact ⟨(b, c0), h, rfl⟩

/-! ## the recorded length is the length of `abs` -/

theorem abs256_length (slots : List (Option C)) (hs : slots.length = 256) :
    (absF (look256 slots)).length = countSome slots := by
  rw [absF_length, countSome, ← count_range (·.isSome) slots, hs]
  congr 1
  apply filter_congr'
  intro i _
  simp only [look256]
  cases h : slots[i]? with
  | none => rfl
  | some o => cases o <;> rfl

theorem abs_length (r : Raw C) (hinv : r.inv = true) : r.abs.length = cnt r := by
  cases r with
  | n4 h len keys slots =>
    obtain ⟨L, hrep, habs, _⟩ := inv4_rep hinv
    rw [habs]; exact hrep.2.2
  | n16 h len keys slots =>
    obtain ⟨L, hrep, habs, _⟩ := inv16_rep hinv
    rw [habs]; exact hrep.2.2
  | n48 h len idx slots =>
    rw [abs48_eq]; exact abs48_length ((inv48_iff h len idx slots).1 hinv).2.2.2
  | n256 h len slots =>
    rw [abs256_eq]; exact abs256_length slots ((inv256_iff h len slots).1 hinv).2.1

/-- for node4/16/48 the `childrenLen` byte is the number of children -/
theorem abs_length_len (r : Raw C) (hinv : r.inv = true) (h256 : kindOf r ≠ .k256) :
    r.abs.length = r.len := by
  rw [abs_length r hinv]
  cases r <;> first | rfl | exact absurd rfl h256

/-- for node256 the byte is the number of children `mod 256` -/
theorem abs_length_len256 (r : Raw C) (hinv : r.inv = true) (h256 : kindOf r = .k256) :
    r.len = r.abs.length % 256 := by
  rw [abs_length r hinv]
  cases r with
  | n256 h len slots => exact ((inv256_iff h len slots).1 hinv).2.2.2
  | _ => cases h256

/-- the raw invariant implies the fan-out bound layer T asks of a node (`WF`'s `KindOK`) -/
theorem kindOK_of_inv (r : Raw C) (hinv : r.inv = true) : T.KindOK (kindOf r) r.abs.length := by
  rw [abs_length r hinv]
  cases r with
  | n4 h len keys slots => exact ((inv4_iff h len keys slots).1 hinv).2.2.1
  | n16 h len keys slots =>
    obtain ⟨_, _, _, hl, hsh, _⟩ := (inv16_iff h len keys slots).1 hinv
    exact ⟨hsh, hl⟩
  | n48 h len idx slots =>
    obtain ⟨_, hl, hsh, _⟩ := (inv48_iff h len idx slots).1 hinv
    exact ⟨hsh, hl⟩
  | n256 h len slots => exact ((inv256_iff h len slots).1 hinv).2.2.1

theorem hdr_pfx_length (r : Raw C) (hinv : r.inv = true) : r.hdr.pfx.length = 10 := by
  cases r with
  | n4 h len keys slots => exact ((inv4_iff h len keys slots).1 hinv).1
  | n16 h len keys slots => exact ((inv16_iff h len keys slots).1 hinv).1
  | n48 h len idx slots => exact ((inv48_iff h len idx slots).1 hinv).1
  | n256 h len slots => exact ((inv256_iff h len slots).1 hinv).1

/-! ## 1. `findChild` -/

theorem find_simulates (r : Raw (T V)) (b : UInt8) (hinv : r.inv = true) :
    r.find b = T.lookupCh b r.abs := by
  rw [find_spec r b hinv, find?_eq_lookupCh]

/-! ## 2. `addChild` -/

theorem kindOf_add48 (h : Hdr) (len : Nat) (idx : Bytes) (slots : List (Option C)) (b : UInt8) (c : C) :
    kindOf (add48 h len idx slots b c) = if len < maxNode48 then .k48 else .k256 := by
  unfold add48
  split <;> rfl

theorem kindOf_add16 (h : Hdr) (len : Nat) (keys : Bytes) (slots : List (Option C)) (b : UInt8) (c : C) :
    kindOf (add16 h len keys slots b c) =
      if len < maxNode16 then .k16 else if len < maxNode48 then .k48 else .k256 := by
  unfold add16
  split
  · dsimp only; split <;> rfl
  · exact kindOf_add48 ..

theorem kindOf_add4 (h : Hdr) (len : Nat) (keys : BitVec 32) (slots : List (Option C)) (b : UInt8) (c : C) :
    kindOf (add4 h len keys slots b c) =
      if len < maxNode4 then .k4 else if len < maxNode16 then .k16
      else if len < maxNode48 then .k48 else .k256 := by
  unfold add4
  split
  · dsimp only; split <;> rfl
  · exact kindOf_add16 ..

/-- the class after `addChild`: the raw capacity test `len < maxNodeN` is the abstract test
    `ch.length < kind.cap`; growth happens exactly when the node is full -/
theorem kindOf_add (r : Raw C) (b : UInt8) (c : C) (hinv : r.inv = true) :
    kindOf (r.add b c) = if r.abs.length < (kindOf r).cap then kindOf r else (kindOf r).grow := by
  rw [abs_length r hinv]
  cases r with
  | n4 h len keys slots =>
    obtain ⟨_, _, hl, _⟩ := (inv4_iff h len keys slots).1 hinv
    show kindOf (add4 h len keys slots b c) = if len < maxNode4 then Kind.k4 else Kind.k16
    rw [kindOf_add4]
    by_cases h4 : len < maxNode4
    · rw [if_pos h4, if_pos h4]
    · have h16 : len < maxNode16 := by rw [maxNode16_eq]; omega
      rw [if_neg h4, if_neg h4, if_pos h16]
  | n16 h len keys slots =>
    obtain ⟨_, _, _, hl, _⟩ := (inv16_iff h len keys slots).1 hinv
    show kindOf (add16 h len keys slots b c) = if len < maxNode16 then Kind.k16 else Kind.k48
    rw [kindOf_add16]
    by_cases h16 : len < maxNode16
    · rw [if_pos h16, if_pos h16]
    · have h48 : len < maxNode48 := by rw [maxNode48_eq]; omega
      rw [if_neg h16, if_neg h16, if_pos h48]
  | n48 h len idx slots =>
    show kindOf (add48 h len idx slots b c) = if len < maxNode48 then Kind.k48 else Kind.k256
    exact kindOf_add48 ..
  | n256 h len slots =>
    show Kind.k256 = if countSome slots < maxNode256 then Kind.k256 else Kind.k256
    split <;> rfl

theorem kindOf_add_eq_addChild (r : Raw (T V)) (b : UInt8) (c : T V) (hinv : r.inv = true) :
    kindOf (r.add b c) = (T.addChild (kindOf r) r.abs b c).1 := by
  rw [kindOf_add r b c hinv]
  unfold T.addChild
  split <;> rfl

theorem abs_add_eq_addChild (r : Raw (T V)) (b : UInt8) (c : T V) (hinv : r.inv = true)
    (hnk : ∀ p ∈ r.abs, p.1 ≠ b) :
    (r.add b c).abs = (T.addChild (kindOf r) r.abs b c).2 := by
  rw [(add_spec r b c hinv hnk).1, insertSorted_eq_insCh]
  unfold T.addChild
  split <;> rfl

/-- `addChild` on the raw node is `T.addChild` on its abstract table, class included -/
theorem add_simulates (r : Raw (T V)) (b : UInt8) (c : T V) (hinv : r.inv = true)
    (hnk : ∀ p ∈ r.abs, p.1 ≠ b) :
    (r.add b c).abs = T.insCh b c r.abs ∧
    kindOf (r.add b c) = (T.addChild (kindOf r) r.abs b c).1 ∧
    (r.add b c).inv = true ∧
    toT (r.add b c) =
      T.node (T.addChild (kindOf r) r.abs b c).1 r.hdr.plen (inlOf r.hdr)
        (T.addChild (kindOf r) r.abs b c).2 := by
  refine ⟨?_, kindOf_add_eq_addChild r b c hinv, (add_spec r b c hinv hnk).2, ?_⟩
  · rw [(add_spec r b c hinv hnk).1, insertSorted_eq_insCh]
  · unfold toT
    rw [add_hdr, kindOf_add_eq_addChild r b c hinv, abs_add_eq_addChild r b c hinv hnk]

/-! ## 3. `deleteChild` -/

/-- what `remove` can return, read off the code: the class of the result and the recorded length
    that made the code choose it -/
def Shape (k : Kind) : DelRes C → Prop
  | .node r' =>
    match k with
    | .k4 => kindOf r' = .k4 ∧ cnt r' ≠ collapse4
    | .k16 => (kindOf r' = .k4 ∧ cnt r' = shrink16) ∨ (kindOf r' = .k16 ∧ cnt r' ≠ shrink16)
    | .k48 => (kindOf r' = .k16 ∧ cnt r' = shrink48) ∨ (kindOf r' = .k48 ∧ cnt r' ≠ shrink48)
    | .k256 => (kindOf r' = .k48 ∧ cnt r' = shrink256) ∨ kindOf r' = .k256
  | .collapse .. => k = .k4

theorem remove4_shape (h : Hdr) (len : Nat) (keys : BitVec 32) (slots : List (Option C)) (b : UInt8) :
    Shape .k4 (remove4 h len keys slots b) := by
  unfold remove4
  dsimp only
  split <;> (dsimp only; split)
  · exact (rfl : Kind.k4 = Kind.k4)
  · next hc => exact ⟨rfl, fun e => hc (beq_iff_eq.2 e)⟩
  · exact (rfl : Kind.k4 = Kind.k4)
  · next hc => exact ⟨rfl, fun e => hc (beq_iff_eq.2 e)⟩

theorem remove16_shape (h : Hdr) (len : Nat) (keys : Bytes) (slots : List (Option C)) (b : UInt8) :
    Shape .k16 (remove16 h len keys slots b) := by
  unfold remove16
  dsimp only
  split
  · next hc => exact Or.inl ⟨rfl, beq_iff_eq.1 hc⟩
  · next hc => exact Or.inr ⟨rfl, fun e => hc (beq_iff_eq.2 e)⟩

theorem remove48_shape (h : Hdr) (len : Nat) (idx : Bytes) (slots : List (Option C)) (b : UInt8) :
    Shape .k48 (remove48 h len idx slots b) := by
  unfold remove48
  dsimp only
  split
  · next hc => exact Or.inl ⟨rfl, beq_iff_eq.1 hc⟩
  · next hc => exact Or.inr ⟨rfl, fun e => hc (beq_iff_eq.2 e)⟩

theorem remove256_shape (h : Hdr) (len : Nat) (slots : List (Option C)) (b : UInt8) :
    Shape .k256 (remove256 h len slots b) := by
  unfold remove256
  dsimp only
  split
  · next hc => exact Or.inl ⟨rfl, beq_iff_eq.1 hc⟩
  · exact Or.inr rfl

theorem remove_shape (r : Raw C) (b : UInt8) : Shape (kindOf r) (r.remove b) := by
  cases r with
  | n4 h len keys slots => exact remove4_shape ..
  | n16 h len keys slots => exact remove16_shape ..
  | n48 h len idx slots => exact remove48_shape ..
  | n256 h len slots => exact remove256_shape ..

/-- the node stays: its table is `eraseCh`, its class is `shrinkKind`, its header is untouched;
    and this is not the node4-with-one-child-left situation -/
theorem remove_node_simulates (r : Raw (T V)) (b : UInt8) (hinv : r.inv = true)
    (hk : ∃ p ∈ r.abs, p.1 = b) (r' : Raw (T V)) (hr : r.remove b = .node r') :
    r'.abs = T.eraseCh b r.abs ∧ r'.inv = true ∧ r'.hdr = r.hdr ∧
    kindOf r' = T.shrinkKind (kindOf r) r'.abs.length ∧
    ¬ (kindOf r = .k4 ∧ (T.eraseCh b r.abs).length = 1) := by
  have hspec := remove_spec r b hinv hk
  rw [hr, filter_eq_eraseCh b r.abs (abs_sortedT r hinv)] at hspec
  obtain ⟨ha, hi, hh⟩ := hspec
  have hshape := remove_shape r b
  rw [hr] at hshape
  have hlen := abs_length r' hi
  refine ⟨ha, hi, hh, ?_, ?_⟩
  · rw [hlen]
    cases r with
    | n4 h len keys slots => exact hshape.1
    | n16 h len keys slots =>
      rcases hshape with ⟨hk', hc⟩ | ⟨hk', hc⟩
      · rw [hk', hc]; rfl
      · rw [hk']; show Kind.k16 = if cnt r' = shrink16 then Kind.k4 else Kind.k16
        rw [if_neg hc]
    | n48 h len idx slots =>
      rcases hshape with ⟨hk', hc⟩ | ⟨hk', hc⟩
      · rw [hk', hc]; rfl
      · rw [hk']; show Kind.k48 = if cnt r' = shrink48 then Kind.k16 else Kind.k48
        rw [if_neg hc]
    | n256 h len slots =>
      rcases hshape with ⟨hk', hc⟩ | hk'
      · rw [hk', hc]; rfl
      · rw [hk']; show Kind.k256 = if cnt r' = shrink256 then Kind.k48 else Kind.k256
        have hc : cnt r' ≠ shrink256 := by
          have := kindOK_of_inv r' hi
          rw [hk', hlen] at this
          exact Nat.ne_of_gt this
        rw [if_neg hc]
  · rintro ⟨hk4, h1⟩
    rw [← ha, hlen] at h1
    cases r with
    | n4 h len keys slots => exact hshape.2 h1
    | _ => cases hk4

/-- the node4 collapses: exactly one entry is left -/
theorem remove_collapse_simulates (r : Raw (T V)) (b : UInt8) (hinv : r.inv = true)
    (hk : ∃ p ∈ r.abs, p.1 = b) (h : Hdr) (b0 : UInt8) (c : Option (T V))
    (hr : r.remove b = .collapse h b0 c) :
    kindOf r = .k4 ∧ h = r.hdr ∧ ∃ c', c = some c' ∧ T.eraseCh b r.abs = [(b0, c')] := by
  have hspec := remove_spec r b hinv hk
  rw [hr, filter_eq_eraseCh b r.abs (abs_sortedT r hinv)] at hspec
  obtain ⟨hh, c', hc, he⟩ := hspec
  have hshape := remove_shape r b
  rw [hr] at hshape
  exact ⟨hshape, hh, c', hc, he⟩

/-- `remove` keeps a node exactly when this is not a node4 left with a single child -/
theorem remove_node_iff (r : Raw (T V)) (b : UInt8) (hinv : r.inv = true)
    (hk : ∃ p ∈ r.abs, p.1 = b) :
    (∃ r', r.remove b = .node r') ↔ ¬ (kindOf r = .k4 ∧ (T.eraseCh b r.abs).length = 1) := by
  constructor
  · rintro ⟨r', hr⟩
    exact (remove_node_simulates r b hinv hk r' hr).2.2.2.2
  · intro hn
    cases hr : r.remove b with
    | node r' => exact ⟨r', rfl⟩
    | collapse h b0 c =>
      obtain ⟨hk4, _, c', _, he⟩ := remove_collapse_simulates r b hinv hk h b0 c hr
      exact absurd ⟨hk4, by rw [he]; rfl⟩ hn

/-! ### `T.deleteChild`, arm by arm -/

theorem deleteChild_node (kind : Kind) (plen : Nat) (inl : Bytes) (ch : T.Ch V) (b : UInt8)
    (hn : ¬ (kind = .k4 ∧ (T.eraseCh b ch).length = 1)) :
    T.deleteChild kind plen inl ch b =
      T.node (T.shrinkKind kind (T.eraseCh b ch).length) plen inl (T.eraseCh b ch) := by
  unfold T.deleteChild
  dsimp only
  split
  · next b0 c he => exact absurd ⟨rfl, by rw [he]; rfl⟩ hn
  · rfl

theorem deleteChild_leaf (plen : Nat) (inl : Bytes) (ch : T.Ch V) (b b0 : UInt8)
    (k tk : Bytes) (v : V) (he : T.eraseCh b ch = [(b0, T.leaf k tk v)]) :
    T.deleteChild .k4 plen inl ch b = T.leaf k tk v := by
  simp only [T.deleteChild, he]

theorem deleteChild_inner (plen : Nat) (inl : Bytes) (ch : T.Ch V) (b b0 : UInt8)
    (ck : Kind) (cplen : Nat) (cinl : Bytes) (cch : T.Ch V)
    (he : T.eraseCh b ch = [(b0, T.node ck cplen cinl cch)]) :
    T.deleteChild .k4 plen inl ch b =
      T.node ck (cplen + plen + 1) ((inl ++ b0 :: cinl).take maxPrefixLen) cch := by
  simp only [T.deleteChild, he]

/-- the path merge on raw headers is the path merge of `T.deleteChild` on `(plen, inl)` pairs -/
theorem mergeHdr_simulates (h hc : Hdr) (b0 : UInt8) (hh : h.pfx.length = 10) (hcl : hc.pfx.length = 10) :
    (mergeHdr h b0 hc).plen = hc.plen + h.plen + 1 ∧
    (mergeHdr h b0 hc).pfx.length = 10 ∧
    inlOf (mergeHdr h b0 hc) = (inlOf h ++ b0 :: inlOf hc).take maxPrefixLen := by
  obtain ⟨h1, h2, h3⟩ := mergeHdr_spec h hc b0 hh hcl
  refine ⟨h1, h2, ?_⟩
  unfold inlOf
  rw [h1, h3, List.append_assoc]
  rfl

/-- the same two arms with the child's raw header `hc` given explicitly -/
theorem collapse_leaf_simulates (h : Hdr) (ch : T.Ch V) (b b0 : UInt8) (k tk : Bytes) (v : V)
    (he : T.eraseCh b ch = [(b0, T.leaf k tk v)]) :
    T.deleteChild .k4 h.plen (inlOf h) ch b = T.leaf k tk v :=
  deleteChild_leaf _ _ _ _ _ _ _ _ he

theorem collapse_inner_simulates (h hc : Hdr) (ch : T.Ch V) (b b0 : UInt8)
    (ck : Kind) (cplen : Nat) (cinl : Bytes) (cch : T.Ch V)
    (he : T.eraseCh b ch = [(b0, T.node ck cplen cinl cch)])
    (hp : hc.plen = cplen) (hi : inlOf hc = cinl) (hcl : hc.pfx.length = 10) (hh : h.pfx.length = 10) :
    T.deleteChild .k4 h.plen (inlOf h) ch b =
      T.node ck (mergeHdr h b0 hc).plen (inlOf (mergeHdr h b0 hc)) cch := by
  obtain ⟨m1, _, m3⟩ := mergeHdr_simulates h hc b0 hh hcl
  rw [deleteChild_inner _ _ _ _ _ _ _ _ _ he, m1, m3, hp, hi]

/-! ### the collapse rendered as a tree -/

/-- What is assumed about an inner child of the node being collapsed: `hdrOf` names its raw
    header, and that header denotes the `(plen, inl)` pair the child's `T` value carries (as it
    does when the child is `toT` of a raw node satisfying `inv`, see `childHdrOK_toT`). Nothing is
    assumed about leaves. -/
def ChildHdrOK (hdrOf : T V → Hdr) : T V → Prop
  | .leaf .. => True
  | .node ck cplen cinl cch =>
    (hdrOf (.node ck cplen cinl cch)).plen = cplen ∧
    inlOf (hdrOf (.node ck cplen cinl cch)) = cinl ∧
    (hdrOf (.node ck cplen cinl cch)).pfx.length = 10

/-- the survivor of a node4 collapse: a leaf as it is, an inner node with the merged header -/
def mergeChild (hdrOf : T V → Hdr) (h : Hdr) (b0 : UInt8) : T V → T V
  | .leaf k tk v => .leaf k tk v
  | .node ck cplen cinl cch =>
    let m := mergeHdr h b0 (hdrOf (.node ck cplen cinl cch))
    .node ck m.plen (inlOf m) cch

/-- the tree a `deleteChild` result denotes -/
def toT' (hdrOf : T V → Hdr) : DelRes (T V) → T V
  | .node r' => toT r'
  | .collapse h b0 (some c') => mergeChild hdrOf h b0 c'
  | .collapse h _ none => T.node .k4 h.plen (inlOf h) []     -- not reachable under `inv`

/-- a canonical header for a `T` value: the inline bytes padded with zeros -/
def canonHdr : T V → Hdr
  | .leaf .. => {}
  | .node _ cplen cinl _ => { plen := cplen, pfx := cinl ++ List.replicate (10 - cinl.length) 0 }

/-- every node whose inline prefix has the canonical length (as `WF` demands:
    `inl = cp.take 10`, `cp.length = plen`) satisfies the assumption with `canonHdr` -/
theorem childHdrOK_canon (t : T V)
    (hl : ∀ ck cplen cinl cch, t = .node ck cplen cinl cch → cinl.length = min cplen 10) :
    ChildHdrOK canonHdr t := by
  cases t with
  | leaf k tk v => trivial
  | node ck cplen cinl cch =>
    have hl' := hl ck cplen cinl cch rfl
    refine ⟨rfl, ?_, ?_⟩
    · show (cinl ++ List.replicate (10 - cinl.length) 0).take (min cplen 10) = cinl
      rw [← hl', List.take_left]
    · show (cinl ++ List.replicate (10 - cinl.length) 0).length = 10
      rw [List.length_append, List.length_replicate]; omega

/-- a child that is itself `toT` of a raw node satisfying `inv`, with `hdrOf` returning that raw
    node's header, satisfies the assumption -/
theorem childHdrOK_toT (hdrOf : T V → Hdr) (rc : Raw (T V)) (hinv : rc.inv = true)
    (hh : hdrOf (toT rc) = rc.hdr) : ChildHdrOK hdrOf (toT rc) := by
  have hp : rc.hdr.pfx.length = 10 := hdr_pfx_length rc hinv
  show (hdrOf (toT rc)).plen = rc.hdr.plen ∧ inlOf (hdrOf (toT rc)) = inlOf rc.hdr ∧
    (hdrOf (toT rc)).pfx.length = 10
  rw [hh]
  exact ⟨rfl, rfl, hp⟩

/-- the merged survivor is `toT` of the child's raw image with the merged header written in -/
theorem mergeChild_toT (hdrOf : T V → Hdr) (h : Hdr) (b0 : UInt8) (rc : Raw (T V))
    (hh : hdrOf (toT rc) = rc.hdr) :
    mergeChild hdrOf h b0 (toT rc) = toT (withHdr (mergeHdr h b0 rc.hdr) rc) := by
  show T.node (kindOf rc) (mergeHdr h b0 (hdrOf (toT rc))).plen
    (inlOf (mergeHdr h b0 (hdrOf (toT rc)))) rc.abs = _
  rw [hh]
  cases rc <;> rfl

/-- the collapse arm of `T.deleteChild` against the raw path merge -/
theorem mergeChild_simulates (hdrOf : T V → Hdr) (h : Hdr) (hh : h.pfx.length = 10)
    (ch : T.Ch V) (b b0 : UInt8) (c' : T V) (hc : ChildHdrOK hdrOf c')
    (he : T.eraseCh b ch = [(b0, c')]) :
    mergeChild hdrOf h b0 c' = T.deleteChild .k4 h.plen (inlOf h) ch b := by
  cases c' with
  | leaf k tk v => rw [deleteChild_leaf _ _ _ _ _ _ _ _ he]; rfl
  | node ck cplen cinl cch =>
    obtain ⟨hp, hi, hl⟩ := hc
    rw [deleteChild_inner _ _ _ _ _ _ _ _ _ he]
    obtain ⟨m1, _, m3⟩ := mergeHdr_simulates h (hdrOf (.node ck cplen cinl cch)) b0 hh hl
    show T.node ck (mergeHdr h b0 (hdrOf (.node ck cplen cinl cch))).plen
      (inlOf (mergeHdr h b0 (hdrOf (.node ck cplen cinl cch)))) cch = _
    rw [m1, m3, hp, hi]

/-- `deleteChild` on the raw node is `T.deleteChild` on its abstract table: shrinking, the node4
    collapse and the path merge included.  Assumption on children: `hdrOf` gives, for every inner
    child, a raw header denoting the child's `(plen, inl)` (`ChildHdrOK`). -/
theorem remove_simulates (hdrOf : T V → Hdr) (r : Raw (T V)) (b : UInt8) (hinv : r.inv = true)
    (hk : ∃ p ∈ r.abs, p.1 = b) (hch : ∀ p ∈ r.abs, ChildHdrOK hdrOf p.2) :
    toT' hdrOf (r.remove b) = T.deleteChild (kindOf r) r.hdr.plen (inlOf r.hdr) r.abs b := by
  cases hr : r.remove b with
  | node r' =>
    obtain ⟨ha, _, hh, hkind, hn⟩ := remove_node_simulates r b hinv hk r' hr
    rw [deleteChild_node _ _ _ _ _ hn]
    show T.node (kindOf r') r'.hdr.plen (inlOf r'.hdr) r'.abs = _
    rw [hkind, hh, ha]
  | collapse h b0 c =>
    obtain ⟨hk4, hh, c', hc, he⟩ := remove_collapse_simulates r b hinv hk h b0 c hr
    subst hc hh
    rw [hk4]
    show mergeChild hdrOf r.hdr b0 c' = _
    have hmem : (b0, c') ∈ r.abs := by
      have : (b0, c') ∈ T.eraseCh b r.abs := by rw [he]; exact List.mem_cons_self
      exact (T.eraseCh_sublist.subset) this
    exact mergeChild_simulates hdrOf r.hdr (hdr_pfx_length r hinv) r.abs b b0 c'
      (hch (b0, c') hmem) he

/-! ## 4. enumeration -/

/-- the children of `toT r` are `r.abs`, in strictly ascending byte order, within the fan-out
    bounds of the class -/
theorem enum_simulates (r : Raw (T V)) (hinv : r.inv = true) :
    toT r = T.node (kindOf r) r.hdr.plen (inlOf r.hdr) r.abs ∧
    T.KeysSorted r.abs ∧ T.KindOK (kindOf r) r.abs.length :=
  ⟨rfl, (sortedT_iff_keysSorted _).1 (abs_sortedT r hinv), kindOK_of_inv r hinv⟩

/-- `minimum` / `maximum` / in-order traversal of `toT r` run over the raw node's occupied
    entries in ascending byte order -/
theorem minLeaf_toT (r : Raw (T V)) : T.minLeaf (toT r) = T.minLeafL r.abs := by
  simp only [toT, T.minLeaf]
theorem maxLeaf_toT (r : Raw (T V)) : T.maxLeaf (toT r) = T.maxLeafL r.abs := by
  simp only [toT, T.maxLeaf]
theorem inorder_toT (r : Raw (T V)) : T.inorder (toT r) = T.inorderL r.abs := by
  simp only [toT, T.inorder]

end ArtVerif.Compose
