/-
  `lowestCommonParent` returns a subtree that contains every leaf whose descent key starts with `p`
  (or nothing when no leaf can); `Prefix` = filter over it = filter over the whole tree.
-/
import ArtVerif.Proofs.SortedExt
import ArtVerif.Model.Api
namespace ArtVerif
open Gen
namespace T
variable {V : Type}

def LcpOK (t : T V) (p : Bytes) : Option (T V) → Prop
  | none => ∀ x ∈ inorder t, ¬ p <+: x.2.1
  | some r => (∃ q, WF r q) ∧ (∀ x, x ∈ inorder r → x ∈ inorder t) ∧ (∀ x ∈ inorder t, p <+: x.2.1 → x ∈ inorder r)

theorem lcpLen_of_prefixes : ∀ (a b l : Bytes), a <+: l → b <+: l → lcpLen a b = min a.length b.length := by
  intro a
  induction a with
  | nil => intro b l _ _; simp [lcpLen]
  | cons x a ih =>
    intro b l ha hb
    cases b with
    | nil => simp [lcpLen]
    | cons y b =>
      cases l with
      | nil => simp at ha
      | cons z l =>
        simp only [List.cons_prefix_cons] at ha hb
        obtain ⟨h1, h2⟩ := ha
        obtain ⟨h3, h4⟩ := hb
        subst h1; subst h3
        simp only [lcpLen, if_true, List.length_cons, ih b l h2 h4]
        omega

theorem not_prefix_of_mismatch {q cp p x : Bytes} (hq : q <+: p) (hx : q ++ cp <+: x)
    (hlt : lcpLen cp (p.drop q.length) < cp.length) (hgo : q.length + lcpLen cp (p.drop q.length) < p.length) :
    ¬ p <+: x := by
  intro hpx
  obtain ⟨r1, rfl⟩ := hq
  simp only [List.drop_left] at hlt hgo
  simp only [List.length_append] at hgo
  have h1 : r1 <+: x.drop q.length := by
    obtain ⟨r, hr⟩ := hpx
    rw [← hr]; simp [List.append_assoc]
  have h2 : cp <+: x.drop q.length := prefix_drop_of_append_prefix hx
  have := lcpLen_of_prefixes cp r1 _ h2 h1
  omega

theorem lcp_spec : ∀ (fuel : Nat) (t : T V) (q p : Bytes), WF t q → q <+: p → p.length < fuel + q.length →
    LcpOK t p (lowestCommonParent fuel t p q.length) := by
  intro fuel
  induction fuel with
  | zero => intro t q p _ hq hf; have := hq.length_le; omega
  | succ fuel ih =>
    intro t q p hwf hq hf
    cases hwf with
    | @leaf lk ltk lv _ hp =>
      simp only [lowestCommonParent, LcpOK]
      exact ⟨⟨q, WF.leaf hp⟩, fun x hx => hx, fun x hx _ => hx⟩
    | @node kind plen inl ch _ cp hl hi hs h2 hk hc =>
      have hwf : WF (node kind plen inl ch) q := WF.node cp hl hi hs h2 hk hc
      have hmin := cp_prefix_minTKey hl hi hs h2 hk hc
      have hspec := prefixMismatch_spec (kind := kind) (ch := ch) hl hi hmin hq
      have hmle : lcpLen cp (p.drop q.length) ≤ plen := by
        have := lcpLen_le_left cp (p.drop q.length); omega
      have hall : ∀ x ∈ inorder (node kind plen inl ch), ∃ bc ∈ ch, q ++ cp ++ [bc.1] <+: x.2.1 ∧ x ∈ inorder bc.2 := by
        intro x hx
        simp only [inorder] at hx
        exact WF.prefix_cp hc x hx
      have hself : LcpOK (node kind plen inl ch) p (some (node kind plen inl ch)) :=
        ⟨⟨q, hwf⟩, fun x hx => hx, fun x hx _ => hx⟩
      simp only [lowestCommonParent]
      generalize hidx : (if plen ≠ 0 then prefixMismatch plen inl (minTKey (node kind plen inl ch)) p q.length else 0) = idx
      have hidx' : plen ≠ 0 → prefixMismatch plen inl (minTKey (node kind plen inl ch)) p q.length = idx := by
        intro h; rw [← hidx, if_pos h]
      by_cases hA : plen ≠ 0 ∧ q.length + idx ≥ p.length
      · rw [if_pos hA]; exact hself
      · rw [if_neg hA]
        by_cases hB : plen ≠ 0 ∧ idx < plen
        · rw [if_pos hB]
          obtain ⟨hpl, h2'⟩ := hB
          have h1 : ¬ q.length + idx ≥ p.length := fun h => hA ⟨hpl, h⟩
          have hm : lcpLen cp (p.drop q.length) < plen := by
            by_cases h : lcpLen cp (p.drop q.length) < plen
            · exact h
            · have := hspec.2 (by omega); rw [hidx' hpl] at this; omega
          have hpm := hspec.1 hm
          rw [hidx' hpl] at hpm
          simp only [LcpOK]
          intro x hx
          obtain ⟨bc, _, hpre, _⟩ := hall x hx
          refine not_prefix_of_mismatch (cp := cp) hq (List.IsPrefix.trans (by simp) hpre) (by omega) ?_
          rw [hpm] at h1; omega
        · rw [if_neg hB]
          have hcpre : cp <+: p.drop q.length := by
            by_cases hpl : plen = 0
            · have hcp : cp = [] := List.eq_nil_of_length_eq_zero (by omega)
              rw [hcp]; simp
            · have h2' : ¬ idx < plen := fun h => hB ⟨hpl, h⟩
              have hmeq : lcpLen cp (p.drop q.length) = cp.length := by
                by_cases h : lcpLen cp (p.drop q.length) < plen
                · have := hspec.1 h; rw [hidx' hpl] at this; omega
                · omega
              exact (lcpLen_eq_length_iff _ _).mp hmeq
          have hqcp : q ++ cp <+: p := by
            obtain ⟨r, rfl⟩ := hq
            simp only [List.drop_left] at hcpre
            exact (List.prefix_append_right_inj q).mpr hcpre
          cases hb : p[q.length + plen]? with
          | none => exact hself
          | some b =>
            have hbq : p[(q ++ cp).length]? = some b := by simpa [hl] using hb
            have hqb : q ++ cp ++ [b] <+: p := by
              obtain ⟨r, hr⟩ := hqcp
              have : r[0]? = some b := by
                rw [← hr, List.getElem?_append_right (by simp)] at hbq
                simpa using hbq
              cases r with
              | nil => simp at this
              | cons y r => simp at this; subst this; exact ⟨r, by rw [← hr]; simp⟩
            have hother : ∀ bc ∈ ch, bc.1 ≠ b → ∀ x ∈ inorder bc.2, ¬ p <+: x.2.1 := by
              intro bc hbc hne x hx hpx
              have hpre := WF.prefix_of_mem _ _ (hc bc hbc) x hx
              have h1 : q ++ cp ++ [b] <+: x.2.1 := List.IsPrefix.trans hqb hpx
              have e1 := getElem?_of_append_singleton_prefix h1
              have e2 := getElem?_of_append_singleton_prefix hpre
              rw [e1] at e2
              exact hne (Option.some.inj e2).symm
            simp only
            cases hlk : lookupCh b ch with
            | none =>
              simp only [LcpOK]
              intro x hx
              obtain ⟨bc, hbc, _, hin⟩ := hall x hx
              exact hother bc hbc (lookupCh_none_iff.mp hlk bc hbc) x hin
            | some c =>
              have hmem := lookupCh_some_mem hlk
              have hrec := ih c (q ++ cp ++ [b]) p (hc (b, c) hmem) hqb (by simp; omega)
              have hdepth : (q ++ cp ++ [b]).length = q.length + plen + 1 := by simp [hl]; omega
              rw [hdepth] at hrec
              simp only
              cases hr : lowestCommonParent fuel c p (q.length + plen + 1) with
              | none =>
                rw [hr] at hrec
                simp only [LcpOK] at hrec ⊢
                intro x hx
                obtain ⟨bc, hbc, _, hin⟩ := hall x hx
                by_cases hbb : bc.1 = b
                · have : bc = (b, c) := keys_ne_of_sorted_mem hs hbc hmem hbb
                  subst this; exact hrec x hin
                · exact hother bc hbc hbb x hin
              | some r =>
                rw [hr] at hrec
                simp only [LcpOK] at hrec ⊢
                obtain ⟨hw, hsub, hsup⟩ := hrec
                refine ⟨hw, ?_, ?_⟩
                · intro x hx
                  simp only [inorder]; exact mem_inorderL_of_mem hmem (hsub x hx)
                · intro x hx hpx
                  obtain ⟨bc, hbc, _, hin⟩ := hall x hx
                  by_cases hbb : bc.1 = b
                  · have : bc = (b, c) := keys_ne_of_sorted_mem hs hbc hmem hbb
                    subst this; exact hsup x hin hpx
                  · exact absurd hpx (hother bc hbc hbb x hin)

end T
end ArtVerif
