/-
  The compressed-radix-tree invariant `WF t p` (`p` = bytes consumed on the way to `t`) and what follows
  from it: every leaf below extends `p`, leaves are strictly sorted by their descent key, every inner
  node has a child.
-/
import ArtVerif.Proofs.Bytes
import ArtVerif.Proofs.Iter
namespace ArtVerif
open Gen
namespace T
variable {V : Type}

/-- fan-out bounds of each size class, through the regenerated constants -/
def KindOK (kind : Kind) (n : Nat) : Prop :=
  match kind with
  | .k4 => n ≤ maxNode4
  | .k16 => shrink16 < n ∧ n ≤ maxNode16
  | .k48 => shrink48 < n ∧ n ≤ maxNode48
  | .k256 => shrink256 < n

instance (kind : Kind) (n : Nat) : Decidable (KindOK kind n) := by
  unfold KindOK; cases kind <;> infer_instance

inductive WF : T V → Bytes → Prop where
  | leaf {k tk : Bytes} {v : V} {p : Bytes} : p <+: tk → WF (leaf k tk v) p
  | node {kind : Kind} {plen : Nat} {inl : Bytes} {ch : Ch V} {p : Bytes} (cp : Bytes) :
      cp.length = plen → inl = cp.take maxPrefixLen →
      (ch.map (·.1)).Pairwise (· < ·) → 2 ≤ ch.length → KindOK kind ch.length →
      (∀ bc ∈ ch, WF bc.2 (p ++ cp ++ [bc.1])) → WF (node kind plen inl ch) p

theorem WF.full : ∀ (t : T V) (p : Bytes), WF t p → Full t := by
  intro t
  induction t using induct with
  | hleaf k tk v => intro p _; exact Full.leaf k tk v
  | hnode kind plen inl ch ih =>
    intro p h
    cases h with
    | node cp hl hi hs h2 hk hc =>
      refine Full.node kind plen inl ch ?_ ?_
      · intro e; subst e; simp at h2
      · intro bc hm; exact ih bc hm _ (hc bc hm)

/-- every leaf below a well-formed subtree extends the consumed path -/
theorem WF.prefix_of_mem : ∀ (t : T V) (p : Bytes), WF t p → ∀ it ∈ inorder t, p <+: it.2.1 := by
  intro t
  induction t using induct with
  | hleaf k tk v =>
    intro p h it hm
    cases h with
    | leaf hp => simp [inorder] at hm; subst hm; exact hp
  | hnode kind plen inl ch ih =>
    intro p h it hm
    cases h with
    | node cp hl hi hs h2 hk hc =>
      simp only [inorder, inorderL_eq, List.mem_flatMap, List.mem_map] at hm
      obtain ⟨c, ⟨bc, hbc, rfl⟩, hit⟩ := hm
      have := ih bc hbc _ (hc bc hbc) it hit
      exact List.IsPrefix.trans (by simp [List.append_assoc]) this

/-- below a node, every leaf extends `p ++ cp` -/
theorem WF.prefix_cp {ch : Ch V} {p cp : Bytes}
    (hc : ∀ bc ∈ ch, WF bc.2 (p ++ cp ++ [bc.1])) :
    ∀ it ∈ inorderL ch, ∃ bc ∈ ch, p ++ cp ++ [bc.1] <+: it.2.1 ∧ it ∈ inorder bc.2 := by
  intro it hm
  simp only [inorderL_eq, List.mem_flatMap, List.mem_map] at hm
  obtain ⟨c, ⟨bc, hbc, rfl⟩, hit⟩ := hm
  exact ⟨bc, hbc, WF.prefix_of_mem _ _ (hc bc hbc) it hit, hit⟩

/-! ### child tables -/

theorem lookupCh_some_mem {b : UInt8} {ch : Ch V} {c : T V} (h : lookupCh b ch = some c) : (b, c) ∈ ch := by
  induction ch with
  | nil => simp [lookupCh] at h
  | cons bc rest ih =>
    obtain ⟨k, x⟩ := bc
    simp only [lookupCh] at h
    split at h
    · next hk => subst hk; simp at h; subst h; simp
    · exact List.mem_cons_of_mem _ (ih h)

theorem lookupCh_of_mem {b : UInt8} {ch : Ch V} {c : T V}
    (hs : (ch.map (·.1)).Pairwise (· < ·)) (h : (b, c) ∈ ch) : lookupCh b ch = some c := by
  induction ch with
  | nil => simp at h
  | cons bc rest ih =>
    obtain ⟨k, x⟩ := bc
    simp only [List.map_cons, List.pairwise_cons] at hs
    simp only [lookupCh]
    cases h with
    | head => simp
    | tail _ h' =>
      have hlt := hs.1 b (by simp only [List.mem_map]; exact ⟨(b, c), h', rfl⟩)
      have : k ≠ b := by intro e; subst e; exact UInt8.lt_irrefl _ hlt
      simp [this, ih hs.2 h']

theorem lookupCh_none_iff {b : UInt8} {ch : Ch V} : lookupCh b ch = none ↔ ∀ bc ∈ ch, bc.1 ≠ b := by
  induction ch with
  | nil => simp [lookupCh]
  | cons bc rest ih =>
    obtain ⟨k, x⟩ := bc
    simp only [lookupCh]
    split
    · next hk => subst hk; simp
    · next hk => simp [ih, hk]

end T
end ArtVerif

namespace ArtVerif
namespace T
variable {V : Type}

/-- order on items: by descent key -/
def ItemLt (a b : Item V) : Prop := lexLt a.2.1 b.2.1 = true

theorem sortedL (q : Bytes) : ∀ (ch : Ch V),
    (ch.map (·.1)).Pairwise (· < ·) →
    (∀ bc ∈ ch, WF bc.2 (q ++ [bc.1])) →
    (∀ bc ∈ ch, (inorder bc.2).Pairwise ItemLt) →
    (inorderL ch).Pairwise ItemLt := by
  intro ch
  induction ch with
  | nil => intro _ _ _; simp [inorderL]
  | cons bc rest ih =>
    obtain ⟨b, c⟩ := bc
    intro hs hw hp
    simp only [List.map_cons, List.pairwise_cons] at hs
    simp only [inorderL, List.pairwise_append]
    refine ⟨hp (b, c) List.mem_cons_self, ih hs.2 (fun bc h => hw bc (List.mem_cons_of_mem _ h))
      (fun bc h => hp bc (List.mem_cons_of_mem _ h)), ?_⟩
    intro x hx y hy
    have hxp := WF.prefix_of_mem _ _ (hw (b, c) List.mem_cons_self) x hx
    simp only [inorderL_eq, List.mem_flatMap, List.mem_map] at hy
    obtain ⟨c', ⟨bc', hbc', rfl⟩, hy'⟩ := hy
    have hyp := WF.prefix_of_mem _ _ (hw bc' (List.mem_cons_of_mem _ hbc')) y hy'
    have hlt : b < bc'.1 := hs.1 bc'.1 (by simp only [List.mem_map]; exact ⟨bc', hbc', rfl⟩)
    exact lexLt_of_branch q _ _ b bc'.1 hlt hxp hyp

/-- leaves of a well-formed tree are strictly sorted by descent key -/
theorem WF.sorted : ∀ (t : T V) (p : Bytes), WF t p → (inorder t).Pairwise ItemLt := by
  intro t
  induction t using induct with
  | hleaf k tk v => intro p _; simp [inorder]
  | hnode kind plen inl ch ih =>
    intro p h
    cases h with
    | node cp hl hi hs h2 hk hc =>
      simp only [inorder]
      exact sortedL (p ++ cp) ch hs hc (fun bc hm => ih bc hm _ (hc bc hm))

/-- hence descent keys are pairwise distinct -/
theorem WF.tkey_unique {t : T V} {p : Bytes} (h : WF t p) {a b : Item V}
    (ha : a ∈ inorder t) (hb : b ∈ inorder t) (he : a.2.1 = b.2.1) : a = b := by
  have hs := WF.sorted t p h
  generalize inorder t = l at *
  induction l with
  | nil => simp at ha
  | cons x l ih =>
    simp only [List.pairwise_cons] at hs
    cases ha with
    | head =>
      cases hb with
      | head => rfl
      | tail _ hb' =>
        have := hs.1 b hb'
        simp [ItemLt, he, lexLt_irrefl] at this
    | tail _ ha' =>
      cases hb with
      | head =>
        have := hs.1 a ha'
        simp [ItemLt, ← he, lexLt_irrefl] at this
      | tail _ hb' => exact ih ha' hb' hs.2

end T
end ArtVerif
