/-
  Lane-level facts about the regenerated SWAR definitions of `Gen/Node4.lean`
  (translated from /repo/node4.go), for ALL 32-bit words and ALL bytes.

  This is the only file of the development that uses `bv_decide` (each use adds a
  `<thm>._native.bv_decide.ax_*` axiom); everything that is exported to the other
  files is restated on a list-of-lanes view at the end (`lanes`).
-/
import Std.Tactic.BVDecide
import ArtVerif.Gen.Node4
namespace ArtVerif
namespace Swar
open Gen

/-- The word with byte lanes `a` (lowest) … `d` (highest). -/
def mk (a b c d : BitVec 8) : BitVec 32 :=
  a.zeroExtend 32 ||| (b.zeroExtend 32 <<< 8) ||| (c.zeroExtend 32 <<< 16) ||| (d.zeroExtend 32 <<< 24)

/-! ### word-level facts (bv_decide) -/

theorem getAtPos_mk0 (a b c d : BitVec 8) : getAtPos (mk a b c d) 0 = a := by
  simp only [getAtPos, mk, Nat.reduceShiftLeft]; bv_decide
theorem getAtPos_mk1 (a b c d : BitVec 8) : getAtPos (mk a b c d) 1 = b := by
  simp only [getAtPos, mk, Nat.reduceShiftLeft]; bv_decide
theorem getAtPos_mk2 (a b c d : BitVec 8) : getAtPos (mk a b c d) 2 = c := by
  simp only [getAtPos, mk, Nat.reduceShiftLeft]; bv_decide
theorem getAtPos_mk3 (a b c d : BitVec 8) : getAtPos (mk a b c d) 3 = d := by
  simp only [getAtPos, mk, Nat.reduceShiftLeft]; bv_decide

/-- every word is `mk` of its four lanes: the lane view loses nothing -/
theorem mk_getAtPos (w : BitVec 32) :
    w = mk (getAtPos w 0) (getAtPos w 1) (getAtPos w 2) (getAtPos w 3) := by
  simp only [getAtPos, mk, Nat.reduceShiftLeft]; bv_decide

theorem setAtPos_mk0 (a b c d x : BitVec 8) : setAtPos (mk a b c d) 0 x = mk x b c d := by
  simp only [setAtPos, mk, Nat.reduceShiftLeft]; bv_decide
theorem setAtPos_mk1 (a b c d x : BitVec 8) : setAtPos (mk a b c d) 1 x = mk a x c d := by
  simp only [setAtPos, mk, Nat.reduceShiftLeft]; bv_decide
theorem setAtPos_mk2 (a b c d x : BitVec 8) : setAtPos (mk a b c d) 2 x = mk a b x d := by
  simp only [setAtPos, mk, Nat.reduceShiftLeft]; bv_decide
theorem setAtPos_mk3 (a b c d x : BitVec 8) : setAtPos (mk a b c d) 3 x = mk a b c x := by
  simp only [setAtPos, mk, Nat.reduceShiftLeft]; bv_decide

theorem shiftLeftClear_mk0 (a b c d : BitVec 8) : shiftLeftClear (mk a b c d) 0 = mk 0 a b c := by
  simp only [shiftLeftClear, mk, Nat.reduceShiftLeft]; bv_decide
theorem shiftLeftClear_mk1 (a b c d : BitVec 8) : shiftLeftClear (mk a b c d) 1 = mk a 0 b c := by
  simp only [shiftLeftClear, mk, Nat.reduceShiftLeft]; bv_decide
theorem shiftLeftClear_mk2 (a b c d : BitVec 8) : shiftLeftClear (mk a b c d) 2 = mk a b 0 c := by
  simp only [shiftLeftClear, mk, Nat.reduceShiftLeft]; bv_decide
theorem shiftLeftClear_mk3 (a b c d : BitVec 8) : shiftLeftClear (mk a b c d) 3 = mk a b c 0 := by
  simp only [shiftLeftClear, mk, Nat.reduceShiftLeft]; bv_decide

/-- `shiftRightClear w (i+1)` drops lane `i`; lane 3 is duplicated. -/
theorem shiftRightClear_mk1 (a b c d : BitVec 8) : shiftRightClear (mk a b c d) 1 = mk b c d d := by
  simp only [shiftRightClear, mk, Nat.reduceShiftLeft]; bv_decide
theorem shiftRightClear_mk2 (a b c d : BitVec 8) : shiftRightClear (mk a b c d) 2 = mk a c d d := by
  simp only [shiftRightClear, mk, Nat.reduceShiftLeft]; bv_decide
theorem shiftRightClear_mk3 (a b c d : BitVec 8) : shiftRightClear (mk a b c d) 3 = mk a b d d := by
  simp only [shiftRightClear, mk, Nat.reduceShiftLeft]; bv_decide
/-- position 4: the shift count is 32, the mask is 0, the word is unchanged. -/
theorem shiftRightClear_mk4 (a b c d : BitVec 8) : shiftRightClear (mk a b c d) 4 = mk a b c d := by
  simp only [shiftRightClear, mk, Nat.reduceShiftLeft]; bv_decide

theorem construct_eq_mk (a b c d : BitVec 8) : construct a b c d = mk a b c d := by
  simp only [construct, mk]; bv_decide

theorem deconstruct_mk (a b c d : BitVec 8) : deconstruct (mk a b c d) = [a, b, c, d] := by
  simp only [deconstruct, mk, List.cons.injEq, and_true]
  refine ⟨?_, ?_, ?_, ?_⟩ <;> bv_decide

/-! ### `searchNode4` / `insertPosNode4`: the intermediate words -/

def bcast (x : BitVec 8) : BitVec 32 := 0x1010101#32 * (BitVec.setWidth 32 x)
def isMatchW (keys : BitVec 32) (x : BitVec 8) : BitVec 32 :=
  let xor1 := keys ^^^ bcast x
  ((xor1 - 0x1010101#32) &&& (~~~ xor1)) &&& 0x80808080#32
def idxW (m : BitVec 32) : BitVec 32 :=
  (((((m - 0x1#32) &&& 0x1010101#32) * 0x1010101#32) >>> 24) - 0x1#32)

theorem searchNode4_unfold (keys : BitVec 32) (x : BitVec 8) :
    searchNode4 keys x =
      if isMatchW keys x != 0#32 then Int.ofNat (idxW (isMatchW keys x)).toNat else -1 := rfl

theorem isMatchW_zero (a b c d x : BitVec 8) :
    (isMatchW (mk a b c d) x == 0#32) = (!(a == x) && !(b == x) && !(c == x) && !(d == x)) := by
  simp only [isMatchW, bcast, mk]; bv_decide

theorem idxW_isMatchW (a b c d x : BitVec 8) (h : (isMatchW (mk a b c d) x != 0#32) = true) :
    idxW (isMatchW (mk a b c d) x) =
      if a == x then 0#32 else if b == x then 1#32 else if c == x then 2#32 else 3#32 := by
  simp only [idxW, isMatchW, bcast, mk] at *; bv_decide

def t2W (keys : BitVec 32) (x : BitVec 8) : BitVec 32 :=
  let bitMask := bcast x
  let t0 : BitVec 32 := ((((keys ||| hiBitMask) - (bitMask &&& (~~~ hiBitMask))) ||| (keys ^^^ bitMask)) ^^^ (keys ||| (~~~ bitMask)))
  let t1 : BitVec 32 := (t0 &&& hiBitMask)
  let t2 : BitVec 32 := ((t1 + t1) - (t1 >>> 7))
  ~~~ t2

theorem insertPosNode4_unfold (keys : BitVec 32) (x : BitVec 8) :
    insertPosNode4 keys x =
      if t2W keys x != 0#32 then Int.ofNat (ctz32 (t2W keys x) >>> 3) else -1 := rfl

def geM (a x : BitVec 8) : BitVec 8 := if x.ule a then 0xFF#8 else 0#8

theorem t2W_mk (a b c d x : BitVec 8) :
    t2W (mk a b c d) x = mk (geM a x) (geM b x) (geM c x) (geM d x) := by
  simp only [t2W, bcast, mk, geM, hiBitMask]; bv_decide

def bm (p : Bool) : BitVec 8 := if p then 0xFF#8 else 0#8
theorem ctz_mask : ∀ p q r s : Bool,
    (if mk (bm p) (bm q) (bm r) (bm s) != 0#32 then Int.ofNat (ctz32 (mk (bm p) (bm q) (bm r) (bm s)) >>> 3) else -1)
      = if p then 0 else if q then 1 else if r then 2 else if s then 3 else (-1 : Int) := by
  decide


/-- `searchNode4` returns the index of the LOWEST lane equal to `x`, or −1. -/
theorem searchNode4_mk (a b c d x : BitVec 8) :
    searchNode4 (mk a b c d) x =
      if a == x then 0 else if b == x then 1 else if c == x then 2 else if d == x then 3 else (-1 : Int) := by
  rw [searchNode4_unfold]
  by_cases h : (isMatchW (mk a b c d) x != 0#32) = true
  · rw [if_pos h, idxW_isMatchW a b c d x h]
    have hz := isMatchW_zero a b c d x
    have : (isMatchW (mk a b c d) x == 0#32) = false := by simpa [bne] using h
    rw [this] at hz
    by_cases ha : (a == x) = true
    · simp [ha]
    · by_cases hb : (b == x) = true
      · simp [ha, hb]
      · by_cases hc : (c == x) = true
        · simp [ha, hb, hc]
        · have hd : (d == x) = true := by simp [ha, hb, hc] at hz; simpa using hz
          simp [ha, hb, hc, hd]
  · rw [if_neg h]
    have hz := isMatchW_zero a b c d x
    have : (isMatchW (mk a b c d) x == 0#32) = true := by simpa [bne] using h
    rw [this] at hz
    simp at hz
    obtain ⟨⟨⟨ha, hb⟩, hc⟩, hd⟩ := hz
    simp [ha, hb, hc, hd]

/-- `insertPosNode4` returns the index of the lowest lane that is ≥ `x` (unsigned), or −1. -/
theorem insertPosNode4_mk (a b c d x : BitVec 8) :
    insertPosNode4 (mk a b c d) x =
      if x.ule a then 0 else if x.ule b then 1 else if x.ule c then 2 else if x.ule d then 3 else (-1 : Int) := by
  rw [insertPosNode4_unfold, t2W_mk]
  have := ctz_mask (x.ule a) (x.ule b) (x.ule c) (x.ule d)
  simpa [geM, bm] using this


/-! ### the lane-list view -/

/-- The four byte lanes of a word, lowest first. -/
def lanes (w : BitVec 32) : List UInt8 :=
  [UInt8.ofBitVec (getAtPos w 0), UInt8.ofBitVec (getAtPos w 1),
   UInt8.ofBitVec (getAtPos w 2), UInt8.ofBitVec (getAtPos w 3)]

/-- Index of the first element satisfying `p`, as Go reports it (−1 for none). -/
def firstIdx (p : UInt8 → Bool) (l : List UInt8) : Int :=
  match l.findIdx? p with
  | some i => (i : Int)
  | none => -1

theorem exists_mk (w : BitVec 32) : ∃ a b c d, w = mk a b c d :=
  ⟨_, _, _, _, mk_getAtPos w⟩

theorem lanes_mk (a b c d : BitVec 8) :
    lanes (mk a b c d) = [UInt8.ofBitVec a, UInt8.ofBitVec b, UInt8.ofBitVec c, UInt8.ofBitVec d] := by
  simp only [lanes, getAtPos_mk0, getAtPos_mk1, getAtPos_mk2, getAtPos_mk3]

theorem lanes_length (w : BitVec 32) : (lanes w).length = 4 := rfl

theorem lanes_inj {v w : BitVec 32} (h : lanes v = lanes w) : v = w := by
  rw [mk_getAtPos v, mk_getAtPos w]
  simp only [lanes, List.cons.injEq, UInt8.ofBitVec.injEq, and_true] at h
  obtain ⟨h0, h1, h2, h3⟩ := h
  rw [h0, h1, h2, h3]

theorem getAtPos_lanes (w : BitVec 32) (i : Nat) (hi : i < 4) :
    (lanes w)[i]? = some (UInt8.ofBitVec (getAtPos w i)) := by
  match i, hi with
  | 0, _ | 1, _ | 2, _ | 3, _ => rfl

theorem searchNode4_spec (w : BitVec 32) (b : UInt8) :
    searchNode4 w b.toBitVec = firstIdx (fun k => k == b) (lanes w) := by
  obtain ⟨a0, a1, a2, a3, rfl⟩ := exists_mk w
  rw [searchNode4_mk, lanes_mk]
  have e : ∀ a : BitVec 8, (UInt8.ofBitVec a == b) = (a == b.toBitVec) := by
    intro a; cases b; simp [BEq.beq, UInt8.ofBitVec.injEq]
  simp only [firstIdx, List.findIdx?_cons, e]
  by_cases h0 : (a0 == b.toBitVec) = true <;> by_cases h1 : (a1 == b.toBitVec) = true <;>
    by_cases h2 : (a2 == b.toBitVec) = true <;> by_cases h3 : (a3 == b.toBitVec) = true <;>
    simp [h0, h1, h2, h3]

theorem insertPosNode4_spec (w : BitVec 32) (b : UInt8) :
    insertPosNode4 w b.toBitVec = firstIdx (fun k => decide (b ≤ k)) (lanes w) := by
  obtain ⟨a0, a1, a2, a3, rfl⟩ := exists_mk w
  rw [insertPosNode4_mk, lanes_mk]
  have e : ∀ a : BitVec 8, decide (b ≤ UInt8.ofBitVec a) = b.toBitVec.ule a := by
    intro a; simp [UInt8.le_iff_toBitVec_le, BitVec.ule_eq_decide, BitVec.le_def]
  simp only [firstIdx, List.findIdx?_cons, e]
  by_cases h0 : (b.toBitVec.ule a0) = true <;> by_cases h1 : (b.toBitVec.ule a1) = true <;>
    by_cases h2 : (b.toBitVec.ule a2) = true <;> by_cases h3 : (b.toBitVec.ule a3) = true <;>
    simp [h0, h1, h2, h3]

theorem lanes_setAtPos (w : BitVec 32) (i : Nat) (hi : i < 4) (x : UInt8) :
    lanes (setAtPos w i x.toBitVec) = (lanes w).set i x := by
  obtain ⟨a0, a1, a2, a3, rfl⟩ := exists_mk w
  match i, hi with
  | 0, _ => rw [setAtPos_mk0, lanes_mk, lanes_mk]; rfl
  | 1, _ => rw [setAtPos_mk1, lanes_mk, lanes_mk]; rfl
  | 2, _ => rw [setAtPos_mk2, lanes_mk, lanes_mk]; rfl
  | 3, _ => rw [setAtPos_mk3, lanes_mk, lanes_mk]; rfl

/-- insert a zero lane at `p`; the lanes from `p` on move up, lane 3 is dropped -/
theorem lanes_shiftLeftClear (w : BitVec 32) (p : Nat) (hp : p < 4) :
    lanes (shiftLeftClear w p) = ((lanes w).take p ++ 0 :: (lanes w).drop p).take 4 := by
  obtain ⟨a0, a1, a2, a3, rfl⟩ := exists_mk w
  match p, hp with
  | 0, _ => rw [shiftLeftClear_mk0, lanes_mk, lanes_mk]; rfl
  | 1, _ => rw [shiftLeftClear_mk1, lanes_mk, lanes_mk]; rfl
  | 2, _ => rw [shiftLeftClear_mk2, lanes_mk, lanes_mk]; rfl
  | 3, _ => rw [shiftLeftClear_mk3, lanes_mk, lanes_mk]; rfl

/-- drop lane `i`; higher lanes move down, lane 3 is duplicated (identity for `i = 3`) -/
theorem lanes_shiftRightClear (w : BitVec 32) (i : Nat) (hi : i < 4) :
    lanes (shiftRightClear w (i + 1)) =
      (lanes w).take i ++ (lanes w).drop (i + 1) ++ [UInt8.ofBitVec (getAtPos w 3)] := by
  obtain ⟨a0, a1, a2, a3, rfl⟩ := exists_mk w
  rw [getAtPos_mk3]
  match i, hi with
  | 0, _ => rw [shiftRightClear_mk1, lanes_mk, lanes_mk]; rfl
  | 1, _ => rw [shiftRightClear_mk2, lanes_mk, lanes_mk]; rfl
  | 2, _ => rw [shiftRightClear_mk3, lanes_mk, lanes_mk]; rfl
  | 3, _ => rw [shiftRightClear_mk4, lanes_mk]; rfl

theorem lanes_construct (a b c d : UInt8) :
    lanes (construct a.toBitVec b.toBitVec c.toBitVec d.toBitVec) = [a, b, c, d] := by
  rw [construct_eq_mk, lanes_mk]

theorem deconstruct_lanes (w : BitVec 32) : (deconstruct w).map UInt8.ofBitVec = lanes w := by
  obtain ⟨a0, a1, a2, a3, rfl⟩ := exists_mk w
  rw [deconstruct_mk, lanes_mk]; rfl


end Swar
end ArtVerif
