/-
  Correspondence driver.  Reads a transcript written by the Go harness
  (`<op> <args…> => <implementation output>` per line), replays every line on the
  Lean model (the definitions the theorems are about) and on the specification,
  and prints one line per disagreement:

    DIFF <lineno> MODEL  …   implementation ≠ model
    DIFF <lineno> SPEC   …   implementation ≠ specification (this is a property violation)
    DIFF <lineno> INV    …   a real node violates the proved raw invariant / dump ≠ model tree

  followed by `SUMMARY …`.  Core-only so that it links as an executable.
-/
import ArtVerif.Model.Bytes
import ArtVerif.Model.Codec
import ArtVerif.Model.Raw
import ArtVerif.Model.Tree
import ArtVerif.Model.Iter
import ArtVerif.Model.Api
import ArtVerif.Model.Spec
import ArtVerif.Model.RTree
open ArtVerif

/-! ## key kinds -/

inductive Field where
  | num (t : NumTy) | str
  | raw   -- a trailing byte string written without terminator
  deriving Repr

inductive KeyKind where
  | alpha | num (t : NumTy) | coll | comp (schema : List Field)
  deriving Repr

def parseNumTy (s : String) : Option NumTy :=
  match s with
  | "u8" => some (.u 8) | "u16" => some (.u 16) | "u32" => some (.u 32) | "u64" => some (.u 64)
  | "i8" => some (.i 8) | "i16" => some (.i 16) | "i32" => some (.i 32) | "i64" => some (.i 64)
  | "f32" => some .f32 | "f64" => some .f64
  | _ => none

def parseHexNat (s : String) : Option Nat :=
  s.toList.foldlM (fun acc c => (hexVal c).map (fun d => acc * 16 + d)) 0

def padHex (digits : Nat) (n : Nat) : String :=
  let rec go : Nat → Nat → List Char → List Char
    | 0, _, acc => acc
    | d+1, n, acc => go d (n / 16) (hexDigit (n % 16) :: acc)
  String.ofList (go digits n [])

def numLit (t : NumTy) (bits : Nat) : String :=
  if t.isNaN bits then "nan" else padHex (t.width / 4) bits

/-- everything the driver needs to know about one key argument -/
structure KeyRep where
  k : Bytes      -- compared at the leaf
  tk : Bytes     -- descended on
  sk : SKey

def bytesOrd (bs : Bytes) : List Int := bs.map (fun b => (b.toNat : Int))

def parseField (f : Field) (s : String) : Option (Bytes × String × List Int) :=
  match f with
  | .num t => do
    let bits ← if s == "nan" then (match t with | .f32 => some 0x7FC00000 | .f64 => some 0x7FF8000000000001 | _ => none) else parseHexNat s
    pure (t.enc bits, numLit t bits, [t.rank bits])
  | .str => do
    let bs ← parseHex s
    pure (bs ++ [0], hexOfBytes bs, bytesOrd bs ++ [-1])
  | .raw => do
    let bs ← parseHex s
    pure (bs, hexOfBytes bs, bytesOrd bs)

def parseKey (kind : KeyKind) (s : String) : Option KeyRep :=
  match kind with
  | .alpha => do
    let bs ← parseHex s
    pure { k := bs ++ [0], tk := bs ++ [0], sk := { id := hexOfBytes bs, ord := bytesOrd bs, orig := bs } }
  | .num t => do
    let (enc, id, ord) ← parseField (.num t) s
    pure { k := enc, tk := enc, sk := { id := id, ord := ord } }
  | .coll =>
    match s.splitOn ":" with
    | [o, c] => do
      let bs ← parseHex o
      let sk ← parseHex c
      pure { k := bs, tk := sk ++ [0, 0], sk := { id := hexOfBytes bs, ord := bytesOrd sk, orig := bs } }
    | _ => none
  | .comp schema =>
    let parts := s.splitOn ","
    if parts.length != schema.length then none else do
      let fs ← (schema.zip parts).mapM (fun (f, p) => parseField f p)
      let enc := fs.flatMap (·.1)
      pure { k := enc, tk := enc,
             sk := { id := String.intercalate "," (fs.map (·.2.1)), ord := fs.flatMap (·.2.2) } }

def decodeFields : List Field → Bytes → List String
  | [], _ => []
  | .num t :: rest, bs =>
    let n := t.width / 8
    numLit t (t.dec (bs.take n)) :: decodeFields rest (bs.drop n)
  | .str :: rest, bs => hexOfBytes bs.dropLast :: decodeFields rest []
  | .raw :: rest, bs => hexOfBytes bs :: decodeFields rest []

/-- `restoreKey` on a model leaf, rendered as a key literal -/
def restoreLit (kind : KeyKind) (k : Bytes) : String :=
  match kind with
  | .alpha => hexOfBytes k.dropLast
  | .num t => numLit t (t.dec k)
  | .coll => hexOfBytes k
  | .comp schema => String.intercalate "," (decodeFields schema k)

/-! ## rendering / parsing of dumps -/

mutual
def renderT : T Nat → String
  | .leaf k tk v => s!"L {hexOfBytes k} {hexOfBytes tk} {v}"
  | .node kind plen inl ch => s!"N{kind.toNat} {plen} {hexOfBytes inl} [{renderCh ch}]"
def renderCh : List (UInt8 × T Nat) → String
  | [] => ""
  | (b, c) :: rest => s!"{b.toNat}:({renderT c}) {renderCh rest}"
end

/-- a parsed real node -/
inductive RT where
  | leaf (k tk : Bytes) (v : Nat)
  | node (cls len plen : Nat) (pfx raw : Bytes) (occ : List Bool) (kids : List (Nat × RT))
  | nil

partial def parseRT : List String → Option (RT × List String)
  | "X" :: rest => some (.nil, rest)
  | "L" :: k :: tk :: v :: rest => do
    let k ← parseHex k
    let tk ← parseHex tk
    let v ← v.toNat?
    pure (.leaf k tk v, rest)
  | "N" :: cls :: len :: plen :: pfx :: raw :: occ :: n :: rest => do
    let cls ← cls.toNat?
    let len ← len.toNat?
    let plen ← plen.toNat?
    let pfx ← parseHex pfx
    let raw ← parseHex raw
    let n ← n.toNat?
    let occ := occ.toList.map (· == '1')
    let rec kids : Nat → List String → List (Nat × RT) → Option (List (Nat × RT) × List String)
      | 0, toks, acc => some (acc.reverse, toks)
      | m+1, slot :: toks, acc => do
        let slot ← slot.toNat?
        let (c, toks) ← parseRT toks
        kids m toks ((slot, c) :: acc)
      | _, _, _ => none
    let (ks, rest) ← kids n rest []
    pure (.node cls len plen pfx raw occ ks, rest)
  | _ => none

structure DumpStats where
  nodes4 : Nat := 0
  nodes16 : Nat := 0
  nodes48 : Nat := 0
  nodes256 : Nat := 0
  longPaths : Nat := 0     -- compressed paths above the inline limit
  full256 : Nat := 0       -- node256 holding 256 children (recorded fan-out wraps to 0)
  leaves : Nat := 0

def mkRaw (cls len plen : Nat) (pfx raw : Bytes) (kids : List (Nat × Nat)) : Option (Raw Nat) :=
  let h : Hdr := { plen := plen, pfx := pfx }
  let slotsOf (n : Nat) : List (Option Nat) :=
    (List.range n).map (fun i => (kids.find? (·.1 == i)).map (·.2))
  match cls with
  | 4 =>
    match raw with
    | [a, b, c, d] => some (.n4 h len (Gen.construct a.toBitVec b.toBitVec c.toBitVec d.toBitVec) (slotsOf 4))
    | _ => none
  | 16 => some (.n16 h len raw (slotsOf 16))
  | 48 => some (.n48 h len raw (slotsOf 48))
  | 256 => some (.n256 h len (slotsOf 256))
  | _ => none

def kindOfCls : Nat → Option Kind
  | 4 => some .k4 | 16 => some .k16 | 48 => some .k48 | 256 => some .k256 | _ => none

/-- Check the raw invariant of every node and abstract the real structure to a model tree. -/
partial def absRT (path : String) (st : DumpStats) : RT → Except String (T Nat × DumpStats)
  | .nil => .error s!"{path}: nil child reference"
  | .leaf k tk v => .ok (.leaf k tk v, { st with leaves := st.leaves + 1 })
  | .node cls len plen pfx raw occ kids => do
    let kind ← match kindOfCls cls with | some k => pure k | none => .error s!"{path}: class {cls}"
    let raw ← match mkRaw cls len plen pfx raw ((List.range kids.length).zip (kids.map (·.1)) |>.map (fun (i, s) => (s, i))) with
      | some r => pure r | none => .error s!"{path}: malformed raw image"
    -- live slots must be occupied; node48/node256: occupancy is exactly the live set
    let liveSlots := kids.map (·.1)
    if !(liveSlots.all (fun s => occ.getD s false)) then .error s!"{path}: live slot with nil pointer"
    if (cls == 48 || cls == 256) && (occ.filter id).length != kids.length then
      .error s!"{path}: occupancy {(occ.filter id).length} ≠ live children {kids.length}"
    let full := cls == 256 && kids.length == 256
    if !full && !raw.inv then .error s!"{path}: raw invariant of node{cls} violated (len={len})"
    if full && len != 0 then .error s!"{path}: full node256 with len={len}"
    let st := match cls with
      | 4 => { st with nodes4 := st.nodes4 + 1 }
      | 16 => { st with nodes16 := st.nodes16 + 1 }
      | 48 => { st with nodes48 := st.nodes48 + 1 }
      | _ => { st with nodes256 := st.nodes256 + 1 }
    let st := if plen > 10 then { st with longPaths := st.longPaths + 1 } else st
    let st := if full then { st with full256 := st.full256 + 1 } else st
    let entries := raw.abs      -- (byte, index into kids)
    if entries.length != kids.length then .error s!"{path}: abs has {entries.length} entries for {kids.length} live children"
    let mut st := st
    let mut ch : List (UInt8 × T Nat) := []
    for (b, i) in entries do
      match kids[i]? with
      | none => throw s!"{path}: bad child index"
      | some (_, c) =>
        let (t, st') ← absRT s!"{path}/{b.toNat}" st c
        st := st'
        ch := (b, t) :: ch
    pure (.node kind plen (pfx.take (min plen 10)) ch.reverse, st)

/-- the raw-node tree of the model in the format of the real dump (`verifDumpRef`): class, childrenLen, prefixLen,
    all ten prefix bytes, the raw lanes / index bytes, the occupancy of every slot, the live children by slot -/
partial def renderModelRT : ArtVerif.RT Nat → String
  | .leaf k tk v => s!"L {hexOfBytes k} {hexOfBytes tk} {v}"
  | .node r =>
    let (cls, len, rawB, slots) : Nat × Nat × Bytes × List (Option (ArtVerif.RT Nat)) :=
      match r with
      | .n4 _ len keys slots => (4, len, Raw.lanes4 keys, slots)
      | .n16 _ len keys slots => (16, len, keys, slots)
      | .n48 _ len idx slots => (48, len, idx, slots)
      | .n256 _ len slots => (256, len, [], slots)
    let occ := String.ofList (slots.map fun o => if o.isSome then '1' else '0')
    let live : List (Nat × ArtVerif.RT Nat) :=
      if cls == 4 || cls == 16 then
        (List.range (min len slots.length)).filterMap fun i => match (slots[i]?).join with | some c => some (i, c) | none => none
      else
        (List.range slots.length).filterMap fun i => match (slots[i]?).join with | some c => some (i, c) | none => none
    let kids := live.map fun (i, c) => s!" {i} {renderModelRT c}"
    s!"N {cls} {len % 256} {r.hdr.plen} {hexOfBytes r.hdr.pfx} {hexOfBytes rawB} {occ} {live.length}{String.join kids}"

/-- the first token at which two dumps differ, with a little context -/
def firstTokenDiff (a b : String) : String :=
  let ta := a.splitOn " "
  let tb := b.splitOn " "
  let rec go (i : Nat) : List String → List String → String
    | x :: xs, y :: ys => if x == y then go (i + 1) xs ys else s!"token {i}: impl={x} model={y}"
    | [], [] => "equal"
    | xs, ys => s!"token {i}: impl has {xs.length} more tokens, model {ys.length}"
  go 0 ta tb

/-! ## per-tree state -/

structure TState where
  kind : KeyKind
  model : Tree Nat := {}
  rmodel : RTree Nat := {}   -- the tree of raw node records (Model/RTree.lean), run in lockstep
  spec : Spec := []
  dead : Bool := false     -- abandoned after an implementation panic

structure BareState where
  raw : Raw Nat
  collapsed : Option String := none
  inner : List (Nat × Hdr) := []

structure DState where
  trees : List (Nat × TState) := []
  bares : List (Nat × BareState) := []
  lineno : Nat := 0
  ops : Nat := 0
  diffs : Nat := 0
  dumps : Nat := 0
  rawDumps : Nat := 0
  maxSize : Nat := 0
  stats : DumpStats := {}
  bareOps : Nat := 0
  fnOps : Nat := 0

def getTree (s : DState) (t : Nat) : Option TState := (s.trees.find? (·.1 == t)).map (·.2)
def setTree (s : DState) (t : Nat) (ts : TState) : DState :=
  { s with trees := (t, ts) :: s.trees.filter (·.1 != t) }

/-! ## sequences -/

def renderItems (xs : List (String × Nat)) : String :=
  if xs.isEmpty then "-" else String.intercalate "," (xs.map (fun (k, v) => s!"{k}:{v}"))

def takeStop {α} (stop : Nat) (xs : List α) : List α := if stop == 0 then xs else xs.take stop

inductive SeqSel where
  | all | back | topk (n : Nat) | botk (n : Nat)
  | range (a b : KeyRep) | rangeOpen (a : KeyRep) | pfx (p : Bytes)

def modelSeq (ts : TState) (sel : SeqSel) (stop : Nat) : List (String × Nat) :=
  let f := T.collect (V := Nat) stop
  let root := ts.model.root
  let items : List (T.Item Nat) :=
    match sel with
    | .all => T.all root f []
    | .back => T.backward root f []
    | .topk n => T.topK root n f []
    | .botk n => T.bottomK root n f []
    | .range a b =>
      match ts.kind with
      | .num _ => ts.model.rangeNum a.k b.k f []
      | _ => ts.model.rangeBytes a.k b.k f []
    | .rangeOpen a => ts.model.rangeOpen a.k f []
    | .pfx p =>
      match ts.kind with
      | .alpha => ts.model.prefixBytes p f []
      | _ => ts.model.prefixColl p f []
  items.reverse.map (fun (k, _, v) => (restoreLit ts.kind k, v))

def specSeq (ts : TState) (sel : SeqSel) (stop : Nat) : List (String × Nat) :=
  let full : Spec :=
    match sel with
    | .all => ts.spec
    | .back => ts.spec.reverse
    | .topk n => ts.spec.reverse.take n
    | .botk n => ts.spec.take n
    | .range a b => ts.spec.range a.sk b.sk
    | .rangeOpen a => ts.spec.rangeFrom a.sk
    | .pfx p => ts.spec.withPrefix p
  (takeStop stop full).map (fun (k, v) => (k.id, v))

/-! ## bare nodes -/

def occString (slots : List (Option Nat)) : String :=
  String.ofList (slots.map (fun s => if s.isSome then '1' else '0'))

def liveSlots (r : Raw Nat) : List (Nat × Nat) :=
  let pick (slots : List (Option Nat)) (n : Nat) : List (Nat × Nat) :=
    (List.range n).filterMap (fun i => (slots[i]?).join.map (fun c => (i, c)))
  match r with
  | .n4 _ len _ slots => pick slots (min len 4)
  | .n16 _ len _ slots => pick slots (min len 16)
  | .n48 _ _ _ slots => pick slots 48
  | .n256 _ _ slots => pick slots 256

def renderRaw (r : Raw Nat) : String :=
  let h := r.hdr
  let (raw, occ) : Bytes × String := match r with
    | .n4 _ _ keys slots => ((Gen.deconstruct keys).map Raw.u8, occString slots)
    | .n16 _ _ keys slots => (keys, occString slots)
    | .n48 _ _ idx slots => (idx, occString slots)
    | .n256 _ _ slots => ([], occString slots)
  let live := liveSlots r
  let kids := String.join (live.map (fun (s, c) => s!" {s} {c}"))
  s!"N {r.cls} {r.len} {h.plen} {hexOfBytes h.pfx} {hexOfBytes raw} {occ} {live.length}{kids}"

/-! ## the line interpreter -/

def diff (s : DState) (what detail : String) : DState × List String :=
  ({ s with diffs := s.diffs + 1 }, [s!"DIFF {s.lineno} {what} {detail}"])

def parseByte (s : String) : Option UInt8 := (s.toNat?).map UInt8.ofNat

def intStr (i : Int) : String := toString i

def parseKind (args : List String) : Option KeyKind :=
  match args with
  | ["alpha"] => some .alpha
  | ["coll"] => some .coll
  | ["num", t] => (parseNumTy t).map .num
  | ["comp", schema] =>
    ((schema.splitOn ",").mapM (fun f => if f == "s" then some Field.str else if f == "r" then some Field.raw else (parseNumTy f).map Field.num)).map .comp
  | _ => none

def withTree (s : DState) (t : String) (k : Nat → TState → DState × List String) : DState × List String :=
  match t.toNat? with
  | none => diff s "PROTO" "bad tree id"
  | some tid =>
    match getTree s tid with
    | none => diff s "PROTO" s!"unknown tree {tid}"
    | some ts => if ts.dead then (s, []) else k tid ts

def handleSeq (s : DState) (t : String) (selArgs : List String) (stop passes : String) (impl : String) : DState × List String :=
  withTree s t fun _tid ts =>
    let sel : Option SeqSel :=
      match selArgs with
      | ["all"] => some .all
      | ["back"] => some .back
      | ["topk", n] => n.toNat?.map .topk
      | ["botk", n] => n.toNat?.map .botk
      | ["range", a, b] => do
        let a ← parseKey ts.kind a
        let b ← parseKey ts.kind b
        pure (.range a b)
      | ["rangeopen", a] => (parseKey ts.kind a).map .rangeOpen
      | ["prefix", p] => (parseHex p).map .pfx
      | _ => none
    match sel, stop.toNat?, passes.toNat? with
    | some sel, some stop, some passes =>
      -- several passes over one sequence value: abandoned passes (even) alternate with complete ones (odd)
      let stopOf := fun (i : Nat) => if i % 2 == 1 then 0 else stop
      let mAll := String.intercalate "|" ((List.range passes).map (fun i => renderItems (modelSeq ts sel (stopOf i))))
      let spAll := String.intercalate "|" ((List.range passes).map (fun i => renderItems (specSeq ts sel (stopOf i))))
      if impl != spAll then diff s "SPEC" s!"impl={impl} spec={spAll}"
      else if impl != mAll then diff s "MODEL" s!"impl={impl} model={mAll}"
      else (s, [])
    | _, _, _ => diff s "PROTO" "bad seq arguments"

def step (s : DState) (line : String) : DState × List String :=
  let s := { s with lineno := s.lineno + 1 }
  match line.splitOn " => " with
  | [cmd, impl] =>
    let s := { s with ops := s.ops + 1 }
    match cmd.splitOn " " with
    | "assert" :: _ =>
      if impl == "ok" then (s, []) else diff s "SPEC" s!"{cmd}: {impl}"
    | "nestseq" :: t :: selArgs =>
      -- one sequence value ranged over again from inside its own loop body: two complete passes
      handleSeq s t selArgs "0" "2" impl
    | "selfseq" :: t :: _ =>
      -- a sequence judged against itself by the harness (complete passes agree, abandoned passes are their start)
      withTree s t fun _ _ => if impl == "ok" then (s, []) else diff s "SPEC" s!"{cmd}: {impl}"
    | ["check15", _] => (s, [])
    | "new" :: t :: kargs =>
      match t.toNat?, parseKind kargs with
      | some tid, some kind => (setTree s tid { kind := kind }, [])
      | _, _ => diff s "PROTO" "bad new"
    | ["ins", t, key, val] =>
      withTree s t fun tid ts =>
        match parseKey ts.kind key, val.toNat? with
        | some kr, some v =>
          if impl == "PANIC" then
            let (s, o) := diff s "SPEC" s!"Insert panicked"
            (setTree s tid { ts with dead := true }, o)
          else
            let ts := { ts with model := ts.model.insert kr.tk kr.k v, rmodel := ts.rmodel.insert kr.tk kr.k v, spec := ts.spec.insert kr.sk v }
            (setTree s tid ts, [])
        | _, _ => diff s "PROTO" "bad ins"
    | ["del", t, key] =>
      withTree s t fun tid ts =>
        match parseKey ts.kind key with
        | some kr =>
          let (m', mr) := ts.model.delete kr.tk kr.k
          let (sp', sr) := ts.spec.erase kr.sk
          let ts' := { ts with model := m', rmodel := (ts.rmodel.delete kr.tk kr.k).1, spec := sp' }
          let s := setTree s tid ts'
          let r := fun (b : Bool) => if b then "1" else "0"
          if impl == "PANIC" then
            let (s, o) := diff s "SPEC" s!"Delete panicked"
            (setTree s tid { ts' with dead := true }, o)
          else if impl != r sr then diff s "SPEC" s!"impl={impl} spec={r sr}"
          else if impl != r mr then diff s "MODEL" s!"impl={impl} model={r mr}"
          else (s, [])
        | none => diff s "PROTO" "bad del"
    | ["get", t, key] =>
      withTree s t fun tid ts =>
        match parseKey ts.kind key with
        | some kr =>
          let r := fun (o : Option Nat) => match o with | some v => toString v | none => "-"
          let mr := r (ts.model.search kr.tk kr.k)
          let sr := r (ts.spec.find kr.sk)
          if impl == "PANIC" then
            let (s, o) := diff s "SPEC" s!"Search panicked"
            (setTree s tid { ts with dead := true }, o)
          else if impl != sr then diff s "SPEC" s!"impl={impl} spec={sr}"
          else if impl != mr then diff s "MODEL" s!"impl={impl} model={mr}"
          else (s, [])
        | none => diff s "PROTO" "bad get"
    | ["dump", t] =>
      withTree s t fun _ ts =>
        let s := { s with dumps := s.dumps + 1 }
        if impl == "E" then
          match ts.model.root with
          | none => (s, [])
          | some r => diff s "MODEL" s!"impl=E model={renderT r}"
        else
          match parseRT (impl.splitOn " ") with
          | some (rt, []) =>
            match absRT "" s.stats rt with
            | .error e => diff s "INV" e
            | .ok (t, st) =>
              let s := { s with stats := st }
              match ts.model.root with
              | none => diff s "MODEL" s!"impl={renderT t} model=E"
              | some r =>
                let a := renderT t
                let b := renderT r
                if a != b then diff s "MODEL" s!"impl={a} model={b}"
                else
                  -- the tree of raw node records, field by field (stale lanes, stale prefix bytes, slot occupancy, slot
                  -- placement): the model the C11RawTree / C0xRaw theorems are about against the real structure
                  match ts.rmodel.root with
                  | none => diff s "MODEL" "raw-node model is empty, the real tree is not"
                  | some rr =>
                    let rm := renderModelRT rr
                    if rm != impl then diff s "MODEL" s!"raw-node model differs from the real structure at {firstTokenDiff impl rm}"
                    else ({ s with rawDumps := s.rawDumps + 1 }, [])
          | _ => diff s "INV" "the dump of the real tree cannot be read back as a tree"
    | [mm, t] =>
      if mm == "min" || mm == "max" then
        withTree s t fun _ ts =>
          let m := if mm == "min" then ts.model.minimum else ts.model.maximum
          let mr := match m with | some (k, _, v) => s!"{restoreLit ts.kind k}:{v}" | none => "-"
          let sp := if mm == "min" then ts.spec.head? else ts.spec.getLast?
          let sr := match sp with | some (k, v) => s!"{k.id}:{v}" | none => "-"
          if impl != sr then diff s "SPEC" s!"impl={impl} spec={sr}"
          else if impl != mr then diff s "MODEL" s!"impl={impl} model={mr}"
          else (s, [])
      else if mm == "size" then
        withTree s t fun _ ts =>
          let s := { s with maxSize := max s.maxSize ts.spec.length }
          let sr := toString ts.spec.length
          let mr := toString ts.model.size
          if impl != sr then diff s "SPEC" s!"impl={impl} spec={sr}"
          else if impl != mr then diff s "MODEL" s!"impl={impl} model={mr}"
          else (s, [])
      else diff s "PROTO" s!"unknown op {mm}"
    | "seq" :: t :: rest =>
      match rest.reverse with
      | passes :: stop :: selRev => handleSeq s t selRev.reverse stop passes impl
      | _ => diff s "PROTO" "bad seq"
    -- bare nodes ---------------------------------------------------------------------------
    | ["bn", "new", id, plen, pfx] =>
      match id.toNat?, plen.toNat?, parseHex pfx with
      | some id, some plen, some pfx =>
        let r : Raw Nat := .n4 { plen := plen, pfx := pfx } 0 0#32 (List.replicate 4 none)
        ({ s with bares := (id, { raw := r }) :: s.bares.filter (·.1 != id) }, [])
      | _, _, _ => diff s "PROTO" "bad bn new"
    | "bn" :: op :: id :: rest =>
      let s := { s with bareOps := s.bareOps + 1 }
      if impl == "PANIC" then diff s "SPEC" s!"node operation {op} panicked" else
      match id.toNat?.bind (fun id => (s.bares.find? (·.1 == id)).map (fun b => (id, b.2))) with
      | none => diff s "PROTO" "unknown bare node"
      | some (id, bs) =>
        let put (bs : BareState) (s : DState) : DState := { s with bares := (id, bs) :: s.bares.filter (·.1 != id) }
        let rendered (bs : BareState) : String := match bs.collapsed with | some c => c | none => renderRaw bs.raw
        match op, rest with
        | "addl", [b, cid] =>
          match parseByte b, cid.toNat? with
          | some b, some cid =>
            let bs := { bs with raw := bs.raw.add b cid }
            let s := put bs s
            if impl != rendered bs then diff s "MODEL" s!"impl={impl} model={rendered bs}" else (s, [])
          | _, _ => diff s "PROTO" "bad addl"
        | "addi", [b, cid, plen, pfx] =>
          match parseByte b, cid.toNat?, plen.toNat?, parseHex pfx with
          | some b, some cid, some plen, some pfx =>
            let bs := { bs with raw := bs.raw.add b cid, inner := (cid, { plen := plen, pfx := pfx }) :: bs.inner }
            let s := put bs s
            if impl != rendered bs then diff s "MODEL" s!"impl={impl} model={rendered bs}" else (s, [])
          | _, _, _, _ => diff s "PROTO" "bad addi"
        | "rm", [b] =>
          match parseByte b with
          | some b =>
            let bs := match bs.raw.remove b with
              | .node r => { bs with raw := r }
              | .collapse h b0 c =>
                match c with
                | none => { bs with collapsed := some "C nil" }
                | some cid =>
                  match bs.inner.find? (·.1 == cid) with
                  | some (_, ch) =>
                    let m := Raw.mergeHdr h b0 ch
                    { bs with collapsed := some s!"C {cid} inner {m.plen} {hexOfBytes m.pfx}" }
                  | none => { bs with collapsed := some s!"C {cid} leaf 0 -" }
            let s := put bs s
            if impl != rendered bs then diff s "MODEL" s!"impl={impl} model={rendered bs}" else (s, [])
          | none => diff s "PROTO" "bad rm"
        | "find", [b] =>
          match parseByte b with
          | some b =>
            let viaFind := match bs.raw.find b with | some c => toString c | none => "-"
            let viaAbs := match (bs.raw.abs.find? (·.1 == b)) with | some (_, c) => toString c | none => "-"
            if impl != viaAbs then diff s "SPEC" s!"find {b}: impl={impl} table={viaAbs}"
            else if impl != viaFind then diff s "MODEL" s!"find {b}: impl={impl} model={viaFind}"
            else (s, [])
          | none => diff s "PROTO" "bad find"
        | "enum", [dir] =>
          let l := bs.raw.abs.map (fun e => toString e.2)
          let l := if dir == "desc" then l.reverse else l
          let m := if l.isEmpty then "-" else String.intercalate "," l
          let sorted := Raw.strictAsc (bs.raw.abs.map (·.1))
          if !sorted then diff s "SPEC" s!"children not in ascending byte order"
          else if impl != m then diff s "MODEL" s!"enum: impl={impl} model={m}" else (s, [])
        | "min", [] | "max", [] =>
          -- one step of minimum()/maximum(): the child the real walk went through
          if bs.collapsed.isSome then (s, []) else
          let tbl := if op == "min" then bs.raw.abs.head? else bs.raw.abs.getLast?
          let viaAbs := match tbl with | some (_, c) => toString c | none => "-"
          let viaModel := match (if op == "min" then bs.raw.minChild else bs.raw.maxChild) with | some c => toString c | none => "-"
          if impl != viaAbs then diff s "SPEC" s!"{op}: impl={impl} table={viaAbs}"
          else if impl != viaModel then diff s "MODEL" s!"{op}: impl={impl} model={viaModel}"
          else (s, [])
        | "inv", [] =>
          if bs.collapsed.isNone && !bs.raw.inv && !(bs.raw.cls == 256 && (liveSlots bs.raw).length == 256) then diff s "INV" s!"raw invariant violated: {renderRaw bs.raw}" else (s, [])
        | _, _ => diff s "PROTO" s!"unknown bn op {op}"
    -- plain functions -----------------------------------------------------------------------
    | "fn" :: name :: args =>
      let s := { s with fnOps := s.fnOps + 1 }
      let res : Option String :=
        match name, args with
        | "search4", [k, b] => do
          let k ← parseHexNat k; let b ← parseByte b
          pure (intStr (Gen.searchNode4 (BitVec.ofNat 32 k) b.toBitVec))
        | "inspos4", [k, b] => do
          let k ← parseHexNat k; let b ← parseByte b
          pure (intStr (Gen.insertPosNode4 (BitVec.ofNat 32 k) b.toBitVec))
        | "getat", [k, p] => do
          let k ← parseHexNat k; let p ← p.toNat?
          pure (toString (Gen.getAtPos (BitVec.ofNat 32 k) p).toNat)
        | "setat", [k, p, b] => do
          let k ← parseHexNat k; let p ← p.toNat?; let b ← parseByte b
          pure (padHex 8 (Gen.setAtPos (BitVec.ofNat 32 k) p b.toBitVec).toNat)
        | "shl", [k, p] => do
          let k ← parseHexNat k; let p ← p.toNat?
          pure (padHex 8 (Gen.shiftLeftClear (BitVec.ofNat 32 k) p).toNat)
        | "shr", [k, p] => do
          let k ← parseHexNat k; let p ← p.toNat?
          pure (padHex 8 (Gen.shiftRightClear (BitVec.ofNat 32 k) p).toNat)
        | "search16", [k, n, b] => do
          let k ← parseHex k; let n ← n.toNat?; let b ← parseByte b
          pure (intStr (Raw.searchNode16 k n b))
        | "inspos16", [k, n, b] => do
          let k ← parseHex k; let n ← n.toNat?; let b ← parseByte b
          pure (intStr (Raw.insertPosNode16 k n b))
        | "enc", [t, bits] => do
          let t ← parseNumTy t; let bits ← parseHexNat bits
          pure (hexOfBytes (t.enc bits))
        | "dec", [t, bs] => do
          let t ← parseNumTy t; let bs ← parseHex bs
          pure (numLit t (t.dec bs))
        | "ordcmp", [t, a, b] => do
          -- "<declared order> <byte order of the encodings>"
          let t ← parseNumTy t; let a ← parseHexNat a; let b ← parseHexNat b
          let ra := t.rank a; let rb := t.rank b
          let ea := t.enc a; let eb := t.enc b
          let c1 := if ra < rb then "-1" else if rb < ra then "1" else "0"
          let c2 := if lexLt ea eb then "-1" else if lexLt eb ea then "1" else "0"
          pure s!"{c1} {c2}"
        | "rankcmp", [t, a, b] => do
          -- the declared order on two bit patterns: -1 / 0 / 1
          let t ← parseNumTy t; let a ← parseHexNat a; let b ← parseHexNat b
          let ra := t.rank a; let rb := t.rank b
          pure (if ra < rb then "-1" else if rb < ra then "1" else "0")
        | "enccmp", [t, a, b] => do
          let t ← parseNumTy t; let a ← parseHexNat a; let b ← parseHexNat b
          let ea := t.enc a; let eb := t.enc b
          pure (if lexLt ea eb then "-1" else if lexLt eb ea then "1" else "0")
        | _, _ => none
      match res with
      | none => diff s "PROTO" s!"bad fn {name}"
      | some r =>
        if name == "ordcmp" && (match impl.splitOn " " with | [d, e] => d != e | _ => true) then
          diff s "SPEC" s!"ordcmp {args}: declared order and byte order of the encodings differ: {impl}"
        else if r != impl then
          -- for the node16 routines the model IS the plain scalar scan over the occupied lanes (C10's own words)
          if name == "search16" || name == "inspos16" then diff s "SPEC" s!"{name} {args}: impl={impl} scalar-scan={r}"
          else diff s "MODEL" s!"{name} {args}: impl={impl} model={r}"
        else (s, [])
    | _ => diff s "PROTO" s!"unknown command {cmd}"
  | _ => if line.isEmpty || line.startsWith "#" then (s, []) else diff s "PROTO" "no output separator"

partial def loop (h : IO.FS.Stream) (out : IO.FS.Stream) (s : DState) : IO DState := do
  let line ← h.getLine
  if line.isEmpty then return s
  let line := (line.dropEndWhile (· == '\n')).toString
  let (s', outs) := step s line
  for o in outs do out.putStrLn o
  loop h out s'

def main : IO UInt32 := do
  let stdin ← IO.getStdin
  let stdout ← IO.getStdout
  let s ← loop stdin stdout {}
  let st := s.stats
  stdout.putStrLn s!"SUMMARY lines={s.lineno} ops={s.ops} diffs={s.diffs} dumps={s.dumps} rawdumps={s.rawDumps} maxsize={s.maxSize} n4={st.nodes4} n16={st.nodes16} n48={st.nodes48} n256={st.nodes256} longpaths={st.longPaths} full256={st.full256} leaves={st.leaves} bareops={s.bareOps} fnops={s.fnOps}"
  return (if s.diffs == 0 then 0 else 1)
