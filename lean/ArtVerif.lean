import ArtVerif.Model.Bytes
import ArtVerif.Model.Codec
import ArtVerif.Model.Raw
import ArtVerif.Model.Tree
import ArtVerif.Model.Iter
import ArtVerif.Model.Spec
