/-
  asmdrv: runs the instruction model (Model/Amd64.lean) on the routines regenerated from node16_amd64.s
  (Gen/Asm.lean) for every `fn search16` / `fn inspos16` line of a transcript written by the Go harness
  (which called the real routines), from a register file filled with junk derived from the inputs, and
  prints `DIFF <lineno> MODEL …` where the results differ.  This validates the reading of the
  instructions against the CPU the harness ran on.  Core-only; kept apart from the main driver so that a
  failure to regenerate Gen/Asm.lean affects nothing but the theorems about the assembly.
-/
import ArtVerif.Gen.Asm
open ArtVerif ArtVerif.Amd64

def hexVal (c : Char) : Option Nat :=
  if '0' ≤ c ∧ c ≤ '9' then some (c.toNat - '0'.toNat)
  else if 'a' ≤ c ∧ c ≤ 'f' then some (c.toNat - 'a'.toNat + 10)
  else if 'A' ≤ c ∧ c ≤ 'F' then some (c.toNat - 'A'.toNat + 10) else none

def parseHexBytes (s : String) : Option (List Nat) :=
  let rec go : List Char → List Nat → Option (List Nat)
    | [], acc => some acc.reverse
    | a :: b :: rest, acc => do go rest (((← hexVal a) * 16 + (← hexVal b)) :: acc)
    | _, _ => none
  go s.toList []

def junkState (seed : Nat) : St :=
  let g (i : Nat) : BitVec 64 := BitVec.ofNat 64 ((seed + i + 1) * 0x9E3779B97F4A7C15)
  let v (i : Nat) : BitVec 128 := BitVec.ofNat 128 ((seed + i + 1) * 0x9E3779B97F4A7C15F39CC0605CEDC835)
  ⟨g 0, g 1, g 2, g 3, g 4, g 5, g 6, g 7, g 8, g 9, g 10, g 11, g 12, g 13, v 0, v 1, v 2, v 3, seed % 2 == 0, g 14⟩

def signed64 (x : BitVec 64) : String := toString x.toInt

partial def loop (h : IO.FS.Stream) (lineno evals diffs : Nat) : IO (Nat × Nat) := do
  let line ← h.getLine
  if line.isEmpty then return (evals, diffs)
  let line := (line.dropEndWhile (· == '\n')).toString
  let lineno := lineno + 1
  match line.splitOn " => " with
  | [cmd, impl] =>
    match cmd.splitOn " " with
    | ["fn", name, k, n, b] =>
      if name == "search16" || name == "inspos16" then
        match parseHexBytes k, n.toNat?, b.toNat? with
        | some ks, some n, some b =>
          if ks.length == 16 && n ≤ 16 then
            -- lane i = bits 8i..8i+7
            let keys : BitVec 128 := BitVec.ofNat 128 ((ks.zipIdx.map fun (x, i) => x * 2 ^ (8 * i)).foldl (· + ·) 0)
            let fr : Frame := ⟨0x000000C000012340#64, keys, BitVec.ofNat 8 n, BitVec.ofNat 8 b⟩
            let prog := if name == "search16" then Gen.Asm.searchNode16 else Gen.Asm.insertPosNode16
            let r := match run prog fr (junkState (lineno + n + b)) with
              | some v => signed64 v
              | none => "STUCK"
            if r != impl then
              IO.println s!"DIFF {lineno} MODEL asm-model {name} {k} {n} {b}: impl={impl} instruction-model={r}"
              loop h lineno (evals + 1) (diffs + 1)
            else loop h lineno (evals + 1) diffs
          else loop h lineno evals diffs
        | _, _, _ => loop h lineno evals diffs
      else loop h lineno evals diffs
    | _ => loop h lineno evals diffs
  | _ => loop h lineno evals diffs

def main : IO Unit := do
  let (evals, diffs) ← loop (← IO.getStdin) 0 0 0
  IO.println s!"SUMMARY asmevals={evals} diffs={diffs}"
