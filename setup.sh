#!/bin/sh
# Build the framework from files on disk only (offline): translator, Lean project (model, proofs, driver),
# Go harness against /repo's working tree with the `verif` build tag.
set -e
cd "$(dirname "$0")"
export GOFLAGS=-mod=mod GOPROXY=off
unset GOSUMDB GOTOOLCHAIN || true
mkdir -p .work evidence replays
(cd tools/extract && go build -o ../../.work/extract .)
.work/extract -repo "${VERIF_REPO:-/repo}" -out lean/ArtVerif/Gen
cp "${VERIF_REPO:-/repo}/go.sum" harness/go.sum
(cd harness && go build -tags verif -o ../.work/artdrv .)
(cd lean && lake build ArtVerif driver tmplrender 2>&1 | grep -v -i "conda" | tail -5)
echo "setup done"
