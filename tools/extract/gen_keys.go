package main

// Keys.lean: a syntax-directed translation of the numeric codecs of keys.go
// (UnsignedBinaryKey, SignedBinaryKey, FloatBinaryKey; Transform and Restore)
// into word-level Lean definitions over BitVec.
//
// Each clause `case T:` of the type switch `switch any(k).(type)` becomes
//
//	def transform_T  (k : BitVec w) : BitVec m    -- the word handed to binary.BigEndian.PutUintM / the byte of []byte{e}
//	def transformLen_T : Nat                      -- the length of the slice that is made
//	def restore_T    (i : BitVec m) : BitVec w    -- from the word read by binary.BigEndian.UintM / b[0]
//	def restoreLen_T : Nat                        -- m / 8: the number of bytes read
//
// and a clause for uint / int, which must have the shape
// `if bits.UintSize == 32 { A } else { B }`, becomes two pairs (`_uint_32`,
// `_uint_64`).  Values of signed and floating-point types are represented by
// their bit patterns (BitVec w); `*(*T)(unsafe.Pointer(&x))` between types of
// equal size is therefore the identity, `float64(k)` is a *view* of k that
// may only be handed to math.IsInf / math.IsNaN (rendered as the IEEE
// predicates of ArtVerif.Model.Ieee on the bit pattern of k) or, when k is a
// float64 already, reinterpreted.  Nothing about any function body is
// hard-coded; whatever is outside this fragment is a hard error naming
// file:line.

import (
	"fmt"
	"go/ast"
	"go/constant"
	"go/token"
	"go/types"
	"math/big"
	"strings"
)

type kval struct {
	lean string
	w    int  // BitVec width; 0 for Bool
	bool bool // Bool-sorted
	// float view: `float64(k)` of a float key; base is the Lean name of the key, fw its width
	view bool
	fw   int
}

type kctx struct {
	w      *world
	caseW  int                   // width of the key type of this clause
	float  bool                  // clause is for a float type
	signed bool                  // clause is for a signed type
	tparam *types.TypeParam      // K
	env    map[types.Object]kval // local variables (and k)
	bvar   types.Object          // the []byte variable (Transform: result slice, Restore: parameter)
	// Transform results
	outLen  int
	outWord string
	outW    int
	// Restore: the width of the word read
	inW   int
	uSize int // 32 or 64 inside a bits.UintSize branch, 0 otherwise
}

func (c *kctx) fail(pos token.Pos, format string, args ...any) {
	c.w.failAt(pos, "keys.go translator: "+format, args...)
}

func basicWidth(t types.Type) (w int, signed, float, ok bool) {
	b, isb := t.Underlying().(*types.Basic)
	if !isb {
		return
	}
	switch b.Kind() {
	case types.Uint8:
		return 8, false, false, true
	case types.Uint16:
		return 16, false, false, true
	case types.Uint32:
		return 32, false, false, true
	case types.Uint64:
		return 64, false, false, true
	case types.Int8:
		return 8, true, false, true
	case types.Int16:
		return 16, true, false, true
	case types.Int32:
		return 32, true, false, true
	case types.Int64:
		return 64, true, false, true
	case types.Float32:
		return 32, false, true, true
	case types.Float64:
		return 64, false, true, true
	}
	return
}

// widthOf gives the BitVec width a value of type t has in this clause.
func (c *kctx) widthOf(t types.Type, pos token.Pos) int {
	if tp, ok := t.(*types.TypeParam); ok && tp == c.tparam {
		return c.caseW
	}
	if b, ok := t.Underlying().(*types.Basic); ok && (b.Kind() == types.Uint || b.Kind() == types.Int) {
		if c.uSize == 0 {
			c.fail(pos, "value of platform-sized type %s outside a bits.UintSize branch", t)
		}
		return c.uSize
	}
	if w, _, _, ok := basicWidth(t); ok {
		return w
	}
	c.fail(pos, "unsupported type %s", t)
	return 0
}

func (c *kctx) pkgCall(e *ast.CallExpr) (pkg, name string, ok bool) {
	sel, isSel := e.Fun.(*ast.SelectorExpr)
	if !isSel {
		return
	}
	// binary.BigEndian.PutUint32
	if inner, isSel2 := sel.X.(*ast.SelectorExpr); isSel2 {
		if pid, isId := inner.X.(*ast.Ident); isId {
			if pn, isPkg := c.w.info.Uses[pid].(*types.PkgName); isPkg {
				return pn.Imported().Path(), inner.Sel.Name + "." + sel.Sel.Name, true
			}
		}
		return
	}
	if pid, isId := sel.X.(*ast.Ident); isId {
		if pn, isPkg := c.w.info.Uses[pid].(*types.PkgName); isPkg {
			return pn.Imported().Path(), sel.Sel.Name, true
		}
	}
	return
}

func (c *kctx) constBig(e ast.Expr) (*big.Int, bool) {
	tv, ok := c.w.info.Types[e]
	if !ok || tv.Value == nil {
		return nil, false
	}
	iv := constant.ToInt(tv.Value)
	if iv.Kind() != constant.Int {
		return nil, false
	}
	switch x := constant.Val(iv).(type) {
	case int64:
		return big.NewInt(x), true
	case *big.Int:
		return new(big.Int).Set(x), true
	}
	return nil, false
}

func (c *kctx) lit(v *big.Int, w int, pos token.Pos) kval {
	if v.Sign() < 0 {
		// two's complement at width w
		m := new(big.Int).Lsh(big.NewInt(1), uint(w))
		v = new(big.Int).Add(m, v)
		if v.Sign() < 0 {
			c.fail(pos, "constant does not fit %d bits", w)
		}
	}
	if v.BitLen() > w {
		c.fail(pos, "constant %s does not fit %d bits", v, w)
	}
	return kval{lean: fmt.Sprintf("0x%s#%d", v.Text(16), w), w: w}
}

func (c *kctx) fmtName(w int, pos token.Pos) string {
	switch w {
	case 32:
		return "fmt32"
	case 64:
		return "fmt64"
	}
	c.fail(pos, "no IEEE format of width %d", w)
	return ""
}

// isReinterpret recognises *(*T)(unsafe.Pointer(&x)) and returns T and x.
func (c *kctx) isReinterpret(e ast.Expr) (types.Type, ast.Expr, bool) {
	st, ok := unparen(e).(*ast.StarExpr)
	if !ok {
		return nil, nil, false
	}
	call, ok := unparen(st.X).(*ast.CallExpr)
	if !ok || len(call.Args) != 1 {
		return nil, nil, false
	}
	tv, ok := c.w.info.Types[call.Fun]
	if !ok || !tv.IsType() {
		return nil, nil, false
	}
	ptr, ok := tv.Type.(*types.Pointer)
	if !ok {
		return nil, nil, false
	}
	inner, ok := unparen(call.Args[0]).(*ast.CallExpr)
	if !ok || len(inner.Args) != 1 {
		return nil, nil, false
	}
	itv, ok := c.w.info.Types[inner.Fun]
	if !ok || !itv.IsType() || !isUnsafePointer(itv.Type) {
		return nil, nil, false
	}
	addr, ok := unparen(inner.Args[0]).(*ast.UnaryExpr)
	if !ok || addr.Op != token.AND {
		return nil, nil, false
	}
	return ptr.Elem(), addr.X, true
}

func (c *kctx) expr(e ast.Expr) kval {
	e = unparen(e)
	if t, x, ok := c.isReinterpret(e); ok {
		v := c.expr(x)
		if v.bool {
			c.fail(e.Pos(), "reinterpretation of a bool")
		}
		if v.view {
			if v.fw != 64 {
				c.fail(e.Pos(), "bit pattern of float64(k) taken where k is a float%d: the conversion changes the bits", v.fw)
			}
			v = kval{lean: v.lean, w: 64}
		}
		tw := c.widthOf(t, e.Pos())
		if tw != v.w {
			c.fail(e.Pos(), "reinterpretation of a %d-bit value as %s (%d bits)", v.w, t, tw)
		}
		return v
	}
	// constants (typed by the checker, possibly after implicit conversion)
	if v, ok := c.constBig(e); ok {
		t := c.w.info.TypeOf(e)
		if b, isb := t.Underlying().(*types.Basic); isb && b.Info()&types.IsUntyped != 0 {
			c.fail(e.Pos(), "untyped constant %s in a position without a fixed width", v)
		}
		return c.lit(v, c.widthOf(t, e.Pos()), e.Pos())
	}
	switch e := e.(type) {
	case *ast.Ident:
		obj := c.w.info.Uses[e]
		if v, ok := c.env[obj]; ok {
			return v
		}
		c.fail(e.Pos(), "unsupported reference to %s", e.Name)

	case *ast.IndexExpr:
		// b[0] in Restore
		if id, ok := unparen(e.X).(*ast.Ident); ok && c.w.info.Uses[id] == c.bvar && c.bvar != nil {
			if iv, ok := c.constBig(e.Index); ok && iv.Sign() == 0 {
				if c.inW != 0 && c.inW != 8 {
					c.fail(e.Pos(), "b[0] read next to a %d-bit big-endian read", c.inW)
				}
				c.inW = 8
				return kval{lean: "i₀", w: 8}
			}
		}
		c.fail(e.Pos(), "unsupported index expression")

	case *ast.UnaryExpr:
		x := c.expr(e.X)
		switch {
		case e.Op == token.XOR && !x.bool && !x.view:
			return kval{lean: "(~~~ " + x.lean + ")", w: x.w}
		case e.Op == token.SUB && !x.bool && !x.view:
			return kval{lean: "(- " + x.lean + ")", w: x.w}
		case e.Op == token.NOT && x.bool:
			return kval{lean: "(!" + x.lean + ")", bool: true}
		}
		c.fail(e.Pos(), "unsupported unary operator %s", e.Op)

	case *ast.BinaryExpr:
		return c.binary(e.OpPos, e.Op, c.expr(e.X), e.X, e.Y)

	case *ast.CallExpr:
		return c.call(e)
	}
	c.fail(e.Pos(), "unsupported expression %T", e)
	panic("unreachable")
}

func (c *kctx) binary(pos token.Pos, op token.Token, x kval, xe ast.Expr, y ast.Expr) kval {
	if x.view {
		c.fail(pos, "arithmetic or comparison on a floating-point value (only math.IsInf / math.IsNaN are supported)")
	}
	switch op {
	case token.SHL, token.SHR:
		if x.bool {
			c.fail(pos, "shift of a bool")
		}
		if op == token.SHR && xe != nil {
			if _, s, _, ok := basicWidth(c.w.info.TypeOf(xe)); ok && s {
				c.fail(pos, "unsupported arithmetic shift of a signed value")
			}
		}
		n, ok := c.constBig(y)
		if !ok || n.Sign() < 0 {
			c.fail(pos, "unsupported non-constant shift count")
		}
		sym := "<<<"
		if op == token.SHR {
			sym = ">>>"
		}
		return kval{lean: fmt.Sprintf("(%s %s %s)", x.lean, sym, n.String()), w: x.w}
	}
	yv := c.expr(y)
	if yv.view {
		c.fail(pos, "arithmetic or comparison on a floating-point value")
	}
	if x.bool != yv.bool || x.w != yv.w {
		c.fail(pos, "operands of %s have different widths (%d, %d)", op, x.w, yv.w)
	}
	switch op {
	case token.AND, token.OR, token.XOR, token.ADD, token.SUB, token.MUL:
		if !x.bool {
			return kval{lean: "(" + x.lean + " " + binOps[op] + " " + yv.lean + ")", w: x.w}
		}
	case token.AND_NOT:
		if !x.bool {
			return kval{lean: "(" + x.lean + " &&& (~~~ " + yv.lean + "))", w: x.w}
		}
	case token.EQL:
		return kval{lean: "(" + x.lean + " == " + yv.lean + ")", bool: true}
	case token.NEQ:
		return kval{lean: "(" + x.lean + " != " + yv.lean + ")", bool: true}
	case token.LSS, token.LEQ, token.GTR, token.GEQ:
		if !x.bool && xe != nil {
			_, s, f, ok := basicWidth(c.w.info.TypeOf(xe))
			if tp, isTP := c.w.info.TypeOf(xe).(*types.TypeParam); isTP && tp == c.tparam {
				s, f, ok = c.signed, c.float, true
			}
			if ok && !f {
				fn := map[token.Token][2]string{
					token.LSS: {"BitVec.ult", "BitVec.slt"}, token.LEQ: {"BitVec.ule", "BitVec.sle"},
				}
				a, b := x.lean, yv.lean
				o := op
				if op == token.GTR {
					a, b, o = b, a, token.LSS
				} else if op == token.GEQ {
					a, b, o = b, a, token.LEQ
				}
				name := fn[o][0]
				if s {
					name = fn[o][1]
				}
				return kval{lean: "(" + name + " " + a + " " + b + ")", bool: true}
			}
		}
	case token.LAND, token.LOR:
		if x.bool {
			return kval{lean: "(" + x.lean + " " + op.String() + " " + yv.lean + ")", bool: true}
		}
	}
	c.fail(pos, "unsupported binary operator %s", op)
	panic("unreachable")
}

func (c *kctx) call(e *ast.CallExpr) kval {
	// conversions
	if tv, ok := c.w.info.Types[e.Fun]; ok && tv.IsType() {
		if len(e.Args) != 1 {
			c.fail(e.Pos(), "malformed conversion")
		}
		to := tv.Type
		arg := unparen(e.Args[0])
		_, _, toFloat, toBasic := basicWidth(to)
		if tp, isTP := to.(*types.TypeParam); isTP && tp == c.tparam {
			toFloat, toBasic = c.float, true
		}
		// K(math.Inf(±1)), K(math.NaN()), float constants
		if toFloat {
			if call, isCall := arg.(*ast.CallExpr); isCall {
				if pkg, name, ok := c.pkgCall(call); ok && pkg == "math" {
					tw := c.widthOf(to, e.Pos())
					f := c.fmtName(tw, e.Pos())
					switch name {
					case "Inf":
						s, ok := c.constBig(call.Args[0])
						if !ok {
							c.fail(call.Pos(), "math.Inf with a non-constant sign")
						}
						if s.Sign() >= 0 {
							return kval{lean: f + ".posInf", w: tw}
						}
						return kval{lean: f + ".negInf", w: tw}
					case "NaN":
						return kval{lean: f + ".canonNaN", w: tw}
					}
				}
			}
			if tvA, ok := c.w.info.Types[arg]; ok && tvA.Value != nil {
				if constant.Sign(tvA.Value) == 0 && tvA.Value.Kind() != constant.Float || (tvA.Value.Kind() == constant.Float && constant.Sign(tvA.Value) == 0) {
					// the constant 0 converted to a float type is +0: all bits clear
					return kval{lean: fmt.Sprintf("0x0#%d", c.widthOf(to, e.Pos())), w: c.widthOf(to, e.Pos())}
				}
				c.fail(e.Pos(), "unsupported floating-point constant")
			}
			// float64(k): a view of the float key
			x := c.expr(arg)
			if x.view {
				return x
			}
			srcT := c.w.info.TypeOf(arg)
			srcFloat := false
			if tp, isTP := srcT.(*types.TypeParam); isTP && tp == c.tparam {
				srcFloat = c.float
			} else if _, _, f, ok := basicWidth(srcT); ok {
				srcFloat = f
			}
			if !srcFloat {
				c.fail(e.Pos(), "unsupported integer to floating-point conversion")
			}
			tw := c.widthOf(to, e.Pos())
			if tw < x.w {
				c.fail(e.Pos(), "unsupported narrowing floating-point conversion")
			}
			if tw == x.w {
				return x // same format: same bits
			}
			return kval{lean: x.lean, view: true, fw: x.w}
		}
		if !toBasic {
			c.fail(e.Pos(), "unsupported conversion to %s", to)
		}
		x := c.expr(arg)
		if x.bool {
			c.fail(e.Pos(), "conversion of a bool")
		}
		if x.view {
			c.fail(e.Pos(), "unsupported floating-point to integer conversion")
		}
		srcT := c.w.info.TypeOf(arg)
		srcSigned := false
		if tp, isTP := srcT.(*types.TypeParam); isTP && tp == c.tparam {
			srcSigned = c.signed
			if c.float {
				c.fail(e.Pos(), "unsupported floating-point to integer conversion")
			}
		} else if _, s, f, ok := basicWidth(srcT); ok {
			srcSigned = s
			if f {
				c.fail(e.Pos(), "unsupported floating-point to integer conversion")
			}
		} else if b, isb := srcT.Underlying().(*types.Basic); isb && b.Kind() == types.Int {
			srcSigned = true
		}
		tw := c.widthOf(to, e.Pos())
		switch {
		case tw == x.w:
			return kval{lean: x.lean, w: tw}
		case tw < x.w:
			return kval{lean: fmt.Sprintf("(BitVec.setWidth %d %s)", tw, x.lean), w: tw}
		case srcSigned:
			return kval{lean: fmt.Sprintf("(BitVec.signExtend %d %s)", tw, x.lean), w: tw}
		default:
			return kval{lean: fmt.Sprintf("(BitVec.setWidth %d %s)", tw, x.lean), w: tw}
		}
	}
	if pkg, name, ok := c.pkgCall(e); ok {
		switch {
		case pkg == "math" && name == "IsInf" && len(e.Args) == 2:
			x := c.expr(e.Args[0])
			s, okc := c.constBig(e.Args[1])
			if !okc {
				c.fail(e.Pos(), "math.IsInf with a non-constant sign")
			}
			w := x.w
			if x.view {
				w = x.fw
			}
			f := c.fmtName(w, e.Pos())
			switch s.Sign() {
			case 1:
				return kval{lean: "(" + x.lean + " == " + f + ".posInf)", bool: true}
			case -1:
				return kval{lean: "(" + x.lean + " == " + f + ".negInf)", bool: true}
			default:
				return kval{lean: "(" + x.lean + " == " + f + ".posInf || " + x.lean + " == " + f + ".negInf)", bool: true}
			}
		case pkg == "math" && name == "IsNaN" && len(e.Args) == 1:
			x := c.expr(e.Args[0])
			w := x.w
			if x.view {
				w = x.fw
			}
			return kval{lean: "(" + c.fmtName(w, e.Pos()) + ".isNaN " + x.lean + ")", bool: true}
		case pkg == "encoding/binary" && strings.HasPrefix(name, "BigEndian.Uint") && len(e.Args) == 1:
			var m int
			fmt.Sscanf(strings.TrimPrefix(name, "BigEndian.Uint"), "%d", &m)
			if id, ok := unparen(e.Args[0]).(*ast.Ident); !ok || c.bvar == nil || c.w.info.Uses[id] != c.bvar {
				c.fail(e.Pos(), "big-endian read of something other than the byte-slice parameter")
			}
			if m != 16 && m != 32 && m != 64 {
				c.fail(e.Pos(), "unsupported %s", name)
			}
			if c.inW != 0 && c.inW != m {
				c.fail(e.Pos(), "reads of different widths (%d, %d) in one clause", c.inW, m)
			}
			c.inW = m
			return kval{lean: "i₀", w: m}
		}
	}
	c.fail(e.Pos(), "unsupported call to %s", types.ExprString(e.Fun))
	panic("unreachable")
}

// ---------------------------------------------------------------------------
// Statements.  A block is rendered as a Lean term; `cont` renders what follows
// the block (the rest of the enclosing statement list).
// ---------------------------------------------------------------------------

func indent(s, by string) string {
	return by + strings.ReplaceAll(s, "\n", "\n"+by)
}

func (c *kctx) localVar(id *ast.Ident) types.Object {
	obj := c.w.info.Defs[id]
	if obj == nil {
		obj = c.w.info.Uses[id]
	}
	if obj == nil {
		c.fail(id.Pos(), "unresolved identifier %s", id.Name)
	}
	return obj
}

// assignedOuter lists the variables assigned in stmts that are not declared inside it.
func (c *kctx) assignedOuter(n ast.Node) []types.Object {
	declared := map[types.Object]bool{}
	var out []types.Object
	seen := map[types.Object]bool{}
	ast.Inspect(n, func(x ast.Node) bool {
		switch s := x.(type) {
		case *ast.AssignStmt:
			for _, l := range s.Lhs {
				if id, ok := l.(*ast.Ident); ok {
					if s.Tok == token.DEFINE && c.w.info.Defs[id] != nil {
						declared[c.w.info.Defs[id]] = true
						continue
					}
					obj := c.w.info.Uses[id]
					if obj != nil && !declared[obj] && !seen[obj] {
						seen[obj] = true
						out = append(out, obj)
					}
				}
			}
		case *ast.DeclStmt:
			if gd, ok := s.Decl.(*ast.GenDecl); ok {
				for _, sp := range gd.Specs {
					if vs, ok := sp.(*ast.ValueSpec); ok {
						for _, id := range vs.Names {
							declared[c.w.info.Defs[id]] = true
						}
					}
				}
			}
		}
		return true
	})
	return out
}

func allReturn(ifs *ast.IfStmt) bool {
	if len(ifs.Body.List) == 0 {
		return false
	}
	if _, ok := ifs.Body.List[len(ifs.Body.List)-1].(*ast.ReturnStmt); !ok {
		return false
	}
	switch el := ifs.Else.(type) {
	case nil:
		return true
	case *ast.IfStmt:
		return allReturn(el)
	case *ast.BlockStmt:
		if len(el.List) == 0 {
			return false
		}
		_, ok := el.List[len(el.List)-1].(*ast.ReturnStmt)
		return ok
	}
	return false
}

// stmts renders stmts followed by `final()` (called with the environment as it is at that point).
func (c *kctx) stmts(list []ast.Stmt, final func() string) string {
	if len(list) == 0 {
		return final()
	}
	st, rest := list[0], list[1:]
	switch s := st.(type) {
	case *ast.DeclStmt:
		gd, ok := s.Decl.(*ast.GenDecl)
		if !ok || gd.Tok != token.VAR {
			c.fail(s.Pos(), "unsupported declaration")
		}
		var lines []string
		for _, sp := range gd.Specs {
			vs := sp.(*ast.ValueSpec)
			if len(vs.Values) != 0 {
				c.fail(vs.Pos(), "unsupported var declaration with initialiser")
			}
			for _, id := range vs.Names {
				obj := c.w.info.Defs[id]
				t := obj.Type()
				if tp, isTP := t.(*types.TypeParam); isTP && tp == c.tparam {
					// `var k K` only feeds the type switch
					continue
				}
				if sl, isSl := t.Underlying().(*types.Slice); isSl {
					if b, okb := sl.Elem().Underlying().(*types.Basic); okb && b.Kind() == types.Uint8 {
						c.bvar = obj
						continue
					}
				}
				w := c.widthOf(t, id.Pos())
				c.env[obj] = kval{lean: id.Name, w: w}
				lines = append(lines, fmt.Sprintf("let %s : BitVec %d := 0x0#%d", id.Name, w, w))
			}
		}
		r := c.stmts(rest, final)
		if len(lines) == 0 {
			return r
		}
		return strings.Join(lines, "\n") + "\n" + r

	case *ast.AssignStmt:
		if len(s.Lhs) != 1 || len(s.Rhs) != 1 {
			c.fail(s.Pos(), "unsupported multiple assignment")
		}
		id, ok := s.Lhs[0].(*ast.Ident)
		if !ok {
			c.fail(s.Pos(), "unsupported assignment target")
		}
		obj := c.localVar(id)
		// b = make([]byte, N)  /  b = []byte{e}
		if obj == c.bvar && c.bvar != nil {
			if s.Tok != token.ASSIGN {
				c.fail(s.Pos(), "unsupported update of the result slice")
			}
			switch r := unparen(s.Rhs[0]).(type) {
			case *ast.CallExpr:
				if fid, ok := r.Fun.(*ast.Ident); ok && fid.Name == "make" && len(r.Args) == 2 {
					n, okn := c.constBig(r.Args[1])
					if !okn {
						c.fail(r.Pos(), "make with a non-constant length")
					}
					if c.outLen != 0 {
						c.fail(r.Pos(), "result slice made twice")
					}
					c.outLen = int(n.Int64())
					return c.stmts(rest, final)
				}
			case *ast.CompositeLit:
				if len(r.Elts) == 1 {
					v := c.expr(r.Elts[0])
					if v.bool || v.view || v.w != 8 {
						c.fail(r.Pos(), "element of the byte slice literal is not a byte")
					}
					if c.outLen != 0 || c.outWord != "" {
						c.fail(r.Pos(), "result slice made twice")
					}
					c.outLen, c.outWord, c.outW = 1, v.lean, 8
					return c.stmts(rest, final)
				}
			}
			c.fail(s.Pos(), "unsupported value for the result slice")
		}
		var v kval
		switch s.Tok {
		case token.DEFINE, token.ASSIGN:
			v = c.expr(s.Rhs[0])
		default:
			op, ok := assignOps[s.Tok]
			if !ok {
				c.fail(s.TokPos, "unsupported assignment operator %s", s.Tok)
			}
			cur, okc := c.env[obj]
			if !okc {
				c.fail(s.Pos(), "update of an unknown variable %s", id.Name)
			}
			v = c.binary(s.TokPos, op, cur, id, s.Rhs[0])
		}
		if s.Tok != token.DEFINE {
			if cur, okc := c.env[obj]; okc && (cur.w != v.w || cur.bool != v.bool || cur.view != v.view) {
				c.fail(s.Pos(), "assignment changes the width of %s", id.Name)
			}
		}
		if v.view {
			c.env[obj] = v // a view is an alias: no let
			return c.stmts(rest, final)
		}
		sort := fmt.Sprintf("BitVec %d", v.w)
		if v.bool {
			sort = "Bool"
		}
		c.env[obj] = kval{lean: id.Name, w: v.w, bool: v.bool}
		return fmt.Sprintf("let %s : %s := %s\n", id.Name, sort, v.lean) + c.stmts(rest, final)

	case *ast.ExprStmt:
		call, ok := s.X.(*ast.CallExpr)
		if ok {
			if pkg, name, okp := c.pkgCall(call); okp && pkg == "encoding/binary" && strings.HasPrefix(name, "BigEndian.PutUint") && len(call.Args) == 2 {
				var m int
				fmt.Sscanf(strings.TrimPrefix(name, "BigEndian.PutUint"), "%d", &m)
				if id, okb := unparen(call.Args[0]).(*ast.Ident); !okb || c.bvar == nil || c.w.info.Uses[id] != c.bvar {
					c.fail(call.Pos(), "big-endian write into something other than the result slice")
				}
				v := c.expr(call.Args[1])
				if v.bool || v.view || v.w != m {
					c.fail(call.Pos(), "%s applied to a %d-bit value", name, v.w)
				}
				if c.outWord != "" {
					c.fail(call.Pos(), "result slice written twice")
				}
				if c.outLen*8 != m {
					c.fail(call.Pos(), "%s into a slice of length %d", name, c.outLen)
				}
				c.outWord, c.outW = v.lean, m
				return c.stmts(rest, final)
			}
		}
		c.fail(s.Pos(), "unsupported expression statement")

	case *ast.ReturnStmt:
		if len(rest) != 0 {
			c.fail(rest[0].Pos(), "statement after return")
		}
		return c.ret(s)

	case *ast.IfStmt:
		if s.Init != nil {
			c.fail(s.Pos(), "unsupported if with init clause")
		}
		// bits.UintSize == 32 is handled by the caller (clause level)
		if allReturn(s) {
			return c.ifReturn(s, func() string { return c.stmts(rest, final) })
		}
		outer := c.assignedOuter(s)
		if len(outer) != 1 {
			c.fail(s.Pos(), "unsupported if statement: its branches assign %d outer variables (exactly one is supported)", len(outer))
		}
		target := outer[0]
		cur, ok := c.env[target]
		if !ok || cur.bool || cur.view {
			c.fail(s.Pos(), "unsupported if statement: target variable %s", target.Name())
		}
		body := c.ifAssign(s, target)
		c.env[target] = kval{lean: target.Name(), w: cur.w}
		return fmt.Sprintf("let %s : BitVec %d :=\n%s\n", target.Name(), cur.w, indent(body, "  ")) + c.stmts(rest, final)
	}
	c.fail(st.Pos(), "unsupported statement %T", st)
	panic("unreachable")
}

func (c *kctx) saveEnv() map[types.Object]kval {
	m := make(map[types.Object]kval, len(c.env))
	for k, v := range c.env {
		m[k] = v
	}
	return m
}

func (c *kctx) cond(e ast.Expr) string {
	v := c.expr(e)
	if !v.bool {
		c.fail(e.Pos(), "condition is not a bool")
	}
	return v.lean
}

// ifAssign renders an if/else-if/else chain whose branches assign `target` as a term of target's sort.
func (c *kctx) ifAssign(s *ast.IfStmt, target types.Object) string {
	cond := c.cond(s.Cond)
	saved := c.saveEnv()
	thenT := c.stmts(s.Body.List, func() string { return c.env[target].lean })
	c.env = saved
	var elseT string
	switch el := s.Else.(type) {
	case nil:
		elseT = c.env[target].lean
	case *ast.IfStmt:
		saved2 := c.saveEnv()
		elseT = c.ifAssign(el, target)
		c.env = saved2
	case *ast.BlockStmt:
		saved2 := c.saveEnv()
		elseT = c.stmts(el.List, func() string { return c.env[target].lean })
		c.env = saved2
	}
	return "if " + cond + " then\n" + indent(thenT, "  ") + "\nelse\n" + indent(elseT, "  ")
}

// ifReturn renders a chain all of whose branches return; a missing final else continues with `rest`.
func (c *kctx) ifReturn(s *ast.IfStmt, rest func() string) string {
	cond := c.cond(s.Cond)
	saved := c.saveEnv()
	thenT := c.stmts(s.Body.List, func() string { c.fail(s.Body.Rbrace, "branch does not return"); return "" })
	c.env = saved
	var elseT string
	switch el := s.Else.(type) {
	case nil:
		elseT = rest()
	case *ast.IfStmt:
		elseT = c.ifReturn(el, rest)
	case *ast.BlockStmt:
		saved2 := c.saveEnv()
		elseT = c.stmts(el.List, func() string { c.fail(el.Rbrace, "branch does not return"); return "" })
		c.env = saved2
	}
	return "if " + cond + " then\n" + indent(thenT, "  ") + "\nelse\n" + indent(elseT, "  ")
}

// ret: only Restore's clauses return from inside the switch: one value of type K.
func (c *kctx) ret(s *ast.ReturnStmt) string {
	if len(s.Results) != 1 {
		c.fail(s.Pos(), "unsupported return with %d values inside a clause", len(s.Results))
	}
	v := c.expr(s.Results[0])
	if v.bool || v.view || v.w != c.caseW {
		c.fail(s.Pos(), "returned value is not a %d-bit pattern", c.caseW)
	}
	return v.lean
}

// ---------------------------------------------------------------------------
// Clauses and methods
// ---------------------------------------------------------------------------

type keyMethod struct {
	recv, name string
	decl       *ast.FuncDecl
}

func (w *world) findKeyMethod(recv, name string) *ast.FuncDecl {
	var found *ast.FuncDecl
	for _, f := range w.art.Syntax {
		for _, d := range f.Decls {
			fd, ok := d.(*ast.FuncDecl)
			if !ok || fd.Recv == nil || fd.Name.Name != name || w.recvBase(fd) != recv {
				continue
			}
			if found != nil {
				w.failAt(fd.Pos(), "method %s.%s declared twice", recv, name)
			}
			found = fd
		}
	}
	if found == nil || found.Body == nil {
		failf("keys.go translator: method %s.%s not found", recv, name)
	}
	return found
}

func (w *world) recvTypeParam(fd *ast.FuncDecl) *types.TypeParam {
	obj := w.info.Defs[fd.Name]
	sig := obj.Type().(*types.Signature)
	tps := sig.RecvTypeParams()
	if tps == nil || tps.Len() != 1 {
		w.failAt(fd.Pos(), "keys.go translator: receiver of %s does not have exactly one type parameter", fd.Name.Name)
	}
	return tps.At(0)
}

// isUintSizeTest recognises `bits.UintSize == 32`.
func (c *kctx) isUintSizeTest(e ast.Expr) bool {
	be, ok := unparen(e).(*ast.BinaryExpr)
	if !ok || be.Op != token.EQL {
		return false
	}
	sel, ok := unparen(be.X).(*ast.SelectorExpr)
	if !ok || sel.Sel.Name != "UintSize" {
		return false
	}
	pid, ok := sel.X.(*ast.Ident)
	if !ok {
		return false
	}
	pn, ok := c.w.info.Uses[pid].(*types.PkgName)
	if !ok || pn.Imported().Path() != "math/bits" {
		return false
	}
	lit, ok := unparen(be.Y).(*ast.BasicLit)
	return ok && lit.Value == "32"
}

func (w *world) genKeyMethod(recv string, transform bool, out *[]string) {
	name := "Restore"
	if transform {
		name = "Transform"
	}
	fd := w.findKeyMethod(recv, name)
	tparam := w.recvTypeParam(fd)
	if len(fd.Type.Params.List) != 1 || len(fd.Type.Params.List[0].Names) != 1 {
		w.failAt(fd.Pos(), "keys.go translator: %s.%s must have exactly one named parameter", recv, name)
	}
	param := w.info.Defs[fd.Type.Params.List[0].Names[0]]

	// the body: declarations, one type switch, and (Transform) `return b, b`
	var sw *ast.TypeSwitchStmt
	var pre []ast.Stmt
	for i, st := range fd.Body.List {
		if ts, ok := st.(*ast.TypeSwitchStmt); ok {
			sw = ts
			pre = fd.Body.List[:i]
			post := fd.Body.List[i+1:]
			if transform {
				if len(post) != 1 {
					w.failAt(fd.Pos(), "keys.go translator: %s.%s: expected exactly `return b, b` after the type switch", recv, name)
				}
				r, ok := post[0].(*ast.ReturnStmt)
				if !ok || len(r.Results) != 2 {
					w.failAt(post[0].Pos(), "keys.go translator: expected `return b, b`")
				}
				a, ok1 := unparen(r.Results[0]).(*ast.Ident)
				b, ok2 := unparen(r.Results[1]).(*ast.Ident)
				if !ok1 || !ok2 || w.info.Uses[a] != w.info.Uses[b] {
					w.failAt(r.Pos(), "keys.go translator: Transform must return the same slice twice")
				}
			} else if len(post) != 0 {
				w.failAt(post[0].Pos(), "keys.go translator: statements after the type switch of Restore")
			}
			break
		}
	}
	if sw == nil {
		w.failAt(fd.Pos(), "keys.go translator: %s.%s has no type switch", recv, name)
	}
	// switch any(k).(type)
	{
		es, ok := sw.Assign.(*ast.ExprStmt)
		if !ok || sw.Init != nil {
			w.failAt(sw.Pos(), "keys.go translator: unsupported type switch header")
		}
		ta, ok := es.X.(*ast.TypeAssertExpr)
		if !ok || ta.Type != nil {
			w.failAt(sw.Pos(), "keys.go translator: unsupported type switch header")
		}
		call, ok := unparen(ta.X).(*ast.CallExpr)
		if !ok || len(call.Args) != 1 {
			w.failAt(sw.Pos(), "keys.go translator: the type switch must be on any(<key>)")
		}
		id, ok := unparen(call.Args[0]).(*ast.Ident)
		if !ok {
			w.failAt(sw.Pos(), "keys.go translator: the type switch must be on any(<key>)")
		}
		if tp, ok := w.info.TypeOf(id).(*types.TypeParam); !ok || tp != tparam {
			w.failAt(sw.Pos(), "keys.go translator: the type switch must be on a value of the key type")
		}
	}

	seen := map[string]bool{}
	for _, cl := range sw.Body.List {
		cc := cl.(*ast.CaseClause)
		if cc.List == nil {
			// default: must panic (unreachable for the constrained type set)
			if len(cc.Body) != 1 {
				w.failAt(cc.Pos(), "keys.go translator: default clause must be a single panic")
			}
			es, ok := cc.Body[0].(*ast.ExprStmt)
			if ok {
				if call, ok := es.X.(*ast.CallExpr); ok {
					if id, ok := call.Fun.(*ast.Ident); ok && id.Name == "panic" {
						continue
					}
				}
			}
			w.failAt(cc.Pos(), "keys.go translator: default clause must be a single panic")
		}
		if len(cc.List) != 1 {
			w.failAt(cc.Pos(), "keys.go translator: clause with several types")
		}
		t := w.info.TypeOf(cc.List[0])
		tname := types.TypeString(t, nil)
		if seen[tname] {
			w.failAt(cc.Pos(), "keys.go translator: type %s handled twice", tname)
		}
		seen[tname] = true

		type variant struct {
			suffix string
			uSize  int
			body   []ast.Stmt
		}
		var variants []variant
		b := t.Underlying().(*types.Basic)
		if b.Kind() == types.Uint || b.Kind() == types.Int {
			probe := &kctx{w: w}
			if len(cc.Body) != 1 {
				w.failAt(cc.Pos(), "keys.go translator: clause for %s must be `if bits.UintSize == 32 {…} else {…}`", tname)
			}
			ifs, ok := cc.Body[0].(*ast.IfStmt)
			if !ok || !probe.isUintSizeTest(ifs.Cond) || ifs.Init != nil {
				w.failAt(cc.Pos(), "keys.go translator: clause for %s must be `if bits.UintSize == 32 {…} else {…}`", tname)
			}
			el, ok := ifs.Else.(*ast.BlockStmt)
			if !ok {
				w.failAt(cc.Pos(), "keys.go translator: clause for %s must have a plain else branch", tname)
			}
			variants = []variant{{tname + "_32", 32, ifs.Body.List}, {tname + "_64", 64, el.List}}
		} else {
			variants = []variant{{tname, 0, cc.Body}}
		}
		for _, v := range variants {
			c := &kctx{w: w, tparam: tparam, env: map[types.Object]kval{}, uSize: v.uSize}
			if v.uSize != 0 {
				c.caseW, c.signed = v.uSize, b.Kind() == types.Int
			} else {
				var ok bool
				c.caseW, c.signed, c.float, ok = basicWidth(t)
				if !ok {
					w.failAt(cc.Pos(), "keys.go translator: unsupported key type %s", tname)
				}
			}
			if transform {
				c.env[param] = kval{lean: "k", w: c.caseW}
			} else {
				c.bvar = param
			}
			// declarations before the switch (var b []byte / var k K)
			body := append(append([]ast.Stmt{}, pre...), v.body...)
			if transform {
				term := c.stmts(body, func() string {
					if c.outWord == "" || c.outLen == 0 {
						c.fail(cc.Pos(), "clause for %s does not produce an encoding", tname)
					}
					return c.outWord
				})
				*out = append(*out,
					fmt.Sprintf("def transform_%s (k : BitVec %d) : BitVec %d :=\n%s", v.suffix, c.caseW, c.outW, indent(term, "  ")),
					fmt.Sprintf("def transformLen_%s : Nat := %d", v.suffix, c.outLen), "")
			} else {
				term := c.stmts(body, func() string { c.fail(cc.Pos(), "clause for %s does not return", tname); return "" })
				if c.inW == 0 {
					c.fail(cc.Pos(), "clause for %s reads nothing", tname)
				}
				*out = append(*out,
					fmt.Sprintf("def restore_%s (i₀ : BitVec %d) : BitVec %d :=\n%s", v.suffix, c.inW, c.caseW, indent(term, "  ")),
					fmt.Sprintf("def restoreLen_%s : Nat := %d", v.suffix, c.inW/8), "")
			}
		}
	}
}

func genKeys(w *world) string {
	var defs []string
	for _, recv := range []string{"UnsignedBinaryKey", "SignedBinaryKey", "FloatBinaryKey"} {
		defs = append(defs, "/-! ### "+recv+" -/", "")
		w.genKeyMethod(recv, true, &defs)
		w.genKeyMethod(recv, false, &defs)
	}
	var b strings.Builder
	b.WriteString("-- GENERATED by tools/extract from /repo/keys.go — do not edit.\n")
	b.WriteString("import ArtVerif.Model.Ieee\n")
	b.WriteString("set_option linter.unusedVariables false\nnamespace ArtVerif.Gen.Keys\nopen ArtVerif\n\n")
	b.WriteString(strings.Join(defs, "\n"))
	b.WriteString("\nend ArtVerif.Gen.Keys\n")
	return b.String()
}
