package main

import (
	"fmt"
	"go/ast"
	"go/constant"
	"go/token"
	"go/types"
	"math/big"
	"strings"
)

// ---------------------------------------------------------------------------
// Kinds: the Lean-side sort of a translated Go expression.
//
//	uintN            -> BitVec N
//	int              -> Nat   (positions / shift counts; Int only as a result type)
//	bool             -> Bool
//	[]uintN          -> List (BitVec N)
// ---------------------------------------------------------------------------

type kindTag int

const (
	kBV kindTag = iota
	kNat
	kBool
	kList
)

type kind struct {
	tag kindTag
	w   int // bit width for kBV / element width for kList
}

func (k kind) lean() string {
	switch k.tag {
	case kBV:
		return fmt.Sprintf("BitVec %d", k.w)
	case kNat:
		return "Nat"
	case kBool:
		return "Bool"
	default:
		return fmt.Sprintf("List (BitVec %d)", k.w)
	}
}

func (k kind) String() string { return k.lean() }

func uintWidth(t types.Type) (int, bool) {
	b, ok := t.Underlying().(*types.Basic)
	if !ok {
		return 0, false
	}
	switch b.Kind() {
	case types.Uint8:
		return 8, true
	case types.Uint16:
		return 16, true
	case types.Uint32:
		return 32, true
	case types.Uint64:
		return 64, true
	}
	return 0, false
}

func (l *loaded) kindOf(t types.Type, pos token.Pos) kind {
	if t == nil {
		l.failAt(pos, "expression has no type information")
	}
	if w, ok := uintWidth(t); ok {
		return kind{kBV, w}
	}
	switch u := t.Underlying().(type) {
	case *types.Basic:
		switch u.Kind() {
		case types.Int:
			return kind{kNat, 0}
		case types.Bool, types.UntypedBool:
			return kind{kBool, 0}
		}
	case *types.Slice:
		if w, ok := uintWidth(u.Elem()); ok {
			return kind{kList, w}
		}
	}
	l.failAt(pos, "unsupported type %s", t)
	panic("unreachable")
}

// ---------------------------------------------------------------------------
// Constants
// ---------------------------------------------------------------------------

func (l *loaded) bigOf(v constant.Value, pos token.Pos) *big.Int {
	iv := constant.ToInt(v)
	if iv.Kind() != constant.Int {
		l.failAt(pos, "constant %s is not an integer", v)
	}
	switch x := constant.Val(iv).(type) {
	case int64:
		return big.NewInt(x)
	case *big.Int:
		return new(big.Int).Set(x)
	}
	l.failAt(pos, "constant %s has no integer representation", v)
	panic("unreachable")
}

// checkFits makes sure a constant-valued (sub)expression is representable in
// the Lean sort it is rendered at.  Go evaluates constant expressions with
// arbitrary precision; as long as every constant node fits, the fixed-width
// Lean operators compute the same value.
func (l *loaded) checkFits(v *big.Int, k kind, pos token.Pos) {
	switch k.tag {
	case kBV:
		if v.Sign() < 0 || v.BitLen() > k.w {
			l.failAt(pos, "constant %s does not fit %s", v, k)
		}
	case kNat:
		if v.Sign() < 0 {
			l.failAt(pos, "negative constant %s where a Nat-modelled int is required", v)
		}
	default:
		l.failAt(pos, "integer constant at sort %s", k)
	}
}

func (l *loaded) lit(v *big.Int, k kind, pos token.Pos) string {
	l.checkFits(v, k, pos)
	if k.tag == kBV {
		return fmt.Sprintf("0x%s#%d", v.Text(16), k.w)
	}
	return v.String()
}

// ---------------------------------------------------------------------------
// Per-function context
// ---------------------------------------------------------------------------

type fn struct {
	*loaded
	ptr       *types.Var // the *uintN parameter passed by value and returned, or nil
	ptrKind   kind
	resultInt bool // Go result type int: rendered at sort Int
	result    kind // valid if ptr == nil && !resultInt
}

var binOps = map[token.Token]string{
	token.AND: "&&&", token.OR: "|||", token.XOR: "^^^",
	token.ADD: "+", token.SUB: "-", token.MUL: "*",
}

var natOps = map[token.Token]bool{
	token.AND: true, token.OR: true, token.XOR: true, token.ADD: true, token.MUL: true,
}

var assignOps = map[token.Token]token.Token{
	token.AND_ASSIGN: token.AND, token.OR_ASSIGN: token.OR, token.XOR_ASSIGN: token.XOR,
	token.SHL_ASSIGN: token.SHL, token.SHR_ASSIGN: token.SHR,
	token.ADD_ASSIGN: token.ADD, token.SUB_ASSIGN: token.SUB,
}

func (f *fn) exprKind(e ast.Expr) kind {
	tv, ok := f.info.Types[e]
	if !ok {
		f.failAt(e.Pos(), "no type recorded for expression")
	}
	return f.kindOf(tv.Type, e.Pos())
}

// constOf returns the constant value of e, if it has one.
func (f *fn) constOf(e ast.Expr) (*big.Int, bool) {
	tv, ok := f.info.Types[e]
	if !ok || tv.Value == nil {
		return nil, false
	}
	return f.bigOf(tv.Value, e.Pos()), true
}

// expr translates a Go expression; the result is always atomic or fully
// parenthesised, so it can be spliced anywhere.
func (f *fn) expr(e ast.Expr) (string, kind) {
	// Every constant-valued node must fit the sort it is rendered at (see
	// checkFits); shift counts and Int-sorted results never come through here.
	if _, isParen := e.(*ast.ParenExpr); !isParen {
		if v, ok := f.constOf(e); ok {
			f.checkFits(v, f.exprKind(e), e.Pos())
		}
	}
	switch e := e.(type) {
	case *ast.ParenExpr:
		return f.expr(e.X)

	case *ast.BasicLit:
		v, ok := f.constOf(e)
		if !ok || e.Kind != token.INT {
			f.failAt(e.Pos(), "unsupported literal %s", e.Value)
		}
		k := f.exprKind(e)
		return f.lit(v, k, e.Pos()), k

	case *ast.Ident:
		return f.ident(e)

	case *ast.StarExpr:
		if id, ok := e.X.(*ast.Ident); ok && f.ptr != nil && f.info.Uses[id] == f.ptr {
			return id.Name, f.ptrKind
		}
		f.failAt(e.Pos(), "unsupported pointer dereference (only *<pointer parameter> is supported)")

	case *ast.UnaryExpr:
		if v, ok := f.constOf(e); ok && (e.Op == token.SUB || e.Op == token.ADD) {
			k := f.exprKind(e)
			return f.lit(v, k, e.Pos()), k
		}
		x, k := f.expr(e.X)
		switch {
		case e.Op == token.XOR && k.tag == kBV:
			return "(~~~ " + x + ")", k
		case e.Op == token.SUB && k.tag == kBV:
			return "(- " + x + ")", k
		case e.Op == token.NOT && k.tag == kBool:
			return "(!" + x + ")", k
		}
		f.failAt(e.Pos(), "unsupported unary operator %s on %s", e.Op, k)

	case *ast.BinaryExpr:
		x, k := f.expr(e.X)
		return f.binary(e.OpPos, e.Op, x, k, e.Y)

	case *ast.CallExpr:
		return f.call(e)

	case *ast.CompositeLit:
		k := f.exprKind(e)
		if k.tag != kList {
			f.failAt(e.Pos(), "unsupported composite literal of type %s", f.info.TypeOf(e))
		}
		var elts []string
		for _, el := range e.Elts {
			if _, keyed := el.(*ast.KeyValueExpr); keyed {
				f.failAt(el.Pos(), "unsupported keyed element in slice literal")
			}
			s, ek := f.expr(el)
			if ek != (kind{kBV, k.w}) {
				f.failAt(el.Pos(), "slice element of sort %s in %s", ek, k)
			}
			elts = append(elts, s)
		}
		return "[" + strings.Join(elts, ", ") + "]", k
	}
	f.failAt(e.Pos(), "unsupported expression %T", e)
	panic("unreachable")
}

func (f *fn) ident(id *ast.Ident) (string, kind) {
	obj := f.info.Uses[id]
	if obj == nil {
		f.failAt(id.Pos(), "unresolved identifier %s", id.Name)
	}
	switch o := obj.(type) {
	case *types.Var:
		if o == f.ptr {
			f.failAt(id.Pos(), "pointer parameter %s used other than through *%s", id.Name, id.Name)
		}
		if o.IsField() || o.Parent() == f.pkg.Scope() || o.Pkg() != f.pkg {
			f.failAt(id.Pos(), "unsupported reference to non-local variable %s", id.Name)
		}
		return id.Name, f.kindOf(o.Type(), id.Pos())
	case *types.Const:
		if o.Parent() != f.pkg.Scope() || f.fset.Position(o.Pos()).Filename != f.node4Path {
			f.failAt(id.Pos(), "constant %s is not declared at package level in node4.go", id.Name)
		}
		return id.Name, f.kindOf(o.Type(), id.Pos())
	}
	f.failAt(id.Pos(), "unsupported reference to %s", obj)
	panic("unreachable")
}

// shiftCount renders the right operand of a shift as a Nat.
func (f *fn) shiftCount(e ast.Expr) string {
	if v, ok := f.constOf(e); ok {
		if v.Sign() < 0 {
			f.failAt(e.Pos(), "negative shift count %s", v)
		}
		return v.String()
	}
	s, k := f.expr(e)
	switch k.tag {
	case kNat:
		return s
	case kBV:
		return "(" + s + ").toNat"
	}
	f.failAt(e.Pos(), "unsupported shift count of sort %s", k)
	panic("unreachable")
}

// binary renders `x op y` where x is already translated (shared between
// binary expressions and `x op= y` statements).
func (f *fn) binary(pos token.Pos, op token.Token, x string, k kind, y ast.Expr) (string, kind) {
	switch op {
	case token.SHL, token.SHR:
		if k.tag != kBV && k.tag != kNat {
			f.failAt(pos, "unsupported shift of a %s", k)
		}
		sym := "<<<"
		if op == token.SHR {
			sym = ">>>"
		}
		return "(" + x + " " + sym + " " + f.shiftCount(y) + ")", k
	}

	ys, yk := f.expr(y)
	if yk != k {
		f.failAt(pos, "operands of %s have different sorts (%s, %s)", op, k, yk)
	}
	switch op {
	case token.AND, token.OR, token.XOR, token.ADD, token.SUB, token.MUL:
		if k.tag == kBV || (k.tag == kNat && natOps[op]) {
			return "(" + x + " " + binOps[op] + " " + ys + ")", k
		}
	case token.AND_NOT:
		if k.tag == kBV {
			return "(" + x + " &&& (~~~ " + ys + "))", k
		}
	case token.EQL, token.NEQ:
		return "(" + x + " " + op.String() + " " + ys + ")", kind{kBool, 0}
	case token.LSS, token.LEQ, token.GTR, token.GEQ:
		if k.tag == kBV || k.tag == kNat { // BitVec order is the unsigned one
			return "(decide (" + x + " " + op.String() + " " + ys + "))", kind{kBool, 0}
		}
	case token.LAND, token.LOR:
		if k.tag == kBool {
			return "(" + x + " " + op.String() + " " + ys + ")", k
		}
	}
	f.failAt(pos, "unsupported binary operator %s on %s", op, k)
	panic("unreachable")
}

func (f *fn) call(e *ast.CallExpr) (string, kind) {
	if e.Ellipsis.IsValid() {
		f.failAt(e.Pos(), "unsupported variadic call")
	}
	// Conversions T(x).
	if tv, ok := f.info.Types[e.Fun]; ok && tv.IsType() {
		if len(e.Args) != 1 {
			f.failAt(e.Pos(), "malformed conversion")
		}
		to := f.kindOf(tv.Type, e.Pos())
		if v, ok := f.constOf(e); ok {
			return f.lit(v, to, e.Pos()), to
		}
		x, from := f.expr(e.Args[0])
		switch {
		case from.tag == kBV && to.tag == kBV:
			return fmt.Sprintf("(BitVec.setWidth %d %s)", to.w, x), to
		case from.tag == kNat && to.tag == kBV:
			return fmt.Sprintf("(BitVec.ofNat %d %s)", to.w, x), to
		case from.tag == kBV && to.tag == kNat:
			return "(" + x + ").toNat", to
		case from.tag == kNat && to.tag == kNat:
			return x, to
		}
		f.failAt(e.Pos(), "unsupported conversion from %s to %s", from, to)
	}
	// math/bits.TrailingZeros32.
	if sel, ok := e.Fun.(*ast.SelectorExpr); ok {
		if pid, ok := sel.X.(*ast.Ident); ok {
			if pn, ok := f.info.Uses[pid].(*types.PkgName); ok &&
				pn.Imported().Path() == "math/bits" && sel.Sel.Name == "TrailingZeros32" && len(e.Args) == 1 {
				x, k := f.expr(e.Args[0])
				if k != (kind{kBV, 32}) {
					f.failAt(e.Pos(), "bits.TrailingZeros32 applied to a %s", k)
				}
				return "(ctz32 " + x + ")", kind{kNat, 0}
			}
		}
	}
	f.failAt(e.Pos(), "unsupported call to %s", types.ExprString(e.Fun))
	panic("unreachable")
}

// ---------------------------------------------------------------------------
// Statements
// ---------------------------------------------------------------------------

func (f *fn) ret(s *ast.ReturnStmt) string {
	if f.ptr != nil {
		if len(s.Results) != 0 {
			f.failAt(s.Pos(), "return with values in a function with a pointer parameter")
		}
		return f.ptr.Name()
	}
	if len(s.Results) != 1 {
		f.failAt(s.Pos(), "unsupported return with %d values", len(s.Results))
	}
	e := s.Results[0]
	if f.resultInt {
		if v, ok := f.constOf(e); ok {
			return "(" + v.String() + " : Int)"
		}
		x, k := f.expr(e)
		if k.tag != kNat {
			f.failAt(e.Pos(), "int result of sort %s", k)
		}
		return "(Int.ofNat " + x + ")"
	}
	x, k := f.expr(e)
	if k != f.result {
		f.failAt(e.Pos(), "result of sort %s, expected %s", k, f.result)
	}
	return x
}

func (f *fn) assign(s *ast.AssignStmt, out *[]string) {
	if len(s.Lhs) != 1 || len(s.Rhs) != 1 {
		f.failAt(s.Pos(), "unsupported multiple assignment")
	}
	var name string
	var k kind
	switch lhs := s.Lhs[0].(type) {
	case *ast.Ident:
		if lhs.Name == "_" {
			f.failAt(lhs.Pos(), "unsupported assignment to _")
		}
		obj := f.info.Defs[lhs]
		if obj == nil {
			obj = f.info.Uses[lhs]
		}
		v, ok := obj.(*types.Var)
		if !ok || v.IsField() || v.Parent() == f.pkg.Scope() || v.Pkg() != f.pkg {
			f.failAt(lhs.Pos(), "unsupported assignment target %s (not a local variable)", lhs.Name)
		}
		if v == f.ptr {
			f.failAt(lhs.Pos(), "unsupported assignment to the pointer parameter %s itself", lhs.Name)
		}
		name, k = lhs.Name, f.kindOf(v.Type(), lhs.Pos())
	case *ast.StarExpr:
		id, ok := lhs.X.(*ast.Ident)
		if !ok || f.ptr == nil || f.info.Uses[id] != f.ptr {
			f.failAt(lhs.Pos(), "unsupported assignment through a pointer other than the pointer parameter")
		}
		name, k = id.Name, f.ptrKind
	default:
		f.failAt(s.Pos(), "unsupported assignment target %T", s.Lhs[0])
	}

	var rhs string
	var rk kind
	switch s.Tok {
	case token.DEFINE, token.ASSIGN:
		rhs, rk = f.expr(s.Rhs[0])
	default:
		op, ok := assignOps[s.Tok]
		if !ok {
			f.failAt(s.TokPos, "unsupported assignment operator %s", s.Tok)
		}
		rhs, rk = f.binary(s.TokPos, op, name, k, s.Rhs[0])
	}
	if rk != k {
		f.failAt(s.Pos(), "assignment of a %s to %s : %s", rk, name, k)
	}
	*out = append(*out, fmt.Sprintf("  let %s : %s := %s", name, k.lean(), rhs))
}

func (f *fn) block(stmts []ast.Stmt, end token.Pos, out *[]string) {
	for i, st := range stmts {
		switch s := st.(type) {
		case *ast.AssignStmt:
			f.assign(s, out)
		case *ast.IfStmt:
			if s.Init != nil || s.Else != nil {
				f.failAt(s.Pos(), "unsupported if statement with init clause or else branch")
			}
			if len(s.Body.List) != 1 {
				f.failAt(s.Pos(), "unsupported if body (only `if cond { return e }` is supported)")
			}
			r, ok := s.Body.List[0].(*ast.ReturnStmt)
			if !ok {
				f.failAt(s.Body.List[0].Pos(), "unsupported if body (only `if cond { return e }` is supported)")
			}
			cond, ck := f.expr(s.Cond)
			if ck.tag != kBool {
				f.failAt(s.Cond.Pos(), "if condition of sort %s", ck)
			}
			*out = append(*out, "  if "+cond+" then", "    "+f.ret(r), "  else")
			f.block(stmts[i+1:], end, out)
			return
		case *ast.ReturnStmt:
			if i != len(stmts)-1 {
				f.failAt(stmts[i+1].Pos(), "unsupported statement after return")
			}
			*out = append(*out, "  "+f.ret(s))
			return
		default:
			f.failAt(st.Pos(), "unsupported statement %T", st)
		}
	}
	if f.ptr == nil {
		f.failAt(end, "function body does not end in a return statement")
	}
	*out = append(*out, "  "+f.ptr.Name())
}

// ---------------------------------------------------------------------------
// Declarations
// ---------------------------------------------------------------------------

func (l *loaded) funcDecl(d *ast.FuncDecl) []string {
	if d.Recv != nil {
		l.failAt(d.Pos(), "unsupported method declaration %s", d.Name.Name)
	}
	if d.Type.TypeParams != nil {
		l.failAt(d.Pos(), "unsupported generic function %s", d.Name.Name)
	}
	if d.Body == nil {
		l.failAt(d.Pos(), "unsupported function %s without body", d.Name.Name)
	}
	f := &fn{loaded: l}
	head := "def " + d.Name.Name
	for _, field := range d.Type.Params.List {
		if len(field.Names) == 0 {
			l.failAt(field.Pos(), "unsupported unnamed parameter")
		}
		for _, id := range field.Names {
			if id.Name == "_" {
				l.failAt(id.Pos(), "unsupported blank parameter")
			}
			v, ok := l.info.Defs[id].(*types.Var)
			if !ok {
				l.failAt(id.Pos(), "no object for parameter %s", id.Name)
			}
			var k kind
			if p, isPtr := v.Type().(*types.Pointer); isPtr {
				if _, ok := uintWidth(p.Elem()); !ok {
					l.failAt(id.Pos(), "unsupported parameter type %s", v.Type())
				}
				if f.ptr != nil {
					l.failAt(id.Pos(), "unsupported second pointer parameter %s", id.Name)
				}
				k = l.kindOf(p.Elem(), id.Pos())
				f.ptr, f.ptrKind = v, k
			} else {
				k = l.kindOf(v.Type(), id.Pos())
				if k.tag != kBV && k.tag != kNat {
					l.failAt(id.Pos(), "unsupported parameter type %s", v.Type())
				}
			}
			head += fmt.Sprintf(" (%s : %s)", id.Name, k.lean())
		}
	}

	nres := 0
	if d.Type.Results != nil {
		for _, field := range d.Type.Results.List {
			if len(field.Names) != 0 {
				l.failAt(field.Pos(), "unsupported named result")
			}
			nres++
		}
	}
	var resLean string
	switch {
	case f.ptr != nil && nres == 0:
		resLean = f.ptrKind.lean()
	case f.ptr == nil && nres == 1:
		rt := l.info.TypeOf(d.Type.Results.List[0].Type)
		k := l.kindOf(rt, d.Type.Results.Pos())
		switch k.tag {
		case kNat:
			f.resultInt, resLean = true, "Int"
		case kBV, kList:
			f.result, resLean = k, k.lean()
		default:
			l.failAt(d.Type.Results.Pos(), "unsupported result type %s", rt)
		}
	default:
		l.failAt(d.Pos(), "unsupported signature of %s: need either exactly one result and no pointer parameter, or one pointer parameter and no result", d.Name.Name)
	}

	lines := []string{head + " : " + resLean + " :="}
	f.block(d.Body.List, d.Body.Rbrace, &lines)
	return lines
}

func (l *loaded) constDecl(d *ast.GenDecl) []string {
	var lines []string
	f := &fn{loaded: l}
	for _, sp := range d.Specs {
		vs := sp.(*ast.ValueSpec)
		if len(vs.Values) != len(vs.Names) {
			l.failAt(vs.Pos(), "unsupported constant declaration without explicit value (iota / implicit repetition)")
		}
		for i, id := range vs.Names {
			c, ok := l.info.Defs[id].(*types.Const)
			if !ok || id.Name == "_" {
				l.failAt(id.Pos(), "unsupported constant declaration %s", id.Name)
			}
			if _, ok := uintWidth(c.Type()); !ok {
				l.failAt(id.Pos(), "unsupported constant type %s for %s (need a sized unsigned integer type)", c.Type(), id.Name)
			}
			k := l.kindOf(c.Type(), id.Pos())
			rhs, rk := f.expr(vs.Values[i])
			if rk != k {
				l.failAt(id.Pos(), "constant %s : %s initialised with a %s", id.Name, k, rk)
			}
			lines = append(lines, fmt.Sprintf("def %s : %s := %s", id.Name, k.lean(), rhs))
		}
	}
	return lines
}

func genNode4(l *loaded) string {
	var consts, funcs []string
	for _, decl := range l.node4.Decls {
		switch d := decl.(type) {
		case *ast.FuncDecl:
			funcs = append(funcs, l.funcDecl(d)...)
			funcs = append(funcs, "")
		case *ast.GenDecl:
			switch d.Tok {
			case token.IMPORT:
			case token.CONST:
				consts = append(consts, l.constDecl(d)...)
			default:
				l.failAt(d.Pos(), "unsupported %s declaration", d.Tok)
			}
		default:
			l.failAt(decl.Pos(), "unsupported declaration %T", decl)
		}
	}
	var b strings.Builder
	b.WriteString("-- GENERATED by tools/extract from /repo/node4.go — do not edit.\n")
	b.WriteString("import ArtVerif.Model.Prelude\n")
	b.WriteString("namespace ArtVerif.Gen\n\n")
	if len(consts) > 0 {
		b.WriteString(strings.Join(consts, "\n") + "\n\n")
	}
	for _, ln := range funcs {
		b.WriteString(ln + "\n")
	}
	b.WriteString("end ArtVerif.Gen\n")
	return b.String()
}
